// C31 — concurrent plz invocations on one repo do not corrupt outputs.
// Monitor: 2-4 plz build processes started at seeded offsets on one generated repository with
// overlapping requests (//..., a package, single targets), slow-ish actions, delay injection at the
// build-step hook points (between lock acquisition, command, output move, hash recording). Oracle:
// every process exits 0 and the final outputs of the union of requests equal a single clean build.
// Overlapping / repeated executions of one action are counted as observations.
package c31

import (
	"fmt"
	"math/rand"
	"path/filepath"
	"strings"
	"sync"
	"testing"
	"time"

	"verifharness/e2e"
	"verifharness/lib"
)

func TestC31(t *testing.T) {
	r := lib.Start("C31")
	defer lib.End(t, r)
	r.Rule = "case = one round of k in {2,3,4} simultaneous `plz build` processes on one generated repository (actions sleep 10-100 ms, directory outputs, filegroups re-exporting outputs), requests drawn from //..., //pkg:all and single targets, start offsets 0-200 ms, from an empty or partially built plz-out, a quarter of the rounds on the race-built binary; distinct by (repository, requests, offsets); non-trivial = at least two processes requested a common command-bearing target"
	r.Assumes = []string{"flock semantics of the local scratch filesystem", "the oracle is a single from-empty build of the same sources at the same path"}
	n := r.Pick(40, 1500)
	r.ForEach("round", n, 6, func(i int, rng *rand.Rand) {
		sb := e2e.NewSandbox(filepath.Join(r.Scratch(), fmt.Sprintf("r%d", i)))
		defer lib.RemoveAll(sb.Work)
		state := e2e.Generate(rng, e2e.GenOpts{Tools: true, DirOuts: true, Sleep: 100, MinTargets: 5, MaxTargets: 14, MaxPkgs: 3, DepOneIn: 3})
		state.VLog = sb.VLog
		state.Overlap = true
		if err := state.Materialize(sb.Repo); err != nil {
			panic(err)
		}
		race := i%4 == 0
		bin := lib.PlzBin(race)
		if rng.Intn(2) == 0 {
			// partially built plz-out
			tg := state.Targets[rng.Intn(len(state.Targets))]
			sb.Plz(lib.PlzBin(false), nil, 120*time.Second, "build", tg.Label())
			sb.ResetProbe()
		}
		k := 2 + rng.Intn(3)
		type proc struct {
			Request []string `json:"request"`
			Offset  int      `json:"offset_ms"`
			Exit    int      `json:"exit"`
			stderr  string
			timeout bool
		}
		procs := make([]*proc, k)
		union := map[string]bool{}
		counts := map[string]int{}
		for j := range procs {
			p := &proc{Offset: rng.Intn(200)}
			switch rng.Intn(3) {
			case 0:
				p.Request = []string{"//..."}
			case 1:
				p.Request = []string{"//" + state.Targets[rng.Intn(len(state.Targets))].Pkg + ":all"}
			default:
				p.Request = []string{state.Targets[rng.Intn(len(state.Targets))].Label()}
			}
			for _, tg := range state.Targets {
				req := p.Request[0]
				if req == "//..." || req == "//"+tg.Pkg+":all" || req == tg.Label() {
					for l := range state.Closure(tg.Label()) {
						if !union[l+"#"+fmt.Sprint(j)] {
							union[l+"#"+fmt.Sprint(j)] = true
							counts[l]++
						}
					}
				}
			}
			procs[j] = p
		}
		shared := 0
		var want []*e2e.Target
		for _, tg := range state.Targets {
			if counts[tg.Label()] > 0 {
				want = append(want, tg)
			}
			if counts[tg.Label()] > 1 && tg.HasCommand() {
				shared++
			}
		}
		var wg sync.WaitGroup
		for j, p := range procs {
			wg.Add(1)
			go func(j int, p *proc) {
				defer wg.Done()
				time.Sleep(time.Duration(p.Offset) * time.Millisecond)
				env := []string{
					fmt.Sprintf("VERIF_HOOK_DELAY=%d:%g:%d:build.*", int64(i*10+j), 0.5, 20000),
					"GORACE=halt_on_error=0 log_path=" + filepath.Join(sb.Work, fmt.Sprintf("race%d", j)),
				}
				args := append([]string{"build", "-n", fmt.Sprint(1 + (i+j)%4)}, p.Request...)
				res := sb.PlzWatched(bin, env, 240*time.Second, args...)
				p.Exit, p.stderr, p.timeout = res.Exit, lib.Tail(res.Stderr, 1500), res.TimedOut
			}(j, p)
		}
		wg.Wait()
		probe := sb.ReadProbe()
		r.Case(lib.JSON(state.AllFiles())+lib.JSON(procs), shared > 0)
		r.Obs("rounds", 1)
		r.Obs("processes", int64(k))
		r.Obs("shared_command_targets", int64(shared))
		for _, v := range probe.Violations {
			r.Obs("probe_"+strings.Fields(v)[0], 1) // DUP / OVERLAP: observations only (the statement is about exit status and final contents)
		}
		wit := map[string]any{"state": state, "procs": procs, "race_binary": race, "probe": probe}
		for j, p := range procs {
			if p.timeout {
				r.Inconclusive(fmt.Sprintf("round %d: process %d hit the 240 s watchdog", i, j))
				return
			}
			if p.Exit == 66 && race {
				// The race detector's own exit status (halt_on_error=0: the build ran to its end). A goroutine-level
				// race is C04's subject, not a statement about concurrent processes: keep the report as a note and
				// go on to compare the outputs.
				if reps := lib.ParseRaceLogs(filepath.Join(sb.Work, fmt.Sprintf("race%d", j)), nil); len(reps) > 0 {
					r.Obs("processes_with_race_detector_exit", 1)
					for _, rep := range reps {
						r.NoteOnce("race_in_plz_process:"+rep.Key, rep.Text)
					}
					continue
				}
			}
			if p.Exit != 0 {
				wit["stderr"] = p.stderr
				r.Violation("process-fails", fmt.Sprintf("process %d of %d (request %v) exited %d", j, k, p.Request, p.Exit), wit, i)
				return
			}
		}
		args := []string{"build"}
		for _, tg := range want {
			args = append(args, tg.Label())
		}
		clean := sb.CleanBuild(lib.PlzBin(false), state, nil, args, want)
		if clean.Result.Exit != 0 {
			r.Inconclusive(fmt.Sprintf("round %d: clean build fails: %s", i, lib.Tail(clean.Result.Stderr, 300)))
			return
		}
		got := sb.SnapshotOutputs(state, want)
		if d := lib.Diff(clean.Snapshot, got); len(d) > 0 {
			wit["diff"] = d
			r.Violation("final-outputs-differ/"+strings.SplitN(d[0], " ", 2)[0], "after concurrent builds plz-out differs from a single clean build: "+strings.Join(d, "; "), wit, i)
			return
		}
		if r.WantSample() {
			r.Sample(map[string]any{"procs": procs, "targets": len(state.Targets), "shared": shared, "commands_ran": len(probe.Started)})
		}
	})
	r.RequireObserved("rounds", "shared_command_targets")
}

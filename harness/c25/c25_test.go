// C25 — garbage collection never removes anything still needed.
//
// Monitor: the real binary runs `plz gc --dry_run` on generated repositories (binaries, tools,
// libraries built by a subincluded macro with hidden children, gentest tests with data, test_only
// targets, require/provide re-routing, gc_sibling labels, files and directories shared between
// targets) under random [gc] keep / keeplabel settings, --conservative and command-line filters. A
// reference keep-closure is computed from the generator's own knowledge of the graph, reading the
// statement literally: roots are non-test binaries, targets carrying a keep label, targets named in
// [gc] keep, the subincluded target, and tests that declare a dependency on a kept non-test_only
// target; the closure follows declared dependencies, resolved provides and a rule's hidden child.
// Nothing in the closure may be printed in the removal list, and no printed source path may be a
// file that a target of the closure consumes (as a source, inside a directory source, or as data).
package c25

import (
	"fmt"
	"math/rand"
	"os"
	"path/filepath"
	"sort"
	"strings"
	"sync"
	"testing"
	"time"

	"verifharness/e2e"
	b "verifharness/e2eblib"
	"verifharness/lib"
)

// A gcInv is one way of invoking plz gc on a repository.
type gcInv struct {
	Conservative bool     `json:"conservative,omitempty"`
	KeepLabels   []string `json:"keep_labels,omitempty"` // [gc] keeplabel
	Keep         []string `json:"keep,omitempty"`        // [gc] keep
	Filter       []string `json:"filter,omitempty"`      // command-line targets ("limit gc to")
}

// ---- reference model ----

func absLabel(pkg, l string) string {
	if strings.HasPrefix(l, ":") {
		return "//" + pkg + l
	}
	return l
}

func pkgOf(label string) string {
	s := strings.TrimPrefix(label, "//")
	if k := strings.Index(s, ":"); k >= 0 {
		return s[:k]
	}
	return s
}

// keepMatches implements the documented meaning of a [gc] keep entry: an exact label, `//p:all`
// (every target of package p) or `//p/...` (every target of p and the packages below it, compared
// component-wise).
func keepMatches(entry, label string) bool {
	if entry == label {
		return true
	}
	lp := pkgOf(label)
	if strings.HasSuffix(entry, ":all") {
		return lp == pkgOf(entry)
	}
	if strings.HasSuffix(entry, "/...") {
		p := strings.TrimSuffix(strings.TrimPrefix(entry, "//"), "/...")
		return lp == p || strings.HasPrefix(lp, p+"/")
	}
	if entry == "//..." {
		return true
	}
	return false
}

func inList(ss []string, s string) bool {
	for _, x := range ss {
		if x == s {
			return true
		}
	}
	return false
}

// edges lists the real labels a real label needs: everything it declares, the provide it is
// re-routed to (never for data or tool dependencies, as documented for require/provide), and a
// macro rule's hidden child.
func edges(r *b.Repo, label string) []string { return edgesOf(r, label, true) }

// edgesOf: with resolved == false only what the label declares itself (and a macro rule's hidden child).
func edgesOf(r *b.Repo, label string, resolved bool) []string {
	t := r.Owner(label)
	if t == nil {
		return nil
	}
	var out []string
	if t.Kind == b.Lib {
		if label == t.Label() {
			out = append(out, t.ChildLabel())
		}
		for _, d := range t.Deps {
			out = append(out, absLabel(t.Pkg, d))
		}
		return out
	}
	var tools, data []string
	for _, l := range t.Tools {
		tools = append(tools, absLabel(t.Pkg, l))
	}
	for _, k := range b.SortedKeys(t.NamedTools) {
		for _, l := range t.NamedTools[k] {
			tools = append(tools, absLabel(t.Pkg, l))
		}
	}
	for _, l := range t.DataLabels() {
		data = append(data, absLabel(t.Pkg, l))
	}
	for _, l := range t.InputLabels() {
		l = absLabel(t.Pkg, l)
		out = append(out, l)
		if !resolved || len(t.Requires) == 0 || inList(tools, l) || inList(data, l) {
			continue
		}
		d := r.Owner(l)
		if d == nil {
			continue
		}
		for _, req := range t.Requires {
			if d.Kind == b.Lib && req == "lx" && l == d.Label() {
				out = append(out, d.ChildLabel())
			}
			if p, ok := d.Provides[req]; ok {
				out = append(out, absLabel(d.Pkg, p))
			}
		}
	}
	return out
}

// A kept entry says why a real label is in the reference closure.
type kept struct {
	Root   string // the root it was reached from
	Reason string // what makes that root a root
	IsRoot bool
}

func closeOver(r *b.Repo, k map[string]kept, root, reason string) {
	var walk func(l string, isRoot bool)
	walk = func(l string, isRoot bool) {
		if _, ok := k[l]; ok {
			return
		}
		if r.Owner(l) == nil && l != b.DefsLabel {
			return
		}
		k[l] = kept{Root: root, Reason: reason, IsRoot: isRoot}
		for _, e := range edges(r, l) {
			walk(e, false)
		}
	}
	walk(root, true)
}

// testSubjects lists what a test is "a test of": the labels it declares as sources, dependencies or data.
func testSubjects(t *b.Target) []string {
	var out []string
	add := func(ss []string) {
		for _, s := range ss {
			if b.IsLabel(s) {
				out = append(out, absLabel(t.Pkg, s))
			}
		}
	}
	add(t.SrcLabels)
	for _, k := range b.SortedKeys(t.NamedSrcs) {
		add(t.NamedSrcs[k])
	}
	add(t.Deps)
	add(t.Exported)
	add(t.DataLabels())
	return out
}

// mustKeep is the reference keep-closure.
func mustKeep(r *b.Repo, inv gcInv) map[string]kept {
	k := map[string]kept{}
	type root struct{ label, reason string }
	var roots []root
	for _, re := range r.Reals() {
		t := re.Model
		if !re.Hidden {
			if t.Kind == b.Genrule && (t.Binary || t.IsTool) {
				roots = append(roots, root{re.Label, "non-test-binary"})
			}
			for _, kl := range inv.KeepLabels {
				if t.HasLabel(kl) {
					roots = append(roots, root{re.Label, "keep-label"})
				}
			}
		}
		for _, e := range inv.Keep {
			if keepMatches(e, re.Label) {
				roots = append(roots, root{re.Label, "named-in-gc-keep"})
			}
		}
	}
	if len(r.SubincludingPkgs()) > 0 {
		roots = append(roots, root{b.DefsLabel, "subinclude"})
	}
	for _, ro := range roots {
		closeOver(r, k, ro.label, ro.reason)
	}
	// tests of kept, non-test_only targets (one round over the closure of the other roots: the statement
	// does not say that a test kept this way makes further tests roots)
	var tests []string
	for _, t := range r.Targets {
		if t.Kind != b.Gentest {
			continue
		}
		if _, ok := k[t.Label()]; ok {
			continue
		}
		for _, s := range testSubjects(t) {
			d := r.Owner(s)
			if _, ok := k[s]; ok && d != nil && !d.TestOnly {
				tests = append(tests, t.Label())
				break
			}
		}
	}
	for _, l := range tests {
		closeOver(r, k, l, "test-of-kept-target")
	}
	return k
}

// A finding is one refutation found in the output of one invocation.
type finding struct {
	Key, What string
	Detail    map[string]any
}

// A gcOutput is the parsed removal proposal.
type gcOutput struct {
	Targets []string
	Srcs    []string
}

func parseGC(stdout string) gcOutput {
	var o gcOutput
	for _, l := range b.Lines(stdout) {
		if strings.HasPrefix(l, "//") {
			o.Targets = append(o.Targets, l)
		} else {
			o.Srcs = append(o.Srcs, l)
		}
	}
	return o
}

// gcSiblingOf mirrors the documented meaning of the gc_sibling: label (first label whose target exists).
func gcSiblingOf(r *b.Repo, t *b.Target) string {
	for _, l := range t.Labels {
		if strings.HasPrefix(l, "gc_sibling:") {
			s := "//" + t.Pkg + ":" + strings.TrimPrefix(l, "gc_sibling:")
			if r.Target(s) != nil {
				return s
			}
		}
	}
	return ""
}

type evalStats struct {
	closure, roots, listedTargets, listedSrcs int
	viaProvides                               int // closure members that only a resolved provide leads to
	obs                                       map[string]int
}

// evaluate compares one removal proposal with the reference closure.
func evaluate(r *b.Repo, inv gcInv, out gcOutput) ([]finding, evalStats) {
	k := mustKeep(r, inv)
	st := evalStats{closure: len(k), listedTargets: len(out.Targets), listedSrcs: len(out.Srcs), obs: map[string]int{}}
	for l, v := range k {
		if v.IsRoot {
			st.roots++
		} else if !declaredByKept(r, k, l) {
			st.viaProvides++
		}
	}
	var fs []finding
	listed := map[string]bool{}
	for _, l := range out.Targets {
		listed[l] = true
	}
	for _, l := range out.Targets {
		why, needed := k[l]
		if !needed {
			// observation only (§6.9): a rule proposed for removal although its hidden child is needed
			if t := r.Target(l); t != nil && t.Kind == b.Lib {
				if _, ok := k[t.ChildLabel()]; ok {
					st.obs["rule_listed_while_hidden_child_needed"]++
				}
			}
			continue
		}
		class := "dep-of:" + why.Reason
		if why.IsRoot {
			class = "root:" + why.Reason
		} else if !declaredByKept(r, k, l) {
			// nothing that is kept names this target: it is needed because a kept target that `requires` a
			// language was re-routed to it by the `provides` of something it declares (or it is below such a target)
			class = "dep-through-provides-of:" + why.Reason
		}
		sib := ""
		if t := r.Target(l); t != nil {
			sib = gcSiblingOf(r, t)
		}
		how := class
		if _, sibNeeded := k[sib]; sib != "" && !sibNeeded {
			// the target's fate was taken from its gc_sibling: one class, whatever makes the target needed
			class = "gc_sibling-of-unneeded-target"
		}
		fs = append(fs, finding{
			Key:  "target/" + class,
			What: fmt.Sprintf("plz gc proposes removing %s, which is needed: it is in the dependency closure of kept root %s (%s)", l, why.Root, why.Reason),
			Detail: map[string]any{"removed_target": l, "kept_root": why.Root, "root_reason": why.Reason, "needed_as": how, "gc_sibling": sib,
				"path": pathTo(r, why.Root, l)},
		})
	}
	// source files: owners (model targets) that have a real label in the closure which is not itself proposed for removal
	var keptOwners []*b.Target
	for _, t := range r.Targets {
		_, a := k[t.Label()]
		_, c := k[t.ChildLabel()]
		if (a && !listed[t.Label()]) || (t.Kind == b.Lib && c && !listed[t.Label()]) {
			keptOwners = append(keptOwners, t)
		}
	}
	for _, p := range out.Srcs {
		for _, t := range keptOwners {
			isSrc := map[string]bool{}
			for _, s := range t.LocalSrcFiles() {
				isSrc[s] = true
			}
			for _, s := range t.LocalFiles() {
				full := filepath.Join(t.Pkg, strings.TrimSuffix(s, "/"))
				dir := strings.HasSuffix(s, "/")
				use := "data"
				if isSrc[s] {
					use = "src"
				}
				rel := ""
				switch {
				case p == full && dir:
					rel = "same-directory-" + use
				case p == full:
					rel = "same-file-" + use
				case dir && strings.HasPrefix(p, full+"/"):
					rel = "file-inside-kept-directory-" + use
				case strings.HasPrefix(full, p+"/"):
					// the proposal names a directory; whether that "deletes a source file" of the kept target is
					// left open by the statement: observation only
					st.obs["listed_directory_contains_kept_file"]++
					continue
				default:
					continue
				}
				why := k[t.Label()]
				if _, ok := k[t.Label()]; !ok {
					why = k[t.ChildLabel()]
				}
				fs = append(fs, finding{
					Key:  "src/" + rel,
					What: fmt.Sprintf("plz gc proposes deleting %s, which kept target %s uses (%s); %s is needed by root %s (%s)", p, t.Label(), rel, t.Label(), why.Root, why.Reason),
					Detail: map[string]any{"removed_source": p, "kept_target": t.Label(), "kept_target_entry": s, "relation": rel,
						"kept_root": why.Root, "root_reason": why.Reason},
				})
			}
		}
	}
	return fs, st
}

// declaredByKept reports whether a target of the closure reaches label l through declarations only, i.e.
// whether a walk that never follows a require/provide re-routing would still find it.
func declaredByKept(r *b.Repo, k map[string]kept, l string) bool {
	seen := map[string]bool{}
	var walk func(x string) bool
	walk = func(x string) bool {
		if x == l {
			return true
		}
		if seen[x] {
			return false
		}
		seen[x] = true
		for _, e := range edgesOf(r, x, false) {
			if walk(e) {
				return true
			}
		}
		return false
	}
	for x, v := range k {
		if v.IsRoot && walk(x) {
			return true
		}
	}
	return false
}

// pathTo returns one dependency path root -> ... -> target through the reference edges.
func pathTo(r *b.Repo, root, target string) []string {
	prev := map[string]string{root: ""}
	queue := []string{root}
	for len(queue) > 0 {
		l := queue[0]
		queue = queue[1:]
		if l == target {
			var p []string
			for x := l; x != ""; x = prev[x] {
				p = append([]string{x}, p...)
			}
			return p
		}
		for _, e := range edges(r, l) {
			if _, ok := prev[e]; !ok {
				prev[e] = l
				queue = append(queue, e)
			}
		}
	}
	return nil
}

// ---- generator of invocations ----

func genInv(rng *rand.Rand, r *b.Repo) gcInv {
	var inv gcInv
	inv.Conservative = rng.Intn(4) == 0
	if rng.Intn(2) == 0 {
		inv.KeepLabels = []string{[]string{"keepme", "l1", "l2"}[rng.Intn(3)]}
		if rng.Intn(4) == 0 {
			inv.KeepLabels = append(inv.KeepLabels, "l2")
		}
	}
	pkgs := r.Pkgs()
	if rng.Intn(2) == 0 {
		for j := 0; j < 1+rng.Intn(2); j++ {
			t := r.Targets[rng.Intn(len(r.Targets))]
			switch rng.Intn(6) {
			case 0:
				inv.Keep = append(inv.Keep, "//"+t.Pkg+":all")
			case 1:
				if t.Pkg != "" {
					inv.Keep = append(inv.Keep, "//"+t.Pkg+"/...")
				}
			default:
				inv.Keep = append(inv.Keep, t.Label())
			}
		}
	}
	if rng.Intn(3) == 0 {
		p := pkgs[rng.Intn(len(pkgs))]
		if p == "" || rng.Intn(2) == 0 {
			inv.Filter = []string{"//" + p + ":all"}
		} else {
			inv.Filter = []string{"//" + p + "/..."}
		}
	}
	return inv
}

func withInv(r *b.Repo, inv gcInv) *b.Repo {
	c := r.Clone()
	c.GcKeep = append([]string(nil), inv.Keep...)
	c.GcKeepLabel = append([]string(nil), inv.KeepLabels...)
	return c
}

// runGC writes the configuration for inv and runs plz gc --dry_run.
func runGC(sb *e2e.Sandbox, bin string, r *b.Repo, inv gcInv) lib.PlzResult {
	if err := os.WriteFile(filepath.Join(sb.Repo, ".plzconfig"), []byte(withInv(r, inv).ConfigText()), 0o644); err != nil {
		panic("harness: " + err.Error())
	}
	args := []string{"gc", "--dry_run"}
	if inv.Conservative {
		args = append(args, "--conservative")
	}
	args = append(args, inv.Filter...)
	return sb.PlzWatched(bin, nil, 300*time.Second, args...)
}

func sanitise(repo *b.Repo) {
	for _, t := range repo.Targets {
		if t.Op == "srcs" && len(t.Srcs)+len(t.SrcLabels) == 0 && t.NamedSrcs == nil {
			t.Op = "all"
		}
	}
}

// without returns the repository without model target i, or nil if the rest is not well-formed.
func without(r *b.Repo, i int) *b.Repo {
	c := r.Clone()
	c.Targets = append(c.Targets[:i:i], c.Targets[i+1:]...)
	if len(c.Targets) == 0 || c.Check() != nil {
		return nil
	}
	dropUnusedFiles(c)
	return c
}

// dropUnusedFiles removes files nobody consumes.
func dropUnusedFiles(c *b.Repo) {
	for p := range c.Files {
		used := false
		for _, t := range c.Targets {
			if t.ConsumesFile(p) {
				used = true
				break
			}
		}
		if !used {
			delete(c.Files, p)
		}
	}
}

// strips are the attribute simplifications tried on every target once no more targets can go.
var strips = []func(t *b.Target) bool{
	func(t *b.Target) bool { ok := len(t.Deps) > 0; t.Deps = nil; return ok },
	func(t *b.Target) bool { ok := len(t.Exported) > 0; t.Exported = nil; return ok },
	func(t *b.Target) bool { ok := len(t.SrcLabels) > 0; t.SrcLabels = nil; return ok },
	func(t *b.Target) bool { ok := len(t.Requires) > 0; t.Requires = nil; return ok },
	func(t *b.Target) bool { ok := len(t.Provides) > 0; t.Provides = nil; return ok },
	func(t *b.Target) bool {
		ok := len(t.Tools)+len(t.NamedTools) > 0
		t.Tools, t.NamedTools = nil, nil
		return ok
	},
	func(t *b.Target) bool {
		ok := len(t.Data)+len(t.NamedData) > 0
		t.Data, t.NamedData = nil, nil
		return ok
	},
	func(t *b.Target) bool { ok := len(t.Labels) > 0; t.Labels = nil; return ok },
	func(t *b.Target) bool { ok := t.TestOnly; t.TestOnly = false; return ok },
	func(t *b.Target) bool {
		ok := len(t.Env)+len(t.EntryPoints) > 0 || t.ConfigKey != "" || t.BuildEnv != "" || t.PostBuild
		t.Env, t.EntryPoints, t.ConfigKey, t.BuildEnv, t.PostBuild = nil, nil, "", "", false
		return ok
	},
	func(t *b.Target) bool { // named sources -> plain lists
		if t.NamedSrcs == nil {
			return false
		}
		for _, k := range b.SortedKeys(t.NamedSrcs) {
			for _, x := range t.NamedSrcs[k] {
				if b.IsLabel(x) {
					t.SrcLabels = append(t.SrcLabels, x)
				} else {
					t.Srcs = append(t.Srcs, x)
				}
			}
		}
		t.NamedSrcs = nil
		return true
	},
	func(t *b.Target) bool { // named outputs -> the first output only
		if t.NamedOuts == nil {
			return false
		}
		t.Outs = t.AllOuts()[:1]
		t.NamedOuts = nil
		return true
	},
	func(t *b.Target) bool { ok := len(t.Srcs) > 1; t.Srcs = t.Srcs[:min(1, len(t.Srcs))]; return ok },
	func(t *b.Target) bool {
		ok := len(t.Srcs) > 1
		if ok {
			t.Srcs = t.Srcs[len(t.Srcs)-1:]
		}
		return ok
	},
	func(t *b.Target) bool { ok := len(t.Srcs) > 0 && t.Kind == b.Genrule; t.Srcs = nil; return ok },
}

// minimise greedily removes model targets, then attributes, then invocation options, while a finding
// with the same key persists; at most `budget` runs of the real tool.
func minimise(work, bin string, r *b.Repo, inv gcInv, key string, first *finding, budget int) (*b.Repo, gcInv, *finding, int) {
	runs := 0
	try := func(c *b.Repo, ci gcInv) *finding {
		runs++
		sb := e2e.NewSandbox(filepath.Join(work, fmt.Sprintf("min%d", runs)))
		defer lib.RemoveAll(sb.Work)
		if b.WriteFiles(sb.Repo, c.AllFiles(b.RenderOpts{})) != nil {
			return nil
		}
		res := runGC(sb, bin, c, ci)
		if os.Getenv("VERIF_C25_DEBUG") != "" {
			fmt.Printf("minimise run %d: %d targets exit %d: %s\n", runs, len(c.Targets), res.Exit, lib.Tail(res.Stderr, 300))
		}
		if res.Exit != 0 || res.TimedOut {
			return nil
		}
		fs, _ := evaluate(c, ci, parseGC(res.Stdout))
		for i := range fs {
			if fs[i].Key == key {
				return &fs[i]
			}
		}
		return nil
	}
	best := first
	for round := 0; round < 3 && runs < budget; round++ {
		changed := false
		for i := len(r.Targets) - 1; i >= 0 && runs < budget; i-- {
			if c := without(r, i); c != nil {
				// [gc] keep entries naming the removed target go too
				ci := inv
				ci.Keep = nil
				for _, e := range inv.Keep {
					if e != r.Targets[i].Label() {
						ci.Keep = append(ci.Keep, e)
					}
				}
				if f := try(c, ci); f != nil {
					r, inv, best, changed = c, ci, f, true
				}
			}
		}
		for i := 0; i < len(r.Targets) && runs < budget; i++ {
			for _, strip := range strips {
				c := r.Clone()
				if !strip(c.Targets[i]) || c.Check() != nil || runs >= budget {
					continue
				}
				dropUnusedFiles(c)
				sanitise(c)
				if f := try(c, inv); f != nil {
					r, best, changed = c, f, true
				}
			}
		}
		if !changed {
			break
		}
	}
	if !r.NoDefs && len(r.SubincludingPkgs()) == 0 && runs < budget+2 { // no macro user left: drop the build_defs package
		c := r.Clone()
		c.NoDefs = true
		if f := try(c, inv); f != nil {
			r, best = c, f
		}
	}
	for _, simpler := range []func(gcInv) gcInv{
		func(x gcInv) gcInv { x.Filter = nil; return x },
		func(x gcInv) gcInv { x.Conservative = false; return x },
		func(x gcInv) gcInv { x.KeepLabels = nil; return x },
		func(x gcInv) gcInv { x.Keep = nil; return x },
	} {
		ci := simpler(inv)
		if lib.JSON(ci) == lib.JSON(inv) || runs >= budget+4 {
			continue
		}
		if f := try(r, ci); f != nil {
			inv, best = ci, f
		}
	}
	return r, inv, best, runs
}

func genRepo(rng *rand.Rand) *b.Repo {
	repo := b.Generate(rng, b.GenOpts{MinTargets: 5, MaxTargets: 13, Tests: true, GC: true, Root: true, Maps: rng.Intn(4) == 0, DepOneIn: 3 + rng.Intn(3)})
	sanitise(repo)
	// more tests whose data is a file that another target of the package has as a source (directly or
	// inside a directory source): the generator does this for a third of the tests only
	for _, t := range repo.Targets {
		if t.Kind != b.Gentest || rng.Intn(2) != 0 {
			continue
		}
		var cands []string
		for _, p := range repo.Targets {
			if p == t || p.Pkg != t.Pkg {
				continue
			}
			for _, f := range p.LocalSrcFiles() {
				if strings.HasSuffix(f, "/") {
					f += "x.txt"
				}
				if !inList(t.LocalFiles(), f) {
					cands = append(cands, f)
				}
			}
		}
		if len(cands) == 0 {
			continue
		}
		f := cands[rng.Intn(len(cands))]
		if t.NamedData != nil {
			k := b.SortedKeys(t.NamedData)[0]
			t.NamedData[k] = append(t.NamedData[k], f)
		} else {
			t.Data = append(t.Data, f)
		}
	}
	if rng.Intn(4) != 0 {
		addReroutes(rng, repo)
	}
	return repo
}

// addReroutes gives some consumers a `requires` that one of their declared inputs `provides`, pointing
// at an earlier target that nothing else mentions (an existing one, or a fresh genrule / text_file added
// for the purpose): the consumer is then built from a target that no kept target declares; only the
// resolved dependency graph knows about it. The generator's own provides (pa/pb/pc) never meet its
// requires (lx/py), and the macro's `lx` child is also a declared dependency of the macro rule, so
// without this every re-routed target is reachable by declarations too. Consumers that are gc roots
// (binaries, tools) are preferred.
func addReroutes(rng *rand.Rand, repo *b.Repo) int {
	n := 0
	for j, want := 0, 1+rng.Intn(2); j < want; j++ {
		idx := map[string]int{}
		mentioned := map[string]bool{}
		for i, t := range repo.Targets {
			idx[t.Label()] = i
			for _, l := range t.InputLabels() {
				mentioned[absLabel(t.Pkg, l)] = true
			}
			for _, v := range t.Provides {
				mentioned[absLabel(t.Pkg, v)] = true
			}
		}
		type cand struct{ t, d *b.Target }
		var cands, rootCands []cand
		for _, t := range repo.Targets {
			if t.Kind == b.Lib || t.Kind == b.TextFile {
				continue
			}
			var skip []string // tool and data dependencies are never re-routed
			skip = append(skip, t.Tools...)
			for _, k := range b.SortedKeys(t.NamedTools) {
				skip = append(skip, t.NamedTools[k]...)
			}
			skip = append(skip, t.DataLabels()...)
			for i := range skip {
				skip[i] = absLabel(t.Pkg, skip[i])
			}
			for _, l := range t.InputLabels() {
				l = absLabel(t.Pkg, l)
				d := repo.Target(l)
				if inList(skip, l) || d == nil || d.IsTool || (d.Kind != b.Genrule && d.Kind != b.Filegroup) {
					continue
				}
				if _, ok := d.Provides["rq"]; ok {
					continue
				}
				cands = append(cands, cand{t, d})
				if t.Kind == b.Genrule && (t.Binary || t.IsTool) {
					rootCands = append(rootCands, cand{t, d})
				}
			}
		}
		if len(cands) == 0 {
			break
		}
		c := cands[rng.Intn(len(cands))]
		if len(rootCands) > 0 && rng.Intn(4) != 0 {
			c = rootCands[rng.Intn(len(rootCands))]
		}
		var fresh []*b.Target
		for _, p := range repo.Targets[:idx[c.d.Label()]] {
			if !p.IsTool && p.Kind != b.Gentest && !p.TestOnly && !mentioned[p.Label()] && !p.Binary && len(p.Labels) == 0 {
				fresh = append(fresh, p)
			}
		}
		var p *b.Target
		if len(fresh) > 0 && rng.Intn(2) == 0 {
			p = fresh[rng.Intn(len(fresh))]
		} else {
			pkg := c.d.Pkg
			if rng.Intn(2) == 0 {
				pkg = c.t.Pkg
			}
			name := fmt.Sprintf("pv%d", j)
			if rng.Intn(3) == 0 {
				p = &b.Target{Pkg: pkg, Name: name, Kind: b.TextFile, Content: "provided" + fmt.Sprint(rng.Intn(5)), Outs: []string{name + ".txt"}}
			} else {
				p = &b.Target{Pkg: pkg, Name: name, Kind: b.Genrule, Salt: fmt.Sprintf("s%d", rng.Intn(1000)), Op: "all", Srcs: []string{name + "_src.txt"}, Outs: []string{name + ".out"}}
				repo.Files[filepath.Join(pkg, name+"_src.txt")] = "provided source"
			}
			repo.Targets = append([]*b.Target{p}, repo.Targets...) // provides must point at an earlier target
		}
		if c.d.Provides == nil {
			c.d.Provides = map[string]string{}
		}
		c.d.Provides["rq"] = p.Label()
		if !inList(c.t.Requires, "rq") {
			c.t.Requires = append(c.t.Requires, "rq")
		}
		n++
	}
	return n
}

func TestC25(t *testing.T) {
	r := lib.Start("C25")
	defer lib.End(t, r)
	r.Rule = "seeded repositories of 5-13 model targets, plus up to two added provided targets (non-test binaries and tools, macro libraries with a hidden child that is provided for `lx`, filegroups and genrules with provides/requires (in three of four repositories one or two consumers, preferably binaries, require what one of their inputs provides, the provided target being one that nothing else mentions), text files, gentest tests with file / directory / label data, test_only targets, gc_sibling: labels, files shared between targets exactly or through a directory source, nested and root packages, subincluded build_defs built by a filegroup or a genrule) x 3 invocations of `plz gc --dry_run` with random [gc] keep (labels, :all, /...), keeplabel, --conservative and command-line filters. " +
		"Distinct by JSON of repository + invocation; non-trivial = the tool proposed at least one removal and the reference closure contains at least one target that is not a root"
	r.Assumes = []string{
		"the reference closure is computed from the generator's model (declared inputs, require/provide re-routing except for data and tools, macro child), never from plz query",
		"roots are read literally from the statement; tests become roots in one round only; over-keeping is never a violation",
		"a proposed directory that contains a kept target's file, and a rule proposed while only its hidden child is needed, are recorded as observations, not violations",
	}
	bin := lib.PlzBin(false)
	nRepos := r.Pick(50, 600)
	var minimised sync.Map
	r.ForEach("gc", nRepos, 8, func(i int, rng *rand.Rand) {
		repo := genRepo(rng)
		if err := repo.Check(); err != nil {
			r.Obs("generator_rejects", 1)
			return
		}
		sb := e2e.NewSandbox(filepath.Join(r.Scratch(), fmt.Sprintf("r%d", i)))
		defer lib.RemoveAll(sb.Work)
		if err := b.WriteFiles(sb.Repo, repo.AllFiles(b.RenderOpts{})); err != nil {
			panic("harness: " + err.Error())
		}
		for k := 0; k < 3; k++ {
			inv := genInv(rng, repo)
			if k == 0 {
				inv = gcInv{} // the plain command once per repository
			}
			res := runGC(sb, bin, repo, inv)
			r.Obs("gc_invocations", 1)
			if res.TimedOut {
				r.Inconclusive(fmt.Sprintf("case %d/%d: plz gc did not finish within the watchdog: %s", i, k, lib.Tail(res.Watchdog, 300)))
				continue
			}
			if res.Exit != 0 {
				r.Obs("gc_failed_invocations", 1)
				if os.Getenv("VERIF_C25_DEBUG") != "" {
					fmt.Printf("case %d/%d failed (%d): %s\n", i, k, res.Exit, lib.Tail(res.Stderr, 2000))
				}
				continue
			}
			out := parseGC(res.Stdout)
			fs, st := evaluate(repo, inv, out)
			r.Case(lib.JSON(repo)+lib.JSON(inv), st.listedTargets > 0 && st.closure > st.roots)
			r.Obs("gc_proposals_checked", 1)
			r.Obs("targets_proposed_for_removal", int64(st.listedTargets))
			r.Obs("sources_proposed_for_removal", int64(st.listedSrcs))
			r.Obs("reference_closure_targets_checked", int64(st.closure))
			r.Obs("reference_roots", int64(st.roots))
			r.Obs("reference_closure_targets_reached_only_through_provides", int64(st.viaProvides))
			if st.viaProvides > 0 {
				r.Obs("proposals_with_targets_needed_only_through_provides", 1)
			}
			if st.listedSrcs > 0 {
				r.Obs("proposals_with_sources", 1)
			}
			for _, v := range mustKeep(repo, inv) {
				if v.IsRoot {
					r.ObsDistinct("root_reasons_seen", v.Reason)
				}
			}
			for name, n := range st.obs {
				r.Obs("observation_only:"+name, int64(n))
			}
			if inv.Conservative {
				r.Obs("conservative_invocations", 1)
			}
			if len(inv.Filter) > 0 {
				r.Obs("filtered_invocations", 1)
			}
			if os.Getenv("VERIF_C25_DEBUG") != "" && i == 0 {
				fmt.Printf("case 0/%d inv=%s\nstdout:\n%s\nstderr tail:\n%s\n", k, lib.JSON(inv), res.Stdout, lib.Tail(res.Stderr, 600))
			}
			if i < 3 && k == 1 && r.WantSample() {
				r.Sample(map[string]any{"invocation": inv, "model_targets": len(repo.Targets), "proposed_targets": out.Targets, "proposed_sources": out.Srcs,
					"reference_closure": b.SortedKeys(mustKeep(repo, inv))})
			}
			seen := map[string]bool{}
			for _, f := range fs {
				if seen[f.Key] {
					continue
				}
				seen[f.Key] = true
				witness := map[string]any{"repo": repo, "invocation": inv, "finding": f.Detail, "proposed_targets": out.Targets, "proposed_sources": out.Srcs}
				what := f.What
				if _, done := minimised.LoadOrStore(f.Key, true); !done {
					budget := 8 // a full minimisation (150 runs of the tool) is done when the case is replayed
					if r.Replaying() {
						budget = 150
					}
					f := f
					mr, mi, mf, runs := minimise(sb.Work, bin, repo, inv, f.Key, &f, budget)
					r.Obs("minimiser_runs", int64(runs))
					if mf != nil {
						what = mf.What
						witness["minimal"] = map[string]any{"invocation": mi, "finding": mf.Detail, "build_files": mr.BuildFiles(b.RenderOpts{}), "files": b.SortedKeys(mr.Files), "config": withInv(mr, mi).ConfigText()}
					}
				}
				r.Violation(f.Key, what, witness, i)
			}
		}
	})
	r.RequireObserved("gc_proposals_checked", "targets_proposed_for_removal", "sources_proposed_for_removal", "reference_closure_targets_checked", "root_reasons_seen", "reference_closure_targets_reached_only_through_provides")
}

// TestDevMaterialise is a development aid: VERIF_DEV_DIR=<dir> writes the repository of case
// VERIF_DEV_CASE (seed VERIF_SEED) there.
func TestDevMaterialise(t *testing.T) {
	dir := os.Getenv("VERIF_DEV_DIR")
	if dir == "" {
		t.Skip("development aid")
	}
	r := lib.Start("C25")
	i := 0
	fmt.Sscan(os.Getenv("VERIF_DEV_CASE"), &i)
	repo := genRepo(r.Rand("gc", i))
	sb := e2e.NewSandbox(dir)
	if err := b.WriteFiles(sb.Repo, repo.AllFiles(b.RenderOpts{})); err != nil {
		t.Fatal(err)
	}
	fmt.Println("written", sb.Repo, "check:", repo.Check())
	_ = sort.Strings
}

// C11 — test results are reused only when the test's runtime inputs are unchanged.
// Monitor: generated repositories of gentest targets whose outcome is a deterministic function of
// exactly one runtime input each (a data file, a pair / list of data files, a data directory, the
// output of a data target, the test binary, the test command, a pass_env value, a run-time
// dependency, a run-time dependency of a data target, a test tool, a results file, the active
// entry of a per-config test command dict, a data file that only un-selected cases read), driven by
// the real plz binary through edit histories that flip those inputs between passing and failing
// values (plus renames, reverts, plz-out wipes with and without a directory cache, repeated
// invocations, and runs restricted by test arguments -- `plz test <targets> -- <selector>` -- that
// precede the plain run).
// Oracle: after every step a FRESH run (same sources written to the same absolute path, empty
// plz-out, no cache) gives the reference outcome per target and the reference exit status; the
// incremental `plz test` must agree on both. The test command carries the action probe, so
// "reported cached" is cross-checked against "did not execute".
package c11

import (
	"encoding/json"
	"encoding/xml"
	"fmt"
	"math/rand"
	"os"
	"path/filepath"
	"sort"
	"strings"
	"sync"
	"testing"
	"time"

	"verifharness/e2e"
	x "verifharness/e2ealib"
	"verifharness/lib"
)

const pkg = "p"

// A tst is one generated test target together with the state of its controlling runtime input.
type tst struct {
	Kind  string `json:"kind"`
	Name  string `json:"name"`
	Pass  bool   `json:"input_passes"`             // the controlling input currently has its passing value
	Tok   string `json:"token"`                    // random token carried by the controlling input (content identity)
	Alt   bool   `json:"renamed,omitempty"`        // an upstream output / directory entry is renamed away from the name the test reads
	NoOut bool   `json:"no_test_output,omitempty"` // the no_test_output argument of the rule
	Exit0 bool   `json:"exit_zero,omitempty"`      // results-file kind: the command exits 0 even when it reports a failure
}

type state struct {
	Tests   []*tst `json:"tests"`
	Neutral string `json:"neutral"` // content of a file no test consumes
	Cache   bool   `json:"dir_cache"`
}

func (s *state) clone() *state {
	var c state
	b, _ := json.Marshal(s)
	json.Unmarshal(b, &c)
	return &c
}

var kinds = []string{"data-file", "data-pair", "data-list", "data-target", "data-dir", "test-binary", "test-cmd", "pass-env",
	"data-runtime-dep", "runtime-dep", "test-tool", "results-file", "test-cmd-dict", "test-args"}

// selector is the test argument of a restricted run: it selects the case that always passes.
const selector = "alpha"

var renamable = map[string]string{
	"data-target":      "rename-output-of-data-target",
	"data-runtime-dep": "rename-output-of-runtime-dep-of-data-target",
	"runtime-dep":      "rename-output-of-runtime-dep",
	"data-dir":         "rename-file-in-data-dir",
}

func (t *tst) label() string { return "//" + pkg + ":" + t.Name }
func (t *tst) envName() string {
	return "C11_" + strings.ToUpper(t.Name)
}

// expected is the outcome the generator intends (used only to check the generator against the
// fresh-run oracle, never as the oracle).
func (t *tst) expected() bool {
	switch {
	case t.Kind == "test-cmd":
		return t.Pass && t.NoOut
	case renamable[t.Kind] != "":
		return t.Pass && !t.Alt
	}
	return t.Pass
}

func verdictText(pass bool, tok string) string {
	if pass {
		return "PASS " + tok + "\n"
	}
	return "FAIL " + tok + "\n"
}

func script(pass bool, tok string) string {
	if pass {
		return "# " + tok + "\nexit 0\n"
	}
	return "# " + tok + "\nexit 1\n"
}

func alt(name string, renamed bool) string {
	if renamed {
		return strings.Replace(name, ".", "_renamed.", 1)
	}
	return name
}

// render materialises a state: repository files and the caller environment.
func (s *state) render(vlog, cacheDir string) (map[string]string, []string) {
	cd := ""
	if s.Cache {
		cd = cacheDir
	}
	files := map[string]string{".plzconfig": x.BaseConfig(cd, ""), pkg + "/neutral.txt": s.Neutral}
	var env []string
	var sb strings.Builder
	gen := func(name, src, out string, extra func(r *x.Rule)) {
		r := x.NewRule("genrule", name)
		if src != "" {
			r.List("srcs", []string{src})
			r.List("outs", []string{out}).Str("cmd", `cat $SRCS > "$OUT"`)
		} else {
			r.List("outs", []string{out}).Str("cmd", `echo fixed > "$OUT"`)
		}
		if extra != nil {
			extra(r)
		}
		sb.WriteString(r.Render())
	}
	for _, t := range s.Tests {
		n := t.Name
		probe := x.Probe(vlog, n) + "; "
		r := x.NewRule("gentest", n)
		noOut := true
		switch t.Kind {
		case "data-file":
			files[pkg+"/"+n+".dat"] = verdictText(t.Pass, t.Tok)
			r.Str("test_cmd", probe+"grep -q '^PASS' "+pkg+"/"+n+".dat").List("data", []string{n + ".dat"})
		case "data-pair": // same two contents, swapped
			files[pkg+"/"+n+"_a.dat"] = verdictText(t.Pass, t.Tok)
			files[pkg+"/"+n+"_b.dat"] = verdictText(!t.Pass, t.Tok)
			r.Str("test_cmd", probe+"grep -q '^PASS' "+pkg+"/"+n+"_a.dat").List("data", []string{n + "_a.dat", n + "_b.dat"})
		case "data-list": // the list of data files itself is the input
			files[pkg+"/"+n+"_m.dat"] = "main\n"
			files[pkg+"/"+n+"_opt.dat"] = "optional\n"
			d := []string{n + "_m.dat"}
			if t.Pass {
				d = append(d, n+"_opt.dat")
			}
			r.Str("test_cmd", probe+"test -e "+pkg+"/"+n+"_opt.dat").List("data", d)
		case "data-target":
			files[pkg+"/"+n+".src"] = verdictText(t.Pass, t.Tok)
			gen(n+"_d", n+".src", alt(n+"_d.txt", t.Alt), nil)
			r.Str("test_cmd", probe+"grep -q '^PASS' "+pkg+"/"+n+"_d.txt").List("data", []string{":" + n + "_d"})
		case "data-dir":
			files[pkg+"/"+n+"_dir/"+alt("f.txt", t.Alt)] = verdictText(t.Pass, t.Tok)
			files[pkg+"/"+n+"_dir/keep.txt"] = "keep\n"
			r.Str("test_cmd", probe+"grep -q '^PASS' "+pkg+"/"+n+"_dir/f.txt").List("data", []string{n + "_dir"})
		case "test-binary":
			files[pkg+"/"+n+".src"] = script(t.Pass, t.Tok)
			r.List("srcs", []string{n + ".src"}).List("outs", []string{n + "_bin.sh"}).Str("cmd", `cat $SRCS > "$OUT"`)
			r.Str("test_cmd", probe+`sh "$TEST"`)
		case "test-cmd":
			c := "false"
			if t.Pass {
				c = "true"
			}
			r.Str("test_cmd", probe+": "+t.Tok+"; "+c)
			noOut = t.NoOut
		case "test-cmd-dict": // per-config commands; `plz test` uses the default config, opt. The other config holds the opposite command.
			good, bad := probe+": P"+t.Tok+"; true", probe+": F"+t.Tok+"; false"
			if t.Pass {
				r.Add("test_cmd", x.PyDict(map[string]string{"opt": good, "dbg": bad}))
			} else {
				r.Add("test_cmd", x.PyDict(map[string]string{"opt": bad, "dbg": good}))
			}
		case "test-args": // arguments select cases (plz appends them to the command); without arguments every case runs
			files[pkg+"/"+n+".dat"] = verdictText(t.Pass, t.Tok)
			r.Str("test_cmd", probe+`run() { [ "$#" -gt 0 ] || set -- `+selector+` beta; for c in "$@"; do case "$c" in `+selector+`) ;; *) grep -q '^PASS' `+pkg+"/"+n+`.dat || return 1 ;; esac; done; }; run`).List("data", []string{n + ".dat"})
		case "pass-env":
			v := "bad-" + t.Tok
			if t.Pass {
				v = "good-" + t.Tok
			}
			env = append(env, t.envName()+"="+v)
			r.Str("test_cmd", probe+`case "$`+t.envName()+`" in good-*) exit 0;; esac; exit 1`).List("pass_env", []string{t.envName()})
		case "data-runtime-dep":
			files[pkg+"/"+n+".src"] = verdictText(t.Pass, t.Tok)
			gen(n+"_leaf", n+".src", alt(n+"_leaf.txt", t.Alt), nil)
			gen(n+"_mid", "", n+"_mid.txt", func(r *x.Rule) { r.Add("binary", "True").List("runtime_deps", []string{":" + n + "_leaf"}) })
			r.Str("test_cmd", probe+"grep -q '^PASS' "+pkg+"/"+n+"_leaf.txt").List("data", []string{":" + n + "_mid"})
		case "runtime-dep":
			files[pkg+"/"+n+".src"] = verdictText(t.Pass, t.Tok)
			gen(n+"_rt", n+".src", alt(n+"_rt.txt", t.Alt), nil)
			r.Str("test_cmd", probe+"grep -q '^PASS' "+pkg+"/"+n+"_rt.txt").List("runtime_deps", []string{":" + n + "_rt"})
		case "test-tool":
			files[pkg+"/"+n+".src"] = script(t.Pass, t.Tok)
			gen(n+"_tool", n+".src", n+"_tool.sh", func(r *x.Rule) { r.Add("binary", "True") })
			r.Str("test_cmd", probe+`sh "$TOOL"`).List("test_tools", []string{":" + n + "_tool"})
		case "results-file":
			files[pkg+"/"+n+".dat"] = verdictText(t.Pass, t.Tok)
			ex := "; exit $rc"
			if t.Exit0 {
				ex = ""
			}
			r.Str("test_cmd", probe+"if grep -q '^PASS' "+pkg+"/"+n+".dat; then rc=0; printf -- '--- PASS: T1 (0.00s)\\nPASS\\n' > \"$RESULTS_FILE\"; "+
				"else rc=1; printf -- '--- FAIL: T1 (0.00s)\\nFAIL\\n' > \"$RESULTS_FILE\"; fi"+ex).List("data", []string{n + ".dat"})
			noOut = false
		default:
			panic("unknown kind " + t.Kind)
		}
		if noOut {
			r.Add("no_test_output", "True")
		}
		sb.WriteString(r.Render())
	}
	files[pkg+"/BUILD"] = sb.String()
	sort.Strings(env)
	return files, env
}

func generate(rng *rand.Rand) *state {
	s := &state{Neutral: "n " + x.Token(rng, 8) + "\n", Cache: rng.Intn(5) < 2}
	order := rng.Perm(len(kinds))
	n := 6 + rng.Intn(2)
	for i := 0; i < n; i++ {
		k := kinds[order[i]]
		t := &tst{Kind: k, Name: fmt.Sprintf("t%d", i), Pass: rng.Intn(4) != 0, Tok: x.Token(rng, 10), NoOut: true}
		if k == "results-file" {
			t.NoOut = false
			t.Exit0 = rng.Intn(3) == 0
		}
		s.Tests = append(s.Tests, t)
	}
	return s
}

// editTest applies one random edit to a test's controlling input and names it.
func editTest(rng *rand.Rand, t *tst) string {
	c := rng.Intn(100)
	switch {
	case renamable[t.Kind] != "" && c < 30:
		t.Alt = !t.Alt
		return renamable[t.Kind]
	case t.Kind == "test-cmd" && c < 25:
		t.NoOut = !t.NoOut
		return "toggle-no_test_output"
	case t.Kind == "test-cmd-dict" && c < 35: // the same two commands, exchanged between the configs
		t.Pass = !t.Pass
		return "swap-commands-of-configs"
	case c < 80 || t.Kind == "data-list":
		t.Pass = !t.Pass
		t.Tok = x.Token(rng, 10)
		return "flip-" + t.Kind
	}
	t.Tok = x.Token(rng, 10)
	return "refresh-" + t.Kind
}

// results of one plz test invocation
type outcome struct {
	Exit    int             `json:"exit"`
	Present map[string]bool `json:"-"`
	Pass    map[string]bool `json:"pass"`
	Cached  map[string]bool `json:"cached,omitempty"`
	Stderr  string          `json:"-"`
	ok      bool
}

type xmlSuites struct {
	Suites []struct {
		Name     string `xml:"name,attr"`
		Package  string `xml:"package,attr"`
		Errors   int    `xml:"errors,attr"`
		Failures int    `xml:"failures,attr"`
		Tests    int    `xml:"tests,attr"`
		Props    []struct {
			Name  string `xml:"name,attr"`
			Value string `xml:"value,attr"`
		} `xml:"properties>property"`
		Cases []struct {
			Name    string    `xml:"name,attr"`
			Failure *struct{} `xml:"failure"`
			Error   *struct{} `xml:"error"`
		} `xml:"testcase"`
	} `xml:"testsuite"`
}

func readOutcome(repo string, res lib.PlzResult) outcome {
	o := outcome{Exit: res.Exit, Present: map[string]bool{}, Pass: map[string]bool{}, Cached: map[string]bool{}, Stderr: res.Stderr}
	b, err := os.ReadFile(filepath.Join(repo, "plz-out/log/test_results.xml"))
	if err != nil {
		return o
	}
	var xs xmlSuites
	if xml.Unmarshal(b, &xs) != nil {
		return o
	}
	o.ok = true
	for _, s := range xs.Suites {
		l := "//" + strings.ReplaceAll(s.Package, ".", "/") + ":" + s.Name
		pass := s.Errors == 0 && s.Failures == 0 && len(s.Cases) > 0
		for _, c := range s.Cases {
			if c.Failure != nil || c.Error != nil {
				pass = false
			}
		}
		for _, p := range s.Props {
			if p.Name == "cached" && p.Value == "true" {
				o.Cached[l] = true
			}
		}
		o.Present[l] = true
		o.Pass[l] = pass
	}
	return o
}

type runner struct {
	sb  *e2e.Sandbox
	bin string
}

func (rn *runner) incremental(env []string) (outcome, e2e.Probe, lib.PlzResult) {
	os.Remove(filepath.Join(rn.sb.Repo, "plz-out/log/test_results.xml"))
	rn.sb.ResetProbe()
	res := rn.sb.Plz(rn.bin, env, 240*time.Second, "test", "//...")
	return readOutcome(rn.sb.Repo, res), rn.sb.ReadProbe(), res
}

// withArgs is a run restricted by test arguments: `plz test <labels> -- <selector>`.
func (rn *runner) withArgs(env []string, labels []string) (outcome, e2e.Probe, lib.PlzResult) {
	os.Remove(filepath.Join(rn.sb.Repo, "plz-out/log/test_results.xml"))
	rn.sb.ResetProbe()
	args := append(append([]string{"test"}, labels...), "--", selector)
	res := rn.sb.Plz(rn.bin, env, 240*time.Second, args...)
	return readOutcome(rn.sb.Repo, res), rn.sb.ReadProbe(), res
}

func argLabels(s *state) []string {
	var ls []string
	for _, t := range s.Tests {
		if t.Kind == "test-args" {
			ls = append(ls, t.label())
		}
	}
	return ls
}

// fresh is the oracle: the same sources at the same absolute path, empty plz-out, no cache.
func (rn *runner) fresh(files map[string]string, env []string) (outcome, lib.PlzResult) {
	sb := rn.sb
	aside, vaside := sb.Repo+".incremental", sb.VLog+".incremental"
	must(os.Rename(sb.Repo, aside))
	must(os.Rename(sb.VLog, vaside))
	defer func() {
		lib.RemoveAll(sb.Repo)
		lib.RemoveAll(sb.VLog)
		must(os.Rename(aside, sb.Repo))
		must(os.Rename(vaside, sb.VLog))
	}()
	must(os.MkdirAll(sb.VLog, 0o755))
	must(lib.WriteTree(sb.Repo, files))
	res := sb.Plz(rn.bin, env, 240*time.Second, "-o", "cache.dir:", "test", "//...")
	return readOutcome(sb.Repo, res), res
}

func must(err error) {
	if err != nil {
		panic(fmt.Sprintf("harness filesystem error: %v", err))
	}
}

type stepRec struct {
	Step     int      `json:"step"`
	Ops      []string `json:"ops"`
	Env      []string `json:"caller_env,omitempty"`
	Executed []string `json:"executed"`
	Inc      outcome  `json:"incremental"`
	Fresh    outcome  `json:"fresh"`
}

func diffFiles(a, b map[string]string) map[string][2]string {
	d := map[string][2]string{}
	for p, c := range a {
		if b[p] != c {
			nb, ok := b[p]
			if !ok {
				nb = "(removed)"
			}
			d[p] = [2]string{c, nb}
		}
	}
	for p, c := range b {
		if _, ok := a[p]; !ok {
			d[p] = [2]string{"(absent)", c}
		}
	}
	return d
}

func TestC11(t *testing.T) {
	r := lib.Start("C11")
	defer lib.End(t, r)
	r.Rule = "case = one (test target, incremental `plz test` invocation) pair in a generated edit history, compared with a fresh run of the same tree at the same path; distinct by (repository files, caller environment, operations of the step, target); non-trivial = since the target's previous invocation one of its runtime inputs was edited (flip/refresh/rename/list change/command/env), plz-out was wiped, the state was reverted, its previous outcome was a failure, or it executed in a run restricted by test arguments in between"
	r.Assumes = []string{"generated test commands are deterministic functions of their declared runtime inputs", "a fresh run (same absolute path, empty plz-out, cache disabled) is the reference outcome", "whether a test command executed is observed by a mkdir marker baked into the command", "plz-out/log/test_results.xml is the per-target pass/fail/cached report"}
	bin := lib.PlzBin(false)
	n := r.Pick(19, 190)
	steps := 4 // edit steps after the initial invocation
	var minimised sync.Map
	r.ForEach("history", n, 8, func(i int, rng *rand.Rand) {
		sb := e2e.NewSandbox(filepath.Join(r.Scratch(), fmt.Sprintf("h%d", i)))
		defer lib.RemoveAll(sb.Work)
		rn := &runner{sb: sb, bin: bin}
		s := generate(rng)
		var past []*state
		var trail []stepRec
		passedAt := map[string][]*tst{} // label -> input states at which the target executed and passed (what a reuse can stem from)
		lastExec := map[string]*tst{}   // label -> input state at its last execution
		wipedSince := map[string]bool{} // label -> plz-out was wiped since its last execution
		argsExec := map[string]bool{}   // label -> executed (and reported passed) in a run with test arguments since its last execution in a plain run
		prevPass := map[string]bool{}   // label -> outcome plz reported at the previous invocation
		freshMemo := map[string]outcome{}
		var prevFiles map[string]string
		var prevEnv []string
		for step := 0; step <= steps; step++ {
			ops := []string{}
			touched := map[string][]string{}
			wiped := false
			if step == 0 {
				ops = append(ops, "initial")
			} else {
				g := rng.Intn(100)
				switch {
				case g < 14:
					ops = append(ops, "identical")
				case g < 24 && len(past) >= 2:
					j := rng.Intn(len(past) - 1)
					old := past[j].clone()
					for k, ot := range old.Tests {
						if lib.JSON(ot) != lib.JSON(s.Tests[k]) {
							touched[ot.label()] = append(touched[ot.label()], "revert")
						}
					}
					s = old
					ops = append(ops, fmt.Sprintf("revert-to-%d", j))
				default:
					if g < 40 {
						wiped = true
						ops = append(ops, "wipe-plz-out")
					}
					if rng.Intn(6) == 0 {
						s.Neutral = "n " + x.Token(rng, 8) + "\n"
						ops = append(ops, "neutral-edit")
					}
					edited := 0
					for _, tt := range s.Tests {
						if rng.Intn(100) < 45 {
							e := editTest(rng, tt)
							touched[tt.label()] = append(touched[tt.label()], e)
							ops = append(ops, e+":"+tt.Name)
							edited++
						}
					}
					if edited == 0 && !wiped {
						tt := s.Tests[rng.Intn(len(s.Tests))]
						e := editTest(rng, tt)
						touched[tt.label()] = append(touched[tt.label()], e)
						ops = append(ops, e+":"+tt.Name)
					}
				}
			}
			files, env := s.render(sb.VLog, sb.Cache)
			if wiped {
				lib.RemoveAll(filepath.Join(sb.Repo, "plz-out"))
			}
			must(x.SyncTree(sb.Repo, files, nil))
			for _, o := range ops {
				r.ObsDistinct("operations", strings.SplitN(o, ":", 2)[0])
			}
			// oracle
			fkey := lib.Hash(lib.JSON(files), lib.JSON(env))
			fr, memo := freshMemo[fkey]
			if !memo {
				var fres lib.PlzResult
				fr, fres = rn.fresh(files, env)
				r.Obs("fresh_runs", 1)
				if fres.TimedOut {
					r.Inconclusive(fmt.Sprintf("history %d step %d: fresh run timed out", i, step))
					return
				}
				if !fr.ok {
					r.Violation("fresh-run-without-report", "a fresh `plz test //...` of a generated repository wrote no test results file", map[string]any{"files": files, "exit": fres.Exit, "stderr": lib.Tail(fres.Stderr, 2000)}, i)
					return
				}
				for _, tt := range s.Tests {
					if !fr.Present[tt.label()] || fr.Pass[tt.label()] != tt.expected() {
						r.FatalInconclusive(fmt.Sprintf("generator error: fresh outcome of %s (%s) is present=%v pass=%v, intended %v; stderr: %s", tt.label(), tt.Kind, fr.Present[tt.label()], fr.Pass[tt.label()], tt.expected(), lib.Tail(fres.Stderr, 600)))
						return
					}
				}
				if (fr.Exit == 0) != allPass(s) {
					r.FatalInconclusive(fmt.Sprintf("generator error: fresh exit status %d with all-pass=%v", fr.Exit, allPass(s)))
					return
				}
				freshMemo[fkey] = fr
			}
			// a run restricted by test arguments before the plain run: whatever it leaves behind must not answer for the plain run
			var argsRun []string
			if al := argLabels(s); len(al) > 0 && rng.Intn(2) == 0 {
				argsRun = al
				ao, ap, ares := rn.withArgs(env, al)
				if ares.TimedOut {
					r.Inconclusive(fmt.Sprintf("history %d step %d: plz test with arguments timed out", i, step))
					return
				}
				r.Obs("runs_with_test_args", 1)
				ops = append(ops, "preceded-by-run-with-test-args")
				r.ObsDistinct("operations", "preceded-by-run-with-test-args")
				trail = append(trail, stepRec{step, []string{"plz test " + strings.Join(al, " ") + " -- " + selector}, env, ap.Started, ao, outcome{}})
				for _, tt := range s.Tests {
					if tt.Kind == "test-args" && x.Ran(ap.Started, tt.Name) {
						r.Obs("tests_executed_with_args", 1)
						if ao.Pass[tt.label()] {
							argsExec[tt.label()] = true
							if !tt.Pass {
								r.Obs("selected_subset_passed_where_full_run_fails", 1)
							}
						}
					}
				}
			}
			reps := 1
			if rng.Intn(2) == 0 {
				reps = 2
			}
			for rep := 0; rep < reps; rep++ {
				if rep == 1 {
					ops = append([]string{"repeat-invocation"}, ops...)
					touched = map[string][]string{}
					wiped = false
				}
				inc, probe, res := rn.incremental(env)
				r.Obs("incremental_invocations", 1)
				if res.TimedOut {
					r.Inconclusive(fmt.Sprintf("history %d step %d: plz test timed out", i, step))
					return
				}
				trail = append(trail, stepRec{step, ops, env, probe.Started, inc, fr})
				wit := map[string]any{"initial_and_edits": trail, "current_files": files}
				if prevFiles != nil {
					wit["files_changed_by_this_step"] = diffFiles(prevFiles, files)
				}
				if !inc.ok {
					wit["stderr"] = lib.Tail(res.Stderr, 2000)
					r.Violation("no-report/"+opClass(ops), fmt.Sprintf("incremental plz test exits %d without a results file; the fresh run of the same tree reports normally", res.Exit), wit, i)
					return
				}
				if len(probe.Violations) > 0 {
					wit["probe"] = probe.Violations
					r.Violation("test-executed-twice", "a test command started twice in one invocation: "+strings.Join(probe.Violations, "; "), wit, i)
				}
				mismatch := false
				for _, tt := range s.Tests {
					l := tt.label()
					ran := x.Ran(probe.Started, tt.Name)
					if wiped {
						wipedSince[l] = true
					}
					_, had := prevPass[l]
					// what separates the current inputs from the closest earlier inputs on which this target executed and passed
					cause := netDiff(closest(passedAt[l], tt), tt)
					sinceLast := netDiff(lastExec[l], tt)
					nontrivial := had && (len(sinceLast) > 0 || len(touched[l]) > 0 || wipedSince[l] || !prevPass[l] || argsExec[l])
					r.Case(lib.Hash(lib.JSON(files), lib.JSON(env), strings.Join(ops, ","), l), nontrivial)
					r.Obs("target_checks", 1)
					r.ObsDistinct("test_kinds", tt.Kind)
					ck := causeKey(cause, wipedSince[l])
					if argsExec[l] {
						ck = "after-passing-run-with-test-args"
					}
					wit2 := func() map[string]any {
						w := map[string]any{"target": l, "kind": tt.Kind, "difference_to_closest_earlier_passing_execution": cause, "difference_to_last_execution": sinceLast, "previous_reported_outcome_pass": prevPass[l]}
						for k, v := range wit {
							w[k] = v
						}
						return w
					}
					if !inc.Present[l] {
						r.Violation("target-missing-from-report/"+tt.Kind, l+" is absent from the incremental run's results although the fresh run reports it", wit2(), i)
						mismatch = true
						continue
					}
					cached := inc.Cached[l]
					switch {
					case cached && ran:
						r.Violation("report/cached-but-executed/"+tt.Kind, l+" is reported [cached] although its command executed in this invocation", wit2(), i)
					case !cached && !ran && inc.Pass[l]:
						r.Violation("report/passed-without-executing-and-not-cached/"+tt.Kind, l+" is reported as passed, not cached, but its command never executed", wit2(), i)
					}
					if cached {
						r.Obs("cached_reports", 1)
					}
					if ran {
						r.Obs("executed_tests", 1)
					}
					if inc.Pass[l] != fr.Pass[l] {
						mismatch = true
						w := wit2()
						key, what := "", ""
						switch {
						case !ran && inc.Pass[l]:
							key = "reused-pass-but-fresh-run-fails/" + ck
							what = fmt.Sprintf("%s (%s): the incremental run reuses a passing result (cached=%v, not executed) but a fresh run of the same tree FAILS; difference between the current inputs and the closest inputs it ever passed on: %v", l, tt.Kind, cached, cause)
						case !ran:
							key = "reused-fail-but-fresh-run-passes/" + ck
							what = fmt.Sprintf("%s (%s): reported failed without executing, a fresh run passes; changes: %v", l, tt.Kind, cause)
						default:
							key = fmt.Sprintf("executed-but-outcome-differs/%s/inc-pass=%v", tt.Kind, inc.Pass[l])
							what = fmt.Sprintf("%s (%s): executed in the incremental run with pass=%v, fresh run pass=%v", l, tt.Kind, inc.Pass[l], fr.Pass[l])
						}
						if prevFiles != nil && rep == 0 {
							// one two-step reproduction per witness key, shared by every history that hits the key
							e, _ := minimised.LoadOrStore(key, &minEntry{})
							me := e.(*minEntry)
							me.mu.Lock()
							if rep, _ := me.res["reproduced"].(bool); !rep && me.tries < 3 {
								me.tries++
								me.res = minimise(r, bin, sb, i, prevFiles, prevEnv, files, env, l, wiped, fr.Pass[l], argsRun)
								me.res["from_history"] = i
							}
							w["minimal"] = me.res
							me.mu.Unlock()
						}
						r.Violation(key, what, w, i)
					} else {
						switch {
						case !ran && inc.Pass[l]:
							r.Obs("reused_pass_confirmed_by_fresh_run", 1)
						case ran && len(sinceLast) > 0 && had:
							r.Obs("reruns_after_input_change", 1)
						}
						if ran && had && !prevPass[l] {
							r.Obs("previously_failing_reexecuted", 1)
						}
						if !inc.Pass[l] {
							r.Obs("failing_outcomes_agreeing", 1)
						}
						if had && prevPass[l] != inc.Pass[l] {
							r.Obs("outcome_flips_tracked", 1)
						}
					}
					if ran {
						if argsExec[l] && inc.Pass[l] == fr.Pass[l] {
							r.Obs("plain_runs_reexecuting_after_run_with_args", 1)
						}
						argsExec[l] = false
						c := *tt
						lastExec[l] = &c
						wipedSince[l] = false
						if inc.Pass[l] {
							passedAt[l] = append(passedAt[l], &c)
						}
					}
					prevPass[l] = inc.Pass[l]
				}
				if !mismatch && (inc.Exit == 0) != (fr.Exit == 0) {
					wit["stderr"] = lib.Tail(res.Stderr, 1500)
					r.Violation(fmt.Sprintf("exit-status-differs/inc=%d-fresh=%d", inc.Exit, fr.Exit), fmt.Sprintf("per-target outcomes agree but plz test exits %d incrementally and %d fresh", inc.Exit, fr.Exit), wit, i)
				} else if !mismatch {
					r.Obs("exit_status_agreements", 1)
				}
			}
			past = append(past, s.clone())
			prevFiles, prevEnv = files, env
		}
		if r.WantSample() {
			r.Sample(map[string]any{"initial_state": past[0], "trail": trail})
		}
	})
	r.RequireObserved("incremental_invocations", "fresh_runs", "executed_tests", "cached_reports", "reused_pass_confirmed_by_fresh_run",
		"reruns_after_input_change", "previously_failing_reexecuted", "failing_outcomes_agreeing", "outcome_flips_tracked",
		"runs_with_test_args", "tests_executed_with_args", "selected_subset_passed_where_full_run_fails", "plain_runs_reexecuting_after_run_with_args")
}

type minEntry struct {
	mu    sync.Mutex
	tries int
	res   map[string]any
}

func allPass(s *state) bool {
	for _, t := range s.Tests {
		if !t.expected() {
			return false
		}
	}
	return true
}

func opClass(ops []string) string {
	var c []string
	for _, o := range ops {
		c = append(c, strings.SplitN(o, ":", 2)[0])
	}
	sort.Strings(c)
	return strings.Join(uniq(c), "+")
}

func uniq(s []string) []string {
	var out []string
	for i, v := range s {
		if i == 0 || v != s[i-1] {
			out = append(out, v)
		}
	}
	return out
}

// netDiff names the edit kinds that separate two input states of one test (nil from = never).
func netDiff(from, to *tst) []string {
	if from == nil {
		return []string{"never-passed-before"}
	}
	var d []string
	if from.Alt != to.Alt {
		d = append(d, renamable[to.Kind])
	}
	if from.NoOut != to.NoOut {
		d = append(d, "toggle-no_test_output")
	}
	if from.Pass != to.Pass {
		d = append(d, "flip-"+to.Kind)
	} else if from.Tok != to.Tok {
		d = append(d, "refresh-"+to.Kind)
	}
	sort.Strings(d)
	return d
}

// closest returns the earlier passing state with the fewest differences to cur (latest on ties).
func closest(cands []*tst, cur *tst) *tst {
	var best *tst
	for _, c := range cands {
		if best == nil || len(netDiff(c, cur)) <= len(netDiff(best, cur)) {
			best = c
		}
	}
	return best
}

// causeKey names the class of input changes between the inputs a reused result was produced for and the current inputs.
func causeKey(cause []string, wiped bool) string {
	if len(cause) == 0 {
		if wiped {
			return "no-input-change-after-wipe"
		}
		return "no-input-change"
	}
	return strings.Join(cause, "+")
}

// minimise re-plays only the last transition (previous tree -> current tree) in a new sandbox and
// reports whether the disagreement for the target reproduces from those two states alone.
func minimise(r *lib.Run, bin string, parent *e2e.Sandbox, i int, prevFiles map[string]string, prevEnv []string, files map[string]string, env []string, label string, wiped bool, freshPass bool, argsRun []string) map[string]any {
	out := map[string]any{"steps": "1: plz test //... on previous tree; 2: apply files_changed; 3: plz test //...", "files_changed": diffFiles(prevFiles, files)}
	if len(argsRun) > 0 {
		out["steps"] = "1: plz test //... on previous tree; 2: apply files_changed; 2b: plz test " + strings.Join(argsRun, " ") + " -- " + selector + "; 3: plz test //..."
	}
	if lib.JSON(prevEnv) != lib.JSON(env) {
		out["env_before"], out["env_after"] = prevEnv, env
	}
	// The sandbox must live at the same path (the probe path and cache path are baked into the files),
	// so move the history's directories aside for the duration.
	aside := parent.Work + ".aside"
	if err := os.Rename(parent.Work, aside); err != nil {
		out["reproduced"] = "not attempted: " + err.Error()
		return out
	}
	defer func() {
		lib.RemoveAll(parent.Work)
		os.Rename(aside, parent.Work)
	}()
	sb := e2e.NewSandbox(parent.Work)
	rn := &runner{sb: sb, bin: bin}
	must(lib.WriteTree(sb.Repo, prevFiles))
	o1, _, _ := rn.incremental(prevEnv)
	if wiped {
		lib.RemoveAll(filepath.Join(sb.Repo, "plz-out"))
	}
	must(x.SyncTree(sb.Repo, files, nil))
	if len(argsRun) > 0 {
		oa, pa, _ := rn.withArgs(env, argsRun)
		out["run_with_args_pass"], out["run_with_args_executed"] = oa.Pass[label], pa.Started
	}
	o2, p2, _ := rn.incremental(env)
	out["first_run_pass"] = o1.Pass[label]
	out["second_run_pass"] = o2.Pass[label]
	out["second_run_cached"] = o2.Cached[label]
	out["second_run_executed"] = p2.Started
	out["fresh_run_pass"] = freshPass
	out["reproduced"] = o2.ok && o2.Pass[label] != freshPass
	r.Obs("minimisation_replays", 1)
	return out
}

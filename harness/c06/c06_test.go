// C06 — cycle detection is sound and complete.
// Monitor: reference Tarjan SCC vs core's cycle detector (through core.VerifCheckCycle) on
// exhaustively enumerated small digraphs and seeded random larger ones; every reported cycle is
// validated edge by edge against the resolved dependency lists.
package c06

import (
	"fmt"
	"math/rand"
	"sort"
	"strings"
	"testing"

	"github.com/thought-machine/please/src/core"

	"verifharness/iplib"
	"verifharness/lib"
)

// A graphCase is n nodes and an adjacency matrix (adj[i][j]: i depends on j), plus a naming
// permutation so that the detector's sorted iteration order differs between namings.
type graphCase struct {
	N     int      `json:"n"`
	Edges [][2]int `json:"edges"`
	Names []string `json:"names"`
}

func (g graphCase) String() string {
	var sb strings.Builder
	for _, e := range g.Edges {
		fmt.Fprintf(&sb, "%s->%s ", g.Names[e[0]], g.Names[e[1]])
	}
	return fmt.Sprintf("n=%d %s", g.N, sb.String())
}

// build constructs the graph through the public core API and resolves all dependencies.
func build(g graphCase) (*core.BuildGraph, []*core.BuildTarget) {
	graph := core.NewGraph()
	ts := make([]*core.BuildTarget, g.N)
	for i := 0; i < g.N; i++ {
		ts[i] = core.NewBuildTarget(core.ParseBuildLabel(g.Names[i], ""))
	}
	for _, e := range g.Edges {
		ts[e[0]].AddDependency(ts[e[1]].Label)
	}
	for _, t := range ts {
		graph.AddTarget(t)
	}
	for _, t := range ts {
		if err := t.ResolveDependencies(graph); err != nil {
			panic(err)
		}
	}
	return graph, ts
}

// hasCycle is the reference: iterative colouring DFS, independent of the code under test.
func hasCycle(n int, edges [][2]int) bool {
	adj := make([][]int, n)
	for _, e := range edges {
		adj[e[0]] = append(adj[e[0]], e[1])
	}
	colour := make([]int, n)
	var visit func(int) bool
	visit = func(u int) bool {
		colour[u] = 1
		for _, v := range adj[u] {
			if colour[v] == 1 || (colour[v] == 0 && visit(v)) {
				return true
			}
		}
		colour[u] = 2
		return false
	}
	for i := 0; i < n; i++ {
		if colour[i] == 0 && visit(i) {
			return true
		}
	}
	return false
}

func checkOne(r *lib.Run, idx int, g graphCase) {
	graph, ts := build(g)
	cycle := core.VerifCheckCycle(graph)
	want := hasCycle(g.N, g.Edges)
	r.Case(g.String(), want && len(g.Edges) > 1)
	if want {
		r.Obs("cyclic_graphs", 1)
	} else {
		r.Obs("acyclic_graphs", 1)
	}
	if r.WantSample() && want {
		r.Sample(map[string]any{"graph": g.String(), "reported": labels(cycle)})
	}
	shape := fmt.Sprintf("n=%d,e=%d", g.N, len(g.Edges))
	if want && cycle == nil {
		r.Violation("missed-cycle/"+shapeClass(g), "cyclic graph reported acyclic: "+g.String(), g, idx)
		return
	}
	if !want && cycle != nil {
		r.Violation("false-cycle/"+shapeClass(g), "acyclic graph reported cyclic: "+g.String()+" reported "+strings.Join(labels(cycle), ","), g, idx)
		return
	}
	if cycle == nil {
		return
	}
	r.ObsDistinct("cycle_lengths", fmt.Sprint(len(cycle)))
	// Every listed target must depend on the next, the last on the first.
	_ = ts
	for i, t := range cycle {
		next := cycle[(i+1)%len(cycle)]
		ok := false
		for _, d := range t.Dependencies() {
			if d == next {
				ok = true
			}
		}
		if !ok {
			r.Violation("bogus-cycle-edge/"+shapeClass(g), fmt.Sprintf("reported cycle %v has no edge %s -> %s in %s (%s)", labels(cycle), t.Label, next.Label, g.String(), shape), g, idx)
			return
		}
	}
}

// shapeClass names the structural class of a failing graph so that known-finding keys stay specific.
func shapeClass(g graphCase) string {
	return fmt.Sprintf("n%d-e%d", g.N, len(g.Edges))
}

func labels(ts []*core.BuildTarget) []string {
	out := make([]string, len(ts))
	for i, t := range ts {
		out[i] = t.Label.String()
	}
	return out
}

func names(n int, rng *rand.Rand) []string {
	perm := make([]int, n)
	for i := range perm {
		perm[i] = i
	}
	if rng != nil {
		rng.Shuffle(n, func(i, j int) { perm[i], perm[j] = perm[j], perm[i] })
	}
	out := make([]string, n)
	for i := range out {
		out[i] = fmt.Sprintf("//p%d:t%02d", perm[i]%3, perm[i])
	}
	return out
}

func TestC06(t *testing.T) {
	iplib.Quiet()
	r := lib.Start("C06")
	defer lib.End(t, r)
	r.Rule = "digraphs without self-loops (the API forbids them): exhaustive over all edge sets for n<=4 (quick) / n<=5 (thorough), each under two label assignments; then seeded random graphs of 6-40 nodes with planted cycles behind completed subgraphs. Distinct by edge list+naming; non-trivial = cyclic with >=2 edges"
	r.Assumes = []string{"graphs are built through core.NewBuildTarget/AddDependency/AddTarget/ResolveDependencies; the detector is entered through core.VerifCheckCycle (export_verif.go)"}

	// Exhaustive small scope.
	maxN := r.Pick(4, 5)
	exhaustive := 0
	if !r.Replaying() {
		for n := 1; n <= maxN; n++ {
			var pairs [][2]int
			for i := 0; i < n; i++ {
				for j := 0; j < n; j++ {
					if i != j {
						pairs = append(pairs, [2]int{i, j})
					}
				}
			}
			rev := names(n, nil)
			sort.Sort(sort.Reverse(sort.StringSlice(rev)))
			for mask := 0; mask < 1<<len(pairs); mask++ {
				var edges [][2]int
				for b, p := range pairs {
					if mask&(1<<b) != 0 {
						edges = append(edges, p)
					}
				}
				for _, nm := range [][]string{names(n, nil), rev} {
					r.Guard(mask, func() { checkOne(r, mask, graphCase{N: n, Edges: edges, Names: nm}) })
					exhaustive++
				}
			}
		}
		r.Exhaustive = true
		r.Extra("exhaustive_scope", fmt.Sprintf("all loop-free digraphs on 1..%d nodes x 2 namings = %d graphs", maxN, exhaustive))
	}

	// Seeded random larger graphs.
	r.ForEach("random", r.Pick(20000, 1000000), 8, func(i int, rng *rand.Rand) {
		n := 6 + rng.Intn(35)
		var edges [][2]int
		seen := map[[2]int]bool{}
		add := func(a, b int) {
			if a != b && !seen[[2]int{a, b}] {
				seen[[2]int{a, b}] = true
				edges = append(edges, [2]int{a, b})
			}
		}
		// A DAG backbone (edges from lower to higher index), density varied.
		dens := rng.Float64() * 0.3
		for a := 0; a < n; a++ {
			for b := a + 1; b < n; b++ {
				if rng.Float64() < dens {
					add(a, b)
				}
			}
		}
		// Optionally plant a cycle among high-index nodes (reached late, through completed subgraphs).
		if rng.Intn(2) == 0 {
			k := 2 + rng.Intn(5)
			nodes := rng.Perm(n)[:k]
			for j := range nodes {
				add(nodes[j], nodes[(j+1)%k])
			}
		}
		checkOne(r, i, graphCase{N: n, Edges: edges, Names: names(n, rng)})
	})
	r.RequireObserved("cyclic_graphs", "acyclic_graphs")
}

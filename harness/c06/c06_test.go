// C06 — cycle detection is sound and complete.
// Monitor: reference Tarjan SCC vs core's cycle detector (through core.VerifCheckCycle) on
// exhaustively enumerated small digraphs and seeded random larger ones; every reported cycle is
// validated edge by edge against the case's own edge list and the resolved dependency lists.
// Label assignments include hidden `_name#tag` children of other nodes of the same graph (the shape
// build definitions generate), so that a detector which walks or reports anything other than the
// direct dependency edges (e.g. "external" dependencies that skip a target's own children) is seen.
package c06

import (
	"fmt"
	"math/rand"
	"sort"
	"strings"
	"testing"

	"github.com/thought-machine/please/src/core"

	"verifharness/iplib"
	"verifharness/lib"
)

// A graphCase is n nodes and an adjacency matrix (adj[i][j]: i depends on j), plus a naming
// permutation so that the detector's sorted iteration order differs between namings.
type graphCase struct {
	N     int      `json:"n"`
	Edges [][2]int `json:"edges"`
	Names []string `json:"names"`
}

func (g graphCase) String() string {
	var sb strings.Builder
	for _, e := range g.Edges {
		fmt.Fprintf(&sb, "%s->%s ", g.Names[e[0]], g.Names[e[1]])
	}
	return fmt.Sprintf("n=%d %s", g.N, sb.String())
}

// build constructs the graph through the public core API and resolves all dependencies.
func build(g graphCase) (*core.BuildGraph, []*core.BuildTarget) {
	graph := core.NewGraph()
	ts := make([]*core.BuildTarget, g.N)
	for i := 0; i < g.N; i++ {
		ts[i] = core.NewBuildTarget(core.ParseBuildLabel(g.Names[i], ""))
	}
	for _, e := range g.Edges {
		ts[e[0]].AddDependency(ts[e[1]].Label)
	}
	for _, t := range ts {
		graph.AddTarget(t)
	}
	for _, t := range ts {
		if err := t.ResolveDependencies(graph); err != nil {
			panic(err)
		}
	}
	return graph, ts
}

// hasCycle is the reference: iterative colouring DFS, independent of the code under test.
func hasCycle(n int, edges [][2]int) bool {
	adj := make([][]int, n)
	for _, e := range edges {
		adj[e[0]] = append(adj[e[0]], e[1])
	}
	colour := make([]int, n)
	var visit func(int) bool
	visit = func(u int) bool {
		colour[u] = 1
		for _, v := range adj[u] {
			if colour[v] == 1 || (colour[v] == 0 && visit(v)) {
				return true
			}
		}
		colour[u] = 2
		return false
	}
	for i := 0; i < n; i++ {
		if colour[i] == 0 && visit(i) {
			return true
		}
	}
	return false
}

func checkOne(r *lib.Run, idx int, g graphCase) {
	graph, ts := build(g)
	cycle := core.VerifCheckCycle(graph)
	want := hasCycle(g.N, g.Edges)
	r.Case(g.String(), want && len(g.Edges) > 1)
	if want {
		r.Obs("cyclic_graphs", 1)
	} else {
		r.Obs("acyclic_graphs", 1)
	}
	if r.WantSample() && want {
		r.Sample(map[string]any{"graph": g.String(), "reported": labels(cycle)})
	}
	shape := fmt.Sprintf("n=%d,e=%d", g.N, len(g.Edges))
	if want && cycle == nil {
		r.Violation("missed-cycle/"+shapeClass(g), "cyclic graph reported acyclic: "+g.String(), g, idx)
		return
	}
	if !want && cycle != nil {
		r.Violation("false-cycle/"+shapeClass(g), "acyclic graph reported cyclic: "+g.String()+" reported "+strings.Join(labels(cycle), ","), g, idx)
		return
	}
	if cycle == nil {
		return
	}
	r.ObsDistinct("cycle_lengths", fmt.Sprint(len(cycle)))
	// Every listed target must be a target of this graph, listed once, and must directly depend on
	// the next, the last on the first. "Directly depends" is decided by the case's own edge list
	// (independent of core) and, as before, by the resolved dependency list.
	index := map[*core.BuildTarget]int{}
	for i, t := range ts {
		index[t] = i
	}
	edge := map[[2]int]bool{}
	for _, e := range g.Edges {
		edge[e] = true
	}
	listed := map[*core.BuildTarget]bool{}
	hidden := false
	for i, t := range cycle {
		next := cycle[(i+1)%len(cycle)]
		ti, ok1 := index[t]
		ni, ok2 := index[next]
		if !ok1 || !ok2 {
			r.Violation("bogus-cycle-member", fmt.Sprintf("reported cycle %v lists a target that is not in the graph %s", labels(cycle), g.String()), g, idx)
			return
		}
		if listed[t] {
			r.Violation("bogus-cycle-repeat/"+namingClass(g), fmt.Sprintf("reported cycle %v lists %s twice in %s (%s)", labels(cycle), t.Label, g.String(), shape), g, idx)
			return
		}
		listed[t] = true
		ok := false
		for _, d := range t.Dependencies() {
			if d == next {
				ok = true
			}
		}
		if !ok || !edge[[2]int{ti, ni}] {
			r.Violation("bogus-cycle-edge/"+hopClass(g, ti), fmt.Sprintf("reported cycle %v has no edge %s -> %s in %s (%s)", labels(cycle), t.Label, next.Label, g.String(), shape), g, idx)
			return
		}
		if t.Label.HasParent() || next.Label.HasParent() {
			hidden = true
		}
	}
	if hidden {
		r.Obs("cycles_through_hidden_children", 1)
	}
}

// parentOf returns, for every node, the index of the node its label names as parent (-1 if none
// or if no node of the graph carries that label).
func parentOf(g graphCase) []int {
	byName := map[string]int{}
	for i, nm := range g.Names {
		byName[nm] = i
	}
	out := make([]int, g.N)
	for i, nm := range g.Names {
		out[i] = -1
		l := core.ParseBuildLabel(nm, "")
		if l.HasParent() {
			if p, ok := byName[l.Parent().String()]; ok {
				out[i] = p
			}
		}
	}
	return out
}

// namingClass says whether the label assignment contains hidden children of other nodes.
func namingClass(g graphCase) string {
	for _, p := range parentOf(g) {
		if p >= 0 {
			return "hidden-children"
		}
	}
	return "plain-labels"
}

// hopClass names the class of a bogus hop by what its source is: a target that depends on one of
// its own hidden `_name#tag` children (the place where "external" views of the graph differ from
// the direct edges), a hidden child itself, or an ordinary target (then the structural class).
func hopClass(g graphCase, from int) string {
	par := parentOf(g)
	if par[from] >= 0 {
		return "from-hidden-child"
	}
	for _, e := range g.Edges {
		if e[0] == from && par[e[1]] == from {
			return "from-parent-of-hidden-child"
		}
	}
	return shapeClass(g)
}

// shapeClass names the structural class of a failing graph so that known-finding keys stay specific.
func shapeClass(g graphCase) string {
	return fmt.Sprintf("n%d-e%d", g.N, len(g.Edges))
}

func labels(ts []*core.BuildTarget) []string {
	out := make([]string, len(ts))
	for i, t := range ts {
		out[i] = t.Label.String()
	}
	return out
}

func names(n int, rng *rand.Rand) []string {
	perm := make([]int, n)
	for i := range perm {
		perm[i] = i
	}
	if rng != nil {
		rng.Shuffle(n, func(i, j int) { perm[i], perm[j] = perm[j], perm[i] })
	}
	out := make([]string, n)
	for i := range out {
		out[i] = fmt.Sprintf("//p%d:t%02d", perm[i]%3, perm[i])
	}
	return out
}

// hideChildren renames the nodes listed in child (child[k] = parent index, parents are never
// renamed themselves) to hidden `_<parent>#<tag>` labels in the parent's package. The number of
// leading underscores and the tag vary: `__x#a` and `_x#a#b` are children of x as well.
func hideChildren(nm []string, child map[int]int) []string {
	out := append([]string(nil), nm...)
	keys := make([]int, 0, len(child))
	for k := range child {
		keys = append(keys, k)
	}
	sort.Ints(keys)
	for _, k := range keys {
		p := core.ParseBuildLabel(nm[child[k]], "")
		form := []string{"_%s#c%d", "__%s#c%d", "_%s#c%d#x", "_%s#%d"}[k%4]
		out[k] = fmt.Sprintf("//%s:"+form, p.PackageName, p.Name, k)
	}
	return out
}

// hiddenNamings are the label assignments with hidden children used in the exhaustive scope:
// one child; every other node a child of node 0; two parent/child pairs; children of the last node
// (which sorts after them, so the detector enters through the child first).
func hiddenNamings(n int) [][]string {
	if n < 2 {
		return nil
	}
	base := names(n, nil)
	out := [][]string{hideChildren(base, map[int]int{1: 0})}
	if n >= 3 {
		all := map[int]int{}
		for k := 1; k < n; k++ {
			all[k] = 0
		}
		out = append(out, hideChildren(base, all))
		out = append(out, hideChildren(base, map[int]int{0: n - 1}))
	}
	if n >= 4 {
		out = append(out, hideChildren(base, map[int]int{1: 0, 3: 2}))
	}
	return out
}

func TestC06(t *testing.T) {
	iplib.Quiet()
	r := lib.Start("C06")
	defer lib.End(t, r)
	r.Rule = "digraphs without self-loops (the API forbids them): exhaustive over all edge sets for n<=4 (quick) / n<=5 (thorough), each under two plain label assignments and up to four with hidden `_name#tag` children of other nodes; then seeded random graphs of 6-40 nodes with planted cycles behind completed subgraphs, half of them with hidden children whose parents depend on them and cycles planted through a parent->child hop. Distinct by edge list+naming; non-trivial = cyclic with >=2 edges"
	r.Assumes = []string{"graphs are built through core.NewBuildTarget/AddDependency/AddTarget/ResolveDependencies; the detector is entered through core.VerifCheckCycle (export_verif.go)"}

	// Exhaustive small scope.
	maxN := r.Pick(4, 5)
	exhaustive := 0
	var perN []string
	if !r.Replaying() {
		for n := 1; n <= maxN; n++ {
			var pairs [][2]int
			for i := 0; i < n; i++ {
				for j := 0; j < n; j++ {
					if i != j {
						pairs = append(pairs, [2]int{i, j})
					}
				}
			}
			rev := names(n, nil)
			sort.Sort(sort.Reverse(sort.StringSlice(rev)))
			namings := [][]string{names(n, nil), rev}
			if hn := hiddenNamings(n); n <= 4 {
				namings = append(namings, hn...)
			} else {
				namings = append(namings, hn[0]) // 2^20 edge sets: one hidden naming keeps the thorough tier in budget
			}
			perN = append(perN, fmt.Sprintf("n=%d:%d namings", n, len(namings)))
			for mask := 0; mask < 1<<len(pairs); mask++ {
				var edges [][2]int
				for b, p := range pairs {
					if mask&(1<<b) != 0 {
						edges = append(edges, p)
					}
				}
				for _, nm := range namings {
					r.Guard(mask, func() { checkOne(r, mask, graphCase{N: n, Edges: edges, Names: nm}) })
					exhaustive++
				}
			}
		}
		r.Exhaustive = true
		r.Extra("exhaustive_scope", fmt.Sprintf("all loop-free digraphs on 1..%d nodes x (plain, reversed, hidden-children namings: %s) = %d graphs", maxN, strings.Join(perN, " "), exhaustive))
	}

	// Seeded random larger graphs.
	r.ForEach("random", r.Pick(12000, 300000), 8, func(i int, rng *rand.Rand) {
		n := 6 + rng.Intn(35)
		var edges [][2]int
		seen := map[[2]int]bool{}
		add := func(a, b int) {
			if a != b && !seen[[2]int{a, b}] {
				seen[[2]int{a, b}] = true
				edges = append(edges, [2]int{a, b})
			}
		}
		// A DAG backbone (edges from lower to higher index), density varied.
		dens := rng.Float64() * 0.3
		for a := 0; a < n; a++ {
			for b := a + 1; b < n; b++ {
				if rng.Float64() < dens {
					add(a, b)
				}
			}
		}
		// Half of the graphs carry hidden children: some nodes are renamed `_<parent>#<tag>` for
		// another (never renamed) node of the graph, and the parent usually depends on its child, as
		// the targets a build definition generates do.
		child := map[int]int{}
		var pairs [][2]int // (parent, child)
		if rng.Intn(2) == 0 {
			nparents := 1 + rng.Intn(1+n/4)
			perm := rng.Perm(n)
			parents := perm[:nparents]
			for _, k := range perm[nparents:] {
				if rng.Intn(3) == 0 {
					child[k] = parents[rng.Intn(nparents)]
					pairs = append(pairs, [2]int{child[k], k})
				}
			}
			for _, pc := range pairs {
				if rng.Intn(4) != 0 {
					add(pc[0], pc[1])
				}
			}
		}
		// Optionally plant a cycle among high-index nodes (reached late, through completed subgraphs);
		// with hidden children, usually one that passes from a parent through its own child.
		if rng.Intn(2) == 0 {
			k := 2 + rng.Intn(5)
			nodes := rng.Perm(n)[:k]
			if len(pairs) > 0 && rng.Intn(3) != 0 {
				pc := pairs[rng.Intn(len(pairs))]
				rest := nodes[:0:0]
				for _, x := range nodes {
					if x != pc[0] && x != pc[1] {
						rest = append(rest, x)
					}
				}
				if len(rest) > k-2 {
					rest = rest[:k-2]
				}
				nodes = append([]int{pc[0], pc[1]}, rest...)
				k = len(nodes)
			}
			for j := range nodes {
				add(nodes[j], nodes[(j+1)%k])
			}
		}
		nm := names(n, rng)
		if len(child) > 0 {
			nm = hideChildren(nm, child)
			r.Obs("random_graphs_with_hidden_children", 1)
		}
		checkOne(r, i, graphCase{N: n, Edges: edges, Names: nm})
	})
	r.RequireObserved("cyclic_graphs", "acyclic_graphs", "cycles_through_hidden_children")
}

// C07 — target hashes are deterministic across runs and parallelism.
//
// Two monitors share this check:
//
//   - IP: in-memory targets are filled through the same core.BuildTarget setters the BUILD parser
//     uses, with every map-typed attribute (named srcs / tools / outs / data, provides, env, entry
//     points, per-config commands) inserted in a different random key order per instance — exactly
//     the freedom the parser has, since it ranges over Go maps — and hashed with the real
//     build.RuleHash (pre-build, post-build and runtime variants) from 8 goroutines under -race.
//     All instances of one definition must agree, and so must the anchored orderings
//     (DeclaredDependencies, AllSources, AllTools, AllData, DeclaredOutputNames).
//
//   - E2E: generated repositories rich in map-typed attributes are hashed with the real binary
//     (`plz hash --detailed`) several times: -n 1 / -n 16, permuted package arguments, delay injection
//     at the parse / build dispatch points, fresh and retained plz-out, and one race-built run on every other repository.
//     The normalised output (per target: output hash, config / rule / source / tool lines) must be
//     identical across the invocations of one repository.
package c07

import (
	"encoding/hex"
	"fmt"
	"math/rand"
	"os"
	"path/filepath"
	"sort"
	"strings"
	"testing"
	"time"

	"github.com/thought-machine/please/src/build"
	"github.com/thought-machine/please/src/core"

	"verifharness/e2e"
	b "verifharness/e2eblib"
	"verifharness/iplib"
	"verifharness/lib"
)

var raceAnchors = []string{"src/build/incrementality.go", "src/core/build_target.go"}

// ---------------------------------------------------------------------------------------------
// In-process part
// ---------------------------------------------------------------------------------------------

// An ipSpec is one target definition. Only the grouping into named keys is map-typed; the order of
// the values inside one group is part of the definition and is never permuted.
type ipSpec struct {
	NamedSrcs    map[string][]string `json:"named_srcs,omitempty"`
	Srcs         []string            `json:"srcs,omitempty"`
	NamedTools   map[string][]string `json:"named_tools,omitempty"`
	NamedOuts    map[string][]string `json:"named_outs,omitempty"`
	Outs         []string            `json:"outs,omitempty"`
	NamedData    map[string][]string `json:"named_data,omitempty"`
	Provides     map[string][]string `json:"provides,omitempty"`
	Env          map[string]string   `json:"env,omitempty"`
	EntryPoints  map[string]string   `json:"entry_points,omitempty"`
	Commands     map[string]string   `json:"commands,omitempty"`
	TestCommands map[string]string   `json:"test_commands,omitempty"`
	Cmd          string              `json:"cmd,omitempty"`
	Deps         []string            `json:"deps,omitempty"`
	Requires     []string            `json:"requires,omitempty"`
	Labels       []string            `json:"labels,omitempty"`
	Test         bool                `json:"test,omitempty"`
	PostBuild    bool                `json:"post_build,omitempty"`
	Binary       bool                `json:"binary,omitempty"`
	Features     []string            `json:"features"`
}

const ipPkg = "pkg/sub"

type postBuildStub struct{}

func (postBuildStub) String() string                            { return "post_build" }
func (postBuildStub) Call(t *core.BuildTarget, out string) error { return nil }

func ipInput(s string) core.BuildInput {
	if strings.HasPrefix(s, "//") || strings.HasPrefix(s, ":") {
		return core.ParseBuildLabel(s, ipPkg)
	}
	return core.FileLabel{File: s, Package: ipPkg}
}

func shuffledKeys[V any](rng *rand.Rand, m map[string]V) []string {
	ks := b.SortedKeys(m)
	rng.Shuffle(len(ks), func(i, j int) { ks[i], ks[j] = ks[j], ks[i] })
	return ks
}

// materialise builds the target the way populateTarget (src/parse/asp/targets.go) does, ranging over
// every dict in the key order chosen by rng.
func materialise(s *ipSpec, rng *rand.Rand) *core.BuildTarget {
	t := core.NewBuildTarget(core.NewBuildLabel(ipPkg, "t"))
	t.IsBinary = s.Binary
	if s.Test {
		t.Test = new(core.TestFields)
	}
	if s.Commands != nil {
		for _, k := range shuffledKeys(rng, s.Commands) {
			t.AddCommand(k, s.Commands[k])
		}
	} else {
		t.Command = s.Cmd
	}
	if s.Test {
		if s.TestCommands != nil {
			for _, k := range shuffledKeys(rng, s.TestCommands) {
				t.AddTestCommand(k, s.TestCommands[k])
			}
		} else {
			t.Test.Command = "true"
		}
	}
	for _, x := range s.Srcs {
		t.AddSource(ipInput(x))
	}
	for _, k := range shuffledKeys(rng, s.NamedSrcs) {
		for _, x := range s.NamedSrcs[k] {
			t.AddNamedSource(k, ipInput(x))
		}
	}
	for _, k := range shuffledKeys(rng, s.NamedTools) {
		for _, x := range s.NamedTools[k] {
			t.AddNamedTool(k, ipInput(x))
		}
	}
	for _, k := range shuffledKeys(rng, s.NamedData) {
		for _, x := range s.NamedData[k] {
			t.AddNamedDatum(k, ipInput(x))
		}
	}
	for _, x := range s.Outs {
		t.AddOutput(x)
	}
	for _, k := range shuffledKeys(rng, s.NamedOuts) {
		for _, x := range s.NamedOuts[k] {
			t.AddNamedOutput(k, x)
		}
	}
	for _, d := range s.Deps {
		t.AddDependency(core.ParseBuildLabel(d, ipPkg))
	}
	for _, l := range s.Labels {
		t.AddLabel(l)
	}
	for _, q := range s.Requires {
		t.AddRequire(q)
	}
	for _, k := range shuffledKeys(rng, s.Provides) {
		ls := make([]core.BuildLabel, len(s.Provides[k]))
		for i, x := range s.Provides[k] {
			ls[i] = core.ParseBuildLabel(x, ipPkg)
		}
		t.AddProvide(k, ls)
	}
	if s.Env != nil {
		t.Env = map[string]string{}
		for _, k := range shuffledKeys(rng, s.Env) {
			t.Env[k] = s.Env[k]
		}
	}
	for _, k := range shuffledKeys(rng, s.EntryPoints) {
		t.AddEntryPoint(k, s.EntryPoints[k])
	}
	if s.PostBuild {
		t.PostBuildFunction = postBuildStub{}
	}
	return t
}

// An ipObs is everything the monitor reads off one instance.
type ipObs struct {
	names []string
	vals  []string
}

func inputsString(in []core.BuildInput) string {
	parts := make([]string, len(in))
	for i, x := range in {
		parts[i] = x.String()
	}
	return strings.Join(parts, " ")
}

func observeIP(state *core.BuildState, t *core.BuildTarget) ipObs {
	var o ipObs
	add := func(n, v string) { o.names = append(o.names, n); o.vals = append(o.vals, v) }
	deps := t.DeclaredDependencies()
	ds := make([]string, len(deps))
	for i, d := range deps {
		ds[i] = d.String()
	}
	add("DeclaredDependencies", strings.Join(ds, " "))
	add("AllSources", inputsString(t.AllSources()))
	add("AllTools", inputsString(t.AllTools()))
	add("AllData", inputsString(t.AllData()))
	add("DeclaredOutputNames", strings.Join(t.DeclaredOutputNames(), " "))
	add("RuleHash", hex.EncodeToString(build.RuleHash(state, t, false, false)))
	add("RuleHash-postbuild", hex.EncodeToString(build.RuleHash(state, t, false, true)))
	add("RuleHash-runtime", hex.EncodeToString(build.RuleHash(state, t, true, false)))
	// asking again must give the same answer (the pre-build hash is memoised on the target, the others are recomputed)
	add("RuleHash-again", hex.EncodeToString(build.RuleHash(state, t, false, false)))
	add("RuleHash-postbuild-again", hex.EncodeToString(build.RuleHash(state, t, false, true)))
	add("RuleHash-runtime-again", hex.EncodeToString(build.RuleHash(state, t, true, false)))
	return o
}

var ipGroupKeys = []string{"srcs", "hdrs", "a", "b", "ab", "z", "resources", "_x", "B"}
var ipLangs = []string{"go", "py", "cc", "java", "a", "b"}
var ipEnvKeys = []string{"VAR_A", "VAR_B", "ZED", "A", "B", "AB", "PATH_EXTRA"}
var ipConfigs = []string{"opt", "dbg", "cover", "fast", "zzz"}

func pickKeys(rng *rand.Rand, pool []string, n int) []string {
	p := append([]string(nil), pool...)
	rng.Shuffle(len(p), func(i, j int) { p[i], p[j] = p[j], p[i] })
	if n > len(p) {
		n = len(p)
	}
	return p[:n]
}

var ipFeatureNames = []string{"named_srcs", "named_tools", "named_outs", "named_data", "provides", "env", "entry_points", "commands", "test_commands"}

func addFeature(s *ipSpec, f string, rng *rand.Rand, uid *int) {
	n := 2 + rng.Intn(4)
	next := func(prefix string) string { *uid++; return fmt.Sprintf("%s%d", prefix, *uid) }
	val := func() string { // file or label input
		switch rng.Intn(3) {
		case 0:
			return next("f") + ".txt"
		case 1:
			return "//dep/p" + fmt.Sprint(rng.Intn(3)) + ":" + next("d")
		default:
			return ":" + next("l")
		}
	}
	group := func(labelsOnly bool) []string {
		var out []string
		for j := 0; j < 1+rng.Intn(3); j++ {
			v := val()
			if labelsOnly && !strings.Contains(v, ":") {
				v = ":" + next("tool")
			}
			out = append(out, v)
		}
		return out
	}
	switch f {
	case "named_srcs":
		s.NamedSrcs = map[string][]string{}
		for _, k := range pickKeys(rng, ipGroupKeys, n) {
			s.NamedSrcs[k] = group(false)
		}
	case "named_tools":
		s.NamedTools = map[string][]string{}
		for _, k := range pickKeys(rng, ipGroupKeys, n) {
			s.NamedTools[k] = group(true)
		}
	case "named_data":
		s.NamedData = map[string][]string{}
		for _, k := range pickKeys(rng, ipGroupKeys, n) {
			s.NamedData[k] = group(false)
		}
	case "named_outs":
		s.NamedOuts = map[string][]string{}
		for _, k := range pickKeys(rng, []string{"o1", "o2", "zz", "aa", "hdrs", "lib", "a", "b"}, n) {
			for j := 0; j < 1+rng.Intn(2); j++ {
				s.NamedOuts[k] = append(s.NamedOuts[k], next("out")+".o")
			}
		}
	case "provides":
		s.Provides = map[string][]string{}
		for _, k := range pickKeys(rng, ipLangs, n) {
			for j := 0; j < 1+rng.Intn(2); j++ {
				s.Provides[k] = append(s.Provides[k], ":"+next("prov"))
			}
		}
	case "env":
		s.Env = map[string]string{}
		for _, k := range pickKeys(rng, ipEnvKeys, n) {
			s.Env[k] = []string{"1", "two", "x y", "", "A=B"}[rng.Intn(5)]
		}
	case "entry_points":
		s.EntryPoints = map[string]string{}
		for _, k := range pickKeys(rng, []string{"main", "ep0", "ep1", "x", "y", "zed"}, n) {
			s.EntryPoints[k] = next("bin") + ".sh"
		}
	case "commands":
		s.Commands = map[string]string{}
		for _, k := range pickKeys(rng, ipConfigs, n) {
			s.Commands[k] = "echo " + k + " > $OUT"
		}
		s.Cmd = ""
	case "test_commands":
		s.Test = true
		s.TestCommands = map[string]string{}
		for _, k := range pickKeys(rng, ipConfigs, n) {
			s.TestCommands[k] = "echo test " + k
		}
	}
	s.Features = append(s.Features, f)
	sort.Strings(s.Features)
}

func genIPSpec(rng *rand.Rand) *ipSpec {
	uid := 0
	s := &ipSpec{Cmd: "echo hi > $OUT", Outs: []string{"plain.out"}}
	s.PostBuild = rng.Intn(3) == 0
	s.Binary = rng.Intn(3) == 0
	s.Test = rng.Intn(4) == 0
	for j := 0; j < rng.Intn(3); j++ {
		s.Deps = append(s.Deps, fmt.Sprintf("//dep/p%d:x%d", rng.Intn(3), rng.Intn(20)))
	}
	if rng.Intn(2) == 0 {
		s.Requires = pickKeys(rng, ipLangs, 1+rng.Intn(2))
	}
	if rng.Intn(2) == 0 {
		s.Labels = pickKeys(rng, []string{"l1", "l2", "manual", "keepme"}, 1+rng.Intn(2))
	}
	feats := append([]string(nil), ipFeatureNames...)
	rng.Shuffle(len(feats), func(i, j int) { feats[i], feats[j] = feats[j], feats[i] })
	n := 1 // half of the definitions exercise exactly one map-typed attribute (precise attribution)
	if rng.Intn(2) == 0 {
		n = 2 + rng.Intn(len(feats)-1)
	}
	for _, f := range feats[:n] {
		addFeature(s, f, rng, &uid)
	}
	if s.NamedSrcs == nil && rng.Intn(2) == 0 {
		s.Srcs = []string{"plain.txt", ":plainlabel"}
	}
	return s
}

// only keeps a single map-typed feature of the definition (for minimisation).
func (s *ipSpec) only(f string) *ipSpec {
	c := *s
	c.NamedSrcs, c.NamedTools, c.NamedOuts, c.NamedData, c.Provides, c.Env, c.EntryPoints, c.Commands, c.TestCommands = nil, nil, nil, nil, nil, nil, nil, nil, nil
	if c.Cmd == "" {
		c.Cmd = "echo hi > $OUT"
	}
	switch f {
	case "named_srcs":
		c.NamedSrcs = s.NamedSrcs
		c.Srcs = nil
	case "named_tools":
		c.NamedTools = s.NamedTools
	case "named_outs":
		c.NamedOuts = s.NamedOuts
	case "named_data":
		c.NamedData = s.NamedData
	case "provides":
		c.Provides = s.Provides
	case "env":
		c.Env = s.Env
	case "entry_points":
		c.EntryPoints = s.EntryPoints
	case "commands":
		c.Commands = s.Commands
		c.Cmd = ""
	case "test_commands":
		c.TestCommands = s.TestCommands
		c.Test = true
	}
	c.Features = []string{f}
	return &c
}

// firstDisagreement builds `orders` instances of the definition and returns the name of the first
// observation that is not the same for all of them ("" if they all agree).
func firstDisagreement(state *core.BuildState, s *ipSpec, rng *rand.Rand, orders int) (string, string, string) {
	var ref ipObs
	for k := 0; k < orders; k++ {
		o := observeIP(state, materialise(s, rng))
		if k == 0 {
			ref = o
			continue
		}
		for j := range o.vals {
			if o.vals[j] != ref.vals[j] {
				return o.names[j], ref.vals[j], o.vals[j]
			}
		}
	}
	return "", "", ""
}

func runIP(r *lib.Run) {
	state := iplib.NewState()
	orders := 25
	r.ForEach("ip", r.Pick(400, 8000), 8, func(i int, rng *rand.Rand) {
		s := genIPSpec(rng)
		r.Case("ip:"+lib.JSON(s), len(s.Features) > 0)
		r.Obs("ip_definitions", 1)
		r.Obs("ip_targets_hashed", int64(orders))
		for _, f := range s.Features {
			r.ObsDistinct("ip_features", f)
		}
		if i < 2 && r.WantSample() {
			r.Sample(map[string]any{"part": "in-process", "definition": s, "insertion_orders": orders})
		}
		what, a, bb := firstDisagreement(state, s, rng, orders)
		if what == "" {
			return
		}
		// minimise: which single map-typed attribute is enough (preferably for the same observation)?
		classOf := func(w string) string {
			if strings.HasPrefix(w, "RuleHash") {
				return "RuleHash" // pre-build / post-build / runtime / repeated: one class, the witness says which
			}
			return w
		}
		var same, other []string
		min := s
		for _, f := range s.Features {
			c := s.only(f)
			if w, _, _ := firstDisagreement(state, c, rng, 2*orders); w != "" {
				if classOf(w) == classOf(what) {
					if len(same) == 0 {
						min = c
					}
					same = append(same, f)
				} else {
					other = append(other, f)
				}
			}
		}
		culprits := same
		if len(culprits) == 0 {
			culprits = other
		}
		if len(culprits) == 0 {
			culprits = s.Features
		}
		what2 := fmt.Sprintf("%s differs between two in-memory instances of one definition that differ only in the insertion order of dict keys: %q vs %q", what, a, bb)
		wit := map[string]any{"definition": min, "observation": what, "first": a, "second": bb, "attributes_that_suffice_alone": culprits}
		if len(same)+len(other) == 0 {
			r.Violation("ip/"+classOf(what)+"/"+strings.Join(culprits, "+"), what2, wit, i)
			return
		}
		for _, f := range culprits { // one key per map-typed attribute that suffices on its own
			wit2 := map[string]any{"definition": s.only(f), "observation": what, "first": a, "second": bb}
			r.Violation("ip/"+classOf(what)+"/"+f, what2, wit2, i)
		}
	})
}

// ---------------------------------------------------------------------------------------------
// End-to-end part
// ---------------------------------------------------------------------------------------------

// sanitise works around generator shapes that cannot build (a "srcs" command without any source
// walks the build directory and reads its own output).
func sanitise(repo *b.Repo) {
	repo.Light = true // builtin-only commands: an invocation rebuilds everything, and process creation dominates its cost
	for _, t := range repo.Targets {
		if t.Op == "srcs" && len(t.Srcs)+len(t.SrcLabels) == 0 && t.NamedSrcs == nil {
			t.Op = "all"
		}
	}
}

// mapFeatures lists the map-typed attributes with at least two keys on a model target.
func mapFeatures(t *b.Target) []string {
	var out []string
	if len(t.NamedSrcs) > 1 {
		out = append(out, "named_srcs")
	}
	if len(t.NamedTools) > 1 {
		out = append(out, "named_tools")
	}
	if len(t.NamedOuts) > 1 {
		out = append(out, "named_outs")
	}
	if len(t.NamedData) > 1 {
		out = append(out, "named_data")
	}
	if len(t.Provides) > 1 {
		out = append(out, "provides")
	}
	if len(t.Env) > 1 {
		out = append(out, "env")
	}
	if len(t.EntryPoints) > 1 {
		out = append(out, "entry_points")
	}
	return out
}

// A hashReport is the normalised output of one `plz hash --detailed` invocation.
type hashReport struct {
	Plain    map[string]string   // label -> output hash line
	Detailed map[string][]string // label -> lines of the detailed block
}

func parseHashOutput(stdout string) hashReport {
	rep := hashReport{Plain: map[string]string{}, Detailed: map[string][]string{}}
	cur := ""
	inPlain := false
	for _, line := range strings.Split(stdout, "\n") {
		if strings.TrimSpace(line) == "" {
			continue
		}
		if strings.HasPrefix(line, "Hashes calculated") { // carries the wall time: dropped
			inPlain = true
			cur = ""
			continue
		}
		if !strings.HasPrefix(line, " ") {
			inPlain = false
			cur = strings.TrimSuffix(line, ":")
			rep.Detailed[cur] = []string{}
			continue
		}
		l := strings.TrimSpace(line)
		if inPlain {
			if k := strings.LastIndex(l, ": "); k > 0 {
				rep.Plain[l[:k]] = l[k+2:]
			}
			continue
		}
		if cur != "" {
			rep.Detailed[cur] = append(rep.Detailed[cur], l)
		}
	}
	return rep
}

// fieldOf names the kind of a detailed line.
func fieldOf(l string) string {
	switch {
	case strings.HasPrefix(l, "Config:"):
		return "config"
	case strings.HasPrefix(l, "Rule:") && strings.HasSuffix(l, "(pre-build)"):
		return "rule-prebuild"
	case strings.HasPrefix(l, "Rule:") && strings.HasSuffix(l, "(post-build)"):
		return "rule-postbuild"
	case strings.HasPrefix(l, "Source:") && strings.Count(l, ": ") == 1:
		return "source"
	case strings.HasPrefix(l, "Source:"):
		return "source-entry"
	case strings.HasPrefix(l, "Tool:"):
		return "tool"
	}
	return "other"
}

// An invocation is how one repetition is run.
type invocation struct {
	Race    bool     `json:"race_binary"`
	Threads int      `json:"threads"`
	Args    []string `json:"target_args"`
	Delay   string   `json:"hook_delay,omitempty"`
	Fresh   bool     `json:"fresh_plz_out"`
}

func planInvocations(rng *rand.Rand, repo *b.Repo, n int, race bool) []invocation {
	pkgs := repo.Pkgs()
	if repo.UsesDefs() {
		pkgs = append(pkgs, "build_defs")
	}
	perm := func() []string {
		p := append([]string(nil), pkgs...)
		rng.Shuffle(len(p), func(i, j int) { p[i], p[j] = p[j], p[i] })
		out := make([]string, len(p))
		for i, x := range p {
			out[i] = "//" + x + ":all"
		}
		return out
	}
	rev := func(a []string) []string {
		out := make([]string, len(a))
		for i := range a {
			out[i] = a[len(a)-1-i]
		}
		return out
	}
	first := perm()
	delay := func() string {
		return fmt.Sprintf("%d:0.5:%d:dispatch.*", rng.Intn(1<<30), 500+rng.Intn(3000))
	}
	inv := []invocation{
		{Threads: 1, Args: []string{"//..."}, Fresh: true},
		{Threads: 16, Args: first, Fresh: true},
		{Threads: 1, Args: rev(first), Delay: delay()},
		{Threads: 16, Args: []string{"//..."}, Delay: delay(), Fresh: true},
		{Threads: 8, Args: perm(), Delay: delay(), Race: race},
		{Threads: 2, Args: perm()},
	}
	threads := []int{1, 2, 3, 16, 16, 1}
	for len(inv) < n {
		x := invocation{Threads: threads[rng.Intn(len(threads))], Args: perm(), Fresh: rng.Intn(3) == 0}
		if rng.Intn(4) == 0 {
			x.Args = []string{"//..."}
		}
		if rng.Intn(2) == 0 {
			x.Delay = delay()
		}
		if race && rng.Intn(6) == 0 {
			x.Race = true
		}
		inv = append(inv, x)
	}
	return inv[:n]
}

// scheduleSignature summarises the order in which targets were activated (parse / discovery order)
// and in which build steps started.
func scheduleSignature(tracePath string) (string, string, int) {
	evs, err := e2e.ReadTrace(tracePath)
	if err != nil {
		return "", "", 0
	}
	var act, bs []string
	for _, e := range evs {
		switch e.Kind {
		case "activate":
			act = append(act, e.Subject)
		case "build_start":
			bs = append(bs, e.Subject)
		}
	}
	return lib.Hash(act...), lib.Hash(bs...), len(evs)
}

func runE2E(r *lib.Run) {
	nRepos := r.Pick(16, 100)
	nInv := 6 // a count, like everything else; not scaled by VERIF_SCALE so that there is always something to compare
	if !r.Quick() {
		nInv = 10
	}
	plain := lib.PlzBin(false)
	raceBin := lib.PlzBin(true)
	r.ForEach("e2e", nRepos, 8, func(i int, rng *rand.Rand) {
		repo := b.Generate(rng, b.GenOpts{MinTargets: 5, MaxTargets: 9, Maps: true, Tests: true, Config: true, Root: true, DepOneIn: 3})
		sanitise(repo)
		if err := repo.Check(); err != nil {
			r.Obs("e2e_generator_rejects", 1)
			return
		}
		sb := e2e.NewSandbox(filepath.Join(r.Scratch(), fmt.Sprintf("r%d", i)))
		defer lib.RemoveAll(sb.Work)
		if err := b.WriteFiles(sb.Repo, repo.AllFiles(b.RenderOpts{})); err != nil {
			panic("harness: " + err.Error())
		}
		feats := map[string]bool{}
		for _, t := range repo.Targets {
			for _, f := range mapFeatures(t) {
				feats[f] = true
			}
		}
		invs := planInvocations(rng, repo, nInv, i%2 == 0) // the race-built binary on every other repository
		type outcome struct {
			inv invocation
			rep hashReport
			res lib.PlzResult
		}
		var ok []outcome
		actSigs := map[string]bool{}
		bsSigs := map[string]bool{}
		for k, inv := range invs {
			if inv.Fresh {
				lib.RemoveAll(filepath.Join(sb.Repo, "plz-out"))
			}
			trace := filepath.Join(sb.Work, fmt.Sprintf("trace%d", k))
			env := []string{"VERIF_TRACE=" + trace}
			if inv.Delay != "" {
				env = append(env, "VERIF_HOOK_DELAY="+inv.Delay)
			}
			bin := plain
			racePrefix := filepath.Join(sb.Work, fmt.Sprintf("race%d", k))
			if inv.Race {
				bin = raceBin
				env = append(env, "GORACE=halt_on_error=0 log_path="+racePrefix)
			}
			args := append([]string{"hash", "--detailed", "-n", fmt.Sprint(inv.Threads)}, inv.Args...)
			res := sb.PlzWatched(bin, env, 600*time.Second, args...)
			r.Obs("e2e_invocations", 1)
			if os.Getenv("VERIF_C07_DEBUG") != "" {
				fmt.Printf("case %d inv %d race=%v n=%d fresh=%v delay=%q: %.1fs exit %d\n", i, k, inv.Race, inv.Threads, inv.Fresh, inv.Delay, res.Dur.Seconds(), res.Exit)
			}
			if inv.Race {
				r.Obs("e2e_race_binary_invocations", 1)
				for _, rr := range lib.ParseRaceLogs(racePrefix, raceAnchors) {
					if rr.Anchor {
						txt := rr.Text
						if len(txt) > 6000 {
							txt = txt[:6000]
						}
						r.Obs("race_reports_anchored", 1)
						r.Violation("race:"+rr.Key, "data race reported by the race-built plz in the hashing code during `plz hash`", map[string]any{"report": txt, "invocation": inv, "repo": repo}, i)
					} else {
						r.Obs("race_reports_elsewhere", 1)
						r.ObsDistinct("race_elsewhere_keys", rr.Key)
					}
				}
			}
			if res.TimedOut {
				r.Inconclusive(fmt.Sprintf("e2e case %d invocation %d: plz hash did not finish within the watchdog (%s)", i, k, lib.Tail(res.Watchdog, 300)))
				continue
			}
			if res.Exit != 0 {
				r.Obs("e2e_failed_invocations", 1)
				if os.Getenv("VERIF_C07_DEBUG") != "" {
					fmt.Printf("case %d inv %d failed (%d):\n%s\n", i, k, res.Exit, lib.Tail(res.Stderr, 3000))
				}
				continue
			}
			a, s, n := scheduleSignature(trace)
			r.Obs("e2e_trace_events", int64(n))
			actSigs[a] = true
			bsSigs[s] = true
			rep := parseHashOutput(res.Stdout)
			if os.Getenv("VERIF_C07_DEBUG") != "" && i == 0 && k == 0 {
				fmt.Printf("---- raw output case 0 ----\n%s\n----\n", res.Stdout)
			}
			r.Obs("e2e_hash_lines_compared", int64(len(rep.Plain)))
			for _, ls := range rep.Detailed {
				r.Obs("e2e_hash_lines_compared", int64(len(ls)))
			}
			ok = append(ok, outcome{inv, rep, res})
		}
		nontrivial := len(ok) >= 2 && len(feats) > 0
		r.Case("e2e:"+lib.JSON(repo), nontrivial)
		if len(ok) < 2 {
			r.Obs("e2e_repos_without_two_successful_invocations", 1)
			return
		}
		r.Obs("e2e_repos_compared", 1)
		for f := range feats {
			r.ObsDistinct("e2e_map_features", f)
		}
		if len(actSigs) > 1 {
			r.Obs("e2e_repos_with_distinct_activation_orders", 1)
		}
		if len(bsSigs) > 1 {
			r.Obs("e2e_repos_with_distinct_build_orders", 1)
		}
		for s := range actSigs {
			r.ObsDistinct("e2e_activation_orders", fmt.Sprint(i, s))
		}
		for s := range bsSigs {
			r.ObsDistinct("e2e_build_start_orders", fmt.Sprint(i, s))
		}
		if i < 2 && r.WantSample() {
			r.Sample(map[string]any{"part": "e2e", "targets": len(repo.Targets), "map_features": b.SortedKeys(feats), "invocations": invs,
				"build_file_example": repo.Render(repo.Targets[len(repo.Targets)-1], b.RenderOpts{})})
		}
		// compare every successful invocation with the first one
		ref := ok[0]
		for _, o := range ok[1:] {
			if len(o.rep.Plain) != len(ref.rep.Plain) || len(o.rep.Detailed) != len(ref.rep.Detailed) {
				r.Obs("e2e_label_set_differs", 1) // `//...` and the explicit `:all` list need not print the same set
			}
			labels := b.SortedKeys(ref.rep.Plain)
			for _, l := range labels {
				hv, both := o.rep.Plain[l]
				if !both || hv == ref.rep.Plain[l] {
					continue
				}
				reportDiff(r, i, repo, l, "output-hash", ref.rep.Plain[l], hv, ref.inv, o.inv)
			}
			for _, l := range b.SortedKeys(ref.rep.Detailed) {
				lines, both := o.rep.Detailed[l]
				if !both {
					continue
				}
				rl := ref.rep.Detailed[l]
				if strings.Join(lines, "\n") == strings.Join(rl, "\n") {
					continue
				}
				field, x, y := "line-count", fmt.Sprint(len(rl), " lines"), fmt.Sprint(len(lines), " lines")
				for j := 0; j < len(rl) && j < len(lines); j++ {
					if rl[j] != lines[j] {
						field, x, y = fieldOf(rl[j]), rl[j], lines[j]
						break
					}
				}
				reportDiff(r, i, repo, l, field, x, y, ref.inv, o.inv)
			}
		}
	})
}

func reportDiff(r *lib.Run, i int, repo *b.Repo, label, field, x, y string, a, bInv invocation) {
	kind, feats := "unknown", ""
	var def string
	if t := repo.Owner(label); t != nil {
		kind = t.Kind
		feats = strings.Join(mapFeatures(t), "+")
		def = repo.Render(t, b.RenderOpts{})
	}
	key := "e2e/" + field + "/" + kind // the map-typed attributes of the target are in the witness; the in-process part attributes precisely
	r.Violation(key, fmt.Sprintf("`plz hash --detailed` printed different %s values for %s in two invocations on the same tree: %q vs %q", field, label, x, y),
		map[string]any{"label": label, "field": field, "map_typed_attributes": feats, "first": x, "second": y, "first_invocation": a, "second_invocation": bInv, "definition": def, "repo": repo}, i)
}

func TestC07(t *testing.T) {
	iplib.Quiet()
	r := lib.Start("C07")
	defer lib.End(t, r)
	r.Rule = "IP: seeded target definitions with 1..9 map-typed attributes (named srcs/tools/outs/data, provides, env, entry points, per-config cmd / test_cmd), 2-5 keys each, half of them with exactly one such attribute; each is instantiated 25 times with independently shuffled key insertion orders and hashed (pre-build, post-build, runtime) from 8 goroutines. " +
		"E2E: seeded repositories (5-9 targets over 2-5 packages incl. nested and root packages, subincluded macros with hidden children, post-build functions, tools, tests) hashed 6 (quick) / 10 (thorough) times with `plz hash --detailed` under -n 1/2/8/16, `//...` vs permuted `//pkg:all` argument lists, dispatch delays, fresh and retained plz-out, one race-built run on every other repository. " +
		"Distinct by the JSON of the definition / repository; non-trivial = at least one map-typed attribute with >= 2 keys (and, E2E, at least two successful invocations to compare)"
	r.Assumes = []string{
		"generated build commands are deterministic functions of their declared inputs (no clock, pid, hostname), so differing output hashes can only come from what Please passes to them",
		"the in-process targets are filled through the public setters used by src/parse/asp/targets.go; one target instance is hashed by one goroutine at a time, as in a real build",
		"all invocations of one repository run at the same absolute path with the same environment, HOME and configuration",
	}
	runIP(r)
	runE2E(r)
	if !r.Replaying() {
		r.CollectRaces(lib.OwnRaceLogPrefix(), raceAnchors)
	}
	r.RequireObserved("ip_targets_hashed", "e2e_repos_compared", "e2e_hash_lines_compared", "e2e_repos_with_distinct_activation_orders", "e2e_race_binary_invocations", "e2e_trace_events")
}

// TestDevMaterialise is a development aid: VERIF_DEV_DIR=<dir> writes the repository of e2e case
// VERIF_DEV_CASE (seed VERIF_SEED) there.
func TestDevMaterialise(t *testing.T) {
	dir := os.Getenv("VERIF_DEV_DIR")
	if dir == "" {
		t.Skip("development aid")
	}
	r := lib.Start("C07")
	i := 0
	fmt.Sscan(os.Getenv("VERIF_DEV_CASE"), &i)
	repo := b.Generate(r.Rand("e2e", i), b.GenOpts{MinTargets: 5, MaxTargets: 9, Maps: true, Tests: true, Config: true, Root: true, DepOneIn: 3})
	sanitise(repo)
	sb := e2e.NewSandbox(dir)
	if err := b.WriteFiles(sb.Repo, repo.AllFiles(b.RenderOpts{})); err != nil {
		t.Fatal(err)
	}
	fmt.Println("written", sb.Repo, "check:", repo.Check())
}

package hashtreelib

// Additions for C34 (copy/link fidelity): a generator of trees whose symlinks mostly point at
// things that exist (files, directories, the link's own directory), executable / read-only files and
// hard-linked pairs, plus small helpers. Nothing here changes what C09 uses.

import (
	"math/rand"
	"strings"
)

// RelTarget returns the relative symlink target that, written at tree path link, resolves to tree
// path to (both slash separated, "." = root). prefix "./" is never produced.
func RelTarget(link, to string) string {
	var from []string
	if d := Parent(link); d != "." {
		from = strings.Split(d, "/")
	}
	var dst []string
	if to != "." {
		dst = strings.Split(to, "/")
	}
	i := 0
	for i < len(from) && i < len(dst) && from[i] == dst[i] {
		i++
	}
	var parts []string
	for range from[i:] {
		parts = append(parts, "..")
	}
	parts = append(parts, dst[i:]...)
	if len(parts) == 0 {
		return "."
	}
	return strings.Join(parts, "/")
}

// LinkClass says what a symlink entry at path p of t points at, resolving one level lexically inside
// the tree: "file", "dir", "link", "dangling" (inside the tree, nothing there) or "outside".
func (t Tree) LinkClass(p string) string {
	cur := []string{}
	if d := Parent(p); d != "." {
		cur = strings.Split(d, "/")
	}
	tgt := t[p].D
	if strings.HasPrefix(tgt, "/") {
		return "outside"
	}
	for _, c := range strings.Split(tgt, "/") {
		switch c {
		case "", ".":
		case "..":
			if len(cur) == 0 {
				return "outside"
			}
			cur = cur[:len(cur)-1]
		default:
			cur = append(cur, c)
		}
	}
	q := "."
	if len(cur) > 0 {
		q = strings.Join(cur, "/")
	}
	e, ok := t[q]
	if !ok {
		return "dangling"
	}
	switch e.K {
	case File:
		return "file"
	case Dir:
		return "dir"
	}
	return "link"
}

// CopyNamePool holds entry names for copy workloads: sibling prefixes, names with glob, shell and
// temp-file-pattern metacharacters, hidden names, long names.
var CopyNamePool = []string{"a", "b", "ab", "a.b", "a b", "a*b", "*", "a?", "[a]", ".h", "..a", "a\nb", "a\\b", "A", "_", "-a", "a~", "#a", "é",
	"a$b", "tmp", "a'b", strings.Repeat("n", 200)}

// RandCopyTree generates a directory-rooted tree for copy/link workloads: files (some executable,
// some read-only, some big, some hard links to earlier files), nested and empty directories, and
// relative symlinks to files, directories, other links, nothing, and outside the tree.
func RandCopyTree(rng *rand.Rand, n, maxDepth int, pBig float64) Tree {
	t := Tree{".": {K: Dir}}
	free := func(dir string) string {
		for _, i := range rng.Perm(len(CopyNamePool)) {
			if _, ok := t[Join(dir, CopyNamePool[i])]; !ok {
				return CopyNamePool[i]
			}
		}
		return ""
	}
	for i := 0; i < n; i++ {
		ds := t.Dirs()
		d := ds[rng.Intn(len(ds))]
		if Depth(d) >= maxDepth {
			d = "."
		}
		nm := free(d)
		if nm == "" {
			continue
		}
		p := Join(d, nm)
		switch x := rng.Intn(100); {
		case x < 45:
			e := RandContent(rng, pBig)
			e.X = rng.Intn(4) == 0
			e.RO = rng.Intn(5) == 0
			if fs := plainFiles(t); len(fs) > 0 && rng.Intn(6) == 0 {
				// hard link to an earlier file: same content, same mode
				src := fs[rng.Intn(len(fs))]
				e = t[src]
				e.HL = src
			}
			t[p] = e
		case x < 70:
			t[p] = Ent{K: Dir}
		default:
			var tgt string
			switch y := rng.Intn(10); {
			case y < 6: // something that exists (or will: the entry itself is excluded)
				all := t.Paths()
				tgt = RelTarget(p, all[rng.Intn(len(all))])
			case y < 8:
				tgt = TargetPool[rng.Intn(len(TargetPool))]
			case y < 9:
				tgt = "nowhere/" + nm
			default:
				tgt = "../../outside"
			}
			t[p] = Ent{K: Link, D: tgt}
		}
	}
	return t
}

// plainFiles lists file entries that are not themselves hard links (sorted).
func plainFiles(t Tree) []string {
	var out []string
	for _, p := range t.Of(File) {
		if t[p].HL == "" {
			out = append(out, p)
		}
	}
	return out
}

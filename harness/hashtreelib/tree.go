// Package hashtreelib is the small in-memory file-tree model shared by the C09 (path hashes) and
// C34 (copy/link) monitors: flat trees, canonical listings, materialisation, exhaustive
// enumeration of small trees and a seeded generator of larger hostile ones.
// It imports nothing from Please.
package hashtreelib

import (
	"fmt"
	"math/rand"
	"os"
	"path/filepath"
	"sort"
	"strings"
)

// Kinds of entry.
const (
	File = "f"
	Link = "l"
	Dir  = "d"
)

// A Big describes a large pseudo-random file compactly (so that witnesses stay small):
// Size bytes from a PRNG seeded with Seed, with the byte at Flip (if >=0) inverted.
type Big struct {
	Size int   `json:"size"`
	Seed int64 `json:"seed"`
	Flip int   `json:"flip"`
}

// An Ent is one entry of a tree.
type Ent struct {
	K   string `json:"k"`             // File | Link | Dir
	D   string `json:"d,omitempty"`   // literal file content, or symlink target
	Big *Big   `json:"big,omitempty"` // large file content (File only); D is ignored when set
	X   bool   `json:"x,omitempty"`   // executable (File only; used by C34)
	RO  bool   `json:"ro,omitempty"`  // read-only file (used by C34)
	HL  string `json:"hl,omitempty"`  // hard link to this other tree path (File only; used by C34)
}

// A Tree maps slash-separated relative paths to entries; "." is the root (the path handed to the
// code under test). Every entry's parent is a Dir entry.
type Tree map[string]Ent

// Content returns the bytes of a file entry.
func (e Ent) Content() []byte {
	if e.Big == nil {
		return []byte(e.D)
	}
	b := make([]byte, e.Big.Size)
	rand.New(rand.NewSource(e.Big.Seed)).Read(b)
	if e.Big.Flip >= 0 && e.Big.Flip < len(b) {
		b[e.Big.Flip] ^= 0x55
	}
	return b
}

// Len is the content length of a file entry.
func (e Ent) Len() int {
	if e.Big != nil {
		return e.Big.Size
	}
	return len(e.D)
}

func (e Ent) data() string {
	if e.Big != nil {
		return fmt.Sprintf("<big %d/%d/%d>", e.Big.Size, e.Big.Seed, e.Big.Flip)
	}
	return e.D
}

// Same reports whether two entries are identical as far as the C09 listing is concerned
// (kind, content / link target).
func (e Ent) Same(o Ent) bool {
	return e.K == o.K && e.data() == o.data()
}

// Clone copies a tree.
func (t Tree) Clone() Tree {
	c := make(Tree, len(t))
	for k, v := range t {
		c[k] = v
	}
	return c
}

// Paths returns the tree's paths, sorted as strings ("." first; parents before children).
func (t Tree) Paths() []string {
	ps := make([]string, 0, len(t))
	for p := range t {
		ps = append(ps, p)
	}
	sort.Strings(ps)
	// "." must come first even though e.g. "-" sorts before it.
	for i, p := range ps {
		if p == "." {
			copy(ps[1:i+1], ps[:i])
			ps[0] = "."
			break
		}
	}
	return ps
}

// WalkOrder returns the non-root paths in the order a sorted depth-first directory walk visits them.
func (t Tree) WalkOrder() []string {
	ps := make([]string, 0, len(t))
	for p := range t {
		if p != "." {
			ps = append(ps, p)
		}
	}
	sort.Slice(ps, func(i, j int) bool {
		a, b := strings.Split(ps[i], "/"), strings.Split(ps[j], "/")
		for k := 0; k < len(a) && k < len(b); k++ {
			if a[k] != b[k] {
				return a[k] < b[k]
			}
		}
		return len(a) < len(b)
	})
	return ps
}

// Canon is the canonical listing: kinds, contents and link targets by path. Two trees are the
// same tree iff their Canon strings are equal. Modes are not part of it.
func (t Tree) Canon() string {
	var sb strings.Builder
	for _, p := range t.Paths() {
		e := t[p]
		fmt.Fprintf(&sb, "%q %s %q\n", p, e.K, e.data())
	}
	return sb.String()
}

// String renders a tree compactly for messages: {a="x", d/, d/l->a}.
func (t Tree) String() string {
	r := t["."]
	switch r.K {
	case File:
		return fmt.Sprintf("file(%s)", short(r))
	case Link:
		return fmt.Sprintf("symlink(->%s)", r.D)
	}
	var parts []string
	for _, p := range t.Paths() {
		if p == "." {
			continue
		}
		e := t[p]
		switch e.K {
		case Dir:
			parts = append(parts, p+"/")
		case Link:
			parts = append(parts, p+"->"+e.D)
		default:
			parts = append(parts, p+"="+short(e))
		}
	}
	return "dir{" + strings.Join(parts, ", ") + "}"
}

func short(e Ent) string {
	if e.Big != nil {
		return e.data()
	}
	return fmt.Sprintf("%q", e.D)
}

// Size is a measure used to prefer small witnesses: entries plus literal content bytes.
func (t Tree) Size() int {
	n := 0
	for _, e := range t {
		n += 10
		if e.K != Dir {
			n += e.Len()
		}
	}
	return n
}

// Parent returns the parent path of p ("." for top-level entries).
func Parent(p string) string {
	if i := strings.LastIndex(p, "/"); i >= 0 {
		return p[:i]
	}
	return "."
}

// Base returns the last component of p.
func Base(p string) string {
	return p[strings.LastIndex(p, "/")+1:]
}

// Join joins a directory path of the tree and a name.
func Join(dir, name string) string {
	if dir == "." {
		return name
	}
	return dir + "/" + name
}

// Under reports whether p is q or lies below q.
func Under(p, q string) bool {
	return q == "." || p == q || strings.HasPrefix(p, q+"/")
}

// Subtree returns the entries at and below p, re-rooted so that p becomes ".".
func (t Tree) Subtree(p string) Tree {
	s := Tree{}
	for q, e := range t {
		if q == p {
			s["."] = e
		} else if p == "." {
			s[q] = e
		} else if strings.HasPrefix(q, p+"/") {
			s[q[len(p)+1:]] = e
		}
	}
	return s
}

// RemoveSubtree deletes p and everything below it.
func (t Tree) RemoveSubtree(p string) {
	for q := range t {
		if q != "." && Under(q, p) {
			delete(t, q)
		}
	}
}

// Graft inserts subtree s (rooted at ".") at path p.
func (t Tree) Graft(p string, s Tree) {
	for q, e := range s {
		if q == "." {
			t[p] = e
		} else {
			t[Join(p, q)] = e
		}
	}
}

// Depth is the number of components of p (0 for the root).
func Depth(p string) int {
	if p == "." {
		return 0
	}
	return strings.Count(p, "/") + 1
}

// Write materialises the tree with its root at base (which must not exist). Hard links (HL)
// are created after their targets.
func Write(base string, t Tree) error {
	var later []string
	for _, p := range t.Paths() {
		e := t[p]
		full := base
		if p != "." {
			full = filepath.Join(base, filepath.FromSlash(p))
		}
		switch e.K {
		case Dir:
			if err := os.Mkdir(full, 0o755); err != nil {
				return err
			}
		case Link:
			if err := os.Symlink(e.D, full); err != nil {
				return err
			}
		case File:
			if e.HL != "" {
				later = append(later, p)
				continue
			}
			mode := os.FileMode(0o644)
			if e.X {
				mode = 0o755
			}
			if e.RO {
				mode &^= 0o222
			}
			if err := os.WriteFile(full, e.Content(), mode); err != nil {
				return err
			}
			if e.RO {
				// WriteFile honours umask only for creation; make sure of the final mode.
				if err := os.Chmod(full, mode); err != nil {
					return err
				}
			}
		default:
			return fmt.Errorf("bad kind %q at %s", e.K, p)
		}
	}
	for _, p := range later {
		src := filepath.Join(base, filepath.FromSlash(t[p].HL))
		if t[p].HL == "." {
			src = base
		}
		if err := os.Link(src, filepath.Join(base, filepath.FromSlash(p))); err != nil {
			return err
		}
	}
	return nil
}

// Scope bounds the exhaustive enumeration.
type Scope struct {
	Names    []string
	Contents []string
	Targets  []string
	MaxDepth int // deepest level at which entries exist (root = 0); directories at MaxDepth are empty
	MaxEnts  int // maximum number of entries below the root
	PerDir   int // maximum entries per directory
}

type sub struct {
	t Tree // "." is the node itself
	n int  // number of entries including the node
}

// Enumerate returns every tree in the scope: root files, root symlinks, and root directories.
func (s Scope) Enumerate() []Tree {
	var out []Tree
	for _, c := range s.Contents {
		out = append(out, Tree{".": {K: File, D: c}})
	}
	for _, l := range s.Targets {
		out = append(out, Tree{".": {K: Link, D: l}})
	}
	for _, ks := range s.kidsets(0, s.MaxEnts) {
		t := Tree{".": {K: Dir}}
		for p, e := range ks.t {
			t[p] = e
		}
		out = append(out, t)
	}
	return out
}

// kidsets returns every set of children (paths relative to the directory) for a directory at
// the given depth using at most budget entries.
func (s Scope) kidsets(depth, budget int) []sub {
	res := []sub{{Tree{}, 0}}
	for _, nm := range s.Names {
		var next []sub
		for _, r := range res {
			next = append(next, r)
			if len(topLevel(r.t)) >= s.PerDir {
				continue
			}
			for _, o := range s.nodes(depth+1, budget-r.n) {
				m := r.t.Clone()
				m.Graft(nm, o.t)
				next = append(next, sub{m, r.n + o.n})
			}
		}
		res = next
	}
	return res
}

func topLevel(t Tree) []string {
	var out []string
	for p := range t {
		if !strings.Contains(p, "/") {
			out = append(out, p)
		}
	}
	return out
}

// nodes returns every entry (with its subtree) that can sit at the given depth within budget.
func (s Scope) nodes(depth, budget int) []sub {
	if budget < 1 {
		return nil
	}
	var out []sub
	for _, c := range s.Contents {
		out = append(out, sub{Tree{".": {K: File, D: c}}, 1})
	}
	for _, l := range s.Targets {
		out = append(out, sub{Tree{".": {K: Link, D: l}}, 1})
	}
	if depth >= s.MaxDepth {
		out = append(out, sub{Tree{".": {K: Dir}}, 1})
		return out
	}
	for _, ks := range s.kidsets(depth, budget-1) {
		t := Tree{".": {K: Dir}}
		for p, e := range ks.t {
			t[p] = e
		}
		out = append(out, sub{t, ks.n + 1})
	}
	return out
}

// Pools of hostile names, contents and link targets for the random generator.
var (
	NamePool    = []string{"a", "b", "ab", "ba", "aa", "a.b", "a b", "a-b", "c", "abc", "A", "0", "_a", ".h", "a\nb", "a=b", "b,a", "f", "l"}
	ContentPool = []string{"", "a", "b", "ab", "ba", "abc", "bc", "c", "a\x00b", "a\n", "\n", "a/b", "../a", "aa", "\x00", "f", "fa"}
	TargetPool  = []string{"a", "b", "ab", "../a", "../b", "a/b", "./a", ".", "..", "c/../a", "f", "../p/a"}
	// NestedTargetPool is for symlinks inside a hashed directory: there the hash walk never follows the link,
	// so absolute targets are legitimate members of the tree too (two of them share a long prefix).
	NestedTargetPool = []string{"a", "b", "ab", "../a", "../b", "a/b", "./a", ".", "..", "c/../a", "f", "../p/a", "/nonexistent/a", "/nonexistent/b", "/nonexistent/a/b", "/a"}
	BigSizes         = []int{1000, 4095, 4096, 4097, 8192, 32767, 32768, 32769, 65536, 70001, 131073}
)

// RandContent draws a file entry: mostly small literals, sometimes a big pseudo-random file
// (pBig in [0,1]); huge (>1 MiB) files appear with probability pBig/20.
func RandContent(rng *rand.Rand, pBig float64) Ent {
	if rng.Float64() < pBig {
		size := BigSizes[rng.Intn(len(BigSizes))]
		if rng.Float64() < 0.03 {
			size = 1<<20 + 1 + rng.Intn(3<<20)
		}
		return Ent{K: File, Big: &Big{Size: size, Seed: rng.Int63n(1 << 30), Flip: -1}}
	}
	return Ent{K: File, D: ContentPool[rng.Intn(len(ContentPool))]}
}

// Dirs returns the directory paths of t (including "." when the root is a directory), sorted.
func (t Tree) Dirs() []string {
	var ds []string
	for _, p := range t.Paths() {
		if t[p].K == Dir {
			ds = append(ds, p)
		}
	}
	return ds
}

// Of returns the sorted non-root paths whose entry has the given kind ("" = any).
func (t Tree) Of(kind string) []string {
	var out []string
	for _, p := range t.Paths() {
		if p != "." && (kind == "" || t[p].K == kind) {
			out = append(out, p)
		}
	}
	return out
}

// FreeName picks a name from the pool not used in directory dir ("" if none).
func (t Tree) FreeName(rng *rand.Rand, dir string) string {
	for _, i := range rng.Perm(len(NamePool)) {
		if _, ok := t[Join(dir, NamePool[i])]; !ok {
			return NamePool[i]
		}
	}
	return ""
}

// RandDirTree generates a directory-rooted tree with up to n entries and the given maximum depth.
func RandDirTree(rng *rand.Rand, n, maxDepth int, pBig float64) Tree {
	t := Tree{".": {K: Dir}}
	for i := 0; i < n; i++ {
		ds := t.Dirs()
		// Prefer deeper directories a little so that trees are not flat.
		d := ds[rng.Intn(len(ds))]
		if Depth(d) >= maxDepth {
			d = "."
		}
		nm := t.FreeName(rng, d)
		if nm == "" {
			continue
		}
		p := Join(d, nm)
		switch x := rng.Intn(100); {
		case x < 55:
			t[p] = RandContent(rng, pBig)
		case x < 80:
			t[p] = Ent{K: Dir}
		default:
			t[p] = Ent{K: Link, D: NestedTargetPool[rng.Intn(len(NestedTargetPool))]}
		}
	}
	return t
}

// C13 — remote HTTP and command caches store complete artifacts or nothing.
//
// Fault enumeration over the real httpCache and cmdCache (cache.VerifNewHTTPCache / VerifNewCmdCache),
// in-process, against endpoints owned by the harness:
//
//   - HTTP: a net/http server that commits a PUT only when the request body was read to a clean EOF of
//     the announced length, and that can (store side) drop the connection after k request-body bytes,
//     answer 500, or read everything and die before committing, and (retrieve side) send k bytes of a
//     committed entry and close (with Content-Length, close-delimited, or chunked without terminator),
//     or answer a non-200 status with a well-formed archive as body.
//   - command cache: shell commands with the conservative contract "commit by rename after a clean EOF
//     on stdin" in two realistic shapes (`cat > tmp && mv tmp final`, and the same with its diagnostics
//     piped to a log: `{ cat > tmp && mv tmp final; } 2>&1 | cat >> store.log`), store commands that die
//     after k bytes, retrieve commands that die after k bytes (`head -c k; exit 1`, `kill -9 $$`).
//     Whether a cancelled store command still commits depends on a race inside Please (kill of `sh`
//     versus the clean EOF Please itself delivers); the monitor never decides anything by time, it
//     only judges entries that a later Retrieve reports as hits. One fixed set puts 300 KB (more than
//     a pipe holds) before the unreadable file, so that the command is provably consuming its stdin
//     when the fault happens and the outcome is the same on every run.
//   - read faults "an output cannot be read" at every regular-file position i of the output set: the
//     file at position i is a unix-domain socket inode (Lstat works, archive/tar refuses it), and, as
//     second source when the call site exists, verifhook.Fault("cache.storeFile.open")#i in a child.
//
// Oracle, after each faulted operation: wipe the target's out directory, Retrieve; a hit must restore
// every entry of the set that was to be stored (tree diff); a retrieve whose command exited non-zero
// or whose server answered non-200 must be a miss.
package c13

import (
	"archive/tar"
	"bytes"
	"compress/gzip"
	"encoding/hex"
	"encoding/json"
	"fmt"
	"io"
	"log"
	"math/rand"
	"net"
	"net/http"
	"os"
	"path/filepath"
	"runtime/debug"
	"sort"
	"strconv"
	"strings"
	"sync"
	"syscall"
	"testing"
	"time"

	"github.com/thought-machine/please/src/cache"
	"github.com/thought-machine/please/src/cli"
	"github.com/thought-machine/please/src/core"

	"verifharness/cachelib"
	"verifharness/lib"
)

const faultHook = "cache.storeFile.open"

// ---------------------------------------------------------------------------------------------
// the harness's HTTP cache server

// A plan is the behaviour of the server for one key. The zero plan is a healthy server.
type plan struct {
	PutMode string // "" | cut (read k bytes, drop connection) | cut500 (read k bytes, answer 500) | full500 | fullnoresp
	PutK    int
	GetMode string // "" | cl | eof | chunked (send k body bytes then close) | status
	GetK    int
	Status  int
	// FaultAttempts > 0: only the first FaultAttempts requests of each method are faulted.
	FaultAttempts int
}

type keyState struct {
	plan     plan
	puts     int
	gets     int
	putBytes []int // request-body bytes read per PUT attempt
	commits  int
}

type server struct {
	ln      net.Listener
	srv     *http.Server
	mu      sync.Mutex
	entries map[string][]byte
	keys    map[string]*keyState
	r       *lib.Run
}

func newServer(r *lib.Run) (*server, error) {
	ln, err := net.Listen("tcp", "127.0.0.1:0")
	if err != nil {
		return nil, err
	}
	s := &server{ln: ln, entries: map[string][]byte{}, keys: map[string]*keyState{}, r: r}
	s.srv = &http.Server{Handler: s, ErrorLog: log.New(io.Discard, "", 0)}
	go s.srv.Serve(ln)
	return s, nil
}

func (s *server) url() string { return "http://" + s.ln.Addr().String() }

func (s *server) state(key string) *keyState {
	st := s.keys[key]
	if st == nil {
		st = &keyState{}
		s.keys[key] = st
	}
	return st
}

func (s *server) setPlan(key string, p plan) {
	s.mu.Lock()
	st := s.state(key)
	st.plan = p
	st.puts, st.gets = 0, 0
	s.mu.Unlock()
}

func (s *server) entry(key string) ([]byte, bool) {
	s.mu.Lock()
	defer s.mu.Unlock()
	b, ok := s.entries[key]
	return b, ok
}

func (s *server) snapshotState(key string) keyState {
	s.mu.Lock()
	defer s.mu.Unlock()
	st := *s.state(key)
	st.putBytes = append([]int{}, st.putBytes...)
	return st
}

// forget drops everything the server holds about a key (memory bound for long runs).
func (s *server) forget(key string) {
	s.mu.Lock()
	delete(s.entries, key)
	delete(s.keys, key)
	s.mu.Unlock()
}

func dropConn(w http.ResponseWriter) {
	hj, ok := w.(http.Hijacker)
	if !ok {
		panic("harness server: cannot hijack")
	}
	conn, _, err := hj.Hijack()
	if err == nil {
		conn.Close()
	}
}

func (s *server) ServeHTTP(w http.ResponseWriter, req *http.Request) {
	key := strings.TrimPrefix(req.URL.Path, "/")
	switch req.Method {
	case http.MethodPut:
		s.mu.Lock()
		st := s.state(key)
		st.puts++
		p := st.plan
		if p.FaultAttempts > 0 && st.puts > p.FaultAttempts {
			p.PutMode = ""
		}
		s.mu.Unlock()
		s.r.Obs("http_put_requests_seen", 1)
		note := func(n int) {
			s.mu.Lock()
			st.putBytes = append(st.putBytes, n)
			s.mu.Unlock()
			s.r.Obs("http_put_body_bytes_read", int64(n))
		}
		switch p.PutMode {
		case "":
			body, err := io.ReadAll(req.Body)
			note(len(body))
			if err != nil || (req.ContentLength >= 0 && int64(len(body)) != req.ContentLength) {
				s.r.Obs("http_put_unclean_body_not_committed", 1)
				http.Error(w, "incomplete body", http.StatusBadRequest)
				return
			}
			s.mu.Lock()
			s.entries[key] = body
			st.commits++
			s.mu.Unlock()
			s.r.Obs("http_put_committed", 1)
			w.WriteHeader(http.StatusOK)
		case "cut", "cut500":
			buf := make([]byte, p.PutK)
			n, _ := io.ReadFull(req.Body, buf)
			note(n)
			s.r.Obs("http_put_faulted_"+p.PutMode, 1)
			if p.PutMode == "cut500" {
				w.Header().Set("Connection", "close")
				http.Error(w, "injected failure", http.StatusInternalServerError)
				return
			}
			dropConn(w)
		case "full500":
			n, _ := io.Copy(io.Discard, req.Body)
			note(int(n))
			s.r.Obs("http_put_faulted_full500", 1)
			http.Error(w, "injected failure", http.StatusInternalServerError)
		case "fullnoresp":
			n, _ := io.Copy(io.Discard, req.Body)
			note(int(n))
			s.r.Obs("http_put_faulted_fullnoresp", 1)
			dropConn(w)
		default:
			panic("harness server: unknown put mode " + p.PutMode)
		}
	case http.MethodGet:
		s.mu.Lock()
		st := s.state(key)
		st.gets++
		p := st.plan
		if p.FaultAttempts > 0 && st.gets > p.FaultAttempts {
			p.GetMode = ""
		}
		body, ok := s.entries[key]
		s.mu.Unlock()
		s.r.Obs("http_get_requests_seen", 1)
		if !ok {
			http.NotFound(w, req)
			return
		}
		switch p.GetMode {
		case "":
			w.Header().Set("Content-Type", "application/octet-stream")
			w.WriteHeader(http.StatusOK)
			w.Write(body)
		case "status":
			s.r.Obs("http_get_faulted_status", 1)
			w.Header().Set("Content-Type", "application/octet-stream")
			w.WriteHeader(p.Status)
			w.Write(body)
		case "cl", "eof", "chunked":
			s.r.Obs("http_get_faulted_cut_"+p.GetMode, 1)
			k := p.GetK
			if k > len(body) {
				k = len(body)
			}
			hj, okh := w.(http.Hijacker)
			if !okh {
				panic("harness server: cannot hijack")
			}
			conn, _, err := hj.Hijack()
			if err != nil {
				return
			}
			var out bytes.Buffer
			switch p.GetMode {
			case "cl":
				fmt.Fprintf(&out, "HTTP/1.1 200 OK\r\nContent-Type: application/octet-stream\r\nContent-Length: %d\r\n\r\n", len(body))
				out.Write(body[:k])
			case "eof":
				out.WriteString("HTTP/1.1 200 OK\r\nContent-Type: application/octet-stream\r\nConnection: close\r\n\r\n")
				out.Write(body[:k])
			case "chunked":
				out.WriteString("HTTP/1.1 200 OK\r\nContent-Type: application/octet-stream\r\nTransfer-Encoding: chunked\r\n\r\n")
				for off := 0; off < k; {
					n := 61
					if off+n > k {
						n = k - off
					}
					fmt.Fprintf(&out, "%x\r\n", n)
					out.Write(body[off : off+n])
					out.WriteString("\r\n")
					off += n
				}
				// no terminating zero-length chunk
			}
			conn.Write(out.Bytes())
			conn.Close()
		default:
			panic("harness server: unknown get mode " + p.GetMode)
		}
	default:
		http.Error(w, "method", http.StatusMethodNotAllowed)
	}
}

// ---------------------------------------------------------------------------------------------
// helpers

func httpConfig(url string, retries int) *core.Configuration {
	c := core.DefaultConfiguration()
	c.Cache.Dir = ""
	c.Cache.Workers = 0
	c.Cache.HTTPURL = cli.URL(url)
	c.Cache.HTTPWriteable = true
	c.Cache.HTTPRetry = retries
	c.Cache.HTTPTimeout = cli.Duration(120 * time.Second)
	return c
}

func cmdConfig(store, retrieve string) *core.Configuration {
	c := core.DefaultConfiguration()
	c.Cache.Dir = ""
	c.Cache.Workers = 0
	c.Cache.StoreCommand = store
	c.Cache.RetrieveCommand = retrieve
	return c
}

// A contract is one shape of a well-behaved custom cache command pair: the entry appears under its
// final name only by rename, after the storing side has seen a clean EOF on stdin.
type contract struct {
	Name string
	dir  string
}

func (c contract) store() string {
	tmp, fin := c.dir+`/$CACHE_KEY.tmp`, c.dir+`/$CACHE_KEY`
	if c.Name == "logged" {
		// the same and-list, with its diagnostics appended to a log file through a pipe
		return fmt.Sprintf(`{ cat > "%s" && mv "%s" "%s"; } 2>&1 | cat >> "%s/store.log"`, tmp, tmp, fin, c.dir)
	}
	return fmt.Sprintf(`cat > "%s" && mv "%s" "%s"`, tmp, tmp, fin)
}

func (c contract) retrieve() string {
	return fmt.Sprintf(`cat "%s/$CACHE_KEY"`, c.dir)
}

func (c contract) cache() core.Cache {
	return cache.VerifNewCmdCache(cmdConfig(c.store(), c.retrieve()))
}

// tarNames lists the entry names of an archive (for witnesses and samples); a trailing "!<err>" entry
// reports where reading stopped.
func tarNames(b []byte, gz bool, strip string) []string {
	var rd io.Reader = bytes.NewReader(b)
	if gz {
		zr, err := gzip.NewReader(rd)
		if err != nil {
			return []string{"!gzip: " + err.Error()}
		}
		rd = zr
	}
	tr := tar.NewReader(rd)
	var out []string
	for {
		h, err := tr.Next()
		if err == io.EOF {
			return out
		}
		if err != nil {
			return append(out, "!"+err.Error())
		}
		n := strings.TrimPrefix(h.Name, strip)
		out = append(out, n)
		if _, err := io.Copy(io.Discard, tr); err != nil {
			return append(out, "!"+err.Error())
		}
	}
}

func sortedInts(m map[int]bool) []int {
	out := make([]int, 0, len(m))
	for k := range m {
		out = append(out, k)
	}
	sort.Ints(out)
	return out
}

// httpOffsets: every byte offset of a short entry; for longer ones the gzip header, the tail (where
// the tar footer and the gzip trailer live) and seeded random offsets.
func httpOffsets(rng *rand.Rand, l, max int) []int {
	m := map[int]bool{}
	if l <= max {
		for k := 0; k < l; k++ {
			m[k] = true
		}
		return sortedInts(m)
	}
	for _, k := range []int{0, 1, 2, 3, 9, 10, 11, 17, 18} {
		m[k] = true
	}
	for k := l - 24; k < l; k++ {
		m[k] = true
	}
	for len(m) < max {
		m[rng.Intn(l)] = true
	}
	return sortedInts(m)
}

// tarOffsets: block boundaries of the raw tar (where a truncated stream is still a syntactically
// clean sequence of entries), their neighbours, the footer, and seeded random offsets.
func tarOffsets(rng *rand.Rand, l, max int) []int {
	m := map[int]bool{0: true, l: true, l - 1: true}
	if l >= 1024 {
		m[l-1024] = true // everything but the footer
	}
	blocks := l / 512
	var bs []int
	for b := 1; b < blocks; b++ {
		bs = append(bs, b*512)
	}
	rng.Shuffle(len(bs), func(i, j int) { bs[i], bs[j] = bs[j], bs[i] })
	for _, b := range bs {
		if len(m) >= max*3/4 {
			break
		}
		m[b] = true
		if max >= 24 && rng.Intn(3) == 0 {
			m[b-1+2*rng.Intn(2)] = true
		}
	}
	for len(m) < max && len(m) < l {
		m[rng.Intn(l+1)] = true
	}
	return sortedInts(m)
}

// tarCutPoints walks the raw tar block by block (every header block, including the PAX / GNU
// meta entries that precede an entry with a long or non-ASCII name) and returns the offsets at
// which a stream that simply stops is still a syntactically clean sequence of whole raw entries:
// 0, the padded end of every raw entry (`boundary`), and — for raw entries whose data does not
// fill its last block — offsets from the end of the data up to the padded end (`padding`: data
// end, one byte further, one byte before the next header; `padRanges` the full ranges). Every file
// before such a cut is complete; what is missing is every later entry and the end-of-archive footer.
func tarCutPoints(entry []byte) (boundary, padding []int, padRanges [][2]int) {
	boundary = []int{0}
	for pos := 0; pos+512 <= len(entry); {
		h := entry[pos : pos+512]
		if bytes.Equal(h, make([]byte, 512)) {
			return // footer
		}
		size64, err := strconv.ParseInt(strings.Trim(string(h[124:136]), " \x00"), 8, 64)
		if err != nil || size64 < 0 {
			return // base-256 or damaged size field: stop, what was found so far is still right
		}
		size := int(size64)
		switch h[156] {
		case tar.TypeDir, tar.TypeSymlink, tar.TypeLink, tar.TypeChar, tar.TypeBlock, tar.TypeFifo:
			size = 0 // no data follows these headers whatever the size field says
		}
		dataEnd := pos + 512 + size
		padded := pos + 512 + (size+511)/512*512
		if padded > len(entry) {
			return
		}
		boundary = append(boundary, padded)
		if size > 0 && dataEnd < padded {
			padRanges = append(padRanges, [2]int{dataEnd, padded})
			for _, k := range []int{dataEnd, dataEnd + 1, padded - 1} {
				if k >= dataEnd && k < padded {
					padding = append(padding, k)
				}
			}
		}
		pos = padded
	}
	return
}

// silentOffsets picks the offsets for retrieve commands that stop early but exit 0: offset 0, the
// last entry boundary (everything but the footer), entry boundaries and in-padding offsets in
// between, one zero block of the footer, and seeded random offsets anywhere (inside headers and
// file data), max in all.
func silentOffsets(rng *rand.Rand, entry []byte, max int) (offs []int, class map[int]string) {
	l := len(entry)
	boundary, padding, padRanges := tarCutPoints(entry)
	class = map[int]string{}
	add := func(k int, c string) {
		if _, dup := class[k]; !dup && k >= 0 && k < l && len(class) < max {
			class[k] = c
		}
	}
	isBoundary := map[int]bool{}
	for _, b := range boundary {
		isBoundary[b] = true
	}
	add(0, "cut-at-offset-0")
	if n := len(boundary); n > 1 {
		add(boundary[n-1], "cut-before-footer")
	}
	rng.Shuffle(len(boundary), func(i, j int) { boundary[i], boundary[j] = boundary[j], boundary[i] })
	rng.Shuffle(len(padding), func(i, j int) { padding[i], padding[j] = padding[j], padding[i] })
	// alternate between further entry boundaries and in-padding offsets, keeping one slot for a
	// random offset
	turn := rng.Intn(2)
	for bi, pi := 0, 0; len(class) < max-1 && (bi < len(boundary) || pi < len(padding)); turn++ {
		if (turn%2 == 0 || pi >= len(padding)) && bi < len(boundary) {
			add(boundary[bi], "cut-on-entry-boundary")
			bi++
		} else if pi < len(padding) {
			add(padding[pi], "cut-in-entry-padding")
			pi++
		}
	}
	if l >= 512 && rng.Intn(4) == 0 {
		add(l-512, "cut-inside-footer")
	}
	for tries := 0; len(class) < max && tries < 100; tries++ {
		k := rng.Intn(l)
		c := "cut-inside-entry"
		if isBoundary[k] {
			c = "cut-on-entry-boundary"
		}
		for _, pr := range padRanges {
			if k >= pr[0] && k < pr[1] {
				c = "cut-in-entry-padding"
			}
		}
		if k > l-1024 {
			c = "cut-inside-footer"
		}
		add(k, c)
	}
	m := map[int]bool{}
	for k := range class {
		m[k] = true
	}
	return sortedInts(m), class
}

type mon struct {
	phMu  sync.Mutex
	phase map[string]float64
	r     *lib.Run
	root  string
	srv   *server
	http0 core.Cache // no retries
	http1 core.Cache // one retry
	tmp   string
	hook  bool // the cache.storeFile.open fault site exists in the tree under test
}

// lapse adds wall time to a named phase (reported in the evidence for information only).
func (m *mon) lapse(name string, t0 time.Time) {
	m.phMu.Lock()
	if m.phase == nil {
		m.phase = map[string]float64{}
	}
	m.phase[name] += time.Since(t0).Seconds()
	m.phMu.Unlock()
}

// call runs f with a generous watchdog; a hang is inconclusive (not a violation of this property).
func (m *mon) call(what string, idx int, f func()) bool {
	defer m.lapse(what, time.Now())
	done := make(chan any, 1)
	go func() {
		defer func() {
			if p := recover(); p != nil {
				done <- fmt.Sprintf("%v\n%s", p, debug.Stack())
				return
			}
			done <- nil
		}()
		f()
	}()
	select {
	case p := <-done:
		if p != nil {
			op := strings.Fields(what)[0]
			m.r.Violation("panic/"+op, "panic during "+what, map[string]any{"panic": p}, idx)
			return false
		}
		return true
	case <-time.After(300 * time.Second):
		m.r.FatalInconclusive(what + " did not return within 300 s (watchdog)")
		return false
	}
}

func (m *mon) store(c core.Cache, what string, idx int, tgt *core.BuildTarget, key []byte, outs []string) bool {
	return m.call("store "+what, idx, func() { c.Store(tgt, key, outs) })
}

// retrieve wipes the out directory, retrieves, and returns (hit, restored tree).
func (m *mon) retrieve(c core.Cache, what string, idx int, tgt *core.BuildTarget, key []byte, outs []string) (hit bool, snap lib.Snapshot, ok bool) {
	outDir := cachelib.OutDir(m.root, tgt)
	cachelib.Wipe(outDir)
	ok = m.call("retrieve "+what, idx, func() { hit = c.Retrieve(tgt, key, outs) })
	if ok && hit {
		snap, _ = cachelib.Snapshot(outDir)
	}
	return
}

// A faultedSet is an output set whose regular file at Pos (path Sock) has been replaced by a socket.
type faultedSet struct {
	Set  cachelib.OutSet
	Sock string
	Pos  int
}

func regularFiles(o cachelib.OutSet) []string {
	var out []string
	for p, c := range o.Files {
		if strings.HasSuffix(p, "/") || strings.HasPrefix(c, "->") {
			continue
		}
		out = append(out, p)
	}
	sort.Strings(out)
	return out
}

func withSocket(o cachelib.OutSet, path string, pos int) faultedSet {
	files := map[string]string{}
	for p, c := range o.Files {
		if p != path {
			files[p] = c
		}
	}
	return faultedSet{Set: cachelib.OutSet{Outs: o.Outs, Files: files}, Sock: path, Pos: pos}
}

// materializeFaulted writes the set and makes the socket inode. mknod(S_IFSOCK) needs no privilege and
// has no sun_path length limit.
func materializeFaulted(outDir string, f faultedSet) (lib.Snapshot, error) {
	if err := cachelib.Materialize(outDir, f.Set); err != nil {
		return nil, err
	}
	full := filepath.Join(outDir, f.Sock)
	if err := os.MkdirAll(filepath.Dir(full), 0o755); err != nil {
		return nil, err
	}
	if err := syscall.Mknod(full, syscall.S_IFSOCK|0o644, 0); err != nil {
		return nil, fmt.Errorf("mknod socket: %w", err)
	}
	want, err := cachelib.Snapshot(outDir)
	if err != nil {
		return nil, err
	}
	if want[f.Sock].Type != "other" {
		return nil, fmt.Errorf("socket entry not listed as such: %+v", want[f.Sock])
	}
	return want, nil
}

func without(s lib.Snapshot, path string) lib.Snapshot {
	out := lib.Snapshot{}
	for k, v := range s {
		if k != path {
			out[k] = v
		}
	}
	return out
}

func shortDiff(d []string) string {
	if len(d) > 6 {
		d = append(append([]string{}, d[:6]...), fmt.Sprintf("… %d more", len(d)-6))
	}
	return strings.Join(d, "; ")
}

// lossClass names what a hit lacks, so that different defects get different keys.
func lossClass(d []string) string {
	c := map[string]bool{}
	for _, l := range d {
		f := strings.Fields(l)
		switch f[0] {
		case "missing":
			c["missing"] = true
		case "extra":
			c["extra"] = true
		default:
			if strings.Count(l, "Type:file") == 2 && strings.Count(l, "Sum:") == 2 {
				c["truncated-or-altered"] = true
			} else {
				c["altered"] = true
			}
		}
	}
	ks := make([]string, 0, len(c))
	for k := range c {
		ks = append(ks, k)
	}
	sort.Strings(ks)
	return strings.Join(ks, "+")
}

type caseInfo struct {
	stream string
	idx    int
	set    cachelib.OutSet
	quick  bool
}

func (ci caseInfo) pkg(kind string) string {
	return fmt.Sprintf("c13/%s%d/%s", ci.stream, ci.idx, kind)
}

func (m *mon) wit(ci caseInfo, extra map[string]any) map[string]any {
	w := map[string]any{"set": ci.set.Witness(), "stream": ci.stream, "case": ci.idx}
	for k, v := range extra {
		w[k] = v
	}
	return w
}

// checkHit is the core oracle: a hit must have restored want completely.
func (m *mon) checkHit(ci caseInfo, keyPrefix string, what string, want, got lib.Snapshot, extra map[string]any) bool {
	d := lib.Diff(want, got)
	if len(d) == 0 {
		return true
	}
	extra["diff"] = d
	m.r.Violation(keyPrefix+"/hit-"+lossClass(d), what+": Retrieve reported a hit but the restored tree is not the stored set: "+shortDiff(d), m.wit(ci, extra), ci.idx)
	return false
}

// ---------------------------------------------------------------------------------------------
// HTTP

func (m *mon) httpCase(ci caseInfo, rng *rand.Rand, maxOffsets, maxStoreOffsets, maxPositions int) {
	r := m.r
	tgt := cachelib.Target("//" + ci.pkg("h") + ":t")
	outDir := cachelib.OutDir(m.root, tgt)
	outs := ci.set.Outs
	desc := ci.set.Describe()
	seed := "http" + desc
	var usedKeys []string
	newKey := func(tag string) []byte {
		k := cachelib.Key(seed+tag, 20)
		usedKeys = append(usedKeys, hex.EncodeToString(k))
		return k
	}
	defer func() {
		for _, k := range usedKeys {
			m.srv.forget(k)
		}
	}()

	transport := func() bool {
		// baseline: healthy store and retrieve
		if err := cachelib.Materialize(outDir, ci.set); err != nil {
			r.Inconclusive("cannot materialise: " + err.Error())
			return false
		}
		orig, err := cachelib.Snapshot(outDir)
		if err != nil {
			r.Inconclusive("cannot snapshot: " + err.Error())
			return false
		}
		base := newKey("base")
		baseHex := hex.EncodeToString(base)
		if !m.store(m.http0, "http baseline", ci.idx, tgt, base, outs) {
			return false
		}
		entry, committed := m.srv.entry(baseHex)
		if !committed {
			r.FatalInconclusive("healthy HTTP store was not committed by the harness server")
			return false
		}
		hit, ref, ok := m.retrieve(m.http0, "http baseline", ci.idx, tgt, base, outs)
		if !ok {
			return false
		}
		if !hit {
			r.FatalInconclusive("healthy HTTP store followed by a healthy retrieve missed")
			return false
		}
		if d := lib.Diff(orig, ref); len(d) > 0 {
			// Faithfulness of a healthy round trip is not this property; the faulted runs are compared
			// with what a healthy round trip restores.
			r.Obs("http_healthy_roundtrip_differs_from_original", 1)
			r.Extra("http_healthy_roundtrip_diff_example", shortDiff(d))
		}
		r.Obs("http_healthy_roundtrips", 1)
		l := len(entry)
		nontrivialSet := len(ref) >= 2
		// retrieve side: k bytes of the committed entry, then the connection closes
		modes := []string{"cl", "eof", "chunked"}
		minTrueK := -1
		cutHits, cutMisses := 0, 0
		for _, k := range httpOffsets(rng, l, maxOffsets) {
			mode := modes[(k+ci.idx)%3]
			m.srv.setPlan(baseHex, plan{GetMode: mode, GetK: k})
			hit, got, ok := m.retrieve(m.http0, "http cut", ci.idx, tgt, base, outs)
			if !ok {
				return false
			}
			r.Case(fmt.Sprintf("http/get/%s/%d/%s", mode, k, desc), nontrivialSet && k > 0)
			r.Obs("http_retrieve_cut_evaluated", 1)
			if hit {
				cutHits++
				r.Obs("http_retrieve_cut_reported_hit", 1)
				if minTrueK < 0 || k < minTrueK {
					minTrueK = k
				}
				if m.checkHit(ci, "http/retrieve/body-cut-"+mode, fmt.Sprintf("server sent %d of %d body bytes (%s) and closed", k, l, mode), ref, got,
					map[string]any{"k": k, "entry_bytes": l, "mode": mode}) {
					r.Obs("http_retrieve_cut_hit_but_complete", 1)
				}
			} else {
				cutMisses++
				r.Obs("http_retrieve_cut_reported_miss", 1)
			}
		}
		if r.WantSample() && ci.idx == 0 {
			r.Sample(map[string]any{"kind": "http transport faults", "set": ci.set.Witness(), "server_committed_bytes": l,
				"server_committed_prefix_hex": hex.EncodeToString(entry[:min(l, 24)]), "server_committed_entries": tarNames(entry, true, tgt.OutDir()+"/"),
				"retrieve_cut_offsets": cutHits + cutMisses, "reported_miss": cutMisses, "reported_hit_with_complete_tree": cutHits, "smallest_k_reported_hit": minTrueK})
		}
		if minTrueK >= 0 {
			// how many trailing bytes (gzip trailer, end of the last deflate block) a retrieve does not need
			r.ObsDistinct("http_tail_bytes_not_needed", fmt.Sprint(l-minTrueK))
		}
		// retrieve side: error statuses carrying a well-formed archive
		for _, code := range []int{400, 403, 500, 503} {
			m.srv.setPlan(baseHex, plan{GetMode: "status", Status: code})
			hit, _, ok := m.retrieve(m.http0, "http status", ci.idx, tgt, base, outs)
			if !ok {
				return false
			}
			r.Case(fmt.Sprintf("http/get/status/%d/%s", code, desc), nontrivialSet)
			r.Obs("http_retrieve_status_evaluated", 1)
			if hit {
				r.Violation(fmt.Sprintf("http/retrieve/status-%dxx/reported-hit", code/100), fmt.Sprintf("server answered %d and Retrieve reported a hit", code),
					m.wit(ci, map[string]any{"status": code}), ci.idx)
			}
		}
		// retrieve with one retry: the first answer is a 500, the second is healthy
		if ci.idx%4 == 0 {
			m.srv.setPlan(baseHex, plan{GetMode: "status", Status: 500, FaultAttempts: 1})
			hit, got, ok := m.retrieve(m.http1, "http retry", ci.idx, tgt, base, outs)
			if !ok {
				return false
			}
			r.Case("http/get/retry/"+desc, nontrivialSet)
			r.Obs("http_retrieve_retry_evaluated", 1)
			if hit {
				r.Obs("http_retrieve_retry_hits", 1)
				m.checkHit(ci, "http/retrieve/retry-after-500", "first answer 500, retried", ref, got, map[string]any{})
			}
		}
		m.srv.setPlan(baseHex, plan{})

		// store side: transport faults after k request-body bytes
		if err := cachelib.Materialize(outDir, ci.set); err != nil {
			r.Inconclusive("cannot materialise: " + err.Error())
			return false
		}
		type sf struct {
			mode string
			k    int
		}
		var sfs []sf
		for _, k := range httpOffsets(rng, l, maxStoreOffsets) {
			sfs = append(sfs, sf{[]string{"cut", "cut", "cut500"}[(k+ci.idx)%3], k})
		}
		sfs = append(sfs, sf{"cut", l}, sf{"full500", l}, sf{"fullnoresp", l})
		for _, f := range sfs {
			key := newKey(fmt.Sprintf("put/%s/%d", f.mode, f.k))
			kh := hex.EncodeToString(key)
			m.srv.setPlan(kh, plan{PutMode: f.mode, PutK: f.k})
			if !m.store(m.http0, "http faulted", ci.idx, tgt, key, outs) {
				return false
			}
			st := m.srv.snapshotState(kh)
			r.Case(fmt.Sprintf("http/put/%s/%d/%s", f.mode, f.k, desc), nontrivialSet && f.k > 0)
			r.Obs("http_store_fault_evaluated", 1)
			if st.puts == 0 {
				r.Inconclusive("faulted HTTP store never reached the server")
				continue
			}
			if st.commits > 0 {
				r.Obs("http_store_fault_committed_anyway", 1)
			}
			// Retrieve without wiping first: a miss leaves the outputs alone, which saves re-materialising.
			var h bool
			if !m.call("retrieve http after faulted store", ci.idx, func() { h = m.http0.Retrieve(tgt, key, outs) }) {
				return false
			}
			if h {
				r.Obs("http_store_fault_then_hit", 1)
				hit, got, ok := m.retrieve(m.http0, "http after faulted store", ci.idx, tgt, key, outs)
				if !ok {
					return false
				}
				if hit {
					m.checkHit(ci, "http/store/transport-"+f.mode, fmt.Sprintf("store %s after %d of %d body bytes", f.mode, f.k, l), ref, got,
						map[string]any{"k": f.k, "mode": f.mode, "server_put_bytes": st.putBytes})
				}
				cachelib.Materialize(outDir, ci.set)
			} else {
				r.Obs("http_store_fault_then_miss", 1)
			}
		}
		// store with one retry: the first attempt is cut, the second is healthy
		if ci.idx%4 == 0 {
			key := newKey("put/retry")
			kh := hex.EncodeToString(key)
			m.srv.setPlan(kh, plan{PutMode: "cut", PutK: l / 2, FaultAttempts: 1})
			if !m.store(m.http1, "http retried", ci.idx, tgt, key, outs) {
				return false
			}
			st := m.srv.snapshotState(kh)
			r.Case("http/put/retry/"+desc, nontrivialSet)
			r.Obs("http_store_retry_evaluated", 1)
			r.Obs("http_store_retry_put_attempts", int64(st.puts))
			hit, got, ok := m.retrieve(m.http0, "http after retried store", ci.idx, tgt, key, outs)
			if !ok {
				return false
			}
			if hit {
				r.Obs("http_store_retry_hits", 1)
				m.checkHit(ci, "http/store/retry-after-cut", "first PUT cut, retried", ref, got, map[string]any{"server_put_bytes": st.putBytes})
			}
		}

		return true
	}
	if maxOffsets >= 0 && !transport() {
		return
	}

	// read faults: the regular file at position i cannot be archived
	files := regularFiles(ci.set)
	positions := pickPositions(rng, len(files), maxPositions)
	for _, i := range positions {
		fs := withSocket(ci.set, files[i], i)
		want, err := materializeFaulted(outDir, fs)
		if err != nil {
			r.Inconclusive("cannot materialise faulted set: " + err.Error())
			return
		}
		key := newKey(fmt.Sprintf("sock/%d", i))
		kh := hex.EncodeToString(key)
		if !m.store(m.http0, "http read-fault", ci.idx, tgt, key, outs) {
			return
		}
		entry, committed := m.srv.entry(kh)
		r.Case(fmt.Sprintf("http/readfault/sock/%d/%s", i, desc), len(files) >= 2)
		r.Obs("http_read_fault_evaluated", 1)
		if committed {
			r.Obs("http_read_fault_entry_committed", 1)
		}
		hit, got, ok := m.retrieve(m.http0, "http after read fault", ci.idx, tgt, key, outs)
		if !ok {
			return
		}
		if ci.stream == "witness" && ci.idx == 0 && i == 1 {
			r.Sample(map[string]any{"kind": "http read fault", "set": ci.set.Witness(), "unreadable": fs.Sock, "intended_entries": len(want),
				"server_committed": committed, "server_committed_bytes": len(entry), "server_committed_entries": tarNames(entry, true, tgt.OutDir()+"/"),
				"later_retrieve_reported_hit": hit, "restored_entries": len(got)})
		}
		if !hit {
			r.Obs("http_read_fault_then_miss", 1)
			continue
		}
		r.Obs("http_read_fault_then_hit", 1)
		extra := map[string]any{"unreadable": fs.Sock, "position": i, "fault_source": "unix socket inode (archive/tar: sockets not supported)",
			"intended_entries": len(want), "server_committed_entries": tarNames(entry, true, tgt.OutDir()+"/")}
		if m.checkHit(ci, "http/store/read-fault", "output "+fs.Sock+" could not be archived during Store", without(want, fs.Sock), got, extra) {
			// everything else is there; the unreadable output itself is what the hit lacks
			r.Violation("http/store/read-fault/hit-missing-unreadable-output", "output "+fs.Sock+" could not be archived during Store, yet an entry was committed and Retrieve reports a hit without it",
				m.wit(ci, extra), ci.idx)
		}
	}
}

func pickPositions(rng *rand.Rand, n, max int) []int {
	idx := rng.Perm(n)
	if len(idx) > max {
		idx = idx[:max]
	}
	sort.Ints(idx)
	return idx
}

// ---------------------------------------------------------------------------------------------
// command cache

func (m *mon) cmdCase(ci caseInfo, rng *rand.Rand, maxOffsets, maxStoreOffsets, maxPositions int) {
	r := m.r
	tgt := cachelib.Target("//" + ci.pkg("c") + ":t")
	outDir := cachelib.OutDir(m.root, tgt)
	outs := ci.set.Outs
	desc := ci.set.Describe()
	dir := filepath.Join(m.tmp, "cmd", fmt.Sprintf("%s%d", ci.stream, ci.idx))
	if err := os.MkdirAll(dir, 0o755); err != nil {
		r.Inconclusive(err.Error())
		return
	}
	defer os.RemoveAll(dir)
	plain := contract{Name: "and-list", dir: dir}
	pipe := contract{Name: "logged", dir: dir}
	seed := "cmd" + desc
	newKey := func(tag string) []byte { return cachelib.Key(seed+tag, 20) }

	if err := cachelib.Materialize(outDir, ci.set); err != nil {
		r.Inconclusive("cannot materialise: " + err.Error())
		return
	}
	orig, err := cachelib.Snapshot(outDir)
	if err != nil {
		r.Inconclusive("cannot snapshot: " + err.Error())
		return
	}
	transport := func() bool {
		// baseline for both contracts
		var ref lib.Snapshot
		baseKeys := map[string][]byte{}
		for _, c := range []contract{plain, pipe} {
			if c.Name == "logged" {
				if err := cachelib.Materialize(outDir, ci.set); err != nil {
					r.Inconclusive("cannot materialise: " + err.Error())
					return false
				}
			}
			key := newKey("base/" + c.Name)
			baseKeys[c.Name] = key
			cc := c.cache()
			if !m.store(cc, "cmd baseline", ci.idx, tgt, key, outs) {
				return false
			}
			r.Obs("cmd_commands_run", 1)
			hit, got, ok := m.retrieve(cc, "cmd baseline", ci.idx, tgt, key, outs)
			if !ok {
				return false
			}
			r.Obs("cmd_commands_run", 1)
			if !hit {
				r.FatalInconclusive("healthy command-cache store followed by a healthy retrieve missed (" + c.Name + ")")
				return false
			}
			if ref == nil {
				ref = got
				if d := lib.Diff(orig, ref); len(d) > 0 {
					r.Obs("cmd_healthy_roundtrip_differs_from_original", 1)
					r.Extra("cmd_healthy_roundtrip_diff_example", shortDiff(d))
				}
			} else if d := lib.Diff(ref, got); len(d) > 0 {
				r.FatalInconclusive("the two command contracts restore different trees: " + shortDiff(d))
				return false
			}
			r.Obs("cmd_healthy_roundtrips", 1)
		}
		base := baseKeys["and-list"]
		baseHex := hex.EncodeToString(base)
		entry, err := os.ReadFile(filepath.Join(dir, baseHex))
		if err != nil {
			r.FatalInconclusive("stored command-cache entry unreadable: " + err.Error())
			return false
		}
		l := len(entry)
		nontrivialSet := len(ref) >= 2
		if r.WantSample() && ci.idx == 0 {
			r.Sample(map[string]any{"kind": "command cache healthy entry", "set": ci.set.Witness(), "committed_bytes": l, "committed_entries": tarNames(entry, false, tgt.OutDir()+"/"),
				"store_command": plain.store(), "retrieve_command": plain.retrieve()})
		}

		// retrieve side: the command emits k bytes of the entry and then fails, or (silent) stops
		// there and exits 0. A third of the offset budget goes to the silent shape, aimed at the
		// offsets where the cut stream is a clean sequence of whole entries.
		file := dir + `/$CACHE_KEY`
		nSilent := maxOffsets / 3
		type cut struct {
			k          int
			how, class string
		}
		var cuts []cut
		for n, k := range tarOffsets(rng, l, maxOffsets-nSilent) {
			cuts = append(cuts, cut{k: k, how: []string{"exit1", "exit1", "kill9"}[(n+ci.idx)%3]})
		}
		sOffs, sClass := silentOffsets(rng, entry, nSilent)
		for _, k := range sOffs {
			cuts = append(cuts, cut{k: k, how: "silent", class: sClass[k]})
		}
		for _, ct := range cuts {
			k, how := ct.k, ct.how
			var rc string
			switch how {
			case "exit1":
				rc = fmt.Sprintf(`head -c %d "%s"; exit 1`, k, file)
			case "kill9":
				rc = fmt.Sprintf(`head -c %d "%s"; kill -9 $$`, k, file)
			case "silent":
				// Exit status 0 after a silent truncation (`fetch | decode` without pipefail, a
				// fetcher that takes a dropped connection for the end of the data). The command did
				// not fail, but whatever Retrieve answers, a hit must have restored the stored set.
				rc = fmt.Sprintf(`head -c %d "%s"`, k, file)
			}
			cc := cache.VerifNewCmdCache(cmdConfig(plain.store(), rc))
			hit, got, ok := m.retrieve(cc, "cmd cut", ci.idx, tgt, base, outs)
			if !ok {
				return false
			}
			r.Obs("cmd_commands_run", 1)
			r.Case(fmt.Sprintf("cmd/get/%s/%d/%s", how, k, desc), nontrivialSet && (k > 0 || how == "silent"))
			r.Obs("cmd_retrieve_fault_evaluated_"+how, 1)
			if how == "silent" {
				r.Obs("cmd_silent_truncation_"+ct.class, 1)
			}
			if !hit {
				r.Obs("cmd_retrieve_fault_reported_miss", 1)
				continue
			}
			r.Obs("cmd_retrieve_fault_reported_hit", 1)
			if how == "silent" {
				if k >= l {
					continue
				}
				d := lib.Diff(ref, got)
				if len(d) == 0 {
					// only footer bytes were lost: nothing is missing or truncated
					r.Obs("cmd_silent_truncation_hit_complete_"+ct.class, 1)
					continue
				}
				r.Violation("cmd/retrieve/command-silent-truncation/"+ct.class+"/hit-"+lossClass(d),
					fmt.Sprintf("retrieve command wrote %d of %d bytes (%s) and exited 0; Retrieve reported a hit but the restored tree is not the stored set: %s", k, l, ct.class, shortDiff(d)),
					m.wit(ci, map[string]any{"k": k, "entry_bytes": l, "cut": ct.class, "retrieve_command": rc, "diff": d}), ci.idx)
				continue
			}
			d := lib.Diff(ref, got)
			what := "complete"
			if len(d) > 0 {
				what = "incomplete:" + lossClass(d)
			}
			r.Violation("cmd/retrieve/command-"+how+"/reported-hit", fmt.Sprintf("retrieve command wrote %d of %d bytes and failed (%s), Retrieve reported a hit (restored tree %s)", k, l, how, what),
				m.wit(ci, map[string]any{"k": k, "entry_bytes": l, "retrieve_command": rc, "diff": d}), ci.idx)
		}

		// store side: the store command dies before committing
		if err := cachelib.Materialize(outDir, ci.set); err != nil {
			r.Inconclusive("cannot materialise: " + err.Error())
			return false
		}
		tmpf := dir + `/$CACHE_KEY.tmp`
		storeFaults := []string{`exit 1`, fmt.Sprintf(`cat > "%s"; exit 1`, tmpf), fmt.Sprintf(`cat > "%s"; kill -9 $$`, tmpf)}
		for _, k := range tarOffsets(rng, l, maxStoreOffsets) {
			storeFaults = append(storeFaults, fmt.Sprintf(`head -c %d > "%s"; exit 1`, k, tmpf))
		}
		for n, sc := range storeFaults {
			key := newKey(fmt.Sprintf("put/%d", n))
			cc := cache.VerifNewCmdCache(cmdConfig(sc, plain.retrieve()))
			if !m.store(cc, "cmd faulted", ci.idx, tgt, key, outs) {
				return false
			}
			r.Obs("cmd_commands_run", 1)
			r.Case(fmt.Sprintf("cmd/put/%s/%s", sc, desc), nontrivialSet)
			r.Obs("cmd_store_fault_evaluated", 1)
			var h bool
			if !m.call("retrieve cmd after faulted store", ci.idx, func() { h = cc.Retrieve(tgt, key, outs) }) {
				return false
			}
			r.Obs("cmd_commands_run", 1)
			if h {
				r.Obs("cmd_store_fault_then_hit", 1)
				hit, got, ok := m.retrieve(cc, "cmd after faulted store", ci.idx, tgt, key, outs)
				if !ok {
					return false
				}
				if hit {
					m.checkHit(ci, "cmd/store/command-failed", "store command `"+sc+"` failed", ref, got, map[string]any{"store_command": sc})
				}
				cachelib.Materialize(outDir, ci.set)
			} else {
				r.Obs("cmd_store_fault_then_miss", 1)
			}
		}

		return true
	}
	if maxOffsets >= 0 && !transport() {
		return
	}

	// read faults
	files := regularFiles(ci.set)
	for _, i := range pickPositions(rng, len(files), maxPositions) {
		fs := withSocket(ci.set, files[i], i)
		for _, c := range []contract{pipe, plain} {
			want, err := materializeFaulted(outDir, fs)
			if err != nil {
				r.Inconclusive("cannot materialise faulted set: " + err.Error())
				return
			}
			key := newKey(fmt.Sprintf("sock/%d/%s", i, c.Name))
			cc := c.cache()
			if !m.store(cc, "cmd read-fault", ci.idx, tgt, key, outs) {
				return
			}
			r.Obs("cmd_commands_run", 1)
			r.Case(fmt.Sprintf("cmd/readfault/sock/%s/%d/%s", c.Name, i, desc), len(files) >= 2)
			r.Obs("cmd_read_fault_evaluated_"+c.Name, 1)
			var committed []string
			if b, err := os.ReadFile(filepath.Join(dir, hex.EncodeToString(key))); err == nil {
				r.Obs("cmd_read_fault_entry_committed_"+c.Name, 1)
				committed = tarNames(b, false, tgt.OutDir()+"/")
			}
			hit, got, ok := m.retrieve(cc, "cmd after read fault", ci.idx, tgt, key, outs)
			if !ok {
				return
			}
			if ci.stream == "witness" && ci.idx == 1 && i == 1 && c.Name == "logged" {
				r.Sample(map[string]any{"kind": "command cache read fault", "set": ci.set.Witness(), "unreadable": fs.Sock, "intended_entries": len(want),
					"store_command": c.store(), "entry_committed_by_command": committed != nil, "committed_entries": committed,
					"later_retrieve_reported_hit": hit, "restored_entries": len(got)})
			}
			r.Obs("cmd_commands_run", 1)
			if !hit {
				r.Obs("cmd_read_fault_then_miss_"+c.Name, 1)
				continue
			}
			r.Obs("cmd_read_fault_then_hit_"+c.Name, 1)
			extra := map[string]any{"unreadable": fs.Sock, "position": i, "fault_source": "unix socket inode (archive/tar: sockets not supported)",
				"store_command": c.store(), "retrieve_command": c.retrieve(), "intended_entries": len(want), "committed_entries": committed}
			if m.checkHit(ci, "cmd/store/read-fault", "output "+fs.Sock+" could not be archived during Store ("+c.Name+" store command)", without(want, fs.Sock), got, extra) {
				r.Violation("cmd/store/read-fault/hit-missing-unreadable-output", "output "+fs.Sock+" could not be archived during Store, yet the store command committed an entry and Retrieve reports a hit without it",
					m.wit(ci, extra), ci.idx)
			}
		}
	}
}

// ---------------------------------------------------------------------------------------------
// second read-fault source: verifhook.Fault("cache.storeFile.open")#i, in a child process (the hook is
// configured from the environment once per process)

type hookJob struct {
	Root     string   `json:"root"`
	Label    string   `json:"label"`
	KeyHex   string   `json:"key"`
	Outs     []string `json:"outs"`
	Kind     string   `json:"kind"` // http | cmd
	URL      string   `json:"url,omitempty"`
	Store    string   `json:"store,omitempty"`
	Retrieve string   `json:"retrieve,omitempty"`
}

// TestC13Child performs one Store under an injected fault; it does nothing in the parent run.
func TestC13Child(t *testing.T) {
	if !lib.IsChild() {
		return
	}
	cachelib.Quiet()
	var j hookJob
	b, err := os.ReadFile(os.Getenv("VERIF_C13_JOB"))
	if err == nil {
		err = json.Unmarshal(b, &j)
	}
	if err != nil {
		fmt.Println("cannot read job:", err)
		os.Exit(3)
	}
	cachelib.Reenter(j.Root)
	key, _ := hex.DecodeString(j.KeyHex)
	var c core.Cache
	if j.Kind == "http" {
		c = cache.VerifNewHTTPCache(httpConfig(j.URL, 0))
	} else {
		c = cache.VerifNewCmdCache(cmdConfig(j.Store, j.Retrieve))
	}
	c.Store(cachelib.Target(j.Label), key, j.Outs)
	fmt.Println("C13-CHILD-STORED")
}

func (m *mon) runHookChild(j hookJob, n int) bool {
	p := filepath.Join(m.tmp, fmt.Sprintf("job-%s.json", j.KeyHex))
	b, _ := json.Marshal(j)
	if err := os.WriteFile(p, b, 0o644); err != nil {
		m.r.Inconclusive(err.Error())
		return false
	}
	defer os.Remove(p)
	env := []string{"VERIF_C13_JOB=" + p, "GORACE=" + os.Getenv("GORACE") + " atexit_sleep_ms=0"}
	if n > 0 {
		env = append(env, fmt.Sprintf("VERIF_HOOK_FAULT=%s#%d", faultHook, n))
	}
	res := lib.Child("TestC13Child", env, 300*time.Second)
	if res.TimedOut || !strings.Contains(res.Stdout, "C13-CHILD-STORED") {
		m.r.Inconclusive(fmt.Sprintf("hook child failed (exit %d, timed out %v): %s", res.Exit, res.TimedOut, lastLines(res.Stderr, 5)))
		return false
	}
	m.r.Obs("hook_children_run", 1)
	return true
}

func lastLines(s string, n int) string {
	ls := strings.Split(strings.TrimSpace(s), "\n")
	if len(ls) > n {
		ls = ls[len(ls)-n:]
	}
	return strings.Join(ls, " ⏎ ")
}

// probeHook finds out whether the fault site exists: with the fault armed for the first open, a store
// of three non-empty files must not commit the complete archive.
func (m *mon) probeHook() {
	set := cachelib.OutSet{Outs: []string{"d"}, Files: map[string]string{"d/a": "aaa", "d/b": "bbb", "d/c": "ccc"}}
	tgt := cachelib.Target("//c13/probe:t")
	outDir := cachelib.OutDir(m.root, tgt)
	if err := cachelib.Materialize(outDir, set); err != nil {
		return
	}
	key := cachelib.Key("probe", 20)
	kh := hex.EncodeToString(key)
	if !m.runHookChild(hookJob{Root: m.root, Label: tgt.Label.String(), KeyHex: kh, Outs: set.Outs, Kind: "http", URL: m.srv.url()}, 1) {
		return
	}
	entry, committed := m.srv.entry(kh)
	names := tarNames(entry, true, tgt.OutDir()+"/")
	complete := committed && len(names) == 4 && !strings.HasPrefix(names[len(names)-1], "!")
	m.hook = !complete
	m.srv.forget(kh)
}

func (m *mon) hookCase(ci caseInfo, rng *rand.Rand, maxPositions int) {
	r := m.r
	files := regularFiles(ci.set)
	desc := ci.set.Describe()
	dir := filepath.Join(m.tmp, "cmdhook", fmt.Sprintf("%s%d", ci.stream, ci.idx))
	os.MkdirAll(dir, 0o755)
	defer os.RemoveAll(dir)
	pipe := contract{Name: "logged", dir: dir}
	for _, kind := range []string{"http", "cmd"} {
		tgt := cachelib.Target("//" + ci.pkg("k"+kind) + ":t")
		outDir := cachelib.OutDir(m.root, tgt)
		if err := cachelib.Materialize(outDir, ci.set); err != nil {
			r.Inconclusive("cannot materialise: " + err.Error())
			return
		}
		want, err := cachelib.Snapshot(outDir)
		if err != nil {
			r.Inconclusive(err.Error())
			return
		}
		var c core.Cache = m.http0
		if kind == "cmd" {
			c = pipe.cache()
		}
		// The n-th open is of the n-th regular file in walk order (declared outs in order, names sorted within).
		for _, i := range pickPositions(rng, len(files), maxPositions) {
			if err := cachelib.Materialize(outDir, ci.set); err != nil {
				r.Inconclusive("cannot materialise: " + err.Error())
				return
			}
			key := cachelib.Key(fmt.Sprintf("hook/%s/%d/%s", kind, i, desc), 20)
			kh := hex.EncodeToString(key)
			j := hookJob{Root: m.root, Label: tgt.Label.String(), KeyHex: kh, Outs: ci.set.Outs, Kind: kind, URL: m.srv.url(), Store: pipe.store(), Retrieve: pipe.retrieve()}
			if !m.runHookChild(j, i+1) {
				return
			}
			r.Case(fmt.Sprintf("%s/readfault/hook/%d/%s", kind, i, desc), len(files) >= 2)
			r.Obs(kind+"_hook_fault_evaluated", 1)
			hit, got, ok := m.retrieve(c, kind+" after hook fault", ci.idx, tgt, key, ci.set.Outs)
			if kind == "http" {
				m.srv.forget(kh)
			}
			if !ok {
				return
			}
			if !hit {
				r.Obs(kind+"_hook_fault_then_miss", 1)
				continue
			}
			r.Obs(kind+"_hook_fault_then_hit", 1)
			m.checkHit(ci, kind+"/store/open-fault", fmt.Sprintf("the %d-th os.Open in storeFile failed (injected) during Store", i+1), want, got,
				map[string]any{"fault": fmt.Sprintf("%s#%d", faultHook, i+1), "kind": kind})
		}
	}
}

// ---------------------------------------------------------------------------------------------

// fixedSets are small hand-made sets evaluated first (sequentially), so that the witness kept for a
// key is minimal and the same for every seed.
func fixedSets() []cachelib.OutSet {
	big := make([]byte, 300*1024)
	rand.New(rand.NewSource(13)).Read(big)
	big[0] = 'B'
	return []cachelib.OutSet{
		{Outs: []string{"d"}, Files: map[string]string{"d/a": "first", "d/b": "second", "d/c": "third"}},
		// more than a pipe's capacity before d/b: a store command is certainly reading when d/b is reached
		{Outs: []string{"d"}, Files: map[string]string{"d/a": string(big), "d/b": "second", "d/c": "third"}},
		{Outs: []string{"x", "y"}, Files: map[string]string{"x": "only file of x", "y": "only file of y"}},
		{Outs: []string{"d", "f"}, Files: map[string]string{"d/e": "", "d/s/t": "#!/bin/sh\n", "d/l": "->s/t", "d/z/": "", "f": strings.Repeat("z", 1024)}},
		{Outs: []string{"sub/o", "e"}, Files: map[string]string{"sub/o/p q": "space", "sub/o/r": strings.Repeat("r", 513), "e/": ""}},
	}
}

func TestC13(t *testing.T) {
	if lib.IsChild() {
		return
	}
	cachelib.Quiet()
	r := lib.Start("C13")
	defer lib.End(t, r)
	r.Level = "fault_enumeration"
	r.Rule = "one case = (output set, cache kind, fault). Output sets: 5 fixed sets (4 small, 1 with a 300 KB file first) + seeded random sets (cachelib.GenOutSet rich: 1-4 outs, >=1 directory output with >=3 files, nested dirs, symlinks, tar block-boundary sizes, long names; every 5th with 20-200 KB incompressible files). Faults per set: HTTP retrieve = server sends k body bytes then closes, k = every offset of entries <= 200 bytes else gzip header + last 24 + random up to 200, framing cl/eof/chunked by (k+i)%3; statuses 400/403/500/503 with a valid archive as body; HTTP store = connection dropped / 500 after k request-body bytes, full body then 500 or no response; one retry variant each; command retrieve = `head -c k; exit 1|kill -9 $$` at tar block boundaries (±1), before the footer, and random offsets, plus (a third of the offsets) `head -c k` exiting 0 at offset 0, entry boundaries, inside the padding after a file's data, before / inside the footer and one random offset; command store = `exit 1`, `head -c k > tmp; exit 1`, `cat > tmp; exit 1`; read faults = each regular-file position i replaced by a socket inode, for HTTP and for two store-command shapes (and-list, and-list piped to a log). Distinct by (kind, fault, k or i, materialised set); non-trivial = set restores >= 2 nodes and k > 0 (read faults: >= 2 regular files)."
	r.Assumes = []string{
		"the harness HTTP server's contract: a PUT is committed only after its body was read to a clean EOF of the announced length; GET serves committed bytes verbatim",
		"custom commands commit by rename after their stdin reached a clean EOF (`cat > tmp && mv tmp final`, `{ cat > tmp && mv tmp final; } 2>&1 | cat >> store.log`); /bin/sh, cat, head, mv behave as POSIX says",
		"mknod(S_IFSOCK) yields an inode that Lstat reports and archive/tar refuses (deterministic, no privileges)",
		"cache.VerifNewHTTPCache/VerifNewCmdCache are what cache.NewCache builds for an HTTP-only / command-only configuration (no multiplexer, Workers=0)",
		"a hit whose restored tree is complete is not flagged even if the transport was cut inside the gzip trailer or the tar footer (nothing is missing or truncated)",
		"a retrieve command that stops early and exits 0 may be answered with a miss or a hit; only a hit whose restored tree differs from the stored set is a violation",
	}

	// A store command that dies early leaves Please's archive-writing goroutine blocked on its pipe
	// with an output file open (one descriptor per failed store); make room for that.
	var lim syscall.Rlimit
	if syscall.Getrlimit(syscall.RLIMIT_NOFILE, &lim) == nil && lim.Cur < lim.Max {
		lim.Cur = lim.Max
		syscall.Setrlimit(syscall.RLIMIT_NOFILE, &lim)
	}

	root := filepath.Join(r.Scratch(), "repo")
	cachelib.Enter(root)
	srv, err := newServer(r)
	if err != nil {
		r.FatalInconclusive("cannot start the harness HTTP server: " + err.Error())
		return
	}
	defer srv.srv.Close()
	m := &mon{r: r, root: root, srv: srv, tmp: filepath.Join(r.Scratch(), "tmp")}
	os.MkdirAll(m.tmp, 0o755)
	m.http0 = cache.VerifNewHTTPCache(httpConfig(srv.url(), 0))
	m.http1 = cache.VerifNewHTTPCache(httpConfig(srv.url(), 1))

	walls := map[string]float64{}
	t0 := time.Now()
	lap := func(name string) {
		walls[name] = time.Since(t0).Seconds()
		t0 = time.Now()
		r.Extra("stream_wall_s", walls)
	}

	// Counts only (never time budgets). A negative offset budget runs the read faults alone.
	httpGet, httpPut, httpPos := r.Pick(200, 300), r.Pick(16, 32), r.Pick(8, 16)
	cmdGet, cmdPut, cmdPos := r.Pick(12, 32), r.Pick(1, 4), r.Pick(3, 8)

	fixed := fixedSets()
	// read faults of the two smallest sets first and sequentially: the witness kept per key is then
	// minimal and the same on every run
	r.ForEach("witness", 2, 1, func(i int, rng *rand.Rand) {
		ci := caseInfo{stream: "witness", idx: i, set: fixed[i]}
		m.httpCase(ci, rng, -1, 0, 100)
		m.cmdCase(ci, rng, -1, 0, 100)
	})
	lap("witness")
	r.ForEach("fixed", len(fixed), len(fixed), func(i int, rng *rand.Rand) {
		ci := caseInfo{stream: "fixed", idx: i, set: fixed[i]}
		pos := 100
		if i < 2 {
			pos = 0 // done in the witness stream
		}
		m.httpCase(ci, rng, httpGet, 60, pos)
		m.cmdCase(ci, rng, cmdGet, cmdPut, pos)
	})
	lap("fixed")

	nSets := r.Pick(20, 80)
	r.ForEach("sets", nSets, 8, func(i int, rng *rand.Rand) {
		set := cachelib.GenOutSet(rng, true, i%5 == 4)
		for _, f := range set.Features() {
			r.ObsDistinct("tree_features", f)
		}
		ci := caseInfo{stream: "sets", idx: i, set: set}
		m.httpCase(ci, rng, httpGet, httpPut, httpPos)
		m.cmdCase(ci, rng, cmdGet, cmdPut, cmdPos)
	})
	lap("sets")

	m.probeHook()
	if m.hook {
		r.Extra("open_fault_hook", "present: "+faultHook+" enumerated in child processes")
		nHook := r.Pick(6, 40)
		r.ForEach("hook", len(fixed)+nHook, 8, func(i int, rng *rand.Rand) {
			var set cachelib.OutSet
			if i < len(fixed) {
				set = fixed[i]
			} else {
				set = cachelib.GenOutSet(rng, true, false)
			}
			m.hookCase(caseInfo{stream: "hook", idx: i, set: set}, rng, 6)
		})
		lap("hook")
	} else {
		r.Extra("open_fault_hook", "absent: no verifhook.Fault(\""+faultHook+"\") call site in the tree under test; read faults come from the socket source only")
	}
	r.Extra("phase_wall_s_summed_over_workers", m.phase)
	r.Obs("open_fault_hook_present", map[bool]int64{true: 1, false: 0}[m.hook])

	r.RequireObserved("http_healthy_roundtrips", "cmd_healthy_roundtrips", "http_retrieve_cut_evaluated", "http_put_committed",
		"http_store_fault_evaluated", "http_read_fault_evaluated", "cmd_retrieve_fault_evaluated_exit1", "cmd_retrieve_fault_evaluated_silent", "cmd_silent_truncation_cut-at-offset-0", "cmd_silent_truncation_cut-on-entry-boundary", "cmd_silent_truncation_cut-before-footer", "cmd_store_fault_evaluated", "cmd_read_fault_evaluated_logged")
}

// C36 — label include/exclude filters select exactly the documented targets.
//
// Monitor: generated targets (label sets from a pool with shared prefixes such as py / py3 / py:x /
// python, test and non-test targets) and generated --include / --exclude argument lists
// (comma-separated groups, trailing-* patterns, build-pattern excludes //p/..., //p:all, //p:t over
// sibling-prefix packages) are evaluated by the real code at three levels —
// BuildTarget.ShouldInclude, BuildState.SetIncludeAndExclude + BuildState.ShouldInclude, and the
// :all / ... expansion BuildState.ExpandLabels — and compared with a reference written from
// docs/commands.html (-i/--include, -e/--exclude) and the statement:
//
//	selected <=> (no include group  or  some include group has ALL its labels on the target)
//	             and no exclude group has all its labels on the target
//	             and no exclude build pattern selects the target's label
//	a label pattern `x*` matches any target label with prefix x; tests carry the label `test`.
//
// A sample goes end to end through the real CLI: `plz query alltargets -i … -e … //...` and
// `plz build -i … -e … //...` (built <=> selected, observed through the output files).
//
// Left open (never asserted): whether a trailing-* pattern that is a prefix of "test" matches the
// implicit test label of a test target (reference computed both ways; asserted only when they agree).
package c36

import (
	"fmt"
	"math/rand"
	"os"
	"path/filepath"
	"strings"
	"sync"
	"testing"
	"time"

	"github.com/thought-machine/please/src/core"

	"verifharness/iplib"
	"verifharness/labellib"
	"verifharness/lib"
)

// ---------------------------------------------------------------------------------------------
// Case description and reference.

type tgt struct {
	Pkg    string   `json:"pkg"`
	Name   string   `json:"name"`
	Test   bool     `json:"test,omitempty"`
	Labels []string `json:"labels"`
}

func (t tgt) String() string { return "//" + t.Pkg + ":" + t.Name }

type args struct {
	Include []string `json:"include"` // groups, comma separated
	Exclude []string `json:"exclude"` // groups or build patterns
}

func isPattern(e string) bool { return strings.HasPrefix(e, "//") }

// matchLabel: does the argument label a match the target? implicitStar says whether the implicit
// `test` label of a test takes part in trailing-* matching (the open point).
func matchLabel(a string, t tgt, implicitStar bool) bool {
	labels := t.Labels
	for _, l := range labels {
		if a == l {
			return true
		}
		if strings.HasSuffix(a, "*") && strings.HasPrefix(l, a[:len(a)-1]) {
			return true
		}
	}
	if t.Test {
		if a == "test" {
			return true
		}
		if implicitStar && strings.HasSuffix(a, "*") && strings.HasPrefix("test", a[:len(a)-1]) {
			return true
		}
	}
	return false
}

func groupMatches(group string, t tgt, implicitStar bool) bool {
	for _, a := range strings.Split(group, ",") {
		if !matchLabel(a, t, implicitStar) {
			return false
		}
	}
	return true
}

type refResult struct {
	Selected bool
	Decided  bool
	Why      string
}

func refSelectedWith(t tgt, a args, implicitStar, withPatterns bool) (bool, string) {
	for _, e := range a.Exclude {
		if isPattern(e) {
			if withPatterns && labellib.Selects(parsePattern(e), labellib.L(t.Pkg, t.Name)) {
				return false, "excluded-by-pattern"
			}
			continue
		}
		if groupMatches(e, t, implicitStar) {
			return false, "excluded-by-label"
		}
	}
	if len(a.Include) == 0 {
		return true, "no-include"
	}
	for _, g := range a.Include {
		if groupMatches(g, t, implicitStar) {
			return true, "included"
		}
	}
	return false, "not-included"
}

func refSelected(t tgt, a args, withPatterns bool) refResult {
	s1, why := refSelectedWith(t, a, false, withPatterns)
	s2, _ := refSelectedWith(t, a, true, withPatterns)
	return refResult{Selected: s1, Decided: s1 == s2, Why: why}
}

func parsePattern(s string) core.BuildLabel {
	rest := strings.TrimPrefix(s, "//")
	if i := strings.IndexByte(rest, ':'); i >= 0 {
		return labellib.L(rest[:i], rest[i+1:])
	}
	if rest == "..." {
		return labellib.L("", "...")
	}
	return labellib.L(strings.TrimSuffix(rest, "/..."), "...")
}

// shape names what the argument lists exercise, for witness keys.
func shape(t tgt, a args) string {
	var f []string
	multi, star, pat, testArg := false, false, false, false
	for _, g := range append(append([]string{}, a.Include...), a.Exclude...) {
		if isPattern(g) {
			pat = true
			continue
		}
		if strings.Contains(g, ",") {
			multi = true
		}
		for _, l := range strings.Split(g, ",") {
			if strings.HasSuffix(l, "*") {
				star = true
			}
			if l == "test" {
				testArg = true
			}
		}
	}
	if len(a.Include) > 0 {
		f = append(f, "include")
	}
	if len(a.Exclude) > 0 {
		f = append(f, "exclude")
	}
	if multi {
		f = append(f, "group")
	}
	if star {
		f = append(f, "star")
	}
	if pat {
		f = append(f, "pattern")
	}
	if testArg && t.Test {
		f = append(f, "implicit-test")
	}
	if len(f) == 0 {
		return "no-args"
	}
	return strings.Join(f, "+")
}

// ---------------------------------------------------------------------------------------------
// Generators.

var labelPool = []string{"py", "py3", "py:x", "python", "go", "go_test", "slow", "x", "cc", "codegen", "p", "test_x", "te"}
var argPool = []string{"py", "py3", "py:x", "python", "go", "go_test", "slow", "x", "cc", "test", "py*", "p*", "go*", "py3*", "py:*", "*", "s*", "test*", "t*", "nope", "nope*", "pyt*", "g*"}
var pkgPool = []string{"p", "pfoo", "p/q", "p.q", "other", "p/qfoo"}
var namePool = []string{"t", "u", "t2", "lib"}

func genTarget(rng *rand.Rand, pkg, name string) tgt {
	t := tgt{Pkg: pkg, Name: name, Labels: []string{}}
	for k, n := 0, rng.Intn(4); k < n; k++ {
		l := labelPool[rng.Intn(len(labelPool))]
		dup := false
		for _, x := range t.Labels {
			dup = dup || x == l
		}
		if !dup {
			t.Labels = append(t.Labels, l)
		}
	}
	t.Test = rng.Intn(4) == 0
	return t
}

// genGroup builds one comma group, biased towards labels the target has (so that all-of matters).
func genGroup(rng *rand.Rand, t tgt) string {
	n := 1
	if rng.Intn(3) == 0 {
		n = 2 + rng.Intn(2)
	}
	var parts []string
	for k := 0; k < n; k++ {
		var l string
		if len(t.Labels) > 0 && rng.Intn(2) == 0 {
			l = t.Labels[rng.Intn(len(t.Labels))]
			switch rng.Intn(5) {
			case 0: // prefix pattern of a label it has
				l = l[:1+rng.Intn(len(l))] + "*"
			case 1: // longer than the label: must not match
				l += "x"
			}
		} else {
			l = argPool[rng.Intn(len(argPool))]
		}
		parts = append(parts, l)
	}
	return strings.Join(parts, ",")
}

func genArgs(rng *rand.Rand, t tgt, patterns bool) args {
	a := args{Include: []string{}, Exclude: []string{}}
	for k, n := 0, rng.Intn(3); k < n; k++ {
		a.Include = append(a.Include, genGroup(rng, t))
	}
	for k, n := 0, rng.Intn(3); k < n; k++ {
		if patterns && rng.Intn(3) == 0 {
			pkgs := []string{t.Pkg, t.Pkg, pkgPool[rng.Intn(len(pkgPool))], "p", "pf"}
			p := pkgs[rng.Intn(len(pkgs))]
			name := []string{"...", "all", t.Name, "zz"}[rng.Intn(4)]
			a.Exclude = append(a.Exclude, labellib.Pat(p, name))
		} else {
			a.Exclude = append(a.Exclude, genGroup(rng, t))
		}
	}
	return a
}

func labelExcludes(a args) []string {
	out := []string{}
	for _, e := range a.Exclude {
		if !isPattern(e) {
			out = append(out, e)
		}
	}
	return out
}

func makeTarget(t tgt) *core.BuildTarget {
	bt := core.NewBuildTarget(labellib.L(t.Pkg, t.Name))
	for _, l := range t.Labels {
		bt.AddLabel(l)
	}
	if t.Test {
		bt.Test = new(core.TestFields)
	}
	return bt
}

// ---------------------------------------------------------------------------------------------
// States are reused (each owns a goroutine; NewBuildState must not run concurrently).

var stateMu sync.Mutex
var freeStates []*core.BuildState

func getState() *core.BuildState {
	stateMu.Lock()
	defer stateMu.Unlock()
	var s *core.BuildState
	if k := len(freeStates); k > 0 {
		s, freeStates = freeStates[k-1], freeStates[:k-1]
	} else {
		s = iplib.NewState()
	}
	s.Graph = core.NewGraph() // never the graph the state's idle cycle detector looks at
	return s
}

func putState(s *core.BuildState) {
	s.ExcludeTargets = nil
	s.SetIncludeAndExclude(nil, nil)
	stateMu.Lock()
	freeStates = append(freeStates, s)
	stateMu.Unlock()
}

func setArgs(s *core.BuildState, a args) {
	s.ExcludeTargets = nil
	s.SetIncludeAndExclude(append([]string{}, a.Include...), append([]string{}, a.Exclude...))
}

// ---------------------------------------------------------------------------------------------
// Streams.

// evalSite asks the real code at one in-process site.
func evalSite(site string, t tgt, a args) bool {
	bt := makeTarget(t)
	if site == "target-should-include" {
		return bt.ShouldInclude(a.Include, labelExcludes(a))
	}
	state := getState()
	defer putState(state)
	setArgs(state, a)
	return state.ShouldInclude(bt)
}

func disagrees(site string, t tgt, a args) bool {
	w := refSelected(t, a, site != "target-should-include")
	return w.Decided && w.Selected != evalSite(site, t, a)
}

// shrink greedily drops target labels, the test flag, whole groups and single labels inside groups
// while the disagreement persists, so that the witness is minimal and its key stable.
func shrink(site string, t tgt, a args) (tgt, args) {
	cp := func(l []string) []string { return append([]string{}, l...) }
	for changed := true; changed; {
		changed = false
		type cand struct {
			t tgt
			a args
		}
		var cands []cand
		for i := range a.Include {
			c := args{append(cp(a.Include[:i]), a.Include[i+1:]...), cp(a.Exclude)}
			cands = append(cands, cand{t, c})
		}
		for i := range a.Exclude {
			c := args{cp(a.Include), append(cp(a.Exclude[:i]), a.Exclude[i+1:]...)}
			cands = append(cands, cand{t, c})
		}
		dropIn := func(list []string, set func(l []string) args) {
			for i, g := range list {
				if isPattern(g) {
					continue
				}
				parts := strings.Split(g, ",")
				if len(parts) < 2 {
					continue
				}
				for j := range parts {
					np := append(cp(parts[:j]), parts[j+1:]...)
					nl := cp(list)
					nl[i] = strings.Join(np, ",")
					cands = append(cands, cand{t, set(nl)})
				}
			}
		}
		dropIn(a.Include, func(l []string) args { return args{l, cp(a.Exclude)} })
		dropIn(a.Exclude, func(l []string) args { return args{cp(a.Include), l} })
		// a trailing-* argument is replaced by a plain label when the disagreement does not need it
		unstar := func(list []string, set func(l []string) args) {
			for i, g := range list {
				if isPattern(g) {
					continue
				}
				parts := strings.Split(g, ",")
				for j, p := range parts {
					if !strings.HasSuffix(p, "*") {
						continue
					}
					for _, repl := range append([]string{strings.TrimSuffix(p, "*")}, t.Labels...) {
						if repl == "" {
							continue
						}
						np := cp(parts)
						np[j] = repl
						nl := cp(list)
						nl[i] = strings.Join(np, ",")
						cands = append(cands, cand{t, set(nl)})
					}
				}
			}
		}
		unstar(a.Include, func(l []string) args { return args{l, cp(a.Exclude)} })
		unstar(a.Exclude, func(l []string) args { return args{cp(a.Include), l} })
		for i := range t.Labels {
			nt := t
			nt.Labels = append(cp(t.Labels[:i]), t.Labels[i+1:]...)
			cands = append(cands, cand{nt, a})
		}
		if t.Test {
			nt := t
			nt.Test = false
			cands = append(cands, cand{nt, a})
		}
		for _, c := range cands {
			if disagrees(site, c.t, c.a) {
				t, a, changed = c.t, c.a, true
				break
			}
		}
	}
	return t, a
}

const shrinksPerBatch = 3

func report(r *lib.Run, idx int, site string, t tgt, a args, want refResult, got bool, budget *int) {
	if !want.Decided {
		r.Obs("undecided_implicit_test_star", 1)
		return
	}
	if want.Selected == got {
		return
	}
	key := site + "/" + wrongly(got) + "/" + want.Why
	if site == "target-should-include" || site == "state-should-include" {
		if *budget <= 0 {
			r.Obs("disagreeing_cases_not_minimised", 1)
			return
		}
		*budget--
		mt, ma := shrink(site, t, a)
		if disagrees(site, mt, ma) {
			t, a = mt, ma
			want = refSelected(t, a, site != "target-should-include")
			got = !want.Selected
		}
		key = site + "/" + wrongly(got) + "/" + want.Why + "/" + shape(t, a)
	}
	r.Violation(key,
		fmt.Sprintf("%s: target %s labels %v test=%v with --include %q --exclude %q: Please selects=%v, reference %v (%s)", site, t, t.Labels, t.Test, a.Include, a.Exclude, got, want.Selected, want.Why),
		map[string]any{"site": site, "target": t, "args": a, "please_selects": got, "reference_selects": want.Selected, "why": want.Why}, idx)
}

func wrongly(got bool) string {
	if got {
		return "wrongly-selected"
	}
	return "wrongly-dropped"
}

func targetStream(r *lib.Run) {
	batches := r.Pick(150, 3000)
	const per = 500
	r.ForEach("targets", batches, 8, func(i int, rng *rand.Rand) {
		state := getState()
		defer putState(state)
		budget := shrinksPerBatch
		for k := 0; k < per; k++ {
			t := genTarget(rng, pkgPool[rng.Intn(len(pkgPool))], namePool[rng.Intn(len(namePool))])
			a := genArgs(rng, t, true)
			bt := makeTarget(t)

			// level 1: BuildTarget.ShouldInclude with the label arguments only
			noPat := args{Include: a.Include, Exclude: labelExcludes(a)}
			w1 := refSelected(t, noPat, false)
			report(r, i, "target-should-include", t, noPat, w1, bt.ShouldInclude(noPat.Include, noPat.Exclude), &budget)

			// level 2: BuildState with build-pattern excludes
			w2 := refSelected(t, a, true)
			setArgs(state, a)
			report(r, i, "state-should-include", t, a, w2, state.ShouldInclude(bt), &budget)

			nontrivial := len(a.Include)+len(a.Exclude) > 0 && len(t.Labels) > 0
			r.Case(lib.JSON(t)+lib.JSON(a), nontrivial)
			r.Obs("target_arg_cases", 1)
			if w2.Selected {
				r.Obs("ref_selected", 1)
			} else {
				r.Obs("ref_dropped", 1)
				r.ObsDistinct("drop_reasons", w2.Why)
			}
			r.ObsDistinct("arg_shapes", shape(t, a))
			if r.WantSample() && nontrivial && strings.Contains(shape(t, a), "star") {
				r.Sample(map[string]any{"target": t, "args": a, "reference": w2})
			}
		}
	})
}

// expandStream: a graph of packages; //..., //p/... and //p:all are expanded under the arguments.
func expandStream(r *lib.Run) {
	n := r.Pick(600, 20000)
	r.ForEach("expand", n, 8, func(i int, rng *rand.Rand) {
		state := getState()
		defer putState(state)
		var ts []tgt
		for _, p := range pkgPool {
			pkg := core.NewPackage(p)
			for _, nm := range namePool[:2+rng.Intn(3)] {
				t := genTarget(rng, p, nm)
				ts = append(ts, t)
				bt := makeTarget(t)
				pkg.AddTarget(bt)
				state.Graph.AddTarget(bt)
			}
			state.Graph.AddPackage(pkg)
		}
		a := genArgs(rng, ts[rng.Intn(len(ts))], true)
		setArgs(state, a)
		pat := []core.BuildLabel{labellib.L("", "..."), labellib.L("p", "..."), labellib.L("p", "all"), labellib.L("pfoo", "all"), labellib.L("p/q", "...")}[rng.Intn(5)]
		got := map[string]bool{}
		for _, l := range state.ExpandLabels([]core.BuildLabel{pat}) {
			got[l.String()] = true
		}
		r.Case(lib.JSON(ts)+lib.JSON(a)+pat.String(), len(a.Include)+len(a.Exclude) > 0)
		r.Obs("expansions", 1)
		for _, t := range ts {
			inPat := labellib.Selects(pat, labellib.L(t.Pkg, t.Name))
			w := refSelected(t, a, true)
			if !inPat {
				w = refResult{Selected: false, Decided: true, Why: "outside-" + patKind(pat)}
			}
			report(r, i, "expand-"+patKind(pat), t, a, w, got[t.String()], nil)
			delete(got, t.String())
		}
		for extra := range got {
			r.Violation("expand/unknown-label", "expansion of "+pat.String()+" returned "+extra, map[string]any{"targets": ts, "args": a}, i)
		}
	})
}

func patKind(p core.BuildLabel) string {
	if p.Name == "..." {
		return "dots"
	}
	return "all"
}

// ---------------------------------------------------------------------------------------------
// End to end.

func cliArgs(a args) []string {
	var out []string
	for k, g := range a.Include {
		if k%2 == 0 {
			out = append(out, "--include", g)
		} else {
			out = append(out, "-i", g)
		}
	}
	for k, g := range a.Exclude {
		if k%2 == 0 {
			out = append(out, "--exclude", g)
		} else {
			out = append(out, "-e", g)
		}
	}
	return out
}

func e2eStream(r *lib.Run) {
	n := r.Pick(8, 170)
	r.ForEach("e2e", n, 8, func(i int, rng *rand.Rand) {
		var ts []tgt
		var lts []labellib.Target
		for _, p := range pkgPool {
			for _, nm := range namePool[:2+rng.Intn(2)] {
				t := genTarget(rng, p, nm)
				lts = append(lts, labellib.Target{Pkg: t.Pkg, Name: t.Name, Test: t.Test, Labels: t.Labels})
				if t.Test {
					// the BUILD parser labels every binary target (a gentest is one) with "bin"
					t.Labels = append(append([]string{}, t.Labels...), "bin")
				}
				ts = append(ts, t)
			}
		}
		root := filepath.Join(r.Scratch(), fmt.Sprintf("e2e-%d", i), "repo")
		repo, err := labellib.WriteRepo(root, "", lts)
		if err != nil {
			r.Inconclusive("cannot write repo: " + err.Error())
			return
		}
		defer func() {
			if os.Getenv("VERIF_KEEP_SCRATCH") == "" {
				lib.RemoveAll(filepath.Dir(root))
			}
		}()
		check := func(site string, a args, pat core.BuildLabel, got map[string]bool, res lib.PlzResult, cmd []string) {
			for _, t := range ts {
				w := refSelected(t, a, true)
				if !labellib.Selects(pat, labellib.L(t.Pkg, t.Name)) {
					w = refResult{Selected: false, Decided: true, Why: "outside-" + patKind(pat)}
				}
				if !w.Decided {
					r.Obs("undecided_implicit_test_star", 1)
					continue
				}
				if w.Selected != got[t.String()] {
					dir := "dropped"
					if got[t.String()] {
						dir = "selected"
					}
					r.Violation("e2e-"+site+"/wrongly-"+dir+"/"+w.Why,
						fmt.Sprintf("plz %s: target %s labels %v test=%v: Please selects=%v, reference %v (%s)", strings.Join(cmd, " "), t, t.Labels, t.Test, got[t.String()], w.Selected, w.Why),
						map[string]any{"cmd": cmd, "targets": ts, "target": t, "args": a, "stdout": lib.Tail(res.Stdout, 2000), "stderr": lib.Tail(res.Stderr, 1000)}, i)
				}
			}
		}
		// two queries with different arguments and patterns, one build
		for q := 0; q < 2; q++ {
			a := genArgs(rng, ts[rng.Intn(len(ts))], true)
			pat := []core.BuildLabel{labellib.L("", "..."), labellib.L("p", "..."), labellib.L("p", "all")}[rng.Intn(3)]
			if q == 0 {
				pat = labellib.L("", "...")
			}
			cmd := append(append([]string{"query", "alltargets"}, cliArgs(a)...), labellib.Pat(pat.PackageName, pat.Name))
			res := repo.Plz(cmd...)
			r.Obs("e2e_queries", 1)
			r.Case("e2e-query|"+lib.JSON(ts)+lib.JSON(a)+pat.String(), len(a.Include)+len(a.Exclude) > 0)
			if res.Exit != 0 {
				r.Inconclusive(fmt.Sprintf("e2e case %d: plz %s failed: exit %d %s", i, strings.Join(cmd, " "), res.Exit, lib.Tail(res.Stderr, 300)))
				continue
			}
			got := map[string]bool{}
			for _, l := range labellib.OutLabels(res.Stdout) {
				got[l] = true
			}
			check("query", a, pat, got, res, cmd)
		}
		// build: targets are independent, so an output file exists iff its target was selected
		a := genArgs(rng, ts[rng.Intn(len(ts))], true)
		cmd := append(append([]string{"build"}, cliArgs(a)...), "//...")
		res := repo.Plz(cmd...)
		r.Obs("e2e_builds", 1)
		r.Case("e2e-build|"+lib.JSON(ts)+lib.JSON(a), len(a.Include)+len(a.Exclude) > 0)
		if res.Exit != 0 {
			r.Inconclusive(fmt.Sprintf("e2e case %d: plz %s failed: exit %d %s", i, strings.Join(cmd, " "), res.Exit, lib.Tail(res.Stderr, 300)))
			return
		}
		got := map[string]bool{}
		for k, t := range ts {
			out := lts[k].OutName()
			for _, d := range []string{"gen", "bin"} {
				if _, err := os.Stat(filepath.Join(root, "plz-out", d, t.Pkg, out)); err == nil {
					got[t.String()] = true
				}
			}
		}
		check("build", a, labellib.L("", "..."), got, res, cmd)
	})
}

func TestC36(t *testing.T) {
	labellib.Silence()
	r := lib.Start("C36")
	defer lib.End(t, r)
	r.Rule = "a case is one (target with label set and test flag, --include groups, --exclude groups and build patterns) tuple, distinct by its JSON; non-trivial when at least one argument is given and the target has at least one label. expand / e2e: one graph or repository of 12-24 such targets under one argument list and one :all or ... pattern."
	r.Assumes = []string{
		"reference from docs/commands.html (-i/-e) and the statement: all-of inside a comma group, any-of across include groups, exclusion wins, exclude build patterns by whole path components, trailing * on the argument matches target labels by prefix, tests carry `test`",
		"not asserted: a trailing-* argument that is a prefix of `test` against the implicit test label",
		"e2e build: generated targets are independent genrules/gentests, so output file present <=> target selected",
		"e2e: the BUILD parser adds the label `bin` to binary targets (every gentest); the reference's label set includes it",
	}
	walls := map[string]float64{}
	for _, st := range []struct {
		name string
		f    func(*lib.Run)
	}{{"targets", targetStream}, {"expand", expandStream}, {"e2e", e2eStream}} {
		t0 := time.Now()
		st.f(r)
		walls[st.name] = time.Since(t0).Seconds()
	}
	r.Extra("stream_wall_s", walls) // informational only
	r.RequireObserved("target_arg_cases", "ref_selected", "ref_dropped", "expansions", "e2e_queries", "e2e_builds")
}

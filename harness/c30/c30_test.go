// C30 — timed-out actions are killed with all their children.
//
// Layer IP: generated bash commands (TERM-ignoring / TERM-handling mains, background children that
// hold the output pipes or detach from them, fork chains, double-forked orphans, output floods,
// children that leave the process group with setsid) are run through one shared
// process.New() executor with ExecWithTimeout / ExecWithTimeoutShell and timeouts of 150-900 ms (20 s for commands that end by themselves and leave nothing on the pipes).
// Layer E2E: the same commands as genrule / gentest with `timeout = 1`, run by the real plz binary.
//
// Oracle: every process the action starts carries a unique VERIF_MARK=<id> in its environment; after
// the call returned (the code's own SIGTERM/SIGKILL allowance is spent inside the call) /proc/*/environ
// is scanned for the marker. A process counts as a survivor only if it is not a zombie, did not leave
// the process group on purpose (setsid children carry VERIF_ESC=1 and are reported, not asserted), is
// seen in three consecutive scans and has no SIGKILL pending in /proc/<pid>/status — i.e. nobody is
// going to kill it. The clock decides nothing: it only paces the scans and arms generous watchdogs whose
// firing is classified from the goroutine dump (IP) or CPU/children sampling (E2E).
// Also asserted: a command that can never end by itself must come back as context.DeadlineExceeded
// (IP) / a failed target and non-zero exit (E2E). Race reports with a frame in src/process are violations.
package c30

import (
	"bytes"
	"context"
	"errors"
	"fmt"
	"math/rand"
	"os"
	"path/filepath"
	"regexp"
	"runtime"
	"sort"
	"strconv"
	"strings"
	"sync"
	"sync/atomic"
	"syscall"
	"testing"
	"time"

	"github.com/thought-machine/please/src/cli"
	"github.com/thought-machine/please/src/process"

	x "verifharness/e2ealib"
	"verifharness/iplib"
	"verifharness/lib"
)

// The kill allowance process.killProcess gives a command: SIGTERM, 30 ms, SIGKILL, 1 s.
const killAllowance = 30*time.Millisecond + time.Second

// e2eLimit is the watchdog of one plz invocation whose action has timeout = 1 (normal: 2-4 s).
const e2eLimit = 100 * time.Second

// Watchdog slack on top of timeout+killAllowance before a call is examined for being blocked.
const watchdogSlack = 40 * time.Second

// ---------------------------------------------------------------------------------------------
// command generator

type mainKind string
type termKind string
type bgKind string

const (
	mainSleep      mainKind = "sleep"      // sleep 300 as a child of the shell
	mainExecSleep  mainKind = "exec-sleep" // the shell execs sleep 300
	mainLoop       mainKind = "sleep-loop" // while :; do sleep 300; done
	mainBusy       mainKind = "busy-loop"  // while :; do :; done
	mainWait       mainKind = "wait"       // waits for its background children
	mainExitNow    mainKind = "exit-now"   // ends at once with status 0
	mainExitFail   mainKind = "exit-fail"  // ends at once with status 3
	mainAtDeadline mainKind = "exit-at-deadline"
	mainDirect     mainKind = "direct-sleep" // argv = sleep 300, no shell at all (IP only)

	termDefault termKind = "default"
	termIgnore  termKind = "ignore"  // trap '' TERM  (inherited by every child, also across exec)
	termHandler termKind = "handler" // trap 'echo caught' TERM (handled, execution continues)

	bgPipe          bgKind = "child-holding-pipes"
	bgDetached      bgKind = "child-detached-stdio"
	bgIgnTerm       bgKind = "child-ignoring-term"
	bgIgnTermDet    bgKind = "child-ignoring-term-detached-stdio"
	bgChain         bgKind = "fork-chain"
	bgDaemon        bgKind = "double-fork-orphan"
	bgDaemonDet     bgKind = "double-fork-orphan-detached-stdio"
	bgFlood         bgKind = "output-flood"
	bgTrapLoop      bgKind = "term-handling-loop"
	bgEscDetached   bgKind = "setsid-detached-stdio"
	bgEscPipe       bgKind = "setsid-holding-pipes"
	bgEscPipeWriter bgKind = "setsid-writing-to-pipes"
)

var inGroupKinds = []bgKind{bgPipe, bgDetached, bgIgnTerm, bgIgnTermDet, bgChain, bgDaemon, bgDaemonDet, bgFlood, bgTrapLoop}

func (k bgKind) escapes() bool { return strings.HasPrefix(string(k), "setsid-") }

// holdsPipes: the background process keeps the action's stdout/stderr open.
func (k bgKind) holdsPipes() bool {
	switch k {
	case bgDetached, bgIgnTermDet, bgDaemonDet, bgEscDetached:
		return false
	}
	return true
}

type spec struct {
	Main       mainKind `json:"main"`
	Term       termKind `json:"main_sigterm"`
	Bg         []bgKind `json:"background"`
	TimeoutMS  int      `json:"timeout_ms"`
	ExitOnErr  bool     `json:"bash_exit_on_error"`
	WithTarget bool     `json:"via_ExecWithTimeoutShell_with_target"`
	Rule       string   `json:"rule,omitempty"` // E2E: genrule | gentest
}

// neverEnds: no process of the command's main line can finish by itself within minutes.
func (s *spec) neverEnds() bool {
	switch s.Main {
	case mainSleep, mainExecSleep, mainLoop, mainBusy, mainDirect:
		return true
	case mainWait:
		for _, b := range s.Bg {
			if !b.escapes() && b != bgDaemon && b != bgDaemonDet {
				return true // waits for a direct child that sleeps for 300 s
			}
		}
	}
	return false
}

func (s *spec) nontrivial() bool {
	return len(s.Bg) > 0 || s.Term != termDefault
}

func genSpec(rng *rand.Rand, e2e bool) *spec {
	s := &spec{TimeoutMS: 150 + rng.Intn(751), ExitOnErr: rng.Intn(2) == 0, WithTarget: rng.Intn(2) == 0}
	mains := []mainKind{mainSleep, mainSleep, mainExecSleep, mainLoop, mainWait, mainWait, mainExitNow, mainExitNow, mainExitFail, mainAtDeadline, mainBusy}
	s.Main = mains[rng.Intn(len(mains))]
	if !e2e && rng.Intn(16) == 0 {
		s.Main = mainDirect
		return s
	}
	switch rng.Intn(5) {
	case 0, 1:
		s.Term = termIgnore
	case 2:
		s.Term = termHandler
	default:
		s.Term = termDefault
	}
	n := rng.Intn(4)
	if s.Main == mainWait && n == 0 {
		n = 1
	}
	for j := 0; j < n; j++ {
		if rng.Intn(7) == 0 {
			esc := []bgKind{bgEscDetached, bgEscPipe, bgEscPipeWriter}
			s.Bg = append(s.Bg, esc[rng.Intn(len(esc))])
		} else {
			s.Bg = append(s.Bg, inGroupKinds[rng.Intn(len(inGroupKinds))])
		}
	}
	if s.Main == mainExitNow || s.Main == mainExitFail {
		// the normal-exit path: unless something keeps the output pipes open (then the call lasts until
		// the timeout anyway) the timeout is far away, so that a loaded machine cannot turn the case
		// into a timeout case
		holder := false
		for _, b := range s.Bg {
			holder = holder || b.holdsPipes()
		}
		if !holder {
			s.TimeoutMS = 20000
		}
	}
	if e2e {
		s.TimeoutMS = 1000
		s.WithTarget = true
		s.Rule = []string{"genrule", "gentest"}[rng.Intn(2)]
	}
	return s
}

// render produces the bash script. d is a directory without shell metacharacters in which the
// processes leave readiness markers (evidence only, never part of a verdict).
func (s *spec) render(d string) string {
	if s.Main == mainDirect {
		return ""
	}
	var sb strings.Builder
	switch s.Term {
	case termIgnore:
		sb.WriteString("trap '' TERM\n")
	case termHandler:
		sb.WriteString("trap 'echo caught-term' TERM\n")
	}
	for k, b := range s.Bg {
		ready := fmt.Sprintf(": > %s/r.%d", d, k)
		role := fmt.Sprintf("export VERIF_ROLE=%d:%s", k, b)
		switch b {
		case bgPipe:
			fmt.Fprintf(&sb, "( %s; %s; exec sleep 300 ) &\n", role, ready)
		case bgDetached:
			fmt.Fprintf(&sb, "( %s; %s; exec sleep 300 ) >/dev/null 2>&1 </dev/null &\n", role, ready)
		case bgIgnTerm:
			fmt.Fprintf(&sb, "( %s; trap '' TERM; %s; exec sleep 300 ) &\n", role, ready)
		case bgIgnTermDet:
			fmt.Fprintf(&sb, "( %s; trap '' TERM; %s; exec sleep 300 ) >/dev/null 2>&1 </dev/null &\n", role, ready)
		case bgChain:
			fmt.Fprintf(&sb, "( %s; bash -c 'bash -c \"sleep 300 & %s; wait\" & wait' ) &\n", role, ready)
		case bgDaemon:
			fmt.Fprintf(&sb, "( %s; ( %s; exec sleep 300 ) & )\n", role, ready)
		case bgDaemonDet:
			fmt.Fprintf(&sb, "( %s; ( %s; exec sleep 300 ) >/dev/null 2>&1 </dev/null & )\n", role, ready)
		case bgFlood:
			fmt.Fprintf(&sb, "( %s; %s; head -c 1500000 /dev/zero | tr '\\0' x; exec sleep 300 ) &\n", role, ready)
		case bgTrapLoop:
			fmt.Fprintf(&sb, "( %s; trap 'echo child-caught-term' TERM; %s; while :; do sleep 300; done ) &\n", role, ready)
		case bgEscDetached:
			fmt.Fprintf(&sb, "( %s; export VERIF_ESC=1; %s; exec setsid sleep 300 ) >/dev/null 2>&1 </dev/null &\n", role, ready)
		case bgEscPipe:
			fmt.Fprintf(&sb, "( %s; export VERIF_ESC=1; %s; exec setsid sleep 300 ) &\n", role, ready)
		case bgEscPipeWriter:
			fmt.Fprintf(&sb, "( %s; export VERIF_ESC=1; %s; exec setsid bash -c 'while sleep 0.02; do echo tick; done' ) &\n", role, ready)
		}
	}
	fmt.Fprintf(&sb, ": > %s/armed\n", d)
	switch s.Main {
	case mainSleep:
		sb.WriteString("sleep 300\n")
	case mainExecSleep:
		sb.WriteString("exec sleep 300\n")
	case mainLoop:
		sb.WriteString("while :; do sleep 300; done\n")
	case mainBusy:
		sb.WriteString("while :; do :; done\n")
	case mainWait:
		sb.WriteString("wait\n")
	case mainExitNow:
		sb.WriteString("exit 0\n")
	case mainExitFail:
		sb.WriteString("exit 3\n")
	case mainAtDeadline:
		fmt.Fprintf(&sb, "sleep %d.%03d\n", s.TimeoutMS/1000, s.TimeoutMS%1000)
	}
	return sb.String()
}

// ---------------------------------------------------------------------------------------------
// process census

type proc struct {
	Pid         int    `json:"pid"`
	State       string `json:"state"`
	Pgid        int    `json:"pgid"`
	Role        string `json:"role"` // VERIF_ROLE of the process ("" = the command's own shell line)
	Escaped     bool   `json:"left_group_on_purpose"`
	KillPending bool   `json:"sigkill_pending"`
	Cmdline     string `json:"cmdline"`
}

var scans int64

// census lists the live (non-zombie) processes whose environment carries VERIF_MARK=<mark>.
func census(mark string) []proc {
	atomic.AddInt64(&scans, 1)
	want := []byte("VERIF_MARK=" + mark)
	ents, _ := os.ReadDir("/proc")
	var out []proc
	self := os.Getpid()
	for _, e := range ents {
		pid, err := strconv.Atoi(e.Name())
		if err != nil || pid == self {
			continue
		}
		env, err := os.ReadFile("/proc/" + e.Name() + "/environ")
		if err != nil || !bytes.Contains(env, want) {
			continue
		}
		p := proc{Pid: pid}
		found := false
		for _, kv := range bytes.Split(env, []byte{0}) {
			switch {
			case bytes.Equal(kv, want):
				found = true
			case bytes.HasPrefix(kv, []byte("VERIF_ROLE=")):
				p.Role = string(kv[len("VERIF_ROLE="):])
			case bytes.Equal(kv, []byte("VERIF_ESC=1")):
				p.Escaped = true
			}
		}
		if !found {
			continue
		}
		st, err := os.ReadFile("/proc/" + e.Name() + "/stat")
		if err != nil {
			continue
		}
		k := bytes.LastIndexByte(st, ')')
		if k < 0 {
			continue
		}
		f := strings.Fields(string(st[k+1:]))
		if len(f) < 3 {
			continue
		}
		p.State = f[0]
		if p.State == "Z" || p.State == "X" || p.State == "x" {
			continue
		}
		p.Pgid, _ = strconv.Atoi(f[2])
		status, err := os.ReadFile("/proc/" + e.Name() + "/status")
		if err != nil {
			continue // gone
		}
		for _, l := range strings.Split(string(status), "\n") {
			if strings.HasPrefix(l, "SigPnd:") || strings.HasPrefix(l, "ShdPnd:") {
				v, _ := strconv.ParseUint(strings.TrimSpace(l[7:]), 16, 64)
				if v&(1<<(uint(syscall.SIGKILL)-1)) != 0 {
					p.KillPending = true
				}
			}
		}
		cl, _ := os.ReadFile("/proc/" + e.Name() + "/cmdline")
		p.Cmdline = strings.TrimSpace(strings.ReplaceAll(string(cl), "\x00", " "))
		out = append(out, p)
	}
	sort.Slice(out, func(i, j int) bool { return out[i].Pid < out[j].Pid })
	return out
}

type settled struct {
	Survivors    []proc // in the action's group by construction, alive, nobody is killing them
	Escaped      []proc // left the group on purpose (setsid); reported only
	Inconclusive string
}

// settle decides which marked processes outlive the action. It is called after the call returned /
// plz exited, i.e. after the code's own kill allowance.
func settle(mark string) settled {
	confirm := 0
	var last []proc
	for iter := 0; iter < 600; iter++ {
		all := census(mark)
		var in, esc []proc
		pending := false
		for _, p := range all {
			if p.Escaped {
				esc = append(esc, p)
				continue
			}
			in = append(in, p)
			if p.KillPending {
				pending = true
			}
		}
		if len(in) == 0 {
			return settled{Escaped: esc}
		}
		if pending {
			// a SIGKILL is on its way to at least one of them: not a survivor yet, look again
			confirm = 0
			time.Sleep(50 * time.Millisecond)
			continue
		}
		confirm++
		last = in
		if confirm >= 3 {
			return settled{Survivors: last, Escaped: esc}
		}
		time.Sleep(150 * time.Millisecond)
	}
	return settled{Inconclusive: fmt.Sprintf("marked processes kept having a SIGKILL pending without dying for 600 scans: %s", lib.JSON(last))}
}

// reap kills everything that carries the marker (survivors and escapees) so that nothing outlives the case.
func reap(mark string) {
	for iter := 0; iter < 100; iter++ {
		ps := census(mark)
		if len(ps) == 0 {
			return
		}
		for _, p := range ps {
			syscall.Kill(p.Pid, syscall.SIGKILL)
		}
		time.Sleep(30 * time.Millisecond)
	}
}

func roles(ps []proc) []string {
	set := map[string]bool{}
	for _, p := range ps {
		r := p.Role
		if k := strings.IndexByte(r, ':'); k >= 0 {
			r = r[k+1:]
		}
		if r == "" {
			r = "main-line"
		}
		set[r] = true
	}
	return x.SortedKeys(set)
}

func readyCount(d string, s *spec) (inGroup, escaped int, armed bool) {
	for k, b := range s.Bg {
		if _, err := os.Stat(filepath.Join(d, fmt.Sprintf("r.%d", k))); err == nil {
			if b.escapes() {
				escaped++
			} else {
				inGroup++
			}
		}
	}
	_, err := os.Stat(filepath.Join(d, "armed"))
	return inGroup, escaped, err == nil
}

// ---------------------------------------------------------------------------------------------
// IP layer

type fakeTarget struct{ name string }

func (t *fakeTarget) String() string              { return t.name }
func (t *fakeTarget) ShouldShowProgress() bool    { return true }
func (t *fakeTarget) SetProgress(float32)         {}
func (t *fakeTarget) ProgressDescription() string { return "verifying" }
func (t *fakeTarget) ShouldExitOnError() bool     { return t.name == "//verif:exit_on_error" }

type callResult struct {
	outLen, errLen int
	err            error
	elapsed        time.Duration
}

// goid returns the calling goroutine's id (first line of its own traceback).
func goid() string {
	buf := make([]byte, 64)
	buf = buf[:runtime.Stack(buf, false)]
	f := strings.Fields(string(buf))
	if len(f) >= 2 && f[0] == "goroutine" {
		return f[1]
	}
	return ""
}

// blockedInExec finds the given goroutine in a full traceback and reports whether the runtime shows it
// inside ExecWithTimeout in a waiting state. This, not the elapsed time, is what makes a late call a
// "blocked" call.
func blockedInExec(id string) (bool, string) {
	if id == "" {
		return false, ""
	}
	buf := make([]byte, 1<<23)
	buf = buf[:runtime.Stack(buf, true)]
	for _, g := range strings.Split(string(buf), "\n\n") {
		head, _, _ := strings.Cut(g, "\n")
		if !strings.HasPrefix(head, "goroutine "+id+" [") || !strings.Contains(g, "process.(*Executor).ExecWithTimeout") {
			continue
		}
		for _, st := range []string{"chan receive", "chan send", "select", "semacquire", "IO wait", "sync.", "sleep"} {
			if strings.Contains(head, st) {
				if len(g) > 3000 {
					g = g[:3000] // the innermost frames come first
				}
				return true, g
			}
		}
	}
	return false, ""
}

// noReturns counts watchdog firings in this process; after a few, the remaining cases of the layer are
// skipped (the run is already a refutation) so that a hanging build of Please cannot exhaust the budget.
var noReturns int64

const maxNoReturns = 3

var e2eNoReturns int64

// firstWriterCase: lowest ip case index whose setsid child was writing to the output pipes (-1 = none).
var firstWriterCase int64 = -1

type ipOutcome struct {
	res       callResult
	returned  bool
	blocked   string // goroutine dump excerpt when the watchdog found the call blocked
	watchdog  bool
	set       settled
	ready     int
	readyEsc  int
	armed     bool
	phase     string
	markerEnv string
}

func runIP(exec *process.Executor, s *spec, dir, mark string) ipOutcome {
	os.MkdirAll(dir, 0o755)
	defer reap(mark)
	env := []string{"PATH=/usr/local/bin:/usr/bin:/bin", "VERIF_MARK=" + mark, "LANG=C"}
	timeout := time.Duration(s.TimeoutMS) * time.Millisecond
	script := s.render(dir)
	done := make(chan callResult, 1)
	gid := make(chan string, 1)
	go func() {
		gid <- goid()
		start := time.Now()
		var out, outerr []byte
		var err error
		switch {
		case s.Main == mainDirect:
			out, outerr, err = exec.ExecWithTimeout(context.Background(), nil, dir, env, timeout, false, false, false, false, process.NoSandbox, []string{"sleep", "300"})
		case s.WithTarget:
			name := "//verif:plain"
			if s.ExitOnErr {
				name = "//verif:exit_on_error"
			}
			out, outerr, err = exec.ExecWithTimeoutShell(&fakeTarget{name}, dir, env, timeout, false, false, process.NoSandbox, script)
		default:
			out, outerr, err = exec.ExecWithTimeout(context.Background(), nil, dir, env, timeout, false, false, false, false, process.NoSandbox, process.BashCommand("bash", script, s.ExitOnErr))
		}
		// only the lengths: the contents may still be written by a copier goroutine if Please returned early
		done <- callResult{outLen: len(out), errLen: len(outerr), err: err, elapsed: time.Since(start)}
	}()
	o := ipOutcome{markerEnv: "VERIF_MARK=" + mark}
	select {
	case o.res = <-done:
		o.returned = true
	case <-time.After(timeout + killAllowance + watchdogSlack):
		o.watchdog = true
		atomic.AddInt64(&noReturns, 1)
		if b, dump := blockedInExec(<-gid); b {
			o.blocked = dump
		}
		// release whatever it waits for and give it another generous chance to come back
		reap(mark)
		select {
		case o.res = <-done:
			o.returned = true
		case <-time.After(watchdogSlack / 2):
		}
	}
	o.phase = "after-normal-exit"
	if errors.Is(o.res.err, context.DeadlineExceeded) {
		o.phase = "after-timeout"
	}
	if o.returned && !o.watchdog {
		o.set = settle(mark)
	}
	o.ready, o.readyEsc, o.armed = readyCount(dir, s)
	return o
}

// ---------------------------------------------------------------------------------------------
// E2E layer

type e2eOutcome struct {
	res      lib.PlzResult
	set      settled
	ready    int
	readyEsc int
	armed    bool
	build    string
}

// phase: did plz report the action as timed out?
func (o e2eOutcome) phase() string {
	all := o.res.Stdout + o.res.Stderr
	if strings.Contains(all, "deadline exceeded") || strings.Contains(strings.ToLower(all), "timed out") {
		return "after-timeout"
	}
	return "after-normal-exit"
}

func runE2E(bin string, s *spec, work, mark string) e2eOutcome {
	repo, d, home := filepath.Join(work, "repo"), filepath.Join(work, "vlog"), filepath.Join(work, "home")
	for _, p := range []string{repo, d, home} {
		os.MkdirAll(p, 0o755)
	}
	defer reap(mark)
	script := s.render(d)
	var rule *x.Rule
	verb := "build"
	if s.Rule == "gentest" {
		verb = "test"
		rule = x.NewRule("gentest", "t").Str("test_cmd", script).Add("no_test_output", "True")
	} else {
		rule = x.NewRule("genrule", "t").List("outs", []string{"o.txt"}).Str("cmd", "echo x > \"$OUT\"\n"+script)
	}
	rule.Add("timeout", "1").Add("env", x.PyDict(map[string]string{"VERIF_MARK": mark}))
	rule.Add("exit_on_error", map[bool]string{true: "True", false: "False"}[s.ExitOnErr])
	build := rule.Render()
	if err := lib.WriteTree(repo, map[string]string{".plzconfig": x.BaseConfig("", ""), "p/BUILD": build}); err != nil {
		panic(err)
	}
	res := lib.PlzCmd{Bin: bin, Dir: repo, Args: []string{verb, "//p:t"}, Home: home, Timeout: e2eLimit, OnTimeout: lib.QuiescenceReport}.Run()
	o := e2eOutcome{res: res, build: build}
	if !res.TimedOut {
		o.set = settle(mark)
	}
	o.ready, o.readyEsc, o.armed = readyCount(d, s)
	return o
}

// ---------------------------------------------------------------------------------------------

type overshoot struct {
	mu     sync.Mutex
	maxMS  int64
	bucket map[string]int
}

func (o *overshoot) add(d time.Duration) {
	ms := d.Milliseconds()
	b := "<=100ms"
	switch {
	case ms > 5000:
		b = ">5s"
	case ms > 1030:
		b = "1.03-5s"
	case ms > 100:
		b = "100ms-1.03s"
	}
	o.mu.Lock()
	if ms > o.maxMS {
		o.maxMS = ms
	}
	o.bucket[b]++
	o.mu.Unlock()
}

func errClass(err error) string {
	switch {
	case err == nil:
		return "nil"
	case errors.Is(err, context.DeadlineExceeded):
		return "deadline-exceeded"
	case strings.HasPrefix(err.Error(), "exit status"):
		return "exit-status"
	case strings.HasPrefix(err.Error(), "signal:"):
		return "signal"
	}
	return "other"
}

func TestC30(t *testing.T) {
	iplib.Quiet()
	cli.InitLogging(0) // Please logs "Failed to kill inferior process" at error level when a setsid child keeps the pipes; expected here
	r := lib.Start("C30")
	defer lib.End(t, r)
	r.Rule = "case = one generated bash command (main line: sleeps / execs / loops / busy / waits / ends at once / ends at the deadline, SIGTERM default, ignored or handled; 0-3 background items: children holding or detaching from the output pipes, TERM-ignoring, fork chains, double-forked orphans, output floods, TERM-handling loops, setsid escapees) run once with a 150-900 ms timeout through a shared process.Executor (stream ip) or as a genrule/gentest with timeout=1 through plz (stream e2e); distinct by script+timeout+entry point; non-trivial = the command starts at least one background process or its main line does not die from SIGTERM"
	r.Assumes = []string{
		"every process of an action inherits the VERIF_MARK variable of the action's environment (no generated command clears its environment)",
		"a live, non-zombie process seen in three consecutive /proc scans without a pending SIGKILL after the call returned is not going to be killed by Please",
		"children started through setsid left the process group on purpose; they are counted, not asserted",
	}
	scratch := r.Scratch()
	runTag := filepath.Base(scratch) + "." + strconv.Itoa(os.Getpid())
	exec := process.New()
	ov := &overshoot{bucket: map[string]int{}}

	checkSurvivors := func(layer string, s *spec, phase string, set settled, i int, wit map[string]any, rerun func(*spec) (settled, string)) {
		if set.Inconclusive != "" {
			r.Inconclusive(fmt.Sprintf("%s case %d: %s", layer, i, set.Inconclusive))
			return
		}
		if len(set.Escaped) > 0 {
			r.Obs("escapees_alive_after_return_not_asserted", int64(len(set.Escaped)))
		}
		if len(set.Survivors) == 0 {
			return
		}
		// minimise while survivors remain in the same phase: a single background item, default SIGTERM
		// handling, the simplest main line, the plainest entry point
		min := s
		minSurv := set.Survivors
		if !r.Replaying() {
			try := func(c spec) bool {
				if lib.JSON(c) == lib.JSON(*min) {
					return false
				}
				if got, ph := rerun(&c); ph == phase && len(got.Survivors) > 0 {
					min, minSurv = &c, got.Survivors
					return true
				}
				return false
			}
			if len(s.Bg) > 1 {
				for _, b := range s.Bg {
					c := *min
					c.Bg = []bgKind{b}
					if !b.escapes() && try(c) {
						break
					}
				}
			}
			c := *min
			c.Term = termDefault
			try(c)
			c = *min
			c.Main = map[string]mainKind{"after-normal-exit": mainExitNow, "after-timeout": mainSleep}[phase]
			if c.Main == mainExitNow && layer == "ip" {
				c.TimeoutMS = 20000
			}
			try(c)
			c = *min
			c.ExitOnErr, c.WithTarget = false, layer != "ip"
			try(c)
		}
		wit["minimal_spec"] = min
		wit["minimal_survivors"] = minSurv
		wit["survivors"] = set.Survivors
		key := "survivor/" + phase
		what := fmt.Sprintf("%s: %d process(es) started by the action are alive, un-signalled and still in its process group after it was reported finished (%s): roles %v", layer, len(minSurv), phase, roles(minSurv))
		if phase == "after-timeout" {
			// which kind of process escapes the kill names the defect (plain child: group not signalled; TERM-ignoring: no SIGKILL...)
			key += "/" + strings.Join(roles(minSurv), "+")
		}
		r.Violation(key, what, wit, i)
	}

	// ---- IP
	nIP := r.Pick(96, 1800)
	r.ForEach("ip", nIP, 8, func(i int, rng *rand.Rand) {
		s := genSpec(rng, false)
		if atomic.LoadInt64(&noReturns) >= maxNoReturns {
			r.Obs("cases_skipped_after_repeated_no_return", 1)
			return
		}
		dir := filepath.Join(scratch, fmt.Sprintf("ip%d", i))
		mark := fmt.Sprintf("%s.ip%d", runTag, i)
		script := s.render(dir)
		o := runIP(exec, s, dir, mark)
		defer lib.RemoveAll(dir)
		r.Case(lib.Hash("ip", lib.JSON(s), s.render("D")), s.nontrivial())
		r.Obs("ip_calls", 1)
		r.ObsDistinct("main_kinds", string(s.Main)+"/"+string(s.Term))
		for _, b := range s.Bg {
			r.ObsDistinct("background_kinds", string(b))
		}
		wit := map[string]any{"layer": "ip", "spec": s, "script": script, "marker": o.markerEnv, "error": fmt.Sprint(o.res.err), "elapsed_ms": o.res.elapsed.Milliseconds()}
		if o.watchdog {
			if o.blocked != "" {
				wit["goroutine"] = o.blocked
				site := "unknown"
				if m := regexp.MustCompile(`please/src/(process\.[A-Za-z0-9_.()*]+)\(`).FindStringSubmatch(o.blocked); m != nil {
					site = m[1] // innermost src/process frame of the blocked goroutine
				}
				r.Violation("no-return/blocked-in-"+site, fmt.Sprintf("ExecWithTimeout had not returned %s after timeout+kill allowance and its goroutine is blocked", watchdogSlack), wit, i)
			} else {
				r.Inconclusive(fmt.Sprintf("ip case %d: watchdog fired but the call is not visibly blocked", i))
			}
			return
		}
		r.ObsDistinct("returned_errors", errClass(o.res.err))
		if o.phase == "after-timeout" {
			r.Obs("ip_deadline_errors", 1)
			ov.add(o.res.elapsed - time.Duration(s.TimeoutMS)*time.Millisecond)
		}
		if o.armed || s.Main == mainDirect {
			r.Obs("ip_cases_armed_before_kill", 1)
		}
		if s.neverEnds() && !errors.Is(o.res.err, context.DeadlineExceeded) {
			r.Violation("wrong-error/"+errClass(o.res.err)+"/"+string(s.Main), fmt.Sprintf("the command cannot end by itself, the timeout was %d ms, but ExecWithTimeout returned %v instead of context.DeadlineExceeded", s.TimeoutMS, o.res.err), wit, i)
		}
		checkSurvivors("ip", s, o.phase, o.set, i, wit, func(c *spec) (settled, string) {
			d2 := dir + ".min"
			defer lib.RemoveAll(d2)
			m := runIP(exec, c, d2, mark+".min")
			return m.set, m.phase
		})
		if len(o.set.Survivors) == 0 && o.set.Inconclusive == "" {
			r.Obs("started_processes_verified_gone", int64(o.ready)+1)
		}
		for _, b := range s.Bg {
			if b == bgEscPipeWriter && o.readyEsc > 0 {
				for {
					cur := atomic.LoadInt64(&firstWriterCase)
					if (cur >= 0 && cur <= int64(i)) || atomic.CompareAndSwapInt64(&firstWriterCase, cur, int64(i)) {
						break
					}
				}
			}
		}
		if r.WantSample() && len(s.Bg) >= 2 {
			r.Sample(map[string]any{"spec": s, "script": script, "returned": fmt.Sprint(o.res.err), "elapsed_ms": o.res.elapsed.Milliseconds(), "background_started": o.ready, "escapees_seen": len(o.set.Escaped)})
		}
	})

	// Race reports of this process can only come from the in-process layer; they are collected while "ip" is
	// still the current stream, and attributed to the first case whose setsid child kept writing to the
	// output pipes after the call returned (the situation in which ExecWithTimeout hands out buffers that
	// os/exec's copier goroutine is still filling), so that --replay re-runs a case that shows it.
	collectRaces(r, int(atomic.LoadInt64(&firstWriterCase)))

	// ---- E2E
	if bin := os.Getenv("VERIF_PLZ"); bin != "" {
		nE := r.Pick(24, 400)
		r.ForEach("e2e", nE, 6, func(i int, rng *rand.Rand) {
			s := genSpec(rng, true)
			if atomic.LoadInt64(&e2eNoReturns) >= maxNoReturns {
				r.Obs("cases_skipped_after_repeated_no_return", 1)
				return
			}
			work := filepath.Join(scratch, fmt.Sprintf("e2e%d", i))
			mark := fmt.Sprintf("%s.e2e%d", runTag, i)
			o := runE2E(bin, s, work, mark)
			defer lib.RemoveAll(work)
			r.Case(lib.Hash("e2e", lib.JSON(s), s.render("D")), s.nontrivial())
			r.Obs("e2e_invocations", 1)
			r.ObsDistinct("e2e_rules", s.Rule)
			wit := map[string]any{"layer": "e2e", "spec": s, "BUILD": o.build, "exit": o.res.Exit, "stdout": lib.Tail(o.res.Stdout, 1200), "stderr": lib.Tail(o.res.Stderr, 1200), "marker": "VERIF_MARK=" + mark}
			if o.res.TimedOut {
				atomic.AddInt64(&e2eNoReturns, 1)
				if strings.HasPrefix(o.res.Watchdog, "hang") {
					wit["watchdog"] = o.res.Watchdog
					r.Violation("e2e/no-return", "plz did not return "+e2eLimit.String()+" after starting an action with timeout = 1 and is quiescent: "+o.res.Watchdog, wit, i)
				} else {
					r.Inconclusive(fmt.Sprintf("e2e case %d: plz watchdog fired: %s", i, o.res.Watchdog))
				}
				return
			}
			phase := o.phase()
			if phase == "after-timeout" {
				r.Obs("e2e_timeouts_reported", 1)
			}
			if s.neverEnds() && o.res.Exit == 0 {
				r.Violation("e2e/reported-success-after-timeout/"+s.Rule, fmt.Sprintf("a %s whose command cannot end by itself, with timeout = 1, was reported as succeeded (plz exit 0)", s.Rule), wit, i)
			}
			checkSurvivors("e2e", s, phase, o.set, i, wit, func(c *spec) (settled, string) {
				w2 := work + ".min"
				defer lib.RemoveAll(w2)
				m := runE2E(bin, c, w2, mark+".min")
				return m.set, m.phase()
			})
			if len(o.set.Survivors) == 0 && o.set.Inconclusive == "" {
				r.Obs("started_processes_verified_gone", int64(o.ready)+1)
			}
		})
		r.RequireObserved("e2e_invocations", "e2e_timeouts_reported")
	} else {
		r.FatalInconclusive("VERIF_PLZ is not set: the E2E layer did not run")
	}

	r.Obs("proc_scans", atomic.LoadInt64(&scans))
	r.Extra("return_delay_after_deadline_ms", map[string]any{"max": ov.maxMS, "histogram": ov.bucket, "note": "observation only; the code's own allowance is 1030 ms"})
	r.RequireObserved("ip_calls", "ip_deadline_errors", "started_processes_verified_gone", "proc_scans")
	if !r.Replaying() {
		// positive control of the census itself: setsid escapees must have been seen alive
		r.RequireObserved("escapees_alive_after_return_not_asserted")
	}
}

var raceFn = regexp.MustCompile(`(?m)^  (\S+)\(\)$`)

// collectRaces turns race reports with a frame in src/process into violations. The key names, per
// access, the innermost src/process function on the stack (or the os/exec output copier Please started),
// so that one defect keeps one key whatever bytes.Buffer internals happen to touch the memory.
func collectRaces(r *lib.Run, caseIndex int) {
	prefix := lib.OwnRaceLogPrefix()
	if prefix == "" {
		return
	}
	for _, rep := range lib.ParseRaceLogs(prefix, []string{"please/src/process."}) {
		if !rep.Anchor {
			r.Obs("race_reports_elsewhere", 1)
			continue
		}
		r.Obs("race_reports_in_src_process", 1)
		var sides []string
		for _, part := range strings.Split(rep.Text, "\n\n") {
			access := false
			for _, l := range strings.Split(part, "\n") {
				l = strings.TrimSpace(l)
				if (strings.HasPrefix(l, "Read at ") || strings.HasPrefix(l, "Write at ") || strings.HasPrefix(l, "Previous ") || strings.HasPrefix(l, "Atomic ")) && strings.Contains(l, " by ") {
					access = true
				}
			}
			if !access {
				continue
			}
			side := ""
			if strings.Contains(part, "os/exec.(*Cmd).writerDescriptor") {
				// the goroutine os/exec starts to copy the child's output into the writers ExecWithTimeout gave it
				// (whether or not a progressWriter sits in between)
				side = "os/exec-output-copier"
			} else {
				// ExecWithTimeout if it is anywhere on the stack (safeBuffer.Bytes called from it is ExecWithTimeout
				// handing out its buffers), else the innermost src/process function
				for _, m := range raceFn.FindAllStringSubmatch(part, -1) {
					if k := strings.Index(m[1], "please/src/process."); k >= 0 && side == "" {
						side = m[1][k+len("please/src/"):]
					}
					if strings.HasSuffix(m[1], "please/src/process.(*Executor).ExecWithTimeout") {
						side = "process.(*Executor).ExecWithTimeout" // whichever wrapper called it, whichever buffer it touches
						break
					}
				}
			}
			if side == "" {
				side = "other"
			}
			sides = append(sides, side)
		}
		sort.Strings(sides)
		txt := rep.Text
		if len(txt) > 6000 {
			txt = txt[:6000]
		}
		r.Violation("race:"+strings.Join(sides, "|"), "data race reported by the Go race detector with a frame in src/process: "+strings.Join(sides, " vs "), map[string]any{"report": txt, "note": "case_index is the first in-process case whose setsid child kept writing to the action's output pipes"}, caseIndex)
	}
}

// C27 — coverage aggregation does not depend on test completion order.
// Monitor: the real core.MergeCoverageLines / (*core.TestCoverage).Aggregate / (*core.BuildState).LogTestResult
// against a pointwise-max lattice reference:
//   - exhaustive pairs of vectors over the four line states (length <= 4 quick / <= 5 thorough):
//     result == reference, commutative, idempotent, inputs (including their spare capacity) untouched;
//   - exhaustive triples (length <= 3): associativity in every bracketing and order;
//   - seeded random multisets of coverage objects (several files, several test labels, unequal lengths,
//     shared backing arrays, duplicated runs) aggregated in many orders, sequentially through Aggregate
//     and concurrently through LogTestResult (which takes the state's lock) under the race detector.
package c27

import (
	"fmt"
	"math/rand"
	"sort"
	"strings"
	"sync"
	"testing"

	"github.com/thought-machine/please/src/core"

	"verifharness/iplib"
	"verifharness/lib"
)

type vec = []core.LineCoverage

const sentinel = core.LineCoverage(0xEE) // written into spare capacity; must never be touched nor leak into a result

var letters = [...]byte{'N', 'X', 'U', 'C'}

func str(v vec) string {
	b := make([]byte, len(v))
	for i, x := range v {
		if int(x) < len(letters) {
			b[i] = letters[x]
		} else {
			b[i] = '?'
		}
	}
	return string(b)
}

func parse(s string) vec {
	v := make(vec, len(s))
	for i := 0; i < len(s); i++ {
		v[i] = core.LineCoverage(strings.IndexByte("NXUC", s[i]))
	}
	return v
}

// refMerge is the reference: pointwise maximum in the order N < X < U < C, the shorter vector is
// treated as absent (not as N) beyond its end, so the result has the longer length.
func refMerge(vs ...vec) vec {
	n := 0
	for _, v := range vs {
		if len(v) > n {
			n = len(v)
		}
	}
	out := make(vec, n)
	for i := range out {
		first := true
		for _, v := range vs {
			if i < len(v) && (first || v[i] > out[i]) {
				out[i] = v[i]
				first = false
			}
		}
	}
	return out
}

func eq(a, b vec) bool {
	if len(a) != len(b) {
		return false
	}
	for i := range a {
		if a[i] != b[i] {
			return false
		}
	}
	return true
}

// guarded returns a copy of v with `spare` extra capacity filled with the sentinel, so that a merge that
// appends into or writes through an input is visible.
func guarded(v vec, spare int) vec {
	buf := make(vec, len(v)+spare)
	copy(buf, v)
	for i := len(v); i < len(buf); i++ {
		buf[i] = sentinel
	}
	return buf[:len(v):len(buf)]
}

// intact reports whether a guarded slice still holds want in its length and sentinels in its spare capacity.
func intact(g vec, want vec) bool {
	if !eq(g, want) {
		return false
	}
	full := g[:cap(g)]
	for i := len(g); i < len(full); i++ {
		if full[i] != sentinel {
			return false
		}
	}
	return true
}

// allVectors enumerates every vector over the four states with length 0..maxLen.
func allVectors(maxLen int) []vec {
	out := []vec{{}}
	prev := []vec{{}}
	for l := 1; l <= maxLen; l++ {
		var cur []vec
		for _, p := range prev {
			for s := core.NotExecutable; s <= core.Covered; s++ {
				v := make(vec, l)
				copy(v, p)
				v[l-1] = s
				cur = append(cur, v)
			}
		}
		out = append(out, cur...)
		prev = cur
	}
	return out
}

// diffClass names how a wrong result differs from the reference, for the witness key.
func diffClass(got, want vec, a, b vec) string {
	if len(got) != len(want) {
		if len(got) < len(want) {
			return "length-short"
		}
		return "length-long"
	}
	for i := range got {
		if got[i] != want[i] {
			where := "overlap"
			if i >= len(a) || i >= len(b) {
				where = "extension"
			}
			if got[i] == sentinel {
				return where + "/spare-capacity-leak"
			}
			if got[i] < want[i] {
				return where + "/worse-than-best"
			}
			return where + "/better-than-any"
		}
	}
	return "same"
}

func lenClass(a, b vec) string {
	switch {
	case len(a) == len(b):
		return "equal-length"
	case len(a) == 0 || len(b) == 0:
		return "one-empty"
	case len(a) < len(b):
		return "existing-shorter"
	}
	return "existing-longer"
}

// checkPair checks one ordered pair (existing=a, coverage=b) and its mirror.
func checkPair(r *lib.Run, idx int, a, b vec) {
	ga, gb := guarded(a, 3), guarded(b, 3)
	want := refMerge(a, b)
	ab := core.MergeCoverageLines(ga, gb)
	w := func() map[string]any {
		return map[string]any{"existing": str(a), "coverage": str(b), "got": str(ab), "want": str(want)}
	}
	if !eq(ab, want) {
		r.Violation("merge/"+lenClass(a, b)+"/"+diffClass(ab, want, a, b),
			fmt.Sprintf("MergeCoverageLines(%q,%q) = %q, best state per line is %q", str(a), str(b), str(ab), str(want)), w(), idx)
	}
	if !intact(ga, a) {
		r.Violation("input-mutated/existing/"+lenClass(a, b), fmt.Sprintf("MergeCoverageLines(%q,%q) changed its first argument (or its spare capacity) to %q", str(a), str(b), str(ga[:cap(ga)])), w(), idx)
	}
	if !intact(gb, b) {
		r.Violation("input-mutated/coverage/"+lenClass(a, b), fmt.Sprintf("MergeCoverageLines(%q,%q) changed its second argument (or its spare capacity) to %q", str(a), str(b), str(gb[:cap(gb)])), w(), idx)
	}
	// The result must be independent storage: a later merge writes into it (Aggregate stores it in Files).
	if len(ab) > 0 {
		save := ab[0]
		ab[0] = sentinel
		if (len(ga) > 0 && ga[0] == sentinel) || (len(gb) > 0 && gb[0] == sentinel) {
			r.Violation("result-aliases-input/"+lenClass(a, b), fmt.Sprintf("result of MergeCoverageLines(%q,%q) shares storage with an argument", str(a), str(b)), w(), idx)
			copy(ga, a)
			copy(gb, b)
		}
		ab[0] = save
	}
	ba := core.MergeCoverageLines(gb, ga)
	if !eq(ab, ba) {
		r.Violation("not-commutative/"+lenClass(a, b), fmt.Sprintf("merge(%q,%q)=%q but merge(%q,%q)=%q", str(a), str(b), str(ab), str(b), str(a), str(ba)), w(), idx)
	}
	// Merging a run that is already included changes nothing.
	if again := core.MergeCoverageLines(ab, gb); !eq(again, ab) {
		r.Violation("not-idempotent/remerge/"+lenClass(a, b), fmt.Sprintf("merge(merge(%q,%q),%q)=%q differs from merge(%q,%q)=%q", str(a), str(b), str(b), str(again), str(a), str(b), str(ab)), w(), idx)
	}
}

type fileCov struct {
	File  string `json:"file"`
	Lines string `json:"lines"`
}

type runCov struct {
	Label string    `json:"label"`
	Files []fileCov `json:"files"`
}

type multiCase struct {
	Runs   []runCov `json:"runs"`
	Orders [][]int  `json:"orders,omitempty"`
}

var filePool = []string{"src/a.go", "src/ab.go", "src/a/b.go", "lib/x.py", "lib/x.pyc", "/abs/gen/y.c", "z"}

// genVec makes a vector with adversarial structure: lengths that differ by one, long runs, all-one-state tails.
func genVec(rng *rand.Rand, base int) vec {
	n := base
	switch rng.Intn(6) {
	case 0:
		n = base + 1
	case 1:
		if base > 0 {
			n = base - 1
		}
	case 2:
		n = rng.Intn(201)
	case 3:
		n = 0
	}
	v := make(vec, n)
	mode := rng.Intn(4)
	for i := range v {
		switch mode {
		case 0:
			v[i] = core.LineCoverage(rng.Intn(4))
		case 1: // mostly uncovered, a few covered
			v[i] = core.Uncovered
			if rng.Intn(5) == 0 {
				v[i] = core.Covered
			} else if rng.Intn(4) == 0 {
				v[i] = core.NotExecutable
			}
		case 2: // runs
			if i > 0 && rng.Intn(4) != 0 {
				v[i] = v[i-1]
			} else {
				v[i] = core.LineCoverage(rng.Intn(4))
			}
		default: // a single state
			v[i] = core.LineCoverage(mode % 4)
			if i == n-1 {
				v[i] = core.LineCoverage(rng.Intn(4))
			}
		}
	}
	return v
}

func genMulti(rng *rand.Rand) multiCase {
	var c multiCase
	nruns := 2 + rng.Intn(7)
	retries := rng.Intn(3) == 0 // some runs are further attempts of the same test label
	nfiles := 1 + rng.Intn(len(filePool))
	files := make([]string, len(filePool))
	copy(files, filePool)
	rng.Shuffle(len(files), func(i, j int) { files[i], files[j] = files[j], files[i] })
	files = files[:nfiles]
	base := map[string]int{}
	for _, f := range files {
		base[f] = rng.Intn(40)
		if rng.Intn(4) == 0 {
			base[f] = rng.Intn(200)
		}
	}
	for i := 0; i < nruns; i++ {
		rc := runCov{Label: fmt.Sprintf("//pkg%d:test_%d", i%3, i)}
		if retries && i > 0 && rng.Intn(2) == 0 {
			// another attempt of an earlier test (flaky retry / --num_runs): same label, its own coverage
			rc.Label = c.Runs[rng.Intn(i)].Label
		}
		for _, f := range files {
			if rng.Intn(4) == 0 && nfiles > 1 {
				continue // this run does not touch the file
			}
			rc.Files = append(rc.Files, fileCov{File: f, Lines: str(genVec(rng, base[f]))})
		}
		c.Runs = append(c.Runs, rc)
	}
	return c
}

// materialise builds fresh core.TestCoverage objects for a case. All vectors of one run share one backing
// array with sentinel gaps, so a merge that writes outside its inputs' lengths corrupts a neighbour.
func materialise(c multiCase) ([]*core.TestCoverage, [][]vec) {
	covs := make([]*core.TestCoverage, len(c.Runs))
	guards := make([][]vec, len(c.Runs))
	for i, rc := range c.Runs {
		cov := &core.TestCoverage{Tests: map[core.BuildLabel]map[string][]core.LineCoverage{}, Files: map[string][]core.LineCoverage{}}
		per := map[string][]core.LineCoverage{}
		for _, fc := range rc.Files {
			g := guarded(parse(fc.Lines), 2)
			cov.Files[fc.File] = g
			per[fc.File] = g
			guards[i] = append(guards[i], g)
		}
		cov.Tests[core.ParseBuildLabel(rc.Label, "")] = per
		covs[i] = cov
	}
	return covs, guards
}

func refFiles(c multiCase) map[string]vec {
	by := map[string][]vec{}
	for _, rc := range c.Runs {
		for _, fc := range rc.Files {
			by[fc.File] = append(by[fc.File], parse(fc.Lines))
		}
	}
	out := map[string]vec{}
	for f, vs := range by {
		out[f] = refMerge(vs...)
	}
	return out
}

func filesString(m map[string][]core.LineCoverage) string {
	keys := make([]string, 0, len(m))
	for k := range m {
		keys = append(keys, k)
	}
	sort.Strings(keys)
	var sb strings.Builder
	for _, k := range keys {
		fmt.Fprintf(&sb, "%s=%s;", k, str(m[k]))
	}
	return sb.String()
}

// compareAgg compares an aggregated TestCoverage with the reference; how names the aggregation path.
func compareAgg(r *lib.Run, idx int, how string, c multiCase, order []int, got *core.TestCoverage, want map[string]vec) bool {
	ok := true
	wit := func() map[string]any {
		return map[string]any{"case": c, "order": order, "got_files": filesString(got.Files), "want_files": filesString(want)}
	}
	if len(got.Files) != len(want) {
		r.Violation(how+"/file-set", fmt.Sprintf("aggregate of %d runs in order %v has %d files, reference has %d", len(c.Runs), order, len(got.Files), len(want)), wit(), idx)
		ok = false
	}
	for f, w := range want {
		g, present := got.Files[f]
		if !present {
			r.Violation(how+"/file-missing", fmt.Sprintf("file %s missing from aggregate in order %v", f, order), wit(), idx)
			ok = false
			continue
		}
		if !eq(g, w) {
			r.Violation(how+"/"+diffClass(g, w, w, w), fmt.Sprintf("file %s aggregated in order %v gives %q, best state per line is %q", f, order, str(g), str(w)), wit(), idx)
			ok = false
		}
	}
	// Per-test coverage: one entry per distinct label. When several runs share a label (retries) the per-test
	// entry is whichever attempt was merged last - the code documents no more - so only its presence is checked;
	// the per-file aggregate above must still be the best state over ALL attempts whatever the order.
	labels := map[string]int{}
	for _, rc := range c.Runs {
		labels[rc.Label]++
	}
	if len(got.Tests) != len(labels) {
		r.Violation(how+"/tests-map-size", fmt.Sprintf("aggregate in order %v records %d tests, %d distinct labels were merged", order, len(got.Tests), len(labels)), wit(), idx)
		ok = false
	}
	for _, rc := range c.Runs {
		per, present := got.Tests[core.ParseBuildLabel(rc.Label, "")]
		if present && labels[rc.Label] > 1 {
			r.Obs("runs_sharing_a_label_checked", 1)
			continue
		}
		if !present {
			r.Violation(how+"/tests-map-missing", fmt.Sprintf("test %s missing from aggregate in order %v", rc.Label, order), wit(), idx)
			ok = false
			continue
		}
		for _, fc := range rc.Files {
			if str(per[fc.File]) != fc.Lines {
				r.Violation(how+"/tests-map-content", fmt.Sprintf("per-test coverage of %s for %s is %q after aggregation in order %v, the run reported %q", rc.Label, fc.File, str(per[fc.File]), order, fc.Lines), wit(), idx)
				ok = false
			}
		}
	}
	return ok
}

func checkInputs(r *lib.Run, idx int, how string, c multiCase, order []int, guards [][]vec) {
	for i, rc := range c.Runs {
		for j, fc := range rc.Files {
			if !intact(guards[i][j], parse(fc.Lines)) {
				g := guards[i][j]
				r.Violation(how+"/input-mutated", fmt.Sprintf("aggregation in order %v changed the coverage object of run %s file %s from %q to %q (with spare capacity)", order, rc.Label, fc.File, fc.Lines, str(g[:cap(g)])),
					map[string]any{"case": c, "order": order}, idx)
				return
			}
		}
	}
}

func genOrder(rng *rand.Rand, n int, dup bool) []int {
	o := rng.Perm(n)
	if dup {
		// some runs are merged again (the same run merged twice changes nothing)
		k := 1 + rng.Intn(n)
		for j := 0; j < k; j++ {
			pos := rng.Intn(len(o) + 1)
			o = append(o[:pos], append([]int{rng.Intn(n)}, o[pos:]...)...)
		}
	}
	return o
}

func TestC27(t *testing.T) {
	iplib.Quiet()
	r := lib.Start("C27")
	defer lib.End(t, r)
	r.Rule = "exhaustive: every ordered pair of vectors over {N,X,U,C} with length<=4 (quick) / <=5 (thorough) and every triple with length<=3, inputs carrying sentinel-filled spare capacity; then seeded random multisets of 2-8 runs x 1-7 files (lengths differing by one, up to 200, absent files, distinct test labels) aggregated in 20 orders (half with repeated runs) through Aggregate into nil-map/initialised/state-owned accumulators, and concurrently through BuildState.LogTestResult. Distinct by the materialised vectors (+ order); non-trivial = at least two inputs that differ in some line or in length"
	r.Assumes = []string{
		"the best state is the maximum in the declared enum order NotExecutable < Unreachable < Uncovered < Covered; a line beyond a run's vector is absent, not NotExecutable",
		"only the four declared states occur; test labels of distinct runs are distinct (the code's stated assumption), so the per-test map is the union",
		"race reports are taken from the Go race detector in this process (frames in core/test_results.go or state.go)",
	}

	// ---- exhaustive pairs -------------------------------------------------------------------------
	if !r.Replaying() {
		maxLen := r.Pick(4, 5)
		vs := allVectors(maxLen)
		var wg sync.WaitGroup
		workers := 8
		for w := 0; w < workers; w++ {
			wg.Add(1)
			go func(w int) {
				defer wg.Done()
				for i := w; i < len(vs); i += workers {
					a := vs[i]
					r.Guard(i, func() {
						for _, b := range vs {
							checkPair(r, i, a, b)
						}
					})
					// counting per pair through r.Case would hash 2e6 strings under one lock; count in bulk, hash the row
					for j, b := range vs {
						if j%97 == i%97 { // a thin deterministic slice of pairs is hashed individually for the distinct count
							r.Case("pair|"+str(a)+"|"+str(b), !eq(a, b))
						}
					}
					r.Obs("pairs_checked", int64(len(vs)))
				}
			}(w)
		}
		wg.Wait()
		// idempotence on every vector
		for i, a := range vs {
			ga := guarded(a, 2)
			if m := core.MergeCoverageLines(ga, ga); !eq(m, a) || !intact(ga, a) {
				r.Violation("not-idempotent/self", fmt.Sprintf("merge(a,a) with a=%q gives %q", str(a), str(m)), map[string]any{"a": str(a), "got": str(m)}, i)
			}
			r.Obs("self_merges_checked", 1)
		}
		r.Extra("exhaustive_scope_pairs", fmt.Sprintf("all %d x %d ordered pairs of vectors over 4 states, length 0..%d", len(vs), len(vs), maxLen))

		// ---- exhaustive triples: associativity and order independence ------------------------------
		ts := allVectors(3)
		for w := 0; w < workers; w++ {
			wg.Add(1)
			go func(w int) {
				defer wg.Done()
				for i := w; i < len(ts); i += workers {
					a := ts[i]
					r.Guard(i, func() {
						for _, b := range ts {
							ab := core.MergeCoverageLines(a, b)
							for _, c := range ts {
								want := refMerge(a, b, c)
								l := core.MergeCoverageLines(ab, c)
								rr := core.MergeCoverageLines(a, core.MergeCoverageLines(b, c))
								o := core.MergeCoverageLines(core.MergeCoverageLines(c, a), b)
								if !eq(l, want) || !eq(rr, want) || !eq(o, want) {
									cls := "not-associative"
									if eq(l, rr) && eq(l, o) {
										cls = "triple-wrong-but-consistent"
									} else if eq(l, rr) {
										cls = "triple-order-dependent"
									}
									r.Violation(cls, fmt.Sprintf("a=%q b=%q c=%q: (a+b)+c=%q a+(b+c)=%q (c+a)+b=%q reference %q", str(a), str(b), str(c), str(l), str(rr), str(o), str(want)),
										map[string]any{"a": str(a), "b": str(b), "c": str(c)}, i)
								}
							}
						}
					})
					r.Obs("triples_checked", int64(len(ts)*len(ts)))
					r.Case("triple-row|"+str(a), len(a) > 0)
				}
			}(w)
		}
		wg.Wait()
		r.Extra("exhaustive_scope_triples", fmt.Sprintf("all %d^3 triples of vectors with length 0..3 in three bracketings/orders", len(ts)))
		r.Exhaustive = true
	}

	// ---- random multisets through Aggregate ------------------------------------------------------------
	norders := 20
	r.ForEach("multiset", r.Pick(10000, 400000), 8, func(i int, rng *rand.Rand) {
		c := genMulti(rng)
		want := refFiles(c)
		nontrivial := false
		for _, rc := range c.Runs[1:] {
			if lib.JSON(rc.Files) != lib.JSON(c.Runs[0].Files) {
				nontrivial = true
			}
		}
		r.Case(lib.JSON(c), nontrivial)
		var first string
		var firstOrder []int
		var covs []*core.TestCoverage
		var guards [][]vec
		for k := 0; k < norders; k++ {
			order := genOrder(rng, len(c.Runs), k%2 == 1)
			if k%5 == 0 {
				// fresh inputs every fifth order; in between the same objects are aggregated again
				// (they must be intact, which checkInputs verifies after every order)
				covs, guards = materialise(c)
			}
			var acc *core.TestCoverage
			how := "aggregate"
			switch k % 3 {
			case 0:
				acc = &core.TestCoverage{} // nil maps, as test_step.go's doFlakeRun does
			case 1:
				acc = core.NewTestCoverage()
			default:
				acc = &core.TestCoverage{Files: map[string][]core.LineCoverage{}} // as BuildState.Coverage starts
			}
			for _, j := range order {
				acc.Aggregate(covs[j])
			}
			r.Obs("aggregations", int64(len(order)))
			r.Obs("orders_checked", 1)
			if len(order) > len(c.Runs) {
				r.Obs("orders_with_repeated_runs", 1)
			}
			compareAgg(r, i, how, c, order, acc, want)
			checkInputs(r, i, how, c, order, guards)
			// second level: the accumulator itself is aggregated into another (doFlakeRun -> LogTestResult)
			if k%5 == 0 {
				outer := &core.TestCoverage{}
				outer.Aggregate(acc)
				outer.Aggregate(acc)
				compareAgg(r, i, "aggregate-nested", c, order, outer, want)
			}
			fs := filesString(acc.Files)
			if k == 0 {
				first, firstOrder = fs, order
			} else if fs != first {
				r.Violation("aggregate/order-dependent", fmt.Sprintf("orders %v and %v give different Files", firstOrder, order),
					map[string]any{"case": c, "order_a": firstOrder, "order_b": order, "files_a": first, "files_b": fs}, i)
			}
		}
		if r.WantSample() && nontrivial {
			r.Sample(map[string]any{"runs": c.Runs, "merged": filesString(want), "orders": norders})
		}
	})

	// ---- concurrent completion through the state's lock --------------------------------------------------
	// A BuildState owns a forwarding goroutine for life, so a few states are reused: between cases (no
	// LogTestResult call in flight) the exported Coverage field is reset to what NewBuildState sets.
	const concWorkers = 4
	states := make(chan *core.BuildState, concWorkers)
	for k := 0; k < concWorkers; k++ {
		states <- iplib.NewState()
	}
	r.ForEach("concurrent", r.Pick(600, 20000), concWorkers, func(i int, rng *rand.Rand) {
		c := genMulti(rng)
		want := refFiles(c)
		r.Case("conc|"+lib.JSON(c), len(c.Runs) > 1)
		state := <-states
		defer func() { states <- state }()
		state.Coverage = core.TestCoverage{Files: map[string][]core.LineCoverage{}}
		covs, guards := materialise(c)
		order := genOrder(rng, len(c.Runs), rng.Intn(2) == 0)
		var wg sync.WaitGroup
		start := make(chan struct{})
		for _, j := range order {
			wg.Add(1)
			go func(j int) {
				defer wg.Done()
				<-start
				target := core.NewBuildTarget(core.ParseBuildLabel(c.Runs[j].Label, ""))
				state.LogTestResult(target, 1, core.TargetTested, &core.TestSuite{}, covs[j], nil, "done")
			}(j)
		}
		close(start)
		wg.Wait()
		r.Obs("concurrent_log_test_result_calls", int64(len(order)))
		r.Obs("concurrent_histories", 1)
		compareAgg(r, i, "concurrent", c, order, &state.Coverage, want)
		checkInputs(r, i, "concurrent", c, order, guards)
	})

	if !r.Replaying() {
		r.CollectRaces(lib.OwnRaceLogPrefix(), []string{"core/test_results.go", "core.(*TestCoverage)", "core.MergeCoverageLines"})
		r.RequireObserved("pairs_checked", "triples_checked", "aggregations", "concurrent_log_test_result_calls")
	}
}

// C02 — cache restores are indistinguishable from building.
// Monitor: generated repositories driven through histories A, B, A, C, ... (edits and reverts) with one
// directory cache shared by the whole history (compressed or not), plz-out deleted at random points;
// after every step the requested outputs are compared with a from-empty, cache-less build of the
// current sources at the same absolute path.
package c02

import (
	"fmt"
	"math/rand"
	"path/filepath"
	"strings"
	"testing"
	"time"

	"verifharness/e2e"
	"verifharness/lib"
)

type stepRecord struct {
	Step    int      `json:"step"`
	Edit    e2e.Edit `json:"edit"`
	Wiped   bool     `json:"wiped_plz_out"`
	Started []string `json:"started"`
}

func TestC02(t *testing.T) {
	r := lib.Start("C02")
	defer lib.End(t, r)
	r.Rule = "case = one build step of a generated history with a shared directory cache (dircompress on for odd histories), where steps edit, revert to earlier states and delete plz-out; distinct by (repository state, cache mode, wiped); non-trivial = plz-out was deleted or the state had been visited before (so the cache can serve it) and at least one command did not run"
	r.Assumes = []string{"the oracle is the same plz binary building the same sources from an empty plz-out at the same absolute path with -o cache.dir: (cache off)", "hash-function collisions are not searched for"}
	bin := lib.PlzBin(false)
	n := r.Pick(36, 1000)
	r.ForEach("history", n, 8, func(i int, rng *rand.Rand) {
		sb := e2e.NewSandbox(filepath.Join(r.Scratch(), fmt.Sprintf("h%d", i)))
		defer lib.RemoveAll(sb.Work)
		state := e2e.Generate(rng, e2e.GenOpts{Tools: true, DirOuts: true, PostBuild: true})
		state.VLog = sb.VLog
		compress := i%2 == 1
		state.Config = strings.Replace(state.Config, "[cache]\ndir =\n", "", 1) + fmt.Sprintf("\n[cache]\ndir = %s\ndircompress = %v\ndirclean = false\nworkers = %d\n", sb.Cache, compress, []int{0, 0, 2}[rng.Intn(3)])
		if err := state.Materialize(sb.Repo); err != nil {
			panic(err)
		}
		history := []*e2e.Repo{state}
		seen := map[string]bool{}
		var trail []stepRecord
		steps := 4 + rng.Intn(6)
		for step := 0; step <= steps; step++ {
			edit := e2e.Edit{Kind: "initial"}
			if step > 0 {
				var next *e2e.Repo
				if len(history) >= 2 && rng.Intn(3) == 0 {
					j := rng.Intn(len(history) - 1)
					next = history[j].Clone()
					edit = e2e.Edit{Kind: "revert", Detail: fmt.Sprintf("to state %d", j)}
				} else {
					next, edit = e2e.ApplyRandomEdit(rng, state, e2e.EditOpts{AllowBreak: true})
				}
				if err := next.Sync(sb.Repo, state); err != nil {
					panic(err)
				}
				state = next
				history = append(history, state)
			}
			wiped := step > 0 && rng.Intn(3) == 0
			if wiped {
				lib.RemoveAll(filepath.Join(sb.Repo, "plz-out"))
			}
			request := []string{"//..."}
			want := state.Targets
			if rng.Intn(5) == 0 {
				tg := state.Targets[rng.Intn(len(state.Targets))]
				request, want = []string{tg.Label()}, []*e2e.Target{tg}
			}
			args := append([]string{"build", "-n", fmt.Sprint(1 + rng.Intn(8))}, request...)
			sb.ResetProbe()
			res := sb.Plz(bin, nil, 120*time.Second, args...)
			probe := sb.ReadProbe()
			trail = append(trail, stepRecord{step, edit, wiped, probe.Started})
			key := lib.JSON(state.AllFiles())
			ncmd := 0
			for _, tg := range state.Targets {
				if tg.HasCommand() {
					ncmd++
				}
			}
			r.Case(key+fmt.Sprint(compress, wiped, request), (wiped || seen[key]) && len(probe.Started) < ncmd)
			if (wiped || seen[key]) && len(probe.Started) < ncmd {
				r.Obs("steps_where_cache_could_serve", 1)
			}
			seen[key] = true
			r.Obs("build_steps", 1)
			r.Obs("actions_executed", int64(len(probe.Started)))
			r.Obs("cached_lines_reported", int64(strings.Count(res.Stderr+res.Stdout, "Cached")))
			r.ObsDistinct("edit_kinds", edit.Kind)
			clean := sb.CleanBuild(bin, state, nil, args, want)
			if res.TimedOut || clean.Result.TimedOut {
				r.Inconclusive(fmt.Sprintf("history %d step %d: plz timed out", i, step))
				return
			}
			if broken := state.Broken(); broken != nil && clean.Result.Exit != 0 {
				// deliberately failing command: both builds must fail; the history goes on (repair or revert)
				r.Obs("deliberately_failing_steps", 1)
				if res.Exit == 0 {
					r.Violation("cached-build-succeeds-where-clean-fails/"+edit.Kind, fmt.Sprintf("the command of %s fails (clean build exits %d) but the build with the dir cache exits 0", broken.Label(), clean.Result.Exit), map[string]any{"trail": trail, "state": state, "request": request, "compress": compress}, i)
					return
				}
				continue
			}
			if clean.Result.Exit != 0 {
				r.Obs("generator_invalid_states", 1)
				r.Inconclusive(fmt.Sprintf("history %d step %d (%s): clean build fails: %s", i, step, edit.Kind, lib.Tail(clean.Result.Stderr, 300)))
				return
			}
			mode := "plain"
			if compress {
				mode = "compressed"
			}
			wit := map[string]any{"trail": trail, "state": state, "request": request, "compress": compress}
			if res.Exit != 0 {
				wit["stderr"] = lib.Tail(res.Stderr, 1500)
				r.Violation("cached-build-fails/"+mode+"/"+edit.Kind, fmt.Sprintf("build with dir cache exits %d where the cache-less clean build succeeds (edit %s, wiped=%v)", res.Exit, edit.Kind, wiped), wit, i)
				return
			}
			got := sb.SnapshotOutputs(state, want)
			if d := lib.Diff(clean.Snapshot, got); len(d) > 0 {
				wit["diff"] = d
				kind := strings.SplitN(d[0], " ", 2)[0]
				r.Violation("cache-output-differs/"+mode+"/"+edit.Kind+"/"+kind, fmt.Sprintf("with dir cache (%s) after %s (wiped=%v) outputs differ from the cache-less clean build: %s", mode, edit.Kind, wiped, strings.Join(d, "; ")), wit, i)
				return
			}
			if r.WantSample() && step == steps {
				r.Sample(map[string]any{"trail": trail, "compress": compress})
			}
		}
	})
	r.RequireObserved("build_steps", "steps_where_cache_could_serve")
}

// C12 — directory cache: faithful, atomic store and retrieve.
//
// Four monitors over the real dirCache (cache.VerifNewDirCache), compressed and uncompressed:
//  1. faithfulness, in-process: store -> wipe (or leave stale outputs) -> retrieve -> tree diff, over an
//     exhaustive catalogue of small output shapes and seeded random larger trees; never-stored keys must miss.
//     Eight workers share one cache instance per mode under -race.
//  2. crash enumeration (fault_enumeration): a dry run sizes the number N of dircache.*/fs.copy.entry hook
//     points of one Store (VERIF_HOOK_COUNT); then one child per point k=1..N+1 runs the same Store with
//     VERIF_HOOK_CRASH=#k (SIGKILL at the k-th point) and a second, fresh child retrieves and compares;
//     "store over nothing" and "store over an existing entry of the same key" are both enumerated. The
//     fresh child afterwards stores again and retrieves (a crashed store must not poison the key).
//  3. kill while the old entry is being removed (no hook inside RemoveAll): the child kills itself as
//     soon as it sees the first file of the old entry vanish (state-triggered, not time-sampled).
//  4. concurrency across processes sharing one cache directory (each with its own repo root, as two
//     plz instances would): storers and retrievers on two keys, delay injection at the hook points.
package c12

import (
	"encoding/hex"
	"encoding/json"
	"fmt"
	"math/rand"
	"os"
	"path/filepath"
	"runtime"
	"sort"
	"strings"
	"sync"
	"syscall"
	"testing"
	"time"

	"github.com/thought-machine/please/src/cache"
	"github.com/thought-machine/please/src/core"

	"verifharness/cachelib"
	"verifharness/lib"
)

// ---------------------------------------------------------------------------------------------
// child side

type keySpec struct {
	Label  string          `json:"label"`
	KeyHex string          `json:"key"`
	Set    cachelib.OutSet `json:"set"`
	Expect lib.Snapshot    `json:"expect,omitempty"`
}

type verifyItem struct {
	K        int    `json:"k"`
	SpecIdx  int    `json:"spec_idx"` // index into job.Keys when that is set, else job.Spec
	Root     string `json:"root"`
	CacheDir string `json:"cache_dir"`
}

type job struct {
	Op       string       `json:"op"` // store | verify | killstore | conc
	Root     string       `json:"root"`
	CacheDir string       `json:"cache_dir"`
	Compress bool         `json:"compress"`
	Spec     keySpec      `json:"spec"`
	Items    []verifyItem `json:"items,omitempty"`
	Result   string       `json:"result,omitempty"`
	// conc
	Role     string    `json:"role,omitempty"` // storer | retriever
	Keys     []keySpec `json:"keys,omitempty"`
	Iters    int       `json:"iters,omitempty"`
	StopFile string    `json:"stop_file,omitempty"`
	NeverKey string    `json:"never_key,omitempty"`
	SyncDir  string    `json:"sync_dir,omitempty"` // lockstep between storers: meet before every store
	Self     int       `json:"self,omitempty"`
	Peers    int       `json:"peers,omitempty"`
}

type verifyResult struct {
	K         int          `json:"k"`
	Hit1      bool         `json:"hit1"`
	Snap1     lib.Snapshot `json:"snap1"`
	Hit2      bool         `json:"hit2"`
	Snap2     lib.Snapshot `json:"snap2"`
	NeverHit  bool         `json:"never_hit"`
	CacheList []string     `json:"cache_list"` // entry-level listing of the cache after the crash
}

type concResult struct {
	Role        string     `json:"role"`
	Stores      int        `json:"stores"`
	BarriersMet int        `json:"barriers_met"`
	Hits       int        `json:"hits"`
	Misses     int        `json:"misses"`
	NeverHits  int        `json:"never_hits"`
	Mismatches []mismatch `json:"mismatches"`
}

type mismatch struct {
	Iter     int      `json:"iter"`
	Key      string   `json:"key"`
	Restored int      `json:"restored_entries"`
	Expected int      `json:"expected_entries"`
	Diff     []string `json:"diff"`
}

func mustKey(h string) []byte {
	b, err := hex.DecodeString(h)
	if err != nil {
		panic(err)
	}
	return b
}

func writeJSON(path string, v any) {
	b, err := json.Marshal(v)
	if err != nil {
		panic(err)
	}
	if err := os.WriteFile(path+".tmp", b, 0o644); err != nil {
		panic(err)
	}
	if err := os.Rename(path+".tmp", path); err != nil {
		panic(err)
	}
}

func readJSON(path string, v any) error {
	b, err := os.ReadFile(path)
	if err != nil {
		return err
	}
	return json.Unmarshal(b, v)
}

// TestC12Child is the entry point of the re-executed batches; it does nothing in the parent run.
func TestC12Child(t *testing.T) {
	if !lib.IsChild() {
		return
	}
	cachelib.Quiet()
	var j job
	if err := readJSON(os.Getenv("VERIF_C12_JOB"), &j); err != nil {
		fmt.Println("cannot read job:", err)
		os.Exit(3)
	}
	switch j.Op {
	case "store":
		cachelib.Reenter(j.Root)
		tgt := cachelib.Target(j.Spec.Label)
		if err := cachelib.Materialize(cachelib.OutDir(j.Root, tgt), j.Spec.Set); err != nil {
			panic(err)
		}
		c := cache.VerifNewDirCache(cachelib.DirConfig(j.CacheDir, j.Compress))
		c.Store(tgt, mustKey(j.Spec.KeyHex), j.Spec.Set.Outs)
		os.WriteFile(filepath.Join(j.Root, "store.completed"), []byte("1"), 0o644)
	case "killstore":
		cachelib.Reenter(j.Root)
		tgt := cachelib.Target(j.Spec.Label)
		if err := cachelib.Materialize(cachelib.OutDir(j.Root, tgt), j.Spec.Set); err != nil {
			panic(err)
		}
		c := cache.VerifNewDirCache(cachelib.DirConfig(j.CacheDir, j.Compress))
		// The first name in raw directory order of the old entry's directory output is the first
		// thing os.RemoveAll unlinks.
		entry := filepath.Join(c.Path(tgt, mustKey(j.Spec.KeyHex)), j.Spec.Set.Outs[0])
		f, err := os.Open(entry)
		if err != nil {
			panic(err)
		}
		names, _ := f.Readdirnames(1)
		f.Close()
		if len(names) == 0 {
			panic("old entry is empty")
		}
		sentinel := filepath.Join(entry, names[0])
		go func() {
			runtime.LockOSThread()
			var st syscall.Stat_t
			for syscall.Lstat(sentinel, &st) == nil {
			}
			syscall.Kill(syscall.Getpid(), syscall.SIGKILL)
		}()
		c.Store(tgt, mustKey(j.Spec.KeyHex), j.Spec.Set.Outs)
		os.WriteFile(filepath.Join(j.Root, "store.completed"), []byte("1"), 0o644)
	case "verify":
		var out []verifyResult
		for _, it := range j.Items {
			cachelib.Reenter(it.Root)
			if len(j.Keys) > 0 {
				j.Spec = j.Keys[it.SpecIdx]
			}
			tgt := cachelib.Target(j.Spec.Label)
			key := mustKey(j.Spec.KeyHex)
			outDir := cachelib.OutDir(it.Root, tgt)
			cachelib.Wipe(outDir)
			res := verifyResult{K: it.K}
			res.CacheList = listCache(it.CacheDir)
			c := cache.VerifNewDirCache(cachelib.DirConfig(it.CacheDir, j.Compress))
			res.Hit1 = c.Retrieve(tgt, key, j.Spec.Set.Outs)
			res.Snap1, _ = cachelib.Snapshot(outDir)
			// A later process builds the target again and stores it; then a third one retrieves.
			if err := cachelib.Materialize(outDir, j.Spec.Set); err != nil {
				panic(err)
			}
			c = cache.VerifNewDirCache(cachelib.DirConfig(it.CacheDir, j.Compress))
			c.Store(tgt, key, j.Spec.Set.Outs)
			cachelib.Wipe(outDir)
			c = cache.VerifNewDirCache(cachelib.DirConfig(it.CacheDir, j.Compress))
			res.NeverHit = c.Retrieve(tgt, mustKey(j.NeverKey), j.Spec.Set.Outs)
			cachelib.Wipe(outDir)
			res.Hit2 = c.Retrieve(tgt, key, j.Spec.Set.Outs)
			res.Snap2, _ = cachelib.Snapshot(outDir)
			out = append(out, res)
		}
		writeJSON(j.Result, out)
	case "conc":
		cachelib.Reenter(j.Root)
		res := concResult{Role: j.Role}
		c := cache.VerifNewDirCache(cachelib.DirConfig(j.CacheDir, j.Compress))
		if j.Role == "storer" {
			for _, ks := range j.Keys {
				if err := cachelib.Materialize(cachelib.OutDir(j.Root, cachelib.Target(ks.Label)), ks.Set); err != nil {
					panic(err)
				}
			}
			for it := 0; it < j.Iters; it++ {
				ks := j.Keys[it%len(j.Keys)]
				if j.SyncDir != "" && barrier(j.SyncDir, it, j.Self, j.Peers) {
					res.BarriersMet++
				}
				c.Store(cachelib.Target(ks.Label), mustKey(ks.KeyHex), ks.Set.Outs)
				res.Stores++
			}
		} else {
			for it := 0; it < j.Iters; it++ {
				if _, err := os.Stat(j.StopFile); err == nil {
					break
				}
				ks := j.Keys[it%len(j.Keys)]
				tgt := cachelib.Target(ks.Label)
				outDir := cachelib.OutDir(j.Root, tgt)
				cachelib.Wipe(outDir)
				if it%7 == 3 {
					if c.Retrieve(tgt, mustKey(j.NeverKey), ks.Set.Outs) {
						res.NeverHits++
					}
					cachelib.Wipe(outDir)
				}
				if c.Retrieve(tgt, mustKey(ks.KeyHex), ks.Set.Outs) {
					res.Hits++
					snap, _ := cachelib.Snapshot(outDir)
					if d := lib.Diff(ks.Expect, snap); len(d) > 0 && len(res.Mismatches) < 5 {
						if len(d) > 8 {
							d = append(d[:8], fmt.Sprintf("… %d more", len(d)-8))
						}
						res.Mismatches = append(res.Mismatches, mismatch{Iter: it, Key: ks.Label, Diff: d, Restored: len(snap), Expected: len(ks.Expect)})
					}
				} else {
					res.Misses++
				}
			}
		}
		writeJSON(j.Result, res)
	default:
		fmt.Println("unknown op", j.Op)
		os.Exit(3)
	}
}

// barrier makes the storers of one round meet before iteration it (synchronisation only; when a peer
// does not show up within a bounded number of polls the storer just goes on).
func barrier(dir string, it, self, peers int) bool {
	os.WriteFile(filepath.Join(dir, fmt.Sprintf("b%d.%d", it, self)), nil, 0o644)
	for spin := 0; spin < 20000; spin++ {
		all := true
		for p := 0; p < peers; p++ {
			if _, err := os.Stat(filepath.Join(dir, fmt.Sprintf("b%d.%d", it, p))); err != nil {
				all = false
			}
		}
		if all {
			return true
		}
		time.Sleep(200 * time.Microsecond)
	}
	return false
}

// listCache lists the entry-level names in a cache directory (depth 3: pkg/name/entry).
func listCache(dir string) []string {
	var out []string
	filepath.Walk(dir, func(p string, info os.FileInfo, err error) error {
		if err != nil {
			return nil
		}
		rel, _ := filepath.Rel(dir, p)
		if n := strings.Count(rel, "/"); n == 2 {
			out = append(out, rel)
			if info.IsDir() {
				return filepath.SkipDir
			}
		}
		return nil
	})
	sort.Strings(out)
	return out
}

// ---------------------------------------------------------------------------------------------
// parent side

func runJob(dir, name string, j job, env []string) lib.ChildResult {
	p := filepath.Join(dir, name+".job.json")
	writeJSON(p, j)
	// The race runtime sleeps 1 s at exit by default; children are many and short-lived.
	env = append([]string{"VERIF_C12_JOB=" + p, "GORACE=" + os.Getenv("GORACE") + " atexit_sleep_ms=0"}, env...)
	return lib.Child("TestC12Child", env, 300*time.Second)
}

// preStore stores a set from the parent process (hooks are inert there) into cacheDir, as an earlier
// plz process would have done. The parent's repo root holds the outputs.
func preStore(root, cacheDir string, compress bool, spec keySpec) error {
	tgt := cachelib.Target(spec.Label)
	if err := cachelib.Materialize(cachelib.OutDir(root, tgt), spec.Set); err != nil {
		return err
	}
	c := cache.VerifNewDirCache(cachelib.DirConfig(cacheDir, compress))
	c.Store(tgt, mustKey(spec.KeyHex), spec.Set.Outs)
	if !core.PathExists(c.Path(tgt, mustKey(spec.KeyHex))) {
		return fmt.Errorf("pre-store left no entry at %s", c.Path(tgt, mustKey(spec.KeyHex)))
	}
	return nil
}

func modeName(compress bool) string {
	if compress {
		return "compressed"
	}
	return "uncompressed"
}

func shortDiff(d []string) string {
	if len(d) > 6 {
		d = append(append([]string{}, d[:6]...), fmt.Sprintf("… %d more", len(d)-6))
	}
	return strings.Join(d, "; ")
}

// diffClass names the kind of difference so that different defects get different keys.
func diffClass(d []string) string {
	c := map[string]bool{}
	for _, l := range d {
		f := strings.Fields(l)
		kind := f[0]
		typ := ""
		if i := strings.LastIndex(l, "("); i >= 0 && kind != "differs" {
			typ = strings.TrimSuffix(l[i+1:], ")")
		} else if kind == "differs" {
			switch {
			case strings.Contains(l, "Type:symlink") && strings.Count(l, "Type:symlink") == 2:
				typ = "symlink-target"
			case strings.Count(l, "Type:file") == 2 && execDiffers(l):
				typ = "exec-bit"
			case strings.Count(l, "Type:file") == 2:
				typ = "content"
			default:
				typ = "type"
			}
		}
		c[kind+"-"+typ] = true
	}
	ks := make([]string, 0, len(c))
	for k := range c {
		ks = append(ks, k)
	}
	sort.Strings(ks)
	return strings.Join(ks, "+")
}

func execDiffers(l string) bool {
	return strings.Count(l, "Exec:true") == 1
}

// parentRoot is the repo root of the parent process (set once in TestC12).
var parentRoot string

type sharedCaches struct {
	root string
	mu   sync.Mutex
	byM  map[bool]*cache.VerifDirCache
}

func (s *sharedCaches) dir(compress bool) string {
	return filepath.Join(s.root, ".cache-"+modeName(compress))
}

func (s *sharedCaches) get(compress bool) *cache.VerifDirCache {
	s.mu.Lock()
	defer s.mu.Unlock()
	if c := s.byM[compress]; c != nil {
		return c
	}
	c := cache.VerifNewDirCache(cachelib.DirConfig(s.dir(compress), compress))
	s.byM[compress] = c
	return c
}

// faithful runs one store/retrieve round trip in-process. variant bits: 1 = retrieve through a fresh
// cache instance, 2 = store twice, 4 = leave stale outputs of the same names in plz-out, 8 = sha256-length key,
// 16 = binary target.
func faithful(r *lib.Run, sc *sharedCaches, stream string, idx int, set cachelib.OutSet, compress bool, variant int) {
	if m := os.Getenv("VERIF_C12_MODE"); m != "" && m != modeName(compress) {
		return
	}
	pkg := fmt.Sprintf("%s%d%s", stream, idx, map[bool]string{true: "z", false: "u"}[compress])
	label := "//" + pkg + "/sub:t" + fmt.Sprint(variant)
	tgt := cachelib.Target(label)
	if variant&16 != 0 {
		tgt.IsBinary = true
	}
	outDir := cachelib.OutDir(sc.root, tgt)
	if err := cachelib.Materialize(outDir, set); err != nil {
		r.Inconclusive("cannot materialise: " + err.Error())
		return
	}
	want, err := cachelib.Snapshot(outDir)
	if err != nil {
		r.Inconclusive("cannot snapshot: " + err.Error())
		return
	}
	klen := 20
	if variant&8 != 0 {
		klen = 32
	}
	key := cachelib.Key(label+set.Describe(), klen)
	c := sc.get(compress)
	mode := modeName(compress)
	wit := func(extra map[string]any) map[string]any {
		m := map[string]any{"set": set.Witness(), "mode": mode, "variant": variant, "label": label, "key": hex.EncodeToString(key)}
		for k, v := range extra {
			m[k] = v
		}
		return m
	}
	feats := set.Features()
	nontrivial := len(want) >= 2
	r.Case(mode+fmt.Sprint(variant)+set.Describe(), nontrivial)
	for _, f := range feats {
		r.ObsDistinct("tree_features", f)
	}

	// Never stored: this key, and near neighbours of it, must miss before the store.
	never := [][]byte{key, cachelib.Key(label+"other", klen)}
	k2 := append([]byte{}, key...)
	k2[len(k2)-1] ^= 1
	never = append(never, k2)
	for _, nk := range never {
		if c.Retrieve(tgt, nk, set.Outs) {
			r.Violation("never-stored-hit/"+mode, "Retrieve of a never-stored key returned true", wit(map[string]any{"probe": hex.EncodeToString(nk)}), idx)
		}
		r.Obs("never_stored_probes", 1)
	}
	cachelib.Materialize(outDir, set) // a (wrong) hit may have touched the outputs

	c.Store(tgt, key, set.Outs)
	if variant&2 != 0 {
		c.Store(tgt, key, set.Outs)
	}
	// The store must not have changed the outputs themselves.
	if after, _ := cachelib.Snapshot(outDir); len(lib.Diff(want, after)) > 0 {
		r.Violation("store-altered-outputs/"+mode, "Store changed the target's outputs: "+shortDiff(lib.Diff(want, after)), wit(nil), idx)
	}
	// Neighbours still miss after the store.
	for _, nk := range never[1:] {
		cachelib.Wipe(outDir)
		if c.Retrieve(tgt, nk, set.Outs) {
			r.Violation("never-stored-hit/"+mode, "Retrieve of a never-stored key returned true after a neighbouring key was stored", wit(map[string]any{"probe": hex.EncodeToString(nk)}), idx)
		}
		r.Obs("never_stored_probes", 1)
	}
	other := cachelib.Target("//" + pkg + "/sub:t" + fmt.Sprint(variant) + "x")
	other.IsBinary = tgt.IsBinary
	if c.Retrieve(other, k2, set.Outs) {
		r.Violation("never-stored-hit/"+mode, "Retrieve of a never-stored key for a sibling target returned true", wit(nil), idx)
	}

	if variant&4 != 0 {
		// Stale outputs of the same names: different contents, extra files inside directory outputs.
		stale := cachelib.OutSet{Outs: set.Outs, Files: map[string]string{}}
		for p, cnt := range set.Files {
			if strings.HasSuffix(p, "/") {
				stale.Files[p+"stale-extra"] = "stale"
			} else if strings.HasPrefix(cnt, "->") {
				stale.Files[p] = "was a file"
			} else if cnt == "" {
				stale.Files[p+"/inner"] = "was a directory"
			} else {
				stale.Files[p] = cnt + " (stale)"
			}
			if i := strings.LastIndexByte(strings.TrimSuffix(p, "/"), '/'); i >= 0 && !isOut(set, p) {
				stale.Files[p[:i]+"/stale-sibling"] = "stale"
			}
		}
		if err := cachelib.Materialize(outDir, stale); err != nil {
			r.Inconclusive("cannot materialise stale set: " + err.Error())
			return
		}
		r.Obs("retrieves_over_stale_outputs", 1)
	} else {
		cachelib.Wipe(outDir)
	}
	rc := c
	if variant&1 != 0 {
		rc = cache.VerifNewDirCache(cachelib.DirConfig(sc.dir(compress), compress))
	}
	hit := rc.Retrieve(tgt, key, set.Outs)
	r.Obs("faithful_roundtrips", 1)
	if !hit {
		r.Violation("miss-after-store/"+mode+"/"+variantName(variant), "Retrieve after Store of the same key missed", wit(map[string]any{"features": feats}), idx)
		return
	}
	got, _ := cachelib.Snapshot(outDir)
	if d := lib.Diff(want, got); len(d) > 0 {
		r.Violation("unfaithful/"+mode+"/"+variantName(variant)+"/"+diffClass(d), "restored tree differs from the stored one: "+shortDiff(d), wit(map[string]any{"diff": d, "features": feats}), idx)
	}
	if r.WantSample() && nontrivial && idx%5 == 0 {
		r.Sample(map[string]any{"kind": "faithful", "mode": mode, "variant": variant, "set": set.Witness(), "restored_entries": len(got)})
	}
}

func isOut(set cachelib.OutSet, p string) bool {
	for _, o := range set.Outs {
		if o == strings.TrimSuffix(p, "/") {
			return true
		}
	}
	return false
}

func variantName(v int) string {
	if v&4 != 0 {
		return "over-stale-outputs"
	}
	return "into-empty"
}

// crashCase enumerates every hook point of one Store as a crash point.
func crashCase(r *lib.Run, base string, idx int, rng *rand.Rand) {
	compress := idx%2 == 1
	over := (idx/2)%2 == 1
	mode := modeName(compress)
	state := map[bool]string{true: "over-existing", false: "over-nothing"}[over]
	set := cachelib.GenOutSet(rng, true, false)
	for maxNodes := r.Pick(14, 40); len(set.Files) > maxNodes; {
		set = cachelib.GenOutSet(rng, true, false)
	}
	// The richest directory output goes last: a store that dies inside it leaves every declared output
	// present, so only the tree comparison can tell a partial entry from a complete one.
	richest, most := 0, -1
	for i, out := range set.Outs {
		c := 0
		for p := range set.Files {
			if strings.HasPrefix(p, out+"/") {
				c++
			}
		}
		if c > most {
			richest, most = i, c
		}
	}
	set.Outs[richest], set.Outs[len(set.Outs)-1] = set.Outs[len(set.Outs)-1], set.Outs[richest]
	dir := filepath.Join(base, fmt.Sprintf("crash%d", idx))
	os.MkdirAll(dir, 0o755)
	label := fmt.Sprintf("//cr%d:t", idx)
	spec := keySpec{Label: label, KeyHex: hex.EncodeToString(cachelib.Key(label+set.Describe(), 20)), Set: set}
	never := hex.EncodeToString(cachelib.Key(label+"never", 20))
	tgt := cachelib.Target(label)

	// expected tree
	expRoot := filepath.Join(dir, "expect")
	if err := cachelib.Materialize(cachelib.OutDir(expRoot, tgt), set); err != nil {
		r.Inconclusive("materialise: " + err.Error())
		return
	}
	want, _ := cachelib.Snapshot(cachelib.OutDir(expRoot, tgt))

	tmpl := filepath.Join(dir, "cache_tmpl")
	os.MkdirAll(tmpl, 0o755)
	if over {
		if err := preStore(parentRoot, tmpl, compress, spec); err != nil {
			r.Inconclusive(fmt.Sprintf("crash case %d: pre-store failed: %v", idx, err))
			return
		}
	}
	newCache := func(name string) string {
		d := filepath.Join(dir, name)
		if err := lib.CopyTree(tmpl, d, nil); err != nil {
			panic(err)
		}
		return d
	}
	// dry run: size the enumeration (it also is the control: a Store that is not killed)
	countFile := filepath.Join(dir, "count")
	ctlCache := newCache("cache_ctl")
	res := runJob(dir, "count", job{Op: "store", Root: filepath.Join(dir, "src_count"), CacheDir: ctlCache, Compress: compress, Spec: spec},
		[]string{"VERIF_HOOK_COUNT=" + countFile})
	if res.Exit != 0 {
		r.Inconclusive(fmt.Sprintf("crash case %d: counting child failed: exit %d %s", idx, res.Exit, tail(res.Stderr)))
		return
	}
	n := 0
	pointNames := map[string]int{}
	if b, err := os.ReadFile(countFile); err == nil {
		for _, l := range strings.Split(string(b), "\n") {
			var name string
			var c int
			if _, err := fmt.Sscanf(l, "%s %d", &name, &c); err == nil {
				if name == "total" {
					n = c
				} else {
					pointNames[name] = c
				}
			}
		}
	}
	if n == 0 {
		r.FatalInconclusive(fmt.Sprintf("crash case %d: dry run hit no hook point", idx))
		return
	}
	for name := range pointNames {
		r.ObsDistinct("hook_point_names", name)
	}
	r.Obs("crash_points_enumerated", int64(n))

	// one child per crash point; item n+1 is the control (the dry run, no crash)
	type pt struct {
		k       int
		at      string
		crashed bool
	}
	pts := make([]pt, n+1)
	var wg sync.WaitGroup
	sem := make(chan struct{}, 4)
	var items []verifyItem
	for k := 1; k <= n; k++ {
		cd := newCache(fmt.Sprintf("cache_%d", k))
		items = append(items, verifyItem{K: k, Root: filepath.Join(dir, fmt.Sprintf("ret_%d", k)), CacheDir: cd})
		wg.Add(1)
		go func(k int, cd string) {
			defer wg.Done()
			sem <- struct{}{}
			defer func() { <-sem }()
			trace := filepath.Join(dir, fmt.Sprintf("trace_%d", k))
			res := runJob(dir, fmt.Sprintf("store_%d", k), job{Op: "store", Root: filepath.Join(dir, fmt.Sprintf("src_%d", k)), CacheDir: cd, Compress: compress, Spec: spec},
				[]string{fmt.Sprintf("VERIF_HOOK_CRASH=#%d", k), "VERIF_TRACE=" + trace})
			p := pt{k: k}
			if res.Signal == "killed" && !res.TimedOut {
				p.crashed = true
				if b, err := os.ReadFile(trace); err == nil {
					var ev struct{ Kind, Subject string }
					for _, l := range strings.Split(string(b), "\n") {
						if json.Unmarshal([]byte(l), &ev) == nil && ev.Kind == "crash" {
							p.at = ev.Subject
						}
					}
				}
			} else if res.Exit != 0 {
				p.at = fmt.Sprintf("child-error-exit-%d", res.Exit)
			}
			pts[k-1] = p
		}(k, cd)
	}
	wg.Wait()
	items = append(items, verifyItem{K: n + 1, Root: filepath.Join(dir, "ret_ctl"), CacheDir: ctlCache})
	crashed := 0
	for _, p := range pts[:n] {
		if p.crashed {
			crashed++
		}
	}
	r.Obs("crash_points_reached", int64(crashed))
	if crashed != n {
		r.Inconclusive(fmt.Sprintf("crash case %d: %d of %d crash points fired", idx, crashed, n))
	}

	// second, fresh process: retrieve and compare
	resFile := filepath.Join(dir, "verify.json")
	res = runJob(dir, "verify", job{Op: "verify", Compress: compress, Spec: spec, Items: items, Result: resFile, NeverKey: never}, nil)
	var results []verifyResult
	if err := readJSON(resFile, &results); err != nil || len(results) != n+1 {
		r.Inconclusive(fmt.Sprintf("crash case %d: verify child failed: exit %d %s", idx, res.Exit, tail(res.Stderr)))
		return
	}
	r.Case(fmt.Sprintf("crash/%s/%s/%s", mode, state, set.Describe()), n >= 4)
	hits, misses := 0, 0
	for i, vr := range results {
		at := pts[i].at
		control := vr.K == n+1
		if control {
			at = "no-crash"
		}
		wit := map[string]any{"set": set.Witness(), "mode": mode, "existing_entry": over, "crash_point_index": vr.K, "crash_point": at, "points_total": n,
			"cache_entries_after_crash": vr.CacheList}
		if vr.Hit1 {
			hits++
			if d := lib.Diff(want, vr.Snap1); len(d) > 0 {
				wit["diff"] = d
				r.Violation(fmt.Sprintf("crash-partial-hit/%s/%s/at=%s", mode, state, at),
					fmt.Sprintf("after SIGKILL at hook point #%d (%s) of Store, a fresh process's Retrieve returned true with an incomplete tree: %s", vr.K, at, shortDiff(d)), wit, idx)
			}
		} else {
			misses++
			if control {
				r.Violation(fmt.Sprintf("miss-after-store/%s/%s/fresh-process", mode, state), "a completed Store followed by Retrieve in a fresh process missed", wit, idx)
			}
		}
		if !vr.Hit2 {
			r.Violation(fmt.Sprintf("store-after-crash-miss/%s/%s/at=%s", mode, state, at),
				fmt.Sprintf("after a Store killed at point #%d (%s), a complete Store by a later process is not retrievable", vr.K, at), wit, idx)
		} else if d := lib.Diff(want, vr.Snap2); len(d) > 0 {
			wit["diff"] = d
			r.Violation(fmt.Sprintf("store-after-crash-unfaithful/%s/%s/at=%s", mode, state, at),
				fmt.Sprintf("after a Store killed at point #%d (%s), a later complete Store+Retrieve restores a different tree: %s", vr.K, at, shortDiff(d)), wit, idx)
		}
		if vr.NeverHit {
			r.Violation("never-stored-hit/"+mode, "Retrieve of a never-stored key returned true (after crash recovery)", wit, idx)
		}
	}
	r.Obs("crash_then_retrieve_hit_complete_or_flagged", int64(hits))
	r.Obs("crash_then_retrieve_miss", int64(misses))
	r.Obs("restore_after_crash_checked", int64(len(results)))
	if r.WantSample() {
		r.Sample(map[string]any{"kind": "crash-enumeration", "mode": mode, "state": state, "points": n, "point_names": pointNames, "hits_after_crash": hits, "misses_after_crash": misses, "set": set.Witness()})
	}
}

func tail(s string) string {
	if len(s) > 600 {
		s = s[len(s)-600:]
	}
	return strings.ReplaceAll(s, "\n", " | ")
}

// killCase: the process dies while Store is removing the old entry of the same key.
func killCase(r *lib.Run, base string, idx int, rng *rand.Rand) {
	dir := filepath.Join(base, fmt.Sprintf("kill%d", idx))
	os.MkdirAll(dir, 0o755)
	label := fmt.Sprintf("//kl%d:t", idx)
	set := cachelib.OutSet{Outs: []string{"d"}, Files: map[string]string{}}
	nfiles := 400 + rng.Intn(400)
	for i := 0; i < nfiles; i++ {
		set.Files[fmt.Sprintf("d/f%05d", i)] = fmt.Sprint(i)
	}
	spec := keySpec{Label: label, KeyHex: hex.EncodeToString(cachelib.Key(label, 20)), Set: set}
	tgt := cachelib.Target(label)
	expRoot := filepath.Join(dir, "expect")
	cachelib.Materialize(cachelib.OutDir(expRoot, tgt), set)
	want, _ := cachelib.Snapshot(cachelib.OutDir(expRoot, tgt))
	cd := filepath.Join(dir, "cache")
	if err := preStore(parentRoot, cd, false, spec); err != nil {
		r.Inconclusive("kill case: pre-store failed: " + err.Error())
		return
	}
	res := runJob(dir, "killstore", job{Op: "killstore", Root: filepath.Join(dir, "src"), CacheDir: cd, Spec: spec}, nil)
	if res.Signal != "killed" || res.TimedOut {
		r.Obs("kill_during_remove_not_reached", 1)
		return
	}
	resFile := filepath.Join(dir, "verify.json")
	runJob(dir, "verify", job{Op: "verify", Spec: spec, Items: []verifyItem{{K: 1, Root: filepath.Join(dir, "ret"), CacheDir: cd}}, Result: resFile,
		NeverKey: hex.EncodeToString(cachelib.Key(label+"never", 20))}, nil)
	var results []verifyResult
	if err := readJSON(resFile, &results); err != nil || len(results) != 1 {
		r.Inconclusive("kill case: verify child failed")
		return
	}
	vr := results[0]
	r.Case(fmt.Sprintf("kill-during-remove/%d", nfiles), true)
	r.Obs("kill_during_remove_reached", 1)
	wit := map[string]any{"mode": "uncompressed", "existing_entry": true, "set": fmt.Sprintf("one directory output d/ with %d small files", nfiles),
		"killed": "as soon as the first file of the old entry was seen to vanish (inside fs.RemoveAll(cacheDir) in dirCache.Store)", "restored_entries": len(vr.Snap1), "expected_entries": len(want)}
	if vr.Hit1 {
		if d := lib.Diff(want, vr.Snap1); len(d) > 0 {
			wit["diff_count"] = len(d)
			r.Violation("crash-partial-hit/uncompressed/over-existing/at=RemoveAll-old-entry",
				fmt.Sprintf("process killed while Store removed the existing entry of the same key: a fresh Retrieve returned true with %d of %d entries", len(vr.Snap1), len(want)), wit, idx)
		} else {
			r.Obs("kill_during_remove_entry_still_complete", 1)
		}
	} else {
		r.Obs("kill_during_remove_then_miss", 1)
	}
	if !vr.Hit2 || len(lib.Diff(want, vr.Snap2)) > 0 {
		r.Violation("store-after-crash-unfaithful/uncompressed/over-existing/at=RemoveAll-old-entry", "after a Store killed while removing the old entry, a later complete Store+Retrieve does not restore the tree", wit, idx)
	}
}

// concCase: processes sharing one cache directory, each with its own repo root. Two kinds of round:
//   - store-vs-retrieve (even idx/2): one storer re-storing two keys (one of them existing beforehand)
//     while three retrievers retrieve them;
//   - store-vs-store (odd idx/2): two storers storing the same fresh keys in lockstep, no retrievers;
//     a fresh process inspects every key afterwards.
func concCase(r *lib.Run, base string, idx int, rng *rand.Rand) {
	compress := idx%2 == 1
	twoStorers := (idx/2)%2 == 1
	mode := modeName(compress)
	kind := "store-vs-retrieve"
	storers, retrievers, nkeys, iters := 1, 3, 2, 16
	if twoStorers {
		kind = "store-vs-store"
		storers, retrievers, nkeys, iters = 2, 0, 10, 10
	}
	dir := filepath.Join(base, fmt.Sprintf("conc%d", idx))
	os.MkdirAll(dir, 0o755)
	cd := filepath.Join(dir, "cache")
	os.MkdirAll(cd, 0o755)
	big := !twoStorers && rng.Intn(2) == 0
	var keys []keySpec
	var sets []cachelib.OutSet
	for k := 0; k < nkeys; k++ {
		label := fmt.Sprintf("//cc%d/k%d:t", idx, k)
		var set cachelib.OutSet
		switch {
		case big && k == 0:
			set = cachelib.OutSet{Outs: []string{"d", "f"}, Files: map[string]string{"f": "single file"}}
			nf := 100 + rng.Intn(200)
			for i := 0; i < nf; i++ {
				set.Files[fmt.Sprintf("d/s%d/f%04d", i%3, i)] = fmt.Sprint(i, label)
			}
		case twoStorers && k >= 2:
			set = sets[k%2] // a few shapes, many keys
		default:
			set = cachelib.GenOutSet(rng, true, false)
		}
		sets = append(sets, set)
		tgt := cachelib.Target(label)
		expRoot := filepath.Join(dir, "expect")
		cachelib.Materialize(cachelib.OutDir(expRoot, tgt), set)
		want, _ := cachelib.Snapshot(cachelib.OutDir(expRoot, tgt))
		keys = append(keys, keySpec{Label: label, KeyHex: hex.EncodeToString(cachelib.Key(label+set.Describe(), 20)), Set: set, Expect: want})
	}
	never := hex.EncodeToString(cachelib.Key(fmt.Sprint("never", idx), 20))
	if !twoStorers {
		// key 0 exists beforehand (every store of it is a store over an existing entry); key 1 does not.
		if err := preStore(parentRoot, cd, compress, keys[0]); err != nil {
			r.Inconclusive("conc case: pre-store failed: " + err.Error())
			return
		}
	}
	stop := filepath.Join(dir, "stop")
	syncDir := ""
	if twoStorers {
		syncDir = filepath.Join(dir, "sync")
		os.MkdirAll(syncDir, 0o755)
	}
	glob := ""
	if big {
		glob = ":dircache.*"
	}
	var swg, rwg sync.WaitGroup
	sres := make([]concResult, storers)
	rres := make([]concResult, retrievers)
	var failed sync.Map
	delaySeeds := make([]int64, storers)
	for s := range delaySeeds {
		delaySeeds[s] = rng.Int63n(1 << 30)
	}
	for s := 0; s < storers; s++ {
		swg.Add(1)
		go func(s int) {
			defer swg.Done()
			rf := filepath.Join(dir, fmt.Sprintf("storer%d.json", s))
			res := runJob(dir, fmt.Sprintf("storer%d", s), job{Op: "conc", Role: "storer", Root: filepath.Join(dir, fmt.Sprintf("s%d", s)), CacheDir: cd, Compress: compress,
				Keys: keys, Iters: iters, Result: rf, SyncDir: syncDir, Self: s, Peers: storers}, []string{fmt.Sprintf("VERIF_HOOK_DELAY=%d:0.5:1500%s", delaySeeds[s], glob)})
			if readJSON(rf, &sres[s]) != nil {
				failed.Store(fmt.Sprintf("storer%d", s), tail(res.Stderr))
			}
		}(s)
	}
	for q := 0; q < retrievers; q++ {
		rwg.Add(1)
		go func(q int) {
			defer rwg.Done()
			rf := filepath.Join(dir, fmt.Sprintf("retriever%d.json", q))
			res := runJob(dir, fmt.Sprintf("retriever%d", q), job{Op: "conc", Role: "retriever", Root: filepath.Join(dir, fmt.Sprintf("r%d", q)), CacheDir: cd, Compress: compress,
				Keys: keys, Iters: 2000, StopFile: stop, NeverKey: never, Result: rf}, nil)
			if readJSON(rf, &rres[q]) != nil {
				failed.Store(fmt.Sprintf("retriever%d", q), tail(res.Stderr))
			}
		}(q)
	}
	swg.Wait()
	os.WriteFile(stop, []byte("1"), 0o644)
	rwg.Wait()
	nfail := 0
	failed.Range(func(k, v any) bool {
		nfail++
		r.Inconclusive(fmt.Sprintf("conc case %d: child %v gave no result: %v", idx, k, v))
		return true
	})
	if nfail > 0 {
		return
	}
	r.Case(fmt.Sprintf("conc/%s/%s/%s|%s", mode, kind, keys[0].Set.Describe(), keys[1].Set.Describe()), true)
	r.Obs("concurrent_rounds", 1)
	r.Obs("concurrent_rounds_"+kind, 1)
	wit := func(extra map[string]any) map[string]any {
		m := map[string]any{"mode": mode, "round": kind, "storer_processes": storers, "retriever_processes": retrievers, "store_iterations_each": iters, "keys": nkeys,
			"set0": keys[0].Set.Witness(), "set1": keys[1].Set.Witness(), "key0_prestored": !twoStorers}
		if big {
			m["set0"] = fmt.Sprintf("d/ with %d files in 3 subdirs + file f", len(keys[0].Set.Files)-1)
		}
		for k, v := range extra {
			m[k] = v
		}
		return m
	}
	for _, s := range sres {
		r.Obs("concurrent_stores", int64(s.Stores))
		r.Obs("lockstep_barriers_met", int64(s.BarriersMet))
	}
	for _, q := range rres {
		r.Obs("concurrent_retrieve_hits", int64(q.Hits))
		r.Obs("concurrent_retrieve_misses", int64(q.Misses))
		if q.NeverHits > 0 {
			r.Violation("never-stored-hit/"+mode+"/concurrent", "Retrieve of a never-stored key returned true during concurrent stores", wit(nil), idx)
		}
		for _, mm := range q.Mismatches {
			restored := "partial"
			if mm.Restored == 0 {
				restored = "nothing"
			}
			r.Violation(fmt.Sprintf("concurrent-hit-mismatch/%s/%s/restored=%s", mode, kind, restored),
				fmt.Sprintf("Retrieve overlapping a Store of the same key by another process returned true but restored %d of %d entries: %s", mm.Restored, mm.Expected, shortDiff(mm.Diff)),
				wit(map[string]any{"mismatch": mm}), idx)
		}
	}
	// Quiescent check by a fresh process: everything has been stored at least once by now.
	resFile := filepath.Join(dir, "final.json")
	var items []verifyItem
	for k := range keys {
		items = append(items, verifyItem{K: k, SpecIdx: k, Root: filepath.Join(dir, fmt.Sprintf("final%d", k)), CacheDir: cd})
	}
	runJob(dir, "final", job{Op: "verify", Compress: compress, Keys: keys, Items: items, Result: resFile, NeverKey: never}, nil)
	var results []verifyResult
	if err := readJSON(resFile, &results); err != nil || len(results) != len(keys) {
		r.Inconclusive("conc case: final verify failed")
		return
	}
	for k, vr := range results {
		ks := keys[k]
		if vr.Hit1 {
			if d := lib.Diff(ks.Expect, vr.Snap1); len(d) > 0 {
				r.Violation(fmt.Sprintf("concurrent-final-partial-hit/%s/%s", mode, kind),
					fmt.Sprintf("after all concurrent stores finished, a fresh Retrieve returns true with %d of %d entries: %s", len(vr.Snap1), len(ks.Expect), shortDiff(d)),
					wit(map[string]any{"key_index": k, "diff": d, "cache_entries": vr.CacheList}), idx)
			}
			r.Obs("concurrent_final_hits", 1)
		} else if !twoStorers {
			r.Violation(fmt.Sprintf("concurrent-final-miss/%s/%s", mode, kind), "a single storer completed its stores (with concurrent retrievers) but a fresh Retrieve misses", wit(map[string]any{"key_index": k}), idx)
		} else {
			r.Obs("concurrent_final_miss_with_two_storers", 1)
		}
		if !vr.Hit2 || len(lib.Diff(ks.Expect, vr.Snap2)) > 0 {
			r.Violation(fmt.Sprintf("store-after-concurrency-unfaithful/%s/%s", mode, kind), "after the concurrent round, a complete Store+Retrieve by a fresh process does not restore the tree", wit(map[string]any{"key_index": k}), idx)
		}
	}
	if r.WantSample() {
		r.Sample(map[string]any{"kind": "concurrent-round", "round": kind, "mode": mode, "storers": storers, "retrievers": retrievers, "storer_results": sres, "retriever_results": rres})
	}
}

func TestC12(t *testing.T) {
	if lib.IsChild() {
		return
	}
	cachelib.Quiet()
	r := lib.Start("C12")
	defer lib.End(t, r)
	r.Level = "fault_enumeration"
	r.Rule = "faithful: output sets = every single shape and every ordered pair from a 12-shape catalogue (file, empty, exec, out in subdir, dangling/upward symlink, empty dir, nested dirs, symlinks in dirs to files/dirs, names with spaces/unicode) plus seeded random sets (1-4 outs, depth<=3, tar block-boundary sizes, long names, large files) x {compressed,uncompressed} x variants (fresh instance, double store, stale outputs, 20/32-byte key, binary target); distinct by mode+variant+materialised set, non-trivial = >=2 nodes. crash: per (set,mode,over-nothing|over-existing) every hook point of Store is a crash point; non-trivial = >=4 points. concurrent: one round = 4 processes on one cache dir; distinct by mode+storers+sets"
	r.Assumes = []string{
		"process death is SIGKILL at verifhook.Point sites (dircache.*, fs.copy.entry) plus one state-triggered kill inside RemoveAll of the old entry; power loss (no fsync) is not modelled",
		"the out directory of the target exists before Retrieve (as in Please's build step)",
		"concurrency is modelled as separate processes with private repo roots sharing the cache directory",
	}
	base := r.Scratch()
	root := filepath.Join(base, "root")
	cachelib.Enter(root)
	parentRoot = root
	sc := &sharedCaches{root: root, byM: map[bool]*cache.VerifDirCache{}}

	only := os.Getenv("VERIF_C12_ONLY") // debugging aid: run a single stream
	want := func(stream string) int {
		if only != "" && only != stream {
			return 0
		}
		return 1
	}
	t0 := time.Now()
	walls := map[string]float64{}
	lap := func(name string) { walls[name] = time.Since(t0).Seconds(); t0 = time.Now(); r.Extra("stream_wall_s", walls) }
	// 1a. exhaustive catalogue
	cat := cachelib.CatalogueSets()
	r.ForEach("catalogue", want("catalogue")*len(cat)*2, 8, func(i int, rng *rand.Rand) {
		faithful(r, sc, "cat", i, cat[i/2], i%2 == 1, []int{0, 1, 4, 5, 3}[(i/2)%5])
		r.Obs("catalogue_cases", 1)
	})
	r.Extra("exhaustive_scope", fmt.Sprintf("%d output sets (12 single shapes, 144 ordered pairs, 4 sibling-symlink sets) x 2 modes", len(cat)))

	lap("catalogue")
	// 1b. random larger trees
	r.ForEach("faithful", want("faithful")*r.Pick(200, 8000), 8, func(i int, rng *rand.Rand) {
		set := cachelib.GenOutSet(rng, false, rng.Intn(4) == 0)
		variant := rng.Intn(32)
		faithful(r, sc, "rnd", i, set, i%2 == 1, variant)
	})

	lap("faithful")
	// 2. crash enumeration
	r.ForEach("crash", want("crash")*r.Pick(6, 120), 2, func(i int, rng *rand.Rand) { crashCase(r, base, i, rng) })

	lap("crash")
	// 3. kill inside the removal of the old entry
	r.ForEach("kill-during-remove", want("kill-during-remove")*r.Pick(2, 30), 1, func(i int, rng *rand.Rand) { killCase(r, base, i, rng) })

	lap("kill-during-remove")
	// 4. concurrent processes
	r.ForEach("concurrent", want("concurrent")*r.Pick(8, 200), 2, func(i int, rng *rand.Rand) { concCase(r, base, i, rng) })

	lap("concurrent")
	r.CollectRaces(lib.OwnRaceLogPrefix(), []string{"please/src/cache.", "please/src/fs."})
	r.RequireObserved("faithful_roundtrips", "crash_points_reached", "concurrent_rounds", "concurrent_retrieve_hits")
}

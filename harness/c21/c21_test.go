// C21 — glob() returns exactly the files its documented semantics select.
//
// Monitor: generated package trees (nested subpackages next to look-alike sibling directories,
// hidden files and directories at several depths, names with regex metacharacters, a plz-out at the
// repository root, symlinks) are materialised on disk; the real fs.Glob(fs.HostFS, ...) is called the
// way the glob() builtin calls it (cwd = repo root, rootPath = package name, the build file names
// appended to the excludes) with patterns generalised from the tree's own paths; the set of
// non-directory results is compared with a reference matcher written from docs/lexicon.html
// (segment-wise: `*` inside a segment, `**` = whole segments, `?`, `[class]`; excludes without `/`
// against the base name, with `/` from the package root). A small end-to-end sample evaluates the
// real glob() builtin through `plz query print --json -f srcs`.
//
// Three-valued reference: must-return / must-not-return / either. "Either" is used where the
// documentation is silent: emacs `#x#` files with hidden=False, an exclude that literally names the
// file or one of its parent directories (the code excludes the subtree, the docs only describe
// patterns), a trailing `**` matching zero segments, nested directories called plz-out.
// Patterns the documentation does not define (`a**b`, unbalanced `[`, backslashes, `**/**`) are
// generated too but only checked for the "never" clauses (subpackage, plz-out, hidden) and for
// failing cleanly.
package c21

import (
	"encoding/json"
	"fmt"
	"math/rand"
	"os"
	"path/filepath"
	"sort"
	"strings"
	"testing"

	"github.com/thought-machine/please/src/fs"

	"verifharness/iplib"
	"verifharness/lib"
)

var buildFileNames = []string{"BUILD", "BUILD.plz"}

// ---------------------------------------------------------------------------------------------
// Tree model.

type tree struct {
	Dirs  []string          `json:"dirs"`            // every directory, repo-root-relative
	Files []string          `json:"files"`           // regular files
	Links map[string]string `json:"links,omitempty"` // symlink -> target text (always a sibling regular file)
}

type globCase struct {
	Tree     tree     `json:"tree"`
	Pkg      string   `json:"pkg"` // "" = root package
	Includes []string `json:"includes"`
	Excludes []string `json:"excludes"`
	Hidden   bool     `json:"hidden"`
}

func parentOf(p string) string {
	d := filepath.Dir(p)
	if d == "." {
		return ""
	}
	return d
}

func under(p, dir string) bool { return dir == "" || p == dir || strings.HasPrefix(p, dir+"/") }

func rel(p, pkg string) string {
	if pkg == "" {
		return p
	}
	return strings.TrimPrefix(p, pkg+"/")
}

func contains(l []string, s string) bool {
	for _, x := range l {
		if x == s {
			return true
		}
	}
	return false
}

func (t tree) isDir(p string) bool { return contains(t.Dirs, p) }

// packages returns the directories holding a regular file with a build file name.
func (t tree) packages() map[string]bool {
	out := map[string]bool{}
	for _, f := range t.Files {
		if contains(buildFileNames, filepath.Base(f)) {
			out[parentOf(f)] = true
		}
	}
	return out
}

// candidates are the non-directory entries (regular files and symlinks to files) that belong to
// pkg: under its directory, not under a subpackage, not under the repository's plz-out. The second
// result holds entries whose membership the documentation leaves open (below a nested directory
// called plz-out, or a plain file called plz-out).
func (t tree) candidates(pkg string) (sure map[string]bool, open map[string]bool) {
	pkgs := t.packages()
	sure, open = map[string]bool{}, map[string]bool{}
	add := func(f string) {
		if !under(f, pkg) || f == pkg {
			return
		}
		for d := parentOf(f); d != pkg && under(d, pkg); d = parentOf(d) {
			if pkgs[d] {
				return // owned by a subpackage
			}
			if d == "" {
				break
			}
		}
		r := rel(f, pkg)
		comps := strings.Split(r, "/")
		if pkg == "" && comps[0] == "plz-out" {
			if len(comps) == 1 {
				open[r] = true
			}
			return
		}
		for _, c := range comps {
			if c == "plz-out" {
				open[r] = true
				return
			}
		}
		sure[r] = true
	}
	for _, f := range t.Files {
		add(f)
	}
	// symlinks: the builtin has an undocumented include_symlinks flag (default False) while fs.Glob
	// passes true; whether a symlink is returned is left open, it only must belong to the package.
	linkSure := map[string]bool{}
	realSure := sure
	sure = linkSure
	for l := range t.Links {
		add(l)
	}
	sure = realSure
	for l := range linkSure {
		open[l] = true
	}
	return
}

func writeTree(root string, t tree, buildContent map[string]string) error {
	if err := os.MkdirAll(root, 0o755); err != nil {
		return err
	}
	for _, d := range t.Dirs {
		if err := os.MkdirAll(filepath.Join(root, d), 0o755); err != nil {
			return err
		}
	}
	for _, f := range t.Files {
		content := "x\n"
		if contains(buildFileNames, filepath.Base(f)) && buildContent != nil {
			content = buildContent[parentOf(f)]
		}
		if err := os.MkdirAll(filepath.Dir(filepath.Join(root, f)), 0o755); err != nil {
			return err
		}
		if err := os.WriteFile(filepath.Join(root, f), []byte(content), 0o644); err != nil {
			return err
		}
	}
	for l, target := range t.Links {
		if err := os.Symlink(target, filepath.Join(root, l)); err != nil {
			return err
		}
	}
	return nil
}

// ---------------------------------------------------------------------------------------------
// Reference matcher, from docs/lexicon.html.

// parsePattern splits a pattern into segments and says whether the documentation defines it.
func parsePattern(p string) ([]string, bool) {
	if p == "" || strings.Contains(p, "\\") || strings.HasPrefix(p, "/") || strings.HasSuffix(p, "/") {
		return nil, false
	}
	segs := strings.Split(p, "/")
	for i, s := range segs {
		if s == "" || s == "." || s == ".." {
			return nil, false
		}
		if s == "**" {
			if i > 0 && segs[i-1] == "**" {
				return nil, false
			}
			continue
		}
		if strings.Contains(s, "**") {
			return nil, false
		}
		// classes must be balanced and non-empty; a stray ] is left undefined
		for j := 0; j < len(s); j++ {
			switch s[j] {
			case '[':
				k := j + 1
				if k < len(s) && s[k] == '^' {
					k++
				}
				end := strings.IndexByte(s[k:], ']')
				if end <= 0 {
					return nil, false
				}
				body := s[k : k+end]
				if strings.ContainsAny(body, "[*?!") || strings.HasPrefix(body, "-") || strings.HasSuffix(body, "-") {
					return nil, false
				}
				j = k + end
			case ']':
				return nil, false
			}
		}
	}
	return segs, true
}

// matchSeg matches one path segment against one pattern segment (no `/` in either).
func matchSeg(pat, s string) bool {
	if pat == "" {
		return s == ""
	}
	switch pat[0] {
	case '*':
		for k := 0; k <= len(s); k++ {
			if matchSeg(pat[1:], s[k:]) {
				return true
			}
		}
		return false
	case '?':
		return s != "" && matchSeg(pat[1:], s[1:])
	case '[':
		k := 1
		neg := false
		if pat[k] == '^' {
			neg = true
			k++
		}
		end := k + strings.IndexByte(pat[k:], ']')
		if s == "" {
			return false
		}
		body := pat[k:end]
		in := false
		for j := 0; j < len(body); j++ {
			if j+2 < len(body) && body[j+1] == '-' {
				if body[j] <= s[0] && s[0] <= body[j+2] {
					in = true
				}
				j += 2
			} else if body[j] == s[0] {
				in = true
			}
		}
		if in == neg {
			return false
		}
		return matchSeg(pat[end+1:], s[1:])
	default:
		return s != "" && s[0] == pat[0] && matchSeg(pat[1:], s[1:])
	}
}

// matchPath matches whole paths; `**` stands for k whole segments, k >= minStar (k >= minTrailing
// when it is the last pattern segment).
func matchPath(psegs, nsegs []string, minStar, minTrailing int) bool {
	if len(psegs) == 0 {
		return len(nsegs) == 0
	}
	if psegs[0] == "**" {
		min := minStar
		if len(psegs) == 1 {
			min = minTrailing
		}
		for k := min; k <= len(nsegs); k++ {
			if matchPath(psegs[1:], nsegs[k:], minStar, minTrailing) {
				return true
			}
		}
		return false
	}
	if len(nsegs) == 0 || !matchSeg(psegs[0], nsegs[0]) {
		return false
	}
	return matchPath(psegs[1:], nsegs[1:], minStar, minTrailing)
}

type tri int

const (
	no tri = iota
	yes
	either
)

// includeMatch: does include pattern (defined) select path r?
func includeMatch(psegs []string, r string) tri {
	n := strings.Split(r, "/")
	a := matchPath(psegs, n, 0, 1)
	b := matchPath(psegs, n, 0, 0)
	if a {
		return yes
	}
	if b {
		return either // only by letting a trailing ** match nothing
	}
	return no
}

// excludeMatch: does exclude pattern (defined) remove path r?
func excludeMatch(excl string, psegs []string, r string) tri {
	var res tri
	if !strings.Contains(excl, "/") {
		if matchSeg(excl, filepath.Base(r)) {
			return yes
		}
	} else {
		switch includeMatch(psegs, r) {
		case yes:
			return yes
		case either:
			res = either
		}
	}
	if r == excl || strings.HasPrefix(r, excl+"/") {
		res = either // literally names the file or a parent directory: code excludes, docs are silent
	}
	return res
}

func hiddenByDot(r string) bool {
	for _, c := range strings.Split(r, "/") {
		if strings.HasPrefix(c, ".") {
			return true
		}
	}
	return false
}

func emacsHidden(r string) bool {
	b := filepath.Base(r)
	return strings.HasPrefix(b, "#") && strings.HasSuffix(b, "#")
}

type expectation struct {
	defined bool
	want    map[string]tri // over candidates (sure); open candidates are always either
	incBy   map[string]int // index of the first include that selects the file (for keys), -1
	excBy   map[string]int // index of the first exclude that removes it, -1
}

func expect(c globCase) expectation {
	e := expectation{defined: true, want: map[string]tri{}, incBy: map[string]int{}, excBy: map[string]int{}}
	var inc, exc [][]string
	for _, p := range c.Includes {
		s, ok := parsePattern(p)
		if !ok {
			e.defined = false
		}
		inc = append(inc, s)
	}
	for _, p := range c.Excludes {
		s, ok := parsePattern(p)
		if !ok || (!strings.Contains(p, "/") && p == "**") {
			e.defined = false
		}
		exc = append(exc, s)
	}
	sure, _ := c.Tree.candidates(c.Pkg)
	for r := range sure {
		e.incBy[r], e.excBy[r] = -1, -1
		if !e.defined {
			// only the "never" clauses apply
			if !c.Hidden && hiddenByDot(r) {
				e.want[r] = no
			} else {
				e.want[r] = either
			}
			continue
		}
		included := no
		for i, s := range inc {
			m := includeMatch(s, r)
			if m == yes {
				included = yes
				e.incBy[r] = i
				break
			}
			if m == either {
				included = either
			}
		}
		excluded := no
		for i, s := range exc {
			m := excludeMatch(c.Excludes[i], s, r)
			if m == yes {
				excluded = yes
				e.excBy[r] = i
				break
			}
			if m == either {
				excluded = either
			}
		}
		// the builtin always appends the build file names to the excludes
		for _, b := range buildFileNames {
			m := excludeMatch(b, []string{b}, r)
			if m == yes {
				excluded = yes
			} else if m == either && excluded == no {
				excluded = either
			}
		}
		switch {
		case !c.Hidden && hiddenByDot(r):
			e.want[r] = no
		case included == no || excluded == yes:
			e.want[r] = no
		case included == yes && excluded == no && (c.Hidden || !emacsHidden(r)):
			e.want[r] = yes
		default:
			e.want[r] = either
		}
	}
	return e
}

// ---------------------------------------------------------------------------------------------
// Running the real code.

type globResult struct {
	names []string
	err   string // message of the deliberate "error globbing" panic, if any
}

// realGlob calls fs.Glob like the builtin does. cwd must be the tree's root.
func realGlob(pkg string, includes, excludes []string, hidden bool) (res globResult) {
	defer func() {
		if p := recover(); p != nil {
			if err, ok := p.(error); ok && strings.Contains(err.Error(), "error globbing files") {
				res.err = err.Error()
				return
			}
			if s, ok := p.(string); ok && strings.Contains(s, "empty string as a glob") {
				res.err = s
				return
			}
			panic(p)
		}
	}()
	ex := append(append([]string(nil), excludes...), buildFileNames...)
	res.names = fs.Glob(fs.HostFS, buildFileNames, pkg, includes, ex, hidden)
	return
}

// ---------------------------------------------------------------------------------------------
// Witness keys.

const regexChars = "(){}|^$"

// stripClasses removes [..] groups so that a ^ used for class negation is not mistaken for a literal.
func stripClasses(p string) string {
	var sb strings.Builder
	for i := 0; i < len(p); i++ {
		if p[i] == '[' {
			if k := strings.IndexByte(p[i:], ']'); k > 0 {
				i += k
				continue
			}
		}
		sb.WriteByte(p[i])
	}
	return sb.String()
}

// patternFeature names what is special about a `**` pattern on which code and reference disagree.
func patternFeature(role, p string, psegs []string, r string, codeMatched bool) string {
	if !strings.Contains(p, "**") {
		if codeMatched {
			return role + "/plain-pattern-matches-unexpectedly"
		}
		return role + "/plain-pattern-fails-to-match"
	}
	if k := strings.IndexAny(stripClasses(p), regexChars); k >= 0 {
		_ = k
		return "doublestar/unescaped-regex-metachar"
	}
	n := strings.Split(r, "/")
	if codeMatched {
		if strings.Contains(p, "?") {
			return "doublestar/question-mark-crosses-separator"
		}
		if strings.Contains(p, "[^") {
			return "doublestar/negated-class-crosses-separator"
		}
		return "doublestar/unexplained-match"
	}
	if !matchPath(psegs, n, 1, 1) {
		if psegs[0] == "**" {
			return "doublestar/leading-zero-segments"
		}
		return "doublestar/inner-zero-segments"
	}
	return "doublestar/unexplained-miss"
}

// ---------------------------------------------------------------------------------------------
// Generator.

var stems = []string{"a", "b", "ab", "a_test", "main", "x1", "a(b)", "a+b", "a.b", "a$", "^a", "a{1}", "a|b", "a b", "a[1]", "#a#", ".a", ".ab", "a~", "aXb", "a1b"}
var exts = []string{".go", ".go", ".py", ".txt", ""}
var dirNames = []string{"d", "dd", "sub", "test", "a", "d.e", ".hd", "d(1)", "d+", "x", "a$"}

func pick(rng *rand.Rand, l []string) string { return l[rng.Intn(len(l))] }

type treeBuilder struct {
	rng   *rand.Rand
	t     tree
	dirs  map[string]bool
	files map[string]bool
}

func (b *treeBuilder) addDir(d string) {
	for ; d != "" && !b.dirs[d]; d = parentOf(d) {
		b.dirs[d] = true
	}
}

func (b *treeBuilder) addFile(f string) bool {
	if b.files[f] || b.dirs[f] {
		return false
	}
	b.addDir(parentOf(f))
	b.files[f] = true
	return true
}

func join(d, n string) string {
	if d == "" {
		return n
	}
	return d + "/" + n
}

func (b *treeBuilder) fill(dir string, depth, maxDepth int) {
	rng := b.rng
	for k := 1 + rng.Intn(4); k > 0; k-- {
		n := pick(rng, stems) + pick(rng, exts)
		if rng.Intn(60) == 0 {
			n = "plz-out"
		}
		if b.addFile(join(dir, n)) && rng.Intn(15) == 0 && !strings.HasPrefix(n, ".") {
			l := join(dir, "l_"+n)
			if !b.files[l] && !b.dirs[l] {
				if b.t.Links == nil {
					b.t.Links = map[string]string{}
				}
				b.t.Links[l] = n
				b.files[l] = true
			}
		}
	}
	if depth >= maxDepth {
		return
	}
	for k := rng.Intn(4); k > 0; k-- {
		n := pick(rng, dirNames)
		if rng.Intn(50) == 0 {
			n = "plz-out"
		}
		d := join(dir, n)
		if b.dirs[d] || b.files[d] {
			continue
		}
		b.addDir(d)
		if rng.Intn(40) == 0 {
			// a directory named like a build file (fs.IsPackage does not count it)
			b.addDir(join(d, "BUILD"))
			b.addFile(join(d, "BUILD/z.go"))
		}
		if !strings.HasPrefix(n, ".") && validPkg(d) && rng.Intn(4) == 0 {
			// a subpackage, next to look-alike siblings that are not
			b.addFile(join(d, pick(rng, buildFileNames)))
			switch rng.Intn(3) {
			case 0:
				b.addFile(join(dir, n+"x/"+pick(rng, stems)+".go"))
			case 1:
				b.addFile(join(dir, n+".go"))
			}
		}
		b.fill(d, depth+1, maxDepth)
	}
}

// validPkg mirrors what Please accepts as a package name (core.validatePackageName) and also keeps
// regex metacharacters out of package paths: they are not this property's subject.
func validPkg(p string) bool { return !strings.ContainsAny(p, "|$*?[]{}:()&\\^ ") }

func genTree(rng *rand.Rand) (tree, []string) {
	b := &treeBuilder{rng: rng, dirs: map[string]bool{}, files: map[string]bool{}}
	pkg := pick(rng, []string{"", "pkg", "pkg", "a/pkg", "pkg.d"})
	if pkg != "" {
		b.addDir(pkg)
		b.addFile(join(pkg, "BUILD"))
		if rng.Intn(2) == 0 {
			b.addFile("BUILD")
		}
		b.addFile(pkg + "x/other.go") // sibling sharing the package's prefix
	} else {
		b.addFile("BUILD")
	}
	// the repository's plz-out
	b.addFile("plz-out/gen/" + join(pkg, "a.go"))
	b.addFile("plz-out/a.go")
	b.fill(pkg, 0, 1+rng.Intn(3))
	if pkg != "" && rng.Intn(2) == 0 {
		b.fill("", 2, 2+rng.Intn(2))
	}
	for d := range b.dirs {
		b.t.Dirs = append(b.t.Dirs, d)
	}
	for f := range b.files {
		if _, isLink := b.t.Links[f]; !isLink {
			b.t.Files = append(b.t.Files, f)
		}
	}
	sort.Strings(b.t.Dirs)
	sort.Strings(b.t.Files)
	// packages worth globbing: the main one, the root (if it is one), one subpackage
	pkgs := []string{pkg}
	all := b.t.packages()
	if pkg != "" && all[""] {
		pkgs = append(pkgs, "")
	}
	var subs []string
	for p := range all {
		if p != pkg && p != "" && under(p, pkg) {
			subs = append(subs, p)
		}
	}
	sort.Strings(subs)
	if len(subs) > 0 {
		pkgs = append(pkgs, pick(rng, subs))
	}
	return b.t, pkgs
}

// literal turns a path segment into a pattern segment that matches it: glob metacharacters in the
// name become `?` (escaping is not documented).
func literal(seg string) string {
	return strings.Map(func(r rune) rune {
		if strings.ContainsRune("[]*?\\", r) {
			return '?'
		}
		return r
	}, seg)
}

func generaliseSeg(rng *rand.Rand, seg string, last bool) string {
	lit := literal(seg)
	switch rng.Intn(9) {
	case 0:
		return "*"
	case 1:
		if k := strings.LastIndex(seg, "."); k > 0 {
			return "*" + literal(seg[k:])
		}
		return "*"
	case 2:
		if len(seg) > 1 {
			k := 1 + rng.Intn(len(seg)-1)
			return literal(seg[:k]) + "*"
		}
	case 3:
		if len(seg) > 1 {
			k := 1 + rng.Intn(len(seg)-1)
			return "*" + literal(seg[k:])
		}
	case 4:
		k := rng.Intn(len(seg))
		return literal(seg[:k]) + "?" + literal(seg[k+1:])
	case 5:
		k := rng.Intn(len(seg))
		c := seg[k]
		if (c >= 'a' && c <= 'z') || (c >= '0' && c <= '9') || (c >= 'A' && c <= 'Z') {
			cls := pick(rng, []string{"[" + string(c) + "q]", "[a-z0-9A-Z]", "[^q]", "[^" + string(c) + "]"})
			return literal(seg[:k]) + cls + literal(seg[k+1:])
		}
	case 6:
		if len(seg) > 2 {
			k := 1 + rng.Intn(len(seg)-2)
			return literal(seg[:k]) + "*" + literal(seg[k+1:])
		}
	}
	return lit
}

// genPattern generalises the package-relative path r into a pattern that (usually) still matches it.
func genPattern(rng *rand.Rand, r string) string {
	segs := strings.Split(r, "/")
	n := len(segs)
	out := make([]string, 0, n+1)
	dirs := segs[:n-1]
	switch rng.Intn(7) {
	case 0: // directories literal
		for _, d := range dirs {
			out = append(out, literal(d))
		}
	case 1: // all leading directories -> ** (zero of them when the file is at the top)
		out = append(out, "**")
	case 2: // a run of directories (possibly empty) -> **
		i := rng.Intn(len(dirs) + 1)
		j := i + rng.Intn(len(dirs)-i+1)
		for _, d := range dirs[:i] {
			out = append(out, literal(d))
		}
		out = append(out, "**")
		for _, d := range dirs[j:] {
			out = append(out, literal(d))
		}
	case 3: // each directory generalised
		for _, d := range dirs {
			out = append(out, generaliseSeg(rng, d, false))
		}
	case 4: // keep a prefix, end in **
		if n >= 2 {
			i := 1 + rng.Intn(n-1)
			for _, d := range segs[:i] {
				out = append(out, literal(d))
			}
			return strings.Join(append(out, "**"), "/")
		}
		out = append(out, "**")
	case 5: // ** in front of a literal tail
		i := rng.Intn(len(dirs) + 1)
		out = append(out, "**")
		for _, d := range dirs[i:] {
			out = append(out, literal(d))
		}
	default:
		for _, d := range dirs {
			out = append(out, literal(d))
		}
	}
	last := segs[n-1]
	if rng.Intn(3) == 0 {
		out = append(out, literal(last))
	} else {
		out = append(out, generaliseSeg(rng, last, true))
	}
	return strings.Join(out, "/")
}

var stockPatterns = []string{"*", "**", "**/*", "*.go", "**/*.go", "*/*.go", "**/*_test.go", "?.go", ".*", "**/.*", "*/*", "**/a*", "**/*.txt", "[a-z]*", "**/?.go", "**/[^q].go", "**/a?b.go", "*/**/*.go"}
var undefinedPatterns = []string{"a**b", "**.go", "[a", "**/**/*.go", "a\\*", "d/**x/*.go", "*]"}

func genCase(rng *rand.Rand, t tree, pkg string) globCase {
	c := globCase{Tree: t, Pkg: pkg, Hidden: rng.Intn(4) == 0}
	sure, _ := t.candidates(pkg)
	var files []string
	for f := range sure {
		files = append(files, f)
	}
	sort.Strings(files)
	// also paths that are *not* the package's (subpackage, plz-out) so that patterns aim at them
	var foreign []string
	for _, f := range t.Files {
		if under(f, pkg) && f != pkg && !sure[rel(f, pkg)] {
			foreign = append(foreign, rel(f, pkg))
		}
	}
	source := func() string {
		if len(foreign) > 0 && rng.Intn(5) == 0 {
			return pick(rng, foreign)
		}
		if len(files) == 0 {
			return "a.go"
		}
		return pick(rng, files)
	}
	for k := 1 + rng.Intn(2); k > 0; k-- {
		switch x := rng.Intn(20); {
		case x == 0:
			c.Includes = append(c.Includes, pick(rng, undefinedPatterns))
		case x < 5:
			c.Includes = append(c.Includes, pick(rng, stockPatterns))
		default:
			c.Includes = append(c.Includes, genPattern(rng, source()))
		}
	}
	for k := rng.Intn(3); k > 0; k-- {
		f := source()
		switch rng.Intn(7) {
		case 0: // base-name pattern
			c.Excludes = append(c.Excludes, generaliseSeg(rng, filepath.Base(f), true))
		case 1:
			c.Excludes = append(c.Excludes, pick(rng, []string{"*_test.go", "*.txt", "a*", "*.py", "?.go", "*b*"}))
		case 2: // a path pattern from the package root
			c.Excludes = append(c.Excludes, genPattern(rng, f))
		case 3: // a directory, literally
			if d := parentOf(f); d != "" {
				c.Excludes = append(c.Excludes, literal(d))
			}
		case 4: // the base name of a nested file, literally (relative exclude)
			c.Excludes = append(c.Excludes, literal(filepath.Base(f)))
		case 5:
			c.Excludes = append(c.Excludes, pick(rng, []string{"**/*_test.go", "**/a*", "**/*.txt", "*/*.go", "**/d/*"}))
		default: // sibling-prefix of a directory: must not exclude the longer one
			if d := parentOf(f); d != "" && len(d) > 1 {
				c.Excludes = append(c.Excludes, literal(d[:len(d)-1]))
			}
		}
	}
	return c
}

// ---------------------------------------------------------------------------------------------
// Directed cases.

func mkTree(paths ...string) tree {
	b := &treeBuilder{dirs: map[string]bool{}, files: map[string]bool{}}
	for _, p := range paths {
		if strings.HasSuffix(p, "/") {
			b.addDir(strings.TrimSuffix(p, "/"))
		} else {
			b.addFile(p)
		}
	}
	for d := range b.dirs {
		b.t.Dirs = append(b.t.Dirs, d)
	}
	for f := range b.files {
		b.t.Files = append(b.t.Files, f)
	}
	sort.Strings(b.t.Dirs)
	sort.Strings(b.t.Files)
	return b.t
}

func directed() []globCase {
	std := mkTree("BUILD", "top.go", "pkg/BUILD", "pkg/t.go", "pkg/a_test.go", "pkg/d/u.go", "pkg/d/a/b.go", "pkg/d/ab.go", "pkg/d/a1b.go",
		"pkg/a(b).go", "pkg/ab.go", "pkg/a$.go", "pkg/^a.go", "pkg/a{1}.go", "pkg/a|b.go", "pkg/b.go", "pkg/a+b.go", "pkg/aab.go", "pkg/a.b.go", "pkg/aXb.go", "pkg/a b.go",
		"pkg/.h.go", "pkg/.hd/h.go", "pkg/d/.hd/e/h.go", "pkg/#e#", "pkg/d/x_test.go",
		"pkg/sub/BUILD", "pkg/sub/s.go", "pkg/sub/A/s2.go", "pkg/subx/s.go", "pkg/sub.go", "pkg/d/sub2/BUILD.plz", "pkg/d/sub2/s.go",
		"pkgx/o.go", "plz-out/gen/pkg/g.go", "plz-out/g.go", "a/x.go", "a/b/y.go", "a/b/x_test.go")
	odd := mkTree("BUILD", "x/BUILD/z.go", "x/w.go", "q/plz-out", "q/r.go", "q/z.go", "n/plz-out/f.go", "n/g.go")
	gc := func(t tree, pkg string, hidden bool, inc []string, exc ...string) globCase {
		return globCase{Tree: t, Pkg: pkg, Includes: inc, Excludes: exc, Hidden: hidden}
	}
	in := func(s ...string) []string { return s }
	return []globCase{
		gc(std, "pkg", false, in("*.go")),
		gc(std, "pkg", false, in("**/*.go")),
		gc(std, "pkg", true, in("**/*.go")),
		gc(std, "pkg", false, in("**")),
		gc(std, "pkg", false, in("*/*.go")),
		gc(std, "pkg", false, in("*/*/*.go", "*/*/*/*.go")),
		gc(std, "pkg", false, in(".hd/h.go")),
		gc(std, "pkg", false, in(".hd/*")),
		gc(std, "pkg", false, in(".*", "**/.*")),
		gc(std, "pkg", true, in(".*", "**/.*", "#*")),
		gc(std, "pkg", false, in("d/**/b.go")),
		gc(std, "pkg", false, in("d/**")),
		gc(std, "pkg", false, in("**/d/*.go")),
		gc(std, "pkg", false, in("**/a?b.go")),
		gc(std, "pkg", false, in("d/a?b.go")),
		gc(std, "pkg", false, in("**/a[^q]b.go")),
		gc(std, "pkg", false, in("**/a[/]b.go")),
		gc(std, "pkg", false, in("**/a(b).go")),
		gc(std, "pkg", false, in("a(b).go", "a$.go", "^a.go", "a{1}.go", "a|b.go", "a+b.go", "a.b.go", "a b.go")),
		gc(std, "pkg", false, in("**/a$.go")),
		gc(std, "pkg", false, in("**/^a.go")),
		gc(std, "pkg", false, in("**/a{1}.go")),
		gc(std, "pkg", false, in("**/a|b.go")),
		gc(std, "pkg", false, in("**/a+b.go", "**/a.b.go", "**/a b.go")),
		gc(std, "pkg", false, in("sub/*.go", "sub/**", "sub*/*.go", "sub*")),
		gc(std, "pkg", false, in("**/s.go", "**/s2.go")),
		gc(std, "pkg", false, in("**/*.go"), "*_test.go"),
		gc(std, "pkg", false, in("**/*.go"), "d/*.go"),
		gc(std, "pkg", false, in("**/*.go"), "**/a*"),
		gc(std, "pkg", false, in("**/*.go"), "**/a(b).go", "**/a$.go"),
		gc(std, "pkg", false, in("**/*.go"), "d/a"),
		gc(std, "pkg", false, in("**/*.go"), "su", "d/a1", "t"),
		gc(std, "pkg", false, in("**/*.go"), "b.go"),
		gc(std, "", false, in("*.go")),
		gc(std, "", false, in("**/*.go")),
		gc(std, "", false, in("**/x.go", "a/**/y.go", "a/**/x.go")),
		gc(std, "", false, in("**")),
		gc(std, "", false, in("plz-out/*.go", "plz-out/**", "*/g.go", "*/*/*/g.go")),
		gc(std, "", false, in("pkg/*.go", "pkg*/*.go", "*/*.go")),
		gc(std, "", false, in("**/*.go"), "*_test.go", "a/b"),
		gc(std, "pkg/sub", false, in("**/*.go", "*.go")),
		gc(odd, "", false, in("x/*.go", "**/w.go")),
		gc(odd, "", false, in("q/*.go")),
		gc(odd, "", false, in("n/**", "n/*.go")),
	}
}

// ---------------------------------------------------------------------------------------------

func TestC21(t *testing.T) {
	iplib.Quiet()
	r := lib.Start("C21")
	defer lib.End(t, r)
	r.Rule = "a case = (generated tree, package, includes, excludes, hidden); trees hold subpackages next to look-alike siblings (sub, subx, sub.go), hidden files/dirs at depth, #x# files, names with ( ) $ ^ { } | + . space [ ], symlinks, plz-out at the repo root; patterns are generalisations of the tree's own paths (*, prefix*, *suffix, ?, [class], [^class], ** for a possibly empty run of directories) plus stock and a few undefined patterns; distinct by the whole case; non-trivial = the reference requires at least one file to be returned and at least one matching-looking candidate (hidden, excluded, subpackage or unmatched) not to be"
	r.Assumes = []string{
		"fs.Glob is entered as the builtin enters it: cwd = repo root, rootPath = package name, build file names appended to excludes, includeSymlinks = true",
		"directories in the result are ignored (sources may be directories; the statement speaks of files)",
		"symlinks (include_symlinks is undocumented), `#x#` with hidden=False, excludes that literally name the file or a parent directory, trailing ** matching nothing, nested dirs called plz-out: either outcome accepted",
	}
	scratch := r.Scratch()
	if err := os.Chdir(scratch); err != nil {
		t.Fatal(err)
	}
	defer os.Chdir("/")
	seq := 0
	materialise := func(tr tree, build map[string]string) (string, error) {
		seq++
		root := filepath.Join(scratch, fmt.Sprintf("t%d", seq), "repo")
		return root, writeTree(root, tr, build)
	}

	// checkCase compares one case; cwd must be the materialised tree.
	checkCase := func(i int, c globCase, stream string, call func(pkg string, inc, exc []string, hidden bool) globResult) {
		e := expect(c)
		sure, open := c.Tree.candidates(c.Pkg)
		res := call(c.Pkg, c.Includes, c.Excludes, c.Hidden)
		r.Obs("glob_calls", 1)
		nYes, nNo := 0, 0
		for _, w := range e.want {
			if w == yes {
				nYes++
			} else if w == no {
				nNo++
			}
		}
		r.Case(stream+":"+lib.JSON(c), e.defined && nYes > 0 && nNo > 0)
		if !e.defined {
			r.Obs("undefined_pattern_cases", 1)
		}
		if res.err != "" {
			r.Obs("clean_errors", 1)
			if e.defined {
				key := "error/defined-pattern-rejected"
				for _, p := range append(append([]string(nil), c.Includes...), c.Excludes...) {
					if strings.Contains(p, "**") && strings.Contains(res.err, p) {
						if strings.ContainsAny(stripClasses(p), regexChars) {
							key = "doublestar/unescaped-regex-metachar"
						}
					}
				}
				r.Violation(key, fmt.Sprintf("glob(%q, exclude=%q) in //%s failed: %s", c.Includes, c.Excludes, c.Pkg, res.err), c, i)
			}
			return
		}
		got := map[string]bool{}
		for _, n := range res.names {
			got[n] = true
		}
		r.Obs("names_returned", int64(len(res.names)))
		if r.WantSample() && e.defined && nYes > 0 && nNo > 2 && len(c.Excludes) > 0 {
			r.Sample(map[string]any{"pkg": c.Pkg, "includes": c.Includes, "excludes": c.Excludes, "hidden": c.Hidden, "returned": res.names, "tree_files": c.Tree.Files})
		}
		report := func(key, what string, f string) {
			r.Violation(key, fmt.Sprintf("glob(%q, exclude=%q, hidden=%v) in //%s: %s %q", c.Includes, c.Excludes, c.Hidden, c.Pkg, what, f),
				map[string]any{"case": c, "returned": res.names, "file": f}, i)
		}
		// 1. never-clauses and membership, for every pattern
		names := append([]string(nil), res.names...)
		sort.Strings(names)
		for _, n := range names {
			full := join(c.Pkg, n)
			if sure[n] || open[n] {
				continue
			}
			if c.Tree.isDir(full) {
				r.Obs("directories_returned_ignored", 1)
				continue
			}
			if n == "." || n == c.Pkg {
				// the walk lists the package directory itself; it comes back untrimmed when a pattern matches it
				r.Obs("package_directory_itself_returned_ignored", 1)
				continue
			}
			// not one of the package's own files
			switch {
			case c.Pkg == "" && (n == "plz-out" || strings.HasPrefix(n, "plz-out/")):
				report("plz-out/returned", "returned a file under plz-out:", n)
			case contains(c.Tree.Files, full) || c.Tree.Links[full] != "":
				owner := ""
				for d := parentOf(full); d != c.Pkg; d = parentOf(d) {
					if c.Tree.packages()[d] {
						owner = d
					}
				}
				report("subpackage/returned", "returned a file owned by subpackage //"+owner+":", n)
			default:
				report("returned/nonexistent", "returned a name that is not a file of the tree:", n)
			}
		}
		// 2. exact comparison
		var files []string
		for f := range e.want {
			files = append(files, f)
		}
		sort.Strings(files)
		visible := map[string]bool{}
		haveVisible := false
		for _, f := range files {
			w := e.want[f]
			if w == either || (w == yes) == got[f] {
				continue
			}
			if w == no {
				// returned but must not be
				switch {
				case !c.Hidden && hiddenByDot(f):
					key := "hidden/file"
					if hiddenByDot(parentOf(f)) && parentOf(f) != "" {
						// how was the hidden directory reached?
						key = "hidden-dir/named-literally"
						for _, p := range c.Includes {
							one := call(c.Pkg, []string{p}, nil, false)
							if !contains(one.names, f) {
								continue
							}
							// is the hidden directory's own segment spelled out in this pattern?
							ps := strings.Split(p, "/")
							fs := strings.Split(f, "/")
							spelled := len(ps) == len(fs)
							for k := range fs[:len(fs)-1] {
								if strings.HasPrefix(fs[k], ".") && (!spelled || strings.ContainsAny(ps[k], "*?[")) {
									spelled = false
								}
							}
							if !spelled {
								key = "hidden-dir/via-wildcard"
							}
						}
					}
					report(key, "returned a hidden file or a file inside a hidden directory:", f)
				case e.excBy[f] >= 0:
					// which single exclude should have removed it?
					x := c.Excludes[e.excBy[f]]
					xs, _ := parsePattern(x)
					feat := patternFeature("exclude", x, xs, f, false)
					if !strings.Contains(x, "/") {
						feat = "exclude/basename-pattern-fails-to-match"
					}
					report(feat, fmt.Sprintf("exclude %q should have removed", x), f)
				default:
					// no include selects it per the reference: find the include that does in the code
					feat := "include/unexplained-match"
					for _, p := range c.Includes {
						one := call(c.Pkg, []string{p}, nil, true)
						if contains(one.names, f) {
							ps, _ := parsePattern(p)
							feat = patternFeature("include", p, ps, f, true)
							break
						}
					}
					report(feat, "no include pattern selects", f)
				}
				continue
			}
			// w == yes but not returned
			if !haveVisible {
				haveVisible = true
				for _, n := range call(c.Pkg, []string{"**"}, nil, true).names {
					visible[n] = true
				}
			}
			p := c.Includes[e.incBy[f]]
			ps, _ := parsePattern(p)
			switch {
			case !visible[f]:
				// the walk itself lost the file
				key := "walk/file-lost-unexplained"
				for d := parentOf(join(c.Pkg, f)); d != c.Pkg && d != ""; d = parentOf(d) {
					for _, b := range buildFileNames {
						if c.Tree.isDir(join(d, b)) {
							key = "walk/dir-named-like-build-file-makes-subpackage"
						}
					}
				}
				if c.Pkg == "" {
					for d := parentOf(f); ; d = parentOf(d) {
						if contains(c.Tree.Files, join(d, "plz-out")) {
							key = "walk/file-named-plz-out-hides-siblings"
						}
						if d == "" {
							break
						}
					}
				}
				report(key, "never seen by the walk (glob(\"**\", hidden=True) does not return it either):", f)
			case !contains(call(c.Pkg, []string{p}, nil, true).names, f):
				report(patternFeature("include", p, ps, f, false), fmt.Sprintf("include %q should select", p), f)
			default:
				// selected alone; lost to an exclude or to the hidden filter
				key := "exclude/unexplained-over-exclusion"
				for _, x := range c.Excludes {
					if !contains(call(c.Pkg, []string{p}, []string{x}, true).names, f) {
						xs, _ := parsePattern(x)
						key = patternFeature("exclude", x, xs, f, true)
						if !strings.Contains(x, "/") {
							key = "exclude/basename-pattern-matches-unexpectedly"
						}
						break
					}
				}
				if key == "exclude/unexplained-over-exclusion" && !contains(call(c.Pkg, []string{p}, nil, c.Hidden).names, f) {
					key = "hidden/visible-file-filtered"
				}
				report(key, "selected by an include, removed although no exclude pattern matches:", f)
			}
		}
	}

	inProcess := func(pkg string, inc, exc []string, hidden bool) globResult { return realGlob(pkg, inc, exc, hidden) }
	withTree := func(tr tree, f func()) {
		root, err := materialise(tr, nil)
		defer os.RemoveAll(filepath.Dir(root))
		if err != nil {
			r.Inconclusive("cannot materialise tree: " + err.Error())
			return
		}
		if err := os.Chdir(root); err != nil {
			r.Inconclusive(err.Error())
			return
		}
		defer os.Chdir(scratch)
		f()
	}

	ds := directed()
	r.ForEach("directed", len(ds), 1, func(i int, rng *rand.Rand) {
		withTree(ds[i].Tree, func() { checkCase(i, ds[i], "directed", inProcess) })
	})

	nTrees := r.Pick(500, 20000)
	perPkg := r.Pick(10, 20)
	r.ForEach("trees", nTrees, 1, func(i int, rng *rand.Rand) {
		tr, pkgs := genTree(rng)
		r.Obs("trees", 1)
		withTree(tr, func() {
			for _, pkg := range pkgs {
				for k := 0; k < perPkg; k++ {
					checkCase(i, genCase(rng, tr, pkg), "trees", inProcess)
				}
			}
		})
	})
	r.RequireObserved("glob_calls", "names_returned", "trees")

	// End-to-end sample: the glob() builtin itself, through plz query print.
	nE2E := r.Pick(8, 200)
	r.ForEach("e2e", nE2E, 1, func(i int, rng *rand.Rand) {
		var tr tree
		var cases []globCase
		if i < 2 {
			tr = ds[0].Tree
			for _, j := range [][]int{{1, 8, 13, 17, 26, 27}, {33, 34, 37, 38, 39}}[i] {
				cases = append(cases, ds[j])
			}
		} else {
			var pkgs []string
			tr, pkgs = genTree(rng)
			for _, pkg := range pkgs {
				for k := 0; k < 4; k++ {
					c := genCase(rng, tr, pkg)
					if e := expect(c); e.defined {
						cases = append(cases, c)
					}
				}
			}
		}
		// one BUILD file per package with one filegroup per case
		build := map[string]string{}
		for p := range tr.packages() {
			build[p] = "# generated\n"
		}
		names := make([]string, len(cases))
		for k, c := range cases {
			names[k] = fmt.Sprintf("g%d", k)
			build[c.Pkg] += fmt.Sprintf("genrule(name = %q, outs = [%q], cmd = \"touch $OUT\", srcs = glob(include = %s, exclude = %s, hidden = %s, allow_empty = True))\n",
				names[k], names[k]+".out", aspList(c.Includes), aspList(c.Excludes), map[bool]string{true: "True", false: "False"}[c.Hidden])
		}
		root, err := materialise(tr, build)
		defer os.RemoveAll(filepath.Dir(root))
		if err != nil {
			r.Inconclusive("cannot materialise tree: " + err.Error())
			return
		}
		if err := os.WriteFile(filepath.Join(root, ".plzconfig"), []byte(lib.DefaultPlzConfig), 0o644); err != nil {
			r.Inconclusive(err.Error())
			return
		}
		args := []string{"query", "print", "--json", "-f", "srcs"}
		for k, c := range cases {
			args = append(args, "//"+c.Pkg+":"+names[k])
		}
		res := lib.PlzCmd{Bin: lib.PlzBin(false), Dir: root, Args: args}.Run()
		if res.Exit != 0 || res.TimedOut {
			r.Inconclusive(fmt.Sprintf("e2e case %d: plz query print exited %d: %s", i, res.Exit, lib.Tail(res.Stderr, 500)))
			return
		}
		var out map[string]struct {
			Srcs []string `json:"srcs"`
		}
		if err := json.Unmarshal([]byte(res.Stdout), &out); err != nil {
			r.Inconclusive(fmt.Sprintf("e2e case %d: cannot decode plz output: %v", i, err))
			return
		}
		r.Obs("e2e_invocations", 1)
		if err := os.Chdir(root); err != nil {
			r.Inconclusive(err.Error())
			return
		}
		defer os.Chdir(scratch)
		for k, c := range cases {
			label := "//" + c.Pkg + ":" + names[k]
			o, ok := out[label]
			if !ok {
				r.Inconclusive("e2e: no output for " + label)
				continue
			}
			r.Obs("e2e_globs_evaluated", 1)
			first := true
			checkCase(i, c, "e2e", func(pkg string, inc, exc []string, hidden bool) globResult {
				if first { // the main call is answered by the builtin; the key-finding probes run in-process
					first = false
					// .plzconfig at the repository root is written by this harness, not part of the generated
					// tree: a hidden=True glob in the root package legitimately returns it.
					names := o.Srcs
					if c.Pkg == "" {
						names = nil
						for _, n := range o.Srcs {
							if n != ".plzconfig" {
								names = append(names, n)
							}
						}
					}
					return globResult{names: names}
				}
				return realGlob(pkg, inc, exc, hidden)
			})
		}
	})
	r.RequireObserved("e2e_invocations", "e2e_globs_evaluated")
}

func aspList(l []string) string {
	q := make([]string, len(l))
	for i, s := range l {
		q[i] = `"` + strings.NewReplacer(`\`, `\\`, `"`, `\"`).Replace(s) + `"`
	}
	return "[" + strings.Join(q, ", ") + "]"
}

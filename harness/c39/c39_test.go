// C39 — configuration layering follows the documented precedence.
// Monitor: generated layerings of config files (machine, user, .plzconfig, .plzconfig_<arch>,
// .plzconfig.local, each with profile files, decoy profile files that were not requested) and -o
// overrides. In-process: core.ReadConfigFiles over a harness fs.FS that serves the generated
// contents for exactly the default file names, then ApplyOverrides, fields read by reflection.
// End to end: the repo-level layers + HOME-redirected user file + --profile + -o, read back with
// `plz query config --json`. Oracle: a reference that applies the sources in the documented order
// (single-valued: last source wins; repeated: accumulate, a blank value resets, an override replaces
// the list; documented defaults only where no source sets the option).
package c39

import (
	"encoding/json"
	"fmt"
	"io"
	"io/fs"
	"math/rand"
	"os"
	"path/filepath"
	"reflect"
	"runtime"
	"sort"
	"strconv"
	"strings"
	"sync"
	"testing"
	"time"

	"github.com/thought-machine/please/src/core"

	"verifharness/e2e"
	"verifharness/iplib"
	"verifharness/lib"
)

// ---------------------------------------------------------------------------------------------
// Option pool

type opt struct {
	Sec, Name string
	Kind      string // str | int | bool | dur | list
	// Def is the documented default in canonical form (docs/config.html), "" when the documentation
	// gives none that the monitor may assert (then an unset option is not compared).
	Def string
	// CodeDefault marks repeated options to which ReadConfigFiles applies a default when the list
	// ends up empty; "emptied by a blank value" is then indistinguishable from "never set".
	CodeDefault bool
	Map         bool // section is a free-form map (buildconfig / buildenv)
}

func (o opt) key() string { return o.Sec + "." + o.Name }

var pool = []opt{
	{Sec: "build", Name: "lang", Kind: "str", Def: "en_GB.UTF-8"},
	{Sec: "build", Name: "config", Kind: "str", Def: "opt"},
	{Sec: "build", Name: "fallbackconfig", Kind: "str", Def: "opt"},
	{Sec: "build", Name: "nonce", Kind: "str"},
	{Sec: "build", Name: "linkgeneratedsources", Kind: "str"},
	{Sec: "display", Name: "colourscheme", Kind: "str", Def: "dark"},
	{Sec: "remote", Name: "instance", Kind: "str"},
	{Sec: "remote", Name: "name", Kind: "str"},
	{Sec: "cache", Name: "storecommand", Kind: "str"},
	{Sec: "cache", Name: "httpurl", Kind: "str"},
	{Sec: "please", Name: "defaultrepo", Kind: "str"},
	{Sec: "please", Name: "downloadlocation", Kind: "str", Def: "https://get.please.build"},
	{Sec: "buildconfig", Name: "vk-one", Kind: "str", Map: true},
	{Sec: "buildenv", Name: "vk-two", Kind: "str", Map: true},
	{Sec: "please", Name: "numoldversions", Kind: "int", Def: "10"},
	{Sec: "please", Name: "numthreads", Kind: "int"},
	{Sec: "parse", Name: "numthreads", Kind: "int"},
	{Sec: "display", Name: "maxworkers", Kind: "int"},
	{Sec: "build", Name: "paralleldownloads", Kind: "int"},
	{Sec: "remote", Name: "numexecutors", Kind: "int"},
	{Sec: "cache", Name: "httpretry", Kind: "int"},
	{Sec: "please", Name: "autoclean", Kind: "bool", Def: "true"},
	{Sec: "please", Name: "selfupdate", Kind: "bool"},
	{Sec: "parse", Name: "gitfunctions", Kind: "bool", Def: "true"},
	{Sec: "build", Name: "xattrs", Kind: "bool"},
	{Sec: "build", Name: "exitonerror", Kind: "bool"},
	{Sec: "cache", Name: "dircompress", Kind: "bool"},
	{Sec: "display", Name: "updatetitle", Kind: "bool"},
	{Sec: "build", Name: "timeout", Kind: "dur", Def: "600"},
	{Sec: "test", Name: "timeout", Kind: "dur"},
	{Sec: "cache", Name: "httptimeout", Kind: "dur"},
	{Sec: "remote", Name: "timeout", Kind: "dur"},
	{Sec: "build", Name: "path", Kind: "list", Def: "/usr/local/bin:/usr/bin:/bin", CodeDefault: true},
	{Sec: "build", Name: "passenv", Kind: "list"},
	{Sec: "build", Name: "passunsafeenv", Kind: "list"},
	{Sec: "parse", Name: "buildfilename", Kind: "list", CodeDefault: true},
	{Sec: "parse", Name: "blacklistdirs", Kind: "list"},
	{Sec: "parse", Name: "experimentaldir", Kind: "list"},
	{Sec: "parse", Name: "preloadbuilddefs", Kind: "list"},
	{Sec: "parse", Name: "builddefsdir", Kind: "list", Def: "build_defs", CodeDefault: true},
	{Sec: "please", Name: "motd", Kind: "list"},
	{Sec: "please", Name: "pluginrepo", Kind: "list", CodeDefault: true},
	{Sec: "please", Name: "versionchecksum", Kind: "list"},
	{Sec: "cover", Name: "fileextension", Kind: "list", CodeDefault: true},
	{Sec: "cover", Name: "excludeextension", Kind: "list", CodeDefault: true},
	{Sec: "cover", Name: "excludeglob", Kind: "list"},
	{Sec: "gc", Name: "keeplabel", Kind: "list"},
	{Sec: "sandbox", Name: "dir", Kind: "list"},
	{Sec: "remote", Name: "platform", Kind: "list"},
	{Sec: "licences", Name: "accept", Kind: "list"},
}

// ---------------------------------------------------------------------------------------------
// Sources, in the documented order (docs/config.html, lowest priority first; each profile file right
// after the file it belongs to; command-line overrides last).

var bases = []string{"machine", "user", "repo", "arch", "local"}

type line struct {
	Opt   int    `json:"-"`
	Key   string `json:"option"`
	Blank bool   `json:"blank,omitempty"`
	Value string `json:"value,omitempty"`
}

type source struct {
	Tag     string `json:"source"`  // machine | machine+<profile> | ... | decoy:<base>
	Base    string `json:"base"`    // which base file it belongs to
	Profile string `json:"profile"` // "" for the base file itself
	Decoy   bool   `json:"decoy,omitempty"`
	Lines   []line `json:"lines"`
	Text    string `json:"text"`
}

type layering struct {
	Profiles  []string          `json:"profiles"`
	Sources   []*source         `json:"sources"` // documented application order; decoys last
	Overrides map[string]string `json:"overrides,omitempty"`
	Opts      []int             `json:"-"`
	OptKeys   []string          `json:"options"`
	E2E       bool              `json:"e2e,omitempty"`
}

var profileNames = []string{"remote", "ci", "dev", "x"}
var decoyNames = []string{"other", "ci2", "remot", "emote", "loca"}

// normTag makes a source tag independent of the generated profile name.
func normTag(s *source) string {
	switch {
	case s == nil:
		return "none"
	case s.Decoy:
		return s.Base + "+unrequested-profile"
	case s.Profile != "":
		return s.Base + "+profile"
	}
	return s.Base
}

func spellBool(rng *rand.Rand, v bool) string {
	t := []string{"true", "True", "yes", "on", "1", "TRUE"}
	f := []string{"false", "False", "no", "off", "0", "NO"}
	if v {
		return t[rng.Intn(len(t))]
	}
	return f[rng.Intn(len(f))]
}

func parseBool(s string) bool {
	switch strings.ToLower(s) {
	case "true", "yes", "on", "1":
		return true
	}
	return false
}

func token(rng *rand.Rand) string {
	const a = "abcdefghijklmnopqrstuvwxyz0123456789"
	b := make([]byte, 5)
	for i := range b {
		b[i] = a[rng.Intn(len(a))]
	}
	return string(b)
}

// value makes a value for option o set by the source with the given index; string, int and duration
// values identify their source so that a mismatch can name the source whose value won.
func value(rng *rand.Rand, o opt, srcIdx int, k int) string {
	switch o.Kind {
	case "str":
		if o.key() == "cache.httpurl" || o.key() == "please.downloadlocation" {
			return fmt.Sprintf("https://s%d.example/%s", srcIdx, token(rng))
		}
		return fmt.Sprintf("s%d-%s", srcIdx, token(rng))
	case "int":
		return strconv.Itoa((srcIdx+1)*1000 + rng.Intn(999) + 1)
	case "dur":
		n := (srcIdx+1)*1000 + rng.Intn(999) + 1
		if rng.Intn(2) == 0 {
			return strconv.Itoa(n) + "s"
		}
		return strconv.Itoa(n) // the documented form: seconds
	case "bool":
		return spellBool(rng, rng.Intn(2) == 0)
	case "list":
		return fmt.Sprintf("/l%d/%s.%d", srcIdx, token(rng), k)
	}
	panic(o.Kind)
}

// srcOfValue recovers the source index baked into a value (or -1).
func srcOfValue(o opt, canon string) int {
	switch o.Kind {
	case "str":
		var n int
		if _, err := fmt.Sscanf(canon, "s%d-", &n); err == nil {
			return n
		}
		if _, err := fmt.Sscanf(canon, "https://s%d.example/", &n); err == nil {
			return n
		}
	case "int", "dur":
		if n, err := strconv.Atoi(canon); err == nil && n >= 1000 {
			return n/1000 - 1
		}
	case "list":
		var n int
		if _, err := fmt.Sscanf(canon, "/l%d/", &n); err == nil {
			return n
		}
	}
	return -1
}

func varyCase(rng *rand.Rand, s string) string {
	switch rng.Intn(4) {
	case 0:
		return strings.ToUpper(s)
	case 1:
		return strings.ToUpper(s[:1]) + s[1:]
	}
	return s
}

// render writes the lines as a config file; lines of one option keep their order, sections may be
// opened more than once, section and option names vary in case (documented as case-insensitive).
func render(rng *rand.Rand, lines []line) string {
	var sb strings.Builder
	cur := ""
	for _, l := range lines {
		o := pool[l.Opt]
		if o.Sec != cur || rng.Intn(6) == 0 {
			sec := o.Sec
			if !o.Map {
				sec = varyCase(rng, sec)
			}
			fmt.Fprintf(&sb, "[%s]\n", sec)
			cur = o.Sec
		}
		name := o.Name
		if !o.Map {
			name = varyCase(rng, name)
		}
		if l.Blank {
			sb.WriteString(name + "\n")
		} else if rng.Intn(3) == 0 {
			sb.WriteString(name + "=" + l.Value + "\n")
		} else {
			sb.WriteString(name + " = " + l.Value + "\n")
		}
		if rng.Intn(8) == 0 {
			sb.WriteString("; a comment\n")
		}
	}
	return sb.String()
}

func generate(rng *rand.Rand, e2eCase bool) *layering {
	l := &layering{E2E: e2eCase, Overrides: map[string]string{}}
	switch c := rng.Intn(10); {
	case c < 2:
	case c < 8:
		l.Profiles = []string{profileNames[rng.Intn(len(profileNames))]}
	default:
		p := rng.Perm(len(profileNames))
		l.Profiles = []string{profileNames[p[0]], profileNames[p[1]]}
	}
	for _, b := range bases {
		if e2eCase && b == "machine" {
			continue // /etc is never written; the monitor checks the real one is absent
		}
		l.Sources = append(l.Sources, &source{Tag: b, Base: b})
		for _, p := range l.Profiles {
			l.Sources = append(l.Sources, &source{Tag: b + "+" + p, Base: b, Profile: p})
		}
	}
	nReal := len(l.Sources)
	// profile-looking files that were not requested: near-miss names of the requested profile, or any name when none was
	for _, b := range bases {
		if e2eCase && b == "machine" {
			continue
		}
		if rng.Intn(3) == 0 {
			l.Sources = append(l.Sources, &source{Tag: "decoy:" + b, Base: b, Profile: decoyNames[rng.Intn(len(decoyNames))], Decoy: true})
		}
	}
	// options of this case
	perm := rng.Perm(len(pool))
	no := 3 + rng.Intn(5)
	nList := 0
	for _, oi := range perm {
		if len(l.Opts) == no {
			break
		}
		if pool[oi].Kind == "list" {
			nList++
		}
		l.Opts = append(l.Opts, oi)
	}
	if nList == 0 { // always at least one repeated option
		for _, oi := range perm {
			if pool[oi].Kind == "list" {
				l.Opts[0] = oi
				break
			}
		}
	}
	sort.Ints(l.Opts)
	for _, oi := range l.Opts {
		l.OptKeys = append(l.OptKeys, pool[oi].key())
	}
	for _, oi := range l.Opts {
		o := pool[oi]
		density := []float64{0, 0.25, 0.45, 0.7}[rng.Intn(4)]
		profOwner := map[string]int{} // base -> index of the only profile file of that base that sets this option
		for _, b := range bases {
			if len(l.Profiles) > 0 {
				profOwner[b] = rng.Intn(len(l.Profiles))
			}
		}
		for si, s := range l.Sources {
			if rng.Float64() >= density {
				continue
			}
			if s.Profile != "" && !s.Decoy && len(l.Profiles) > 1 && l.Profiles[profOwner[s.Base]] != s.Profile {
				// with two profiles an option is set in at most one profile file per base file, so that
				// the order among the profile files of one base file (not part of the statement) never matters
				continue
			}
			if o.Kind != "list" {
				s.Lines = append(s.Lines, line{Opt: oi, Key: o.key(), Value: value(rng, o, si, 0)})
				continue
			}
			nv := 1 + rng.Intn(3)
			var ls []line
			for k := 0; k < nv; k++ {
				ls = append(ls, line{Opt: oi, Key: o.key(), Value: value(rng, o, si, k)})
			}
			switch c := rng.Intn(10); {
			case c < 2: // blank first: forget the lower layers, then add
				ls = append([]line{{Opt: oi, Key: o.key(), Blank: true}}, ls...)
			case c == 2: // blank in the middle: also forgets this file's earlier values
				at := 1 + rng.Intn(len(ls))
				ls = append(ls[:at:at], append([]line{{Opt: oi, Key: o.key(), Blank: true}}, ls[at:]...)...)
			case c == 3: // only a blank
				ls = []line{{Opt: oi, Key: o.key(), Blank: true}}
			}
			s.Lines = append(s.Lines, ls...)
		}
		if rng.Intn(4) == 0 {
			k := o.key()
			if rng.Intn(3) == 0 && !o.Map {
				k = varyCase(rng, o.Sec) + "." + varyCase(rng, o.Name)
			}
			si := nReal + len(bases) // index that no file has
			if o.Kind == "list" {
				nv := 1 + rng.Intn(3)
				var vs []string
				for j := 0; j < nv; j++ {
					vs = append(vs, value(rng, o, si, j))
				}
				l.Overrides[k] = strings.Join(vs, ",")
			} else {
				l.Overrides[k] = value(rng, o, si, 0)
			}
		}
	}
	for _, s := range l.Sources {
		// interleave options inside a file, keeping each option's own order
		byOpt := map[int][]line{}
		var order []int
		for _, ln := range s.Lines {
			if _, ok := byOpt[ln.Opt]; !ok {
				order = append(order, ln.Opt)
			}
			byOpt[ln.Opt] = append(byOpt[ln.Opt], ln)
		}
		var out []line
		for len(order) > 0 {
			j := rng.Intn(len(order))
			oi := order[j]
			out = append(out, byOpt[oi][0])
			byOpt[oi] = byOpt[oi][1:]
			if len(byOpt[oi]) == 0 {
				order = append(order[:j], order[j+1:]...)
			}
		}
		s.Lines = out
		s.Text = render(rng, out)
	}
	return l
}

// ---------------------------------------------------------------------------------------------
// Reference model

type expect struct {
	Single    string   // canonical
	List      []string // for repeated options
	Set       bool     // some source (file or override) mentions the option
	Winner    *source  // source of the effective single value (nil = override or default)
	ByOverr   bool
	Setters   int  // number of applied sources that mention it
	Reset     bool // a blank value was applied
	Ambiguous bool // emptied repeated option that has a code default
}

func canon(o opt, raw string) string {
	switch o.Kind {
	case "bool":
		return strconv.FormatBool(parseBool(raw))
	case "dur":
		return strings.TrimSuffix(raw, "s") // seconds
	}
	return raw
}

func reference(l *layering, oi int) expect {
	o := pool[oi]
	var e expect
	for _, s := range l.Sources {
		if s.Decoy {
			continue
		}
		mentioned := false
		for _, ln := range s.Lines {
			if ln.Opt != oi {
				continue
			}
			mentioned = true
			if o.Kind == "list" {
				if ln.Blank {
					e.List = nil
					e.Reset = true
				} else {
					e.List = append(e.List, ln.Value)
				}
			} else {
				e.Single, e.Winner = canon(o, ln.Value), s
			}
		}
		if mentioned {
			e.Set = true
			e.Setters++
		}
	}
	for k, v := range l.Overrides {
		if strings.ToLower(k) != o.key() {
			continue
		}
		e.Set, e.ByOverr = true, true
		e.Setters++
		if o.Kind == "list" {
			e.List = strings.Split(v, ",")
		} else {
			e.Single, e.Winner = canon(o, v), nil
		}
	}
	if o.Kind == "list" && len(e.List) == 0 && e.Set && o.CodeDefault {
		e.Ambiguous = true
	}
	return e
}

// ---------------------------------------------------------------------------------------------
// Reading the effective configuration

// flattenConfig reads every section.field of a Configuration by reflection, in canonical form:
// strings as they are, ints in decimal, bools, durations in seconds, repeated strings as lists.
func flattenConfig(c *core.Configuration) (map[string]string, map[string][]string) {
	single, lists := map[string]string{}, map[string][]string{}
	v := reflect.ValueOf(c).Elem()
	t := v.Type()
	for i := 0; i < t.NumField(); i++ {
		f := t.Field(i)
		if !f.IsExported() {
			continue
		}
		sec := strings.ToLower(f.Name)
		sv := v.Field(i)
		switch sv.Kind() {
		case reflect.Map:
			if sv.Type().Elem().Kind() == reflect.String {
				for _, k := range sv.MapKeys() {
					single[sec+"."+k.String()] = sv.MapIndex(k).String()
				}
			}
		case reflect.Struct:
			for j := 0; j < sv.NumField(); j++ {
				ff := sv.Type().Field(j)
				if !ff.IsExported() {
					continue
				}
				key := sec + "." + strings.ToLower(ff.Name)
				fv := sv.Field(j)
				switch fv.Kind() {
				case reflect.String:
					single[key] = fv.String()
				case reflect.Bool:
					single[key] = strconv.FormatBool(fv.Bool())
				case reflect.Int:
					single[key] = strconv.FormatInt(fv.Int(), 10)
				case reflect.Int64:
					if fv.Type().Name() == "Duration" {
						single[key] = strconv.FormatInt(fv.Int()/int64(time.Second), 10)
					} else {
						single[key] = strconv.FormatInt(fv.Int(), 10)
					}
				case reflect.Slice:
					if fv.Type().Elem().Kind() == reflect.String {
						var ss []string
						for k := 0; k < fv.Len(); k++ {
							ss = append(ss, fv.Index(k).String())
						}
						lists[key] = ss
					}
				}
			}
		}
	}
	return single, lists
}

// flattenJSON does the same for the output of `plz query config --json`.
func flattenJSON(out string) (map[string]string, map[string][]string, error) {
	dec := json.NewDecoder(strings.NewReader(out))
	dec.UseNumber()
	var top map[string]any
	if err := dec.Decode(&top); err != nil {
		return nil, nil, err
	}
	single, lists := map[string]string{}, map[string][]string{}
	for sec, sv := range top {
		m, ok := sv.(map[string]any)
		if !ok {
			continue
		}
		for name, v := range m {
			key := sec + "." + name
			switch x := v.(type) {
			case string:
				single[key] = x
			case bool:
				single[key] = strconv.FormatBool(x)
			case json.Number:
				single[key] = x.String()
			case nil:
				lists[key] = nil
			case []any:
				ss := []string{}
				for _, e := range x {
					if s, ok := e.(string); ok {
						ss = append(ss, s)
					}
				}
				lists[key] = ss
			}
		}
	}
	// durations are printed in nanoseconds
	for _, o := range pool {
		if o.Kind == "dur" {
			if n, err := strconv.ParseInt(single[o.key()], 10, 64); err == nil {
				single[o.key()] = strconv.FormatInt(n/int64(time.Second), 10)
			}
		}
	}
	return single, lists, nil
}

// ---------------------------------------------------------------------------------------------
// The served file system

type memFS struct {
	mu    sync.Mutex
	files map[string]string
	opens []string
	hits  int
	miss  int
}

type memFile struct {
	*strings.Reader
	name string
	size int64
}

func (f *memFile) Close() error               { return nil }
func (f *memFile) Stat() (fs.FileInfo, error) { return memInfo{f.name, f.size}, nil }

type memInfo struct {
	name string
	size int64
}

func (i memInfo) Name() string       { return filepath.Base(i.name) }
func (i memInfo) Size() int64        { return i.size }
func (i memInfo) Mode() fs.FileMode  { return 0o644 }
func (i memInfo) ModTime() time.Time { return time.Time{} }
func (i memInfo) IsDir() bool        { return false }
func (i memInfo) Sys() any           { return nil }

func (m *memFS) Open(name string) (fs.File, error) {
	m.mu.Lock()
	defer m.mu.Unlock()
	c, ok := m.files[name]
	if !ok {
		m.miss++
		return nil, &fs.PathError{Op: "open", Path: name, Err: fs.ErrNotExist}
	}
	m.hits++
	m.opens = append(m.opens, name)
	return &memFile{Reader: strings.NewReader(c), name: name, size: int64(len(c))}, nil
}

var _ io.Reader = (*memFile)(nil)

// ---------------------------------------------------------------------------------------------
// Comparison

func sourceAt(l *layering, idx int) *source {
	if idx >= 0 && idx < len(l.Sources) {
		return l.Sources[idx]
	}
	return nil
}

// compare checks one option of one layering; mode is "ip" or "e2e".
func compare(r *lib.Run, idx int, l *layering, oi int, single map[string]string, lists map[string][]string, wit map[string]any) {
	o := pool[oi]
	e := reference(l, oi)
	r.Obs("options_compared", 1)
	if e.Setters >= 2 {
		r.Obs("options_set_by_two_or_more_sources", 1)
	}
	addWit := func(got any, want any) map[string]any {
		w := map[string]any{}
		for k, v := range wit {
			w[k] = v
		}
		w["option"], w["got"], w["want"] = o.key(), got, want
		return w
	}
	overrideTag := "override"
	if o.Kind != "list" {
		got, present := single[o.key()]
		if !e.Set {
			if o.Def == "" {
				r.Obs("unset_without_documented_default_not_asserted", 1)
				return
			}
			r.Obs("defaults_checked", 1)
			if got != o.Def {
				r.Violation("default/"+o.key(), fmt.Sprintf("%s is %q although no source sets it; the documented default is %q", o.key(), got, o.Def), addWit(got, o.Def), idx)
			}
			return
		}
		r.Obs("single_valued_compared", 1)
		wantTag := overrideTag
		if e.Winner != nil {
			wantTag = normTag(e.Winner)
		}
		r.ObsDistinct("winning_sources", wantTag)
		if present && got == e.Single {
			return
		}
		gotTag := "unknown"
		if o.Kind == "bool" {
			gotTag = "other"
		} else if si := srcOfValue(o, got); si >= 0 {
			if s := sourceAt(l, si); s != nil {
				gotTag = normTag(s)
			} else {
				gotTag = overrideTag
			}
		} else if got == o.Def && o.Def != "" {
			gotTag = "default"
		}
		r.Violation(fmt.Sprintf("single/%s/want=%s/got=%s", o.Kind, wantTag, gotTag),
			fmt.Sprintf("%s is %q; the highest-priority source that sets it (%s) says %q", o.key(), got, wantTag, e.Single), addWit(got, e.Single), idx)
		return
	}
	got := lists[o.key()]
	if !e.Set {
		if o.Def == "" {
			r.Obs("unset_without_documented_default_not_asserted", 1)
			return
		}
		r.Obs("defaults_checked", 1)
		if strings.Join(got, ":") != o.Def {
			r.Violation("default/"+o.key(), fmt.Sprintf("%s is %q although no source sets it; the documented default is %q", o.key(), got, o.Def), addWit(got, o.Def), idx)
		}
		return
	}
	if e.Ambiguous {
		r.Obs("emptied_list_with_code_default_not_asserted", 1)
		return
	}
	r.Obs("repeated_compared", 1)
	if e.Reset {
		r.Obs("repeated_with_blank_reset_compared", 1)
	}
	if e.ByOverr {
		r.Obs("repeated_with_override_compared", 1)
	}
	if o.CodeDefault {
		r.Obs("repeated_with_code_default_and_values_compared", 1)
	}
	if lib.JSON(got) == lib.JSON(e.List) || (len(got) == 0 && len(e.List) == 0) {
		return
	}
	// classify the deviation
	wantSet := map[string]bool{}
	for _, v := range e.List {
		wantSet[v] = true
	}
	gotSet := map[string]bool{}
	for _, v := range got {
		gotSet[v] = true
	}
	class := ""
	for _, v := range got {
		if wantSet[v] {
			continue
		}
		si := srcOfValue(o, v)
		s := sourceAt(l, si)
		switch {
		case si < 0:
			class = "default-kept-although-set"
		case s != nil && s.Decoy:
			class = "unrequested-profile-file-applied/" + s.Base
		case e.ByOverr && s != nil:
			class = "override-did-not-replace"
		case s != nil:
			class = "blank-reset-ignored/" + normTag(s)
		default:
			class = "unexpected-value"
		}
		break
	}
	if class == "" {
		for _, v := range e.List {
			if !gotSet[v] {
				if s := sourceAt(l, srcOfValue(o, v)); s != nil {
					class = "missing-values-of/" + normTag(s)
				} else {
					class = "missing-values-of/override"
				}
				break
			}
		}
	}
	if class == "" && len(got) == len(e.List) {
		for i := range got {
			if got[i] != e.List[i] {
				a, b := sourceAt(l, srcOfValue(o, got[i])), sourceAt(l, srcOfValue(o, e.List[i]))
				class = fmt.Sprintf("order/%s-before-%s", normTag(a), normTag(b))
				break
			}
		}
	}
	if class == "" {
		class = "duplicates"
	}
	r.Violation("repeated/"+class, fmt.Sprintf("%s is %q, the documented layering gives %q", o.key(), got, e.List), addWit(got, e.List), idx)
}

func caseHash(l *layering) string {
	var parts []string
	for _, s := range l.Sources {
		parts = append(parts, s.Tag, s.Profile, s.Text)
	}
	return lib.Hash(append(parts, lib.JSON(l.Overrides), lib.JSON(l.Profiles))...)
}

func nontrivial(l *layering) bool {
	for _, oi := range l.Opts {
		if reference(l, oi).Setters >= 2 {
			return true
		}
	}
	return false
}

func TestC39(t *testing.T) {
	iplib.Quiet()
	r := lib.Start("C39")
	defer lib.End(t, r)
	r.Rule = "case = one generated layering: 3-7 options (>=1 repeated) each set in a random subset of {machine, user, .plzconfig, .plzconfig_<arch>, .plzconfig.local} x {base file, requested profile file(s)}, unrequested profile-looking files, blank resets, -o overrides; distinct by the file contents + profiles + overrides; non-trivial = some option is set by at least two applied sources"
	r.Assumes = []string{
		"in-process: core.ReadConfigFiles(fs, core.VerifDefaultConfigFiles(), profiles) + ApplyOverrides is what plz does (src/please.go readConfig); the fs.FS serves the generated contents for the default names only",
		"only the gcfg subset the generator emits is used (section headers, name = value, bare name as the blank value, ; comments), values are plain tokens, so no parser is re-implemented",
		"documented defaults are asserted only for options where docs/config.html states one; an emptied repeated option that has a built-in default is not asserted (the statement leaves it open)",
	}
	// --- in-process ---
	os.Unsetenv("XDG_CONFIG_DIRS")
	os.Unsetenv("XDG_CONFIG_HOME")
	os.Unsetenv("HTTP_PROXY")
	home := "/vhome/u"
	os.Setenv("HOME", home)
	core.RepoRoot = "/vrepo/root"
	arch := runtime.GOOS + "_" + runtime.GOARCH
	names := map[string]string{
		"machine": "/etc/please/plzconfig",
		"user":    home + "/.config/please/plzconfig",
		"repo":    core.RepoRoot + "/.plzconfig",
		"arch":    core.RepoRoot + "/.plzconfig_" + arch,
		"local":   core.RepoRoot + "/.plzconfig.local",
	}
	defaults := core.VerifDefaultConfigFiles()
	r.Extra("default_config_files", defaults)
	{
		got := map[string]bool{}
		for _, n := range defaults {
			got[n] = true
		}
		for _, b := range bases {
			if !got[names[b]] {
				r.Violation("default-files/missing-"+b, fmt.Sprintf("the default config file list %q lacks the documented location %s", defaults, names[b]), map[string]any{"files": defaults}, 0)
			}
		}
		if len(defaults) != len(bases) {
			r.Inconclusive(fmt.Sprintf("default config file list has %d entries, expected the 5 documented ones: %q", len(defaults), defaults))
		}
	}
	nIP := r.Pick(2500, 80000)
	r.ForEach("layering", nIP, r.Pick(4, 8), func(i int, rng *rand.Rand) {
		l := generate(rng, false)
		mfs := &memFS{files: map[string]string{}}
		for _, s := range l.Sources {
			n := names[s.Base]
			if s.Profile != "" {
				n += "." + s.Profile
			}
			if len(s.Lines) > 0 || rng.Intn(2) == 0 {
				mfs.files[n] = s.Text
			}
		}
		r.Case(caseHash(l), nontrivial(l))
		cfg, err := core.ReadConfigFiles(mfs, defaults, l.Profiles)
		wit := map[string]any{"layering": l, "files": mfs.files, "mode": "in-process"}
		if err != nil {
			wit["error"] = err.Error()
			r.Violation("read-error", "ReadConfigFiles fails on a generated layering: "+err.Error(), wit, i)
			return
		}
		if err := cfg.ApplyOverrides(l.Overrides); err != nil {
			wit["error"] = err.Error()
			r.Violation("override-error", "ApplyOverrides fails: "+err.Error(), wit, i)
			return
		}
		wit["files_opened_in_order"] = mfs.opens
		r.Obs("config_files_served", int64(mfs.hits))
		r.Obs("config_files_absent", int64(mfs.miss))
		r.Obs("overrides_applied", int64(len(l.Overrides)))
		for _, s := range l.Sources {
			if len(s.Lines) == 0 {
				continue
			}
			if s.Decoy {
				r.Obs("unrequested_profile_files_present", 1)
			} else if s.Profile != "" {
				r.Obs("profile_files_with_settings", 1)
			}
		}
		single, lists := flattenConfig(cfg)
		for _, oi := range l.Opts {
			compare(r, i, l, oi, single, lists, wit)
		}
		if r.WantSample() && nontrivial(l) && len(l.Overrides) > 0 {
			r.Sample(map[string]any{"layering": l})
		}
	})
	// --- end to end ---
	if _, err := os.Stat("/etc/please/plzconfig"); err == nil {
		r.Inconclusive("/etc/please/plzconfig exists on this machine; the end-to-end part is skipped")
	} else {
		bin := lib.PlzBin(false)
		nE := r.Pick(24, 400)
		r.ForEach("e2e", nE, 4, func(i int, rng *rand.Rand) {
			l := generate(rng, true)
			sb := e2e.NewSandbox(filepath.Join(r.Scratch(), fmt.Sprintf("e%d", i)))
			defer lib.RemoveAll(sb.Work)
			paths := map[string]string{
				"user":  filepath.Join(sb.Home, ".config/please/plzconfig"),
				"repo":  filepath.Join(sb.Repo, ".plzconfig"),
				"arch":  filepath.Join(sb.Repo, ".plzconfig_"+arch),
				"local": filepath.Join(sb.Repo, ".plzconfig.local"),
			}
			files := map[string]string{}
			for _, s := range l.Sources {
				n := paths[s.Base]
				if s.Profile != "" {
					n += "." + s.Profile
				}
				if len(s.Lines) > 0 || s.Tag == "repo" {
					files[n] = s.Text
				}
			}
			for n, c := range files {
				os.MkdirAll(filepath.Dir(n), 0o755)
				if err := os.WriteFile(n, []byte(c), 0o644); err != nil {
					panic(err)
				}
			}
			args := []string{"query", "config", "--json"}
			for _, p := range l.Profiles {
				args = append(args, "--profile", p)
			}
			for _, k := range sortedKeys(l.Overrides) {
				args = append(args, "-o", k+":"+l.Overrides[k])
			}
			r.Case(caseHash(l), nontrivial(l))
			res := sb.Plz(bin, nil, 120*time.Second, args...)
			wit := map[string]any{"layering": l, "files": files, "mode": "e2e", "args": args}
			if res.TimedOut {
				r.Inconclusive(fmt.Sprintf("e2e %d: plz query config timed out", i))
				return
			}
			if res.Exit != 0 {
				wit["stderr"] = lib.Tail(res.Stderr, 1500)
				r.Violation("e2e/query-config-fails", fmt.Sprintf("plz query config exits %d on a generated layering", res.Exit), wit, i)
				return
			}
			single, lists, err := flattenJSON(res.Stdout)
			if err != nil {
				wit["stdout"] = lib.Tail(res.Stdout, 1500)
				r.Violation("e2e/unparsable-json", "plz query config --json prints something that is not JSON: "+err.Error(), wit, i)
				return
			}
			r.Obs("e2e_invocations", 1)
			for _, oi := range l.Opts {
				compare(r, i, l, oi, single, lists, wit)
			}
		})
		r.RequireObserved("e2e_invocations")
	}
	r.RequireObserved("config_files_served", "single_valued_compared", "repeated_compared", "repeated_with_blank_reset_compared",
		"repeated_with_override_compared", "repeated_with_code_default_and_values_compared", "defaults_checked",
		"profile_files_with_settings", "unrequested_profile_files_present", "options_set_by_two_or_more_sources")
}

func sortedKeys(m map[string]string) []string {
	ks := make([]string, 0, len(m))
	for k := range m {
		ks = append(ks, k)
	}
	sort.Strings(ks)
	return ks
}

// C33 — visibility and test_only restrictions are enforced exactly.
//
// Monitor: generated dependency edges (dependent A -> dependency D) over an adversarial package pool
// (siblings sharing a string prefix, sub- and ancestor packages), with visibility lists built from
// near-misses of A's label (//pkg/..., //pkg:all, //pkg:name, the same for sibling/ancestor packages,
// PUBLIC), hidden dependents `_name#tag` (judged as their parent rule), test_only dependencies,
// test / test_only / plain dependents, dependencies declared as deps, tools or label sources, and
// experimental directories configured inside / outside / next to the packages involved. The real
// BuildTarget.CheckDependencyVisibility(state) decides every edge (and every multi-dependency target)
// and is compared with a reference implementation of the documented rules:
//
//	visible  <=> same package
//	             or (not (D experimental and A not experimental))
//	                and (some visibility entry of D selects A's parent label, PUBLIC = //...,
//	                     or A is in an experimental directory)
//	test_only: D test_only  =>  A is a test or test_only  (A experimental: not decided, see below)
//
// A sample of the same situations is written as real BUILD files and built with the real plz binary;
// exit status and error class must agree with the reference.
//
// Not decided by the statement (never asserted): a plain dependent inside an experimental directory
// depending on a test_only target (the code exempts it, the statement lists no exemption).
package c33

import (
	"fmt"
	"math/rand"
	"os"
	"path/filepath"
	"sort"
	"strings"
	"sync"
	"testing"
	"time"

	"github.com/thought-machine/please/src/core"

	"verifharness/labellib"
	"verifharness/lib"
)

// ---------------------------------------------------------------------------------------------
// Case description.

type node struct {
	Pkg        string   `json:"pkg"`
	Name       string   `json:"name"`
	Test       bool     `json:"test,omitempty"`
	TestOnly   bool     `json:"test_only,omitempty"`
	Visibility []string `json:"visibility,omitempty"` // patterns as written (PUBLIC allowed)
}

func (n node) label() core.BuildLabel { return labellib.L(n.Pkg, n.Name) }
func (n node) String() string         { return "//" + n.Pkg + ":" + n.Name }

type edgeCase struct {
	A    node     `json:"dependent"`
	D    node     `json:"dependency"`
	Via  string   `json:"via"` // dep | tool | src
	Exp  []string `json:"experimental_dirs,omitempty"`
	Note string   `json:"note,omitempty"`
}

// ---------------------------------------------------------------------------------------------
// Reference (docs/basics.html build labels, docs/config.html parse.experimentaldir, the statement).

func refParent(l core.BuildLabel) core.BuildLabel {
	if strings.HasPrefix(l.Name, "_") {
		if i := strings.IndexByte(l.Name, '#'); i > 0 {
			l.Name = strings.TrimLeft(l.Name[:i], "_")
		}
	}
	return l
}

func parsePattern(s string) core.BuildLabel {
	if s == "PUBLIC" {
		return labellib.L("", "...")
	}
	rest := strings.TrimPrefix(s, "//")
	if i := strings.IndexByte(rest, ':'); i >= 0 {
		return labellib.L(rest[:i], rest[i+1:])
	}
	if rest == "..." {
		return labellib.L("", "...")
	}
	return labellib.L(strings.TrimSuffix(rest, "/..."), "...")
}

func experimental(pkg string, dirs []string) bool {
	for _, d := range dirs {
		if d != "" && labellib.Under(pkg, d) {
			return true
		}
	}
	return false
}

type verdict struct {
	Visible  bool
	VisOpen  bool   // a visibility entry names the hidden dependent itself (not its parent): not decided
	VisWhy   string // which rule decided
	TestOnly string // "ok", "violated", "open"
}

func refEdge(e edgeCase) verdict {
	v := verdict{TestOnly: "ok"}
	expA, expD := experimental(e.A.Pkg, e.Exp), experimental(e.D.Pkg, e.Exp)
	switch {
	case e.A.Pkg == e.D.Pkg:
		v.Visible, v.VisWhy = true, "same-package"
	case expD && !expA:
		v.Visible, v.VisWhy = false, "experimental-protect"
	default:
		parent := refParent(e.A.label())
		for _, vs := range e.D.Visibility {
			p := parsePattern(vs)
			if labellib.Selects(p, parent) {
				v.Visible = true
				kind := "exact"
				if vs == "PUBLIC" || p.PackageName == "" && p.Name == "..." {
					kind = "public"
				} else if p.Name == "..." {
					kind = "dots"
				} else if p.Name == "all" {
					kind = "all"
				}
				v.VisWhy = "pattern-" + kind
				if parent != e.A.label() {
					v.VisWhy += "/hidden-parent"
				}
				break
			}
		}
		if !v.Visible && parent != e.A.label() {
			for _, vs := range e.D.Visibility {
				if labellib.Selects(parsePattern(vs), e.A.label()) {
					v.VisOpen = true
				}
			}
		}
		if !v.Visible {
			if expA {
				v.Visible, v.VisOpen, v.VisWhy = true, false, "experimental-exempt"
			} else {
				v.VisWhy = "no-entry:" + nearMiss(e)
			}
		}
	}
	if e.D.TestOnly && !e.A.Test && !e.A.TestOnly {
		if expA {
			v.TestOnly = "open"
		} else {
			v.TestOnly = "violated"
		}
	}
	return v
}

// nearMiss names the closest visibility entry that does not select the dependent (for witness keys).
func nearMiss(e edgeCase) string {
	rank := map[string]int{"unrelated": 1, "root-pattern": 1, "ancestor": 2, "shorter-sibling": 2, "same-package": 3, "subpackage": 3, "sibling-prefix": 4}
	best, bestRank := "none", 0
	for _, vs := range e.D.Visibility {
		p := parsePattern(vs)
		c := labellib.PairClass(p.PackageName, e.A.Pkg)
		kind := "exact"
		if p.Name == "..." {
			kind = "dots"
		} else if p.Name == "all" {
			kind = "all"
		}
		if rank[c] > bestRank {
			best, bestRank = c+"/"+kind, rank[c]
		}
	}
	for _, d := range e.Exp {
		if labellib.PairClass(d, e.A.Pkg) == "sibling-prefix" {
			return best + "+experimental-sibling-prefix"
		}
	}
	return best
}

// ---------------------------------------------------------------------------------------------
// Driving the real code.

type statePool struct {
	mu   sync.Mutex
	free map[string][]*core.BuildState
}

var pool = &statePool{free: map[string][]*core.BuildState{}}

// get returns a BuildState configured with the experimental directories (states are reused with a
// fresh graph: each owns a goroutine, and NewBuildState must not run concurrently).
func (p *statePool) get(exp []string) (*core.BuildState, string) {
	key := strings.Join(exp, ",")
	p.mu.Lock()
	defer p.mu.Unlock()
	if l := p.free[key]; len(l) > 0 {
		s := l[len(l)-1]
		p.free[key] = l[:len(l)-1]
		s.Graph = core.NewGraph()
		return s, key
	}
	config := core.DefaultConfiguration()
	config.Please.NumThreads = 2
	config.Parse.ExperimentalDir = append([]string(nil), exp...)
	s := core.NewBuildState(config)
	// The state's idle cycle detector (fires after 5 s) walks the graph it was created with; give the
	// monitor its own graph so that nothing reads it concurrently.
	s.Graph = core.NewGraph()
	return s, key
}

func (p *statePool) put(key string, s *core.BuildState) {
	p.mu.Lock()
	p.free[key] = append(p.free[key], s)
	p.mu.Unlock()
}

func makeTarget(n node) *core.BuildTarget {
	t := core.NewBuildTarget(n.label())
	if n.Test {
		t.Test = new(core.TestFields)
	}
	t.TestOnly = n.TestOnly
	for _, v := range n.Visibility {
		t.Visibility = append(t.Visibility, parsePattern(v))
	}
	return t
}

func addEdge(a *core.BuildTarget, d core.BuildLabel, via string) {
	switch via {
	case "tool":
		a.AddTool(d)
	case "src":
		a.AddSource(d)
	default:
		a.AddDependency(d)
	}
}

func classify(err error) string {
	if err == nil {
		return "ok"
	}
	msg := err.Error()
	switch {
	case strings.Contains(msg, "marked test_only"):
		return "test_only"
	case strings.Contains(msg, "isn't visible to"):
		return "visibility"
	}
	return "other:" + msg
}

type finding struct {
	key, what string
	w         any
}

// evalReal decides one edge with the real code; the targets are added to the state's graph.
func evalReal(state *core.BuildState, e edgeCase) (canSee bool, got string) {
	a, d := makeTarget(e.A), makeTarget(e.D)
	state.Graph.AddTarget(a)
	state.Graph.AddTarget(d)
	addEdge(a, d.Label, e.Via)
	return a.CanSee(state, d), classify(a.CheckDependencyVisibility(state))
}

func evalFresh(e edgeCase) (bool, string) {
	state, key := pool.get(e.Exp)
	defer pool.put(key, state)
	return evalReal(state, e)
}

// compare returns nil when Please agrees with the reference on the edge.
func compare(e edgeCase, canSee bool, got string) *finding {
	want := refEdge(e)
	desc := fmt.Sprintf("%s (test=%v test_only=%v) -> %s via %s (visibility %v, test_only=%v), experimental dirs %v", e.A, e.A.Test, e.A.TestOnly, e.D, e.Via, e.D.Visibility, e.D.TestOnly, e.Exp)
	w := map[string]any{"edge": e, "reference": want, "can_see": canSee, "check_result": got}
	if want.VisOpen {
		return nil
	}
	if canSee != want.Visible {
		dir := "refused"
		if canSee {
			dir = "allowed"
		}
		return &finding{"visibility/" + dir + "/" + want.VisWhy, fmt.Sprintf("CanSee: %s: Please says visible=%v, reference %v (%s)", desc, canSee, want.Visible, want.VisWhy), w}
	}
	switch {
	case !want.Visible:
		if got != "visibility" {
			return &finding{"check/not-visible-edge-accepted/" + want.VisWhy + "/via-" + e.Via, fmt.Sprintf("CheckDependencyVisibility: %s: reference says not visible (%s), Please returned %q", desc, want.VisWhy, got), w}
		}
	case want.TestOnly == "violated":
		if got != "test_only" {
			return &finding{"check/test_only-edge-accepted/via-" + e.Via + dependentKind(e.A) + expNote(e), fmt.Sprintf("CheckDependencyVisibility: %s: a plain target may not depend on a test_only one, Please returned %q", desc, got), w}
		}
	case want.TestOnly == "open":
		if got != "ok" && got != "test_only" {
			return &finding{"check/unexpected-error", fmt.Sprintf("CheckDependencyVisibility: %s: Please returned %q", desc, got), w}
		}
	default:
		if got != "ok" {
			key := "check/allowed-edge-refused/" + want.VisWhy
			if got == "test_only" {
				key = "check/test_only-refused-although-allowed/via-" + e.Via + dependentKind(e.A)
			}
			return &finding{key, fmt.Sprintf("CheckDependencyVisibility: %s: every rule allows this edge (%s), Please returned %q", desc, want.VisWhy, got), w}
		}
	}
	return nil
}

// expNote marks test_only findings that only arise with an experimental directory configured.
func expNote(e edgeCase) string {
	for _, d := range e.Exp {
		if c := labellib.PairClass(d, e.A.Pkg); c == "sibling-prefix" {
			return "/experimental-sibling-prefix"
		}
	}
	if len(e.Exp) > 0 {
		return "/with-experimental-dir"
	}
	return ""
}

// shrink greedily removes everything from a disagreeing edge that is not needed for the disagreement
// (visibility entries, experimental directories, flags, tool/src declaration, hiddenness), so that the
// witness is minimal and its key names only what matters.
func shrink(e edgeCase) edgeCase {
	disagrees := func(c edgeCase) bool {
		cs, got := evalFresh(c)
		return compare(c, cs, got) != nil
	}
	clone := func(c edgeCase) edgeCase {
		c.D.Visibility = append([]string(nil), c.D.Visibility...)
		c.Exp = append([]string(nil), c.Exp...)
		return c
	}
	for changed := true; changed; {
		changed = false
		var cands []edgeCase
		for i := range e.D.Visibility {
			c := clone(e)
			c.D.Visibility = append(c.D.Visibility[:i], c.D.Visibility[i+1:]...)
			cands = append(cands, c)
		}
		for i := range e.Exp {
			c := clone(e)
			c.Exp = append(c.Exp[:i], c.Exp[i+1:]...)
			cands = append(cands, c)
		}
		if e.A.Test {
			c := clone(e)
			c.A.Test = false
			cands = append(cands, c)
		}
		if e.A.TestOnly {
			c := clone(e)
			c.A.TestOnly = false
			cands = append(cands, c)
		}
		if e.D.TestOnly {
			c := clone(e)
			c.D.TestOnly = false
			cands = append(cands, c)
		}
		if e.Via != "dep" {
			c := clone(e)
			c.Via = "dep"
			cands = append(cands, c)
		}
		if p := refParent(e.A.label()); p.Name != e.A.Name {
			c := clone(e)
			c.A.Name = p.Name
			cands = append(cands, c)
		}
		for _, c := range cands {
			if disagrees(c) {
				e, changed = c, true
				break
			}
		}
	}
	return e
}

const shrinksPerBatch = 3

// checkEdge evaluates one edge with the real code and compares; budget limits how many disagreeing
// edges of the batch are minimised and reported (the rest are only counted).
func checkEdge(r *lib.Run, idx int, state *core.BuildState, e edgeCase, budget *int) {
	want := refEdge(e)
	canSee, got := evalReal(state, e)

	nontrivial := e.A.Pkg != e.D.Pkg && (len(e.D.Visibility) > 0 || len(e.Exp) > 0 || e.D.TestOnly)
	r.Case(lib.JSON(e), nontrivial)
	r.Obs("edges_checked", 1)
	r.ObsDistinct("deciding_rules", strings.SplitN(want.VisWhy, ":", 2)[0]+"|"+want.TestOnly)
	if want.Visible {
		r.Obs("edges_visible", 1)
	} else {
		r.Obs("edges_not_visible", 1)
	}
	if want.TestOnly == "violated" {
		r.Obs("edges_test_only_violated", 1)
	}
	if want.TestOnly == "open" {
		r.Obs("edges_test_only_undecided", 1)
	}
	if r.WantSample() && nontrivial && !want.Visible {
		r.Sample(map[string]any{"edge": e, "reference": want, "please": got})
	}
	f := compare(e, canSee, got)
	if f == nil {
		return
	}
	if *budget <= 0 {
		r.Obs("disagreeing_edges_not_minimised", 1)
		return
	}
	*budget--
	m := shrink(e)
	cs, g := evalFresh(m)
	if f2 := compare(m, cs, g); f2 != nil {
		f = f2
	}
	r.Violation(f.key, f.what, f.w, idx)
}

func dependentKind(a node) string {
	switch {
	case a.Test:
		return "/test-dependent"
	case a.TestOnly:
		return "/test_only-dependent"
	}
	return "/plain-dependent"
}

// ---------------------------------------------------------------------------------------------
// Generator. A generation context fixes the dependent's package and a small menu of experimental
// configurations (so that BuildStates and their graphs can be shared inside a batch); every target
// name carries a unique number so that all edges of a batch live in one graph.

var hiddenForms = []string{"_%s#tag", "_%s#t2", "__%s#z"}
var plainBases = []string{"x", "y", "lib", "x_test"}

// relatives returns packages related to pkg: itself, a subpackage, string-prefix siblings, its parent,
// a shorter sibling, an unrelated one.
func relatives(pkg string) []string {
	out := []string{pkg, pkg + "/sub", pkg + "foo", pkg + "2", pkg + ".q", pkg + "-q", "zz/other"}
	if i := strings.LastIndexByte(pkg, '/'); i > 0 {
		out = append(out, pkg[:i], pkg[:i]+"x")
	}
	if short := pkg[:len(pkg)-1]; short != "" && !strings.HasSuffix(short, "/") {
		out = append(out, short) // shorter sibling
	}
	return out
}

var basePkgs = []string{"p", "p/q", "pfoo", "q/p", "ab/cd", "lib", "third_party/go"}

type genCtx struct {
	aPkg string
	rel  []string
	exps [][]string // menu of experimental configurations; exps[0] is "none"
	uniq int
}

func newGenCtx(rng *rand.Rand) *genCtx {
	g := &genCtx{aPkg: basePkgs[rng.Intn(len(basePkgs))]}
	g.rel = relatives(g.aPkg)
	g.exps = [][]string{nil}
	for k := 0; k < 3; k++ {
		var exp []string
		switch rng.Intn(3) {
		case 0:
			exp = []string{g.rel[rng.Intn(len(g.rel))]}
		case 1:
			drel := relatives(g.rel[1+rng.Intn(len(g.rel)-1)])
			exp = []string{drel[rng.Intn(len(drel))]}
		default:
			exp = []string{g.rel[rng.Intn(len(g.rel))], "experimental"}
		}
		sort.Strings(exp)
		g.exps = append(g.exps, exp)
	}
	return g
}

func (g *genCtx) dependent(rng *rand.Rand) node {
	g.uniq++
	a := node{Pkg: g.aPkg}
	base := fmt.Sprintf("%s%d", plainBases[rng.Intn(len(plainBases))], g.uniq)
	if rng.Intn(3) == 0 {
		a.Name = fmt.Sprintf(hiddenForms[rng.Intn(len(hiddenForms))], base)
	} else {
		a.Name = base
	}
	switch rng.Intn(4) {
	case 0:
		a.Test = true
	case 1:
		a.TestOnly = true
	}
	return a
}

// edgeFor generates a dependency (package, visibility list, flags) around the given dependent.
func (g *genCtx) edgeFor(rng *rand.Rand, a node, exp []string) edgeCase {
	g.uniq++
	e := edgeCase{A: a, Exp: exp}
	// the dependency lives somewhere related to A (rarely in the same package)
	if rng.Intn(8) == 0 {
		e.D.Pkg = a.Pkg
	} else {
		e.D.Pkg = g.rel[1+rng.Intn(len(g.rel)-1)]
	}
	e.D.Name = fmt.Sprintf([]string{"d%d", "dlib%d", "_d%d#gen", "dx%d"}[rng.Intn(4)], g.uniq)
	e.D.TestOnly = rng.Intn(3) == 0
	// visibility entries: near-misses of A's label
	parent := refParent(e.A.label())
	cands := []string{}
	for _, p := range g.rel {
		cands = append(cands, labellib.Pat(p, "..."), labellib.Pat(p, "all"), labellib.Pat(p, e.A.Name), labellib.Pat(p, parent.Name), labellib.Pat(p, "other"))
	}
	cands = append(cands, "PUBLIC", "//...", "//:all", "//"+e.D.Pkg+":all")
	for k, n := 0, rng.Intn(4); k < n; k++ {
		e.D.Visibility = append(e.D.Visibility, cands[rng.Intn(len(cands))])
	}
	e.Via = []string{"dep", "dep", "tool", "src"}[rng.Intn(4)]
	return e
}

func (g *genCtx) pickExp(rng *rand.Rand) []string {
	if rng.Intn(2) == 0 {
		return nil
	}
	return g.exps[rng.Intn(len(g.exps))]
}

// batchStates hands out one BuildState (with one graph) per experimental configuration for a batch.
type batchStates struct {
	m map[string]*core.BuildState
}

func (b *batchStates) get(exp []string) *core.BuildState {
	key := strings.Join(exp, ",")
	if s, ok := b.m[key]; ok {
		return s
	}
	s, _ := pool.get(exp)
	if b.m == nil {
		b.m = map[string]*core.BuildState{}
	}
	b.m[key] = s
	return s
}

func (b *batchStates) release() {
	for k, s := range b.m {
		pool.put(k, s)
	}
	b.m = nil
}

// ---------------------------------------------------------------------------------------------
// Streams.

func edgesStream(r *lib.Run) {
	batches := r.Pick(100, 4000)
	const per = 100
	r.ForEach("edges", batches, 8, func(i int, rng *rand.Rand) {
		g := newGenCtx(rng)
		var bs batchStates
		defer bs.release()
		budget := shrinksPerBatch
		for k := 0; k < per; k++ {
			e := g.edgeFor(rng, g.dependent(rng), g.pickExp(rng))
			checkEdge(r, i, bs.get(e.Exp), e, &budget)
		}
	})
}

// multiStream: targets with several dependencies; the check must fail iff some edge is disallowed,
// whatever its position.
func multiStream(r *lib.Run) {
	batches := r.Pick(40, 2000)
	const per = 50
	r.ForEach("multi", batches, 8, func(i int, rng *rand.Rand) {
		g := newGenCtx(rng)
		var bs batchStates
		defer bs.release()
		for b := 0; b < per; b++ {
			exp := g.pickExp(rng)
			state := bs.get(exp)
			an := g.dependent(rng)
			a := makeTarget(an)
			state.Graph.AddTarget(a)
			k := 2 + rng.Intn(4)
			var edges []edgeCase
			anyBad, anyOpen := false, false
			badWhy := ""
			for j := 0; j < k; j++ {
				e := g.edgeFor(rng, an, exp)
				if rng.Intn(2) == 0 { // mostly harmless edges so that a single bad one stands out
					e.D.Visibility = []string{"PUBLIC"}
					e.D.TestOnly = false
				}
				v := refEdge(e)
				if v.VisOpen {
					anyOpen = true
				} else if !v.Visible || v.TestOnly == "violated" {
					if !anyBad {
						badWhy = fmt.Sprintf("edge %d of %d (%s -> %s)", j+1, k, e.A, e.D)
					}
					anyBad = true
				} else if v.TestOnly == "open" {
					anyOpen = true
				}
				d := makeTarget(e.D)
				state.Graph.AddTarget(d)
				addEdge(a, d.Label, e.Via)
				edges = append(edges, e)
			}
			got := classify(a.CheckDependencyVisibility(state))
			r.Case(lib.JSON(edges), anyBad)
			r.Obs("multi_targets_checked", 1)
			if anyBad {
				r.Obs("multi_targets_with_bad_edge", 1)
			}
			if anyBad && got == "ok" {
				r.Violation("multi/bad-edge-missed", fmt.Sprintf("target %s with %d dependencies: %s is not allowed but the check passed", an, k, badWhy), map[string]any{"edges": edges, "exp": exp}, i)
			} else if !anyBad && !anyOpen && got != "ok" {
				r.Violation("multi/all-allowed-refused", fmt.Sprintf("target %s with %d allowed dependencies was refused: %s", an, k, got), map[string]any{"edges": edges, "exp": exp}, i)
			}
		}
	})
}

// ---------------------------------------------------------------------------------------------
// End to end.

func e2eStream(r *lib.Run) {
	n := r.Pick(6, 80)
	const perRepo = 4
	r.ForEach("e2e", n, 8, func(i int, rng *rand.Rand) {
		// one experimental configuration per repository
		g := newGenCtx(rng)
		exp := g.pickExp(rng)
		var edges []edgeCase
		for len(edges) < perRepo {
			e := g.edgeFor(rng, g.dependent(rng), exp)
			e.D.Name = strings.TrimLeft(strings.ReplaceAll(e.D.Name, "#", "_"), "_")
			if e.Via == "src" {
				e.Via = "dep"
			}
			if v := refEdge(e); v.TestOnly == "open" || v.VisOpen {
				continue
			}
			edges = append(edges, e)
		}
		var ts []labellib.Target
		for _, e := range edges {
			a := labellib.Target{Pkg: e.A.Pkg, Name: e.A.Name, Test: e.A.Test, TestOnly: e.A.TestOnly}
			if e.Via == "tool" {
				a.Tools = []string{e.D.String()}
			} else {
				a.Deps = []string{e.D.String()}
			}
			d := labellib.Target{Pkg: e.D.Pkg, Name: e.D.Name, TestOnly: e.D.TestOnly, Visibility: e.D.Visibility}
			if d.Visibility == nil {
				d.Visibility = []string{}
			}
			ts = append(ts, a, d)
		}
		cfg := ""
		if len(exp) > 0 {
			cfg = "\n[parse]\n"
			for _, d := range exp {
				cfg += "experimentaldir = " + d + "\n"
			}
		}
		root := filepath.Join(r.Scratch(), fmt.Sprintf("e2e-%d", i), "repo")
		if i%2 == 1 {
			// Incremental variant: first the same repository with every dependency public and not test_only is
			// built (all edges are allowed), then only the dependencies' restrictions are put in place. The
			// dependents' own definitions do not change, so they may be reused - but not without being re-checked.
			var open []labellib.Target
			for k, t := range ts {
				if k%2 == 1 { // the dependency of each pair
					t.Visibility = []string{"PUBLIC"}
					t.TestOnly = false
				}
				open = append(open, t)
			}
			if pre, err := labellib.WriteRepo(root, cfg, open); err == nil {
				for _, e := range edges {
					if o, _, tries := pre.BuildOutcome(e.A.String()); o == labellib.BuildOK {
						r.Obs("e2e_prebuilt_with_open_dependencies", 1)
						r.Obs("e2e_builds", int64(tries))
					}
				}
			}
		}
		repo, err := labellib.WriteRepo(root, cfg, ts)
		if err != nil {
			r.Inconclusive("cannot write repo: " + err.Error())
			return
		}
		for _, e := range edges {
			want := refEdge(e)
			outcome, res, tries := repo.BuildOutcome(e.A.String())
			r.Obs("e2e_builds", int64(tries))
			r.Case("e2e|"+lib.JSON(e), true)
			wantClass := labellib.BuildOK
			if !want.Visible {
				wantClass = labellib.BuildVisibility
			} else if want.TestOnly == "violated" {
				wantClass = labellib.BuildTestOnly
			}
			r.ObsDistinct("e2e_outcomes", wantClass)
			if outcome == labellib.BuildOther {
				r.Inconclusive(fmt.Sprintf("e2e case %d: plz build %s failed for another reason: exit %d %s", i, e.A, res.Exit, lib.Tail(res.Stderr, 300)))
				continue
			}
			if outcome != wantClass {
				key := "e2e/" + wantClass + "-expected-got-" + outcome + "/" + strings.SplitN(want.VisWhy, ":", 2)[0]
				if wantClass == labellib.BuildTestOnly || outcome == labellib.BuildTestOnly {
					key = "e2e/" + wantClass + "-expected-got-" + outcome + "/via-" + e.Via + dependentKind(e.A)
				}
				r.Violation(key, fmt.Sprintf("plz build %s: expected %s (%s), got %s; %s -> %s via %s, visibility %v, test_only dep %v, experimental %v; stderr %q",
					e.A, wantClass, want.VisWhy, outcome, e.A, e.D, e.Via, e.D.Visibility, e.D.TestOnly, exp, lib.Tail(res.Stderr, 300)),
					map[string]any{"edge": e, "config": cfg, "exit": res.Exit, "stderr": lib.Tail(res.Stderr, 1500), "targets": ts}, i)
			}
		}
		if os.Getenv("VERIF_KEEP_SCRATCH") == "" {
			lib.RemoveAll(filepath.Dir(root))
		}
	})
}

func TestC33(t *testing.T) {
	labellib.Silence()
	r := lib.Start("C33")
	defer lib.End(t, r)
	r.Rule = "a case is one dependency edge (dependent, dependency with its visibility list and test_only flag, how it is declared, experimental directories), distinct by its JSON; non-trivial when the two targets are in different packages and at least one of visibility list / experimental directory / test_only is in play. multi: one target with 2-5 edges, non-trivial when some edge is disallowed. e2e: one real `plz build` per edge."
	r.Assumes = []string{
		"reference visibility rules from docs/basics.html (patterns by whole path components, PUBLIC = //...) and docs/config.html (experimental directory: may override visibility, nothing outside may depend on it)",
		"hidden dependents _name#tag are judged as their parent rule `name`",
		"a plain dependent inside an experimental directory depending on a test_only target is not decided by the statement and never asserted",
		"targets are built through core's public API in-process; the e2e sample goes through the BUILD parser",
	}
	walls := map[string]float64{}
	for _, st := range []struct {
		name string
		f    func(*lib.Run)
	}{{"edges", edgesStream}, {"multi", multiStream}, {"e2e", e2eStream}} {
		t0 := time.Now()
		st.f(r)
		walls[st.name] = time.Since(t0).Seconds()
	}
	r.Extra("stream_wall_s", walls) // informational only
	r.RequireObserved("edges_checked", "edges_not_visible", "edges_test_only_violated", "multi_targets_with_bad_edge", "e2e_builds")
}

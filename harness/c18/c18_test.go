// C18 — frozen (imported) values behave like ordinary values.
//
// Monitor: every generated value (lists, nested lists, lists of dicts, dicts, dicts of lists, ...) is
// combined with every applicable builtin/operator application. Each application is evaluated by the
// real asp interpreter twice: once with `X = <literal>` in the BUILD file (the ordinary value) and
// once with X arriving through the real subinclude() path (directly as an exported global, as an
// element of an exported dict or list, as the return value of a subincluded function) or from CONFIG.
// The program exports its result with text_file(name="v", content=json({"R": R})); results (and any
// targets defined) must be equal. "Error in both" is vacuous, "error only locally" is an observation.
package c18

import (
	"fmt"
	"math/rand"
	"sort"
	"strings"
	"testing"

	"github.com/thought-machine/please/src/core"

	"verifharness/asplib"
	"verifharness/lib"
)

// Classes of application. Only core and design applications can raise violations.
const (
	core_    = 0 // listed in the property's statement (or the builtin's list/dict argument handling it anchors)
	design   = 1 // listed in DESIGN §3 C18 workload in addition (indexing, slicing, iteration, join, str, json, !=)
	extended = 2 // not listed anywhere: differences are recorded as observations only
)

type shape struct {
	Name   string // generator name, e.g. LI
	Top    string // list | dict
	Nested bool   // contains lists/dicts
	Val    any
}

func (s shape) class() string {
	if s.Nested {
		return s.Top + "-nested"
	}
	return s.Top
}

type app struct {
	Op      string
	Class   int
	Body    string // statements that read X and assign R
	Targets bool   // the body defines targets that must be compared as well
}

var shapeNames = []string{"LI", "LS", "LL", "LM", "LP", "LSP", "LLL", "LD", "LE", "DI", "DS", "DL", "DLL", "DD", "DE"}

// minimal returns the canonical smallest interesting value of a shape (used to minimise witnesses
// and as the exhaustive small scope).
func minimal(name string) shape {
	switch name {
	case "LI":
		return shape{name, "list", false, []any{2, 1}}
	case "LS":
		return shape{name, "list", false, []any{"b", "a"}}
	case "LL":
		return shape{name, "list", false, []any{":b", ":a"}}
	case "LM":
		return shape{name, "list", false, []any{0, "a"}}
	case "LP":
		return shape{name, "list", true, []any{[]any{2, 1}, []any{1, 2}}}
	case "LSP":
		return shape{name, "list", true, []any{[]any{"b", "a"}, []any{"a", "b"}}}
	case "LLL":
		return shape{name, "list", true, []any{[]any{2, 1}, []any{}}}
	case "LD":
		return shape{name, "list", true, []any{map[string]any{"k": 2}, map[string]any{"k": 1}}}
	case "LE":
		return shape{name, "list", false, []any{}}
	case "DI":
		return shape{name, "dict", false, map[string]any{"b": 2, "a": 1}}
	case "DS":
		return shape{name, "dict", false, map[string]any{"b": "y", "a": "x"}}
	case "DL":
		return shape{name, "dict", true, map[string]any{"b": []any{"y", "x"}, "a": []any{"z"}}}
	case "DLL":
		return shape{name, "dict", true, map[string]any{"b": []any{":y", ":x"}, "a": []any{":z"}}}
	case "DD":
		return shape{name, "dict", true, map[string]any{"b": map[string]any{"k": 1}, "a": map[string]any{}}}
	case "DE":
		return shape{name, "dict", false, map[string]any{}}
	}
	panic(name)
}

func genShape(name string, rng *rand.Rand) shape {
	sh := minimal(name)
	n := 1 + rng.Intn(4)
	ints := func(n int) []any {
		out := make([]any, n)
		for i := range out {
			out[i] = asplib.SmallInt(rng)
		}
		return out
	}
	strs := func(n int, prefix string) []any {
		ids := asplib.DistinctIdents(rng, n)
		out := make([]any, len(ids))
		for i, s := range ids {
			out[i] = prefix + s
		}
		return out
	}
	switch name {
	case "LI":
		sh.Val = ints(n)
	case "LS":
		sh.Val = strs(n, "")
	case "LL":
		sh.Val = strs(n, ":")
	case "LM":
		pool := []any{0, 1, "", "a", true, false, nil, 7}
		out := make([]any, n)
		for i := range out {
			out[i] = pool[rng.Intn(len(pool))]
		}
		sh.Val = out
	case "LP":
		out := make([]any, n)
		for i := range out {
			out[i] = ints(2)
		}
		sh.Val = out
	case "LSP":
		out := make([]any, n)
		for i := range out {
			out[i] = strs(2, "")
		}
		sh.Val = out
	case "LLL":
		out := make([]any, n)
		for i := range out {
			out[i] = ints(rng.Intn(4))
		}
		sh.Val = out
	case "LD":
		out := make([]any, n)
		for i := range out {
			d := map[string]any{"k": asplib.SmallInt(rng)}
			if rng.Intn(2) == 0 {
				d[asplib.Ident(rng)] = asplib.Ident(rng)
			}
			out[i] = d
		}
		sh.Val = out
	case "DI", "DS", "DL", "DLL", "DD":
		d := map[string]any{}
		for _, k := range asplib.DistinctIdents(rng, n) {
			switch name {
			case "DI":
				d[k] = asplib.SmallInt(rng)
			case "DS":
				d[k] = asplib.Ident(rng)
			case "DL":
				d[k] = strs(1+rng.Intn(3), "")
			case "DLL":
				d[k] = strs(1+rng.Intn(3), ":")
			case "DD":
				d[k] = map[string]any{"k": asplib.SmallInt(rng)}
			}
		}
		sh.Val = d
	}
	return sh
}

// other returns a value of the same kind that differs from v (for != / == False / + operands).
func other(sh shape) any {
	switch v := sh.Val.(type) {
	case []any:
		out := append([]any{}, v...)
		if len(out) > 0 {
			out = append(out, out[0])
		} else {
			out = append(out, 1)
		}
		return out
	case map[string]any:
		out := map[string]any{}
		for k, e := range v {
			out[k] = e
		}
		out["other"] = 1
		return out
	}
	panic("other")
}

// nearMiss returns a value with the same length/keys as v whose last (deepest) scalar differs.
func nearMiss(v any) any {
	switch x := v.(type) {
	case []any:
		if len(x) == 0 {
			return []any{0}
		}
		out := append([]any{}, x...)
		out[len(out)-1] = nearMiss(out[len(out)-1])
		return out
	case map[string]any:
		if len(x) == 0 {
			return map[string]any{"nm": 0}
		}
		out := map[string]any{}
		last := ""
		for k, e := range x {
			out[k] = e
			if k > last {
				last = k
			}
		}
		out[last] = nearMiss(out[last])
		return out
	case int:
		return x + 1
	case string:
		return x + "_"
	case bool:
		return !x
	}
	return 0
}

func appsFor(sh shape) []app {
	var out []app
	add := func(op string, class int, body string) {
		out = append(out, app{Op: op, Class: class, Body: body})
	}
	expr := func(op string, class int, e string) { add(op, class, "R = "+e+"\n") }
	rule := func(op string, body string) {
		out = append(out, app{Op: op, Class: core_, Body: body + "R = 0\n", Targets: true})
	}
	L := asplib.Lit(sh.Val)
	L2 := asplib.Lit(other(sh))
	L3 := asplib.Lit(nearMiss(sh.Val))

	if sh.Top == "list" {
		l := sh.Val.([]any)
		n := len(l)
		elem := ""
		if n > 0 {
			switch l[0].(type) {
			case int:
				elem = "int"
			case string:
				elem = "str"
			case []any:
				elem = "list"
			case map[string]any:
				elem = "dict"
			}
		}
		if sh.Name == "LM" {
			elem = "mixed"
		}
		keyFn := map[string]string{"int": "lambda e: 0 - e", "str": "lambda e: len(e)", "list": "lambda e: len(e)", "dict": "lambda e: e[\"k\"]"}[elem]

		// --- the statement's list ---
		expr("sorted", core_, "sorted(X)")
		expr("sorted-reverse", core_, "sorted(X, reverse = True)")
		if keyFn != "" {
			expr("sorted-key", core_, "sorted(X, key = "+keyFn+")")
			expr("min-key", core_, "min(X, key = "+keyFn+")")
			expr("max-key", core_, "max(X, key = "+keyFn+")")
		}
		expr("reversed", core_, "reversed(X)")
		expr("enumerate", core_, "enumerate(X)")
		expr("enumerate-unpack", core_, "[[i, e] for i, e in enumerate(X)]")
		expr("any", core_, "any(X)")
		expr("all", core_, "all(X)")
		expr("zip-self", core_, "zip(X, X)")
		expr("zip-lhs", core_, "zip(X, "+L+")")
		expr("zip-rhs", core_, "zip("+L+", X)")
		expr("zip-3", core_, "zip("+L+", X, "+L+")")
		expr("min", core_, "min(X)")
		expr("max", core_, "max(X)")
		expr("map", core_, "map(lambda e: [e, e], X)")
		expr("filter", core_, "filter(lambda e: e, X)")
		expr("reduce", core_, "reduce(lambda a, b: a + b, X)")
		expr("reduce-init", core_, "reduce(lambda a, b: a + [b], X, [])")
		expr("len", core_, "len(X)")
		if n > 0 {
			expr("in-present", core_, asplib.Lit(l[0])+" in X")
			expr("not-in-present", core_, asplib.Lit(l[n-1])+" not in X")
		}
		expr("in-absent", core_, "\"absent\" in X")
		expr("not-in-absent", core_, "12345 not in X")
		expr("add-lhs", core_, "X + "+L2)
		expr("add-rhs", core_, L2+" + X")
		expr("add-self", core_, "X + X")
		expr("add-empty-rhs", core_, "X + []")
		expr("add-empty-lhs", core_, "[] + X")
		add("augadd-into", core_, "R = "+L2+"\nR += X\n")
		add("augadd-onto", core_, "R = X\nR += "+L2+"\n")
		expr("eq-lhs", core_, "X == "+L)
		expr("eq-rhs", core_, L+" == X")
		expr("eq-self", core_, "X == X")
		expr("eq-different", core_, "X == "+L2)
		expr("eq-near-miss-lhs", core_, "X == "+L3)
		expr("eq-near-miss-rhs", core_, L3+" == X")
		expr("ne-near-miss", design, "X != "+L3)
		expr("eq-in-list", core_, "[X] == ["+L+"]")
		expr("eq-in-dict", core_, "{\"a\": X} == {\"a\": "+L+"}")
		expr("eq-copy", core_, "[e for e in X] == X")
		if n > 0 && sh.Nested {
			expr("eq-elem-lhs", core_, "X[0] == "+asplib.Lit(l[0]))
			expr("eq-elem-rhs", core_, asplib.Lit(l[n-1])+" == X[-1]")
		}
		// --- DESIGN's additions ---
		expr("ne-lhs", design, "X != "+L)
		expr("ne-rhs", design, L+" != X")
		expr("ne-different", design, "X != "+L2)
		expr("index-first", design, "X[0]")
		expr("index-last", design, "X[-1]")
		expr("index-len", design, "X[len(X) - 1]")
		expr("slice-tail", design, "X[1:]")
		expr("slice-head", design, "X[:1]")
		expr("slice-all", design, "X[:]")
		expr("slice-neg", design, "X[-1:]")
		expr("slice-both", design, "X[0:len(X)]")
		add("for-stmt", design, "R = []\nfor e in X:\n    R += [e]\n")
		expr("comprehension", design, "[e for e in X]")
		expr("comprehension-if", design, "[e for e in X if e]")
		expr("comprehension-2for", design, "[[a, b] for a in X for b in X]")
		expr("dict-comprehension", design, "{str(e): e for e in X}")
		if elem == "list" && sh.Name != "LLL" {
			expr("comprehension-unpack", design, "[[b, a] for a, b in X]")
			add("for-stmt-unpack", design, "R = []\nfor a, b in X:\n    R += [b, a]\n")
			expr("comprehension-2for-inner", design, "[e for p in X for e in p]")
		}
		if elem == "list" {
			expr("inner-sorted", core_, "[sorted(e) for e in X]")
			expr("inner-len", core_, "[len(e) for e in X]")
			expr("inner-add", core_, "[e + [0] for e in X]")
			expr("inner-slice", design, "[e[:1] for e in X]")
		}
		if elem == "dict" {
			expr("inner-keys", core_, "[e.keys() for e in X]")
			expr("inner-get", core_, "[e.get(\"k\") for e in X]")
			expr("inner-eq", core_, "[e == "+asplib.Lit(l[0])+" for e in X]")
		}
		expr("join", design, "\",\".join(X)")
		expr("join-comprehension", design, "\",\".join([e for e in X])")
		expr("str", design, "str(X)")
		expr("json", design, "json(X)")
		// --- builtins taking list arguments (anchor: asStringList / asList unwrap frozen lists) ---
		if sh.Name == "LS" {
			rule("rule-arg/srcs", "genrule(name = \"g\", srcs = X, outs = [\"o\"], cmd = \"true\")\n")
			rule("rule-arg/outs", "genrule(name = \"g\", outs = X, cmd = \"true\")\n")
			rule("rule-arg/labels", "genrule(name = \"g\", outs = [\"o\"], cmd = \"true\", labels = X)\n")
			rule("rule-arg/pass_env", "genrule(name = \"g\", outs = [\"o\"], cmd = \"true\", pass_env = X)\n")
			rule("rule-arg/output_dirs", "genrule(name = \"g\", outs = [\"o\"], cmd = \"true\", output_dirs = X)\n")
			rule("rule-arg/optional_outs", "build_rule(name = \"g\", outs = [\"o\"], cmd = \"true\", optional_outs = X)\n")
			rule("rule-arg/requires", "genrule(name = \"g\", outs = [\"o\"], cmd = \"true\", requires = X)\n")
			rule("rule-arg/licences", "build_rule(name = \"g\", outs = [\"o\"], cmd = \"true\", licences = X)\n")
			rule("rule-arg/hashes", "genrule(name = \"g\", outs = [\"o\"], cmd = \"true\", hashes = X)\n")
			rule("rule-arg/filegroup-srcs", "filegroup(name = \"g\", srcs = X)\n")
			rule("rule-arg/data", "genrule(name = \"g\", outs = [\"o\"], cmd = \"true\", data = X)\n")
		}
		if sh.Name == "LL" {
			rule("rule-arg/deps", "genrule(name = \"g\", outs = [\"o\"], cmd = \"true\", deps = X)\n")
			rule("rule-arg/exported_deps", "genrule(name = \"g\", outs = [\"o\"], cmd = \"true\", exported_deps = X)\n")
			rule("rule-arg/tools", "genrule(name = \"g\", outs = [\"o\"], cmd = \"true\", tools = X)\n")
			rule("rule-arg/srcs-labels", "genrule(name = \"g\", srcs = X, outs = [\"o\"], cmd = \"true\")\n")
			rule("rule-arg/visibility", "genrule(name = \"g\", outs = [\"o\"], cmd = \"true\", visibility = [\"//\" + e[1:] + \"/...\" for e in X])\n")
			rule("rule-arg/visibility-direct", "genrule(name = \"g\", outs = [\"o\"], cmd = \"true\", visibility = X)\n")
		}
		// --- not listed anywhere: observations only ---
		expr("isinstance-list", extended, "isinstance(X, list)")
		expr("mul-rhs", extended, "X * 2")
		expr("mul-lhs", extended, "2 * X")
		expr("bool", extended, "bool(X)")
		expr("not", extended, "not X")
		expr("or", extended, "X or [1]")
		expr("and", extended, "X and 1")
		expr("ternary", extended, "1 if X else 2")
		expr("format", extended, "\"{}\".format(X)")
		expr("percent-s", extended, "\"%s\" % [X]")
		add("fstring", extended, "R = f\"{X}\"\n")
		if n == 2 {
			add("unpack-assign", extended, "a, b = X\nR = [b, a]\n")
			expr("percent-list", extended, "\"%s-%s\" % X")
		}
		add("lt", extended, "R = X < "+L2+"\n")
		add("call-user-func", extended, "def f(l:list):\n    return [e for e in l]\nR = f(X)\n")
		add("call-user-func-default", extended, "def f(l:list=None):\n    return l\nR = f(X)\n")
		return out
	}

	d := sh.Val.(map[string]any)
	keys := make([]string, 0, len(d))
	for k := range d {
		keys = append(keys, k)
	}
	sort.Strings(keys)
	expr("len", core_, "len(X)")
	if len(keys) > 0 {
		k0 := asplib.StrLit(keys[0])
		expr("in-present", core_, k0+" in X")
		expr("not-in-present", core_, k0+" not in X")
		expr("index", design, "X["+k0+"]")
		expr("get-present", core_, "X.get("+k0+")")
		expr("property", extended, "X."+keys[0])
		if sh.Nested {
			expr("eq-elem-lhs", core_, "X["+k0+"] == "+asplib.Lit(d[keys[0]]))
			expr("eq-elem-rhs", core_, asplib.Lit(d[keys[0]])+" == X["+k0+"]")
		}
		if sh.Name == "DL" || sh.Name == "DLL" {
			expr("elem-sorted", core_, "sorted(X["+k0+"])")
			expr("elem-add", core_, "X["+k0+"] + [\"q\"]")
			expr("elem-slice", design, "X["+k0+"][:1]")
			expr("elem-len", core_, "len(X["+k0+"])")
			expr("elem-join", design, "\",\".join(X["+k0+"])")
			expr("values-sorted", core_, "[sorted(v) for v in X.values()]")
		}
	}
	expr("in-absent", core_, "\"absent\" in X")
	expr("not-in-absent", core_, "\"absent\" not in X")
	expr("get-absent", core_, "X.get(\"absent\", 7)")
	expr("keys", core_, "X.keys()")
	expr("values", core_, "X.values()")
	expr("items", core_, "X.items()")
	expr("copy", core_, "X.copy()")
	add("copy-then-assign", core_, "R = X.copy()\nR[\"new\"] = 1\n")
	expr("sorted-keys", core_, "sorted(X.keys())")
	expr("len-items", core_, "len(X.items())")
	expr("eq-lhs", core_, "X == "+L)
	expr("eq-rhs", core_, L+" == X")
	expr("eq-self", core_, "X == X")
	expr("eq-different", core_, "X == "+L2)
	expr("eq-near-miss-lhs", core_, "X == "+L3)
	expr("eq-near-miss-rhs", core_, L3+" == X")
	expr("ne-near-miss", design, "X != "+L3)
	expr("eq-in-list", core_, "[X] == ["+L+"]")
	expr("eq-in-dict", core_, "{\"a\": X} == {\"a\": "+L+"}")
	expr("eq-copy", core_, "X.copy() == X")
	expr("eq-rebuilt", core_, "{k: v for k, v in X.items()} == X")
	expr("ne-lhs", design, "X != "+L)
	expr("ne-rhs", design, L+" != X")
	expr("ne-different", design, "X != "+L2)
	add("for-items", design, "R = []\nfor k, v in X.items():\n    R += [[v, k]]\n")
	expr("comprehension-items", design, "{k + \"_\": v for k, v in X.items()}")
	expr("comprehension-keys", design, "[k for k in X.keys()]")
	expr("str", design, "str(X)")
	expr("json", design, "json(X)")
	if sh.Name == "DS" {
		rule("rule-arg/env", "genrule(name = \"g\", outs = [\"o\"], cmd = \"true\", env = X)\n")
		rule("rule-arg/cmd-dict", "genrule(name = \"g\", outs = [\"o\"], cmd = X)\n")
		rule("rule-arg/entry_points", "genrule(name = \"g\", outs = [\"o\"], cmd = \"true\", entry_points = X)\n")
		rule("rule-arg/named-srcs-str", "genrule(name = \"g\", srcs = X, outs = [\"o\"], cmd = \"true\")\n")
	}
	if sh.Name == "DL" {
		rule("rule-arg/named-srcs", "genrule(name = \"g\", srcs = X, outs = [\"o\"], cmd = \"true\")\n")
		rule("rule-arg/named-outs", "genrule(name = \"g\", outs = {k: [k + \"_\" + e for e in v] for k, v in X.items()}, cmd = \"true\")\n")
		rule("rule-arg/named-outs-direct", "genrule(name = \"g\", outs = X, cmd = \"true\")\n")
		rule("rule-arg/named-data", "genrule(name = \"g\", outs = [\"o\"], cmd = \"true\", data = X)\n")
		rule("rule-arg/secrets-dict", "build_rule(name = \"g\", outs = [\"o\"], cmd = \"true\", secrets = X)\n")
	}
	if sh.Name == "DLL" {
		rule("rule-arg/named-tools", "genrule(name = \"g\", outs = [\"o\"], cmd = \"true\", tools = X)\n")
		rule("rule-arg/provides-list", "build_rule(name = \"g\", outs = [\"o\"], cmd = \"true\", provides = X)\n")
		rule("rule-arg/named-deps", "genrule(name = \"g\", outs = [\"o\"], cmd = \"true\", deps = X)\n")
	}
	expr("isinstance-dict", extended, "isinstance(X, dict)")
	expr("union-lhs", extended, "X | {\"u\": 1}")
	expr("union-rhs", extended, "{\"u\": 1} | X")
	expr("union-self", extended, "X | X")
	expr("bool", extended, "bool(X)")
	expr("not", extended, "not X")
	expr("or", extended, "X or {\"z\": 1}")
	expr("ternary", extended, "1 if X else 2")
	expr("format", extended, "\"{}\".format(X)")
	add("fstring", extended, "R = f\"{X}\"\n")
	add("call-user-func", extended, "def f(d:dict):\n    return d.keys()\nR = f(X)\n")
	return out
}

// groupOf maps an application to the builtin or operator it exercises; the witness key is
// <group>/<list|dict>/<rejected|wrong-result>, so that all variants that hit the same builtin in the
// same way share one key, and a different failure of the same builtin gets another.
func groupOf(op string) string {
	if strings.HasPrefix(op, "rule-arg/") {
		return op
	}
	suffix := ""
	for _, p := range []string{"inner-", "elem-", "values-"} {
		op = strings.TrimPrefix(op, p) // the builtin applied to an element of X: same builtin, same key
	}
	rules := [][2]string{
		{"sorted", "sorted"}, {"min", "min"}, {"max", "max"}, {"reversed", "reversed"}, {"enumerate", "enumerate"},
		{"any", "any"}, {"all", "all"}, {"zip", "zip"}, {"map", "map"}, {"filter", "filter"}, {"reduce", "reduce"},
		{"len", "len"}, {"in-", "in"}, {"not-in-", "in"}, {"add", "add"}, {"augadd", "add"}, {"eq", "eq"}, {"ne-", "ne"},
		{"index", "index"}, {"slice", "slice"}, {"for-", "iterate"}, {"comprehension", "iterate"}, {"dict-comprehension", "iterate"},
		{"join", "join"}, {"str", "str"}, {"json", "json"}, {"get", "dict-get"}, {"keys", "dict-keys"},
		{"values", "dict-values"}, {"items", "dict-items"}, {"copy", "dict-copy"},
	}
	for _, r := range rules {
		if strings.HasPrefix(op, r[0]) {
			return r[1] + suffix
		}
	}
	return op + suffix
}

// A channel is one way for the value to arrive as an imported value. All channels of one
// application share one subincluded file (defsFor); each literal in it is a distinct object.
type channel struct {
	Name string
	Bind string // statements in the BUILD file after subinclude() that bind X
}

func defsFor(lit string) string {
	return "X0 = " + lit + "\nWD = {\"w\": " + lit + "}\nWL = [" + lit + "]\n_V = " + lit + "\ndef get():\n    return _V\nWG = {\"w\": " + lit + "}\nWI = {\"w\": " + lit + "}\n"
}

var channels = []channel{
	{"direct", "X = X0\n"},
	{"dict-elem", "X = WD[\"w\"]\n"},
	{"list-elem", "X = WL[0]\n"},
	{"func-return", "X = get()\n"},
	{"dict-get", "X = WG.get(\"w\")\n"},
	{"items-value", "X = WI.items()[0][1]\n"},
}

const export = "text_file(name = \"v\", content = json({\"R\": R}))\n"

type outcome struct {
	res asplib.Result
	src string
	def string
	pkg string
}

// normTargets replaces the (necessarily different) package names in the target dumps.
func normTargets(o outcome) map[string]string {
	out := map[string]string{}
	for k, v := range o.res.Targets {
		out[k] = strings.ReplaceAll(v, "//"+o.pkg+":", "//PKG:")
	}
	return out
}

func same(a, b outcome, targets bool) bool {
	if !asplib.JSONEqual(a.res.Export, b.res.Export) {
		return false
	}
	if !targets {
		return true
	}
	at, bt := normTargets(a), normTargets(b)
	if len(at) != len(bt) {
		return false
	}
	for k, v := range at {
		if bt[k] != v {
			return false
		}
	}
	return true
}

type runner struct {
	r    *lib.Run
	env  *asplib.Env
	base string // package prefix of this case
	seq  int
}

func (rn *runner) local(sh shape, a app) outcome {
	rn.seq++
	pkg := fmt.Sprintf("%s/l%d", rn.base, rn.seq)
	src := "X = " + asplib.Lit(sh.Val) + "\n" + a.Body + export
	return outcome{res: rn.env.ParseSource(pkg, src), src: src, pkg: pkg}
}

// newDefs writes the subincluded file for one application and registers its target.
func (rn *runner) newDefs(sh shape) (name, def string) {
	rn.seq++
	name = fmt.Sprintf("d%d", rn.seq)
	def = defsFor(asplib.Lit(sh.Val))
	asplib.WriteDefs(rn.base, name, def)
	rn.env.AddDefs(rn.base, name)
	return name, def
}

func (rn *runner) imported(name, def string, a app, ch channel) outcome {
	rn.seq++
	pkg := fmt.Sprintf("%s/m%d", rn.base, rn.seq)
	src := "subinclude(\"//" + rn.base + ":" + name + "\")\n" + ch.Bind + a.Body + export
	return outcome{res: rn.env.ParseSource(pkg, src), src: src, def: def, pkg: pkg}
}

func describe(o outcome) string {
	if o.res.Err != "" {
		return "ERROR " + o.res.Err
	}
	s := o.res.Export
	if len(o.res.Targets) > 0 {
		s += " targets=" + fmt.Sprint(normTargets(o))
	}
	return s
}

// check evaluates all applications of one value through every channel.
func check(r *lib.Run, idx int, prefix string, sh shape, minimise bool) {
	base := fmt.Sprintf("%s%d_%s", prefix, idx, strings.ToLower(sh.Name))
	rn := &runner{r: r, env: asplib.NewEnv(nil), base: base}
	defer asplib.RemovePkg(base)
	nonEmpty := asplib.Lit(sh.Val) != "[]" && asplib.Lit(sh.Val) != "{}"
	for _, a := range appsFor(sh) {
		loc := rn.local(sh, a)
		r.Case(sh.Name+"|"+asplib.Lit(sh.Val)+"|"+a.Body, loc.res.Err == "" && nonEmpty)
		r.ObsDistinct("operations", a.Op+"/"+sh.class())
		if loc.res.Err != "" {
			r.Obs("vacuous_local_error", 1)
			// still evaluate the direct channel: error locally but not imported is recorded
			dn, dd := rn.newDefs(sh)
			imp := rn.imported(dn, dd, a, channels[0])
			asplib.RemoveDefs(rn.base, dn)
			if imp.res.Err == "" {
				r.Obs("error_only_locally", 1)
				r.ObsDistinct("error_only_locally_ops", a.Op+"/"+sh.class())
			}
			continue
		}
		r.Obs("applications_evaluated", 1)
		directFailed := false
		dn, dd := rn.newDefs(sh)
		for ci, ch := range channels {
			imp := rn.imported(dn, dd, a, ch)
			r.Obs("imported_evaluations", 1)
			r.Obs("channel_"+ch.Name, 1)
			if imp.res.Err == "" && same(loc, imp, a.Targets) {
				continue
			}
			if ci == 0 {
				directFailed = true
			}
			kind := "wrong-result"
			if imp.res.Err != "" {
				kind = "rejected"
			}
			top := sh.Top
			if strings.HasPrefix(a.Op, "elem-") || strings.HasPrefix(a.Op, "values-") || strings.HasPrefix(a.Op, "inner-") {
				top = "list" // applied to a list-valued element of X
				if sh.Name == "LD" {
					top = "dict"
				}
			}
			key := groupOf(a.Op) + "/" + top + "/" + kind
			if ci != 0 {
				if directFailed {
					continue // same defect as seen on the direct channel
				}
				key += "/via-" + ch.Name
			}
			if a.Class == extended {
				r.Obs("extended_differences", 1)
				r.ObsDistinct("extended_difference_keys", key)
				noteExtended(r, key, describe(loc), describe(imp))
				continue
			}
			wsh, wloc, wimp := sh, loc, imp
			if minimise {
				// try the canonical minimal value of this shape for a smaller witness
				m := minimal(sh.Name)
				for _, ma := range appsFor(m) {
					if ma.Op != a.Op {
						continue
					}
					ml := rn.local(m, ma)
					mn, md := rn.newDefs(m)
					mi := rn.imported(mn, md, ma, ch)
					asplib.RemoveDefs(rn.base, mn)
					if ml.res.Err == "" && (mi.res.Err != "" || !same(ml, mi, ma.Targets)) {
						wsh, wloc, wimp = m, ml, mi
					}
				}
			}
			what := "differs"
			if wimp.res.Err != "" {
				what = "error only when imported"
			}
			noteKey(key)
			r.Violation(key, fmt.Sprintf("%s (%s): %s — local: %s; imported via %s: %s",
				a.Op, what, strings.TrimSpace(strings.ReplaceAll(a.Body, "\n", "; ")), describe(wloc), ch.Name, describe(wimp)),
				map[string]any{
					"shape": wsh.Name, "value": asplib.Lit(wsh.Val), "channel": ch.Name,
					"build_local": wloc.src, "build_imported": wimp.src, "build_defs": wimp.def,
					"local": describe(wloc), "imported": describe(wimp),
				}, idx)
		}
		asplib.RemoveDefs(rn.base, dn)
		if r.WantSample() && a.Class == core_ && nonEmpty {
			r.Sample(map[string]any{"value": asplib.Lit(sh.Val), "application": a.Body, "local": describe(loc)})
		}
	}
}

var violKeys = map[string]bool{}

func noteKey(key string) {
	extMu <- struct{}{}
	violKeys[key] = true
	<-extMu
}

var extMu = make(chan struct{}, 1)
var extNotes = map[string]string{}

func noteExtended(r *lib.Run, key, loc, imp string) {
	extMu <- struct{}{}
	if _, ok := extNotes[key]; !ok && len(extNotes) < 60 {
		extNotes[key] = "local: " + loc + " | imported: " + imp
	}
	<-extMu
}

// checkConfig compares list-valued CONFIG entries with equal literals.
func checkConfig(r *lib.Run, idx int, prefix string, sh shape) {
	l := sh.Val.([]any)
	strs := make([]string, len(l))
	for i, e := range l {
		strs[i] = e.(string)
	}
	base := fmt.Sprintf("%s%d", prefix, idx)
	defer asplib.RemovePkg(base)
	seq := 0
	for _, name := range []string{[]string{"PROTO_LANGUAGES", "PROTOC_FLAGS"}[idx%2]} {
		for _, a := range appsFor(sh) {
			if a.Targets {
				continue
			}
			// A fresh state per application: CONFIG's lists are shared by every package of a state, and
			// in-place reordering by sorted()/reversed() (C16/C17's business) must not leak between applications.
			env := asplib.NewEnv(func(c *core.Configuration) {
				c.Proto.Language = append([]string{}, strs...)
				c.Proto.ProtocFlag = append([]string{}, strs...)
			})
			seq++
			lp, cp := fmt.Sprintf("%s/l%d", base, seq), fmt.Sprintf("%s/c%d", base, seq)
			lsrc := "X = " + asplib.Lit(sh.Val) + "\n" + a.Body + export
			csrc := "X = CONFIG." + name + "\n" + a.Body + export
			locO, cfgO := outcome{res: env.ParseSource(lp, lsrc), pkg: lp}, outcome{res: env.ParseSource(cp, csrc), pkg: cp}
			loc, cfg := locO.res, cfgO.res
			r.Case("config|"+name+"|"+asplib.Lit(sh.Val)+"|"+a.Body, loc.Err == "")
			if loc.Err != "" {
				continue
			}
			r.Obs("config_evaluations", 1)
			if cfg.Err == "" && same(locO, cfgO, false) {
				continue
			}
			kind := "wrong-result"
			if cfg.Err != "" {
				kind = "rejected"
			}
			key := groupOf(a.Op) + "/config-list/" + kind
			if a.Class == extended {
				r.ObsDistinct("extended_difference_keys", key)
				continue
			}
			noteKey(key)
			r.Violation(key, fmt.Sprintf("%s on CONFIG.%s: local %s; from CONFIG %s", a.Op, name,
				describe(outcome{res: loc}), describe(outcome{res: cfg})),
				map[string]any{"config": name, "value": asplib.Lit(sh.Val), "build_local": lsrc, "build_config": csrc}, idx)
		}
	}
}

func TestC18(t *testing.T) {
	r := lib.Start("C18")
	defer lib.End(t, r)
	asplib.Init(r.Scratch())
	r.Rule = "value x application: values of 15 shapes (lists of ints/strings/labels/mixed scalars/pairs/ragged lists/dicts, dicts of ints/strings/lists/dicts, empty ones); every applicable application from a fixed catalogue (sorted reversed enumerate any all zip min max map filter reduce len in + += == != indexing slicing iteration join str json dict methods, list/dict arguments of build rules); each evaluated with X = literal and with X imported through subinclude() over 6 channels (exported global, dict element, list element, function return, dict.get, items()) and from CONFIG. Distinct by (shape, literal, application); non-trivial = the local evaluation succeeds and the value is non-empty"
	r.Assumes = []string{
		"values leave the interpreter through json() into text_file(name=\"v\").FileContent; json() itself is exercised as one of the applications",
		"subinclude() is reached in-process through a target marked Built whose output exists under plz-out/gen",
		"applications outside the statement's and DESIGN's lists (isinstance, *, |, %, unpacking assignment, truthiness, format) are evaluated but only recorded (extended_difference_keys)",
	}

	// Small scope: the canonical minimal value of every shape (so that the first witness per key is minimal).
	r.ForEach("minimal", len(shapeNames), 8, func(i int, _ *rand.Rand) {
		check(r, i, "m", minimal(shapeNames[i]), false)
	})
	r.ForEach("minimal-config", 1, 1, func(i int, _ *rand.Rand) {
		checkConfig(r, i, "km", minimal("LS"))
	})
	r.ForEach("values", asplib.Dev(r.Pick(90, 6000)), 8, func(i int, rng *rand.Rand) {
		name := shapeNames[i%len(shapeNames)]
		check(r, i, "c", genShape(name, rng), true)
	})
	r.ForEach("config", asplib.Dev(r.Pick(6, 300)), 8, func(i int, rng *rand.Rand) {
		checkConfig(r, i, "k", genShape("LS", rng))
	})
	extMu <- struct{}{}
	r.Extra("extended_differences_not_asserted", extNotes)
	keys := []string{}
	for k := range violKeys {
		keys = append(keys, k)
	}
	sort.Strings(keys)
	r.Extra("violation_keys_seen", keys)
	<-extMu
	r.RequireObserved("applications_evaluated", "imported_evaluations", "channel_direct", "channel_func-return", "config_evaluations")
}

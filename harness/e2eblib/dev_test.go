package e2eblib

import (
	"fmt"
	"math/rand"
	"os"
	"path/filepath"
	"testing"

	"verifharness/e2e"
	"verifharness/lib"
)

// TestDevBuildable is a development aid (VERIF_DEV=1): generated repositories must build.
func TestDevBuildable(t *testing.T) {
	if os.Getenv("VERIF_DEV") == "" {
		t.Skip("development aid")
	}
	bin := os.Getenv("VERIF_PLZ")
	base, _ := os.MkdirTemp("/tmp", "e2eb-dev.")
	defer lib.RemoveAll(base)
	for i := 0; i < 12; i++ {
		rng := rand.New(rand.NewSource(int64(i)))
		r := Generate(rng, GenOpts{Maps: i%2 == 0, Tests: true, GC: i%3 == 0, Manual: true, Config: true, Root: true})
		if err := r.Check(); err != nil {
			t.Errorf("repo %d: check: %v", i, err)
			continue
		}
		sb := e2e.NewSandbox(filepath.Join(base, fmt.Sprint(i)))
		if err := WriteFiles(sb.Repo, r.AllFiles(RenderOpts{})); err != nil {
			t.Fatal(err)
		}
		b := CleanBuildInPlace(sb, bin, r, nil)
		if b.Result.Exit != 0 {
			t.Errorf("repo %d: build failed:\n%s", i, lib.Tail(b.Result.Stderr, 3000))
			if os.Getenv("VERIF_DEV_KEEP") != "" {
				fmt.Println("kept", sb.Repo)
				continue
			}
		}
		missing := 0
		for l, s := range b.PerTarget {
			if len(s) == 0 || containsMissing(s) {
				missing++
				t.Errorf("repo %d: %s has missing outputs: %q", i, l, s)
			}
		}
		fmt.Printf("repo %d: %d targets, exit %d, %.1fs, missing %d\n", i, len(r.Targets), b.Result.Exit, b.Result.Dur.Seconds(), missing)
	}
}

func containsMissing(s string) bool {
	return len(s) > 0 && (filepath.Base(s) == "" || (len(s) > 7 && (stringsContains(s, " missing "))))
}

func stringsContains(s, sub string) bool {
	for i := 0; i+len(sub) <= len(s); i++ {
		if s[i:i+len(sub)] == sub {
			return true
		}
	}
	return false
}

package e2eblib

import (
	"fmt"
	"os"
	"os/exec"
	"path/filepath"
	"sort"
	"strings"
	"time"

	"verifharness/e2e"
	"verifharness/lib"
)

// WriteFiles writes path -> content under dir (content starting with "->" makes a symlink).
func WriteFiles(dir string, files map[string]string) error {
	paths := make([]string, 0, len(files))
	for p := range files {
		paths = append(paths, p)
	}
	sort.Strings(paths)
	for _, p := range paths {
		full := filepath.Join(dir, p)
		if err := os.MkdirAll(filepath.Dir(full), 0o755); err != nil {
			return err
		}
		os.Remove(full)
		c := files[p]
		if strings.HasPrefix(c, "->") {
			if err := os.Symlink(c[2:], full); err != nil {
				return err
			}
			continue
		}
		if err := os.WriteFile(full, []byte(c), 0o644); err != nil {
			return err
		}
	}
	return nil
}

// SyncFiles turns a materialisation of `old` in dir into `cur`, touching only what differs, and
// returns the repo-relative paths that were modified, added and removed.
func SyncFiles(dir string, old, cur map[string]string) (modified, added, removed []string, err error) {
	changed := map[string]string{}
	for p, c := range cur {
		oc, ok := old[p]
		switch {
		case !ok:
			added = append(added, p)
			changed[p] = c
		case oc != c:
			modified = append(modified, p)
			changed[p] = c
		}
	}
	for p := range old {
		if _, ok := cur[p]; !ok {
			removed = append(removed, p)
			os.Remove(filepath.Join(dir, p))
			for d := filepath.Dir(p); d != "." && d != "/"; d = filepath.Dir(d) {
				if os.Remove(filepath.Join(dir, d)) != nil {
					break
				}
			}
		}
	}
	sort.Strings(modified)
	sort.Strings(added)
	sort.Strings(removed)
	return modified, added, removed, WriteFiles(dir, changed)
}

// A Built is the outcome of one clean build.
type Built struct {
	Result    lib.PlzResult
	PerTarget map[string]string // real label -> canonical listing of its declared outputs
}

// SnapshotReals lists the declared outputs of every real target of state r found under repoDir/plz-out.
func SnapshotReals(repoDir string, r *Repo) map[string]string {
	out := map[string]string{}
	base := filepath.Join(repoDir, "plz-out")
	for _, re := range r.Reals() {
		snap := lib.Snapshot{}
		for _, root := range re.Roots {
			if _, err := os.Lstat(filepath.Join(base, root)); err != nil {
				snap[root] = lib.Entry{Type: "missing"}
				continue
			}
			lib.SnapshotPath(base, root, lib.SnapOpts{}, snap)
		}
		out[re.Label] = snap.Canon()
	}
	return out
}

// CleanBuildInPlace is the clean-build oracle for a sandbox whose repository directory currently
// holds exactly the sources of state r: plz-out is removed, `plz build //...` runs from empty with
// no cache (the generated .plzconfig disables the directory cache; HOME is the sandbox's scratch
// home), the outputs of every real target are listed, and plz-out is removed again.
func CleanBuildInPlace(sb *e2e.Sandbox, bin string, r *Repo, env []string, extra ...string) Built {
	lib.RemoveAll(filepath.Join(sb.Repo, "plz-out"))
	args := append([]string{"build", "-o", "cache.dir:", "-o", "cache.httpurl:"}, extra...)
	args = append(args, "//...")
	res := sb.Plz(bin, env, 240*time.Second, args...)
	b := Built{Result: res, PerTarget: SnapshotReals(sb.Repo, r)}
	lib.RemoveAll(filepath.Join(sb.Repo, "plz-out"))
	return b
}

// Git runs git in dir with a fixed identity, fixed dates and a scratch HOME; it panics on failure
// (a harness error, not a verdict).
func Git(dir, home string, args ...string) string {
	full := append([]string{"-c", "user.name=verif", "-c", "user.email=verif@example.invalid", "-c", "init.defaultBranch=main",
		"-c", "core.hooksPath=/dev/null", "-c", "gc.auto=0", "-c", "advice.detachedHead=false"}, args...)
	cmd := exec.Command("git", full...)
	cmd.Dir = dir
	cmd.Env = append(lib.BaseEnv(home),
		"GIT_AUTHOR_NAME=verif", "GIT_AUTHOR_EMAIL=verif@example.invalid", "GIT_AUTHOR_DATE=2020-01-01T00:00:00Z",
		"GIT_COMMITTER_NAME=verif", "GIT_COMMITTER_EMAIL=verif@example.invalid", "GIT_COMMITTER_DATE=2020-01-01T00:00:00Z",
		"GIT_CONFIG_NOSYSTEM=1", "GIT_TERMINAL_PROMPT=0")
	out, err := cmd.CombinedOutput()
	if err != nil {
		panic(fmt.Sprintf("harness: git %v in %s failed: %v\n%s", args, dir, err, out))
	}
	return string(out)
}

// Lines splits plz output into trimmed non-empty lines.
func Lines(s string) []string {
	var out []string
	for _, l := range strings.Split(s, "\n") {
		if l = strings.TrimSpace(l); l != "" {
			out = append(out, l)
		}
	}
	return out
}

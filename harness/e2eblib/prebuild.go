package e2eblib

import "fmt"

// preDefsText (added for C24) is the `prgen` macro: a genrule whose pre-build function rewrites the
// command at build time so that it also prints Repo.PreSalt. It is appended to the build_defs file by
// AllFiles only when some target has PreBuild, so repositories without such targets are unchanged.
func (r *Repo) preDefsText() string {
	used := false
	for _, t := range r.Targets {
		used = used || t.PreBuild
	}
	if !used {
		return ""
	}
	return fmt.Sprintf(`
def _pre(name):
    set_command(name, get_command(name) + "; echo pre-%s >> \"$(echo $OUTS | cut -d' ' -f1)\"")

def prgen(name, srcs, outs, cmd, deps=None, exported_deps=None, tools=None, binary=False, env={}, labels=[],
          requires=None, provides=None, test_only=False, entry_points={}, visibility=None):
    return genrule(
        name = name,
        srcs = srcs,
        outs = outs,
        cmd = cmd,
        deps = deps,
        exported_deps = exported_deps,
        tools = tools,
        binary = binary,
        env = env,
        labels = labels,
        requires = requires,
        provides = provides,
        test_only = test_only,
        entry_points = entry_points,
        visibility = visibility,
        pre_build = _pre,
    )
`, r.PreSalt)
}

package e2eblib

import (
	"fmt"
	"math/rand"
	"path/filepath"
	"strings"
)

// GenOpts steers the generator.
type GenOpts struct {
	MinTargets, MaxTargets int
	Maps                   bool // favour map-typed attributes (named srcs/outs/tools/data, env, entry points, provides)
	Tests                  bool // gentest tests with data, test_only targets
	GC                     bool // gc_sibling labels, keep labels, more binaries, file / directory overlaps between targets
	Manual                 bool // some targets carry the `manual` label
	Config                 bool // [buildenv] / [buildconfig] consumers
	Root                   bool // allow targets in the root package
	DepOneIn               int  // each earlier target becomes an input with probability 1/DepOneIn (default 4)
}

var words = []string{"alpha", "beta", "gamma", "delta", "a", "b", "ab", "ba", "x", "alpha\n", "1", "12", "x y", "beta\ngamma\n"}

func pick(rng *rand.Rand, ss []string) string { return ss[rng.Intn(len(ss))] }

func oneIn(rng *rand.Rand, n int) bool { return rng.Intn(n) == 0 }

var groupNames = []string{"one", "two", "zero", "alpha"}

// split distributes items over 2-3 named groups (every item lands in exactly one group; groups may be empty-free).
func split(rng *rand.Rand, items []string) map[string][]string {
	n := 2 + rng.Intn(2)
	names := append([]string(nil), groupNames...)
	rng.Shuffle(len(names), func(i, j int) { names[i], names[j] = names[j], names[i] })
	m := map[string][]string{}
	for i, it := range items {
		k := names[rng.Intn(n)]
		if i < n {
			k = names[i] // make the first groups non-empty when there are enough items
		}
		m[k] = append(m[k], it)
	}
	return m
}

// Generate builds a random repository state. Targets only depend on earlier targets.
func Generate(rng *rand.Rand, o GenOpts) *Repo {
	if o.MaxTargets == 0 {
		o.MaxTargets = 12
	}
	if o.MinTargets == 0 {
		o.MinTargets = 4
	}
	if o.DepOneIn == 0 {
		o.DepOneIn = 4
	}
	r := &Repo{Files: map[string]string{}, DefsSalt: fmt.Sprintf("d%d", rng.Intn(100)), DefsGen: oneIn(rng, 3)}
	if o.Config {
		r.BuildEnv = map[string]string{"verif-x": pick(rng, []string{"1", "two", "x-y"})}
		r.BuildConfig = map[string]string{"cfga": pick(rng, []string{"A1", "A2"}), "cfgb": "B"}
	}
	pool := []string{"p0", "p1", "p1/sub", "p0x", "p1/sub/deep"}
	rng.Shuffle(len(pool), func(i, j int) { pool[i], pool[j] = pool[j], pool[i] })
	pkgs := pool[:2+rng.Intn(3)]
	if o.Root && oneIn(rng, 3) {
		pkgs = append(pkgs, "")
	}
	nt := o.MinTargets + rng.Intn(o.MaxTargets-o.MinTargets+1)
	for i := 0; i < nt; i++ {
		pkg := pkgs[rng.Intn(len(pkgs))]
		t := &Target{Pkg: pkg, Name: fmt.Sprintf("t%d", i), Salt: fmt.Sprintf("s%d", rng.Intn(1000))}
		k := rng.Intn(100)
		switch {
		case i == 0 || k < 40:
			t.Kind = Genrule
		case k < 52:
			t.Kind = Genrule
			t.IsTool = true
		case k < 68:
			t.Kind = Lib
		case k < 80:
			t.Kind = Filegroup
		case k < 85:
			t.Kind = TextFile
		default:
			t.Kind = Gentest
			if !o.Tests {
				t.Kind = Genrule
			}
		}
		if o.Tests && t.Kind != Gentest && !t.IsTool && oneIn(rng, 8) {
			t.TestOnly = true
		}
		testish := t.Kind == Gentest || t.TestOnly
		if t.Kind == TextFile {
			t.Content = pick(rng, words) + fmt.Sprint(rng.Intn(5))
			t.Outs = []string{fmt.Sprintf("tf%d.txt", i)}
			r.Targets = append(r.Targets, t)
			continue
		}
		// ---- local sources
		var files []string
		ns := rng.Intn(3)
		if (t.Kind == Filegroup || t.Kind == Lib) && ns == 0 {
			ns = 1
		}
		for j := 0; j < ns; j++ {
			name := fmt.Sprintf("s%d_%d.txt", i, j)
			files = append(files, name)
			r.Files[filepath.Join(pkg, name)] = pick(rng, words) + fmt.Sprint(rng.Intn(4))
		}
		if t.Kind != Filegroup && oneIn(rng, 4) {
			dn := fmt.Sprintf("d%d", i)
			files = append(files, dn+"/")
			r.Files[filepath.Join(pkg, dn, "x.txt")] = pick(rng, words)
			r.Files[filepath.Join(pkg, dn, "y.txt")] = pick(rng, words)
			if oneIn(rng, 2) {
				r.Files[filepath.Join(pkg, dn, "n", "z.txt")] = pick(rng, words)
			}
		}
		if t.Kind != Filegroup && oneIn(rng, 5) { // a file in a sub-directory that is not a package
			name := fmt.Sprintf("e%d/f.txt", i)
			files = append(files, name)
			r.Files[filepath.Join(pkg, name)] = pick(rng, words)
		}
		// share a file with an earlier target of the same package (exact file, or a file inside its directory source)
		share := 6
		if o.GC {
			share = 3
		}
		if t.Kind != Filegroup && oneIn(rng, share) {
			var cands []string
			for _, p := range r.Targets {
				if p.Pkg != pkg {
					continue
				}
				for _, s := range p.LocalFiles() {
					if strings.HasSuffix(s, "/") {
						cands = append(cands, s+"x.txt")
					} else {
						cands = append(cands, s)
					}
				}
			}
			if len(cands) > 0 {
				c := pick(rng, cands)
				if !contains(files, c) {
					files = append(files, c)
				}
			}
		}
		// ---- label inputs
		var srcLabels []string
		for _, p := range r.Targets {
			if p.IsTool || p.Kind == Gentest || (p.TestOnly && !testish) {
				continue
			}
			if !oneIn(rng, o.DepOneIn) {
				continue
			}
			switch x := rng.Intn(10); {
			case x < 5 && len(srcLabels) < 3:
				srcLabels = append(srcLabels, p.Label())
			case x < 8 && t.Kind != Filegroup:
				t.Deps = append(t.Deps, p.Label())
			case t.Kind == Genrule && !t.IsTool:
				t.Exported = append(t.Exported, p.Label())
			}
		}
		if t.Kind == Lib {
			srcLabels = nil // keep the macro simple: file sources only, label deps
		}
		t.Srcs, t.SrcLabels = files, srcLabels
		if t.Kind == Filegroup && !r.withTarget(t).Valid() {
			t.SrcLabels = nil
		}
		named := 6
		if o.Maps {
			named = 2
		}
		if (t.Kind == Genrule || t.Kind == Gentest) && !t.IsTool && len(files)+len(srcLabels) >= 2 && oneIn(rng, named) {
			t.NamedSrcs = split(rng, append(append([]string{}, files...), srcLabels...))
			t.Srcs, t.SrcLabels = nil, nil
		}
		// requires / provides
		for _, l := range t.InputLabels() {
			if d := r.Target(l); d != nil && d.Kind == Lib && oneIn(rng, 2) && t.Kind != Lib {
				t.Requires = []string{"lx"}
			}
		}
		if o.Maps && (t.Kind == Genrule || t.Kind == Filegroup) && !t.IsTool && len(r.Targets) > 0 && oneIn(rng, 2) {
			t.Provides = map[string]string{}
			for _, k := range []string{"pa", "pb", "pc"}[:2+rng.Intn(2)] {
				for _, p := range shuffledT(rng, r.Targets) {
					if p.IsTool || p.Kind == Gentest || (p.TestOnly && !testish) {
						continue
					}
					t.Provides[k] = p.Label()
					break
				}
			}
			if len(t.Provides) == 0 {
				t.Provides = nil
			}
			if oneIn(rng, 2) {
				t.Requires = append(t.Requires, "py")
			}
		}
		// tools
		if (t.Kind == Genrule || t.Kind == Gentest) && !t.IsTool {
			var tools []string
			for _, p := range r.Targets {
				if p.IsTool && oneIn(rng, 2) && len(tools) < 3 {
					tools = append(tools, p.Label())
				}
			}
			if len(tools) >= 2 && (o.Maps || oneIn(rng, 3)) {
				t.NamedTools = map[string][]string{}
				for j, l := range tools {
					t.NamedTools[[]string{"t1", "t0", "t2"}[j]] = []string{l}
				}
			} else {
				t.Tools = tools
			}
		}
		// outputs and attributes
		switch t.Kind {
		case Genrule:
			t.Op = pick(rng, []string{"all", "all", "all", "names", "srcs", "const"})
			if t.IsTool {
				t.Outs = []string{fmt.Sprintf("tool%d.sh", i)}
				t.Op = "all"
				break
			}
			t.Outs = []string{fmt.Sprintf("o%d.out", i)}
			if oneIn(rng, 4) {
				t.Outs = append(t.Outs, fmt.Sprintf("sub%d/o%db.out", i, i))
			}
			if len(t.Outs) > 1 && (o.Maps || oneIn(rng, 4)) {
				t.NamedOuts = map[string][]string{"o1": {t.Outs[0]}, "o2": {t.Outs[1]}}
				if oneIn(rng, 2) {
					t.NamedOuts = map[string][]string{"zz": {t.Outs[0]}, "aa": {t.Outs[1]}}
				}
				t.Outs = nil
			}
			bin := 6
			if o.GC {
				bin = 3
			}
			if oneIn(rng, bin) && !t.TestOnly {
				t.Binary = true
				if o.Maps && oneIn(rng, 2) {
					t.EntryPoints = map[string]string{"ep1": t.AllOuts()[0], "ep0": t.AllOuts()[0]}
				}
			}
			if !r.NoDefs && oneIn(rng, 10) {
				t.PostBuild = true
			}
		case Gentest:
			t.Op = "all"
			t.Outs = []string{fmt.Sprintf("t%d_test.out", i)}
			var data []string
			for j := 0; j < rng.Intn(3); j++ {
				name := fmt.Sprintf("data%d_%d.txt", i, j)
				data = append(data, name)
				r.Files[filepath.Join(pkg, name)] = pick(rng, words)
			}
			if oneIn(rng, 4) {
				dn := fmt.Sprintf("dd%d", i)
				data = append(data, dn+"/")
				r.Files[filepath.Join(pkg, dn, "u.txt")] = pick(rng, words)
				r.Files[filepath.Join(pkg, dn, "v.txt")] = pick(rng, words)
			}
			if oneIn(rng, 3) { // a data file that is a source of another target of this package
				for _, p := range shuffledT(rng, r.Targets) {
					if p.Pkg == pkg && len(p.LocalSrcFiles()) > 0 {
						s := p.LocalSrcFiles()[0]
						if strings.HasSuffix(s, "/") {
							s += "x.txt"
						}
						if !contains(data, s) && !contains(t.LocalFiles(), s) {
							data = append(data, s)
						}
						break
					}
				}
			}
			for _, p := range r.Targets {
				if p.Kind != Gentest && !p.IsTool && oneIn(rng, 5) && !contains(t.InputLabels(), p.Label()) {
					data = append(data, p.Label())
				}
			}
			if len(data) >= 2 && (o.Maps || oneIn(rng, 4)) {
				t.NamedData = split(rng, data)
			} else {
				t.Data = data
			}
		}
		if (t.Kind == Genrule || t.Kind == Gentest) && !t.IsTool {
			envp := 4
			if o.Maps {
				envp = 2
			}
			if oneIn(rng, envp) {
				t.Env = map[string]string{}
				for _, k := range []string{"VAR_A", "VAR_B", "ZED"}[:1+rng.Intn(3)] {
					t.Env[k] = pick(rng, []string{"1", "two", "x y", ""})
				}
			}
			if o.Config && oneIn(rng, 6) {
				t.ConfigKey = "cfga"
			}
			if o.Config && oneIn(rng, 6) {
				t.BuildEnv = "verif-x"
			}
		}
		// labels
		if oneIn(rng, 3) {
			lp := []string{"l1", "l2", "keepme"}
			if o.Manual {
				lp = append(lp, "manual")
			}
			t.Labels = []string{pick(rng, lp)}
		}
		if o.GC && oneIn(rng, 4) && !t.IsTool {
			for _, p := range shuffledT(rng, r.Targets) {
				if p.Pkg == pkg && p.Kind != Gentest {
					t.Labels = append(t.Labels, "gc_sibling:"+p.Name)
					break
				}
			}
		}
		r.Targets = append(r.Targets, t)
	}
	return r
}

func (r *Repo) withTarget(t *Target) *Repo {
	c := *r
	c.Targets = append(append([]*Target(nil), r.Targets...), t)
	return &c
}

func shuffledT(rng *rand.Rand, ts []*Target) []*Target {
	out := append([]*Target(nil), ts...)
	rng.Shuffle(len(out), func(i, j int) { out[i], out[j] = out[j], out[i] })
	return out
}

func contains(ss []string, s string) bool {
	for _, x := range ss {
		if x == s {
			return true
		}
	}
	return false
}

// Check verifies the structural rules Please enforces on the generated shapes: inputs exist and come
// earlier, tools are tools, nothing but tests / test_only targets depends on a test_only target,
// nothing depends on a test, every consumed local file exists, gc_sibling names exist.
func (r *Repo) Check() error {
	idx := map[string]int{}
	for i, t := range r.Targets {
		idx[t.Label()] = i
	}
	for i, t := range r.Targets {
		testish := t.Kind == Gentest || t.TestOnly
		for _, l := range t.InputLabels() {
			j, ok := idx[l]
			if !ok {
				return fmt.Errorf("%s: input %s does not exist", t.Label(), l)
			}
			if j >= i {
				return fmt.Errorf("%s: input %s is not earlier", t.Label(), l)
			}
			d := r.Targets[j]
			if d.Kind == Gentest {
				return fmt.Errorf("%s depends on test %s", t.Label(), l)
			}
			if d.TestOnly && !testish {
				return fmt.Errorf("%s depends on test_only %s", t.Label(), l)
			}
		}
		for _, l := range append(append([]string{}, t.Tools...), flatten(t.NamedTools)...) {
			if d := r.Target(l); d == nil || !d.IsTool {
				return fmt.Errorf("%s: tool %s is not a tool", t.Label(), l)
			}
		}
		for _, v := range t.Provides {
			d := r.Target(v)
			if d == nil || d.Kind == Gentest || (d.TestOnly && !testish) || idx[v] >= i {
				return fmt.Errorf("%s: bad provide %s", t.Label(), v)
			}
		}
		for _, s := range t.LocalFiles() {
			full := filepath.Join(t.Pkg, strings.TrimSuffix(s, "/"))
			found := false
			for p := range r.Files {
				if p == full || strings.HasPrefix(p, full+"/") {
					found = true
					break
				}
			}
			if !found {
				return fmt.Errorf("%s: local file %s does not exist", t.Label(), full)
			}
		}
		for _, l := range t.Labels {
			if strings.HasPrefix(l, "gc_sibling:") && r.Target("//"+t.Pkg+":"+strings.TrimPrefix(l, "gc_sibling:")) == nil {
				return fmt.Errorf("%s: sibling %s does not exist", t.Label(), l)
			}
		}
		if len(t.AllOuts()) == 0 && t.Kind != Filegroup && t.Kind != Lib {
			return fmt.Errorf("%s: no outputs", t.Label())
		}
		if t.Kind == Filegroup && len(t.Srcs)+len(t.SrcLabels) == 0 {
			return fmt.Errorf("%s: empty filegroup", t.Label())
		}
	}
	if !r.Valid() {
		return fmt.Errorf("duplicate outputs")
	}
	return nil
}

// Package e2eblib is the richer repository model shared by the C07, C24 and C25 monitors: binaries,
// gentest tests with data, test_only targets, hidden `_x#tag` children created by a subincluded
// build_defs macro, named srcs / outs / tools / data, env, entry points, provides / requires, nested
// packages, directory sources, shared source files, labels (manual, gc_sibling:, keep labels) and
// configuration read through CONFIG and [buildenv]. It renders BUILD files, knows which real plz
// targets (including hidden children) a model target expands to and where their outputs live, and
// runs the clean-build oracle. No Please imports.
package e2eblib

import (
	"fmt"
	"path/filepath"
	"sort"
	"strings"
)

// Target kinds.
const (
	Genrule   = "genrule"
	Filegroup = "filegroup"
	TextFile  = "text_file"
	Gentest   = "gentest"
	Lib       = "lib" // macro from //build_defs:defs: hidden genrule child `_name#a` + filegroup `name` providing {"lx": child}
)

// A Target is one model target. A name ending in "/" in Srcs or Data is a directory.
type Target struct {
	Pkg  string `json:"pkg"`
	Name string `json:"name"`
	Kind string `json:"kind"`

	Srcs       []string            `json:"srcs,omitempty"`       // local files / directories, relative to the package
	SrcLabels  []string            `json:"src_labels,omitempty"` // label sources
	NamedSrcs  map[string][]string `json:"named_srcs,omitempty"` // files or labels; exclusive with Srcs/SrcLabels
	Deps       []string            `json:"deps,omitempty"`       // labels
	Exported   []string            `json:"exported_deps,omitempty"`
	Tools      []string            `json:"tools,omitempty"`       // labels
	NamedTools map[string][]string `json:"named_tools,omitempty"` // exclusive with Tools
	Data       []string            `json:"data,omitempty"`        // files, directories or labels (tests)
	NamedData  map[string][]string `json:"named_data,omitempty"`  // exclusive with Data

	Outs      []string            `json:"outs,omitempty"`
	NamedOuts map[string][]string `json:"named_outs,omitempty"` // exclusive with Outs

	Op          string            `json:"op,omitempty"` // all | srcs | names | const
	Salt        string            `json:"salt,omitempty"`
	Env         map[string]string `json:"env,omitempty"`
	EntryPoints map[string]string `json:"entry_points,omitempty"`
	Labels      []string          `json:"labels,omitempty"`
	Requires    []string          `json:"requires,omitempty"`
	Provides    map[string]string `json:"provides,omitempty"` // filegroup / genrule: language -> label
	Binary      bool              `json:"binary,omitempty"`
	TestOnly    bool              `json:"test_only,omitempty"`
	IsTool      bool              `json:"is_tool,omitempty"`
	PostBuild   bool              `json:"post_build,omitempty"` // built through the `pbgen` macro whose post-build function adds a label
	ConfigKey   string            `json:"config_key,omitempty"` // the command embeds CONFIG.<KEY> (from [buildconfig])
	BuildEnv    string            `json:"build_env,omitempty"`  // the command prints $<VAR> (from [buildenv])
	Content     string            `json:"content,omitempty"`    // text_file
	// PreBuild (added for C24; never set by Generate, zero value = the behaviour above): the target is
	// built through the `prgen` macro, whose pre-build function appends Repo.PreSalt to the command.
	PreBuild bool `json:"pre_build,omitempty"`
}

// Label returns the model target's (public) build label.
func (t *Target) Label() string { return "//" + t.Pkg + ":" + t.Name }

// ChildLabel is the hidden child of a Lib target.
func (t *Target) ChildLabel() string { return "//" + t.Pkg + ":_" + t.Name + "#a" }

// HasLabel reports whether the target carries the given label.
func (t *Target) HasLabel(l string) bool {
	for _, x := range t.Labels {
		if x == l {
			return true
		}
	}
	return false
}

// A Repo is one repository state.
type Repo struct {
	Targets     []*Target         `json:"targets"`
	Files       map[string]string `json:"files"`                  // source files, repo-relative -> content
	BuildEnv    map[string]string `json:"build_env,omitempty"`    // [buildenv] entries (lower-case-dash key -> value)
	BuildConfig map[string]string `json:"build_config,omitempty"` // [buildconfig] entries
	PathOrder   int               `json:"path_order,omitempty"`   // permutation index of [build] path
	GcKeep      []string          `json:"gc_keep,omitempty"`      // [gc] keep
	GcKeepLabel []string          `json:"gc_keep_label,omitempty"`
	DefsSalt    string            `json:"defs_salt,omitempty"` // embedded in every Lib child's command by the macro
	DefsGen     bool              `json:"defs_gen,omitempty"`  // build_defs file is produced by a genrule (a build is needed while parsing)
	NoDefs      bool              `json:"no_defs,omitempty"`   // no build_defs package at all (then no Lib / PostBuild targets)
	ExtraConfig string            `json:"extra_config,omitempty"`
	// Light (added for C07; zero value = the behaviour above) makes every generated build command use
	// shell builtins only (no find / sort / cksum processes): see lightCommand.
	Light bool `json:"light,omitempty"`
	// PreSalt (added for C24) is what the `prgen` pre-build function makes the command print; the
	// macro is only rendered into the build_defs file when some target has PreBuild.
	PreSalt string `json:"pre_salt,omitempty"`
}

// Clone returns a deep copy.
func (r *Repo) Clone() *Repo {
	c := *r
	c.Files = map[string]string{}
	for k, v := range r.Files {
		c.Files[k] = v
	}
	c.BuildEnv = cloneSS(r.BuildEnv)
	c.BuildConfig = cloneSS(r.BuildConfig)
	c.GcKeep = append([]string(nil), r.GcKeep...)
	c.GcKeepLabel = append([]string(nil), r.GcKeepLabel...)
	c.Targets = nil
	for _, t := range r.Targets {
		n := *t
		n.Srcs = append([]string(nil), t.Srcs...)
		n.SrcLabels = append([]string(nil), t.SrcLabels...)
		n.NamedSrcs = cloneSL(t.NamedSrcs)
		n.Deps = append([]string(nil), t.Deps...)
		n.Exported = append([]string(nil), t.Exported...)
		n.Tools = append([]string(nil), t.Tools...)
		n.NamedTools = cloneSL(t.NamedTools)
		n.Data = append([]string(nil), t.Data...)
		n.NamedData = cloneSL(t.NamedData)
		n.Outs = append([]string(nil), t.Outs...)
		n.NamedOuts = cloneSL(t.NamedOuts)
		n.Env = cloneSS(t.Env)
		n.EntryPoints = cloneSS(t.EntryPoints)
		n.Labels = append([]string(nil), t.Labels...)
		n.Requires = append([]string(nil), t.Requires...)
		n.Provides = cloneSS(t.Provides)
		c.Targets = append(c.Targets, &n)
	}
	return &c
}

func cloneSS(m map[string]string) map[string]string {
	if m == nil {
		return nil
	}
	o := map[string]string{}
	for k, v := range m {
		o[k] = v
	}
	return o
}

func cloneSL(m map[string][]string) map[string][]string {
	if m == nil {
		return nil
	}
	o := map[string][]string{}
	for k, v := range m {
		o[k] = append([]string(nil), v...)
	}
	return o
}

// SortedKeys returns the keys of a map in order.
func SortedKeys[V any](m map[string]V) []string {
	ks := make([]string, 0, len(m))
	for k := range m {
		ks = append(ks, k)
	}
	sort.Strings(ks)
	return ks
}

// Target finds a model target by its public label.
func (r *Repo) Target(label string) *Target {
	for _, t := range r.Targets {
		if t.Label() == label {
			return t
		}
	}
	return nil
}

// Owner finds the model target a real label (public or hidden child) belongs to.
func (r *Repo) Owner(label string) *Target {
	for _, t := range r.Targets {
		if t.Label() == label || (t.Kind == Lib && t.ChildLabel() == label) {
			return t
		}
	}
	return nil
}

// IsLabel reports whether a source / data entry is a build label rather than a file.
func IsLabel(s string) bool { return strings.HasPrefix(s, "//") || strings.HasPrefix(s, ":") }

func flatten(m map[string][]string) []string {
	var out []string
	for _, k := range SortedKeys(m) {
		out = append(out, m[k]...)
	}
	return out
}

// AllOuts returns the declared outputs (named groups flattened in key order).
func (t *Target) AllOuts() []string {
	if t.NamedOuts != nil {
		return flatten(t.NamedOuts)
	}
	return t.Outs
}

// LocalFiles returns every local file / directory entry the target consumes directly (sources and
// data), relative to its package; directories keep their trailing "/".
func (t *Target) LocalFiles() []string {
	var out []string
	add := func(ss []string) {
		for _, s := range ss {
			if !IsLabel(s) {
				out = append(out, s)
			}
		}
	}
	add(t.Srcs)
	add(flatten(t.NamedSrcs))
	add(t.Data)
	add(flatten(t.NamedData))
	return out
}

// LocalSrcFiles is LocalFiles restricted to sources (no data).
func (t *Target) LocalSrcFiles() []string {
	var out []string
	for _, s := range append(append([]string{}, t.Srcs...), flatten(t.NamedSrcs)...) {
		if !IsLabel(s) {
			out = append(out, s)
		}
	}
	return out
}

// InputLabels returns every label the target declares any kind of dependency on.
func (t *Target) InputLabels() []string {
	var out []string
	add := func(ss []string) {
		for _, s := range ss {
			if IsLabel(s) {
				out = append(out, s)
			}
		}
	}
	add(t.SrcLabels)
	add(flatten(t.NamedSrcs))
	add(t.Deps)
	add(t.Exported)
	add(t.Tools)
	add(flatten(t.NamedTools))
	add(t.Data)
	add(flatten(t.NamedData))
	return out
}

// DataLabels returns the labels among the target's data.
func (t *Target) DataLabels() []string {
	var out []string
	for _, s := range append(append([]string{}, t.Data...), flatten(t.NamedData)...) {
		if IsLabel(s) {
			out = append(out, s)
		}
	}
	return out
}

// ConsumesFile reports whether the target directly consumes the repo-relative file path: it is one
// of its local sources / data, or lies inside one of its directory sources / data.
func (t *Target) ConsumesFile(path string) bool {
	for _, s := range t.LocalFiles() {
		full := filepath.Join(t.Pkg, strings.TrimSuffix(s, "/"))
		if full == path || strings.HasPrefix(path, full+"/") {
			return true
		}
	}
	return false
}

// ---- rendering ----

func q(s string) string {
	s = strings.ReplaceAll(s, `\`, `\\`)
	s = strings.ReplaceAll(s, `"`, `\"`)
	s = strings.ReplaceAll(s, "\n", `\n`)
	return `"` + s + `"`
}

func trimSlash(ss []string) []string {
	out := make([]string, len(ss))
	for i, s := range ss {
		out[i] = strings.TrimSuffix(s, "/")
	}
	return out
}

func qlist(ss []string) string {
	parts := make([]string, len(ss))
	for i, s := range trimSlash(ss) {
		parts[i] = q(s)
	}
	return "[" + strings.Join(parts, ", ") + "]"
}

// qdictList renders a dict of lists; keys are written in the given order (so that callers can
// permute the textual order without changing the meaning).
func qdictList(m map[string][]string, order []string) string {
	if order == nil {
		order = SortedKeys(m)
	}
	parts := make([]string, 0, len(m))
	for _, k := range order {
		parts = append(parts, q(k)+": "+qlist(m[k]))
	}
	return "{" + strings.Join(parts, ", ") + "}"
}

func qdict(m map[string]string, order []string) string {
	if order == nil {
		order = SortedKeys(m)
	}
	parts := make([]string, 0, len(m))
	for _, k := range order {
		parts = append(parts, q(k)+": "+q(m[k]))
	}
	return "{" + strings.Join(parts, ", ") + "}"
}

// local renders a label relative to the package when possible.
func local(pkg, label string) string {
	if strings.HasPrefix(label, "//"+pkg+":") {
		return label[len("//"+pkg):]
	}
	return label
}

func locals(pkg string, ls []string) []string {
	out := make([]string, len(ls))
	for i, l := range ls {
		if IsLabel(l) {
			out[i] = local(pkg, l)
		} else {
			out[i] = l
		}
	}
	return out
}

func localsMap(pkg string, m map[string][]string) map[string][]string {
	o := map[string][]string{}
	for k, v := range m {
		o[k] = locals(pkg, v)
	}
	return o
}

// envName turns a [buildenv] key (lower-case, dashes) into the variable the action sees.
func envName(k string) string { return strings.ToUpper(strings.ReplaceAll(k, "-", "_")) }

// cfgToken marks where a CONFIG value is spliced into a command.
const cfgToken = "@@CFG@@"

// listing is the shell prologue shared by all generated commands: everything visible in the build
// directory (names and checksums), computed before any output is created.
const listing = `export LC_ALL=C; L="$(find . \( -type f -o -type l \) | sort | xargs -r cksum)"; N="$(find . \( -type f -o -type l \) | sort)"`

func (t *Target) body() string {
	switch t.Op {
	case "names":
		return `echo "$N"`
	case "const":
		return `true`
	case "srcs":
		return `echo "$SRCS"; cat $(find $SRCS -type f | sort) /dev/null`
	default:
		return `echo "$L"`
	}
}

// Command renders the build command of a command-bearing target. It is a deterministic function
// of the declared inputs: it prints the salt, what the build directory contains, the named source
// groups, env and config values, and what its tools print.
func (r *Repo) Command(t *Target) string {
	if r.Light {
		return r.lightCommand(t)
	}
	c := []string{listing}
	if t.IsTool {
		out := t.AllOuts()[0]
		c = append(c, fmt.Sprintf(`{ echo '#!/bin/sh'; echo "echo tool-%s-$(echo "$L" | cksum | cut -d' ' -f1)"; } > "%s"`, t.Salt, out), fmt.Sprintf(`chmod +x "%s"`, out))
		return strings.Join(c, "; ")
	}
	var extra []string
	for _, k := range SortedKeys(t.NamedSrcs) {
		extra = append(extra, fmt.Sprintf(`echo "%s=$SRCS_%s"`, k, strings.ToUpper(k)))
	}
	for _, k := range SortedKeys(t.Env) {
		extra = append(extra, fmt.Sprintf(`echo "%s=$%s"`, k, k))
	}
	if t.BuildEnv != "" {
		extra = append(extra, fmt.Sprintf(`echo "benv=$%s"`, envName(t.BuildEnv)))
	}
	if len(t.Tools) > 0 {
		extra = append(extra, `for x in $TOOLS; do $x; done`)
	}
	for _, k := range SortedKeys(t.NamedTools) {
		extra = append(extra, fmt.Sprintf(`for x in $TOOLS_%s; do echo %s; $x; done`, strings.ToUpper(k), k))
	}
	for i, out := range t.AllOuts() {
		if dir := filepath.Dir(out); dir != "." {
			c = append(c, fmt.Sprintf(`mkdir -p "%s"`, dir))
		}
		line := fmt.Sprintf(`{ echo "%s %d"; %s; `, t.Salt, i, t.body())
		if t.ConfigKey != "" {
			line += `echo "cfg=` + cfgToken + `"; `
		}
		if i == 0 {
			for _, e := range extra {
				line += e + "; "
			}
		}
		line += fmt.Sprintf(`} > "%s"`, out)
		c = append(c, line)
	}
	return strings.Join(c, "; ")
}

// cmdExpr renders the command as a BUILD expression (a string literal, possibly concatenated with
// a CONFIG value).
func (r *Repo) cmdExpr(t *Target) string {
	cmd := r.Command(t)
	if t.ConfigKey == "" {
		return q(cmd)
	}
	parts := strings.Split(cmd, cfgToken)
	expr := ""
	for i, p := range parts {
		if i > 0 {
			expr += " + CONFIG." + strings.ToUpper(t.ConfigKey) + " + "
		}
		expr += q(p)
	}
	return expr
}

// TestCommand is the test command of a gentest: it reads every data file (so that a missing data
// file fails the test) and passes.
func (r *Repo) TestCommand(t *Target) string {
	return `export LC_ALL=C; find . \( -type f -o -type l \) | sort | xargs -r cksum > /dev/null`
}

// RenderOpts permutes the textual order of dict entries (meaning-preserving).
type RenderOpts struct {
	DictOrder func(keys []string) []string
}

func (o RenderOpts) order(keys []string) []string {
	if o.DictOrder == nil {
		return keys
	}
	return o.DictOrder(append([]string(nil), keys...))
}

// Render returns the BUILD text of one model target; it doubles as the definition fingerprint.
func (r *Repo) Render(t *Target, o RenderOpts) string {
	var sb strings.Builder
	w := func(format string, args ...any) { fmt.Fprintf(&sb, format, args...) }
	srcsExpr := func() string {
		if t.NamedSrcs != nil {
			return qdictList(localsMap(t.Pkg, t.NamedSrcs), o.order(SortedKeys(t.NamedSrcs)))
		}
		return qlist(append(append([]string{}, t.Srcs...), locals(t.Pkg, t.SrcLabels)...))
	}
	common := func() {
		if len(t.Deps) > 0 {
			w("    deps = %s,\n", qlist(locals(t.Pkg, t.Deps)))
		}
		if len(t.Exported) > 0 {
			w("    exported_deps = %s,\n", qlist(locals(t.Pkg, t.Exported)))
		}
		if len(t.Labels) > 0 {
			w("    labels = %s,\n", qlist(t.Labels))
		}
		if len(t.Requires) > 0 {
			w("    requires = %s,\n", qlist(t.Requires))
		}
		if len(t.Provides) > 0 {
			p := map[string]string{}
			for k, v := range t.Provides {
				p[k] = local(t.Pkg, v)
			}
			w("    provides = %s,\n", qdict(p, o.order(SortedKeys(p))))
		}
	}
	switch t.Kind {
	case TextFile:
		w("text_file(\n    name = %s,\n    content = %s,\n    out = %s,\n", q(t.Name), q(t.Content), q(t.Outs[0]))
		if len(t.Labels) > 0 {
			w("    labels = %s,\n", qlist(t.Labels))
		}
		if t.TestOnly {
			w("    test_only = True,\n")
		}
	case Filegroup:
		w("filegroup(\n    name = %s,\n    srcs = %s,\n", q(t.Name), srcsExpr())
		common()
		if t.TestOnly {
			w("    test_only = True,\n")
		}
	case Lib:
		w("lib(\n    name = %s,\n    srcs = %s,\n    salt = %s,\n", q(t.Name), srcsExpr(), q(t.Salt))
		if len(t.Deps) > 0 {
			w("    deps = %s,\n", qlist(locals(t.Pkg, t.Deps)))
		}
		if len(t.Labels) > 0 {
			w("    labels = %s,\n", qlist(t.Labels))
		}
		if t.TestOnly {
			w("    test_only = True,\n")
		}
	case Gentest:
		w("gentest(\n    name = %s,\n    srcs = %s,\n    outs = %s,\n    cmd = %s,\n    test_cmd = %s,\n    no_test_output = True,\n",
			q(t.Name), srcsExpr(), qlist(t.Outs), r.cmdExpr(t), q(r.TestCommand(t)))
		if t.NamedData != nil {
			w("    data = %s,\n", qdictList(localsMap(t.Pkg, t.NamedData), o.order(SortedKeys(t.NamedData))))
		} else if len(t.Data) > 0 {
			w("    data = %s,\n", qlist(locals(t.Pkg, t.Data)))
		}
		r.renderTools(t, o, w)
		if len(t.Env) > 0 {
			w("    env = %s,\n", qdict(t.Env, o.order(SortedKeys(t.Env))))
		}
		common()
	default: // genrule
		rule := "genrule"
		if t.PostBuild {
			rule = "pbgen"
		} else if t.PreBuild {
			rule = "prgen"
		}
		w("%s(\n    name = %s,\n    srcs = %s,\n", rule, q(t.Name), srcsExpr())
		if t.NamedOuts != nil {
			w("    outs = %s,\n", qdictList(t.NamedOuts, o.order(SortedKeys(t.NamedOuts))))
		} else {
			w("    outs = %s,\n", qlist(t.Outs))
		}
		w("    cmd = %s,\n", r.cmdExpr(t))
		r.renderTools(t, o, w)
		if t.Binary || t.IsTool {
			w("    binary = True,\n")
		}
		if len(t.Env) > 0 {
			w("    env = %s,\n", qdict(t.Env, o.order(SortedKeys(t.Env))))
		}
		if len(t.EntryPoints) > 0 {
			w("    entry_points = %s,\n", qdict(t.EntryPoints, o.order(SortedKeys(t.EntryPoints))))
		}
		if t.TestOnly {
			w("    test_only = True,\n")
		}
		common()
	}
	w("    visibility = [\"PUBLIC\"],\n)\n")
	return sb.String()
}

func (r *Repo) renderTools(t *Target, o RenderOpts, w func(string, ...any)) {
	if t.NamedTools != nil {
		w("    tools = %s,\n", qdictList(localsMap(t.Pkg, t.NamedTools), o.order(SortedKeys(t.NamedTools))))
	} else if len(t.Tools) > 0 {
		w("    tools = %s,\n", qlist(locals(t.Pkg, t.Tools)))
	}
}

// DefsText is the build_defs file: `lib` creates a hidden child and a public filegroup that
// provides it; `pbgen` is a genrule with a post-build function.
func (r *Repo) DefsText() string {
	if r.Light {
		return strings.Replace(r.heavyDefsText(), heavyLibCmd(r.DefsSalt), lightLibCmd(r.DefsSalt), 1)
	}
	return r.heavyDefsText()
}

func heavyLibCmd(defsSalt string) string {
	return `"export LC_ALL=C; L=\"$(find . -type f | sort | xargs -r cksum)\"; { echo ` + defsSalt + ` " + salt + "; echo \"$L\"; } > $OUT"`
}

func lightLibCmd(defsSalt string) string {
	return `"` + strings.ReplaceAll(lightPrologue, `"`, `\"`) + `; { echo ` + defsSalt + ` " + salt + "; echo \"$SRCS\"; cats $SRCS; } > $OUT"`
}

func (r *Repo) heavyDefsText() string {
	return fmt.Sprintf(`def lib(name, srcs, salt, deps=None, visibility=None, test_only=False, labels=[]):
    a = build_rule(
        name = name,
        tag = "a",
        srcs = srcs,
        outs = [name + ".a"],
        cmd = "export LC_ALL=C; L=\"$(find . -type f | sort | xargs -r cksum)\"; { echo %s " + salt + "; echo \"$L\"; } > $OUT",
        deps = deps,
        test_only = test_only,
    )
    return filegroup(
        name = name,
        srcs = [a],
        deps = deps,
        provides = {"lx": a},
        visibility = visibility,
        test_only = test_only,
        labels = labels,
    )

def _pb(name, output):
    add_label(name, "pb_" + str(len(output)))

def pbgen(name, srcs, outs, cmd, deps=None, exported_deps=None, tools=None, binary=False, env={}, labels=[],
          requires=None, provides=None, test_only=False, entry_points={}, visibility=None):
    return genrule(
        name = name,
        srcs = srcs,
        outs = outs,
        cmd = cmd + "; echo done",
        deps = deps,
        exported_deps = exported_deps,
        tools = tools,
        binary = binary,
        env = env,
        labels = labels,
        requires = requires,
        provides = provides,
        test_only = test_only,
        entry_points = entry_points,
        visibility = visibility,
        post_build = _pb,
    )
`, r.DefsSalt)
}

// UsesDefs reports whether any target needs the build_defs package.
func (r *Repo) UsesDefs() bool {
	if r.NoDefs {
		return false
	}
	return true
}

func (r *Repo) pkgUsesDefs(pkg string) bool {
	for _, t := range r.Targets {
		if t.Pkg == pkg && (t.Kind == Lib || t.PostBuild || t.PreBuild) {
			return true
		}
	}
	return false
}

// DefsLabel is the subincluded target.
const DefsLabel = "//build_defs:defs"

// Pkgs returns the sorted package names of the model targets.
func (r *Repo) Pkgs() []string {
	m := map[string]bool{}
	for _, t := range r.Targets {
		m[t.Pkg] = true
	}
	return SortedKeys(m)
}

// SubincludingPkgs returns the packages whose BUILD file subincludes the build_defs target.
func (r *Repo) SubincludingPkgs() []string {
	var out []string
	if !r.UsesDefs() {
		return nil
	}
	for _, p := range r.Pkgs() {
		if r.pkgUsesDefs(p) {
			out = append(out, p)
		}
	}
	return out
}

// BuildFiles renders every BUILD file.
func (r *Repo) BuildFiles(o RenderOpts) map[string]string {
	out := map[string]string{}
	for _, t := range r.Targets {
		p := filepath.Join(t.Pkg, "BUILD")
		if out[p] == "" && r.UsesDefs() && r.pkgUsesDefs(t.Pkg) {
			out[p] = "subinclude(" + q(DefsLabel) + ")\n\n"
		}
		out[p] += r.Render(t, o) + "\n"
	}
	if r.UsesDefs() {
		if r.DefsGen {
			out["build_defs/BUILD"] = "genrule(\n    name = \"defs\",\n    srcs = [\"defs.in\"],\n    outs = [\"defs.build_defs\"],\n    cmd = \"cp $SRCS $OUT\",\n    visibility = [\"PUBLIC\"],\n)\n"
		} else {
			out["build_defs/BUILD"] = "filegroup(\n    name = \"defs\",\n    srcs = [\"defs.build_defs\"],\n    visibility = [\"PUBLIC\"],\n)\n"
		}
	}
	return out
}

// DefsFile is the repo-relative path of the build_defs source file.
func (r *Repo) DefsFile() string {
	if r.DefsGen {
		return "build_defs/defs.in"
	}
	return "build_defs/defs.build_defs"
}

var pathOrders = []string{"/usr/local/bin:/usr/bin:/bin", "/usr/bin:/usr/local/bin:/bin", "/usr/bin:/bin:/usr/local/bin"}

// ConfigText renders .plzconfig.
func (r *Repo) ConfigText() string {
	var sb strings.Builder
	sb.WriteString("[please]\nselfupdate = false\nautoclean = false\n\n[build]\npath = " + pathOrders[r.PathOrder%len(pathOrders)] + "\n\n[cache]\ndir =\n")
	if len(r.BuildEnv) > 0 {
		sb.WriteString("\n[buildenv]\n")
		for _, k := range SortedKeys(r.BuildEnv) {
			fmt.Fprintf(&sb, "%s = %s\n", k, r.BuildEnv[k])
		}
	}
	if len(r.BuildConfig) > 0 {
		sb.WriteString("\n[buildconfig]\n")
		for _, k := range SortedKeys(r.BuildConfig) {
			fmt.Fprintf(&sb, "%s = %s\n", k, r.BuildConfig[k])
		}
	}
	if len(r.GcKeep)+len(r.GcKeepLabel) > 0 {
		sb.WriteString("\n[gc]\n")
		for _, k := range r.GcKeep {
			fmt.Fprintf(&sb, "keep = %s\n", k)
		}
		for _, k := range r.GcKeepLabel {
			fmt.Fprintf(&sb, "keeplabel = %s\n", k)
		}
	}
	sb.WriteString(r.ExtraConfig)
	return sb.String()
}

// AllFiles returns every file of the state (sources, BUILD files, build_defs, .plzconfig, .gitignore).
func (r *Repo) AllFiles(o RenderOpts) map[string]string {
	out := map[string]string{".plzconfig": r.ConfigText(), ".gitignore": "plz-out\n"}
	for k, v := range r.Files {
		out[k] = v
	}
	for k, v := range r.BuildFiles(o) {
		out[k] = v
	}
	if r.UsesDefs() {
		out[r.DefsFile()] = r.DefsText() + r.preDefsText() // preDefsText is "" unless a target has PreBuild (C24)
	}
	return out
}

// ---- real targets ----

// A Real is one actual plz target (a model target expands to one, a Lib to two).
type Real struct {
	Label  string
	Hidden bool
	Model  *Target
	Roots  []string // plz-out-relative output paths
}

func relOut(pkg, p string) string {
	p = strings.TrimPrefix(strings.TrimPrefix(p, "gen/"), "bin/")
	if pkg != "" {
		p = strings.TrimPrefix(p, pkg+"/")
	}
	return p
}

// Roots returns the plz-out-relative output paths of the real target with the given label.
func (r *Repo) Roots(label string) []string {
	t := r.Owner(label)
	if t == nil {
		if label == DefsLabel && r.UsesDefs() {
			return []string{"gen/build_defs/defs.build_defs"}
		}
		return nil
	}
	base := "gen"
	if t.Binary || t.IsTool || t.Kind == Gentest {
		base = "bin"
	}
	var out []string
	switch t.Kind {
	case Lib:
		out = []string{filepath.Join("gen", t.Pkg, t.Name+".a")}
	case Filegroup:
		for _, s := range t.Srcs {
			out = append(out, filepath.Join(base, t.Pkg, strings.TrimSuffix(s, "/")))
		}
		for _, l := range t.SrcLabels {
			d := r.Owner(l)
			if d == nil {
				continue
			}
			for _, p := range r.Roots(l) {
				out = append(out, filepath.Join(base, t.Pkg, relOut(d.Pkg, p)))
			}
		}
	default:
		for _, o := range t.AllOuts() {
			out = append(out, filepath.Join(base, t.Pkg, o))
		}
	}
	sort.Strings(out)
	return out
}

// Reals lists every real target of the state, hidden children included (not the build_defs target).
func (r *Repo) Reals() []Real {
	var out []Real
	for _, t := range r.Targets {
		if t.Kind == Lib {
			out = append(out, Real{Label: t.ChildLabel(), Hidden: true, Model: t, Roots: r.Roots(t.ChildLabel())})
		}
		out = append(out, Real{Label: t.Label(), Model: t, Roots: r.Roots(t.Label())})
	}
	return out
}

// Valid reports whether no filegroup declares one output twice and no two targets of one package
// declare the same output (Please rejects both), except a Lib and its child.
func (r *Repo) Valid() bool {
	seen := map[string]string{}
	for _, re := range r.Reals() {
		if re.Hidden {
			continue
		}
		own := map[string]bool{}
		for _, p := range re.Roots {
			if own[p] {
				return false
			}
			own[p] = true
			if re.Model.Kind == Filegroup {
				continue // filegroups may re-export a same-package output under its own path
			}
			if prev, ok := seen[p]; ok && prev != re.Label {
				return false
			}
			seen[p] = re.Label
		}
	}
	return true
}

// ---- graph knowledge (for the reference oracles) ----

// Edges returns, for a real label, the real labels it depends on: everything it declares, the
// resolved provide for targets that require a provided language, and a Lib's child.
func (r *Repo) Edges(label string) []string {
	t := r.Owner(label)
	if t == nil {
		return nil
	}
	var out []string
	if t.Kind == Lib {
		if label == t.Label() {
			out = append(out, t.ChildLabel())
			out = append(out, t.Deps...)
			return out
		}
		// the child: its sources and deps
		out = append(out, t.SrcLabels...)
		out = append(out, t.Deps...)
		return out
	}
	for _, l := range t.InputLabels() {
		l = r.abs(t.Pkg, l)
		out = append(out, l)
		if d := r.Owner(l); d != nil && len(t.Requires) > 0 {
			for _, req := range t.Requires {
				if d.Kind == Lib && req == "lx" {
					out = append(out, d.ChildLabel())
				}
				if p, ok := d.Provides[req]; ok {
					out = append(out, r.abs(d.Pkg, p))
				}
			}
		}
	}
	return out
}

func (r *Repo) abs(pkg, l string) string {
	if strings.HasPrefix(l, ":") {
		return "//" + pkg + l
	}
	return l
}

// Closure returns every real label reachable from the given ones through Edges.
func (r *Repo) Closure(from []string) map[string]bool {
	seen := map[string]bool{}
	var walk func(string)
	walk = func(l string) {
		if seen[l] {
			return
		}
		if r.Owner(l) == nil && l != DefsLabel {
			return
		}
		seen[l] = true
		for _, e := range r.Edges(l) {
			walk(e)
		}
	}
	for _, l := range from {
		walk(l)
	}
	return seen
}

// ---- light commands (Repo.Light) ----

// lightPrologue defines, with shell builtins only, `rd FILE` (print a file) and `cats PATH...`
// (print every regular file among the paths, descending into directories in C-locale glob order).
const lightPrologue = `export LC_ALL=C; rd() { while IFS= read -r l || [ -n "$l" ]; do echo "$l"; done < "$1"; }; cats() { for f in "$@"; do if [ -f "$f" ]; then echo "== $f"; rd "$f"; elif [ -d "$f" ]; then cats "$f"/*; fi; done; }`

// lightCommand is Command for Repo.Light: still a deterministic function of the declared inputs
// (salt, $SRCS and the contents of the sources, named source groups, env and config values, the tool
// paths and tool file contents), but it starts no process besides the shell itself. Tools are read,
// not executed. Output sub-directories are created by Please before the command runs.
func (r *Repo) lightCommand(t *Target) string {
	c := []string{lightPrologue}
	if t.IsTool {
		out := t.AllOuts()[0]
		c = append(c, fmt.Sprintf(`{ echo '#!/bin/sh'; echo "echo tool-%s"; echo "$SRCS"; cats $SRCS; } > "%s"`, t.Salt, out))
		return strings.Join(c, "; ")
	}
	var extra []string
	for _, k := range SortedKeys(t.NamedSrcs) {
		extra = append(extra, fmt.Sprintf(`echo "%s=$SRCS_%s"`, k, strings.ToUpper(k)))
	}
	for _, k := range SortedKeys(t.Env) {
		extra = append(extra, fmt.Sprintf(`echo "%s=$%s"`, k, k))
	}
	if t.BuildEnv != "" {
		extra = append(extra, fmt.Sprintf(`echo "benv=$%s"`, envName(t.BuildEnv)))
	}
	if len(t.Tools) > 0 {
		extra = append(extra, `for x in $TOOLS; do echo "tool ${x##*/}"; rd "$x"; done`)
	}
	for _, k := range SortedKeys(t.NamedTools) {
		extra = append(extra, fmt.Sprintf(`for x in $TOOLS_%s; do echo "%s ${x##*/}"; rd "$x"; done`, strings.ToUpper(k), k))
	}
	body := `echo "$SRCS"; cats $SRCS`
	switch t.Op {
	case "names":
		body = `echo "$SRCS"`
	case "const":
		body = `true`
	}
	for i, out := range t.AllOuts() {
		line := fmt.Sprintf(`{ echo "%s %d"; %s; `, t.Salt, i, body)
		if t.ConfigKey != "" {
			line += `echo "cfg=` + cfgToken + `"; `
		}
		if i == 0 {
			for _, e := range extra {
				line += e + "; "
			}
		}
		line += fmt.Sprintf(`} > "%s"`, out)
		c = append(c, line)
	}
	return strings.Join(c, "; ")
}

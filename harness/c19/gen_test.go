package c19

// Input generators for C19: a grammar-based generator of (near-)valid asp programs, a token/byte
// mutation engine over a seed corpus, an exhaustive enumeration of adjacent string literals and a
// nesting-depth ladder. Everything is a function of the rng handed in (or of the case index alone).

import (
	"fmt"
	"math/rand"
	"strings"
)

// ---------------------------------------------------------------------------------------------
// tokenizer (the harness's own, deliberately simple; lossless: concatenating tokens gives the input)

func isIdentByte(c byte) bool {
	return c == '_' || (c >= 'a' && c <= 'z') || (c >= 'A' && c <= 'Z') || (c >= '0' && c <= '9') || c >= 0x80
}

func tokenize(s string) []string {
	var out []string
	i := 0
	for i < len(s) {
		c := s[i]
		j := i + 1
		switch {
		case c == '\n':
			for j < len(s) && s[j] == ' ' {
				j++
			}
		case c == ' ':
			for j < len(s) && s[j] == ' ' {
				j++
			}
		case c == '#':
			for j < len(s) && s[j] != '\n' {
				j++
			}
		case c == '"' || c == '\'' || ((c == 'f' || c == 'r') && i+1 < len(s) && (s[i+1] == '"' || s[i+1] == '\'')):
			k := i
			if c == 'f' || c == 'r' {
				k++
			}
			q := s[k]
			triple := k+2 < len(s) && s[k+1] == q && s[k+2] == q
			j = k + 1
			if triple {
				j = k + 3
			}
			for j < len(s) {
				if s[j] == '\\' && j+1 < len(s) {
					j += 2
					continue
				}
				if s[j] == q {
					if !triple {
						j++
						break
					}
					if j+2 < len(s) && s[j+1] == q && s[j+2] == q {
						j += 3
						break
					}
				}
				if s[j] == '\n' && !triple {
					break
				}
				j++
			}
			if j > len(s) {
				j = len(s)
			}
		case isIdentByte(c):
			for j < len(s) && isIdentByte(s[j]) {
				j++
			}
		default:
			if j < len(s) {
				two := s[i : j+1]
				switch two {
				case "==", "!=", "+=", "<=", ">=", "//", "->":
					j++
				}
			}
		}
		out = append(out, s[i:j])
		i = j
	}
	return out
}

// ---------------------------------------------------------------------------------------------
// dictionary of interesting tokens

var dict = []string{
	"f'", "f\"", "r'", "r\"", "'''", "\"\"\"", "'", "\"", "\\", "\\\\", "\\\n", "\\'",
	"{", "}", "{{", "}}", "${", "(", ")", "[", "]", ":", ",", ".", "=", "==", "!=", "+=", "<=", ">=", "//", "/",
	"-", "+", "%", "*", "|", "&", "->", "<", ">", "!",
	" not ", " in ", " not in ", " is ", " is not ", " and ", " or ", " if ", " else ", "elif ", "for ", "def ", "lambda ", "lambda:",
	"return ", "pass", "continue", "break", "assert ", "raise ", "None", "True", "False",
	"0o", "0o17", "0", "-1", "-", "999999999999999999", "9999999999999999999", "-999999999999999999", "00", "1_000",
	"\r", "\r\n", "\t", "\x00", "\x00\x00", "\xff", "\xc3", "\xe2\x82", "\xf0\x9f", "é", "日本", "\u2028", "\ufeff", "x\u0301", "٣",
	"#", "# c\n", ";", "@", "$", "?", "~", "^", "`",
	"f''", "f'a'", "f'{x}'", "f'{x.y}'", "f'{'", "f'}'", "f'{{x}}'", "f'${x}'", "f'{x}{y}'", "f'{}'", "f'{x'", "f'{{'", "f'a{'", "f\"\"\"{x}\"\"\"",
	"r'\\'", "r'\\''", "'\\", "'a' f'b'", "'a' 'b'", "f'a' 'b'", "f'{x}' f'b'", "'' f''", "''", "\"\"",
	"\n", "\n ", "\n  ", "\n    ", "\n        ", "\n   ", "\n\n", " ", "  ",
	"x", "_x", "CONFIG", "self", "name", "a.b.c", "x[0]", "x[:]", "x[::]", "x[1:2]", "f(", "f()", "f(x=", "f(x=1,x=2)", "**kw", "*args",
	"def f(a:str|int&b&c=1) -> str:\n    pass\n", "for x, y in z:\n", "if x:\n", "else:\n", "elif y:\n", "[x for x in y if z]", "{k: v for k, v in d}", "[x for x in y for z in w]",
}

var interestingBytes = []byte{0, 1, '\t', '\n', '\r', ' ', '"', '\'', '\\', '#', '(', ')', '[', ']', '{', '}', ':', ',', '.', '=', '-', '0', '9', 'f', 'r', 'o', '_', '$', 0x7f, 0x80, 0xbf, 0xc0, 0xc3, 0xe2, 0xf0, 0xfe, 0xff}

// ---------------------------------------------------------------------------------------------
// mutation engine

const maxInput = 32 << 10

type mutator struct {
	rng    *rand.Rand
	corpus []seedFile
	ops    []string // names of the operations applied (for the evidence)
}

func (m *mutator) note(op string) { m.ops = append(m.ops, op) }

func (m *mutator) dictTok() string {
	r := m.rng
	switch r.Intn(12) {
	case 0:
		return strings.Repeat(string(rune('a'+r.Intn(26))), 1+r.Intn(6000)) // very long identifier
	case 1:
		return strings.Repeat(string(rune('0'+r.Intn(10))), 1+r.Intn(200)) // very long int
	case 2:
		return genString(r, 2)
	}
	return dict[r.Intn(len(dict))]
}

// window picks a contiguous block of lines of a seed file (whole file when small).
func (m *mutator) window() string {
	r := m.rng
	s := string(m.corpus[r.Intn(len(m.corpus))].Data)
	if len(s) < 1500 && r.Intn(3) > 0 {
		return s
	}
	lines := strings.SplitAfter(s, "\n")
	n := 1 + r.Intn(40)
	if n > len(lines) {
		n = len(lines)
	}
	st := r.Intn(len(lines) - n + 1)
	// prefer starting at a top-level line
	for k := 0; k < 30 && st > 0 && (strings.HasPrefix(lines[st], " ") || lines[st] == "\n"); k++ {
		st--
	}
	if st+n > len(lines) {
		n = len(lines) - st
	}
	return strings.Join(lines[st:st+n], "")
}

func (m *mutator) tokenMutate(s string) string {
	r := m.rng
	toks := tokenize(s)
	if len(toks) == 0 {
		m.note("tok:insert-empty")
		return m.dictTok()
	}
	i := r.Intn(len(toks))
	join := func(t []string) string { return strings.Join(t, "") }
	switch op := r.Intn(16); op {
	case 0:
		m.note("tok:drop")
		return join(append(append([]string{}, toks[:i]...), toks[i+1:]...))
	case 1:
		m.note("tok:dup")
		return join(append(append(append([]string{}, toks[:i+1]...), toks[i]), toks[i+1:]...))
	case 2:
		m.note("tok:swap-adjacent")
		if i+1 < len(toks) {
			toks[i], toks[i+1] = toks[i+1], toks[i]
		}
		return join(toks)
	case 3:
		m.note("tok:swap-any")
		j := r.Intn(len(toks))
		toks[i], toks[j] = toks[j], toks[i]
		return join(toks)
	case 4:
		m.note("tok:replace-dict")
		toks[i] = m.dictTok()
		return join(toks)
	case 5, 6:
		m.note("tok:insert-dict")
		return join(append(append(append([]string{}, toks[:i]...), m.dictTok()), toks[i:]...))
	case 7:
		m.note("tok:truncate")
		return join(toks[:i])
	case 8:
		// change indentation of a line
		m.note("tok:reindent")
		for k := 0; k < len(toks); k++ {
			j := (i + k) % len(toks)
			if toks[j][0] == '\n' {
				switch r.Intn(5) {
				case 0:
					toks[j] = "\n" + strings.Repeat(" ", r.Intn(13))
				case 1:
					toks[j] += " "
				case 2:
					if len(toks[j]) > 1 {
						toks[j] = toks[j][:len(toks[j])-1]
					}
				case 3:
					toks[j] = "\n\t"
				case 4:
					toks[j] = "\r" + toks[j]
				}
				break
			}
		}
		return join(toks)
	case 9:
		// unbalance brackets: delete a closer or insert an opener
		m.note("tok:unbalance")
		for k := 0; k < len(toks); k++ {
			j := (i + k) % len(toks)
			if t := toks[j]; t == ")" || t == "]" || t == "}" {
				if r.Intn(2) == 0 {
					toks[j] = ""
				} else {
					toks[j] = string(")]}"[r.Intn(3)])
				}
				return join(toks)
			}
		}
		toks[i] = "([{"[r.Intn(3):][:1] + toks[i]
		return join(toks)
	case 10, 11:
		// string surgery: change prefix / quote / glue another literal next to it
		m.note("tok:string-surgery")
		for k := 0; k < len(toks); k++ {
			j := (i + k) % len(toks)
			t := toks[j]
			if len(t) >= 2 && (t[0] == '"' || t[0] == '\'' || ((t[0] == 'f' || t[0] == 'r') && (t[1] == '"' || t[1] == '\''))) {
				switch r.Intn(8) {
				case 0:
					toks[j] = "f" + strings.TrimLeft(t, "fr")
				case 1:
					toks[j] = "r" + strings.TrimLeft(t, "fr")
				case 2:
					toks[j] = t[:len(t)-1] // drop closing quote
				case 3:
					toks[j] = t + " " + genString(r, 1)
				case 4:
					toks[j] = genString(r, 1) + " " + t
				case 5:
					toks[j] = t + genString(r, 1) // no space between
				case 6:
					p := 1 + r.Intn(len(t)-1)
					toks[j] = t[:p] + []string{"{", "}", "{{", "${", "\\", "{x}", "\n", "\"", "'"}[r.Intn(9)] + t[p:]
				case 7:
					toks[j] = strings.TrimLeft(t, "fr")
				}
				return join(toks)
			}
		}
		toks[i] = genString(r, 3) + toks[i]
		return join(toks)
	case 12:
		m.note("tok:splice-other")
		o := tokenize(m.window())
		if len(o) > 0 {
			a := r.Intn(len(o))
			b := a + 1 + r.Intn(minInt(len(o)-a, 30))
			return join(append(append(append([]string{}, toks[:i]...), o[a:b]...), toks[i:]...))
		}
		return join(toks)
	case 13:
		// repeat a token range (moderate nesting / long chains)
		m.note("tok:repeat-range")
		b := i + 1 + r.Intn(minInt(len(toks)-i, 4))
		rep := join(toks[i:b])
		n := 2 + r.Intn(200)
		if len(rep)*n > maxInput/2 {
			n = maxInput / 2 / (len(rep) + 1)
		}
		return join(toks[:i]) + strings.Repeat(rep, n) + join(toks[b:])
	case 14:
		m.note("tok:delete-range")
		b := i + 1 + r.Intn(minInt(len(toks)-i, 12))
		return join(append(append([]string{}, toks[:i]...), toks[b:]...))
	default:
		m.note("tok:newline-to-space")
		for k := 0; k < len(toks); k++ {
			j := (i + k) % len(toks)
			if toks[j][0] == '\n' {
				toks[j] = " "
				break
			}
		}
		return join(toks)
	}
}

func (m *mutator) byteMutate(s string) string {
	r := m.rng
	b := []byte(s)
	if len(b) == 0 {
		m.note("byte:insert-empty")
		return string(interestingBytes[r.Intn(len(interestingBytes))])
	}
	i := r.Intn(len(b))
	switch r.Intn(8) {
	case 0:
		m.note("byte:bitflip")
		b[i] ^= 1 << uint(r.Intn(8))
	case 1:
		m.note("byte:set-interesting")
		b[i] = interestingBytes[r.Intn(len(interestingBytes))]
	case 2:
		m.note("byte:insert-interesting")
		b = append(b[:i], append([]byte{interestingBytes[r.Intn(len(interestingBytes))]}, b[i:]...)...)
	case 3:
		m.note("byte:delete-range")
		j := i + 1 + r.Intn(minInt(len(b)-i, 16))
		b = append(b[:i], b[j:]...)
	case 4:
		m.note("byte:dup-range")
		j := i + 1 + r.Intn(minInt(len(b)-i, 32))
		b = append(b[:j], append(append([]byte{}, b[i:j]...), b[j:]...)...)
	case 5:
		m.note("byte:truncate")
		b = b[:i]
	case 6:
		m.note("byte:random")
		b[i] = byte(r.Intn(256))
	case 7:
		m.note("byte:insert-dict")
		b = append(b[:i], append([]byte(m.dictTok()), b[i:]...)...)
	}
	return string(b)
}

func (m *mutator) mutate(s string, n int) string {
	for k := 0; k < n; k++ {
		if m.rng.Intn(10) < 7 {
			s = m.tokenMutate(s)
		} else {
			s = m.byteMutate(s)
		}
		if len(s) > maxInput {
			s = s[:maxInput]
		}
	}
	return s
}

func minInt(a, b int) int {
	if a < b {
		return a
	}
	return b
}

// ---------------------------------------------------------------------------------------------
// grammar-based generator (follows grammar_parse.go's productions; output is meant to be valid)

type gen struct {
	r      *rand.Rand
	sb     strings.Builder
	budget int
}

var idents = []string{"x", "y", "z", "name", "srcs", "deps", "_private", "CONFIG", "a1", "go_library", "self", "f", "lst", "d", "k", "v"}
var typeNames = []string{"bool", "str", "int", "list", "dict", "function", "config"}
var binops = []string{"+", "-", "%", "<", ">", "and", "or", "is", "is not", "in", "not in", "==", "!=", ">=", "<=", "|", "*", "/", "//"}

func (g *gen) id() string { return idents[g.r.Intn(len(idents))] }

func genString(r *rand.Rand, maxAdj int) string {
	n := 1
	if maxAdj > 1 {
		n += r.Intn(maxAdj)
	}
	var parts []string
	for k := 0; k < n; k++ {
		prefix := []string{"", "", "", "f", "f", "r"}[r.Intn(6)]
		quote := []string{"'", "\"", "'", "\"", "'''", "\"\"\""}[r.Intn(6)]
		var sb strings.Builder
		for j, m := 0, r.Intn(5); j < m; j++ {
			switch r.Intn(16) {
			case 0:
				sb.WriteString("abc")
			case 1:
				sb.WriteString(" ")
			case 2:
				if prefix != "r" {
					sb.WriteString("\\n")
				}
			case 3:
				if prefix != "r" {
					sb.WriteString("\\\\")
				}
			case 4:
				if prefix != "r" {
					sb.WriteString("\\" + quote[:1])
				}
			case 5:
				sb.WriteString("{x}")
			case 6:
				sb.WriteString("{x.y}")
			case 7:
				sb.WriteString("{{")
			case 8:
				sb.WriteString("}}")
			case 9:
				sb.WriteString("${x}")
			case 10:
				if len(quote) == 3 {
					sb.WriteString("\n")
				}
			case 11:
				if quote[0] == '\'' {
					sb.WriteString("\"")
				} else {
					sb.WriteString("'")
				}
			case 12:
				sb.WriteString("é日")
			case 13:
				sb.WriteString("$")
			case 14:
				sb.WriteString("//pkg:target")
			case 15:
				if prefix != "r" {
					sb.WriteString("\\t\\x")
				}
			}
		}
		parts = append(parts, prefix+quote+sb.String()+quote)
	}
	sep := " "
	if r.Intn(6) == 0 {
		sep = ""
	}
	return strings.Join(parts, sep)
}

func (g *gen) expr(depth int) string {
	g.budget--
	r := g.r
	var s string
	if r.Intn(8) == 0 {
		s = []string{"-", "not "}[r.Intn(2)]
	}
	s += g.value(depth)
	if depth > 0 && g.budget > 0 && r.Intn(3) == 0 {
		s += " " + binops[r.Intn(len(binops))] + " " + g.expr(depth-1)
	}
	if depth > 0 && g.budget > 0 && r.Intn(8) == 0 {
		s += " if " + g.expr(depth-1) + " else " + g.expr(depth-1)
	}
	return s
}

func (g *gen) exprList(depth, max int) string {
	n := g.r.Intn(max + 1)
	var parts []string
	for i := 0; i < n; i++ {
		parts = append(parts, g.expr(depth))
	}
	s := strings.Join(parts, ", ")
	if n > 0 && g.r.Intn(4) == 0 {
		s += ","
	}
	return s
}

func (g *gen) comprehension(depth int) string {
	s := " for " + g.identList() + " in " + g.uexpr(depth)
	if g.r.Intn(4) == 0 {
		s += " for " + g.identList() + " in " + g.uexpr(depth)
	}
	if g.r.Intn(3) == 0 {
		s += " if " + g.uexpr(depth)
	}
	return s
}

func (g *gen) uexpr(depth int) string {
	s := g.value(depth)
	if depth > 0 && g.r.Intn(4) == 0 {
		s += " " + binops[g.r.Intn(len(binops))] + " " + g.value(depth-1)
	}
	return s
}

func (g *gen) identList() string {
	n := 1 + g.r.Intn(3)
	parts := make([]string, n)
	for i := range parts {
		parts[i] = g.id()
	}
	return strings.Join(parts, ", ")
}

func (g *gen) call(depth int) string {
	n := g.r.Intn(4)
	var parts []string
	used := map[string]bool{}
	for i := 0; i < n; i++ {
		if g.r.Intn(2) == 0 {
			name := g.id()
			if used[name] {
				continue
			}
			used[name] = true
			parts = append(parts, name+" = "+g.expr(depth))
		} else {
			parts = append(parts, g.expr(depth))
		}
	}
	nl := ""
	if g.r.Intn(4) == 0 {
		nl = "\n    "
	}
	s := "(" + nl + strings.Join(parts, ","+nl+" ")
	if len(parts) > 0 && g.r.Intn(3) == 0 {
		s += ","
	}
	return s + nl + ")"
}

func (g *gen) identExpr(depth int) string {
	s := g.id()
	for k := g.r.Intn(3); k > 0 && depth > 0; k-- {
		if g.r.Intn(2) == 0 {
			s += "." + g.id()
		} else {
			s += g.call(depth - 1)
		}
	}
	return s
}

func (g *gen) value(depth int) string {
	r := g.r
	g.budget--
	if depth <= 0 || g.budget <= 0 {
		switch r.Intn(5) {
		case 0:
			return fmt.Sprint(r.Intn(1000))
		case 1:
			return genString(r, 1)
		case 2:
			return []string{"True", "False", "None"}[r.Intn(3)]
		default:
			return g.id()
		}
	}
	var s string
	switch r.Intn(12) {
	case 0:
		if r.Intn(4) == 0 {
			s = genString(r, 4)
		} else {
			s = genString(r, 1)
		}
	case 1:
		s = []string{"0", "1", "-1", "42", "0o17", "99999999999999999", "-99999999999999999", "007"}[r.Intn(8)]
	case 2:
		s = []string{"True", "False", "None"}[r.Intn(3)]
	case 3:
		if r.Intn(3) == 0 {
			s = "[" + g.expr(depth-1) + g.comprehension(depth-1) + "]"
		} else {
			s = "[" + g.exprList(depth-1, 4) + "]"
		}
	case 4:
		s = "(" + g.exprList(depth-1, 3) + ")"
	case 5:
		if r.Intn(3) == 0 {
			s = "{" + g.expr(depth-1) + ": " + g.expr(depth-1) + g.comprehension(depth-1) + "}"
		} else {
			n := r.Intn(3)
			var parts []string
			for i := 0; i < n; i++ {
				parts = append(parts, g.expr(depth-1)+": "+g.expr(depth-1))
			}
			s = "{" + strings.Join(parts, ", ") + "}"
		}
	case 6:
		s = "lambda"
		n := r.Intn(3)
		for i := 0; i < n; i++ {
			if i > 0 {
				s += ","
			}
			s += " " + g.id()
			if r.Intn(3) == 0 {
				s += "=" + g.value(0)
			}
		}
		s += ": " + g.expr(depth-1)
		return s
	default:
		s = g.identExpr(depth)
	}
	for k := r.Intn(3); k > 0 && r.Intn(3) == 0; k-- {
		switch r.Intn(5) {
		case 0:
			s += "[" + g.expr(depth-1) + "]"
		case 1:
			s += "[" + g.expr(depth-1) + ":" + g.expr(depth-1) + "]"
		case 2:
			s += "[:" + g.expr(depth-1) + "]"
		case 3:
			s += "[" + g.expr(depth-1) + ":]"
		case 4:
			s += "[:]"
		}
	}
	switch r.Intn(8) {
	case 0:
		s += "." + g.identExpr(depth-1)
	case 1:
		s += g.call(depth - 1)
	}
	return s
}

func (g *gen) line(indent int, s string) {
	g.sb.WriteString(strings.Repeat(" ", indent))
	g.sb.WriteString(s)
	g.sb.WriteString("\n")
}

func (g *gen) block(indent, depth int, inFor bool) {
	n := 1 + g.r.Intn(3)
	for i := 0; i < n; i++ {
		g.statement(indent, depth, inFor)
	}
}

func (g *gen) statement(indent, depth int, inFor bool) {
	r := g.r
	g.budget--
	if r.Intn(12) == 0 {
		g.line(indent, "# "+g.id())
	}
	if r.Intn(15) == 0 {
		g.sb.WriteString("\n")
	}
	k := r.Intn(16)
	if depth <= 0 || g.budget <= 0 {
		k = 8 + r.Intn(8)
	}
	ed := 2
	switch k {
	case 0, 1: // def
		var args []string
		for i, n := 0, r.Intn(4); i < n; i++ {
			a := fmt.Sprintf("%s%d", g.id(), i)
			if r.Intn(2) == 0 {
				a += ":" + typeNames[r.Intn(len(typeNames))]
				for r.Intn(3) == 0 {
					a += "|" + typeNames[r.Intn(len(typeNames))]
				}
			}
			for r.Intn(5) == 0 {
				a += "&" + g.id()
			}
			if r.Intn(2) == 0 {
				a += "=" + g.expr(1)
			}
			args = append(args, a)
		}
		h := "def " + g.id() + "(" + strings.Join(args, ", ") + ")"
		if r.Intn(3) == 0 {
			h += " -> " + typeNames[r.Intn(len(typeNames))]
		}
		g.line(indent, h+":")
		if r.Intn(3) == 0 {
			g.line(indent+4, []string{`"""Docstring."""`, `'doc'`, "\"\"\"Multi\n    line.\n    \"\"\""}[r.Intn(3)])
		}
		g.block(indent+4, depth-1, false)
	case 2, 3: // if
		g.line(indent, "if "+g.expr(ed)+":")
		g.block(indent+4, depth-1, inFor)
		for r.Intn(3) == 0 {
			g.line(indent, "elif "+g.expr(ed)+":")
			g.block(indent+4, depth-1, inFor)
		}
		if r.Intn(2) == 0 {
			g.line(indent, "else:")
			g.block(indent+4, depth-1, inFor)
		}
	case 4, 5: // for
		g.line(indent, "for "+g.identList()+" in "+g.expr(ed)+":")
		g.block(indent+4, depth-1, true)
	case 6:
		g.line(indent, "assert "+g.expr(ed)+[]string{"", ", " + genString(r, 2)}[r.Intn(2)])
	case 7:
		g.line(indent, "raise "+g.expr(ed))
	case 8:
		g.line(indent, "return "+g.exprList(ed, 3))
	case 9:
		if inFor {
			g.line(indent, []string{"continue", "break"}[r.Intn(2)])
		} else {
			g.line(indent, "pass")
		}
	case 10:
		// literal / expression statement (must not start with a keyword-like identifier)
		switch r.Intn(4) {
		case 0:
			g.line(indent, genString(r, 2))
		case 1:
			g.line(indent, "["+g.exprList(ed, 3)+"]")
		case 2:
			g.line(indent, "("+g.exprList(ed, 3)+")")
		default:
			g.line(indent, fmt.Sprint(r.Intn(100))+" + "+g.expr(ed))
		}
	case 11:
		g.line(indent, g.identList()+", "+g.id()+" = "+g.expr(ed))
	case 12:
		g.line(indent, g.id()+"["+g.expr(ed)+"] "+[]string{"=", "+="}[r.Intn(2)]+" "+g.expr(ed))
	case 13:
		g.line(indent, g.id()+"."+g.identExpr(ed))
	case 14:
		g.line(indent, g.id()+g.call(ed))
	default:
		g.line(indent, g.id()+" "+[]string{"=", "+="}[r.Intn(2)]+" "+g.expr(3))
	}
}

// genProgram returns a program intended to be valid asp.
func genProgram(r *rand.Rand) string {
	g := &gen{r: r, budget: 10 + r.Intn(80)}
	n := 1 + r.Intn(4)
	for i := 0; i < n; i++ {
		g.statement(0, 2+r.Intn(2), false)
	}
	s := g.sb.String()
	if r.Intn(10) == 0 {
		s = strings.TrimRight(s, "\n") // no trailing newline
	}
	if len(s) > maxInput {
		s = s[:maxInput]
	}
	return s
}

// ---------------------------------------------------------------------------------------------
// exhaustive adjacent-literal enumeration

var adjLits = []string{`''`, `'a'`, `"b"`, `f''`, `f'c'`, `f'{x}'`, `f'd{x}e'`, `f"{x}{y}"`, `r'\n'`, `'''m'''`, `f'''{x}'''`, `f'{{z}}'`, `f"${x}"`}
var adjCtx = []string{"x = %s\n", "f(%s)\n", "f(a = %s)\n", "y = [%s, 1]\n", "y = {%s: %s}\n", "def g():\n    return %s\n", "x = %s.format(a=1)\n", "x = %s[0]\n", "x = 1 + %s + %s\n", "%s\n"}
var adjSeps = []string{" ", "", "\n    "} // the last one only makes sense inside brackets

func adjacentCount(maxLen int) int {
	n := 0
	p := len(adjLits)
	for l := 2; l <= maxLen; l++ {
		p *= len(adjLits)
		n += p
	}
	return n * len(adjCtx) * 2
}

func adjacentCase(i, maxLen int) string {
	sep := adjSeps[i%2]
	i /= 2
	ctx := adjCtx[i%len(adjCtx)]
	i /= len(adjCtx)
	l := 2
	p := len(adjLits) * len(adjLits)
	for i >= p && l < maxLen {
		i -= p
		p *= len(adjLits)
		l++
	}
	parts := make([]string, l)
	for k := range parts {
		parts[k] = adjLits[i%len(adjLits)]
		i /= len(adjLits)
	}
	s := strings.Join(parts, sep)
	return strings.ReplaceAll(ctx, "%s", s)
}

// ---------------------------------------------------------------------------------------------
// nesting-depth ladder

type depthCase struct {
	Construct string `json:"construct"`
	Depth     int    `json:"depth"`
	Overflow  bool   `json:"expect_deep"` // a case run at default stack limits that is deep enough to matter
	// StackMiB > 0: the child lowers Go's goroutine stack limit to this many MiB before parsing (flat
	// operator chains only, see flatStackMiB); 0 = Go's default limit.
	StackMiB int `json:"max_stack_mib,omitempty"`
}

type construct struct {
	name              string
	prefix, unit, mid string
	closeUnit, suffix string
	cap               int // largest depth that is affordable (super-linear parse cost above it)
	// flat: one expression that is a long chain of binary operators with no bracketing at all. The parser
	// recurses once per operator (the right operand is parsed by a recursive call), so such a chain is
	// "nested" as far as stack use is concerned although nothing in the text looks nested.
	flat bool
	ops  int // flat chains: binary operators per unit (0 = 1)
}

// flatStackMiB is the stack limit under which the long rungs of the flat operator chains run. Each level of
// a chain costs only ~200 bytes of stack, so at Go's default limit of 1 GiB an unbounded recursion needs
// more than 5 million terms, several GiB of heap and a minute of stack copying before it dies; with the
// limit lowered, a few hundred thousand terms do (and the unchanged parser's answer, an error that quotes
// the offending line, stays cheap: its cost grows with the length of that line). The limit is still far
// above what a parser that bounds its recursion needs: grammar_parse.go documents "at most a couple of
// kilobytes of stack" per level for maxDepth = 10000 levels, i.e. about 20 MiB for the most expensive
// construct; on these chains 10000 levels take about 2 MiB.
const flatStackMiB = 64

// flatDeep is the number of operators on the long rung of every flat chain: one million x ~200 bytes of
// stack per operator is three times flatStackMiB. (Rungs between the cap and this one are left out on purpose: a parser
// that does not bound the chain but survives it spends quadratic time hoisting the operators.)
const flatDeep = 1000000

var constructs = []construct{
	{name: "paren", prefix: "x = ", unit: "(", mid: "1", closeUnit: ")", suffix: "\n"},
	{name: "paren-unclosed", prefix: "x = ", unit: "(", suffix: "\n"},
	{name: "bracket", prefix: "x = ", unit: "[", mid: "1", closeUnit: "]", suffix: "\n"},
	{name: "brace", prefix: "x = ", unit: "{1:", mid: "1", closeUnit: "}", suffix: "\n"},
	{name: "brace-unclosed", prefix: "x = ", unit: "{", suffix: "\n"},
	{name: "call", prefix: "x = ", unit: "f(", mid: "1", closeUnit: ")", suffix: "\n"},
	{name: "index", prefix: "x = ", unit: "a[", mid: "0", closeUnit: "]", suffix: "\n"},
	{name: "unary-minus", prefix: "x = ", unit: "-(", mid: "1", closeUnit: ")", suffix: "\n"},
	{name: "lambda", prefix: "x = ", unit: "lambda: ", mid: "1", suffix: "\n"},
	{name: "inline-if", prefix: "x = ", unit: "a if b else ", mid: "c", suffix: "\n"},
	{name: "dotted", prefix: "x = a", unit: ".a", suffix: "\n"},
	{name: "call-chain", prefix: "x = a", unit: "()", suffix: "\n"},
	{name: "adjacent-strings", prefix: "x = ", unit: "'a' ", suffix: "\n", cap: 20000},
	{name: "binop-chain", prefix: "x = a", unit: " + a", suffix: "\n", cap: 20000, flat: true},
	{name: "comprehension", prefix: "x = ", unit: "[y for y in ", mid: "z", closeUnit: "]", suffix: "\n"},
	{name: "slices", prefix: "x = a", unit: "[0]", suffix: "\n"},
	{name: "not-chain", prefix: "x = ", unit: "not ", mid: "a", suffix: "\n"},
	{name: "lines", prefix: "", unit: "x = 1\n", suffix: ""},
	{name: "elif-chain", prefix: "if a:\n    pass\n", unit: "elif a:\n    pass\n", suffix: ""},
	{name: "long-ident", prefix: "", unit: "a", suffix: " = 1\n"},
	{name: "long-string", prefix: "x = '", unit: "a", suffix: "'\n"},
	{name: "unindent-run", prefix: "", unit: "", suffix: ""}, // special: nested if blocks
	// flat operator chains (one recursion per operator although the text has no nesting)
	{name: "chain-and", prefix: "x = a", unit: " and a", suffix: "\n", cap: 20000, flat: true},
	{name: "chain-or", prefix: "x = a", unit: " or a", suffix: "\n", cap: 20000, flat: true},
	{name: "chain-eq", prefix: "x = 1", unit: " == 1", suffix: "\n", cap: 20000, flat: true},
	{name: "chain-mixed", prefix: "x = a", unit: " or a and not a == -1 % a", suffix: "\n", cap: 5000, flat: true, ops: 4},
	{name: "chain-not-in", prefix: "x = a", unit: " not in a", suffix: "\n", cap: 20000, flat: true},
	{name: "chain-is-not", prefix: "x = a", unit: " is not a", suffix: "\n", cap: 20000, flat: true},
	{name: "chain-list-concat", prefix: "srcs = []", unit: " + [\"a\"]", suffix: "\n", cap: 20000, flat: true},
	{name: "chain-str-percent", prefix: "x = 'a'", unit: " % 'a' + 'b'", suffix: "\n", cap: 10000, flat: true, ops: 2},
	{name: "chain-in-call-arg", prefix: "x = f(y = a", unit: " + a", suffix: ")\n", cap: 20000, flat: true},
	{name: "chain-in-if-cond", prefix: "if a", unit: " and a", suffix: ":\n    pass\n", cap: 20000, flat: true},
}

// recursive reports whether the parser handles the construct by recursion (stack depth grows with nesting).
func (c construct) recursive() bool {
	switch c.name {
	case "call-chain", "slices", "not-chain", "lines", "elif-chain", "long-ident", "long-string", "unindent-run":
		return false
	}
	return true
}

func (c construct) build(depth int) []byte {
	if c.name == "unindent-run" {
		// nested if blocks, depth levels of indentation, then one dedent to zero
		var sb strings.Builder
		for d := 0; d < depth; d++ {
			sb.WriteString(strings.Repeat(" ", d))
			sb.WriteString("if a:\n")
		}
		sb.WriteString(strings.Repeat(" ", depth))
		sb.WriteString("pass\nx = 1\n")
		return []byte(sb.String())
	}
	var sb strings.Builder
	sb.Grow(len(c.prefix) + depth*(len(c.unit)+len(c.closeUnit)) + len(c.mid) + len(c.suffix))
	sb.WriteString(c.prefix)
	for d := 0; d < depth; d++ {
		sb.WriteString(c.unit)
	}
	sb.WriteString(c.mid)
	for d := 0; d < depth; d++ {
		sb.WriteString(c.closeUnit)
	}
	sb.WriteString(c.suffix)
	return []byte(sb.String())
}

func findConstruct(name string) (construct, bool) {
	for _, c := range constructs {
		if c.name == name {
			return c, true
		}
	}
	return construct{}, false
}

// depthTable is the fixed list of ladder cases of a tier. The expensive (process-fatal) ones come first
// so that the worker pool starts them early.
func depthTable(tier string) []depthCase {
	var out []depthCase
	deep := []string{"paren"}
	if tier == "thorough" {
		deep = []string{"paren", "bracket", "brace", "call", "index", "unary-minus", "lambda", "inline-if", "comprehension", "paren-unclosed", "brace-unclosed"}
	}
	for _, n := range deep {
		out = append(out, depthCase{Construct: n, Depth: 1000000, Overflow: true})
	}
	// flat operator chains: the long rung, under a lowered stack limit (quick and thorough), ...
	for _, c := range constructs {
		if c.flat {
			out = append(out, depthCase{Construct: c.name, Depth: flatDeep / max(c.ops, 1), Overflow: true, StackMiB: flatStackMiB})
		}
	}
	if tier == "thorough" {
		// ... and at Go's default limit with ten million terms (> 2 GiB of stack if nothing bounds the chain)
		for _, n := range []string{"binop-chain", "chain-or", "chain-mixed"} {
			out = append(out, depthCase{Construct: n, Depth: 10000000, Overflow: true})
		}
		out = append(out, depthCase{Construct: "dotted", Depth: 10000000, Overflow: true})
		for _, n := range []string{"call-chain", "slices", "not-chain", "long-ident", "long-string", "lines", "elif-chain"} {
			out = append(out, depthCase{Construct: n, Depth: 1000000})
		}
	}
	ladder := []int{100, 1000, 10000, 100000}
	for _, c := range constructs {
		for _, d := range ladder {
			if c.cap > 0 && d > c.cap {
				d = c.cap
			}
			if c.name == "unindent-run" && d > 2000 {
				d = 2000 // quadratic file size
			}
			if tier != "thorough" && c.flat && c.name != "binop-chain" {
				continue // quick: the added chains get the long rung above only; binop-chain keeps the whole ladder
			}
			if tier != "thorough" && d > 10000 && !c.recursive() {
				d = 10000 // iterative constructs: the deep rungs are left to the thorough tier
			}
			dup := false
			for _, o := range out {
				if o.Construct == c.name && o.Depth == d {
					dup = true
				}
			}
			if !dup {
				out = append(out, depthCase{Construct: c.name, Depth: d})
			}
		}
	}
	return out
}

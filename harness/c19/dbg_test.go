package c19

import (
	"fmt"
	"math/rand"
	"testing"

	"github.com/thought-machine/please/src/parse/asp"
	"verifharness/iplib"
)

func TestDbg(t *testing.T) {
	installCapture()
	p := asp.NewParser(iplib.NewState())
	cls := map[string]int{}
	shown := map[string]int{}
	rej, viol := 0, 0
	for i := 0; i < 3000; i++ {
		s := genProgram(rand.New(rand.NewSource(int64(i))))
		o := evaluate(p, []byte(s), "pkg/BUILD")
		if o.Key != "" {
			viol++
			continue
		}
		if !o.OK {
			rej++
			cls[o.Template]++
			if shown[o.Template] < 2 {
				shown[o.Template]++
				fmt.Printf("---- %s @%v\n%s\n", o.Template, o.Pos, s)
			}
		}
	}
	fmt.Println(rej, viol, cls)
}

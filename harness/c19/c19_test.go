// C19 — the BUILD parser is total and fails only with positioned errors.
//
// Monitor: the real parser is entered through asp.NewParser(state).ParseData. Every returned error must be
// asp's positioned stack error (dynamic type *asp.errorStack with a non-empty position, not wrapping a
// runtime.Error); a bare runtime error, a panic escaping ParseData, or the death of the process
// (fatal stack overflow) refute the property.
//
// Workloads (all count-bounded, all derived from VERIF_SEED and the case index only):
//   corpus    every BUILD / build_defs / *.build file tracked in the repository, unchanged
//   adjacent  exhaustive enumeration of 2..3 (thorough: 4) adjacent string/f-string/raw/triple literals x contexts
//   grammar   grammar-based programs (valid by construction) + token/byte mutations making them near-valid
//   mutfuzz   deterministic mutation fuzzer over windows of the seed corpus (token- and byte-level operators)
//   depth     nesting-depth ladder per recursive construct (incl. long flat operator chains), one child process per case
//
// Every batch runs in a lib.Child process which records the case index before parsing it, so that a
// process-fatal error is attributed to one input, which is then re-run alone to confirm.
package c19

import (
	"bytes"
	"crypto/sha256"
	"encoding/base64"
	"encoding/hex"
	"encoding/json"
	"errors"
	"fmt"
	"math/rand"
	"os"
	"os/exec"
	"path/filepath"
	"reflect"
	"regexp"
	"runtime"
	"runtime/debug"
	"sort"
	"strings"
	"sync"
	"sync/atomic"
	"syscall"
	"testing"
	"time"
	"unsafe"

	gologging "gopkg.in/op/go-logging.v1"

	"github.com/thought-machine/please/src/cli/logging"
	"github.com/thought-machine/please/src/parse/asp"

	"verifharness/iplib"
	"verifharness/lib"
)

const childTest = "TestC19Child"

type seedFile struct {
	Path string `json:"path"`
	Data []byte `json:"data"`
}

type jobSpec struct {
	Stream   string `json:"stream"`
	From     int    `json:"from"`
	To       int    `json:"to"`
	Tier     string `json:"tier"`
	Corpus   string `json:"corpus"`
	Out      string `json:"out"`
	Progress string `json:"progress"`
	Input    string `json:"input,omitempty"` // replay: parse these bytes instead of the generated ones
	Key      string `json:"key,omitempty"`   // stream "minimise": shrink Input while this key is reported
	PosFile  string `json:"pos_file"`        // scratch file used to observe positions against a file on disk
}

type violRec struct {
	Key     string   `json:"key"`
	What    string   `json:"what"`
	Witness any      `json:"witness"`
	Case    int      `json:"case"`
	Raw     string   `json:"raw,omitempty"` // base64 of the violating input as generated (minimised later, once per key)
	RawLen  int      `json:"raw_len,omitempty"`
	Desc    string   `json:"desc,omitempty"`
	Ops     []string `json:"ops,omitempty"`
	stream  string
}

type batchResult struct {
	Done     bool                `json:"done"`
	Hashes   []string            `json:"hashes"` // per case: 16 hex digits + "+" (non-trivial) or "-"
	Obs      map[string]int64    `json:"obs"`
	Distinct map[string][]string `json:"distinct"`
	Viols    []violRec           `json:"viols"`
	Samples  []any               `json:"samples"`
}

// ---------------------------------------------------------------------------------------------
// log capture: the parser logs the panic value and stack at debug level before converting it to an
// error; the child is single-threaded, so the last record belongs to the last ParseData call.

type captureBackend struct{ last atomic.Pointer[gologging.Record] }

func (c *captureBackend) Log(level gologging.Level, calldepth int, rec *gologging.Record) error {
	if level == gologging.DEBUG && len(rec.Args) == 2 {
		c.last.Store(rec)
	}
	return nil
}

var capture = &captureBackend{}

func installCapture() {
	iplib.Quiet()
	lb := gologging.AddModuleLevel(capture)
	lb.SetLevel(gologging.DEBUG, "")
	logging.Log.SetBackend(lb)
}

func lastPanicStack() string {
	rec := capture.last.Load()
	if rec == nil {
		return ""
	}
	if s, ok := rec.Args[1].(string); ok {
		return s
	}
	return ""
}

var aspFrame = regexp.MustCompile(`please/src/parse/asp\.((?:\(\*?\w+\)\.)?[\w.]+)\(`)

func cleanFn(s string) string {
	s = strings.NewReplacer("(*", "", ")", "", "(", "").Replace(s)
	return s
}

// innermostAspFrame returns the first asp function below the most recent panic in a stack dump.
func innermostAspFrame(stack string) string {
	if k := strings.Index(stack, "panic("); k >= 0 {
		stack = stack[k:]
	}
	if m := aspFrame.FindStringSubmatch(stack); m != nil {
		return cleanFn(m[1])
	}
	return "unknown"
}

// ---------------------------------------------------------------------------------------------
// oracle

type outcome struct {
	OK       bool
	Stmts    int
	Key      string // violation key ("" = property held on this input)
	What     string
	Template string // normalised error message (for the evidence)
	Pos      asp.FilePosition
}

var digits = regexp.MustCompile(`[0-9]+`)

func errClass(msg string) string {
	msg = strings.TrimPrefix(msg, "runtime error: ")
	if k := strings.IndexAny(msg, "[("); k > 0 {
		msg = msg[:k]
	}
	msg = digits.ReplaceAllString(msg, "N")
	msg = strings.TrimSpace(msg)
	if len(msg) > 60 {
		msg = msg[:60]
	}
	return strings.ReplaceAll(msg, " ", "-")
}

func template(short string) string {
	// the message up to (and including) the word that announces the offending token
	var out []string
	for _, w := range strings.Fields(short) {
		if len(out) == 6 {
			break
		}
		bare := strings.TrimRight(w, ",:")
		alpha := bare != ""
		for _, c := range bare {
			if !(c >= 'a' && c <= 'z') && !(c >= 'A' && c <= 'Z') {
				alpha = false
			}
		}
		if !alpha && bare != "'in'" && bare != "'continue'" && bare != "'break'" {
			break
		}
		out = append(out, bare)
		switch strings.ToLower(bare) {
		case "token", "symbol", "identifier", "constant", "argument", "large", "value":
			return strings.Join(out, " ")
		}
	}
	return strings.Join(out, " ")
}

func evaluate(p *asp.Parser, data []byte, filename string) (o outcome) {
	capture.last.Store(nil)
	var stmts []*asp.Statement
	var err error
	var pv any
	var pstack string
	func() {
		defer func() {
			if r := recover(); r != nil {
				pv = r
				pstack = string(debug.Stack())
			}
		}()
		stmts, err = p.ParseData(data, filename)
	}()
	if pv != nil {
		fn := "unknown"
		if k := strings.Index(pstack, "panic("); k >= 0 {
			if m := aspFrame.FindStringSubmatch(pstack[k:]); m != nil {
				fn = cleanFn(m[1])
			}
		}
		o.Key = "panic-escapes/" + fn + "/" + errClass(fmt.Sprint(pv))
		o.What = fmt.Sprintf("ParseData panicked instead of returning an error: %v (first asp frame %s)", pv, fn)
		return o
	}
	if err == nil {
		o.OK, o.Stmts = true, len(stmts)
		return o
	}
	typ := fmt.Sprintf("%T", err)
	var rte runtime.Error
	if typ != "*asp.errorStack" {
		fn := innermostAspFrame(lastPanicStack())
		if errors.As(err, &rte) || strings.HasPrefix(err.Error(), "runtime error:") {
			o.Key = "runtime-error/" + errClass(err.Error()) + "/" + fn
			o.What = fmt.Sprintf("ParseData returned a bare %s (%q) raised in asp.%s, not a positioned syntax error", typ, err.Error(), fn)
		} else {
			o.Key = "unpositioned-error/" + typ + "/" + fn
			o.What = fmt.Sprintf("ParseData returned an error of type %s (%q) that carries no source position", typ, err.Error())
		}
		return o
	}
	// positioned stack error: look inside (exported field Stack; unexported field err through unsafe)
	v := reflect.ValueOf(err).Elem()
	var short string
	if se, ok := err.(interface{ ShortError() string }); ok {
		func() {
			defer func() {
				if r := recover(); r != nil {
					short = fmt.Sprintf("<ShortError panicked: %v>", r)
				}
			}()
			short = se.ShortError()
		}()
	}
	o.Template = template(short)
	if f := v.FieldByName("err"); f.IsValid() && f.CanAddr() {
		inner := *(*error)(unsafe.Pointer(f.UnsafeAddr()))
		if inner != nil && errors.As(inner, &rte) {
			fn := innermostAspFrame(lastPanicStack())
			o.Key = "wrapped-runtime-error/" + errClass(inner.Error()) + "/" + fn
			o.What = fmt.Sprintf("ParseData reported an internal runtime error as a syntax error: %q raised in asp.%s", inner.Error(), fn)
			return o
		}
	} else if strings.HasPrefix(short, "runtime error:") {
		o.Key = "wrapped-runtime-error/" + errClass(short) + "/" + innermostAspFrame(lastPanicStack())
		o.What = "ParseData reported an internal runtime error as a syntax error: " + short
		return o
	}
	st, _ := v.FieldByName("Stack").Interface().([]asp.FilePosition)
	if len(st) == 0 || st[0].Line < 1 || st[0].Column < 1 || st[0].Filename != filename {
		o.Key = "no-position/" + strings.ReplaceAll(o.Template, " ", "-")
		o.What = fmt.Sprintf("syntax error %q carries no usable source position: stack=%v", short, st)
		return o
	}
	o.Pos = st[0]
	// rendering the error is how plz reports it; it must not blow up either
	func() {
		defer func() {
			if r := recover(); r != nil {
				stk := string(debug.Stack())
				fn := "unknown"
				if k := strings.Index(stk, "panic("); k >= 0 {
					if m := aspFrame.FindStringSubmatch(stk[k:]); m != nil {
						fn = cleanFn(m[1])
					}
				}
				o.Key = "error-render-panic/" + fn + "/" + errClass(fmt.Sprint(r))
				o.What = fmt.Sprintf("rendering the syntax error panicked: %v", r)
			}
		}()
		_ = err.Error()
	}()
	return o
}

// minimise shrinks data while the oracle keeps reporting the same violation key (ddmin over bytes).
func minimise(p *asp.Parser, data []byte, filename, key string) []byte {
	if len(data) > 64<<10 {
		return data
	}
	evals := 0
	same := func(d []byte) bool {
		evals++
		return evaluate(p, d, filename).Key == key
	}
	cur := append([]byte{}, data...)
	for chunk := len(cur) / 2; chunk >= 1 && evals < 150000; {
		removed := false
		for i := 0; i+chunk <= len(cur) && evals < 150000; {
			cand := append(append([]byte{}, cur[:i]...), cur[i+chunk:]...)
			if same(cand) {
				cur = cand
				removed = true
			} else {
				i += chunk
			}
		}
		if !removed {
			if chunk == 1 {
				break
			}
			chunk = (chunk + 1) / 2
		}
		if chunk > len(cur) {
			chunk = len(cur)
		}
	}
	return cur
}

// ---------------------------------------------------------------------------------------------
// case generation (shared by the child, which runs cases, and nothing else)

type genCase struct {
	Data  []byte
	Desc  string   // how it was made
	Ops   []string // mutation operators applied
	Valid bool     // meant to be valid asp (unmutated grammar output / corpus file)
	Plain bool     // byte-identical to a seed file (trivial by the stated rule)
}

func streamSize(stream, tier string, ncorpus int) int {
	quick := tier != "thorough"
	switch stream {
	case "corpus":
		return ncorpus
	case "adjacent":
		if quick {
			return adjacentCount(3)
		}
		return adjacentCount(4)
	case "grammar":
		if quick {
			return 30000
		}
		return 2000000
	case "mutfuzz":
		if quick {
			return 200000
		}
		return 20000000
	case "depth":
		return len(depthTable(tier))
	}
	return 0
}

func makeCase(stream, tier string, i int, rng *rand.Rand, corpus []seedFile) genCase {
	switch stream {
	case "corpus":
		return genCase{Data: corpus[i].Data, Desc: "seed " + corpus[i].Path, Valid: true, Plain: true}
	case "adjacent":
		ml := 3
		if tier == "thorough" {
			ml = 4
		}
		return genCase{Data: []byte(adjacentCase(i, ml)), Desc: "adjacent literals"}
	case "grammar":
		s := genProgram(rng)
		m := &mutator{rng: rng, corpus: corpus}
		c := genCase{Desc: "grammar", Valid: true}
		switch k := rng.Intn(10); {
		case k < 3: // keep valid
		case k < 8:
			s = m.mutate(s, 1+rng.Intn(3))
			c.Valid = false
		default:
			s = m.mutate(s, 4+rng.Intn(6))
			c.Valid = false
		}
		c.Data, c.Ops = []byte(s), m.ops
		return c
	case "mutfuzz":
		m := &mutator{rng: rng, corpus: corpus}
		s := m.window()
		n := 1 + rng.Intn(4)
		if rng.Intn(8) == 0 {
			n += 4 + rng.Intn(12)
		}
		s = m.mutate(s, n)
		return genCase{Data: []byte(s), Desc: "mutated seed window", Ops: m.ops}
	case "depth":
		dc := depthTable(tier)[i]
		c, _ := findConstruct(dc.Construct)
		return genCase{Data: c.build(dc.Depth), Desc: fmt.Sprintf("depth %s x %d", dc.Construct, dc.Depth)}
	}
	panic("unknown stream " + stream)
}

// ---------------------------------------------------------------------------------------------
// child

func cpuSeconds() float64 {
	var ru syscall.Rusage
	syscall.Getrusage(syscall.RUSAGE_SELF, &ru)
	return float64(ru.Utime.Sec+ru.Stime.Sec) + float64(ru.Utime.Usec+ru.Stime.Usec)/1e6
}

// cpuBudget is the CPU time one small (<=32 KiB) input may consume before the child declares a hang;
// a normal parse of such an input takes well under 0.1 s, so this is a >1000x margin that does not
// depend on wall-clock or on machine load.
const cpuBudget = 60.0

func TestC19Child(t *testing.T) {
	if !lib.IsChild() {
		t.Skip("only runs as a batch child of TestC19")
	}
	var job jobSpec
	b, err := os.ReadFile(os.Getenv("C19_JOB"))
	if err != nil || json.Unmarshal(b, &job) != nil {
		t.Fatalf("bad job: %v", err)
	}
	runJob(job)
}

func runJob(job jobSpec) {
	installCapture()
	if job.Stream == "minimise" {
		debug.SetMaxStack(256 << 20)
		p := asp.NewParser(iplib.NewState())
		data, _ := os.ReadFile(job.Input)
		min := minimise(p, data, "pkg/BUILD", job.Key)
		o := evaluate(p, min, "pkg/BUILD")
		b, _ := json.Marshal(map[string]any{"min": base64.StdEncoding.EncodeToString(min), "what": o.What, "key": o.Key})
		os.WriteFile(job.Out, b, 0o644)
		return
	}
	r := lib.Start("C19") // only for the per-case PRNG; never finished in the child
	var corpus []seedFile
	if b, err := os.ReadFile(job.Corpus); err == nil {
		json.Unmarshal(b, &corpus)
	}
	p := asp.NewParser(iplib.NewState())
	res := &batchResult{Obs: map[string]int64{}, Distinct: map[string][]string{}}
	distinct := map[string]map[string]bool{}
	addDistinct := func(set, member string) {
		if distinct[set] == nil {
			distinct[set] = map[string]bool{}
		}
		distinct[set][member] = true
	}
	seenKeys := map[string]bool{}
	if job.Stream != "depth" {
		// Inputs of the other streams are at most 32 KiB, so legitimate recursion needs a few MiB of stack;
		// a lower limit only makes runaway recursion die sooner (the ladder runs at Go's default limit).
		debug.SetMaxStack(256 << 20)
	} else if job.To-job.From == 1 {
		// ... except the long rungs of the flat operator chains (see flatStackMiB)
		if dc := depthTable(job.Tier)[job.From]; dc.StackMiB > 0 {
			debug.SetMaxStack(dc.StackMiB << 20)
			res.Obs["depth_cases_run_under_lowered_stack_limit"]++
		}
	}
	prog, _ := os.OpenFile(job.Progress, os.O_CREATE|os.O_WRONLY|os.O_TRUNC, 0o644)
	single := job.To-job.From == 1

	// CPU watchdog (not for the depth ladder, whose inputs are large by design)
	var curCase atomic.Int64
	var curStart atomic.Uint64
	curCase.Store(-1)
	if job.Stream != "depth" {
		go func() {
			for {
				time.Sleep(2 * time.Second)
				c := curCase.Load()
				if c < 0 {
					continue
				}
				start := float64(curStart.Load()) / 1000
				if cpuSeconds()-start > cpuBudget && curCase.Load() == c {
					buf := make([]byte, 4<<20)
					n := runtime.Stack(buf, true)
					os.WriteFile(job.Out+".hang", buf[:n], 0o644)
					os.Exit(97)
				}
			}
		}()
	}

	const fakeName = "pkg/BUILD"
	for i := job.From; i < job.To; i++ {
		c := makeCase(job.Stream, job.Tier, i, r.Rand(job.Stream, i), corpus)
		if job.Input != "" {
			if b, err := os.ReadFile(job.Input); err == nil {
				c.Data = b
			}
		}
		fmt.Fprintf(prog, "%d\n", i)
		if single && job.Stream != "depth" {
			os.WriteFile(job.Out+".input", c.Data, 0o644)
		}
		curStart.Store(uint64(cpuSeconds() * 1000))
		curCase.Store(int64(i))
		o := evaluate(p, c.Data, fakeName)
		curCase.Store(-1)

		h := sha256.Sum256(c.Data)
		nontrivial := !c.Plain && len(c.Data) > 0
		flag := "-"
		if nontrivial {
			flag = "+"
		}
		res.Hashes = append(res.Hashes, hex.EncodeToString(h[:8])+flag)
		res.Obs["parsed/"+job.Stream]++
		for _, op := range c.Ops {
			addDistinct("mutation_operators", op)
		}
		switch {
		case o.Key != "":
			res.Obs["violating_inputs/"+job.Stream]++
			if !seenKeys[o.Key] {
				seenKeys[o.Key] = true
				v := violRec{Key: o.Key, What: o.What, Case: i, Desc: c.Desc, Ops: c.Ops}
				if job.Stream == "depth" {
					v.Witness = map[string]any{"depth_case": depthTable(job.Tier)[i]}
				} else {
					v.Raw, v.RawLen = b64(c.Data, 64<<10), len(c.Data)
					v.Witness = map[string]any{"input": clip(string(c.Data), 2000), "input_b64": v.Raw, "made_by": c.Desc, "ops": c.Ops}
				}
				res.Viols = append(res.Viols, v)
			}
		case o.OK:
			res.Obs["accepted"]++
			res.Obs["accepted/"+job.Stream]++
			if !c.Valid {
				res.Obs["mutants_still_accepted"]++
			}
		default:
			res.Obs["rejected_with_positioned_error"]++
			res.Obs["rejected/"+job.Stream]++
			addDistinct("error_message_classes", o.Template)
			if c.Valid {
				res.Obs["valid_by_construction_rejected/"+job.Stream]++
				if len(res.Samples) < 2 && job.Stream == "grammar" {
					res.Samples = append(res.Samples, map[string]any{"note": "generator output the parser rejects (harmless: still a positioned error)", "input": clip(string(c.Data), 400)})
				}
			}
			// observation only: with the file on disk the position should lie inside it
			if job.Stream == "grammar" && job.PosFile != "" && i%8 == 0 {
				if os.WriteFile(job.PosFile, c.Data, 0o644) == nil {
					if o2 := evaluate(p, c.Data, job.PosFile); o2.Key == "" && !o2.OK {
						lines := bytes.Count(c.Data, []byte{'\n'}) + 1
						res.Obs["positions_checked_against_file_on_disk"]++
						if o2.Pos.Line >= 1 && o2.Pos.Line <= lines+1 {
							res.Obs["positions_inside_file"]++
						} else {
							res.Obs["positions_outside_file"]++
						}
					}
				}
			}
		}
		if job.Stream == "depth" {
			dc := depthTable(job.Tier)[i]
			verdict := "rejected"
			if o.OK {
				verdict = "accepted"
			}
			if o.Key != "" {
				verdict = "violation"
			}
			addDistinct("depth_cases_survived", fmt.Sprintf("%s@%d:%s", dc.Construct, dc.Depth, verdict))
		}
		if len(res.Samples) < 2 && (i%997 == 3 || job.Stream == "depth" && i%7 == 3) && len(c.Data) < 600 {
			res.Samples = append(res.Samples, map[string]any{"stream": job.Stream, "case": i, "input": string(bytes.ToValidUTF8(c.Data, []byte("\uFFFD"))), "ops": c.Ops, "accepted": o.OK, "error_class": o.Template, "pos": o.Pos.String(), "violation_key": o.Key})
		}
	}
	for k, s := range distinct {
		for m := range s {
			res.Distinct[k] = append(res.Distinct[k], m)
		}
		sort.Strings(res.Distinct[k])
	}
	res.Done = true
	b, _ := json.Marshal(res)
	os.WriteFile(job.Out+".tmp", b, 0o644)
	os.Rename(job.Out+".tmp", job.Out)
}

func clip(s string, n int) string {
	s = string(bytes.ToValidUTF8([]byte(s), []byte("\uFFFD")))
	if len(s) > n {
		return s[:n] + "…"
	}
	return s
}

func b64(b []byte, max int) string {
	if len(b) > max {
		return ""
	}
	return base64.StdEncoding.EncodeToString(b)
}

// ---------------------------------------------------------------------------------------------
// parent

type parent struct {
	r       *lib.Run
	dir     string
	corpus  string
	ncorpus int
	jobSeq  atomic.Int64

	mu      sync.Mutex
	viols   map[string][]violRec // per stream
	samples map[string][]any
	durs    []string
	deaths  atomic.Int64 // confirmed process deaths / hangs outside the ladder
}

// maxDeaths bounds how many process-fatal inputs are isolated and confirmed; further abnormal batch ends
// are only counted (each confirmation can cost a minute of stack growth).
const maxDeaths = 3

func (p *parent) addViol(stream string, v violRec) {
	v.stream = stream
	p.mu.Lock()
	p.viols[stream] = append(p.viols[stream], v)
	p.mu.Unlock()
}

// finalise keeps one witness per key (the smallest generated input; for process deaths the lowest case)
// and minimises it once, in a child of its own.
func (p *parent) finalise() {
	p.mu.Lock()
	best := map[string]violRec{}
	for _, vs := range p.viols {
		for _, v := range vs {
			b, ok := best[v.Key]
			if !ok || v.RawLen < b.RawLen || (v.RawLen == b.RawLen && (v.stream < b.stream || (v.stream == b.stream && v.Case < b.Case))) {
				best[v.Key] = v
			}
		}
	}
	p.viols = map[string][]violRec{}
	p.mu.Unlock()
	keys := make([]string, 0, len(best))
	for k := range best {
		keys = append(keys, k)
	}
	sort.Strings(keys)
	for _, k := range keys {
		v := best[k]
		if raw, err := base64.StdEncoding.DecodeString(v.Raw); err == nil && v.Raw != "" {
			min, what := raw, v.What
			id := p.jobSeq.Add(1)
			base := filepath.Join(p.dir, fmt.Sprintf("min%06d", id))
			os.WriteFile(base+".in", raw, 0o644)
			jb, _ := json.Marshal(jobSpec{Stream: "minimise", Input: base + ".in", Key: v.Key, Out: base + ".out"})
			os.WriteFile(base+".job", jb, 0o644)
			lib.Child(childTest, []string{"C19_JOB=" + base + ".job", "GOMAXPROCS=2", "GOGC=400"}, 10*time.Minute)
			var mr struct{ Min, What, Key string }
			if b, err := os.ReadFile(base + ".out"); err == nil && json.Unmarshal(b, &mr) == nil && mr.Key == v.Key {
				if m, err := base64.StdEncoding.DecodeString(mr.Min); err == nil {
					min, what = m, mr.What
				}
			}
			v.What = fmt.Sprintf("%s; minimal input %q", what, clip(string(min), 200))
			v.Witness = map[string]any{"input": clip(string(min), 2000), "input_b64": b64(min, 64<<10), "found_as": clip(string(raw), 600), "found_len": len(raw), "made_by": v.Desc, "ops": v.Ops}
			for _, suf := range []string{".in", ".job", ".out"} {
				os.Remove(base + suf)
			}
		}
		p.mu.Lock()
		p.viols[v.stream] = append(p.viols[v.stream], v)
		p.mu.Unlock()
	}
}

// flush reports the collected violations of a stream; must be called while r's current stream is that stream.
func (p *parent) flush(stream string) {
	p.mu.Lock()
	vs := p.viols[stream]
	p.viols[stream] = nil
	p.mu.Unlock()
	sort.SliceStable(vs, func(i, j int) bool { return vs[i].Case < vs[j].Case })
	for _, v := range vs {
		p.r.Violation(v.Key, v.What, v.Witness, v.Case)
	}
}

func (p *parent) merge(res *batchResult) {
	for _, h := range res.Hashes {
		p.r.Case(h[:len(h)-1], strings.HasSuffix(h, "+"))
	}
	for k, v := range res.Obs {
		p.r.Obs(k, v)
	}
	for k, ms := range res.Distinct {
		for _, m := range ms {
			p.r.ObsDistinct(k, m)
		}
	}
}

var goroutineRunning = regexp.MustCompile(`(?s)goroutine \d+ (?:gp=\S+ m=\S+ (?:mp=\S+ )?)?\[running[^\]]*\]:\n(.*)`)

// runBatch runs cases [from,to) of a stream in one child; on an abnormal end it isolates the case that was
// in flight, re-runs the rest, and re-runs that case alone to confirm and classify.
func (p *parent) runBatch(stream string, from, to int, input string) {
	if from >= to {
		return
	}
	id := p.jobSeq.Add(1)
	base := filepath.Join(p.dir, fmt.Sprintf("job%06d", id))
	job := jobSpec{Stream: stream, From: from, To: to, Tier: p.r.Tier, Corpus: p.corpus, Out: base + ".out", Progress: base + ".progress", Input: input, PosFile: base + ".BUILD"}
	jb, _ := json.Marshal(job)
	os.WriteFile(base+".job", jb, 0o644)
	timeout := 30 * time.Minute
	env := []string{"C19_JOB=" + base + ".job", "GORACE=", "GOMAXPROCS=2"}
	if stream != "depth" {
		env = append(env, "GOGC=400")
	}
	cr := lib.Child(childTest, env, timeout)
	p.r.Obs("child_processes", 1)
	p.mu.Lock()
	p.durs = append(p.durs, fmt.Sprintf("%07.1fs %s[%d,%d)", cr.Dur.Seconds(), stream, from, to))
	p.mu.Unlock()
	defer func() {
		for _, suf := range []string{".job", ".out", ".progress", ".BUILD", ".out.input", ".out.hang"} {
			os.Remove(base + suf)
		}
	}()
	if b, err := os.ReadFile(job.Out); err == nil {
		var res batchResult
		if json.Unmarshal(b, &res) == nil && res.Done {
			p.merge(&res)
			p.mu.Lock()
			p.samples[stream] = append(p.samples[stream], res.Samples...)
			p.mu.Unlock()
			for _, v := range res.Viols {
				p.addViol(stream, v)
			}
			return
		}
	}
	// abnormal end
	p.r.Obs("child_abnormal_ends", 1)
	last := -1
	if b, err := os.ReadFile(job.Progress); err == nil {
		lines := strings.Fields(string(b))
		if len(lines) > 0 {
			fmt.Sscan(lines[len(lines)-1], &last)
		}
	}
	tail := cr.Stderr
	if len(tail) > 6000 {
		tail = tail[:3000] + "\n[...]\n" + tail[len(tail)-3000:]
	}
	if last < 0 {
		p.r.FatalInconclusive(fmt.Sprintf("child for %s[%d,%d) ended (exit %d signal %q timeout %v) before its first case: %s", stream, from, to, cr.Exit, cr.Signal, cr.TimedOut, clip(tail, 1500)))
		return
	}
	if stream != "depth" && p.deaths.Load() >= maxDeaths {
		p.r.Obs("cases_skipped_after_repeated_process_deaths", int64(to-from))
		return
	}
	if to-from > 1 {
		p.runBatch(stream, from, last, input)
		p.runBatch(stream, last, last+1, input)
		p.runBatch(stream, last+1, to, input)
		return
	}
	// a single case ended its process: classify
	if stream != "depth" {
		p.deaths.Add(1)
	}
	witness := map[string]any{"exit": cr.Exit, "signal": cr.Signal, "stderr": clip(tail, 6000)}
	desc := fmt.Sprintf("%s case %d", stream, last)
	keySuffix := ""
	if stream == "depth" {
		dc := depthTable(p.r.Tier)[last]
		witness["depth_case"] = dc
		c, _ := findConstruct(dc.Construct)
		witness["input_shape"] = fmt.Sprintf("%q + %q x %d + %q + %q x %d + %q", c.prefix, c.unit, dc.Depth, c.mid, c.closeUnit, dc.Depth, c.suffix)
		desc = fmt.Sprintf("%d-fold nesting of %q (%d bytes)", dc.Depth, c.unit, len(c.build(dc.Depth)))
		keySuffix = "nesting-" + dc.Construct
		if c.flat {
			// every flat chain goes through the same recursion (right operand of a binary operator): one key,
			// the chain that was found first (lowest case index) is the witness
			keySuffix = "nesting-binop-chain"
			desc = fmt.Sprintf("one expression that is a flat chain of %d x %q after %q (%d bytes, nothing bracketed)", dc.Depth, c.unit, c.prefix, len(c.build(dc.Depth)))
			p.r.ObsDistinct("flat_operator_chains_that_killed_the_process", fmt.Sprintf("%s@%d", dc.Construct, dc.Depth))
		}
		if dc.StackMiB > 0 {
			desc += fmt.Sprintf(", goroutine stack limit lowered to %d MiB (a parser that bounds its recursion at the documented 10000 levels x 2 KiB needs 20 MiB; with no bound, Go's default 1 GiB limit is exceeded by a proportionally longer chain)", dc.StackMiB)
		}
	} else if b, err := os.ReadFile(job.Out + ".input"); err == nil {
		witness["input"] = clip(string(b), 2000)
		witness["input_b64"] = b64(b, 64<<10)
		desc += fmt.Sprintf(" (%d bytes: %q)", len(b), clip(string(b), 120))
	}
	innermost := "unknown"
	if m := goroutineRunning.FindStringSubmatch(cr.Stderr); m != nil {
		if f := aspFrame.FindStringSubmatch(m[1]); f != nil {
			innermost = cleanFn(f[1])
		}
	}
	if keySuffix == "" {
		keySuffix = innermost
	}
	switch {
	case fileExists(job.Out + ".hang"):
		dump, _ := os.ReadFile(job.Out + ".hang")
		fn := "unknown"
		if m := goroutineRunning.FindStringSubmatch(string(dump)); m != nil {
			if f := aspFrame.FindStringSubmatch(m[1]); f != nil {
				fn = cleanFn(f[1])
			}
		}
		if fn == "unknown" {
			if f := aspFrame.FindStringSubmatch(string(dump)); f != nil {
				fn = cleanFn(f[1])
			}
		}
		witness["goroutines"] = clip(string(dump), 6000)
		p.addViol(stream, violRec{Key: "hang/" + fn, What: fmt.Sprintf("parsing did not finish within %.0f CPU-seconds (normal: milliseconds), spinning in asp.%s: %s", cpuBudget, fn, desc), Witness: witness, Case: last})
	case strings.Contains(cr.Stderr, "fatal error: stack overflow") || strings.Contains(cr.Stderr, "goroutine stack exceeds"):
		p.addViol(stream, violRec{Key: "stack-overflow/" + keySuffix, What: fmt.Sprintf("the process died with Go's fatal 'stack overflow' (not recoverable) while parsing %s; innermost parser frame asp.%s", desc, innermost), Witness: witness, Case: last})
	case strings.Contains(cr.Stderr, "fatal error:"):
		msg := "unknown"
		if m := regexp.MustCompile(`fatal error: ([^\n]+)`).FindStringSubmatch(cr.Stderr); m != nil {
			msg = errClass(m[1])
		}
		if strings.Contains(msg, "out-of-memory") || strings.Contains(msg, "cannot-allocate") {
			p.r.Inconclusive(fmt.Sprintf("child ran out of memory on %s", desc))
			return
		}
		p.addViol(stream, violRec{Key: "fatal/" + msg + "/" + keySuffix, What: fmt.Sprintf("the process died with a fatal runtime error while parsing %s", desc), Witness: witness, Case: last})
	case strings.Contains(cr.Stderr, "\npanic: ") || strings.HasPrefix(cr.Stderr, "panic: "):
		msg := "unknown"
		if m := regexp.MustCompile(`panic: ([^\n]+)`).FindStringSubmatch(cr.Stderr); m != nil {
			msg = errClass(m[1])
		}
		p.addViol(stream, violRec{Key: "process-panic/" + msg + "/" + keySuffix, What: fmt.Sprintf("an unrecovered panic killed the process while parsing %s", desc), Witness: witness, Case: last})
	default:
		p.r.Inconclusive(fmt.Sprintf("child for %s ended abnormally (exit %d signal %q timeout %v) without a Go fatal error: %s", desc, cr.Exit, cr.Signal, cr.TimedOut, clip(tail, 800)))
	}
}

func fileExists(p string) bool { _, err := os.Stat(p); return err == nil }

// loadCorpus collects the repository's BUILD-language files (tracked files only when git is available).
func loadCorpus(repo string) []seedFile {
	var paths []string
	if out, err := exec.Command("git", "-C", repo, "ls-files", "-z").Output(); err == nil && len(out) > 0 {
		for _, p := range strings.Split(string(out), "\x00") {
			if p != "" {
				paths = append(paths, p)
			}
		}
	} else {
		filepath.WalkDir(repo, func(p string, d os.DirEntry, err error) error {
			if err != nil {
				return nil
			}
			if d.IsDir() && (d.Name() == "plz-out" || d.Name() == ".git" || strings.HasPrefix(d.Name(), ".plz-cache")) {
				return filepath.SkipDir
			}
			if !d.IsDir() {
				rel, _ := filepath.Rel(repo, p)
				paths = append(paths, rel)
			}
			return nil
		})
	}
	sort.Strings(paths)
	var out []seedFile
	for _, p := range paths {
		base := filepath.Base(p)
		ok := base == "BUILD" || base == "BUILD.plz" || strings.HasSuffix(base, ".build_defs") || strings.HasSuffix(base, ".build") ||
			strings.HasSuffix(base, ".plz") || base == "BUILD_FILE" || base == "TEST_BUILD" || strings.HasSuffix(base, ".build_def")
		if !ok {
			continue
		}
		fi, err := os.Lstat(filepath.Join(repo, p))
		if err != nil || !fi.Mode().IsRegular() || fi.Size() > 256<<10 {
			continue
		}
		b, err := os.ReadFile(filepath.Join(repo, p))
		if err != nil {
			continue
		}
		out = append(out, seedFile{Path: p, Data: b})
	}
	return out
}

// grammar fragments added to the corpus (earlier findings and constructs rare in real files)
var fragmentSeeds = []string{
	"x = 'a' 'b' \"c\"\n",
	"x = f'{a}' f'{b.c}' 'd'\n",
	"x = f'{{literal}} ${SHELL} {v}'\n",
	"x = r'\\d+' '''multi\nline''' \"\"\"other\n\"\"\"\n",
	"def f(a:str|list&b&c=None, d:int=0o17, _e=-1) -> dict:\n    \"\"\"Doc.\"\"\"\n    return {k: v for k, v in a.items() if v}, [x for x in a for y in x if y]\n",
	"for i, j in enumerate(l):\n    if i not in j and j is not None or not i:\n        continue\n    elif i:\n        break\n    else:\n        pass\nassert x, 'msg'\nraise y\n",
	"x = a[1:2][::][:3][4:] if b else (lambda q, r=1: q % r)(1)\nx[0] += y.z(1).w\na, b = c\n",
	"subinclude('//build_defs:x')\ngo_library(\n    name = 'x',\n    srcs = glob(['*.go'], exclude = ['*_test.go']),\n    deps = [':y', '//z'],\n    visibility = ['PUBLIC'],\n)\n",
}

func TestC19(t *testing.T) {
	iplib.Quiet()
	r := lib.Start("C19")
	defer lib.End(t, r)
	r.Rule = "one case = one byte string handed to asp.Parser.ParseData. Streams: every tracked BUILD-language file of the repository unchanged (trivial), exhaustive adjacent-literal sequences, grammar-generated programs with 0-9 token/byte mutations, mutated windows of seed files (1-20 operators), and a nesting-depth/length ladder per recursive construct (brackets, calls, lambdas, inline ifs, property chains, ... and flat binary-operator chains +, and, or, ==, not in, is not, mixed, of a million operators). Distinct by SHA-256 of the bytes; non-trivial = non-empty and not byte-identical to a seed file"
	r.Assumes = []string{
		"ParseData is the parser entry point (ParseFile/ParseReader go through the same parseFileInput)",
		"the error's dynamic type, its exported Stack field and (through unsafe) its wrapped error are read by reflection because asp's error type is unexported",
		"a hang is declared only after one <=32 KiB input consumed 60 CPU-seconds in a process of its own; wall-clock limits only ever yield 'inconclusive'",
		"stack overflows are provoked at Go's default stack limit (the same the plz binary runs with), except on the million-operator rungs of the flat operator chains (a + a + ..., and/or, ==, mixed): those run under a 64 MiB limit, >3x what the parser's documented bound (10000 levels x 'a couple of kilobytes') needs, because at ~200 bytes of stack per term the default limit would need >5 million terms and GiBs of memory per case; the thorough tier also runs 10-million-term chains at the default limit",
	}
	repo := os.Getenv("VERIF_REPO_DIR")
	if repo == "" {
		repo = "/repo"
	}
	corpus := loadCorpus(repo)
	for i, f := range fragmentSeeds {
		corpus = append(corpus, seedFile{Path: fmt.Sprintf("<fragment %d>", i), Data: []byte(f)})
	}
	if len(corpus) < 50 {
		r.FatalInconclusive(fmt.Sprintf("seed corpus too small: %d files under %s", len(corpus), repo))
		return
	}
	dir := r.Scratch()
	cb, _ := json.Marshal(corpus)
	corpusPath := filepath.Join(dir, "corpus.json")
	os.WriteFile(corpusPath, cb, 0o644)
	r.Obs("seed_corpus_files", int64(len(corpus)))
	p := &parent{r: r, dir: dir, corpus: corpusPath, ncorpus: len(corpus), viols: map[string][]violRec{}, samples: map[string][]any{}}

	streams := []struct {
		name  string
		batch int
	}{{"depth", 1}, {"corpus", 1 << 30}, {"adjacent", 8000}, {"grammar", 4000}, {"mutfuzz", 10000}}

	if r.Replaying() {
		input := ""
		if b, err := os.ReadFile(os.Getenv("VERIF_REPLAY")); err == nil {
			var rp struct {
				Witness struct {
					InputB64 string `json:"input_b64"`
				} `json:"witness"`
			}
			if json.Unmarshal(b, &rp) == nil && rp.Witness.InputB64 != "" {
				if raw, err := base64.StdEncoding.DecodeString(rp.Witness.InputB64); err == nil {
					input = filepath.Join(dir, "replay.input")
					os.WriteFile(input, raw, 0o644)
				}
			}
		}
		for _, s := range streams {
			r.ForEach(s.name, streamSize(s.name, r.Tier, len(corpus)), 1, func(i int, _ *rand.Rand) {
				p.runBatch(s.name, i, i+1, input)
				p.finalise()
				p.flush(s.name)
			})
		}
		return
	}

	type batch struct {
		stream   string
		from, to int
	}
	var jobs []batch
	for _, s := range streams {
		n := streamSize(s.name, r.Tier, len(corpus))
		for from := 0; from < n; from += s.batch {
			jobs = append(jobs, batch{s.name, from, minInt(from+s.batch, n)})
		}
	}
	ch := make(chan batch)
	var wg sync.WaitGroup
	for w := 0; w < 8; w++ {
		wg.Add(1)
		go func() {
			defer wg.Done()
			for b := range ch {
				p.runBatch(b.stream, b.from, b.to, "")
			}
		}()
	}
	for _, b := range jobs {
		ch <- b
	}
	close(ch)
	wg.Wait()
	sort.Sort(sort.Reverse(sort.StringSlice(p.durs)))
	r.Extra("slowest_children_wall", p.durs[:minInt(6, len(p.durs))])
	p.finalise()
	for _, s := range streams {
		r.ForEach(s.name, 0, 1, func(int, *rand.Rand) {}) // sets the stream recorded in replay files
		p.flush(s.name)
	}
	for _, name := range []string{"mutfuzz", "grammar", "adjacent", "depth"} {
		for i, smp := range p.samples[name] {
			if i < 1 || name == "mutfuzz" && i < 2 {
				r.Sample(smp)
			}
		}
	}
	r.RequireObserved("accepted", "rejected_with_positioned_error", "parsed/corpus", "parsed/adjacent", "parsed/grammar", "parsed/mutfuzz", "parsed/depth", "error_message_classes", "mutation_operators")
}

package c19

import (
	"fmt"
	"os"
	"runtime/pprof"
	"testing"
	"time"

	"github.com/thought-machine/please/src/parse/asp"
	"verifharness/iplib"
)

func TestZZProbe(t *testing.T) {
	if os.Getenv("ZZ_PROBE") == "" {
		t.Skip()
	}
	installCapture()
	p := asp.NewParser(iplib.NewState())
	c, _ := findConstruct(os.Getenv("ZZ_PROBE"))
	n := 3000000
	t0 := time.Now()
	data := c.build(n)
	fmt.Println("build", time.Since(t0), len(data))
	f, _ := os.Create("/tmp/zz_c19.prof")
	pprof.StartCPUProfile(f)
	t0 = time.Now()
	o := evaluate(p, data, "pkg/BUILD")
	pprof.StopCPUProfile()
	fmt.Println("evaluate", time.Since(t0), o.OK, o.Key, o.Template, o.Pos)
}

// C28 — remote action digests are canonical.
//
// Monitor, in-process through the verif exports of package remote:
//
//	(A) dirbuilder: generated input sets (files, nested directories, symlinks, pre-built directory
//	    nodes, empty directories, identical duplicate declarations, deep paths before their
//	    parents) are put into remote's directory builder exactly the way action.go does it
//	    (b.Dir(dir) then append to Files/Directories/Symlinks) in every permutation (<= 6 items) or
//	    200 random ones; every produced pb.Directory must be in REAPI canonical form, the root digest
//	    must not depend on the permutation, and the whole tree must equal a reference tree built
//	    bottom-up from the path set.
//	(B) targets: in-memory targets with real source files on disk, named sources, tools, env and
//	    dependencies with recorded remote outputs; the input root must not depend on declaration
//	    order, and the action digest must be the same for every evaluation of one definition
//	    (repeated, from fresh states, concurrently, and under re-ordered insertion into the
//	    map-like attributes).
package c28

import (
	"crypto/sha256"
	"encoding/hex"
	"fmt"
	"math/rand"
	"os"
	"path"
	"path/filepath"
	"sort"
	"strings"
	"sync"
	"testing"

	pb "github.com/bazelbuild/remote-apis/build/bazel/remote/execution/v2"
	"google.golang.org/protobuf/proto"

	"github.com/thought-machine/please/src/core"
	"github.com/thought-machine/please/src/remote"

	"verifharness/iplib"
	"verifharness/lib"
)

// ---------------------------------------------------------------------------------------------
// (A) directory builder

// An item is one declaration handed to the directory builder.
type item struct {
	Kind   string `json:"kind"` // file | symlink | prebuilt (directory node with a known digest) | dir (ensure it exists)
	Path   string `json:"path"`
	Hash   string `json:"hash,omitempty"`
	Size   int64  `json:"size,omitempty"`
	Exec   bool   `json:"exec,omitempty"`
	Target string `json:"target,omitempty"`
}

func (it item) String() string {
	switch it.Kind {
	case "file":
		x := ""
		if it.Exec {
			x = "*"
		}
		return fmt.Sprintf("F %s%s=%s", it.Path, x, it.Hash[:6])
	case "symlink":
		return fmt.Sprintf("L %s->%s", it.Path, it.Target)
	case "prebuilt":
		return fmt.Sprintf("P %s=%s", it.Path, it.Hash[:6])
	}
	return "D " + it.Path
}

func itemsString(items []item) string {
	ss := make([]string, len(items))
	for i, it := range items {
		ss[i] = it.String()
	}
	return strings.Join(ss, " ; ")
}

// names sort in an order that differs from their "natural" one: '-' < '.' < '0' < 'B'... < '_' < 'a'.
var namePool = []string{"a", "b", "ab", "a.b", "a-b", "a_b", "B", "a0", "z", "aa", "a.", "Z"}

func hashOf(s string) string {
	h := sha256.Sum256([]byte(s))
	return hex.EncodeToString(h[:])
}

// genItems generates a consistent input set: something a file system could hold (no path is both
// a leaf and a directory, no two different things at one path), plus identical duplicates.
func genItems(rng *rand.Rand) []item {
	var items []item
	var gen func(dir string, depth int) int
	gen = func(dir string, depth int) int {
		n := rng.Intn(5)
		if depth == 0 {
			n = 1 + rng.Intn(4)
		}
		names := append([]string(nil), namePool...)
		rng.Shuffle(len(names), func(i, j int) { names[i], names[j] = names[j], names[i] })
		made := 0
		for k := 0; k < n; k++ {
			p := path.Join(dir, names[k])
			switch x := rng.Intn(100); {
			case x < 46:
				c := fmt.Sprintf("content-%d", rng.Intn(4)) // few contents: equal digests under different names
				items = append(items, item{Kind: "file", Path: p, Hash: hashOf(c), Size: int64(len(c)), Exec: rng.Intn(4) == 0})
			case x < 58:
				items = append(items, item{Kind: "symlink", Path: p, Target: []string{"a", "../b", "/abs/x", "a/b"}[rng.Intn(4)]})
			case x < 70:
				items = append(items, item{Kind: "prebuilt", Path: p, Hash: hashOf("tree-" + p), Size: int64(70 + rng.Intn(50))})
			default:
				sub := 0
				if depth < 3 {
					sub = gen(p, depth+1)
				}
				if sub == 0 || rng.Intn(3) == 0 {
					items = append(items, item{Kind: "dir", Path: p}) // empty directories must be declared; others may be
				}
			}
			made++
		}
		return made
	}
	gen("", 0)
	// identical duplicate declarations
	for _, it := range append([]item(nil), items...) {
		if rng.Intn(100) < 18 {
			items = append(items, it)
		}
	}
	if rng.Intn(10) == 0 {
		items = append(items, item{Kind: "dir", Path: []string{".", ""}[rng.Intn(2)]})
	}
	return items
}

// apply declares the items to a builder the way remote/action.go does.
func apply(b *remote.VerifDirBuilder, items []item) {
	for _, it := range items {
		switch it.Kind {
		case "file":
			d := b.Dir(filepath.Dir(it.Path))
			d.Files = append(d.Files, &pb.FileNode{Name: filepath.Base(it.Path), Digest: &pb.Digest{Hash: it.Hash, SizeBytes: it.Size}, IsExecutable: it.Exec})
		case "symlink":
			d := b.Dir(filepath.Dir(it.Path))
			d.Symlinks = append(d.Symlinks, &pb.SymlinkNode{Name: filepath.Base(it.Path), Target: it.Target})
		case "prebuilt":
			d := b.Dir(filepath.Dir(it.Path))
			d.Directories = append(d.Directories, &pb.DirectoryNode{Name: filepath.Base(it.Path), Digest: &pb.Digest{Hash: it.Hash, SizeBytes: it.Size}})
		case "dir":
			b.Dir(it.Path)
		}
	}
}

func digestOf(m proto.Message) *pb.Digest {
	blob, err := proto.Marshal(m)
	if err != nil {
		panic(err)
	}
	h := sha256.Sum256(blob)
	return &pb.Digest{Hash: hex.EncodeToString(h[:]), SizeBytes: int64(len(blob))}
}

// reference builds the canonical tree of an input set bottom-up: dir path -> directory message.
func reference(items []item) map[string]*pb.Directory {
	type ent struct {
		it  item
		dir bool
	}
	children := map[string]map[string]ent{".": {}}
	var ensure func(d string)
	ensure = func(d string) {
		d = path.Clean(d)
		if d == "" {
			d = "."
		}
		if _, ok := children[d]; ok {
			return
		}
		children[d] = map[string]ent{}
		parent := path.Dir(d)
		ensure(parent)
		children[parent][path.Base(d)] = ent{dir: true}
	}
	for _, it := range items {
		p := path.Clean(it.Path)
		if it.Kind == "dir" {
			if p == "" {
				p = "."
			}
			ensure(p)
			continue
		}
		ensure(path.Dir(p))
		children[path.Dir(p)][path.Base(p)] = ent{it: it}
	}
	out := map[string]*pb.Directory{}
	var build func(d string) *pb.Directory
	build = func(d string) *pb.Directory {
		names := make([]string, 0, len(children[d]))
		for n := range children[d] {
			names = append(names, n)
		}
		sort.Strings(names)
		dir := &pb.Directory{}
		for _, n := range names {
			e := children[d][n]
			switch {
			case e.dir:
				dir.Directories = append(dir.Directories, &pb.DirectoryNode{Name: n, Digest: digestOf(build(path.Join(d, n)))})
			case e.it.Kind == "file":
				dir.Files = append(dir.Files, &pb.FileNode{Name: n, Digest: &pb.Digest{Hash: e.it.Hash, SizeBytes: e.it.Size}, IsExecutable: e.it.Exec})
			case e.it.Kind == "symlink":
				dir.Symlinks = append(dir.Symlinks, &pb.SymlinkNode{Name: n, Target: e.it.Target})
			case e.it.Kind == "prebuilt":
				dir.Directories = append(dir.Directories, &pb.DirectoryNode{Name: n, Digest: &pb.Digest{Hash: e.it.Hash, SizeBytes: e.it.Size}})
			}
		}
		out[d] = dir
		return dir
	}
	build(".")
	return out
}

// canonical checks one directory message against the REAPI canonical form. It returns a witness
// class ("" if canonical) and a description.
func canonical(d *pb.Directory) (string, string) {
	seen := map[string]string{}
	check := func(kind string, names []string) (string, string) {
		for i, n := range names {
			if i > 0 && names[i-1] == n {
				return "duplicate-" + kind, fmt.Sprintf("%s %q listed twice", kind, n)
			}
			if i > 0 && names[i-1] > n {
				return "unsorted-" + kind, fmt.Sprintf("%s entries not sorted: %q before %q", kind, names[i-1], n)
			}
			if other, ok := seen[n]; ok {
				return "duplicate-across-" + other + "-and-" + kind, fmt.Sprintf("name %q is both a %s and a %s", n, other, kind)
			}
		}
		for _, n := range names {
			seen[n] = kind
		}
		return "", ""
	}
	var fs, ds, ss []string
	for _, f := range d.Files {
		fs = append(fs, f.Name)
	}
	for _, x := range d.Directories {
		ds = append(ds, x.Name)
	}
	for _, s := range d.Symlinks {
		ss = append(ss, s.Name)
	}
	if k, w := check("file", fs); k != "" {
		return k, w
	}
	if k, w := check("directory", ds); k != "" {
		return k, w
	}
	return check("symlink", ss)
}

func dirText(d *pb.Directory) string {
	if d == nil {
		return "<absent>"
	}
	var sb strings.Builder
	for _, f := range d.Files {
		x := ""
		if f.IsExecutable {
			x = "*"
		}
		fmt.Fprintf(&sb, "F:%s%s=%s ", f.Name, x, short(f.Digest))
	}
	for _, x := range d.Directories {
		fmt.Fprintf(&sb, "D:%s=%s ", x.Name, short(x.Digest))
	}
	for _, s := range d.Symlinks {
		fmt.Fprintf(&sb, "L:%s->%s ", s.Name, s.Target)
	}
	return strings.TrimSpace(sb.String())
}

func short(d *pb.Digest) string {
	if d == nil {
		return "<nil>"
	}
	if len(d.Hash) > 6 {
		return d.Hash[:6]
	}
	return d.Hash
}

// kindsIn lists which kinds of entries a directory of the reference holds more than one of (the
// entries whose relative order a permutation can change).
func diffAspect(want, got *pb.Directory) string {
	if got == nil {
		return "directory-missing"
	}
	switch {
	case len(got.Files) != len(want.Files):
		return "file-count"
	case len(got.Directories) != len(want.Directories):
		return "directory-count"
	case len(got.Symlinks) != len(want.Symlinks):
		return "symlink-count"
	}
	for i := range want.Files {
		if !proto.Equal(want.Files[i], got.Files[i]) {
			return "file-entry"
		}
	}
	for i := range want.Directories {
		if want.Directories[i].Name != got.Directories[i].Name {
			return "directory-entry"
		}
		if !proto.Equal(want.Directories[i].Digest, got.Directories[i].Digest) {
			return "child-digest"
		}
	}
	for i := range want.Symlinks {
		if !proto.Equal(want.Symlinks[i], got.Symlinks[i]) {
			return "symlink-entry"
		}
	}
	return "other"
}

func permutations(n int) [][]int {
	var out [][]int
	p := make([]int, n)
	for i := range p {
		p[i] = i
	}
	var rec func(k int)
	rec = func(k int) {
		if k == n {
			out = append(out, append([]int(nil), p...))
			return
		}
		for i := k; i < n; i++ {
			p[k], p[i] = p[i], p[k]
			rec(k + 1)
			p[k], p[i] = p[i], p[k]
		}
	}
	rec(0)
	return out
}

func checkItems(r *lib.Run, c *remote.Client, idx int, items []item, rng *rand.Rand) {
	ref := reference(items)
	refRoot := digestOf(ref["."])
	multi := false // some directory holds two entries of one kind: the order of declaration can matter
	for _, d := range ref {
		if len(d.Files) > 1 || len(d.Directories) > 1 || len(d.Symlinks) > 1 {
			multi = true
		}
	}
	r.Case(itemsString(items), multi && len(items) >= 3)
	r.Obs("input_sets", 1)
	r.Obs("input_items", int64(len(items)))
	var perms [][]int
	if len(items) <= 6 {
		perms = permutations(len(items))
		r.Obs("input_sets_permuted_exhaustively", 1)
	} else {
		for k := 0; k < 200; k++ {
			perms = append(perms, rng.Perm(len(items)))
		}
		// always include declaration order and its reverse
		id := make([]int, len(items))
		rev := make([]int, len(items))
		for i := range id {
			id[i], rev[i] = i, len(items)-1-i
		}
		perms = append(perms, id, rev)
	}
	var first *pb.Digest
	var firstOrder []item
	for _, p := range perms {
		ordered := make([]item, len(items))
		for i, x := range p {
			ordered[i] = items[x]
		}
		b := remote.VerifNewDirBuilder(c)
		apply(b, ordered)
		root := b.Build()
		dirs := b.Dirs()
		r.Obs("permutations_built", 1)
		r.Obs("directory_messages_checked", int64(len(dirs)-1)) // "" and "." are the same message
		wit := func() map[string]any {
			return map[string]any{"items_in_order": itemsString(ordered), "items": ordered, "root": dirText(root)}
		}
		for name, d := range dirs {
			if k, w := canonical(d); k != "" {
				m := wit()
				m["directory"], m["message"] = name, dirText(d)
				r.Violation("dirbuilder/not-canonical/"+k, fmt.Sprintf("directory %q is not in canonical form: %s; declared in order: %s", name, w, itemsString(ordered)), m, idx)
			}
		}
		got := c.VerifDigest(root)
		if first == nil {
			first, firstOrder = got, ordered
		} else if !proto.Equal(first, got) {
			m := wit()
			m["other_order"], m["other_root_digest"], m["root_digest"] = itemsString(firstOrder), first.Hash, got.Hash
			r.Violation("dirbuilder/root-digest-depends-on-declaration-order", fmt.Sprintf("the same %d declarations give root %s in order [%s] and %s in order [%s]", len(items), short(first), itemsString(firstOrder), short(got), itemsString(ordered)), m, idx)
		}
		if !proto.Equal(refRoot, got) {
			// find the deepest differing directory for the key
			paths := make([]string, 0, len(ref))
			for p := range ref {
				paths = append(paths, p)
			}
			sort.Slice(paths, func(i, j int) bool {
				return len(paths[i]) > len(paths[j]) || (len(paths[i]) == len(paths[j]) && paths[i] < paths[j])
			})
			aspect, where := "root-only", "."
			for _, p := range paths {
				if !proto.Equal(ref[p], dirs[p]) {
					aspect, where = diffAspect(ref[p], dirs[p]), p
					break
				}
			}
			m := wit()
			m["directory"], m["expected"], m["got"] = where, dirText(ref[where]), dirText(dirs[where])
			r.Violation("dirbuilder/differs-from-reference-tree/"+aspect, fmt.Sprintf("directory %q is [%s], the canonical tree of the declarations has [%s]; declared in order: %s", where, dirText(dirs[where]), dirText(ref[where]), itemsString(ordered)), m, idx)
		} else {
			r.Obs("roots_equal_to_reference", 1)
		}
	}
	if idx < 2 && multi && len(items) >= 5 {
		r.Sample(map[string]any{"stream": "dirbuilder", "items": itemsString(items), "permutations": len(perms), "root_digest": first.Hash})
	}
}

// ---------------------------------------------------------------------------------------------
// (B) targets

type fileSpec struct {
	Rel     string `json:"rel"` // relative to the package
	Content string `json:"content,omitempty"`
	Exec    bool   `json:"exec,omitempty"`
	Link    string `json:"link,omitempty"` // non-empty: a symlink
}

type depSpec struct {
	Name  string   `json:"name"`
	Pkg   string   `json:"pkg"`
	Files []string `json:"files,omitempty"`    // output files (may contain sub-directories)
	Dirs  []string `json:"dirs,omitempty"`     // output directories (opaque digests)
	Links []string `json:"symlinks,omitempty"` // output symlinks
	Bin   bool     `json:"binary,omitempty"`
}

type namedGroup struct {
	Name string   `json:"name"`
	Srcs []string `json:"srcs"` // "file:<rel>" or "dep:<name>"
}

// A targetSpec is one target definition; the slices are in declaration order.
type targetSpec struct {
	Pkg      string       `json:"pkg"`
	Disk     []fileSpec   `json:"disk"`
	Deps     []depSpec    `json:"dep_targets"`
	Srcs     []string     `json:"srcs"`
	Named    []namedGroup `json:"named_srcs"`
	Tools    []string     `json:"tools"`
	NTools   []namedGroup `json:"named_tools"`
	DepOrder []string     `json:"deps"`
	Env      [][2]string  `json:"env"`
	Labels   []string     `json:"labels"`
	Cmd      string       `json:"cmd"`
	Outs     []string     `json:"outs"`
	Binary   bool         `json:"binary,omitempty"`
	Test     bool         `json:"test,omitempty"`
	Data     []string     `json:"data,omitempty"`
	NData    []namedGroup `json:"named_data,omitempty"`
}

func (t targetSpec) String() string {
	var sb strings.Builder
	fmt.Fprintf(&sb, "//%s:t srcs=%v", t.Pkg, t.Srcs)
	for _, g := range t.Named {
		fmt.Fprintf(&sb, " srcs[%s]=%v", g.Name, g.Srcs)
	}
	fmt.Fprintf(&sb, " tools=%v", t.Tools)
	for _, g := range t.NTools {
		fmt.Fprintf(&sb, " tools[%s]=%v", g.Name, g.Srcs)
	}
	fmt.Fprintf(&sb, " deps=%v env=%v labels=%v cmd=%q outs=%v", t.DepOrder, t.Env, t.Labels, t.Cmd, t.Outs)
	if t.Test {
		fmt.Fprintf(&sb, " test data=%v", t.Data)
		for _, g := range t.NData {
			fmt.Fprintf(&sb, " data[%s]=%v", g.Name, g.Srcs)
		}
	}
	sb.WriteString(" | disk:")
	for _, f := range t.Disk {
		if f.Link != "" {
			fmt.Fprintf(&sb, " %s->%s", f.Rel, f.Link)
		} else {
			fmt.Fprintf(&sb, " %s(%d)", f.Rel, len(f.Content))
		}
	}
	sb.WriteString(" | deps:")
	for _, d := range t.Deps {
		fmt.Fprintf(&sb, " //%s:%s{files=%v dirs=%v links=%v}", d.Pkg, d.Name, d.Files, d.Dirs, d.Links)
	}
	return sb.String()
}

func genTarget(rng *rand.Rand, pkg string) targetSpec {
	t := targetSpec{Pkg: pkg}
	// files on disk: plain files, a source directory with nested content and a symlink
	nf := 2 + rng.Intn(4)
	names := append([]string(nil), namePool...)
	rng.Shuffle(len(names), func(i, j int) { names[i], names[j] = names[j], names[i] })
	var fileSrcs []string
	for k := 0; k < nf; k++ {
		rel := names[k] + ".txt"
		if rng.Intn(3) == 0 {
			rel = path.Join("sub", rel)
		}
		t.Disk = append(t.Disk, fileSpec{Rel: rel, Content: fmt.Sprintf("content %d\n", rng.Intn(3)), Exec: rng.Intn(4) == 0})
		fileSrcs = append(fileSrcs, "file:"+rel)
	}
	if rng.Intn(2) == 0 {
		// a directory used as one source, with several entries, a nested directory and a symlink
		for _, n := range []string{"z.c", "a.c", "a-b.c", "A.c"}[:2+rng.Intn(3)] {
			t.Disk = append(t.Disk, fileSpec{Rel: path.Join("srcdir", n), Content: "dir content " + n})
		}
		t.Disk = append(t.Disk, fileSpec{Rel: "srcdir/inner/deep.c", Content: "deep"})
		if rng.Intn(2) == 0 {
			t.Disk = append(t.Disk, fileSpec{Rel: "srcdir/link.c", Link: "a.c"})
		}
		fileSrcs = append(fileSrcs, "file:srcdir")
		if rng.Intn(2) == 0 {
			fileSrcs = append(fileSrcs, "file:srcdir/a.c") // a file also reachable through its directory: identical duplicate
		}
	}
	// dependencies with recorded remote outputs
	nd := 1 + rng.Intn(4)
	var depSrcs []string
	for k := 0; k < nd; k++ {
		d := depSpec{Name: "dep_" + names[k], Pkg: pkg}
		if rng.Intn(3) == 0 {
			d.Pkg = pkg + "/other"
		}
		for j := 0; j < 1+rng.Intn(3); j++ {
			f := fmt.Sprintf("%s_out%d.o", names[k], j)
			if rng.Intn(3) == 0 {
				f = path.Join("gen", f)
			}
			d.Files = append(d.Files, f)
		}
		if rng.Intn(4) == 0 {
			d.Dirs = append(d.Dirs, names[k]+"_outdir")
		}
		if rng.Intn(5) == 0 {
			d.Links = append(d.Links, names[k]+"_link")
		}
		d.Bin = rng.Intn(4) == 0
		t.Deps = append(t.Deps, d)
		depSrcs = append(depSrcs, "dep:"+d.Name)
	}
	// distribute: unnamed srcs, named groups, tools, plain deps
	all := append(append([]string(nil), fileSrcs...), depSrcs...)
	rng.Shuffle(len(all), func(i, j int) { all[i], all[j] = all[j], all[i] })
	useNamed := rng.Intn(2) == 0
	groups := map[string][]string{}
	for _, s := range all {
		switch x := rng.Intn(10); {
		case useNamed && x < 5:
			g := []string{"srcs", "hdrs", "res"}[rng.Intn(3)]
			groups[g] = append(groups[g], s)
		case !useNamed && x < 5:
			t.Srcs = append(t.Srcs, s)
		case x < 7 && strings.HasPrefix(s, "dep:"):
			t.DepOrder = append(t.DepOrder, strings.TrimPrefix(s, "dep:"))
		case x < 9 && strings.HasPrefix(s, "dep:"):
			t.Tools = append(t.Tools, s)
		default:
			if useNamed {
				groups["srcs"] = append(groups["srcs"], s)
			} else {
				t.Srcs = append(t.Srcs, s)
			}
		}
		// the same thing declared in a second place
		if rng.Intn(6) == 0 {
			if strings.HasPrefix(s, "dep:") {
				t.DepOrder = append(t.DepOrder, strings.TrimPrefix(s, "dep:"))
			} else if useNamed {
				groups["res"] = append(groups["res"], s)
			}
		}
	}
	for _, g := range []string{"srcs", "hdrs", "res"} {
		if len(groups[g]) > 0 {
			t.Named = append(t.Named, namedGroup{Name: g, Srcs: groups[g]})
		}
	}
	if len(t.Tools) > 1 && rng.Intn(2) == 0 {
		// named tools instead of a list
		for i, s := range t.Tools {
			t.NTools = append(t.NTools, namedGroup{Name: fmt.Sprintf("tool%d", i), Srcs: []string{s}})
		}
		t.Tools = nil
	}
	for k := 0; k < rng.Intn(7); k++ {
		t.Env = append(t.Env, [2]string{fmt.Sprintf("VAR_%s", strings.ToUpper(strings.ReplaceAll(strings.ReplaceAll(names[k], ".", "_"), "-", "_"))) + fmt.Sprint(k), fmt.Sprintf("value %d", rng.Intn(5))})
	}
	for k := 0; k < rng.Intn(4); k++ {
		t.Labels = append(t.Labels, []string{"lbl_a", "lbl_b", "remote-platform-property:size=big", "remote-platform-property:arch=x"}[rng.Intn(4)])
	}
	t.Cmd = []string{"cat $SRCS > $OUT", "echo hello > $OUTS", "for i in $SRCS; do cat $i; done > $OUT"}[rng.Intn(3)]
	t.Outs = []string{"out.txt"}
	if rng.Intn(3) == 0 {
		t.Outs = append(t.Outs, "second.txt")
	}
	t.Binary = rng.Intn(5) == 0
	if rng.Intn(10) < 3 {
		// a test: at test time the inputs are the target's own outputs (at the root), its data and their run-time needs
		t.Test, t.Binary = true, true
		pool := append(append([]string(nil), fileSrcs...), depSrcs...)
		rng.Shuffle(len(pool), func(i, j int) { pool[i], pool[j] = pool[j], pool[i] })
		named := rng.Intn(2) == 0
		dg := map[string][]string{}
		for _, s := range pool[:1+rng.Intn(len(pool))] {
			if named {
				g := []string{"fixtures", "golden"}[rng.Intn(2)]
				dg[g] = append(dg[g], s)
			} else {
				t.Data = append(t.Data, s)
			}
			if rng.Intn(5) == 0 {
				t.Data = append(t.Data, s) // declared twice
			}
		}
		for _, g := range []string{"fixtures", "golden"} {
			if len(dg[g]) > 0 {
				t.NData = append(t.NData, namedGroup{Name: g, Srcs: dg[g]})
			}
		}
	}
	return t
}

// reorder returns the same definition with every declaration list shuffled (lists=true) and/or the
// insertion order into map-like attributes shuffled (maps=true).
func reorder(t targetSpec, rng *rand.Rand, lists, maps bool) targetSpec {
	shuf := func(s []string) []string {
		out := append([]string(nil), s...)
		rng.Shuffle(len(out), func(i, j int) { out[i], out[j] = out[j], out[i] })
		return out
	}
	n := t
	if lists {
		n.Srcs = shuf(t.Srcs)
		n.Tools = shuf(t.Tools)
		n.Named = nil
		for _, g := range t.Named {
			n.Named = append(n.Named, namedGroup{Name: g.Name, Srcs: shuf(g.Srcs)})
		}
		n.Data = shuf(t.Data)
		n.NData = nil
		for _, g := range t.NData {
			n.NData = append(n.NData, namedGroup{Name: g.Name, Srcs: shuf(g.Srcs)})
		}
	}
	if maps {
		n.Named = append([]namedGroup(nil), n.Named...)
		rng.Shuffle(len(n.Named), func(i, j int) { n.Named[i], n.Named[j] = n.Named[j], n.Named[i] })
		n.NTools = append([]namedGroup(nil), t.NTools...)
		rng.Shuffle(len(n.NTools), func(i, j int) { n.NTools[i], n.NTools[j] = n.NTools[j], n.NTools[i] })
		n.NData = append([]namedGroup(nil), n.NData...)
		rng.Shuffle(len(n.NData), func(i, j int) { n.NData[i], n.NData[j] = n.NData[j], n.NData[i] })
		n.Env = append([][2]string(nil), t.Env...)
		rng.Shuffle(len(n.Env), func(i, j int) { n.Env[i], n.Env[j] = n.Env[j], n.Env[i] })
		n.DepOrder = shuf(t.DepOrder)
		n.Deps = append([]depSpec(nil), t.Deps...)
		rng.Shuffle(len(n.Deps), func(i, j int) { n.Deps[i], n.Deps[j] = n.Deps[j], n.Deps[i] })
	}
	return n
}

func newState() *core.BuildState {
	config := core.DefaultConfiguration()
	config.Build.Path = []string{"/usr/local/bin", "/usr/bin", "/bin"}
	config.Build.HashFunction = "sha256"
	config.Build.Xattrs = false
	config.Remote.Instance = "verif"
	config.Remote.Platform = []string{"OSFamily=linux"}
	config.Please.NumThreads = 2
	return core.NewBuildState(config)
}

// states is a pool of build states (creating one is expensive and not safe to do concurrently).
// Every evaluation takes one, gives it a new empty graph and a new offline client, and returns it.
var states chan *core.BuildState

func initStates(n int) {
	states = make(chan *core.BuildState, n)
	for i := 0; i < n; i++ {
		states <- newState()
	}
}

// materialise builds the definition in a fresh state and returns the client and the target.
func materialise(t targetSpec) (*remote.Client, *core.BuildTarget, func()) {
	state := <-states
	release := func() { states <- state }
	state.Graph = core.NewGraph()
	c := remote.VerifOfflineClient(state)
	graph := state.Graph
	pkgs := map[string]*core.Package{}
	pkgOf := func(name string) *core.Package {
		if pkgs[name] == nil {
			pkgs[name] = core.NewPackage(name)
			graph.AddPackage(pkgs[name])
		}
		return pkgs[name]
	}
	labels := map[string]core.BuildLabel{}
	for _, d := range t.Deps {
		l := core.BuildLabel{PackageName: d.Pkg, Name: d.Name}
		labels[d.Name] = l
		dt := core.NewBuildTarget(l)
		dt.IsBinary = d.Bin
		out := &pb.Directory{}
		for _, f := range d.Files {
			dt.AddOutput(f)
			out.Files = append(out.Files, &pb.FileNode{Name: f, Digest: &pb.Digest{Hash: hashOf(d.Name + "/" + f), SizeBytes: int64(10 + len(f))}, IsExecutable: d.Bin})
		}
		for _, x := range d.Dirs {
			dt.AddOutput(x)
			out.Directories = append(out.Directories, &pb.DirectoryNode{Name: x, Digest: &pb.Digest{Hash: hashOf(d.Name + "/dir/" + x), SizeBytes: 77}})
		}
		for _, s := range d.Links {
			dt.AddOutput(s)
			out.Symlinks = append(out.Symlinks, &pb.SymlinkNode{Name: s, Target: d.Files[0]})
		}
		dt.SetState(core.Built)
		graph.AddTarget(dt)
		pkgOf(d.Pkg).AddTarget(dt)
		c.VerifSetOutputs(l, out)
	}
	input := func(s string) core.BuildInput {
		if rel, ok := strings.CutPrefix(s, "file:"); ok {
			return core.FileLabel{File: rel, Package: t.Pkg}
		}
		return labels[strings.TrimPrefix(s, "dep:")]
	}
	bt := core.NewBuildTarget(core.BuildLabel{PackageName: t.Pkg, Name: "t"})
	for _, s := range t.Srcs {
		bt.AddSource(input(s))
	}
	for _, g := range t.Named {
		for _, s := range g.Srcs {
			bt.AddNamedSource(g.Name, input(s))
		}
	}
	for _, s := range t.Tools {
		bt.AddTool(input(s))
	}
	for _, g := range t.NTools {
		for _, s := range g.Srcs {
			bt.AddNamedTool(g.Name, input(s))
		}
	}
	for _, d := range t.DepOrder {
		bt.AddDependency(labels[d])
	}
	if len(t.Env) > 0 {
		bt.Env = map[string]string{}
		for _, kv := range t.Env {
			bt.Env[kv[0]] = kv[1]
		}
	}
	for _, l := range t.Labels {
		bt.AddLabel(l)
	}
	bt.Command = t.Cmd
	for _, o := range t.Outs {
		bt.AddOutput(o)
	}
	bt.IsBinary = t.Binary
	bt.BuildTimeout = 600e9
	if t.Test {
		bt.Test = &core.TestFields{Command: "$TEST --run", Timeout: 60e9, Outputs: []string{"extra.log"}}
		for _, s := range t.Data {
			bt.AddDatum(input(s))
		}
		for _, g := range t.NData {
			for _, s := range g.Srcs {
				bt.AddNamedDatum(g.Name, input(s))
			}
		}
		own := &pb.Directory{}
		for _, o := range t.Outs {
			own.Files = append(own.Files, &pb.FileNode{Name: o, Digest: &pb.Digest{Hash: hashOf("own/" + o), SizeBytes: 42}, IsExecutable: true})
		}
		c.VerifSetOutputs(bt.Label, own)
	}
	graph.AddTarget(bt)
	pkgOf(t.Pkg).AddTarget(bt)
	if err := bt.ResolveDependencies(graph); err != nil {
		release()
		panic(err)
	}
	return c, bt, release
}

type evaluation struct {
	testRoot   *pb.Digest
	testAction *pb.Digest
	testCmd    *pb.Command
	testDirs   map[string]*pb.Directory
	testRootD  *pb.Directory
	root       *pb.Digest
	action     *pb.Digest
	cmd        *pb.Command
	rootDir    *pb.Directory
	dirs       map[string]*pb.Directory
	err        error
}

func evaluate(t targetSpec, withAction bool) evaluation {
	c, bt, release := materialise(t)
	defer release()
	var ev evaluation
	root, dirs, err := c.VerifInputRoot(bt, false)
	if err != nil {
		ev.err = err
		return ev
	}
	ev.rootDir, ev.dirs, ev.root = root, dirs, c.VerifDigest(root)
	if withAction {
		cmd, dg, err := c.VerifBuildAction(bt, false, false)
		if err != nil {
			ev.err = err
			return ev
		}
		ev.cmd, ev.action = cmd, dg
	}
	if t.Test {
		root, dirs, err := c.VerifInputRoot(bt, true)
		if err != nil {
			ev.err = err
			return ev
		}
		ev.testRootD, ev.testDirs, ev.testRoot = root, dirs, c.VerifDigest(root)
		if withAction {
			cmd, dg, err := c.VerifBuildAction(bt, true, false)
			if err != nil {
				ev.err = err
				return ev
			}
			ev.testCmd, ev.testAction = cmd, dg
		}
	}
	return ev
}

// testView returns the test-time half of an evaluation in the fields the checks look at.
func (ev evaluation) testView() evaluation {
	return evaluation{root: ev.testRoot, action: ev.testAction, cmd: ev.testCmd, rootDir: ev.testRootD, dirs: ev.testDirs, err: ev.err}
}

func cmdText(c *pb.Command) string {
	if c == nil {
		return ""
	}
	var env []string
	for _, e := range c.EnvironmentVariables {
		env = append(env, e.Name+"="+e.Value)
	}
	return fmt.Sprintf("args=%q env=%q outs=%q platform=%v", c.Arguments, env, c.OutputPaths, c.Platform)
}

// cmdDiff names what differs between two commands (for the witness key).
func cmdDiff(a, b *pb.Command) string {
	if a == nil || b == nil {
		return "command-missing"
	}
	var parts []string
	if fmt.Sprint(a.Arguments) != fmt.Sprint(b.Arguments) {
		parts = append(parts, "arguments")
	}
	if len(a.EnvironmentVariables) != len(b.EnvironmentVariables) {
		parts = append(parts, "environment-size")
	} else {
		order, value := false, false
		am, bm := map[string]string{}, map[string]string{}
		for i := range a.EnvironmentVariables {
			if a.EnvironmentVariables[i].Name != b.EnvironmentVariables[i].Name {
				order = true
			}
			am[a.EnvironmentVariables[i].Name] = a.EnvironmentVariables[i].Value
			bm[b.EnvironmentVariables[i].Name] = b.EnvironmentVariables[i].Value
		}
		var names []string
		for k, v := range am {
			if bm[k] != v {
				value = true
				names = append(names, k)
			}
		}
		sort.Strings(names)
		if value {
			parts = append(parts, "environment-value:"+strings.Join(names, "+"))
		} else if order {
			parts = append(parts, "environment-order")
		}
	}
	if fmt.Sprint(a.OutputPaths) != fmt.Sprint(b.OutputPaths) {
		parts = append(parts, "output-paths")
	}
	if !proto.Equal(a.Platform, b.Platform) {
		parts = append(parts, "platform")
	}
	if len(parts) == 0 {
		return "action-only"
	}
	return strings.Join(parts, ",")
}

func writeDisk(repo string, t targetSpec) error {
	for _, f := range t.Disk {
		p := filepath.Join(repo, t.Pkg, f.Rel)
		if err := os.MkdirAll(filepath.Dir(p), 0o755); err != nil {
			return err
		}
		if f.Link != "" {
			if err := os.Symlink(f.Link, p); err != nil {
				return err
			}
			continue
		}
		mode := os.FileMode(0o644)
		if f.Exec {
			mode = 0o755
		}
		if err := os.WriteFile(p, []byte(f.Content), mode); err != nil {
			return err
		}
	}
	return nil
}

func checkTarget(r *lib.Run, repo string, idx int, rng *rand.Rand) {
	t := genTarget(rng, fmt.Sprintf("case%d/pkg", idx))
	if err := writeDisk(repo, t); err != nil {
		r.FatalInconclusive("cannot write sources: " + err.Error())
		return
	}
	defer os.RemoveAll(filepath.Join(repo, fmt.Sprintf("case%d", idx)))
	nDecl := len(t.Srcs) + len(t.Tools) + len(t.DepOrder) + len(t.Data)
	for _, g := range t.Named {
		nDecl += len(g.Srcs)
	}
	for _, g := range t.NData {
		nDecl += len(g.Srcs)
	}
	r.Case(t.String(), nDecl >= 3)
	r.Obs("target_definitions", 1)
	if t.Test {
		r.Obs("test_target_definitions", 1)
	}
	base := evaluate(t, true)
	if base.err != nil {
		r.Inconclusive(fmt.Sprintf("target %d could not be evaluated: %v", idx, base.err))
		r.Obs("targets_not_evaluated", 1)
		return
	}
	wit := func(other targetSpec) map[string]any {
		return map[string]any{"definition": t.String(), "reordered": other.String(), "spec": t}
	}
	canon := func(phase string, ev evaluation, spec targetSpec) {
		r.Obs("input_root_directory_messages_checked", int64(len(ev.dirs)-1))
		for name, d := range ev.dirs {
			if k, w := canonical(d); k != "" {
				m := wit(spec)
				m["directory"], m["message"], m["phase"] = name, dirText(d), phase
				r.Violation("input-root/not-canonical/"+k, fmt.Sprintf("%s input root directory %q of %s is not canonical: %s", phase, name, spec.String(), w), m, idx)
			}
		}
		var walk func(d *pb.Directory, p string)
		walk = func(d *pb.Directory, p string) {
			for _, x := range d.Directories {
				cp := path.Join(p, x.Name)
				child, ok := ev.dirs[cp]
				if !ok {
					continue // a pre-built directory output: only its digest is known
				}
				r.Obs("child_digests_checked", 1)
				if !proto.Equal(x.Digest, digestOf(child)) {
					m := wit(spec)
					m["directory"], m["phase"] = cp, phase
					r.Violation("input-root/child-digest-mismatch", fmt.Sprintf("%s: directory node %q carries digest %s but the directory message hashes to %s in %s", phase, cp, short(x.Digest), short(digestOf(child)), spec.String()), m, idx)
				}
				walk(child, cp)
			}
		}
		walk(ev.rootDir, ".")
	}
	type phase struct {
		name string
		view func(evaluation) evaluation
	}
	phases := []phase{{"build", func(e evaluation) evaluation { return e }}}
	if t.Test {
		phases = append(phases, phase{"test", evaluation.testView})
	}
	for _, ph := range phases {
		b := ph.view(base)
		canon(ph.name, b, t)
		r.Obs("input_roots_computed", 1)
		r.Obs("input_root_files", int64(countFiles(b)))
	}
	// (1) declaration order of the lists: the input root must not move
	for k := 0; k < 6; k++ {
		o := reorder(t, rng, true, true)
		full := evaluate(o, false)
		if full.err != nil {
			r.Inconclusive(fmt.Sprintf("reordered target %d could not be evaluated: %v", idx, full.err))
			continue
		}
		for _, ph := range phases {
			b, ev := ph.view(base), ph.view(full)
			r.Obs("list_order_permutations_evaluated", 1)
			canon(ph.name, ev, o)
			if !proto.Equal(ev.root, b.root) {
				m := wit(o)
				m["root"], m["root_reordered"], m["phase"] = treeText(b), treeText(ev), ph.name
				r.Violation("input-root/depends-on-declaration-order/"+ph.name+"/"+treeDiffClass(b, ev), fmt.Sprintf("%s input root %s for [%s] but %s for the same declarations in another order [%s]", ph.name, short(b.root), t.String(), short(ev.root), o.String()), m, idx)
			}
		}
	}
	// (2) one definition: the action digest must be the same whenever it is evaluated
	sameAction := func(full evaluation, how string, spec targetSpec) {
		if full.err != nil {
			r.Inconclusive(fmt.Sprintf("target %d (%s) could not be evaluated: %v", idx, how, full.err))
			return
		}
		for _, ph := range phases {
			b, ev := ph.view(base), ph.view(full)
			if ev.action == nil {
				continue
			}
			r.Obs("action_digests_compared", 1)
			if !proto.Equal(ev.action, b.action) {
				m := wit(spec)
				m["how"], m["command"], m["command_other"], m["phase"] = how, cmdText(b.cmd), cmdText(ev.cmd), ph.name
				what := cmdDiff(b.cmd, ev.cmd)
				if ev.root != nil && !proto.Equal(ev.root, b.root) {
					what = "input-root"
				}
				r.Violation("action-digest/not-deterministic/"+ph.name+"/"+what, fmt.Sprintf("%s action digest of one definition differs between evaluations (%s; differs in: %s): %s vs %s for %s", ph.name, how, what, short(b.action), short(ev.action), t.String()), m, idx)
			}
		}
	}
	for k := 0; k < 4; k++ {
		sameAction(evaluate(t, true), "re-evaluated with a fresh graph and client", t)
	}
	for k := 0; k < 4; k++ {
		o := reorder(t, rng, false, true)
		sameAction(evaluate(o, true), "map-like attributes filled in another insertion order", o)
	}
	// same client, same target, evaluated repeatedly
	c, bt, release := materialise(t)
	for k := 0; k < 4; k++ {
		cmd, dg, err := c.VerifBuildAction(bt, false, false)
		ev := evaluation{cmd: cmd, action: dg, err: err}
		if t.Test && err == nil {
			ev.testCmd, ev.testAction, ev.err = c.VerifBuildAction(bt, true, false)
		}
		sameAction(ev, "re-evaluated on the same client", t)
	}
	release()
	// concurrently, each goroutine with its own graph and client
	var wg sync.WaitGroup
	evs := make([]evaluation, 4)
	for k := range evs {
		wg.Add(1)
		go func() {
			defer wg.Done()
			evs[k] = evaluate(t, true)
		}()
	}
	wg.Wait()
	for _, ev := range evs {
		sameAction(ev, "evaluated concurrently with fresh graphs and clients", t)
	}
	r.ObsDistinct("env_sizes", fmt.Sprint(len(base.cmd.GetEnvironmentVariables())))
	if r.WantSample() && nDecl >= 4 {
		r.Sample(map[string]any{"stream": "targets", "definition": t.String(), "input_root": treeText(base), "action_digest": base.action.Hash, "command": cmdText(base.cmd)})
	}
}

func countFiles(ev evaluation) int {
	n := 0
	seen := map[*pb.Directory]bool{}
	for _, d := range ev.dirs {
		if !seen[d] {
			seen[d] = true
			n += len(d.Files)
		}
	}
	return n
}

func treeText(ev evaluation) map[string]string {
	out := map[string]string{}
	for p, d := range ev.dirs {
		if p == "" {
			continue
		}
		out[p] = dirText(d)
	}
	return out
}

// treeDiffClass names the aspect of the first directory that differs between two evaluations.
func treeDiffClass(a, b evaluation) string {
	var paths []string
	for p := range a.dirs {
		paths = append(paths, p)
	}
	for p := range b.dirs {
		if _, ok := a.dirs[p]; !ok {
			paths = append(paths, p)
		}
	}
	sort.Slice(paths, func(i, j int) bool {
		return len(paths[i]) > len(paths[j]) || (len(paths[i]) == len(paths[j]) && paths[i] < paths[j])
	})
	for _, p := range paths {
		if a.dirs[p] == nil || b.dirs[p] == nil {
			return "directory-set"
		}
		if !proto.Equal(a.dirs[p], b.dirs[p]) {
			return diffAspect(a.dirs[p], b.dirs[p])
		}
	}
	return "root-only"
}

// ---------------------------------------------------------------------------------------------

func TestC28(t *testing.T) {
	iplib.Quiet()
	r := lib.Start("C28")
	defer lib.End(t, r)
	r.Rule = "(dirbuilder) input sets realisable on a file system: 1-4 entries per directory to depth 3 from a name pool whose byte order differs from its alphabetical order, entries = file (4 contents, exec bit) / symlink / pre-built directory node / directory, empty directories declared, 18% identical duplicate declarations, sometimes the root itself; declared in all permutations (<= 6 items) or 200 random + identity + reverse. (targets) a target with 2-5 files on disk (some in sub-directories), optionally a source directory with nested directory and symlink (and one of its files also declared on its own), 1-4 dependencies with recorded outputs (files in sub-directories, directory outputs, symlinks) used as srcs / named srcs / tools / named tools / deps, the same thing sometimes declared twice, env, labels with platform properties. Distinct by rendered input set / definition; non-trivial = some directory holds two entries of one kind and >= 3 declarations (dirbuilder), >= 3 declarations (targets)"
	r.Assumes = []string{
		"declarations reach the directory builder the way remote/action.go makes them: b.Dir(parent) then append to Files / Directories / Symlinks",
		"input sets are consistent (one thing per path; duplicates are identical): conflicting declarations for one path are not asserted on",
		"the reference tree is built bottom-up from the path set with SHA-256 over proto.Marshal, which is also how remote digests messages",
		"declared list order of srcs/tools is permuted for the input root only ($SRCS is part of the command); the action digest is compared between evaluations that keep list order (fresh graph + client, same client, concurrent, re-ordered insertion into named srcs / named tools / env / deps)",
		"VerifOfflineClient never contacts a server; dependency outputs are recorded with VerifSetOutputs",
	}
	repo := filepath.Join(r.Scratch(), "repo")
	if err := os.MkdirAll(repo, 0o755); err != nil {
		t.Fatal(err)
	}
	os.WriteFile(filepath.Join(repo, ".plzconfig"), []byte(lib.DefaultPlzConfig), 0o644)
	if err := os.Chdir(repo); err != nil {
		t.Fatal(err)
	}
	core.RepoRoot = repo
	initStates(8)
	client := remote.VerifOfflineClient(newState())

	r.ForEach("dirbuilder", r.Pick(1500, 60000), 8, func(i int, rng *rand.Rand) {
		checkItems(r, client, i, genItems(rng), rng)
	})
	r.ForEach("targets", r.Pick(450, 15000), 4, func(i int, rng *rand.Rand) {
		checkTarget(r, repo, i, rng)
	})
	r.RequireObserved("input_sets", "permutations_built", "directory_messages_checked", "roots_equal_to_reference", "input_sets_permuted_exhaustively",
		"target_definitions", "input_roots_computed", "list_order_permutations_evaluated", "action_digests_compared", "child_digests_checked")
}

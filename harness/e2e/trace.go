package e2e

import (
	"bufio"
	"encoding/json"
	"fmt"
	"os"
	"strings"
)

// An Event is one line of the verifhook trace.
type Event struct {
	Seq     int64  `json:"seq"`
	G       int64  `json:"g"`
	Kind    string `json:"kind"`
	Subject string `json:"subject"`
	Detail  string `json:"detail"`
}

// ReadTrace parses a VERIF_TRACE file.
func ReadTrace(path string) ([]Event, error) {
	f, err := os.Open(path)
	if err != nil {
		return nil, err
	}
	defer f.Close()
	var out []Event
	sc := bufio.NewScanner(f)
	sc.Buffer(make([]byte, 1<<20), 1<<24)
	for sc.Scan() {
		var e Event
		if json.Unmarshal(sc.Bytes(), &e) == nil && e.Kind != "" {
			out = append(out, e)
		}
	}
	// events are appended with one write each; order in the file may differ slightly from seq
	// order when two goroutines race between taking the number and writing: sort by seq.
	for i := 1; i < len(out); i++ {
		for j := i; j > 0 && out[j-1].Seq > out[j].Seq; j-- {
			out[j-1], out[j] = out[j], out[j-1]
		}
	}
	return out, nil
}

var stateRank = map[string]int{
	"Inactive": 0, "Semiactive": 1, "Active": 2, "Pending": 3, "Building": 4, "Stopped": 5, "Built": 6, "Cached": 7,
	"Unchanged": 8, "Reused": 9, "Built remotely": 10, "Reused remote outputs": 11, "Dependency Failed": 12, "Failed": 13,
}

func isBuiltState(s string) bool { r, ok := stateRank[s]; return ok && r >= 6 && r < 12 }

// Terminal build result statuses (core.BuildResultStatus values).
const (
	statusBuildStopped = 4
	statusBuilt        = 5
	statusCached       = 6
	statusBuildFailed  = 7
)

// A TraceFinding is one refutation found in a trace.
type TraceFinding struct {
	Key  string
	What string
}

// TraceSummary is what the trace checker observed.
type TraceSummary struct {
	Events, StateEvents, BuildStarts, Finishes, Results int
	Signature                                           string // order of build_start subjects
	Started                                             []string
}

// CheckTrace verifies the per-target lifecycle over one invocation's trace:
// states strictly increase; at most one pending / build_start / finish per target; every dependency
// is in a built state when a target's build step starts; a started target gets exactly one terminal
// result (at most one if the invocation did not exit cleanly).
func CheckTrace(evs []Event, cleanExit bool) (TraceSummary, []TraceFinding) {
	var sum TraceSummary
	var out []TraceFinding
	lastState := map[string]string{}
	pending := map[string]int{}
	starts := map[string]int{}
	finishes := map[string]int{}
	terminal := map[string][]string{}
	var order []string
	sum.Events = len(evs)
	for _, e := range evs {
		switch e.Kind {
		case "state":
			sum.StateEvents++
			parts := strings.SplitN(e.Detail, ">", 2)
			if len(parts) != 2 {
				continue
			}
			to := parts[1]
			if prev, ok := lastState[e.Subject]; ok {
				if stateRank[to] <= stateRank[prev] {
					out = append(out, TraceFinding{"state-not-increasing/" + prev + ">" + to, fmt.Sprintf("%s moved from %s to %s (seq %d)", e.Subject, prev, to, e.Seq)})
				}
			}
			lastState[e.Subject] = to
		case "pending":
			pending[e.Subject]++
			if pending[e.Subject] == 2 {
				out = append(out, TraceFinding{"queued-twice", fmt.Sprintf("%s was put on the build queue twice (seq %d)", e.Subject, e.Seq)})
			}
		case "build_start":
			sum.BuildStarts++
			starts[e.Subject]++
			order = append(order, e.Subject)
			if starts[e.Subject] == 2 {
				out = append(out, TraceFinding{"build-step-twice", fmt.Sprintf("build step of %s started twice (seq %d)", e.Subject, e.Seq)})
			}
			if e.Detail != "" {
				for _, d := range strings.Split(e.Detail, ",") {
					kv := strings.SplitN(d, "=", 2)
					if len(kv) == 2 && !isBuiltState(kv[1]) {
						out = append(out, TraceFinding{"started-before-dependency/" + kv[1], fmt.Sprintf("build step of %s started while dependency %s was in state %q (seq %d)", e.Subject, kv[0], kv[1], e.Seq)})
					}
				}
			}
		case "finish":
			sum.Finishes++
			finishes[e.Subject]++
			if finishes[e.Subject] == 2 {
				out = append(out, TraceFinding{"finished-twice", fmt.Sprintf("%s finished twice (seq %d)", e.Subject, e.Seq)})
			}
		case "result":
			sum.Results++
			var st int
			fmt.Sscanf(e.Detail, "%d|", &st)
			if st == statusBuilt || st == statusCached || st == statusBuildFailed || st == statusBuildStopped {
				terminal[e.Subject] = append(terminal[e.Subject], e.Detail)
			}
		}
	}
	for t := range starts {
		n := len(terminal[t])
		if n > 1 {
			out = append(out, TraceFinding{"reported-more-than-once", fmt.Sprintf("%s has %d terminal results: %v", t, n, terminal[t])})
		}
		if n == 0 && cleanExit {
			out = append(out, TraceFinding{"never-reported", fmt.Sprintf("%s started building but no built/cached/failed result was reported", t)})
		}
		if cleanExit && finishes[t] == 0 {
			out = append(out, TraceFinding{"never-finished", fmt.Sprintf("%s started building but never finished", t)})
		}
	}
	sum.Signature = strings.Join(order, ">")
	sum.Started = order
	return sum, out
}

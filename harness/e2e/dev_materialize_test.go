package e2e

import (
	"encoding/json"
	"os"
	"testing"
)

// TestDevMaterialize is a triage aid: E2E_REPLAY=<replay.json> E2E_OUT=<dir> go test -run TestDevMaterialize ./e2e
// writes the witness's repository state (witness.state) into <dir>.
func TestDevMaterialize(t *testing.T) {
	rp, out := os.Getenv("E2E_REPLAY"), os.Getenv("E2E_OUT")
	if rp == "" || out == "" {
		t.Skip("triage aid")
	}
	b, err := os.ReadFile(rp)
	if err != nil {
		t.Fatal(err)
	}
	var w struct {
		Witness struct {
			State *Repo `json:"state"`
		} `json:"witness"`
	}
	if err := json.Unmarshal(b, &w); err != nil || w.Witness.State == nil {
		t.Fatal("no witness.state in replay file: ", err)
	}
	if err := w.Witness.State.Materialize(out); err != nil {
		t.Fatal(err)
	}
}

package e2e

import (
	"fmt"
	"math/rand"
	"path/filepath"
	"sort"
	"strings"
)

// An Edit describes one step of an edit history (for evidence and witnesses).
type Edit struct {
	Kind   string `json:"kind"`
	Detail string `json:"detail"`
}

// EditOpts steers EditGen.
type EditOpts struct {
	AllowRevert bool
	History     []*Repo // earlier states, for revert steps
	// AllowBreak lets a step make one command fail *after* it has written its outputs ("break-late");
	// the step after a broken state always repairs it and re-salts the command ("fix-resalt"), so that
	// the repaired build runs where a failed attempt has left files behind.
	AllowBreak bool
	// PreferToolSrc makes every fifth edit a content edit of a source file of a tool target (same length,
	// same leading bytes), which an absorbing tool turns into byte-identical output.
	PreferToolSrc bool
	// PreferFilegroupSrc makes every fifth edit an in-place content edit of a plain source file of a filegroup
	// (filegroup outputs are hard links to their sources, so hashes remembered for the output must not
	// survive such an edit).
	PreferFilegroupSrc bool
}

// Broken returns the target whose command has been made to fail by a break-late edit, if any.
func (r *Repo) Broken() *Target {
	for _, t := range r.Targets {
		if t.Fail == "late-exit1" {
			return t
		}
	}
	return nil
}

func (r *Repo) genrules() []*Target {
	var out []*Target
	for _, t := range r.Targets {
		if t.Kind == "genrule" {
			out = append(out, t)
		}
	}
	return out
}

func (r *Repo) sourcePaths() []string {
	out := make([]string, 0, len(r.Files))
	for p := range r.Files {
		out = append(out, p)
	}
	sort.Strings(out)
	return out
}

// dependents returns the targets that consume the given label.
func (r *Repo) dependents(label string) []*Target {
	var out []*Target
	for _, t := range r.Targets {
		if contains(t.Inputs(), label) {
			out = append(out, t)
		}
	}
	return out
}

// ApplyRandomEdit returns a new state derived from r by one random edit, and its description.
// The result is always a valid, buildable repository.
func ApplyRandomEdit(rng *rand.Rand, r *Repo, o EditOpts) (*Repo, Edit) {
	if r.Broken() != nil {
		n := r.Clone()
		t := n.Broken()
		t.Fail = ""
		t.Salt = fmt.Sprintf("s%d", rng.Intn(1000))
		return n, Edit{"fix-resalt", t.Label()}
	}
	if o.AllowBreak && rng.Intn(7) == 0 {
		n := r.Clone()
		for _, t := range shuffled(rng, n.genrules()) {
			if !t.IsTool && (t.ExtraDir || t.PostBuild || t.DirOut != "") {
				t.Fail = "late-exit1"
				return n, Edit{"break-late", t.Label()}
			}
		}
	}
	if o.PreferToolSrc && rng.Intn(5) == 0 {
		n := r.Clone()
		for _, t := range shuffled(rng, n.genrules()) {
			if !t.IsTool || len(t.SrcFiles) == 0 || strings.HasSuffix(t.SrcFiles[0], "/") {
				continue
			}
			p := filepath.Join(t.Pkg, t.SrcFiles[0])
			old := n.Files[p]
			if len(old) == 0 {
				continue
			}
			// flip the last byte between two digits/letters: same length, same first bytes, same name
			last := old[len(old)-1]
			repl := byte('1')
			if last == '1' {
				repl = '2'
			}
			n.Files[p] = old[:len(old)-1] + string(repl)
			return n, Edit{"tool-src-content", p}
		}
	}
	if o.PreferFilegroupSrc && rng.Intn(5) == 0 {
		n := r.Clone()
		for _, t := range shuffled(rng, n.Targets) {
			if t.Kind != "filegroup" || len(t.SrcFiles) == 0 || strings.HasSuffix(t.SrcFiles[0], "/") || len(n.dependents(t.Label())) == 0 {
				continue
			}
			p := filepath.Join(t.Pkg, t.SrcFiles[0])
			n.Files[p] += pick(rng, []string{"z", "\nq", "7"})
			return n, Edit{"filegroup-src-append", p}
		}
	}
	for attempt := 0; attempt < 50; attempt++ {
		n := r.Clone()
		if e, ok := tryEdit(rng, n, o); ok && n.Valid() {
			return n, e
		}
	}
	n := r.Clone()
	return n, Edit{Kind: "noop", Detail: "no applicable edit"}
}

func tryEdit(rng *rand.Rand, n *Repo, o EditOpts) (Edit, bool) {
	gr := n.genrules()
	srcs := n.sourcePaths()
	switch k := rng.Intn(22); k {
	case 0, 1, 2: // change a source file's content
		if len(srcs) == 0 {
			return Edit{}, false
		}
		p := srcs[rng.Intn(len(srcs))]
		old := n.Files[p]
		nw := pick(rng, words) + fmt.Sprint(rng.Intn(4))
		if nw == old {
			nw += "!"
		}
		n.Files[p] = nw
		return Edit{"src-content", p}, true
	case 3: // append to a source file
		if len(srcs) == 0 {
			return Edit{}, false
		}
		p := srcs[rng.Intn(len(srcs))]
		n.Files[p] += pick(rng, []string{"\n", "z", " ", "\nalpha\n"})
		return Edit{"src-append", p}, true
	case 4: // permute file contents between two sources of one target (same multiset of contents)
		for _, t := range shuffled(rng, gr) {
			if len(t.SrcFiles) >= 2 && !strings.HasSuffix(t.SrcFiles[0], "/") && !strings.HasSuffix(t.SrcFiles[1], "/") {
				a, b := filepath.Join(t.Pkg, t.SrcFiles[0]), filepath.Join(t.Pkg, t.SrcFiles[1])
				if n.Files[a] == n.Files[b] {
					continue
				}
				n.Files[a], n.Files[b] = n.Files[b], n.Files[a]
				return Edit{"src-swap-contents", a + " <-> " + b}, true
			}
		}
		return Edit{}, false
	case 5: // rename a file inside a directory source, content unchanged
		for _, t := range shuffled(rng, gr) {
			for _, s := range t.SrcFiles {
				if strings.HasSuffix(s, "/") {
					dir := filepath.Join(t.Pkg, s)
					for _, p := range srcs {
						if strings.HasPrefix(p, dir+"/") {
							np := p + "r"
							if strings.HasSuffix(p, "r") {
								np = strings.TrimSuffix(p, "r")
							}
							if _, exists := n.Files[np]; exists {
								continue
							}
							n.Files[np] = n.Files[p]
							delete(n.Files, p)
							return Edit{"dirsrc-rename", p + " -> " + np}, true
						}
					}
				}
			}
		}
		return Edit{}, false
	case 6: // add a file to a directory source
		for _, t := range shuffled(rng, gr) {
			for _, s := range t.SrcFiles {
				if strings.HasSuffix(s, "/") {
					p := filepath.Join(t.Pkg, s, fmt.Sprintf("n%d.txt", rng.Intn(3)))
					if _, ok := n.Files[p]; ok {
						delete(n.Files, p)
						return Edit{"dirsrc-remove-file", p}, true
					}
					n.Files[p] = pick(rng, words)
					return Edit{"dirsrc-add-file", p}, true
				}
			}
		}
		return Edit{}, false
	case 7: // add a new source file to a genrule
		if len(gr) == 0 {
			return Edit{}, false
		}
		t := gr[rng.Intn(len(gr))]
		name := fmt.Sprintf("extra_%s_%d.txt", t.Name, rng.Intn(3))
		if contains(t.SrcFiles, name) {
			return Edit{}, false
		}
		t.SrcFiles = append(t.SrcFiles, name)
		n.Files[filepath.Join(t.Pkg, name)] = pick(rng, words)
		return Edit{"add-src", t.Label() + " " + name}, true
	case 8: // remove a source file from a genrule
		for _, t := range shuffled(rng, gr) {
			if len(t.SrcFiles) > 0 {
				i := rng.Intn(len(t.SrcFiles))
				s := t.SrcFiles[i]
				t.SrcFiles = append(t.SrcFiles[:i:i], t.SrcFiles[i+1:]...)
				if strings.HasSuffix(s, "/") {
					for _, p := range srcs {
						if strings.HasPrefix(p, filepath.Join(t.Pkg, s)+"/") {
							delete(n.Files, p)
						}
					}
				} else {
					delete(n.Files, filepath.Join(t.Pkg, s))
				}
				return Edit{"remove-src", t.Label() + " " + s}, true
			}
		}
		return Edit{}, false
	case 9: // reorder sources
		for _, t := range shuffled(rng, gr) {
			if len(t.SrcFiles) >= 2 {
				t.SrcFiles[0], t.SrcFiles[1] = t.SrcFiles[1], t.SrcFiles[0]
				return Edit{"reorder-srcs", t.Label()}, true
			}
		}
		return Edit{}, false
	case 10, 11: // change the command (salt)
		if len(gr) == 0 {
			return Edit{}, false
		}
		t := gr[rng.Intn(len(gr))]
		t.Salt = fmt.Sprintf("s%d", rng.Intn(1000))
		return Edit{"cmd-salt", t.Label()}, true
	case 12: // change the op (how outputs are computed)
		if len(gr) == 0 {
			return Edit{}, false
		}
		t := gr[rng.Intn(len(gr))]
		if t.IsTool {
			return Edit{}, false
		}
		old := t.Op
		t.Op = pick(rng, defaultOps)
		if t.Op == old {
			return Edit{}, false
		}
		return Edit{"cmd-op", t.Label() + " " + old + "->" + t.Op}, true
	case 13: // rename an output
		for _, t := range shuffled(rng, gr) {
			if t.IsTool {
				continue
			}
			i := rng.Intn(len(t.Outs))
			if t.Outs[i] == t.DirOut {
				nd := t.DirOut + "n"
				t.Outs[i], t.DirOut = nd, nd
				return Edit{"rename-dir-out", t.Label()}, true
			}
			t.Outs[i] = "r" + t.Outs[i]
			if strings.Contains(t.Outs[i], "/") {
				t.Outs[i] = strings.Replace(t.Outs[i], "/", "_", 1)
			}
			return Edit{"rename-out", t.Label() + " " + t.Outs[i]}, true
		}
		return Edit{}, false
	case 14: // env change
		for _, t := range shuffled(rng, gr) {
			if t.IsTool {
				continue
			}
			if t.Env == nil {
				t.Env = map[string]string{"VAR_A": "1"}
				return Edit{"env-add", t.Label()}, true
			}
			if rng.Intn(3) == 0 {
				t.Env = nil
				return Edit{"env-remove", t.Label()}, true
			}
			t.Env["VAR_A"] += "x"
			return Edit{"env-change", t.Label()}, true
		}
		return Edit{}, false
	case 15: // add a dependency on an earlier target
		for _, t := range shuffled(rng, gr) {
			idx := indexOf(n.Targets, t)
			for _, j := range rng.Perm(idx) {
				d := n.Targets[j]
				if d.IsTool || contains(t.Inputs(), d.Label()) {
					continue
				}
				if rng.Intn(2) == 0 {
					t.SrcLabels = append(t.SrcLabels, d.Label())
					return Edit{"add-src-label", t.Label() + " <- " + d.Label()}, true
				}
				t.Deps = append(t.Deps, d.Label())
				return Edit{"add-dep", t.Label() + " <- " + d.Label()}, true
			}
		}
		return Edit{}, false
	case 16: // remove a label source / dep
		for _, t := range shuffled(rng, gr) {
			if len(t.SrcLabels) > 0 {
				i := rng.Intn(len(t.SrcLabels))
				l := t.SrcLabels[i]
				t.SrcLabels = append(t.SrcLabels[:i:i], t.SrcLabels[i+1:]...)
				return Edit{"remove-src-label", t.Label() + " " + l}, true
			}
			if len(t.Deps) > 0 {
				l := t.Deps[0]
				t.Deps = t.Deps[1:]
				return Edit{"remove-dep", t.Label() + " " + l}, true
			}
		}
		return Edit{}, false
	case 17: // labels change
		for _, t := range shuffled(rng, n.Targets) {
			if t.Kind == "text_file" {
				continue
			}
			if len(t.Labels) == 0 {
				t.Labels = []string{"l3"}
			} else {
				t.Labels = nil
			}
			return Edit{"labels", t.Label()}, true
		}
		return Edit{}, false
	case 18: // text_file content / toggle symlink in a directory output / toggle binary
		for _, t := range shuffled(rng, n.Targets) {
			if t.Kind == "text_file" {
				t.Content += "!"
				return Edit{"text-content", t.Label()}, true
			}
			if t.DirOut != "" {
				t.Symlink = !t.Symlink
				return Edit{"dirout-symlink-toggle", t.Label()}, true
			}
		}
		return Edit{}, false
	case 19: // add a new leaf target consuming existing ones
		i := len(n.Targets)
		name := fmt.Sprintf("t%d", i)
		taken := func(name string) bool {
			for _, x := range n.Targets {
				if x.Name == name {
					return true
				}
			}
			return false
		}
		for taken(name) {
			i++
			name = fmt.Sprintf("t%d", i)
		}
		t := &Target{Pkg: n.Targets[rng.Intn(len(n.Targets))].Pkg, Name: name, Kind: "genrule", Op: pick(rng, defaultOps),
			Salt: fmt.Sprintf("s%d", rng.Intn(1000)), Outs: []string{fmt.Sprintf("o%d.out", i)}}
		for _, d := range n.Targets {
			if !d.IsTool && rng.Intn(3) == 0 && len(t.SrcLabels) < 2 {
				t.SrcLabels = append(t.SrcLabels, d.Label())
			}
		}
		src := fmt.Sprintf("s%d_0.txt", i)
		t.SrcFiles = []string{src}
		n.Files[filepath.Join(t.Pkg, src)] = pick(rng, words)
		n.Targets = append(n.Targets, t)
		return Edit{"add-target", t.Label()}, true
	case 20: // remove a target nothing depends on
		for _, t := range shuffled(rng, n.Targets) {
			if len(n.dependents(t.Label())) == 0 && len(n.Targets) > 2 {
				idx := indexOf(n.Targets, t)
				n.Targets = append(n.Targets[:idx:idx], n.Targets[idx+1:]...)
				for _, s := range t.SrcFiles {
					for _, p := range srcs {
						if p == filepath.Join(t.Pkg, s) || strings.HasPrefix(p, filepath.Join(t.Pkg, s)+"/") {
							delete(n.Files, p)
						}
					}
				}
				return Edit{"remove-target", t.Label()}, true
			}
		}
		return Edit{}, false
	case 21: // revert to an earlier state
		if !o.AllowRevert || len(o.History) < 2 {
			return Edit{}, false
		}
		j := rng.Intn(len(o.History) - 1)
		h := o.History[j].Clone()
		*n = *h
		return Edit{"revert", fmt.Sprintf("to state %d", j)}, true
	}
	return Edit{}, false
}

func shuffled(rng *rand.Rand, ts []*Target) []*Target {
	out := append([]*Target(nil), ts...)
	rng.Shuffle(len(out), func(i, j int) { out[i], out[j] = out[j], out[i] })
	return out
}

func indexOf(ts []*Target, t *Target) int {
	for i, x := range ts {
		if x == t {
			return i
		}
	}
	return -1
}

package e2e

import (
	"fmt"
	"os"
	"path/filepath"
	"sort"
	"strings"
	"time"

	"verifharness/lib"
)

// A Sandbox is the on-disk home of one generated repository: the repo itself, the probe directory
// baked into its commands, a HOME, and optionally a cache directory.
type Sandbox struct {
	Work  string // scratch directory owning everything below
	Repo  string // <Work>/repo  — the repository root (fixed absolute path for all states)
	VLog  string // <Work>/vlog  — action probe directory
	Home  string
	Cache string // <Work>/cache (only used when a check configures it)
}

// NewSandbox creates the directory layout under work.
func NewSandbox(work string) *Sandbox {
	s := &Sandbox{Work: work, Repo: filepath.Join(work, "repo"), VLog: filepath.Join(work, "vlog"),
		Home: filepath.Join(work, "home"), Cache: filepath.Join(work, "cache")}
	for _, d := range []string{s.Repo, s.VLog, s.Home} {
		os.MkdirAll(d, 0o755)
	}
	return s
}

// ResetProbe empties the probe directory (between invocations).
func (s *Sandbox) ResetProbe() {
	lib.RemoveAll(s.VLog)
	os.MkdirAll(s.VLog, 0o755)
}

// Probe is what the action probe recorded during one invocation.
type Probe struct {
	Started    []string // IDs of actions whose command started
	Ended      []string // IDs of actions whose command ran to its end
	Violations []string // DUP / EARLY / OVERLAP lines
}

// ReadProbe lists the probe directory.
func (s *Sandbox) ReadProbe() Probe {
	var p Probe
	ents, _ := os.ReadDir(s.VLog)
	for _, e := range ents {
		n := e.Name()
		switch {
		case strings.HasSuffix(n, ".started"):
			p.Started = append(p.Started, strings.TrimSuffix(n, ".started"))
		case strings.HasSuffix(n, ".end"):
			p.Ended = append(p.Ended, strings.TrimSuffix(n, ".end"))
		case n == "violations":
			b, _ := os.ReadFile(filepath.Join(s.VLog, n))
			for _, l := range strings.Split(strings.TrimSpace(string(b)), "\n") {
				if l != "" {
					p.Violations = append(p.Violations, l)
				}
			}
		}
	}
	sort.Strings(p.Started)
	sort.Strings(p.Ended)
	return p
}

// Plz runs the given plz binary in the sandbox's repository.
func (s *Sandbox) Plz(bin string, env []string, timeout time.Duration, args ...string) lib.PlzResult {
	return lib.PlzCmd{Bin: bin, Dir: s.Repo, Args: args, Env: env, Home: s.Home, Timeout: timeout}.Run()
}

// SnapshotOutputs lists the declared outputs of the given targets in the sandbox's plz-out.
// Missing outputs are simply absent from the snapshot.
func (s *Sandbox) SnapshotOutputs(state *Repo, targets []*Target) lib.Snapshot {
	return SnapshotOutputsAt(s.Repo, state, targets)
}

// SnapshotOutputsAt is SnapshotOutputs for an explicit repository directory.
func SnapshotOutputsAt(repoDir string, state *Repo, targets []*Target) lib.Snapshot {
	snap := lib.Snapshot{}
	base := filepath.Join(repoDir, "plz-out")
	for _, t := range targets {
		for _, root := range state.OutputRoots(t) {
			if _, err := os.Lstat(filepath.Join(base, root)); err != nil {
				continue
			}
			lib.SnapshotPath(base, root, lib.SnapOpts{}, snap)
		}
	}
	return snap
}

// PerTargetSnapshots lists each target's declared outputs separately (canonical strings).
func (s *Sandbox) PerTargetSnapshots(state *Repo) map[string]string {
	out := map[string]string{}
	for _, t := range state.Targets {
		out[t.Label()] = s.SnapshotOutputs(state, []*Target{t}).Canon()
	}
	return out
}

// A CleanResult is the outcome of the clean-build oracle for one state.
type CleanResult struct {
	Result    lib.PlzResult
	Snapshot  lib.Snapshot      // outputs of the requested targets
	PerTarget map[string]string // canonical output listing per target label (all targets that were built)
}

// CleanBuild is the oracle: it moves the incremental repository aside, materialises `state` from
// scratch at the SAME absolute path with an empty plz-out and no cache, builds, snapshots the
// outputs of `want` (nil = all targets), removes the fresh tree and moves the incremental one back.
// The probe directory is swapped too, so the incremental run's probe is undisturbed.
func (s *Sandbox) CleanBuild(bin string, state *Repo, env []string, args []string, want []*Target) CleanResult {
	aside := s.Repo + ".incremental"
	vaside := s.VLog + ".incremental"
	must(os.Rename(s.Repo, aside))
	must(os.Rename(s.VLog, vaside))
	defer func() {
		lib.RemoveAll(s.Repo)
		lib.RemoveAll(s.VLog)
		must(os.Rename(aside, s.Repo))
		must(os.Rename(vaside, s.VLog))
	}()
	must(os.MkdirAll(s.VLog, 0o755))
	must(state.Materialize(s.Repo))
	a := append([]string{"-o", "cache.dir:", "-o", "cache.httpurl:"}, args...)
	res := s.Plz(bin, env, 180*time.Second, a...)
	if want == nil {
		want = state.Targets
	}
	cr := CleanResult{Result: res, Snapshot: s.SnapshotOutputs(state, want), PerTarget: s.PerTargetSnapshots(state)}
	return cr
}

func must(err error) {
	if err != nil {
		panic(fmt.Sprintf("harness filesystem error: %v", err))
	}
}

// InputFingerprint describes everything target t consumes directly in `state`: its rendered
// definition, its local source files (names and contents) and the clean output listing of every
// target it takes as input. Two equal fingerprints mean neither the definition nor any direct
// input changed.
func InputFingerprint(state *Repo, t *Target, cleanPerTarget map[string]string) string {
	var sb strings.Builder
	sb.WriteString("DEF\n" + state.Render(t))
	sb.WriteString("CONFIG\n" + state.Config)
	var srcs []string
	for _, s := range t.SrcFiles {
		prefix := filepath.Join(t.Pkg, strings.TrimSuffix(s, "/"))
		for p, c := range state.Files {
			if p == prefix || strings.HasPrefix(p, prefix+"/") {
				srcs = append(srcs, fmt.Sprintf("%q=%q", p, c))
			}
		}
	}
	sort.Strings(srcs)
	sb.WriteString("SRCS\n" + strings.Join(srcs, "\n"))
	for _, l := range t.Inputs() {
		sb.WriteString("\nINPUT " + l + "\n" + cleanPerTarget[l])
	}
	return sb.String()
}

// PlzWatched is Plz with a quiescence-classifying watchdog: when the limit fires, the process tree
// is sampled (CPU progress, live descendants) and asked for a goroutine dump before it is killed.
func (s *Sandbox) PlzWatched(bin string, env []string, limit time.Duration, args ...string) lib.PlzResult {
	return lib.PlzCmd{Bin: bin, Dir: s.Repo, Args: args, Env: env, Home: s.Home, Timeout: limit, OnTimeout: lib.QuiescenceReport}.Run()
}

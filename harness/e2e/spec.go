// Package e2e generates repositories (RepoGen), edit histories (EditGen) and the action probe, and
// implements the clean-build oracle for black-box runs of the real plz binary. No Please imports.
package e2e

import (
	"fmt"
	"math/rand"
	"os"
	"path/filepath"
	"sort"
	"strings"
)

// A Target is one generated build target.
type Target struct {
	Pkg  string `json:"pkg"`
	Name string `json:"name"`
	Kind string `json:"kind"` // genrule | filegroup | text_file

	SrcFiles  []string          `json:"src_files,omitempty"`  // local sources, relative to the package (a name ending in "/" is a directory source)
	SrcLabels []string          `json:"src_labels,omitempty"` // label sources
	Deps      []string          `json:"deps,omitempty"`
	Tool      string            `json:"tool,omitempty"` // label of a binary target run by the command
	Outs      []string          `json:"outs,omitempty"`
	DirOut    string            `json:"dir_out,omitempty"`    // a directory output (listed in outs)
	ExtraDir  bool              `json:"extra_dir,omitempty"`  // uses output_dirs to emit one more file
	DirStable bool              `json:"dir_stable,omitempty"` // the directory output has fixed entry names: only file contents follow the inputs
	PostBuild bool              `json:"post_build,omitempty"` // a post-build function adds one more output, named by what the command printed
	Op        string            `json:"op,omitempty"`
	Salt      string            `json:"salt,omitempty"`
	Binary    bool              `json:"binary,omitempty"`
	IsTool    bool              `json:"is_tool,omitempty"`
	Env       map[string]string `json:"env,omitempty"`
	Labels    []string          `json:"labels,omitempty"`
	Content   string            `json:"content,omitempty"` // text_file
	Symlink   bool              `json:"symlink,omitempty"` // directory output contains a relative symlink
	SleepMS   int               `json:"sleep_ms,omitempty"`
	Fail      string            `json:"fail,omitempty"` // "" | exit1 | missingout
	Vis       []string          `json:"visibility,omitempty"`
}

// Label returns the target's build label.
func (t *Target) Label() string { return "//" + t.Pkg + ":" + t.Name }

// ID is the action-probe identifier of the target.
func (t *Target) ID() string { return strings.ReplaceAll(t.Pkg, "/", "_") + "." + t.Name }

// HasCommand reports whether the target runs a shell command (and therefore carries a probe).
func (t *Target) HasCommand() bool { return t.Kind == "genrule" }

// A Repo is a generated repository state.
type Repo struct {
	Targets []*Target         `json:"targets"`
	Files   map[string]string `json:"files"` // source files, repo-relative path -> content
	Config  string            `json:"config"`
	VLog    string            `json:"vlog"`   // absolute path of the probe directory baked into commands
	Strict  bool              `json:"strict"` // probe requires every command-bearing dependency to have ended in this invocation
	// Overlap, when set, makes the probe detect two overlapping executions of one action (C31).
	Overlap bool `json:"overlap,omitempty"`
	// Defs, when set, adds package "defs" whose genrule produces a build_defs file that every other
	// package subincludes and whose macro wraps genrule (so a build is needed during parsing).
	Defs bool `json:"defs,omitempty"`
	// Failure injection (C05): packages whose BUILD file has a syntax error; a failing defs target.
	BadPkgs  []string `json:"bad_pkgs,omitempty"`
	DefsFail bool     `json:"defs_fail,omitempty"`
}

const defsText = `def mygen(name, srcs, outs, cmd, deps=None, tools=None, binary=False, output_dirs=[], env={}, labels=[], visibility=None):
    return genrule(
        name = name,
        srcs = srcs,
        outs = outs,
        cmd = cmd,
        deps = deps,
        tools = tools,
        binary = binary,
        output_dirs = output_dirs,
        env = env,
        labels = labels,
        visibility = visibility,
    )
`

// Clone returns a deep copy.
func (r *Repo) Clone() *Repo {
	c := &Repo{Config: r.Config, VLog: r.VLog, Strict: r.Strict, Overlap: r.Overlap, Defs: r.Defs, DefsFail: r.DefsFail, BadPkgs: append([]string(nil), r.BadPkgs...), Files: map[string]string{}}
	for k, v := range r.Files {
		c.Files[k] = v
	}
	for _, t := range r.Targets {
		n := *t
		n.SrcFiles = append([]string(nil), t.SrcFiles...)
		n.SrcLabels = append([]string(nil), t.SrcLabels...)
		n.Deps = append([]string(nil), t.Deps...)
		n.Outs = append([]string(nil), t.Outs...)
		n.Labels = append([]string(nil), t.Labels...)
		n.Vis = append([]string(nil), t.Vis...)
		if t.Env != nil {
			n.Env = map[string]string{}
			for k, v := range t.Env {
				n.Env[k] = v
			}
		}
		c.Targets = append(c.Targets, &n)
	}
	return c
}

// Target returns the target with the given label, or nil.
func (r *Repo) Target(label string) *Target {
	for _, t := range r.Targets {
		if t.Label() == label {
			return t
		}
	}
	return nil
}

// Pkgs returns the sorted package names.
func (r *Repo) Pkgs() []string {
	m := map[string]bool{}
	for _, t := range r.Targets {
		m[t.Pkg] = true
	}
	out := []string{}
	for p := range m {
		out = append(out, p)
	}
	sort.Strings(out)
	return out
}

// Inputs returns every label the target consumes (sources, deps, tool), in a fixed order.
func (t *Target) Inputs() []string {
	out := append([]string{}, t.SrcLabels...)
	out = append(out, t.Deps...)
	if t.Tool != "" {
		out = append(out, t.Tool)
	}
	return out
}

// CommandAncestors returns the IDs of the nearest command-bearing targets reachable from t's
// inputs through targets that have no command (filegroups, text files).
func (r *Repo) CommandAncestors(t *Target) []string {
	seen := map[string]bool{}
	var out []string
	var walk func(l string)
	walk = func(l string) {
		if seen[l] {
			return
		}
		seen[l] = true
		d := r.Target(l)
		if d == nil {
			return
		}
		if d.HasCommand() {
			out = append(out, d.ID())
			return
		}
		for _, i := range d.Inputs() {
			walk(i)
		}
	}
	for _, i := range t.Inputs() {
		walk(i)
	}
	sort.Strings(out)
	return out
}

func q(s string) string {
	s = strings.ReplaceAll(s, `\`, `\\`)
	s = strings.ReplaceAll(s, `"`, `\"`)
	s = strings.ReplaceAll(s, "\n", `\n`)
	return `"` + s + `"`
}

func qlist(ss []string) string {
	parts := make([]string, len(ss))
	for i, s := range ss {
		parts[i] = q(s)
	}
	return "[" + strings.Join(parts, ", ") + "]"
}

// localLabel renders a label relative to the package where possible (exercises both spellings).
func localLabel(pkg, label string) string {
	if strings.HasPrefix(label, "//"+pkg+":") {
		return label[len("//"+pkg):]
	}
	return label
}

// Command renders the shell command of a genrule, including the action probe.
func (r *Repo) Command(t *Target) string {
	var c []string
	id := t.ID()
	v := r.VLog
	if v != "" {
		c = append(c, fmt.Sprintf(`mkdir "%s/%s.started" 2>/dev/null || echo "DUP %s" >> "%s/violations"`, v, id, id, v))
		if r.Overlap {
			c = append(c, fmt.Sprintf(`mkdir "%s/%s.running" 2>/dev/null || echo "OVERLAP %s" >> "%s/violations"`, v, id, id, v))
		}
		for _, dep := range r.CommandAncestors(t) {
			if r.Strict {
				c = append(c, fmt.Sprintf(`test -e "%s/%s.end" || echo "EARLY %s %s" >> "%s/violations"`, v, dep, id, dep, v))
			} else {
				c = append(c, fmt.Sprintf(`{ test -e "%s/%s.end" || test ! -e "%s/%s.started"; } || echo "EARLY %s %s" >> "%s/violations"`, v, dep, v, dep, id, dep, v))
			}
		}
	}
	if t.SleepMS > 0 {
		c = append(c, fmt.Sprintf("sleep %d.%03d", t.SleepMS/1000, t.SleepMS%1000))
	}
	if t.Fail == "exit1" {
		c = append(c, "echo failing on purpose >&2", "exit 1")
		return strings.Join(c, "; ")
	}
	// inputs: every entry (files, directories, symlinks) under the sources, sorted bytewise.
	// Few forks per action: the generated repositories run thousands of these.
	c = append(c, `export LC_ALL=C`)
	const names = `find $SRCS | sort`
	const content = `find $SRCS -type f | sort | xargs -r cat`
	const links = `find $SRCS -type l | sort | xargs -r readlink`
	var body string
	switch t.Op {
	case "names":
		body = names
	case "content":
		body = content
	case "wc":
		body = content + " | wc -c"
	case "sortu":
		body = content + " | sort -u"
	case "head":
		body = content + " | head -c 6"
	case "const":
		body = `true`
	default: // full
		body = names + "; " + content + "; " + links
	}
	if len(t.SrcFiles)+len(t.SrcLabels) == 0 {
		body = "true" // no sources: $SRCS is empty and find would list the working directory
	}
	c = append(c, "body() { "+body+"; }")
	if t.IsTool {
		// A tool is a script that prints its salt and what it was built from.
		out := t.Outs[0]
		c = append(c, fmt.Sprintf(`{ echo '#!/bin/sh'; echo "echo tool-%s-$(body | cksum | cut -d' ' -f1)"; } > "%s"`, t.Salt, out), fmt.Sprintf(`chmod +x "%s"`, out))
	} else {
		for i, out := range t.Outs {
			if out == t.DirOut {
				continue
			}
			if dir := filepath.Dir(out); dir != "." {
				c = append(c, fmt.Sprintf(`mkdir -p "%s"`, dir))
			}
			line := fmt.Sprintf(`{ echo "%s %d"; body; `, t.Salt, i)
			if t.Tool != "" && i == 0 {
				line += `$TOOL; `
			}
			if len(t.Env) > 0 && i == 0 {
				keys := make([]string, 0, len(t.Env))
				for k := range t.Env {
					keys = append(keys, k)
				}
				sort.Strings(keys)
				for _, k := range keys {
					line += fmt.Sprintf(`echo "%s=$%s"; `, k, k)
				}
			}
			line += fmt.Sprintf(`} > "%s"`, out)
			c = append(c, line)
		}
	}
	if t.DirOut != "" {
		d := t.DirOut
		nexpr := "n=`body | cksum | cut -c1-2`"
		if t.DirStable {
			nexpr = "n=fixed"
		}
		c = append(c, fmt.Sprintf(`mkdir -p "%s/sub"`, d),
			nexpr,
			fmt.Sprintf(`echo "%s" > "%s/f_$n"`, t.Salt, d),
			fmt.Sprintf(`body > "%s/sub/data"`, d))
		if t.Symlink {
			c = append(c, fmt.Sprintf(`ln -s "f_$n" "%s/link"`, d), fmt.Sprintf(`ln -s "../f_$n" "%s/sub/up"`, d))
		}
	}
	if t.ExtraDir {
		// one file with a fixed name and one whose name follows the salt, so that the set of names recorded in
		// the target's build metadata (output_dirs outs) differs between states of the same target
		c = append(c, `mkdir -p _od`, fmt.Sprintf(`body | cksum > "_od/extra_%s.txt"`, t.Name), fmt.Sprintf(`echo x > "_od/x_%s_%s.txt"`, t.Name, t.Salt))
	}
	if t.PostBuild {
		// The name of this output is only known from the command's stdout (recorded in the build metadata and
		// replayed to the post-build function when the target is restored from a cache); it follows the salt.
		c = append(c, fmt.Sprintf(`echo pbx > "%s"`, t.postBuildOut()), fmt.Sprintf(`echo "%s"`, t.postBuildOut()))
	}
	if t.Fail == "missingout" {
		c = append(c, fmt.Sprintf(`rm -rf "%s"`, t.Outs[0]))
	}
	if t.Fail == "late-exit1" {
		// everything has been written into the build directory by now; fail without the end marker
		c = append(c, "echo failing late on purpose >&2", "exit 1")
		return strings.Join(c, "; ")
	}
	if v != "" {
		if r.Overlap {
			c = append(c, fmt.Sprintf(`rmdir "%s/%s.running"`, v, id))
		}
		c = append(c, fmt.Sprintf(`touch "%s/%s.end"`, v, id))
	}
	return strings.Join(c, "; ")
}

func (t *Target) postBuildOut() string { return fmt.Sprintf("pb_%s_%s.txt", t.Name, t.Salt) }

// postBuildDef is the post-build function used by PostBuild targets, defined at the top of their BUILD file.
const postBuildDef = "def _pb_add_outs(name, output):\n    for line in output:\n        if line.startswith(\"pb_\"):\n            add_out(name, line)\n\n"

// Render returns the BUILD-file text of one target. It doubles as the target's definition fingerprint.
func (r *Repo) Render(t *Target) string {
	var sb strings.Builder
	w := func(format string, args ...any) { fmt.Fprintf(&sb, format, args...) }
	vis := t.Vis
	if vis == nil {
		vis = []string{"PUBLIC"}
	}
	switch t.Kind {
	case "text_file":
		w("text_file(\n    name = %s,\n    content = %s,\n    out = %s,\n", q(t.Name), q(t.Content), q(t.Outs[0]))
	case "filegroup":
		srcs := append([]string{}, t.SrcFiles...)
		for _, l := range t.SrcLabels {
			srcs = append(srcs, localLabel(t.Pkg, l))
		}
		w("filegroup(\n    name = %s,\n    srcs = %s,\n", q(t.Name), qlist(trimSlash(srcs)))
		if len(t.Deps) > 0 {
			w("    deps = %s,\n", qlist(t.Deps))
		}
	default:
		srcs := append([]string{}, t.SrcFiles...)
		for _, l := range t.SrcLabels {
			srcs = append(srcs, localLabel(t.Pkg, l))
		}
		rule := "genrule"
		if r.Defs && !t.PostBuild {
			rule = "mygen"
		}
		w("%s(\n    name = %s,\n    srcs = %s,\n    outs = %s,\n    cmd = %s,\n", rule, q(t.Name), qlist(trimSlash(srcs)), qlist(t.Outs), q(r.Command(t)))
		if len(t.Deps) > 0 {
			w("    deps = %s,\n", qlist(t.Deps))
		}
		if t.Tool != "" {
			w("    tools = %s,\n", qlist([]string{t.Tool}))
		}
		if t.Binary || t.IsTool {
			w("    binary = True,\n")
		}
		if t.ExtraDir {
			w("    output_dirs = [\"_od\"],\n")
		}
		if t.PostBuild {
			w("    post_build = _pb_add_outs,\n")
		}
		if len(t.Env) > 0 {
			keys := make([]string, 0, len(t.Env))
			for k := range t.Env {
				keys = append(keys, k)
			}
			sort.Strings(keys)
			w("    env = {")
			for i, k := range keys {
				if i > 0 {
					w(", ")
				}
				w("%s: %s", q(k), q(t.Env[k]))
			}
			w("},\n")
		}
	}
	if len(t.Labels) > 0 {
		w("    labels = %s,\n", qlist(t.Labels))
	}
	w("    visibility = %s,\n)\n", qlist(vis))
	return sb.String()
}

func trimSlash(ss []string) []string {
	out := make([]string, len(ss))
	for i, s := range ss {
		out[i] = strings.TrimSuffix(s, "/")
	}
	return out
}

// BuildFiles renders every package's BUILD file.
func (r *Repo) BuildFiles() map[string]string {
	out := map[string]string{}
	for _, t := range r.Targets {
		p := filepath.Join(t.Pkg, "BUILD")
		if out[p] == "" {
			if r.Defs {
				out[p] = "subinclude(\"//defs:defs\")\n\n"
			}
			for _, x := range r.Targets {
				if x.Pkg == t.Pkg && x.PostBuild {
					out[p] += postBuildDef
					break
				}
			}
		}
		out[p] += r.Render(t) + "\n"
	}
	for _, p := range r.BadPkgs {
		out[filepath.Join(p, "BUILD")] += "\ngenrule(name = \"oops\", (\n"
	}
	if r.Defs {
		cmd := "cp $SRCS $OUT"
		if r.VLog != "" {
			cmd = fmt.Sprintf(`mkdir "%s/defs.defs.started" 2>/dev/null || echo "DUP defs.defs" >> "%s/violations"; cp $SRCS $OUT; touch "%s/defs.defs.end"`, r.VLog, r.VLog, r.VLog)
		}
		if r.DefsFail {
			cmd = "echo defs failing on purpose >&2; exit 1"
		}
		out["defs/BUILD"] = fmt.Sprintf("genrule(\n    name = \"defs\",\n    srcs = [\"defs.in\"],\n    outs = [\"defs.build_defs\"],\n    cmd = %s,\n    visibility = [\"PUBLIC\"],\n)\n", q(cmd))
	}
	return out
}

// AllFiles returns every file of the repository state (sources, BUILD files, .plzconfig).
func (r *Repo) AllFiles() map[string]string {
	out := map[string]string{".plzconfig": r.Config}
	for k, v := range r.Files {
		out[k] = v
	}
	for k, v := range r.BuildFiles() {
		out[k] = v
	}
	return out
}

// Materialize writes the full state into an empty directory.
func (r *Repo) Materialize(dir string) error {
	if err := os.MkdirAll(dir, 0o755); err != nil {
		return err
	}
	return writeFiles(dir, r.AllFiles())
}

func writeFiles(dir string, files map[string]string) error {
	paths := make([]string, 0, len(files))
	for p := range files {
		paths = append(paths, p)
	}
	sort.Strings(paths)
	for _, p := range paths {
		full := filepath.Join(dir, p)
		if err := os.MkdirAll(filepath.Dir(full), 0o755); err != nil {
			return err
		}
		c := files[p]
		// Half of the files (chosen by name) are rewritten in place when they already exist, as `echo >> f` or an
		// editor without atomic save does: the inode - which filegroup outputs hard-link to - is kept. The others
		// are replaced by a new file.
		inPlace := false
		if fi, err := os.Lstat(full); err == nil && fi.Mode().IsRegular() && !strings.HasPrefix(c, "->") {
			sum := 0
			for _, b := range []byte(p) {
				sum += int(b)
			}
			inPlace = sum%2 == 0
		}
		if !inPlace {
			os.Remove(full)
		}
		if strings.HasPrefix(c, "->") {
			if err := os.Symlink(c[2:], full); err != nil {
				return err
			}
			continue
		}
		if err := os.WriteFile(full, []byte(c), 0o644); err != nil {
			return err
		}
	}
	return nil
}

// Sync makes dir (an existing materialisation of prev) hold the state r, touching only what differs:
// changed and new files are rewritten, files that no longer exist are removed.
func (r *Repo) Sync(dir string, prev *Repo) error {
	old := prev.AllFiles()
	cur := r.AllFiles()
	changed := map[string]string{}
	for p, c := range cur {
		if oc, ok := old[p]; !ok || oc != c {
			changed[p] = c
		}
	}
	for p := range old {
		if _, ok := cur[p]; !ok {
			os.Remove(filepath.Join(dir, p))
			// remove now-empty parent directories (a leftover empty dir source would differ from a fresh tree)
			for d := filepath.Dir(p); d != "." && d != "/"; d = filepath.Dir(d) {
				if os.Remove(filepath.Join(dir, d)) != nil {
					break
				}
			}
		}
	}
	return writeFiles(dir, changed)
}

// OutputRoots returns the plz-out-relative paths of the target's declared outputs.
func (r *Repo) OutputRoots(t *Target) []string {
	base := "gen"
	if t.Binary || t.IsTool {
		base = "bin"
	}
	var out []string
	switch t.Kind {
	case "filegroup":
		for _, s := range t.SrcFiles {
			out = append(out, filepath.Join(base, t.Pkg, strings.TrimSuffix(s, "/")))
		}
		for _, l := range t.SrcLabels {
			if d := r.Target(l); d != nil {
				for _, p := range r.OutputRoots(d) {
					// strip "<gen|bin>/<dep pkg>/" and re-root under this package
					rel := strings.TrimPrefix(strings.TrimPrefix(strings.TrimPrefix(p, "gen/"), "bin/"), d.Pkg+"/")
					out = append(out, filepath.Join(base, t.Pkg, rel))
				}
			}
		}
	default:
		for _, o := range t.Outs {
			out = append(out, filepath.Join(base, t.Pkg, o))
		}
		if t.ExtraDir {
			out = append(out, filepath.Join(base, t.Pkg, "extra_"+t.Name+".txt"), filepath.Join(base, t.Pkg, fmt.Sprintf("x_%s_%s.txt", t.Name, t.Salt)))
		}
		if t.PostBuild {
			out = append(out, filepath.Join(base, t.Pkg, t.postBuildOut()))
		}
	}
	sort.Strings(out)
	return out
}

// ---- generation ----

// GenOpts steers RepoGen.
type GenOpts struct {
	MaxPkgs, MaxTargets int
	Tools, DirOuts      bool
	Sleep               int // max sleep in ms per action (0 = none)
	Ops                 []string
	MinTargets          int
	DepOneIn            int  // a target takes each earlier target as a source with probability 1/DepOneIn (default 4)
	Subinclude          bool // packages subinclude a generated build_defs file (a build is needed during parsing)
	PostBuild           bool // some genrules get a post-build function that adds an output named by the command's stdout
	FilegroupDeps       bool // filegroups get deps= on earlier genrules (not re-exported), and later genrules often depend on such filegroups through deps=
	AbsorbingTools      bool // tools get an operation that absorbs most source changes (wc/head/const) and always a local source, so a rebuilt tool often has byte-identical output
}

var defaultOps = []string{"full", "full", "names", "content", "wc", "sortu", "head", "const"}

var words = []string{"alpha", "beta", "gamma", "delta", "a", "b", "ab", "ba", "x", "", "alpha\n", "1", "12", "x y", "beta\ngamma\n"}

func pick(rng *rand.Rand, ss []string) string { return ss[rng.Intn(len(ss))] }

// Generate builds a random repository. Targets only depend on earlier targets, so the graph is a DAG.
func Generate(rng *rand.Rand, o GenOpts) *Repo {
	if o.MaxPkgs == 0 {
		o.MaxPkgs = 4
	}
	if o.MaxTargets == 0 {
		o.MaxTargets = 10
	}
	if o.Ops == nil {
		o.Ops = defaultOps
	}
	r := &Repo{Files: map[string]string{}, Config: "[please]\nselfupdate = false\nautoclean = false\n\n[build]\npath = /usr/local/bin:/usr/bin:/bin\n\n[cache]\ndir =\n"}
	pkgPool := []string{"p0", "p1", "p1/sub", "q", "p0x"}
	npk := 1 + rng.Intn(o.MaxPkgs)
	pkgs := pkgPool[:npk]
	nt := 3 + rng.Intn(o.MaxTargets-2)
	if o.MinTargets > 0 && nt < o.MinTargets {
		nt = o.MinTargets + rng.Intn(o.MaxTargets-o.MinTargets+1)
	}
	if o.DepOneIn == 0 {
		o.DepOneIn = 4
	}
	if o.Subinclude {
		r.Defs = true
		r.Files["defs/defs.in"] = defsText
	}
	for i := 0; i < nt; i++ {
		pkg := pkgs[rng.Intn(len(pkgs))]
		t := &Target{Pkg: pkg, Name: fmt.Sprintf("t%d", i), Salt: fmt.Sprintf("s%d", rng.Intn(1000))}
		switch k := rng.Intn(10); {
		case k < 7 || i == 0:
			t.Kind = "genrule"
		case k < 9:
			t.Kind = "filegroup"
		default:
			t.Kind = "text_file"
		}
		// local sources
		if t.Kind != "text_file" {
			ns := rng.Intn(3)
			if t.Kind == "filegroup" && ns == 0 {
				ns = 1
			}
			for j := 0; j < ns; j++ {
				name := fmt.Sprintf("s%d_%d.txt", i, j)
				t.SrcFiles = append(t.SrcFiles, name)
				r.Files[filepath.Join(pkg, name)] = pick(rng, words) + fmt.Sprint(rng.Intn(4))
			}
			if t.Kind == "genrule" && rng.Intn(4) == 0 {
				// a directory source with a couple of files
				dn := fmt.Sprintf("d%d", i)
				t.SrcFiles = append(t.SrcFiles, dn+"/")
				r.Files[filepath.Join(pkg, dn, "x.txt")] = pick(rng, words)
				r.Files[filepath.Join(pkg, dn, "y.txt")] = pick(rng, words)
			}
			// label sources / deps on earlier targets
			for _, prev := range r.Targets {
				if prev.IsTool {
					continue
				}
				if rng.Intn(o.DepOneIn) == 0 && len(t.SrcLabels) < 3+8/o.DepOneIn {
					if t.Kind == "filegroup" && (prev.DirOut != "" || prev.ExtraDir) && rng.Intn(2) == 0 {
						continue
					}
					t.SrcLabels = append(t.SrcLabels, prev.Label())
					if t.Kind == "filegroup" {
						r.Targets = append(r.Targets, t)
						ok := r.Valid()
						r.Targets = r.Targets[:len(r.Targets)-1]
						if !ok {
							t.SrcLabels = t.SrcLabels[:len(t.SrcLabels)-1]
						}
					}
				}
			}
		}
		switch t.Kind {
		case "genrule":
			t.Op = pick(rng, o.Ops)
			// A target whose set of outputs is only known after it ran (output_dirs, post-build add_out) usually
			// gets a dependent that lists the names of everything it receives, so that an output that should not
			// be there (or is missing) shows up in a declared output.
			if n := len(r.Targets); n > 0 && rng.Intn(3) != 0 {
				if prev := r.Targets[n-1]; (prev.ExtraDir || prev.PostBuild) && !prev.IsTool && !contains(t.SrcLabels, prev.Label()) {
					t.SrcLabels = append(t.SrcLabels, prev.Label())
					t.Op = pick(rng, []string{"names", "full"})
				}
			}
			t.Outs = []string{fmt.Sprintf("o%d.out", i)}
			if rng.Intn(4) == 0 {
				t.Outs = append(t.Outs, fmt.Sprintf("sub%d/o%db.out", i, i))
			}
			if o.DirOuts && rng.Intn(3) == 0 {
				t.DirOut = fmt.Sprintf("dir%d", i)
				t.Outs = append(t.Outs, t.DirOut)
				t.Symlink = rng.Intn(2) == 0
				t.DirStable = rng.Intn(2) == 0
			}
			if o.DirOuts && rng.Intn(6) == 0 {
				t.ExtraDir = true
			}
			if o.PostBuild && rng.Intn(4) == 0 {
				t.PostBuild = true
			}
			if rng.Intn(5) == 0 {
				t.Env = map[string]string{"VAR_A": pick(rng, []string{"1", "two", "x y"})}
			}
			if rng.Intn(8) == 0 {
				t.Binary = true
			}
			if rng.Intn(4) == 0 {
				t.Labels = []string{pick(rng, []string{"l1", "l2", "manual_x"})}
			}
			if o.Tools && rng.Intn(6) == 0 && len(t.SrcLabels) == 0 {
				t.IsTool = true
				t.Outs = []string{fmt.Sprintf("tool%d.sh", i)}
				if o.AbsorbingTools {
					t.Op = pick(rng, []string{"const", "wc", "head", "names"})
					if len(t.SrcFiles) == 0 {
						src := fmt.Sprintf("toolsrc%d.txt", i)
						t.SrcFiles = []string{src}
						r.Files[filepath.Join(t.Pkg, src)] = pick(rng, words) + "0"
					}
				}
				t.DirOut, t.ExtraDir, t.Env, t.Binary, t.PostBuild = "", false, nil, false, false
			}
			if !t.IsTool && o.Tools {
				for _, prev := range r.Targets {
					if prev.IsTool && rng.Intn(2) == 0 {
						t.Tool = prev.Label()
						break
					}
				}
			}
			if o.Sleep > 0 {
				t.SleepMS = rng.Intn(o.Sleep + 1)
			}
			// extra (non-source) deps
			for _, prev := range r.Targets {
				odds := 8
				if o.FilegroupDeps && prev.Kind == "filegroup" && len(prev.Deps) > 0 {
					odds = 2
				}
				if !prev.IsTool && rng.Intn(odds) == 0 && !contains(t.SrcLabels, prev.Label()) {
					t.Deps = append(t.Deps, prev.Label())
				}
			}
		case "filegroup":
			if o.FilegroupDeps {
				for _, prev := range r.Targets {
					if prev.Kind == "genrule" && !prev.IsTool && len(t.Deps) < 2 && rng.Intn(3) == 0 && !contains(t.SrcLabels, prev.Label()) {
						t.Deps = append(t.Deps, prev.Label())
					}
				}
			}
		case "text_file":
			t.Content = pick(rng, words) + fmt.Sprint(rng.Intn(5))
			t.Outs = []string{fmt.Sprintf("tf%d.txt", i)}
		}
		r.Targets = append(r.Targets, t)
	}
	return r
}

func contains(ss []string, s string) bool {
	for _, x := range ss {
		if x == s {
			return true
		}
	}
	return false
}

// Valid reports whether the state is well-formed for Please: no filegroup declares one output twice.
func (r *Repo) Valid() bool {
	for _, t := range r.Targets {
		if t.Kind != "filegroup" {
			continue
		}
		seen := map[string]bool{}
		for _, p := range r.OutputRoots(t) {
			if seen[p] {
				return false
			}
			seen[p] = true
		}
	}
	return true
}

// Closure returns the labels of every target reachable from label through sources, deps and tools
// (including label itself when it exists).
func (r *Repo) Closure(label string) map[string]bool {
	seen := map[string]bool{}
	var walk func(l string)
	walk = func(l string) {
		if seen[l] {
			return
		}
		t := r.Target(l)
		if t == nil {
			return
		}
		seen[l] = true
		for _, i := range t.Inputs() {
			walk(i)
		}
	}
	walk(label)
	return seen
}

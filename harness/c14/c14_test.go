// C14 — cache cleaning evicts only whole, unused entries and meets its bound.
//
// Monitor: the real dirCache.clean (through cache.VerifNewDirCache + Clean(high, low)) on generated cache
// states. A state is populated by *another* cache instance (so its entries are unmarked, as if written by
// an earlier plz process): 0-40 entries under a few targets, sizes 1 B-200 KiB, sha1- and sha256-length
// keys, access times from a minute to 60 days (os.Chtimes), stray non-entry files and "<key>=" leftovers.
// The instance under test then stores new entries, re-stores and retrieves some existing ones (these are
// the protected ones) and Clean runs with water marks at, just below and just above the interesting sizes.
// Oracle: per-entry tree snapshots before/after — (1) every protected entry is intact, (2) every other entry
// is either intact or gone entirely, (3) when cleaning is certainly triggered (sum of unprotected sizes,
// same size definition as the code, above the high-water mark): the unprotected survivors sum to less than
// the low-water mark or none survives. Eviction order is not asserted.
// Concurrent variant (child process with VERIF_HOOK_DELAY): a Store is held at dircache.store.beforeRename
// while Clean(1, 0) runs to completion; afterwards the stored entry must exist and be retrievable.
package c14

import (
	"encoding/hex"
	"encoding/json"
	"fmt"
	"math/rand"
	"os"
	"path/filepath"
	"sort"
	"strings"
	"sync"
	"testing"
	"time"

	"github.com/thought-machine/please/src/cache"
	"github.com/thought-machine/please/src/core"

	"verifharness/cachelib"
	"verifharness/lib"
)

// An entry is one cache entry of a generated state.
type entry struct {
	Label    string `json:"label"`
	KeyHex   string `json:"key"`
	Size     int    `json:"payload_bytes"`
	AgeMin   int    `json:"age_minutes"`
	Real     bool   `json:"real"`             // stored through dirCache.Store (else fabricated bytes at the entry's path)
	Mark     string `json:"mark,omitempty"`   // "", "retrieved", "restored", "stored-new"
	path     string // absolute path of the entry in the cache
	codeSize uint64 // size by the cleaner's own definition (sum of Size() of every node, directories included)
	before   lib.Snapshot
}

type state struct {
	Compress bool    `json:"compress"`
	Entries  []entry `json:"entries"`
	Strays   int     `json:"stray_files"`
	High     uint64  `json:"high_water_mark"`
	Low      uint64  `json:"low_water_mark"`
	HighRule string  `json:"high_rule"`
	LowRule  string  `json:"low_rule"`
}

func modeName(compress bool) string {
	if compress {
		return "compressed"
	}
	return "uncompressed"
}

// codeSize replicates findSize in dir_cache.go: the sum of Size() over every node below (and including) path.
func codeSize(path string) uint64 {
	var n uint64
	filepath.Walk(path, func(_ string, info os.FileInfo, err error) error {
		if err == nil {
			n += uint64(info.Size())
		}
		return nil
	})
	return n
}

func snap(path string) lib.Snapshot {
	s, err := lib.SnapshotTree(path, lib.SnapOpts{})
	if err != nil {
		return nil
	}
	return s
}

func exists(path string) bool {
	_, err := os.Lstat(path)
	return err == nil
}

func payload(rng *rand.Rand, n int) string {
	b := make([]byte, n)
	rng.Read(b)
	if n > 0 && (b[0] == '#' || b[0] == '-') {
		b[0] = 'x'
	}
	return string(b)
}

func genSize(rng *rand.Rand) int {
	switch rng.Intn(6) {
	case 0:
		return 1
	case 1:
		return 1 + rng.Intn(100)
	case 2:
		return 50000 + rng.Intn(150000)
	default:
		return 500 + rng.Intn(8000)
	}
}

// outSetOf builds the outputs of an entry: one file, or a directory with a few files (so that a partial
// removal of an entry is observable).
func outSetOf(rng *rand.Rand, size int) cachelib.OutSet {
	if rng.Intn(2) == 0 || size < 4 {
		return cachelib.OutSet{Outs: []string{"out.bin"}, Files: map[string]string{"out.bin": payload(rng, size)}}
	}
	q := size / 4
	return cachelib.OutSet{Outs: []string{"d", "f"}, Files: map[string]string{
		"f": payload(rng, q), "d/a": payload(rng, q), "d/sub/b": payload(rng, q), "d/sub/c": payload(rng, size-3*q), "d/l": "->a"}}
}

type world struct {
	root string
	mu   sync.Mutex
	seq  int
}

// runState builds one cache state, runs Clean and checks it. It returns the materialised state.
func runState(r *lib.Run, w *world, stream string, idx int, rng *rand.Rand) {
	compress := idx%2 == 1
	mode := modeName(compress)
	cdir := filepath.Join(w.root, fmt.Sprintf(".cache-%s-%d", stream, idx))
	pkg := fmt.Sprintf("%s%d", stream, idx)
	st := state{Compress: compress}
	other := cache.VerifNewDirCache(cachelib.DirConfig(cdir, compress)) // the "earlier process"
	under := cache.VerifNewDirCache(cachelib.DirConfig(cdir, compress)) // the instance under test

	ntargets := 1 + rng.Intn(3)
	targets := make([]*core.BuildTarget, ntargets)
	for i := range targets {
		targets[i] = cachelib.Target(fmt.Sprintf("//%s/p%d:t%d", pkg, i%2, i))
	}
	n := []int{0, 1, 2, 3, 5, 8, 12, 20, 40}[rng.Intn(9)]
	sets := map[string]cachelib.OutSet{}
	store := func(c *cache.VerifDirCache, e *entry, tgt *core.BuildTarget) bool {
		set, ok := sets[e.KeyHex]
		if !ok {
			set = outSetOf(rng, e.Size)
			sets[e.KeyHex] = set
		}
		// One target's out directory is shared by all its keys; cases run their own packages, and a
		// state is built sequentially, so materialise-then-store is safe.
		if err := cachelib.Materialize(cachelib.OutDir(w.root, tgt), set); err != nil {
			return false
		}
		key, _ := hex.DecodeString(e.KeyHex)
		c.Store(tgt, key, set.Outs)
		return true
	}
	byLabel := map[string]*core.BuildTarget{}
	for _, t := range targets {
		byLabel[t.Label.String()] = t
	}
	for i := 0; i < n; i++ {
		tgt := targets[rng.Intn(ntargets)]
		klen := 20
		if rng.Intn(3) == 0 {
			klen = 32
		}
		e := entry{Label: tgt.Label.String(), KeyHex: hex.EncodeToString(cachelib.Key(fmt.Sprint(pkg, i), klen)), Size: genSize(rng),
			AgeMin: []int{1, 5, 9, 11, 60, 600, 1440, 10000, 86400}[rng.Intn(9)]}
		key, _ := hex.DecodeString(e.KeyHex)
		e.path = other.Path(tgt, key)
		// Compressed entries are mostly fabricated (the cleaner never looks inside; gzip is very slow under
		// the race detector); uncompressed ones are mostly real.
		e.Real = (compress && rng.Intn(6) == 0) || (!compress && rng.Intn(5) != 0)
		if e.Real {
			if !store(other, &e, tgt) {
				r.Inconclusive("cannot materialise an entry")
				return
			}
		} else if compress {
			os.MkdirAll(filepath.Dir(e.path), 0o755)
			os.WriteFile(e.path, []byte(payload(rng, e.Size)), 0o644)
		} else {
			lib.WriteTree(e.path, map[string]string{"out.bin": payload(rng, e.Size/2), "d/x": payload(rng, e.Size-e.Size/2), "d/e/": ""})
		}
		if !exists(e.path) {
			r.Inconclusive("populating store left no entry at " + e.path)
			return
		}
		st.Entries = append(st.Entries, e)
	}
	// Stray things that are not entries, and leftovers of interrupted stores / cleans.
	strays := map[string]string{}
	if rng.Intn(2) == 0 {
		strays["README"] = "not an entry"
		strays[pkg+"/notes.txt"] = "not an entry"
		strays[pkg+"/p0/t0/short="] = "a file with a short name"
		strays[pkg+"/p0/t0/"+strings.Repeat("k", 27)+"=x"] = "30 characters"
		if compress {
			strays[pkg+"/p0/t0/"+strings.Repeat("d", 27)+"=/inner.tar.gz"] = "directory in a compressed cache"
		} else {
			strays[pkg+"/p0/t0/"+strings.Repeat("f", 27)+"="] = "file with an entry-like name in an uncompressed cache"
		}
		lib.WriteTree(cdir, strays)
	}
	st.Strays = len(strays)
	straySnap := map[string]lib.Snapshot{}
	for p := range strays {
		straySnap[p] = snap(filepath.Join(cdir, p))
	}
	var leftovers []string
	if len(st.Entries) > 0 && rng.Intn(3) == 0 {
		e := st.Entries[rng.Intn(len(st.Entries))]
		lo := e.path + "="
		if compress {
			lo = strings.TrimSuffix(e.path, ".tar.gz") + "=.tar.gz"
			os.WriteFile(lo, []byte(payload(rng, 300)), 0o644)
		} else {
			lib.WriteTree(lo, map[string]string{"partial": payload(rng, 300)})
		}
		leftovers = append(leftovers, lo)
	}

	// The instance under test touches some entries (these become protected) and adds new ones.
	for i := range st.Entries {
		e := &st.Entries[i]
		tgt := byLabel[e.Label]
		key, _ := hex.DecodeString(e.KeyHex)
		switch k := rng.Intn(10); {
		case k == 0 && e.Real:
			set := sets[e.KeyHex]
			cachelib.Wipe(cachelib.OutDir(w.root, tgt))
			if !under.Retrieve(tgt, key, set.Outs) {
				r.Violation("retrieve-miss-before-clean/"+mode, "Retrieve of an entry stored by another instance missed", map[string]any{"entry": e}, idx)
				return
			}
			e.Mark = "retrieved"
		case k == 1:
			// storing the same key again (as a rebuild would)
			e.Real = true
			delete(sets, e.KeyHex)
			store(under, e, tgt)
			e.Mark = "restored"
		}
	}
	for i, nnew := 0, rng.Intn(4); i < nnew; i++ {
		tgt := targets[rng.Intn(ntargets)]
		e := entry{Label: tgt.Label.String(), KeyHex: hex.EncodeToString(cachelib.Key(fmt.Sprint(pkg, "new", i), 20)), Size: genSize(rng), Real: true, Mark: "stored-new"}
		key, _ := hex.DecodeString(e.KeyHex)
		e.path = under.Path(tgt, key)
		store(under, &e, tgt)
		st.Entries = append(st.Entries, e)
	}

	// Pre-clean bookkeeping: snapshots, sizes by the code's definition, then access times.
	var unprot, prot uint64
	var sizes []uint64
	for i := range st.Entries {
		e := &st.Entries[i]
		e.before = snap(e.path)
		e.codeSize = codeSize(e.path)
		if e.before == nil {
			r.Violation("entry-missing-before-clean/"+mode, "an entry stored before cleaning is not there", map[string]any{"entry": e}, idx)
			return
		}
		if e.Mark == "" {
			unprot += e.codeSize
			sizes = append(sizes, e.codeSize)
		} else {
			prot += e.codeSize
			if !under.IsMarked(e.path) {
				r.Obs("touched_entries_not_marked", 1)
			}
		}
	}
	now := time.Now()
	for _, e := range st.Entries {
		if e.Mark != "stored-new" {
			at := now.Add(-time.Duration(e.AgeMin) * time.Minute)
			os.Chtimes(e.path, at, at)
		}
	}
	sort.Slice(sizes, func(i, j int) bool { return sizes[i] < sizes[j] })
	smin := uint64(1)
	if len(sizes) > 0 {
		smin = sizes[0]
	}
	highs := []struct {
		name string
		v    uint64
	}{{"1", 1}, {"U/2", unprot / 2}, {"U-1", unprot - 1}, {"U", unprot}, {"U+1", unprot + 1}, {"U+P", unprot + prot}, {"U+P+1", unprot + prot + 1}, {"2(U+P)", 2 * (unprot + prot)}}
	if unprot == 0 {
		highs = highs[:1]
	}
	h := highs[rng.Intn(len(highs))]
	lows := []struct {
		name string
		v    uint64
	}{{"0", 0}, {"1", 1}, {"smallest", smin}, {"smallest+1", smin + 1}, {"U/3", unprot / 3}, {"U/2", unprot / 2}, {"U-1", unprot - 1}, {"P", prot}, {"P+1", prot + 1}, {"high-1", h.v - 1}, {"high", h.v}}
	l := lows[rng.Intn(len(lows))]
	if unprot == 0 && (l.name == "U-1") {
		l = lows[0]
	}
	st.High, st.Low, st.HighRule, st.LowRule = h.v, l.v, h.name, l.name

	ret := under.Clean(st.High, st.Low)
	r.Obs("clean_runs", 1)

	// Oracle.
	triggered := unprot > st.High
	var survivors, survivorsFree uint64
	nsurv, nsurvFree, ngone, nunprot := 0, 0, 0, 0
	hasLeftover := map[string]bool{}
	for _, lo := range leftovers {
		hasLeftover[lo] = true
	}
	wit := func(extra map[string]any) map[string]any {
		m := map[string]any{"state": st, "returned_total": ret, "unprotected_bytes_before": unprot, "protected_bytes_before": prot}
		for k, v := range extra {
			m[k] = v
		}
		return m
	}
	for i := range st.Entries {
		e := &st.Entries[i]
		after := snap(e.path)
		if e.Mark != "" {
			r.Obs("protected_entries_checked", 1)
			if after == nil {
				r.Violation(fmt.Sprintf("protected-entry-removed/%s/%s", mode, e.Mark), fmt.Sprintf("Clean(%d,%d) removed an entry that this cache instance %s", st.High, st.Low, e.Mark), wit(map[string]any{"entry": e}), idx)
			} else if d := lib.Diff(e.before, after); len(d) > 0 {
				r.Violation(fmt.Sprintf("protected-entry-altered/%s/%s", mode, e.Mark), "Clean altered a protected entry: "+strings.Join(d, "; "), wit(map[string]any{"entry": e}), idx)
			}
			continue
		}
		nunprot++
		switch {
		case after == nil:
			ngone++
		case len(lib.Diff(e.before, after)) > 0:
			r.Violation("partial-removal/"+mode, "Clean removed part of an entry: "+strings.Join(lib.Diff(e.before, after), "; "), wit(map[string]any{"entry": e}), idx)
			nsurv++
			survivors += e.codeSize
		default:
			nsurv++
			survivors += e.codeSize
		}
		if after != nil && !hasLeftover[e.path+"="] {
			nsurvFree++
			survivorsFree += e.codeSize
		}
	}
	r.Obs("entries_evicted", int64(ngone))
	r.Obs("unprotected_entries_surviving", int64(nsurv))
	if triggered {
		r.Obs("clean_runs_certainly_triggered", 1)
		if nsurv > 0 && survivors >= st.Low && (nsurvFree == 0 || survivorsFree < st.Low) {
			// Only entries whose "<key>=" name is occupied by a leftover directory keep the cache over the mark.
			r.Violation(fmt.Sprintf("bound-not-met/%s/entry-beside-leftover-temp-dir", mode),
				fmt.Sprintf("cleaning was triggered (unprotected %d > high %d) but %d unprotected entries totalling %d >= low %d survive; the survivors that matter have a leftover '<key>=' directory next to them", unprot, st.High, nsurv, survivors, st.Low),
				wit(map[string]any{"surviving_unprotected_bytes": survivors, "surviving_unprotected_entries": nsurv, "leftovers": leftovers}), idx)
		} else if nsurv > 0 && survivors >= st.Low {
			r.Violation(fmt.Sprintf("bound-not-met/%s/high=%s,low=%s", mode, st.HighRule, st.LowRule),
				fmt.Sprintf("cleaning was triggered (unprotected %d > high %d) but %d unprotected entries totalling %d >= low %d survive", unprot, st.High, nsurv, survivors, st.Low),
				wit(map[string]any{"surviving_unprotected_bytes": survivors, "surviving_unprotected_entries": nsurv}), idx)
		}
		if nsurv == 0 && nunprot > 0 {
			r.Obs("clean_runs_everything_unprotected_evicted", 1)
		} else if ngone > 0 {
			r.Obs("clean_runs_partial_eviction", 1)
		}
	} else if ngone > 0 {
		r.Obs("clean_runs_evicting_without_certain_trigger", 1)
	}
	// Not asserted (the statement is about entries): stray files and leftovers; observed only.
	for p, s := range straySnap {
		if after := snap(filepath.Join(cdir, p)); after == nil || len(lib.Diff(s, after)) > 0 {
			r.ObsDistinct("stray_paths_touched", filepath.Base(p))
		}
	}
	for _, lo := range leftovers {
		if !exists(lo) {
			r.Obs("leftovers_cleaned", 1)
		} else {
			r.Obs("leftovers_surviving", 1)
		}
	}
	nontrivial := nunprot >= 2 && (ngone > 0 || triggered)
	r.Case(lib.JSON(st), nontrivial)
	r.ObsDistinct("water_mark_rules", st.HighRule+"/"+st.LowRule)
	if r.WantSample() && nontrivial && idx%9 == 0 {
		r.Sample(map[string]any{"mode": mode, "entries": len(st.Entries), "unprotected_bytes": unprot, "protected_bytes": prot, "high": st.High, "low": st.Low,
			"rules": st.HighRule + "/" + st.LowRule, "evicted": ngone, "unprotected_surviving": nsurv, "surviving_bytes": survivors, "returned_total": ret})
	}
	lib.RemoveAll(cdir)
	for _, t := range targets {
		lib.RemoveAll(cachelib.OutDir(w.root, t))
	}
}

// ---------------------------------------------------------------------------------------------
// concurrent variant (child process, hooks configured through the environment)

type concJob struct {
	Root   string `json:"root"`
	Rounds int    `json:"rounds"`
	Seed   int64  `json:"seed"`
	Result string `json:"result"`
	Held   bool   `json:"held"` // Clean is started once the store's temporary entry is visible
}

type concFinding struct {
	Key     string         `json:"key"`
	What    string         `json:"what"`
	Witness map[string]any `json:"witness"`
	Round   int            `json:"round"`
}

type concResult struct {
	Rounds        int           `json:"rounds"`
	CleanSawTemp  int           `json:"clean_started_while_temp_visible"`
	StoresDone    int           `json:"stores"`
	EvictedOthers int           `json:"unprotected_evicted"`
	RetrievedMid  int           `json:"retrieved_during_clean"`
	RetrieveLate  int           `json:"retrieve_after_eviction"`
	Findings      []concFinding `json:"findings"`
}

func TestC14Child(t *testing.T) {
	if !lib.IsChild() {
		return
	}
	cachelib.Quiet()
	var j concJob
	b, err := os.ReadFile(os.Getenv("VERIF_C14_JOB"))
	if err != nil || json.Unmarshal(b, &j) != nil {
		fmt.Println("cannot read job")
		os.Exit(3)
	}
	cachelib.Enter(j.Root)
	res := concResult{}
	add := func(round int, key, what string, w map[string]any) {
		if len(res.Findings) < 20 {
			res.Findings = append(res.Findings, concFinding{Key: key, What: what, Witness: w, Round: round})
		}
	}
	for round := 0; round < j.Rounds; round++ {
		rng := rand.New(rand.NewSource(j.Seed + int64(round)*7919))
		compress := round%2 == 1
		mode := modeName(compress)
		over := (round/2)%2 == 1 // the key being stored already has an (unprotected) entry
		cdir := filepath.Join(j.Root, fmt.Sprintf(".cache-%d", round))
		other := cache.VerifNewDirCache(cachelib.DirConfig(cdir, compress))
		under := cache.VerifNewDirCache(cachelib.DirConfig(cdir, compress))
		tgt := cachelib.Target(fmt.Sprintf("//cc%d:t", round))
		// a few old unprotected entries
		type old struct {
			path   string
			before lib.Snapshot
		}
		var olds []old
		for i := 0; i < 1+rng.Intn(4); i++ {
			key := cachelib.Key(fmt.Sprint("old", round, i), 20)
			p := other.Path(tgt, key)
			if compress {
				os.MkdirAll(filepath.Dir(p), 0o755)
				os.WriteFile(p, []byte(payload(rng, 100+rng.Intn(3000))), 0o644)
			} else {
				lib.WriteTree(p, map[string]string{"out.bin": payload(rng, 100+rng.Intn(3000)), "d/x": "x"})
			}
			olds = append(olds, old{p, snap(p)})
		}
		// a protected entry (stored earlier by the instance under test)
		set0 := outSetOf(rng, 2000)
		key0 := cachelib.Key(fmt.Sprint("prot", round), 20)
		cachelib.Materialize(cachelib.OutDir(j.Root, tgt), set0)
		under.Store(tgt, key0, set0.Outs)
		prot := snap(under.Path(tgt, key0))

		// an entry of another process ("victim") that this process retrieves while Clean is evicting: it is
		// not marked when the cleaner walks the cache, becomes marked by the Retrieve, and must survive.
		// The other unprotected entries are aged so that the cleaner (LRU) gets to them first.
		tgtV := cachelib.Target(fmt.Sprintf("//cv%d:t", round))
		setV := outSetOf(rng, 1500)
		keyV := cachelib.Key(fmt.Sprint("victim", round), 20)
		cachelib.Materialize(cachelib.OutDir(j.Root, tgtV), setV)
		other.Store(tgtV, keyV, setV.Outs)
		victim := other.Path(tgtV, keyV)
		victimBefore := snap(victim)
		aged := time.Now().Add(-30 * 24 * time.Hour)
		for _, o := range olds {
			os.Chtimes(o.path, aged, aged)
		}

		set := outSetOf(rng, 1000+rng.Intn(20000))
		key := cachelib.Key(fmt.Sprint("new", round), 20)
		cachelib.Materialize(cachelib.OutDir(j.Root, tgt), set)
		want, _ := cachelib.Snapshot(cachelib.OutDir(j.Root, tgt))
		final := under.Path(tgt, key)
		if over {
			other.Store(tgt, key, set.Outs)
		}
		temp := final + "="
		if compress {
			temp = strings.TrimSuffix(final, ".tar.gz") + "=.tar.gz"
		}
		var wg sync.WaitGroup
		wg.Add(3)
		go func() {
			defer wg.Done()
			under.Store(tgt, key, set.Outs)
			res.StoresDone++
		}()
		retrievedVictim := false
		go func() {
			defer wg.Done()
			// wait until the cleaner has started evicting (one of the aged entries is gone), then retrieve
			started := false
			for spin := 0; spin < 400000 && !started; spin++ {
				for _, o := range olds {
					if !exists(o.path) {
						started = true
					}
				}
				if !started && spin > 1000 {
					time.Sleep(20 * time.Microsecond)
				}
			}
			retrievedVictim = under.Retrieve(tgtV, keyV, setV.Outs)
		}()
		sawTemp := false
		go func() {
			defer wg.Done()
			if j.Held {
				for spin := 0; spin < 200000 && !sawTemp; spin++ {
					if exists(temp) {
						sawTemp = true
					} else if spin > 1000 {
						time.Sleep(20 * time.Microsecond)
					}
				}
			}
			under.Clean(1, 0)
		}()
		wg.Wait()
		if sawTemp {
			res.CleanSawTemp++
		}
		w := map[string]any{"mode": mode, "existing_unprotected_entry_of_same_key": over, "clean": "Clean(1,0) running while Store sleeps at dircache.store.beforeRename", "clean_started_while_temp_visible": sawTemp,
			"temp_name": filepath.Base(temp), "entry_name": filepath.Base(final), "set": set.Witness()}
		state := map[bool]string{true: "over-existing", false: "new-key"}[over]
		if !exists(final) {
			add(round, fmt.Sprintf("inflight-store-evicted/%s/%s", mode, state), "an entry stored by this process while Clean was running does not exist after both finished", w)
		} else {
			cachelib.Wipe(cachelib.OutDir(j.Root, tgt))
			third := cache.VerifNewDirCache(cachelib.DirConfig(cdir, compress))
			if !third.Retrieve(tgt, key, set.Outs) {
				add(round, fmt.Sprintf("inflight-store-unretrievable/%s/%s", mode, state), "an entry stored while Clean was running cannot be retrieved", w)
			} else if got, _ := cachelib.Snapshot(cachelib.OutDir(j.Root, tgt)); len(lib.Diff(want, got)) > 0 {
				w["diff"] = lib.Diff(want, got)
				add(round, fmt.Sprintf("inflight-store-damaged/%s/%s", mode, state), "an entry stored while Clean was running is retrieved incomplete", w)
			}
		}
		if retrievedVictim {
			// This process retrieved the entry (a hit) while Clean was running: Clean must not have removed it.
			res.RetrievedMid++
			if after := snap(victim); after == nil {
				add(round, "retrieved-during-clean-evicted/"+mode, "an entry retrieved by this process while Clean was running does not exist after both finished", w)
			} else if len(lib.Diff(victimBefore, after)) > 0 {
				add(round, "partial-removal/"+mode+"/retrieved-during-clean", "Clean removed part of an entry that this process retrieved while it was running", w)
			}
		} else {
			res.RetrieveLate++
		}
		if after := snap(under.Path(tgt, key0)); after == nil || len(lib.Diff(prot, after)) > 0 {
			add(round, "protected-entry-removed/"+mode+"/concurrent", "Clean removed or altered an entry stored earlier by this process while another Store was running", w)
		}
		for _, o := range olds {
			after := snap(o.path)
			if after == nil {
				res.EvictedOthers++
			} else if len(lib.Diff(o.before, after)) > 0 {
				add(round, "partial-removal/"+mode+"/concurrent", "Clean removed part of an entry", w)
			}
		}
		res.Rounds++
		lib.RemoveAll(cdir)
	}
	b, _ = json.Marshal(res)
	os.WriteFile(j.Result, b, 0o644)
}

func runConc(r *lib.Run, base string, idx int, rng *rand.Rand) {
	held := idx%2 == 0
	dir := filepath.Join(base, fmt.Sprintf("conc%d", idx))
	os.MkdirAll(dir, 0o755)
	j := concJob{Root: filepath.Join(dir, "root"), Rounds: r.Pick(24, 400), Seed: rng.Int63(), Result: filepath.Join(dir, "result.json"), Held: held}
	jp := filepath.Join(dir, "job.json")
	b, _ := json.Marshal(j)
	os.WriteFile(jp, b, 0o644)
	delay := fmt.Sprintf("VERIF_HOOK_DELAY=%d:1.0:120000:dircache.store.beforeRename", rng.Int63n(1<<30))
	if !held {
		delay = fmt.Sprintf("VERIF_HOOK_DELAY=%d:0.6:3000:dircache.*", rng.Int63n(1<<30))
	}
	res := lib.Child("TestC14Child", []string{"VERIF_C14_JOB=" + jp, delay, "GORACE=" + os.Getenv("GORACE") + " atexit_sleep_ms=0"}, 600*time.Second)
	var cr concResult
	if b, err := os.ReadFile(j.Result); err != nil || json.Unmarshal(b, &cr) != nil {
		r.Inconclusive(fmt.Sprintf("concurrent child %d gave no result (exit %d): %s", idx, res.Exit, tailStr(res.Stderr)))
		return
	}
	r.Obs("concurrent_rounds", int64(cr.Rounds))
	r.Obs("concurrent_clean_started_while_store_temp_visible", int64(cr.CleanSawTemp))
	r.Obs("concurrent_stores", int64(cr.StoresDone))
	r.Obs("concurrent_unprotected_evicted", int64(cr.EvictedOthers))
	r.Obs("concurrent_retrieved_during_clean", int64(cr.RetrievedMid))
	r.Obs("concurrent_retrieve_lost_race_to_eviction", int64(cr.RetrieveLate))
	r.Case(fmt.Sprintf("conc/%v/%d", held, j.Seed), cr.Rounds >= 2)
	for _, f := range cr.Findings {
		r.Violation(f.Key, f.What, f.Witness, idx)
	}
	if r.WantSample() {
		r.Sample(map[string]any{"kind": "concurrent", "held_at_beforeRename": held, "rounds": cr.Rounds, "clean_started_while_temp_visible": cr.CleanSawTemp, "unprotected_evicted": cr.EvictedOthers, "findings": len(cr.Findings)})
	}
}

func tailStr(s string) string {
	if len(s) > 500 {
		s = s[len(s)-500:]
	}
	return strings.ReplaceAll(s, "\n", " | ")
}

func TestC14(t *testing.T) {
	if lib.IsChild() {
		return
	}
	cachelib.Quiet()
	r := lib.Start("C14")
	defer lib.End(t, r)
	r.Rule = "one case = one generated cache state (0-40 entries under 1-3 targets, sizes 1B-200KiB, sha1/sha256 keys, ages 1min-60d, strays and '<key>=' leftovers, compressed or not) + the set of entries the instance under test retrieved/re-stored/stored + a (high,low) pair chosen from marks at/around the unprotected and protected sizes; distinct by the materialised state; non-trivial = >=2 unprotected entries and (something evicted or cleaning certainly triggered). Concurrent: one case = one child process of N Store||Clean rounds"
	r.Assumes = []string{
		"sizes are measured with the cleaner's own definition (sum of Size() of every node below an entry, directories included), before Clean",
		"the bound is asserted only when the unprotected entries alone exceed the high-water mark (then cleaning is triggered whatever the recorded sizes of protected entries are)",
		"eviction order, stray files and leftovers are observed, not asserted",
	}
	base := r.Scratch()
	root := filepath.Join(base, "root")
	cachelib.Enter(root)
	w := &world{root: root}
	t0 := time.Now()
	r.ForEach("states", r.Pick(300, 20000), 8, func(i int, rng *rand.Rand) { runState(r, w, "s", i, rng) })
	t1 := time.Now()
	r.ForEach("concurrent", r.Pick(4, 16), 4, func(i int, rng *rand.Rand) { runConc(r, base, i, rng) })
	r.Extra("stream_wall_s", map[string]float64{"states": t1.Sub(t0).Seconds(), "concurrent": time.Since(t1).Seconds()})
	r.CollectRaces(lib.OwnRaceLogPrefix(), []string{"please/src/cache."})
	r.RequireObserved("clean_runs_certainly_triggered", "entries_evicted", "protected_entries_checked", "concurrent_rounds", "concurrent_clean_started_while_store_temp_visible")
}

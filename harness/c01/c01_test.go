// C01 — incremental builds produce exactly what a clean build produces.
// Monitor: generated repositories x generated edit histories, the real plz binary after every step,
// compared (tree snapshot of the requested targets' declared outputs) with a from-empty, cache-less
// build of the same sources at the same absolute path.
package c01

import (
	"fmt"
	"math/rand"
	"path/filepath"
	"strings"
	"testing"
	"time"

	"verifharness/e2e"
	"verifharness/lib"
)

type stepRecord struct {
	Step    int      `json:"step"`
	Edit    e2e.Edit `json:"edit"`
	Request []string `json:"request"`
	Started []string `json:"started"`
}

func TestC01(t *testing.T) {
	r := lib.Start("C01")
	defer lib.End(t, r)
	r.Rule = "case = one build step of a generated edit history (3-8 edits over a generated repository of genrule/filegroup/text_file targets with file, directory and symlink outputs, directory sources, tools, env); distinct by (repository state, request); non-trivial = the incremental build executed at least one but not every command"
	r.Assumes = []string{"the clean-build oracle is the same plz binary building the same sources from an empty plz-out at the same absolute path with the cache disabled", "generated commands are deterministic functions of their declared inputs"}
	bin := lib.PlzBin(false)
	n := r.Pick(40, 1500)
	r.ForEach("history", n, 8, func(i int, rng *rand.Rand) {
		sb := e2e.NewSandbox(filepath.Join(r.Scratch(), fmt.Sprintf("h%d", i)))
		defer lib.RemoveAll(sb.Work)
		state := e2e.Generate(rng, e2e.GenOpts{Tools: true, DirOuts: true, PostBuild: true})
		state.VLog = sb.VLog
		if err := state.Materialize(sb.Repo); err != nil {
			panic(err)
		}
		history := []*e2e.Repo{state}
		var trail []stepRecord
		steps := 3 + rng.Intn(6)
		for step := 0; step <= steps; step++ {
			edit := e2e.Edit{Kind: "initial"}
			if step > 0 {
				next, e := e2e.ApplyRandomEdit(rng, state, e2e.EditOpts{AllowRevert: true, History: history, AllowBreak: true, PreferFilegroupSrc: true})
				if err := next.Sync(sb.Repo, state); err != nil {
					panic(err)
				}
				state, edit = next, e
				history = append(history, state)
			}
			// what to request
			request := []string{"//..."}
			want := state.Targets
			if rng.Intn(4) == 0 {
				t := state.Targets[rng.Intn(len(state.Targets))]
				request = []string{t.Label()}
				want = []*e2e.Target{t}
			}
			args := append([]string{"build", "-n", fmt.Sprint(1 + rng.Intn(8))}, request...)
			sb.ResetProbe()
			res := sb.Plz(bin, nil, 120*time.Second, args...)
			probe := sb.ReadProbe()
			if res.Exit == 0 && rng.Intn(3) == 0 {
				// the same invocation again on the untouched tree (hashes are now read back from what the first one
				// recorded rather than computed); what it leaves behind is what gets compared below
				if again := sb.Plz(bin, nil, 120*time.Second, args...); again.Exit != 0 {
					res = again
				}
				r.Obs("repeated_invocations", 1)
			}
			trail = append(trail, stepRecord{step, edit, request, probe.Started})
			ncmd := 0
			for _, t := range state.Targets {
				if t.HasCommand() {
					ncmd++
				}
			}
			r.Case(lib.JSON(state.AllFiles())+strings.Join(request, ","), len(probe.Started) > 0 && len(probe.Started) < ncmd)
			r.Obs("build_steps", 1)
			r.Obs("actions_executed", int64(len(probe.Started)))
			r.ObsDistinct("edit_kinds", edit.Kind)
			clean := sb.CleanBuild(bin, state, nil, args, want)
			if res.TimedOut || clean.Result.TimedOut {
				r.Inconclusive(fmt.Sprintf("history %d step %d: plz timed out", i, step))
				return
			}
			if broken := state.Broken(); broken != nil && clean.Result.Exit != 0 {
				// A deliberately failing command (break-late): the clean build fails, so must the incremental one.
				// The next step repairs it and builds where the failed attempt left its files behind.
				r.Obs("deliberately_failing_steps", 1)
				if res.Exit == 0 {
					r.Violation("incremental-build-succeeds-where-clean-fails/"+edit.Kind, fmt.Sprintf("the command of %s fails (clean build exits %d) but the incremental build exits 0", broken.Label(), clean.Result.Exit), map[string]any{"trail": trail, "state": state, "request": request}, i)
					return
				}
				continue
			}
			if clean.Result.Exit != 0 {
				// The generator produced something that does not build even from scratch: not a verdict on C01.
				r.Obs("generator_invalid_states", 1)
				r.Inconclusive(fmt.Sprintf("history %d step %d (%s): clean build fails: %s", i, step, edit.Kind, lib.Tail(clean.Result.Stderr, 300)))
				return
			}
			wit := map[string]any{"trail": trail, "state": state, "request": request}
			if res.Exit != 0 {
				wit["stderr"] = lib.Tail(res.Stderr, 1500)
				r.Violation("incremental-build-fails/"+edit.Kind, fmt.Sprintf("incremental build exits %d where the clean build succeeds, after edit %s (%s)", res.Exit, edit.Kind, edit.Detail), wit, i)
				return
			}
			got := sb.SnapshotOutputs(state, want)
			if d := lib.Diff(clean.Snapshot, got); len(d) > 0 {
				wit["diff"] = d
				kind := strings.SplitN(d[0], " ", 2)[0]
				r.Violation("stale-output/"+edit.Kind+"/"+kind, fmt.Sprintf("after edit %s (%s) incremental outputs differ from clean build: %s", edit.Kind, edit.Detail, strings.Join(d, "; ")), wit, i)
				return
			}
			if r.WantSample() && step == steps {
				r.Sample(map[string]any{"trail": trail, "targets": len(state.Targets)})
			}
		}
	})
	r.RequireObserved("build_steps", "actions_executed")
}

// C09 — path hashes distinguish every difference in a file tree.
// Monitor: the real fs.PathHasher (xattrs off, fresh hasher per tree, sha1 and sha256) is run on
// (1) every tree of a small exhaustive scope, all pairs compared through a hash->tree multimap, and
// (2) seeded larger hostile trees paired with a near-duplicate that differs by one elementary
// difference. Equal hashes for different canonical listings refute the property; the witness key
// names the kind of difference between the two colliding trees.
package c09

import (
	"crypto/sha1"
	"crypto/sha256"
	"encoding/hex"
	"encoding/json"
	"fmt"
	"hash"
	"math/rand"
	"os"
	"path/filepath"
	"sort"
	"strings"
	"sync"
	"testing"
	"time"

	"github.com/thought-machine/please/src/fs"

	ht "verifharness/hashtreelib"
	"verifharness/iplib"
	"verifharness/lib"
)

type algo struct {
	name string
	new  func() hash.Hash
}

var algos = []algo{{"sha1", sha1.New}, {"sha256", sha256.New}}

type found struct {
	key   string
	a, b  ht.Tree
	algos map[string]bool
	hash  string
	idx   int
	src   string
	size  int
	count int
}

type mon struct {
	r     *lib.Run
	root  string
	slots chan string
	mu    sync.Mutex
	best  map[string]*found
}

// hashTree materialises t at <slot>/p and hashes that path with a fresh PathHasher per algorithm.
// Even case indices pass the path relative to the repo root, odd ones as an absolute path below it.
func (m *mon) hashTree(slot string, t ht.Tree, idx int) ([]string, error) {
	rel := filepath.Join(slot, "p")
	lib.RemoveAll(rel)
	if err := ht.Write(rel, t); err != nil {
		m.r.FatalInconclusive(fmt.Sprintf("harness could not materialise %s: %v", t, err))
		return nil, err
	}
	arg := rel
	if idx%2 == 1 {
		arg = filepath.Join(m.root, rel)
	}
	out := make([]string, len(algos))
	for k, a := range algos {
		h := fs.NewPathHasher(m.root, false, a.new, a.name)
		b, err := h.Hash(arg, false, false, false)
		if err != nil {
			return nil, err
		}
		out[k] = hex.EncodeToString(b)
	}
	m.r.Obs("trees_hashed", 1)
	return out, nil
}

func (m *mon) withSlot(f func(slot string)) {
	s := <-m.slots
	defer func() { m.slots <- s }()
	f(s)
}

// record notes a collision under its key, keeping the smallest witness.
func (m *mon) record(key string, a, b ht.Tree, algoName, hash string, idx int, src string) {
	size := a.Size() + b.Size()
	if strings.HasPrefix(key, "entry-") {
		// a renamed or moved *empty* file is a weaker witness (empty files also collide with nothing at all)
		for _, e := range a {
			if e.K == ht.File && e.Len() == 0 {
				size += 100
			}
		}
	}
	m.mu.Lock()
	defer m.mu.Unlock()
	f := m.best[key]
	if f == nil || size < f.size {
		nf := &found{key: key, a: a, b: b, algos: map[string]bool{}, hash: hash, idx: idx, src: src, size: size}
		if f != nil {
			nf.count = f.count
		}
		m.best[key] = nf
		f = nf
	}
	if a.Canon() == f.a.Canon() && b.Canon() == f.b.Canon() {
		f.algos[algoName] = true
	}
	f.count++
}

func (m *mon) has(key string) bool {
	m.mu.Lock()
	defer m.mu.Unlock()
	return m.best[key] != nil
}

// checkPair hashes both trees and records a collision if the hashes agree. Returns whether they collided.
func (m *mon) checkPair(slot string, a, b ht.Tree, idx int, src string) bool {
	key := classify(a, b)
	ha, errA := m.hashTree(slot, a, idx)
	hb, errB := m.hashTree(slot, b, idx)
	m.r.Obs("pairs_compared", 1)
	m.r.ObsDistinct("difference_kinds_compared", key)
	if errA != nil || errB != nil {
		m.r.Obs("hash_errors", 1)
		m.r.ObsDistinct("hash_error_texts", fmt.Sprint(errA, errB))
		return false
	}
	hit := false
	for k := range algos {
		if ha[k] == hb[k] {
			hit = true
			m.record(key, a, b, algos[k].name, ha[k], idx, src)
		}
	}
	if hit {
		m.r.Obs("colliding_pairs", 1)
	}
	return hit
}

// collides re-checks a candidate pair during shrinking (no bookkeeping).
func (m *mon) collides(slot string, a, b ht.Tree, idx int) bool {
	ha, errA := m.hashTree(slot, a, idx)
	hb, errB := m.hashTree(slot, b, idx)
	if errA != nil || errB != nil {
		return false
	}
	for k := range algos {
		if ha[k] == hb[k] {
			return true
		}
	}
	return false
}

// shrink greedily removes entries common to both trees while the pair still collides under the same key.
func (m *mon) shrink(slot string, a, b ht.Tree, key string, idx int) (ht.Tree, ht.Tree) {
	for changed := true; changed; {
		changed = false
		paths := a.Paths()
		sort.Sort(sort.Reverse(sort.StringSlice(paths)))
		for _, p := range paths {
			if p == "." {
				continue
			}
			if _, ok := a[p]; !ok {
				continue
			}
			if _, ok := b[p]; !ok {
				continue
			}
			if a.Subtree(p).Canon() != b.Subtree(p).Canon() {
				continue
			}
			a2, b2 := a.Clone(), b.Clone()
			a2.RemoveSubtree(p)
			b2.RemoveSubtree(p)
			if classify(a2, b2) == key && m.collides(slot, a2, b2, idx) {
				a, b, changed = a2, b2, true
			}
		}
	}
	return a, b
}

// ---- classification of the difference between two trees ------------------------------------

type diffItem struct {
	path  string
	inA   bool
	inB   bool
	class string
}

func kindName(k string) string {
	switch k {
	case ht.File:
		return "file"
	case ht.Link:
		return "symlink"
	}
	return "dir"
}

func kindPair(a, b ht.Ent) string {
	ks := []string{kindName(a.K), kindName(b.K)}
	sort.Strings(ks)
	// fixed order: file before dir before symlink reads better
	if ks[0] == "dir" && ks[1] == "file" {
		ks[0], ks[1] = "file", "dir"
	}
	s := ks[0] + "-" + ks[1]
	// A file whose content starts with the byte Please writes for "a symlink was here" is its own class.
	for _, e := range []ht.Ent{a, b} {
		if e.K == ht.File && e.Big == nil && strings.HasPrefix(e.D, "\x02") {
			s += "/marker-byte-content"
		}
	}
	return s
}

func onlyDirs(t ht.Tree) bool {
	for _, e := range t {
		if e.K != ht.Dir {
			return false
		}
	}
	return true
}

func presenceClass(sub ht.Tree) string {
	r := sub["."]
	switch {
	case r.K == ht.Dir && onlyDirs(sub):
		return "empty-dir-presence"
	case r.K == ht.Dir:
		return "nonempty-dir-presence"
	case r.K == ht.Link:
		return "symlink-presence"
	case r.Len() == 0:
		return "empty-file-presence"
	}
	return "file-presence"
}

func contentClass(a, b ht.Ent) string {
	if a.Big != nil || b.Big != nil {
		if a.Big != nil && b.Big != nil && a.Big.Size == b.Big.Size && a.Big.Seed == b.Big.Seed {
			off := a.Big.Flip
			if off < 0 {
				off = b.Big.Flip
			}
			switch {
			case off < 4096:
				return "file-content/large-file-offset<4K"
			case off < 32768:
				return "file-content/large-file-offset<32K"
			case off < 1<<20:
				return "file-content/large-file-offset<1M"
			}
			return "file-content/large-file-offset>=1M"
		}
		return "file-content/large-file"
	}
	return "file-content"
}

// concat is the concatenation of all file contents in walk order; a large file is one opaque token.
func concat(t ht.Tree) string {
	var sb strings.Builder
	for _, p := range t.WalkOrder() {
		if e := t[p]; e.K == ht.File && e.Big == nil {
			sb.WriteString(e.D)
		} else if e.K == ht.File {
			fmt.Fprintf(&sb, "\x00<%d/%d/%d>\x00", e.Big.Size, e.Big.Seed, e.Big.Flip)
		}
	}
	return sb.String()
}

// classify names the kind of difference between two different trees. Elementary differences get
// one of a fixed set of names; anything else is "compound/<sorted set of the parts>".
func classify(a, b ht.Tree) string {
	ra, rb := a["."], b["."]
	if ra.K != rb.K {
		return "root-kind/" + kindPair(ra, rb)
	}
	if ra.K == ht.File {
		return "root-" + contentClass(ra, rb)
	}
	if ra.K == ht.Link {
		return "root-symlink-target"
	}
	var items []diffItem
	skip := func(p string) bool { // below an item already recorded
		for _, it := range items {
			if p != it.path && ht.Under(p, it.path) {
				return true
			}
		}
		return false
	}
	all := map[string]bool{}
	for p := range a {
		all[p] = true
	}
	for p := range b {
		all[p] = true
	}
	paths := make([]string, 0, len(all))
	for p := range all {
		paths = append(paths, p)
	}
	sort.Strings(paths) // parents before children
	for _, p := range paths {
		if p == "." || skip(p) {
			continue
		}
		ea, inA := a[p]
		eb, inB := b[p]
		switch {
		case inA && inB:
			if ea.Same(eb) {
				continue
			}
			it := diffItem{path: p, inA: true, inB: true}
			switch {
			case ea.K != eb.K:
				it.class = "kind/" + kindPair(ea, eb) // whatever hangs below either side belongs to this item
			case ea.K == ht.File:
				it.class = contentClass(ea, eb)
			default:
				it.class = "symlink-target"
			}
			items = append(items, it)
		case inA:
			items = append(items, diffItem{path: p, inA: true, class: presenceClass(a.Subtree(p))})
		default:
			items = append(items, diffItem{path: p, inB: true, class: presenceClass(b.Subtree(p))})
		}
	}
	if len(items) == 1 {
		return items[0].class
	}
	if len(items) == 2 {
		x, y := items[0], items[1]
		// one entry (with its subtree) present at different paths
		if x.inA != x.inB && y.inA != y.inB && x.inA != y.inA {
			var sx, sy ht.Tree
			if x.inA {
				sx, sy = a.Subtree(x.path), b.Subtree(y.path)
			} else {
				sx, sy = b.Subtree(x.path), a.Subtree(y.path)
			}
			if sx.Canon() == sy.Canon() {
				what := kindName(sx["."].K)
				switch {
				case ht.Parent(x.path) == ht.Parent(y.path):
					return "entry-name/" + what
				case ht.Base(x.path) == ht.Base(y.path):
					return "entry-position/" + what
				}
				return "compound/entry-name+entry-position/" + what
			}
		}
	}
	// several files changed but the concatenation in walk order is the same (large files count as opaque tokens)
	allFiles := true
	for _, it := range items {
		if !(it.inA && it.inB && strings.HasPrefix(it.class, "file-content")) {
			allFiles = false
		}
	}
	if allFiles && concat(a) == concat(b) {
		return "content-boundary"
	}
	// two files exchanged their contents (and the concatenation changed)
	if len(items) == 2 {
		x, y := items[0], items[1]
		if x.inA && x.inB && y.inA && y.inB && a[x.path].K == ht.File && a[y.path].K == ht.File &&
			b[x.path].K == ht.File && b[y.path].K == ht.File &&
			a[x.path].Same(b[y.path]) && a[y.path].Same(b[x.path]) {
			return "content-swap"
		}
	}
	set := map[string]bool{}
	for _, it := range items {
		set[it.class] = true
	}
	var cs []string
	for c := range set {
		cs = append(cs, c)
	}
	sort.Strings(cs)
	return "compound/" + strings.Join(cs, "+")
}

// ---- near-duplicate generation ---------------------------------------------------------------

var mutationNames = []string{
	"file-content", "big-flip", "rename", "move", "symlink-target", "kind-file-dir", "kind-file-symlink",
	"kind-dir-symlink", "add-empty-dir", "add-empty-file", "add-symlink", "add-file", "remove-entry",
	"content-boundary", "content-swap",
}

func pick(rng *rand.Rand, xs []string) string { return xs[rng.Intn(len(xs))] }

// mutate applies one elementary difference; ok=false if this tree offers no place for it.
func mutate(rng *rand.Rand, t ht.Tree, m string) (ht.Tree, bool) {
	n := t.Clone()
	files, links, dirs, ents := t.Of(ht.File), t.Of(ht.Link), t.Dirs(), t.Of("")
	switch m {
	case "file-content":
		var small []string
		for _, p := range files {
			if t[p].Big == nil {
				small = append(small, p)
			}
		}
		if len(small) == 0 {
			return nil, false
		}
		p := pick(rng, small)
		e := t[p]
		switch rng.Intn(4) {
		case 0: // append a byte
			e.D += pick(rng, []string{"a", "b", "\x00", "\n"})
		case 1: // drop the last byte
			if len(e.D) == 0 {
				return nil, false
			}
			e.D = e.D[:len(e.D)-1]
		case 2: // change one byte
			if len(e.D) == 0 {
				return nil, false
			}
			b := []byte(e.D)
			b[rng.Intn(len(b))] ^= 1
			e.D = string(b)
		default:
			e.D = pick(rng, ht.ContentPool)
		}
		n[p] = e
	case "big-flip":
		var bigs []string
		for _, p := range files {
			if t[p].Big != nil {
				bigs = append(bigs, p)
			}
		}
		if len(bigs) == 0 {
			return nil, false
		}
		p := pick(rng, bigs)
		e := t[p]
		nb := *e.Big
		// boundaries that a truncated or size-limited read would miss
		offs := []int{0, nb.Size - 1, nb.Size / 2, 4095, 4096, 32767, 32768, 65535, 65536, 1 << 20, rng.Intn(nb.Size)}
		o := offs[rng.Intn(len(offs))]
		if o >= nb.Size {
			o = nb.Size - 1
		}
		nb.Flip = o
		e.Big = &nb
		n[p] = e
	case "rename":
		if len(ents) == 0 {
			return nil, false
		}
		p := pick(rng, ents)
		nm := t.FreeName(rng, ht.Parent(p))
		if nm == "" {
			return nil, false
		}
		s := t.Subtree(p)
		n.RemoveSubtree(p)
		n.Graft(ht.Join(ht.Parent(p), nm), s)
	case "move":
		if len(ents) == 0 || len(dirs) < 2 {
			return nil, false
		}
		p := pick(rng, ents)
		var cands []string
		for _, d := range dirs {
			if d == ht.Parent(p) || ht.Under(d, p) {
				continue
			}
			if _, taken := t[ht.Join(d, ht.Base(p))]; !taken {
				cands = append(cands, d)
			}
		}
		if len(cands) == 0 {
			return nil, false
		}
		d := pick(rng, cands)
		s := t.Subtree(p)
		n.RemoveSubtree(p)
		n.Graft(ht.Join(d, ht.Base(p)), s)
	case "symlink-target":
		if len(links) == 0 {
			return nil, false
		}
		p := pick(rng, links)
		e := t[p]
		e.D = pick(rng, ht.NestedTargetPool)
		n[p] = e
	case "kind-file-dir":
		// empty file <-> empty dir; file "x" <-> dir{f="x"}
		var cands []string
		for _, p := range ents {
			e := t[p]
			if e.K == ht.File || (e.K == ht.Dir && len(t.Subtree(p)) <= 2) {
				cands = append(cands, p)
			}
		}
		if len(cands) == 0 {
			return nil, false
		}
		p := pick(rng, cands)
		e := t[p]
		if e.K == ht.File {
			n[p] = ht.Ent{K: ht.Dir}
			if e.Len() > 0 || rng.Intn(2) == 0 {
				n[ht.Join(p, pick(rng, ht.NamePool))] = e
			}
		} else {
			s := t.Subtree(p)
			n.RemoveSubtree(p)
			repl := ht.Ent{K: ht.File}
			for q, c := range s {
				if q != "." && c.K == ht.File {
					repl = c
				}
			}
			n[p] = repl
		}
	case "kind-file-symlink":
		var cands []string
		cands = append(cands, files...)
		cands = append(cands, links...)
		if len(cands) == 0 {
			return nil, false
		}
		p := pick(rng, cands)
		e := t[p]
		if e.K == ht.File {
			tgt := pick(rng, ht.TargetPool)
			if e.Big == nil && len(e.D) > 1 && e.D[0] == 2 {
				tgt = e.D[1:]
			}
			n[p] = ht.Ent{K: ht.Link, D: tgt}
		} else {
			n[p] = ht.Ent{K: ht.File, D: pick(rng, []string{"\x02", "\x02" + e.D, e.D, "", "a"})}
		}
	case "kind-dir-symlink":
		var cands []string
		for _, p := range ents {
			if t[p].K == ht.Link || (t[p].K == ht.Dir && len(t.Subtree(p)) <= 2) {
				cands = append(cands, p)
			}
		}
		if len(cands) == 0 {
			return nil, false
		}
		p := pick(rng, cands)
		if t[p].K == ht.Link {
			n[p] = ht.Ent{K: ht.Dir}
			if rng.Intn(2) == 0 {
				n[ht.Join(p, "l")] = t[p]
			}
		} else {
			n.RemoveSubtree(p)
			n[p] = ht.Ent{K: ht.Link, D: pick(rng, ht.TargetPool)}
		}
	case "add-empty-dir", "add-empty-file", "add-symlink", "add-file":
		if len(dirs) == 0 {
			return nil, false
		}
		d := pick(rng, dirs)
		nm := t.FreeName(rng, d)
		if nm == "" {
			return nil, false
		}
		switch m {
		case "add-empty-dir":
			n[ht.Join(d, nm)] = ht.Ent{K: ht.Dir}
		case "add-empty-file":
			n[ht.Join(d, nm)] = ht.Ent{K: ht.File}
		case "add-symlink":
			n[ht.Join(d, nm)] = ht.Ent{K: ht.Link, D: pick(rng, ht.TargetPool)}
		default:
			n[ht.Join(d, nm)] = ht.Ent{K: ht.File, D: pick(rng, ht.ContentPool[1:])}
		}
	case "remove-entry":
		if len(ents) == 0 {
			return nil, false
		}
		n.RemoveSubtree(pick(rng, ents))
	case "content-boundary":
		// shift a byte between two files that are consecutive in walk order
		var seq []string
		for _, p := range t.WalkOrder() {
			if t[p].K == ht.File && t[p].Big == nil {
				seq = append(seq, p)
			}
		}
		if len(seq) < 2 {
			return nil, false
		}
		i := rng.Intn(len(seq) - 1)
		x, y := t[seq[i]], t[seq[i+1]]
		if rng.Intn(2) == 0 && len(x.D) > 0 {
			k := 1 + rng.Intn(len(x.D))
			x.D, y.D = x.D[:len(x.D)-k], x.D[len(x.D)-k:]+y.D
		} else if len(y.D) > 0 {
			k := 1 + rng.Intn(len(y.D))
			x.D, y.D = x.D+y.D[:k], y.D[k:]
		} else {
			return nil, false
		}
		n[seq[i]], n[seq[i+1]] = x, y
	case "content-swap":
		if len(files) < 2 {
			return nil, false
		}
		i := rng.Intn(len(files))
		j := rng.Intn(len(files) - 1)
		if j >= i {
			j++
		}
		x, y := t[files[i]], t[files[j]]
		n[files[i]], n[files[j]] = y, x
	default:
		panic("unknown mutation " + m)
	}
	if n.Canon() == t.Canon() {
		return nil, false
	}
	return n, true
}

// randRootPair generates a pair whose hashed path itself is a file or a symlink (or changes kind).
func randRootPair(rng *rand.Rand) (ht.Tree, ht.Tree) {
	switch rng.Intn(6) {
	case 0: // two files
		a := ht.RandContent(rng, 0.5)
		t := ht.Tree{".": a}
		for {
			m := "file-content"
			if a.Big != nil {
				m = "big-flip"
			}
			// reuse the entry mutations by wrapping the file in a directory
			w := ht.Tree{".": {K: ht.Dir}, "x": a}
			if n, ok := mutate(rng, w, m); ok {
				return t, ht.Tree{".": n["x"]}
			}
		}
	case 1: // two symlinks
		x := pick(rng, ht.TargetPool)
		y := pick(rng, ht.TargetPool)
		for y == x {
			y = pick(rng, ht.TargetPool)
		}
		return ht.Tree{".": {K: ht.Link, D: x}}, ht.Tree{".": {K: ht.Link, D: y}}
	case 2: // file vs directory holding that file
		a := ht.RandContent(rng, 0.2)
		d := ht.Tree{".": {K: ht.Dir}}
		if a.Len() > 0 || rng.Intn(2) == 0 {
			d[pick(rng, ht.NamePool)] = a
		}
		return ht.Tree{".": a}, d
	case 3: // symlink vs file
		x := pick(rng, ht.TargetPool)
		return ht.Tree{".": {K: ht.Link, D: x}}, ht.Tree{".": {K: ht.File, D: pick(rng, []string{"\x02" + x, x, "\x02", ""})}}
	case 4: // symlink vs directory
		x := pick(rng, ht.TargetPool)
		d := ht.Tree{".": {K: ht.Dir}}
		switch rng.Intn(3) {
		case 0:
			d["l"] = ht.Ent{K: ht.Link, D: x}
		case 1: // a directory whose walk yields the marker byte followed by the target text
			d["a"] = ht.Ent{K: ht.Link, D: pick(rng, ht.TargetPool)}
			d["b"] = ht.Ent{K: ht.File, D: x}
		}
		return ht.Tree{".": {K: ht.Link, D: x}}, d
	default: // empty file vs empty dir
		return ht.Tree{".": {K: ht.File}}, ht.Tree{".": {K: ht.Dir}}
	}
}

var t0 = time.Now()

// dbg prints phase timings when VERIF_DEBUG is set (never used by the oracle).
func dbg(what string) {
	if os.Getenv("VERIF_DEBUG") != "" {
		fmt.Printf("DEBUG %6.1fs %s\n", time.Since(t0).Seconds(), what)
	}
}

func TestC09(t *testing.T) {
	iplib.Quiet()
	r := lib.Start("C09")
	defer lib.End(t, r)
	r.Rule = "exhaustive: every tree with a file, relative symlink or directory as the hashed path, <=N entries below it (N=3 quick, 4 thorough), depth <=2, <=3 entries per directory, names {a,ab,b}, contents {'',a,b,ab}, targets {a,b,../a}; all unordered pairs compared through a hash->tree multimap. near-duplicates: seeded hostile trees (1-25 entries, depth <=4, large files up to 4 MiB) paired with a copy that differs by one elementary difference (15 kinds); bigfiles: one file of 1 KB-4 MiB with one byte changed at a buffer/size boundary. A case is distinct by the canonical listing(s); non-trivial = the hashed path is a directory with at least one entry (exhaustive) / the two listings differ (pairs)"
	r.Assumes = []string{
		"the in-memory tree model is materialised faithfully by the harness (os.Mkdir/WriteFile/Symlink), so listing equality is decided on the model",
		"fs.NewPathHasher(root,false,..).Hash(path,false,false,false) with cwd = root is how Please hashes sources and outputs when xattrs are off",
		"only relative symlink targets (absolute targets outside the repo are documented to be hashed by content)",
		"cryptographic collisions of sha1/sha256 are not searched",
	}
	m := &mon{r: r, best: map[string]*found{}, slots: make(chan string, 8)}
	root, err := filepath.EvalSymlinks(r.Scratch())
	if err != nil {
		t.Fatal(err)
	}
	m.root = root
	if err := os.Chdir(root); err != nil {
		t.Fatal(err)
	}
	for k := 0; k < 8; k++ {
		s := fmt.Sprintf("s%d", k)
		// Context next to the hashed path: two directories with identical contents, so that symlinks
		// to a / b / ../a / ../b differ in nothing but their target text.
		if err := lib.WriteTree(s, map[string]string{"a/f": "x", "b/f": "x"}); err != nil {
			t.Fatal(err)
		}
		m.slots <- s
	}

	if r.Replaying() {
		m.replay(t)
		m.report()
		return
	}

	dbg("setup done")
	// ---- exhaustive scope ----
	scope := ht.Scope{Names: []string{"a", "ab", "b"}, Contents: []string{"", "a", "b", "ab"}, Targets: []string{"a", "b", "../a"},
		MaxDepth: 2, MaxEnts: r.Pick(3, 4), PerDir: 3}
	trees := scope.Enumerate()
	hashes := make([][]string, len(trees))
	r.ForEach("exhaustive", len(trees), 8, func(i int, _ *rand.Rand) {
		m.withSlot(func(slot string) {
			h, err := m.hashTree(slot, trees[i], i)
			r.Case(trees[i].Canon(), trees[i]["."].K == ht.Dir && len(trees[i]) > 1)
			if err != nil {
				r.Obs("hash_errors", 1)
				r.ObsDistinct("hash_error_texts", err.Error())
				return
			}
			hashes[i] = h
		})
	})
	r.Exhaustive = true
	dbg("exhaustive trees hashed")
	r.Extra("exhaustive_scope", fmt.Sprintf("%d trees (max %d entries, depth <=2, names a/ab/b, 4 contents, 3 targets), all %d unordered pairs compared per algorithm", len(trees), scope.MaxEnts, len(trees)*(len(trees)-1)/2))
	for k, al := range algos {
		buckets := map[string][]int{}
		for i, h := range hashes {
			if h != nil {
				buckets[h[k]] = append(buckets[h[k]], i)
			}
		}
		r.Obs("exhaustive_distinct_hashes_"+al.name, int64(len(buckets)))
		for h, b := range buckets {
			if len(b) < 2 {
				continue
			}
			r.Obs("exhaustive_colliding_buckets_"+al.name, 1)
			elementary := false
			var compound *found
			for x := 0; x < len(b); x++ {
				for y := x + 1; y < len(b); y++ {
					ta, tb := trees[b[x]], trees[b[y]]
					key := classify(ta, tb)
					r.Obs("exhaustive_colliding_pairs_"+al.name, 1)
					if strings.HasPrefix(key, "compound/") {
						if sz := ta.Size() + tb.Size(); compound == nil || sz < compound.size {
							compound = &found{key: key, a: ta, b: tb, size: sz, idx: b[x]}
						}
						continue
					}
					elementary = true
					m.record(key, ta, tb, al.name, h, b[x], "exhaustive")
				}
			}
			// A bucket explained by no elementary difference is reported under its compound key.
			if !elementary && compound != nil {
				m.record(compound.key, compound.a, compound.b, al.name, h, compound.idx, "exhaustive")
			}
		}
	}

	dbg("exhaustive pairs classified")
	// ---- near-duplicate pairs ----
	r.ForEach("neardup", r.Pick(8000, 400000), 8, func(i int, rng *rand.Rand) {
		var a, b ht.Tree
		if rng.Intn(10) == 0 {
			a, b = randRootPair(rng)
		} else {
			for tries := 0; b == nil && tries < 50; tries++ {
				a = ht.RandDirTree(rng, 1+rng.Intn(14), 1+rng.Intn(4), 0.06)
				mu := mutationNames[rng.Intn(len(mutationNames))]
				if n, ok := mutate(rng, a, mu); ok {
					b = n
					r.ObsDistinct("mutations_applied", mu)
				}
			}
			if b == nil {
				r.Obs("no_mutation_applicable", 1)
				return
			}
		}
		if rng.Intn(2) == 0 {
			a, b = b, a
		}
		r.Case(a.Canon()+"|"+b.Canon(), a.Canon() != b.Canon())
		if r.WantSample() {
			r.Sample(map[string]any{"a": a.String(), "b": b.String(), "difference": classify(a, b)})
		}
		m.withSlot(func(slot string) {
			if m.checkPair(slot, a, b, i, "neardup") {
				key := classify(a, b)
				m.mu.Lock()
				f := m.best[key]
				need := f != nil && f.src == "neardup" && f.idx == i
				m.mu.Unlock()
				if need && len(a)+len(b) > 4 {
					sa, sb := m.shrink(slot, a, b, key, i)
					if len(sa) < len(a) {
						m.checkPair(slot, sa, sb, i, "neardup-shrunk")
					}
				}
			}
		})
	})
	dbg("near-duplicates done")
	// ---- large files: a truncated, size-limited or sampled read must show up ----
	r.ForEach("bigfiles", r.Pick(400, 20000), 8, func(i int, rng *rand.Rand) {
		size := ht.BigSizes[rng.Intn(len(ht.BigSizes))]
		if rng.Intn(4) == 0 {
			size = 1<<20 + 1 + rng.Intn(3<<20)
		}
		offs := []int{0, size - 1, size / 2, 4095, 4096, 32767, 32768, 65535, 65536, 1 << 20, 1<<20 + 1, rng.Intn(size)}
		o := offs[rng.Intn(len(offs))]
		if o >= size {
			o = size - 1
		}
		seed := rng.Int63n(1 << 30)
		fa := ht.Ent{K: ht.File, Big: &ht.Big{Size: size, Seed: seed, Flip: -1}}
		fb := ht.Ent{K: ht.File, Big: &ht.Big{Size: size, Seed: seed, Flip: o}}
		var a, b ht.Tree
		if rng.Intn(3) == 0 {
			a, b = ht.Tree{".": fa}, ht.Tree{".": fb}
		} else {
			a = ht.RandDirTree(rng, rng.Intn(4), 2, 0)
			d := pick(rng, a.Dirs())
			nm := a.FreeName(rng, d)
			b = a.Clone()
			a[ht.Join(d, nm)], b[ht.Join(d, nm)] = fa, fb
		}
		r.Case(a.Canon()+"|"+b.Canon(), true)
		r.ObsDistinct("big_file_sizes", fmt.Sprint(size))
		m.withSlot(func(slot string) { m.checkPair(slot, a, b, i, "bigfiles") })
	})
	dbg("big files done")
	r.RequireObserved("trees_hashed", "pairs_compared")
	m.report()
}

// report turns the per-key minimal witnesses into violations, in key order.
func (m *mon) report() {
	keys := make([]string, 0, len(m.best))
	for k := range m.best {
		keys = append(keys, k)
	}
	sort.Strings(keys)
	for _, k := range keys {
		f := m.best[k]
		dbg(fmt.Sprintf("key %-50s pairs=%-6d A = %s   B = %s", k, f.count, f.a, f.b))
		var as []string
		for a := range f.algos {
			as = append(as, a)
		}
		sort.Strings(as)
		what := fmt.Sprintf("PathHasher (%s) gives the same hash %s for two different trees [difference: %s; %d colliding pair(s) of this kind]: A = %s   B = %s",
			strings.Join(as, "+"), f.hash, k, f.count, f.a, f.b)
		m.r.Violation(k, what, map[string]any{"a": f.a, "b": f.b, "a_listing": f.a.String(), "b_listing": f.b.String(),
			"difference": k, "algorithms": as, "hash": f.hash, "found_by": f.src, "pairs_of_this_kind": f.count}, f.idx)
	}
}

// replay re-checks the recorded pair of trees from the replay file.
func (m *mon) replay(t *testing.T) {
	b, err := os.ReadFile(os.Getenv("VERIF_REPLAY"))
	if err != nil {
		t.Fatal(err)
	}
	var rp struct {
		Case    int `json:"case_index"`
		Witness struct {
			A ht.Tree `json:"a"`
			B ht.Tree `json:"b"`
		} `json:"witness"`
	}
	if err := json.Unmarshal(b, &rp); err != nil || rp.Witness.A == nil || rp.Witness.B == nil {
		t.Fatalf("replay file has no tree pair: %v", err)
	}
	m.withSlot(func(slot string) {
		hit := m.checkPair(slot, rp.Witness.A, rp.Witness.B, rp.Case, "replay")
		fmt.Printf("REPLAY: A = %s  B = %s  difference = %s  collide = %v\n", rp.Witness.A, rp.Witness.B, classify(rp.Witness.A, rp.Witness.B), hit)
	})
}

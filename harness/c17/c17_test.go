// C17 — packages cannot observe or mutate each other's values.
//
// Monitor: a generated build_defs file (exporting nested lists, dicts of lists, lists of dicts, a
// comprehension-built list, functions returning module-level containers / literals / default
// arguments / CONFIG lists) is subincluded — through the real subinclude() builtin — by 2-4 generated
// BUILD files that try to mutate or reorder what they import, plus one pure observer. Every package
// exports everything it can see with text_file(name="v", content=json(...)) and defines a genrule
// whose attributes derive from the imports. The set is parsed (a) every package alone, (b) in every
// order on one state, (c) concurrently from 2k goroutines under -race. Each package's result must
// equal its "alone" result. Single attacks are additionally probed one by one against the observer,
// which gives a minimal witness and a key naming writer / path / target class. Paths include the
// copies returned by sorted() / reversed() / `+ []` / `[:]` (writing into one's own copy must not
// reach the import, also for lists of one entry); half of the build_defs set CONFIG defaults of their
// own and half of the attackers change their own configuration after the subinclude, which must
// stay theirs. A third stream runs single-attack probes only (no orders, no concurrency).
package c17

import (
	"encoding/json"
	"fmt"
	"math/rand"
	"os"
	"path/filepath"
	"regexp"
	"runtime"
	"sort"
	"strconv"
	"strings"
	"sync"
	"testing"
	"time"

	"github.com/thought-machine/please/src/core"

	"verifharness/asplib"
	"verifharness/lib"
)

// ---------- generated build_defs ----------

type target struct {
	Expr  string // expression (over the imports) yielding the object under attack
	Class string // what kind of imported value it is
	Dict  bool
}

type defs struct {
	Text     string
	Targets  []target
	Config   bool
	CfgWrite bool // the build_defs itself sets configuration, i.e. it exports a CONFIG of its own
	// CfgTargets are the containers the build_defs put into CONFIG. They are attacked by the
	// single-attack probes only, so that a leak through them has one witness key (what they add
	// under concurrency is a data race report that cannot be told from other races).
	CfgTargets []target
}

func strList(rng *rand.Rand, n int) []any {
	// distinct, first > second (so that sorted() and reversed() both change it)
	ids := asplib.DistinctIdents(rng, n)
	sort.Sort(sort.Reverse(sort.StringSlice(ids)))
	if n > 2 && rng.Intn(2) == 0 {
		ids[1], ids[n-1] = ids[n-1], ids[1]
	}
	out := make([]any, len(ids))
	for i, s := range ids {
		out[i] = s
	}
	return out
}

func genDefs(rng *rand.Rand, config bool) defs {
	// 1-4 entries: a list of one entry cannot be reordered, but it can still be written into
	l := func() string { return asplib.Lit(strList(rng, 1+rng.Intn(4))) }
	nested := func() string { return "[" + l() + ", " + l() + "]" }
	var sb strings.Builder
	fmt.Fprintf(&sb, "_M = %s\n", nested())
	fmt.Fprintf(&sb, "N = %s\n", nested())
	fmt.Fprintf(&sb, "L = %s\n", l())
	// a filtered comprehension: backing array larger than the list
	fl := strList(rng, 2+rng.Intn(4))
	fmt.Fprintf(&sb, "F = [x for x in %s if x != %s]\n", asplib.Lit(fl), asplib.Lit(fl[len(fl)-1]))
	fmt.Fprintf(&sb, "D = {\"k\": %s, \"m\": {\"x\": %s}}\n", l(), l())
	fmt.Fprintf(&sb, "LD = [{\"a\": \"1\"}, {\"b\": %s}]\n", l())
	sb.WriteString("def get_n():\n    return _M\n")
	sb.WriteString("def get_d():\n    return D\n")
	fmt.Fprintf(&sb, "def lit():\n    return %s\n", l())
	fmt.Fprintf(&sb, "def nested_lit():\n    return %s\n", nested())
	fmt.Fprintf(&sb, "def dflt(x = %s):\n    return x\n", l())
	sb.WriteString("def mutate(l):\n    l[0] = \"M\"\n    return l\n")
	sb.WriteString("def sort_it(l):\n    return sorted(l)\n")
	sb.WriteString("def put(d):\n    d[\"put\"] = \"P\"\n    return d\n")
	d := defs{Config: config, CfgWrite: rng.Intn(2) == 0}
	if d.CfgWrite {
		// What the build_defs of a plugin does: defaults for its own settings. The file then exports
		// a CONFIG with entries of its own, which are merged into the CONFIG of every package that
		// subincludes it.
		sb.WriteString("CONFIG.setdefault(\"DEFS_MODE\", \"safe\")\n")
		if rng.Intn(2) == 0 {
			sb.WriteString("CONFIG[\"DEFS_SET\"] = \"s\"\n")
		}
		fmt.Fprintf(&sb, "CONFIG.setdefault(\"DEFS_LIST\", %s)\n", l())
	}
	d.Targets = []target{
		{"L", "exported-list", false},
		{"F", "exported-list", false},
		{"D[\"k\"]", "exported-list", false},
		{"D.get(\"k\")", "exported-list", false},
		{"D.values()[0]", "exported-list", false},
		{"D.items()[0][1]", "exported-list", false},
		{"D.copy()[\"k\"]", "exported-list", false},
		{"(D | {})[\"k\"]", "exported-list", false},
		{"D[\"m\"][\"x\"]", "exported-list", false},
		{"get_d()[\"k\"]", "exported-list", false},
		{"get_n()", "exported-list", false},
		{"N[0]", "nested-list", false},
		{"N[1]", "nested-list", false},
		{"N[-1]", "nested-list", false},
		{"get_n()[0]", "nested-list", false},
		{"LD[1][\"b\"]", "nested-list", false},
		{"enumerate(N)[0][1]", "nested-list", false},
		{"zip(N, N)[1][0]", "nested-list", false},
		{"map(lambda e: e, N)[0]", "nested-list", false},
		{"filter(lambda e: True, N)[1]", "nested-list", false},
		{"[e for e in N][0]", "nested-list", false},
		{"max(N, key = lambda e: len(e))", "nested-list", false},
		{"reduce(lambda a, b: b, N)", "nested-list", false},
		{"lit()", "func-literal", false},
		{"nested_lit()[0]", "func-literal", false},
		{"nested_lit()", "func-literal", false},
		{"dflt()", "func-default", false},
		{"D", "exported-dict", true},
		{"D[\"m\"]", "exported-dict", true},
		{"get_d()", "exported-dict", true},
		{"LD[0]", "nested-dict", true},
		{"LD[1]", "nested-dict", true},
		{"[e for e in LD][0]", "nested-dict", true},
	}
	if config {
		sb.WriteString("C = CONFIG.PROTO_LANGUAGES\n")
		sb.WriteString("def cfg():\n    return CONFIG.PROTOC_FLAGS\n")
		d.Targets = []target{
			{"CONFIG.PROTO_LANGUAGES", "config-list", false},
			{"CONFIG.PROTOC_FLAGS", "config-list", false},
			{"CONFIG[\"PROTO_LANGUAGES\"]", "config-list", false},
			{"CONFIG.get(\"PROTOC_FLAGS\")", "config-list", false},
			{"C", "config-list", false},
			{"cfg()", "config-list", false},
			{"N[0]", "nested-list", false},
			{"lit()", "func-literal", false},
		}
	}
	if d.CfgWrite {
		// containers the build_defs put into CONFIG (attacked in the single-attack stream only, see probeSet)
		d.CfgTargets = []target{{"CONFIG.DEFS_LIST", "defs-config-list", false}, {"CONFIG[\"DEFS_LIST\"]", "defs-config-list", false}, {"CONFIG.get(\"DEFS_LIST\")", "defs-config-list", false}}
	}
	d.Text = sb.String()
	return d
}

// exportStmts: what every package exports, plus a target whose attributes derive from the imports.
func exportStmts(config bool) string {
	items := []string{
		"\"N\": N", "\"L\": L", "\"F\": F", "\"D\": D", "\"LD\": LD", "\"g\": get_n()", "\"gd\": get_d()",
		"\"lit\": lit()", "\"nl\": nested_lit()", "\"dflt\": dflt()",
		"\"cl\": CONFIG.PROTO_LANGUAGES", "\"cf\": CONFIG.PROTOC_FLAGS", "\"ck\": CONFIG.get(\"ZZ_NEW\")", "\"csd\": CONFIG.get(\"NEWKEY\")",
		"\"dm\": CONFIG.get(\"DEFS_MODE\")", "\"ds\": CONFIG.get(\"DEFS_SET\")", "\"dl\": CONFIG.get(\"DEFS_LIST\")", "\"dv\": CONFIG.DEFAULT_VISIBILITY",
		"\"out\": OUT",
	}
	if config {
		items = append(items, "\"C\": C", "\"cfg\": cfg()")
	}
	return "text_file(name = \"v\", content = json({" + strings.Join(items, ", ") + "}))\n" +
		"genrule(name = \"t\", outs = [\"o\"], cmd = \" \".join(L + N[0] + lit() + dflt() + CONFIG.PROTO_LANGUAGES), labels = N[-1] + LD[1][\"b\"] + D[\"k\"] + nested_lit()[0], srcs = {\"a\": F, \"b\": get_n()[0]}, env = {k: v[0] for k, v in D[\"m\"].items()})\n"
}

// ---------- attacks ----------

type attack struct {
	Writer string // index-assign | sorted | reversed | dict-assign | setdefault | config-assign | config-setdefault | package | none
	Path   string // alias | add-empty | slice | sorted-copy | reversed-copy | in-function
	Target target
	Code   string
}

func (a attack) key() string {
	p := a.Path
	if p == "in-function" {
		p = "alias" // same writer, executed inside a subincluded function
	}
	return a.Writer + "/" + p + "/" + a.Target.Class
}

func genAttack(rng *rand.Rand, d defs, n int) attack {
	t := d.Targets[rng.Intn(len(d.Targets))]
	return mkAttack(rng, t, n, -1, -1)
}

// mkAttack builds the statements of one attack; w/p select writer and path (-1: random).
func mkAttack(rng *rand.Rand, t target, n, w, p int) attack {
	a := attack{Target: t}
	v := func(s string) string { return fmt.Sprintf("%s%d", s, n) }
	var sb strings.Builder
	fmt.Fprintf(&sb, "%s = %s\n", v("a"), t.Expr)
	if t.Dict {
		if w < 0 {
			w = rng.Intn(4)
		}
		a.Path = "alias"
		switch w % 4 {
		case 0:
			a.Writer = "dict-assign"
			fmt.Fprintf(&sb, "%s[\"zz\"] = \"Z\"\n", v("a"))
		case 1:
			a.Writer = "dict-assign"
			fmt.Fprintf(&sb, "%s[%s.keys()[0]] = \"Z\"\n", v("a"), v("a"))
		case 2:
			a.Writer = "setdefault"
			fmt.Fprintf(&sb, "%s = %s.setdefault(\"sd\", \"Z\")\n", v("c"), v("a"))
		case 3:
			a.Writer, a.Path = "dict-assign", "in-function"
			fmt.Fprintf(&sb, "%s = put(%s)\n", v("c"), v("a"))
		}
		fmt.Fprintf(&sb, "OUT += [%s]\n", v("a"))
		a.Code = sb.String()
		return a
	}
	if p < 0 {
		p = rng.Intn(7)
	}
	src := v("a")
	switch p % 7 {
	case 0, 1:
		a.Path = "alias"
	case 2:
		a.Path = "add-empty"
		fmt.Fprintf(&sb, "%s = %s + []\n", v("b"), v("a"))
		src = v("b")
	case 3:
		a.Path = "add-empty"
		fmt.Fprintf(&sb, "%s = [] + %s\n", v("b"), v("a"))
		src = v("b")
	case 4:
		a.Path = "slice"
		fmt.Fprintf(&sb, "%s = %s[:]\n", v("b"), v("a"))
		src = v("b")
	case 5:
		// the builtins that promise a reordered *copy*: what they return must be the caller's own
		a.Path = "sorted-copy"
		fmt.Fprintf(&sb, "%s = sorted(%s)\n", v("b"), v("a"))
		src = v("b")
	case 6:
		a.Path = "reversed-copy"
		fmt.Fprintf(&sb, "%s = reversed(%s)\n", v("b"), v("a"))
		src = v("b")
	}
	if w < 0 {
		w = rng.Intn(8)
	}
	switch w % 8 {
	case 0:
		a.Writer = "index-assign"
		fmt.Fprintf(&sb, "%s[0] = \"Z\"\n", src)
	case 1:
		a.Writer = "index-assign"
		fmt.Fprintf(&sb, "%s[len(%s) - 1] = \"Z\"\n", src, src)
	case 2:
		a.Writer = "sorted"
		fmt.Fprintf(&sb, "%s = sorted(%s)\n", v("c"), src)
	case 3:
		a.Writer = "sorted"
		fmt.Fprintf(&sb, "%s = sorted(%s, key = lambda e: e)\n", v("c"), src)
	case 4:
		a.Writer = "reversed"
		fmt.Fprintf(&sb, "%s = reversed(%s)\n", v("c"), src)
	case 5:
		a.Writer = "index-assign"
		if a.Path == "alias" {
			a.Path = "in-function"
		}
		fmt.Fprintf(&sb, "%s = mutate(%s)\n", v("c"), src)
	case 6:
		a.Writer = "sorted"
		if a.Path == "alias" {
			a.Path = "in-function"
		}
		fmt.Fprintf(&sb, "%s = sort_it(%s)\n", v("c"), src)
	case 7:
		// appends: harmless by themselves, but they write behind the end of a shared backing array
		a.Writer = "append"
		fmt.Fprintf(&sb, "%s = %s + [\"Y%d\"]\n%s = %s\n%s += [\"W%d\"]\n", v("c"), src, n, v("e"), src, v("e"), n)
	}
	fmt.Fprintf(&sb, "OUT += [%s]\n", src)
	a.Code = sb.String()
	return a
}

// configAttacks: a package changing its own configuration after the subinclude (attacks run between
// the subinclude and the first target). That is legitimate; it just must stay the package's own.
func configAttacks(n int) []attack {
	t := target{"CONFIG", "config", true}
	return []attack{
		{Writer: "config-assign", Path: "alias", Target: t, Code: "CONFIG[\"ZZ_NEW\"] = \"v\"\n"},
		{Writer: "config-setdefault", Path: "alias", Target: t, Code: "CONFIG.setdefault(\"NEWKEY\", \"w\")\n"},
		{Writer: "config-assign", Path: "alias", Target: t, Code: "CONFIG[\"PROTO_LANGUAGES\"] = [\"hijack\"]\n"},
		// a key the build_defs may have set itself
		{Writer: "config-assign", Path: "alias", Target: t, Code: "CONFIG[\"DEFS_MODE\"] = \"fast\"\n"},
		{Writer: "config-setdefault", Path: "alias", Target: t, Code: "CONFIG.setdefault(\"DEFS_SET\", \"mine\")\n"},
		{Writer: "package", Path: "alias", Target: t, Code: "package(default_visibility = [\"PUBLIC\"])\n"},
		{Writer: "package", Path: "alias", Target: t, Code: "package(proto_languages = [\"pkg\"])\n"},
	}
}

type pkgSpec struct {
	Name    string
	Attacks []attack
	Pre     string // e.g. package(...) call, must precede everything
}

func (p pkgSpec) source(defsLabel string, config bool) string {
	var sb strings.Builder
	sb.WriteString(p.Pre)
	fmt.Fprintf(&sb, "subinclude(%q)\nOUT = []\n", defsLabel)
	for _, a := range p.Attacks {
		sb.WriteString(a.Code)
	}
	sb.WriteString(exportStmts(config))
	return sb.String()
}

// ---------- running ----------

var runRe = regexp.MustCompile(`s\d+x\d+`)

func norm(r asplib.Result) string { return runRe.ReplaceAllString(r.Key(), "S") }

type setRunner struct {
	r      *lib.Run
	idx    int
	d      defs
	strs   []string // config list values
	shared *asplib.Env
	run    int
}

func (sr *setRunner) env() *asplib.Env {
	if sr.d.Config {
		// CONFIG is per state: every run needs a fresh one
		s := append([]string{}, sr.strs...)
		return asplib.NewEnv(func(c *core.Configuration) {
			c.Proto.Language = append([]string{}, s...)
			c.Proto.ProtocFlag = append([]string{}, s...)
		})
	}
	if sr.shared == nil {
		sr.shared = asplib.NewEnv(nil)
	}
	return sr.shared
}

// newRun prepares a fresh copy of the build_defs (new path => new AST, new evaluation, new objects)
// and returns the state to use, the package prefix and the subinclude label.
func (sr *setRunner) newRun() (*asplib.Env, string, string, func()) {
	sr.run++
	base := fmt.Sprintf("s%dx%d", sr.idx, sr.run)
	e := sr.env()
	asplib.WriteDefs(base, "defs", sr.d.Text)
	e.AddDefs(base, "defs")
	return e, base, "//" + base + ":defs", func() { asplib.RemoveDefs(base, "defs") }
}

// sequential parses the given packages in order on one fresh run and returns their normalised results.
func (sr *setRunner) sequential(pkgs []pkgSpec) []string {
	e, base, label, done := sr.newRun()
	defer done()
	out := make([]string, len(pkgs))
	for i, p := range pkgs {
		out[i] = norm(e.ParseSource(base+"/"+p.Name, p.source(label, sr.d.Config)))
		sr.r.Obs("packages_parsed", 1)
	}
	return out
}

// concurrent parses every package twice, all at once.
func (sr *setRunner) concurrent(pkgs []pkgSpec, rng *rand.Rand) [][2]string {
	e, base, label, done := sr.newRun()
	defer done()
	out := make([][2]string, len(pkgs))
	var wg sync.WaitGroup
	start := make(chan struct{})
	for i, p := range pkgs {
		for c := 0; c < 2; c++ {
			yields := rng.Intn(40)
			wg.Add(1)
			go func() {
				defer wg.Done()
				<-start
				for y := 0; y < yields; y++ {
					runtime.Gosched()
				}
				out[i][c] = norm(e.ParseSource(fmt.Sprintf("%s/%s_%d", base, p.Name, c), p.source(label, sr.d.Config)))
			}()
		}
	}
	close(start)
	wg.Wait()
	sr.r.Obs("packages_parsed_concurrently", int64(2*len(pkgs)))
	return out
}

func permutations(n int) [][]int {
	var out [][]int
	var rec func(cur []int, used int)
	rec = func(cur []int, used int) {
		if len(cur) == n {
			out = append(out, append([]int{}, cur...))
			return
		}
		for i := 0; i < n; i++ {
			if used&(1<<i) == 0 {
				rec(append(cur, i), used|1<<i)
			}
		}
	}
	rec(nil, 0)
	return out
}

func firstDiff(a, b string) string {
	la, lb := strings.Split(a, "\n"), strings.Split(b, "\n")
	for i := 0; i < len(la) && i < len(lb); i++ {
		if la[i] != lb[i] {
			x, y := la[i], lb[i]
			// narrow to the first differing exported name when both are JSON exports
			return "alone: " + clip(x) + " | here: " + clip(y)
		}
	}
	return "length differs"
}

func clip(s string) string {
	if len(s) > 700 {
		return s[:700] + "…"
	}
	return s
}

var (
	keyMu   sync.Mutex
	keySeen = map[string]bool{}
)

func noteKey(k string) {
	keyMu.Lock()
	keySeen[k] = true
	keyMu.Unlock()
}

// genSet generates the package set of one case. The rng is consumed in a fixed order so that the
// parent process and the child that runs the concurrent phase build the same set.
func genSet(rng *rand.Rand, config bool) (d defs, strs []string, pkgs []pkgSpec, srcs []string) {
	d = genDefs(rng, config)
	for _, s := range strList(rng, 3) {
		strs = append(strs, s.(string))
	}
	k := 2 + rng.Intn(3) // 2..4 including the observer
	if config {
		k = 2 + rng.Intn(2) // a fresh state per run is expensive
	}
	n := 0
	for j := 0; j < k-1; j++ {
		p := pkgSpec{Name: fmt.Sprintf("p%d", j)}
		na := 1 + rng.Intn(4)
		for a := 0; a < na; a++ {
			n++
			p.Attacks = append(p.Attacks, genAttack(rng, d, n))
		}
		if rng.Intn(2) == 0 {
			ca := configAttacks(n)
			at := rng.Intn(len(p.Attacks) + 1) // anywhere among the other attacks
			p.Attacks = append(p.Attacks[:at:at], append([]attack{ca[rng.Intn(len(ca))]}, p.Attacks[at:]...)...)
		}
		if rng.Intn(6) == 0 {
			p.Pre = "package(default_visibility = [\"PUBLIC\"])\n"
		}
		pkgs = append(pkgs, p)
	}
	pkgs = append(pkgs, pkgSpec{Name: "obs"})
	for _, p := range pkgs {
		srcs = append(srcs, p.source("//S:defs", config))
	}
	return
}

// A concDiff is one package result of the concurrent phase that differs from the alone result.
type concDiff struct {
	Pkg   string `json:"pkg"`
	Alone string `json:"alone"`
	Here  string `json:"here"`
}

type concResult struct {
	Rounds int        `json:"rounds"`
	Parsed int        `json:"parsed"`
	Diffs  []concDiff `json:"diffs"`
}

// runConcurrentPhase is executed in a child process (concurrent mutation of a shared dict is a
// fatal Go error that would otherwise end the whole run).
func runConcurrentPhase(r *lib.Run, idx int, rng *rand.Rand, config bool, reps int) concResult {
	d, strs, pkgs, _ := genSet(rng, config)
	sr := &setRunner{r: r, idx: idx, d: d, strs: strs}
	alone := make([]string, len(pkgs))
	for i, p := range pkgs {
		alone[i] = sr.sequential([]pkgSpec{p})[0]
	}
	var out concResult
	for rep := 0; rep < reps; rep++ {
		res := sr.concurrent(pkgs, rng)
		out.Rounds++
		out.Parsed += 2 * len(pkgs)
		for j := range pkgs {
			for c := 0; c < 2; c++ {
				if res[j][c] != alone[j] && len(out.Diffs) < 4 {
					out.Diffs = append(out.Diffs, concDiff{pkgs[j].Name, alone[j], res[j][c]})
				}
			}
		}
	}
	return out
}

// A prober runs single attacks, one attacker package each, against a pure observer of the same
// build_defs: the observer parsed after the attacker must evaluate to what it evaluates to alone.
type prober struct {
	r           *lib.Run
	sr          *setRunner
	observer    pkgSpec
	obsAlone    string
	caseIdx     int
	unprotected map[string]bool // target expressions writable through a plain alias
}

func newProber(r *lib.Run, sr *setRunner, observer pkgSpec, caseIdx int) *prober {
	pr := &prober{r: r, sr: sr, observer: observer, caseIdx: caseIdx, unprotected: map[string]bool{}}
	pr.obsAlone = sr.sequential([]pkgSpec{observer})[0]
	if !strings.Contains(pr.obsAlone, "err=\n") {
		r.Violation("harness/observer-fails", "the pure observer package does not evaluate: "+clip(pr.obsAlone), map[string]any{"build_defs": sr.d.Text}, caseIdx)
		return nil
	}
	return pr
}

// probe reports whether the attack changes what the observer sees.
func (pr *prober) probe(a attack) bool {
	r, sr, d, config := pr.r, pr.sr, pr.sr.d, pr.sr.d.Config
	derived := a.Path != "alias" && a.Path != "in-function"
	if derived && !a.Target.Dict && a.Writer != "append" {
		// first find out whether the target is writable through a plain alias at all
		if _, done := pr.unprotected[a.Target.Expr]; !done {
			plain := mkAttack(nil, a.Target, 900, 0, 0)
			p2 := pkgSpec{Name: "atk", Attacks: []attack{plain}}
			res := sr.sequential([]pkgSpec{p2, pr.observer})
			pr.unprotected[a.Target.Expr] = res[1] != pr.obsAlone
		}
	}
	p := pkgSpec{Name: "atk", Attacks: []attack{a}}
	res := sr.sequential([]pkgSpec{p, pr.observer})
	r.Obs("single_attack_probes", 1)
	r.ObsDistinct("attack_kinds", a.key())
	if strings.Contains(res[0], "err=\n") {
		r.Obs("attacks_accepted_by_interpreter", 1)
		if d.CfgWrite && a.Target.Class == "config" {
			r.Obs("own_config_changed_after_subinclude_that_sets_config", 1)
		}
		if derived && !a.Target.Dict && (a.Writer == "index-assign") {
			r.Obs("writes_into_derived_copies_accepted", 1)
		}
	} else {
		r.Obs("attacks_rejected_by_interpreter", 1)
	}
	if res[1] == pr.obsAlone {
		return false
	}
	key := a.key()
	if derived && pr.unprotected[a.Target.Expr] {
		r.Obs("leaks_implied_by_unprotected_target", 1)
		return true
	}
	noteKey(key)
	r.Violation(key, fmt.Sprintf("a package that runs `%s` changes what a package parsed afterwards sees (%s)",
		strings.TrimSpace(strings.ReplaceAll(a.Code, "\n", "; ")), firstDiff(pr.obsAlone, res[1])),
		map[string]any{
			"build_defs": d.Text, "attacker_BUILD": p.source("//S:defs", config), "observer_BUILD": pr.observer.source("//S:defs", config),
			"observer_alone": pr.obsAlone, "observer_after_attacker": res[1],
		}, pr.caseIdx)
	return true
}

// probeSet is the cheap half of checkSet: one generated build_defs, many single attacks (no
// orders, no concurrency), so that rarely generated combinations of writer / path / target / list
// length are reached in the quick tier as well.
func probeSet(r *lib.Run, caseIdx, idx int, rng *rand.Rand, attacks int) {
	d := genDefs(rng, false)
	sr := &setRunner{r: r, idx: idx, d: d}
	observer := pkgSpec{Name: "obs"}
	var list []attack
	for n := 1; n <= attacks; n++ {
		if n == attacks && d.CfgWrite {
			// one write into what the build_defs put into CONFIG: through a plain alias, or any path
			list = append(list, mkAttack(rng, d.CfgTargets[rng.Intn(len(d.CfgTargets))], n, []int{0, 1, 5}[rng.Intn(3)], []int{0, -1}[rng.Intn(2)]))
		} else if rng.Intn(5) == 0 {
			ca := configAttacks(n)
			list = append(list, ca[rng.Intn(len(ca))])
		} else {
			list = append(list, genAttack(rng, d, n))
		}
	}
	var codes []string
	for _, a := range list {
		codes = append(codes, a.Code)
	}
	r.Case(d.Text+strings.Join(codes, "\x00"), true)
	pr := newProber(r, sr, observer, caseIdx)
	if pr == nil {
		return
	}
	for _, a := range list {
		pr.probe(a)
	}
}

var fatalRe = regexp.MustCompile(`(?m)^(fatal error: .*|panic: .*)$`)

func checkSet(r *lib.Run, stream string, caseIdx, idx int, rng *rand.Rand, config bool, concReps int) {
	d, strs, pkgs, srcs := genSet(rng, config)
	sr := &setRunner{r: r, idx: idx, d: d, strs: strs}
	observer := pkgs[len(pkgs)-1]
	nontrivial := false
	for _, p := range pkgs {
		for _, a := range p.Attacks {
			if a.Writer != "append" {
				nontrivial = true
			}
		}
	}
	r.Case(d.Text+strings.Join(srcs, "\x00"), nontrivial)
	if r.WantSample() {
		r.Sample(map[string]any{"build_defs": d.Text, "packages": srcs})
	}

	t0 := time.Now()
	lap := func(name string) {
		r.Obs("ms_"+name, time.Since(t0).Milliseconds())
		t0 = time.Now()
	}
	// --- (0) every attack alone against the observer: minimal witnesses, specific keys ---
	pr := newProber(r, sr, observer, caseIdx)
	if pr == nil {
		return
	}
	guilty := map[string]bool{}
	for _, p := range pkgs {
		for _, a := range p.Attacks {
			if pr.probe(a) {
				guilty[p.Name] = true
			}
		}
	}

	lap("probes")
	// --- (1) alone ---
	alone := make([]string, len(pkgs))
	for i, p := range pkgs {
		alone[i] = sr.sequential([]pkgSpec{p})[0]
	}
	// --- (2) every order ---
	anyGuilty := len(guilty) > 0
	for _, perm := range permutations(len(pkgs)) {
		order := make([]pkgSpec, len(perm))
		for i, j := range perm {
			order[i] = pkgs[j]
		}
		res := sr.sequential(order)
		r.Obs("orders_checked", 1)
		for i, j := range perm {
			if res[i] == alone[j] {
				continue
			}
			r.Obs("order_dependent_results", 1)
			if anyGuilty {
				continue // explained by the single-attack witnesses above
			}
			var before []string
			for _, b := range perm[:i] {
				for _, a := range pkgs[b].Attacks {
					before = append(before, a.key())
				}
			}
			sort.Strings(before)
			key := "order-dependence/unclassified"
			noteKey(key)
			r.Violation(key, fmt.Sprintf("package %s evaluates differently after %v than alone (%s)", pkgs[j].Name, before, firstDiff(alone[j], res[i])),
				map[string]any{"build_defs": d.Text, "packages": srcs, "order": perm, "victim": pkgs[j].Name, "alone": alone[j], "here": res[i]}, caseIdx)
		}
	}
	lap("orders")
	// --- (3) concurrently, in a child process ---
	outFile := filepath.Join(r.Scratch(), fmt.Sprintf("conc.%s.%d.json", stream, caseIdx))
	cfg := "0"
	if config {
		cfg = "1"
	}
	res := lib.Child("TestC17Child", []string{
		"C17_STREAM=" + stream, fmt.Sprint("C17_CASE=", caseIdx), fmt.Sprint("C17_IDX=", idx), "C17_CONFIG=" + cfg,
		fmt.Sprint("C17_REPS=", concReps), "C17_OUT=" + outFile, "C17_DIR=" + filepath.Join(r.Scratch(), fmt.Sprintf("child.%s.%d", stream, caseIdx)),
		"VERIF_REPLAY=",
	}, 10*time.Minute)
	r.Obs("concurrent_children", 1)
	lap("child")
	var cr concResult
	b, err := os.ReadFile(outFile)
	os.Remove(outFile)
	if err != nil || json.Unmarshal(b, &cr) != nil {
		if res.TimedOut {
			r.Inconclusive(fmt.Sprintf("concurrent phase of %s/%d did not finish within the watchdog", stream, caseIdx))
			return
		}
		msg := "no verdict"
		if m := fatalRe.FindString(res.Stderr + "\n" + res.Stdout); m != "" {
			msg = m
		}
		class := regexp.MustCompile(`[^a-z]+`).ReplaceAllString(strings.ToLower(strings.TrimPrefix(msg, "fatal error: ")), "-")
		if len(class) > 60 {
			class = class[:60]
		}
		key := "concurrent-crash/" + strings.Trim(class, "-")
		noteKey(key)
		r.Obs("concurrent_crashes", 1)
		tail := res.Stderr
		if len(tail) > 5000 {
			tail = tail[:5000]
		}
		r.Violation(key, "parsing the packages of this set concurrently kills the process: "+msg,
			map[string]any{"build_defs": d.Text, "packages": srcs, "exit": res.Exit, "signal": res.Signal, "stderr_head": tail}, caseIdx)
		return
	}
	r.Obs("concurrent_rounds", int64(cr.Rounds))
	r.Obs("packages_parsed_concurrently", int64(cr.Parsed))
	for _, df := range cr.Diffs {
		r.Obs("concurrency_dependent_results", 1)
		if anyGuilty {
			continue
		}
		key := "concurrent-only/unclassified"
		noteKey(key)
		r.Violation(key, fmt.Sprintf("package %s evaluates differently when parsed concurrently with the others than alone (%s)", df.Pkg, firstDiff(df.Alone, df.Here)),
			map[string]any{"build_defs": d.Text, "packages": srcs, "victim": df.Pkg, "alone": df.Alone, "here": df.Here}, caseIdx)
	}
}

// TestC17Child runs the concurrent phase of one case (see checkSet).
func TestC17Child(t *testing.T) {
	if !lib.IsChild() {
		t.Skip("child of TestC17 only")
	}
	r := lib.Start("C17") // only for the case PRNG; never finished, writes nothing
	atoi := func(k string) int { n, _ := strconv.Atoi(os.Getenv(k)); return n }
	asplib.Init(os.Getenv("C17_DIR"))
	stream, caseIdx := os.Getenv("C17_STREAM"), atoi("C17_CASE")
	out := runConcurrentPhase(r, atoi("C17_IDX"), r.Rand(stream, caseIdx), os.Getenv("C17_CONFIG") == "1", atoi("C17_REPS"))
	b, _ := json.Marshal(out)
	if err := os.WriteFile(os.Getenv("C17_OUT"), b, 0o644); err != nil {
		t.Fatal(err)
	}
}

var aspFrame = regexp.MustCompile(`^\s+github\.com/thought-machine/please/src/parse/asp\.([^\s(]+|\(\*[A-Za-z0-9_]+\)\.[^\s(]+)\(`)

// collectRaces turns race reports with frames in src/parse/asp into violations keyed by the asp
// functions that perform the racing writes (the frame pairs themselves vary with the schedule and
// with what else was reading, e.g. json() or ==, so they would not be stable keys).
func collectRaces(r *lib.Run) {
	prefix := lib.OwnRaceLogPrefix()
	if prefix == "" {
		r.Inconclusive("no GORACE log_path: race reports are not collected")
		return
	}
	for _, rep := range lib.ParseRaceLogs(prefix, []string{"please/src/parse/asp."}) {
		if !rep.Anchor {
			r.Obs("race_reports_elsewhere", 1)
			continue
		}
		r.Obs("race_reports_in_asp", 1)
		writers := map[string]bool{}
		// blocks: "Write at 0x.. by goroutine N:" / "Previous write at ..." followed by frames
		lines := strings.Split(rep.Text, "\n")
		for i, l := range lines {
			ll := strings.ToLower(l)
			if !(strings.Contains(ll, "write at ") && strings.Contains(ll, " by ")) {
				continue
			}
			for j := i + 1; j < len(lines) && strings.TrimSpace(lines[j]) != ""; j++ {
				if m := aspFrame.FindStringSubmatch(lines[j]); m != nil {
					fn := m[1]
					fn = regexp.MustCompile(`\.func\d+(\.\d+)*$`).ReplaceAllString(fn, "")
					fn = strings.NewReplacer("(*", "", ")", "").Replace(fn)
					writers[fn] = true
					break
				}
			}
		}
		var ws []string
		for w := range writers {
			ws = append(ws, w)
		}
		sort.Strings(ws)
		key := "race/write-in:" + strings.Join(ws, "+")
		if len(ws) == 0 {
			key = "race/" + rep.Key
		}
		noteKey(key)
		txt := rep.Text
		if len(txt) > 6000 {
			txt = txt[:6000]
		}
		r.Violation(key, "data race in src/parse/asp while packages sharing a subinclude are parsed concurrently (writer: "+strings.Join(ws, ", ")+")", map[string]any{"report": txt}, -1)
	}
}

func TestC17(t *testing.T) {
	r := lib.Start("C17")
	defer lib.End(t, r)
	asplib.Init(r.Scratch())
	r.Rule = "package sets: one generated build_defs (nested lists, dict of lists, list of dicts, filtered comprehension, functions returning module-level containers / literals / default arguments; lists of 1-4 entries; half of the files also set CONFIG defaults of their own; a second stream adds CONFIG-derived lists) + 1-3 attacker BUILD files with 1-4 attacks each (writer: index assignment, sorted, reversed, dict assignment, setdefault, in a subincluded function, appends; path: alias, `+ []`, `[:]`, the copy returned by sorted(), the copy returned by reversed(); 33-35 target expressions; in half of the attackers a change of the package's own configuration after the subinclude: CONFIG[k] = v, CONFIG.setdefault, package(...)) + one observer; each set parsed alone, in every order, and concurrently (2 goroutines per package, several rounds, -race); a third stream probes 10 single attacks per generated build_defs against the observer only. Distinct by defs+sources; non-trivial = at least one mutating attack"
	r.Assumes = []string{
		"every run of a set uses a fresh copy of the build_defs under a new path (new AST, new evaluation) so that runs do not influence each other; CONFIG sets use a fresh BuildState per run",
		"results are compared as (error message without position, exported JSON, attributes of the defined targets)",
		"concurrency verdicts never depend on timing: a difference is a violation whenever it is observed, silence is not proof",
	}
	conc := r.Pick(6, 20)
	r.ForEach("sets", asplib.Dev(r.Pick(54, 2500)), 8, func(i int, rng *rand.Rand) {
		checkSet(r, "sets", i, i, rng, false, conc)
	})
	r.ForEach("probes", asplib.Dev(r.Pick(24, 1500)), 8, func(i int, rng *rand.Rand) {
		probeSet(r, i, 2000000+i, rng, 10)
	})
	r.ForEach("config-sets", asplib.Dev(r.Pick(8, 300)), 8, func(i int, rng *rand.Rand) {
		checkSet(r, "config-sets", i, 1000000+i, rng, true, 2)
	})
	collectRaces(r)
	keyMu.Lock()
	keys := []string{}
	for k := range keySeen {
		keys = append(keys, k)
	}
	keyMu.Unlock()
	sort.Strings(keys)
	r.Extra("violation_keys_seen", keys)
	r.RequireObserved("single_attack_probes", "orders_checked", "concurrent_rounds", "packages_parsed_concurrently", "attacks_accepted_by_interpreter", "attacks_rejected_by_interpreter",
		"own_config_changed_after_subinclude_that_sets_config", "writes_into_derived_copies_accepted")
}

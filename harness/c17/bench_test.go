package c17

import (
	"fmt"
	"os"
	"testing"
	"time"

	"verifharness/asplib"
	"verifharness/lib"
)

func TestBenchDev(t *testing.T) {
	if os.Getenv("C17_BENCH") == "" {
		t.Skip()
	}
	r := lib.Start("C17")
	dir, _ := os.MkdirTemp("/tmp", "c17bench")
	defer os.RemoveAll(dir)
	asplib.Init(dir)
	rng := r.Rand("sets", 3)
	d, strs, pkgs, _ := genSet(rng, false)
	sr := &setRunner{r: r, idx: 1, d: d, strs: strs}
	t0 := time.Now()
	sr.sequential(pkgs)
	fmt.Println("first (incl NewEnv)", time.Since(t0), len(pkgs))
	t0 = time.Now()
	for i := 0; i < 20; i++ {
		sr.sequential(pkgs)
	}
	fmt.Println("20 sequential runs", time.Since(t0))
	t0 = time.Now()
	for i := 0; i < 20; i++ {
		sr.concurrent(pkgs, rng)
	}
	fmt.Println("20 concurrent runs", time.Since(t0))
}

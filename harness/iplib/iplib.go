// Package iplib holds helpers for in-process monitors that call Please packages directly.
package iplib

import (
	"os"
	"sync"

	"github.com/thought-machine/please/src/cli"
	"github.com/thought-machine/please/src/core"
)

var quietOnce sync.Once

// Quiet lowers Please's logging to errors only (the default prints debug lines to stderr).
// Set VERIF_PLZ_VERBOSITY to a number 0-4 to override.
func Quiet() {
	quietOnce.Do(func() {
		v := cli.MinVerbosity
		switch os.Getenv("VERIF_PLZ_VERBOSITY") {
		case "1":
			v = 1
		case "2":
			v = 2
		case "3":
			v = 3
		case "4":
			v = 4
		}
		cli.InitLogging(v)
	})
}

// NewState returns a fresh BuildState with the default configuration (no config files read),
// with logging quietened.
func NewState() *core.BuildState {
	Quiet()
	config := core.DefaultConfiguration()
	config.Please.NumThreads = 4
	return core.NewBuildState(config)
}

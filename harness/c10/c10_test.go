// C10 — build actions see a hermetic, fully hashed environment.
// Monitor: generated repositories whose genrules dump `env` into their output, with random
// target-level pass_env, env, config-level passenv / passunsafeenv / [buildenv]; each repository is
// built by the real plz binary under a history of caller environments (look-alikes of Please's own
// variables, names that prefix/suffix passed names, random names, changed/unset/empty values).
// Oracle: (1) every variable in a dump is explained by the reference environment and no value of a
// non-passed caller variable appears anywhere in it; (2) across consecutive invocations a changed
// hashed pass variable re-runs the action (action probe) and shows the new value, anything else
// neither re-runs it nor changes a byte of the output; (3) at every invocation that follows an
// unset <-> exported-empty transition of a passed variable and at the end of every history (by then
// the caller variables that `env = {...}` values name have changed too), plz-out is wiped and the repository
// built FRESH under the same caller environment: every variable of the incremental dump that is not
// a passunsafeenv variable must equal the fresh one (present/absent included).
package c10

import (
	"fmt"
	"math/rand"
	"os"
	"path/filepath"
	"sort"
	"strings"
	"testing"
	"time"

	"verifharness/e2e"
	x "verifharness/e2ealib"
	"verifharness/lib"
)

type tgt struct {
	Pkg     string            `json:"pkg"`
	Name    string            `json:"name"`
	PassEnv []string          `json:"pass_env"` // nil = argument absent
	HasPass bool              `json:"has_pass_env"`
	Env     map[string]string `json:"env,omitempty"`
	Src     string            `json:"src,omitempty"`      // label of an upstream target used as source
	EnvRefs map[string]string `json:"env_refs,omitempty"` // env key -> name of the caller variable (never passed to this target) its value references
	srcIdx  int
}

func (t *tgt) id() string    { return strings.ReplaceAll(t.Pkg, "/", "_") + "." + t.Name }
func (t *tgt) label() string { return "//" + t.Pkg + ":" + t.Name }

type spec struct {
	Targets   []*tgt            `json:"targets"`
	CfgPass   []string          `json:"config_passenv,omitempty"`
	CfgUnsafe []string          `json:"config_passunsafeenv,omitempty"`
	BuildEnv  map[string]string `json:"buildenv,omitempty"`
	Lang      string            `json:"lang,omitempty"`
	Roles     []string          `json:"role_names"`
	Refs      []string          `json:"env_referenced_names,omitempty"` // caller variables named by `$NAME` inside env = {...} values
}

var rolePool = []string{"VA", "VB_X", "APP_TOKEN", "CC_FLAGS", "VA_EXTRA", "V", "HTTPS_PROXY"}

// Names Please documents as set for build actions (docs/build_rules: "build environment"), plus
// what bash itself adds to an environment that lacks them.
var fixedNames = map[string]bool{
	"ARCH": true, "OS": true, "XARCH": true, "XOS": true, "PLZ_ENV": true, "LANG": true, "PKG": true, "PKG_DIR": true,
	"NAME": true, "BUILD_CONFIG": true, "CONFIG": true, "TMP_DIR": true, "TMPDIR": true, "OUTS": true, "OUT": true,
	"HOME": true, "PYTHONHASHSEED": true, "SRCS": true, "SRC": true, "TOOLS": true, "TOOL": true, "RULE_HASH": true,
	"PATH": true, "SECRETS": true, "PWD": true, "SHLVL": true, "_": true, "OLDPWD": true,
}
var fixedPrefixes = []string{"SRCS_", "OUTS_", "TOOLS_", "SECRETS_"}

// Caller variables that look like something the build environment or the shell cares about.
var lookalikes = []string{"HOME", "TMPDIR", "TMP_DIR", "LANG", "LC_ALL", "LANGUAGE", "PYTHONPATH", "PYTHONHASHSEED", "OUT", "OUTS",
	"SRCS", "SRC", "PKG", "PKG_DIR", "NAME", "ARCH", "OS", "XOS", "XARCH", "PLZ_ENV", "RULE_HASH", "TOOLS", "TOOL", "BUILD_CONFIG",
	"CONFIG", "BASH_ENV", "ENV", "CDPATH", "PATH", "USER", "LOGNAME", "SHELL", "EDITOR", "GOPATH", "GOROOT", "CC", "CFLAGS",
	"LD_LIBRARY_PATH", "SECRETS", "SRCS_X", "TOOLS_X", "MYV", "T_OPT", "FOO_BAR", "STAMP", "TEST_DIR", "DATA"}

func generate(rng *rand.Rand) *spec {
	s := &spec{}
	pool := append([]string(nil), rolePool...)
	rng.Shuffle(len(pool), func(i, j int) { pool[i], pool[j] = pool[j], pool[i] })
	s.Roles = pool[:3+rng.Intn(3)]
	sort.Strings(s.Roles)
	for _, n := range s.Roles {
		switch rng.Intn(6) {
		case 0:
			s.CfgPass = append(s.CfgPass, n)
		case 1:
			s.CfgUnsafe = append(s.CfgUnsafe, n)
		}
	}
	if rng.Intn(3) == 0 {
		s.BuildEnv = map[string]string{"foo-bar": "be" + x.Token(rng, 8)}
	}
	if rng.Intn(4) == 0 {
		s.Lang = "C.UTF-8"
	}
	nt := 2 + rng.Intn(3)
	pkgs := []string{"p", "p/q", "r"}
	anyPass := false
	for i := 0; i < nt; i++ {
		t := &tgt{Pkg: pkgs[rng.Intn(len(pkgs))], Name: fmt.Sprintf("e%d", i), srcIdx: -1}
		switch rng.Intn(5) {
		case 0: // absent
		case 1:
			t.HasPass, t.PassEnv = true, []string{}
		default:
			t.HasPass = true
			t.PassEnv = x.Subset(rng, s.Roles, 0.45)
			if t.PassEnv == nil {
				t.PassEnv = []string{}
			}
		}
		if len(t.PassEnv) > 0 {
			anyPass = true
		}
		if rng.Intn(3) == 0 {
			t.Env = map[string]string{}
			if rng.Intn(2) == 0 {
				t.Env["MYV"] = "x$PKG-" + x.Token(rng, 6)
			}
			if rng.Intn(2) == 0 || len(t.Env) == 0 {
				t.Env["T_OPT"] = "o" + x.Token(rng, 6)
			}
		}
		if rng.Intn(5) < 2 {
			// an env value that names a caller variable which is NOT passed to this target: a role passed
			// elsewhere only, a look-alike of a passed name, an ordinary shell variable, a random name
			var cands []string
			for _, n := range s.Roles {
				cands = append(cands, n, n+"_EXTRA")
			}
			cands = append(cands, "USER", "EDITOR", "CFLAGS", "ZQ_"+strings.ToUpper(x.Token(rng, 5)), "ZQ_"+strings.ToUpper(x.Token(rng, 5)))
			var ok []string
			for _, n := range cands {
				if !s.visible(t, n) && !fixedNames[n] {
					ok = append(ok, n)
				}
			}
			ref := x.Choose(rng, ok)
			if t.Env == nil {
				t.Env = map[string]string{}
			}
			var v string
			switch rng.Intn(4) {
			case 0:
				v = "$" + ref
			case 1:
				v = "r" + x.Token(rng, 4) + "-${" + ref + "}-z"
			case 2:
				v = "$PKG/$" + ref + "/" + x.Token(rng, 4)
			default:
				v = "r" + x.Token(rng, 4) + " $" + ref
			}
			t.Env["R_OPT"] = v
			t.EnvRefs = map[string]string{"R_OPT": ref}
			if !has(s.Refs, ref) {
				s.Refs = append(s.Refs, ref)
			}
		}
		if i > 0 && rng.Intn(3) == 0 {
			t.srcIdx = rng.Intn(i)
			t.Src = s.Targets[t.srcIdx].label()
		}
		s.Targets = append(s.Targets, t)
	}
	if !anyPass && len(s.CfgPass) == 0 {
		t := s.Targets[rng.Intn(len(s.Targets))]
		var ok []string
		for _, n := range s.Roles {
			if t.EnvRefs["R_OPT"] != n {
				ok = append(ok, n)
			}
		}
		t.HasPass, t.PassEnv = true, []string{x.Choose(rng, ok)}
	}
	return s
}

func (s *spec) config() string {
	var sb strings.Builder
	sb.WriteString("[please]\nselfupdate = false\nautoclean = false\n\n[build]\npath = /usr/local/bin:/usr/bin:/bin\n")
	for _, n := range s.CfgPass {
		sb.WriteString("passenv = " + n + "\n")
	}
	for _, n := range s.CfgUnsafe {
		sb.WriteString("passunsafeenv = " + n + "\n")
	}
	if s.Lang != "" {
		sb.WriteString("lang = " + s.Lang + "\n")
	}
	sb.WriteString("\n[cache]\ndir =\n")
	if len(s.BuildEnv) > 0 {
		sb.WriteString("\n[buildenv]\n")
		for _, k := range x.SortedKeys(s.BuildEnv) {
			sb.WriteString(k + " = " + s.BuildEnv[k] + "\n")
		}
	}
	return sb.String()
}

func (s *spec) files(vlog string) map[string]string {
	files := map[string]string{".plzconfig": s.config()}
	byPkg := map[string][]*tgt{}
	for _, t := range s.Targets {
		byPkg[t.Pkg] = append(byPkg[t.Pkg], t)
	}
	for pkg, ts := range byPkg {
		var sb strings.Builder
		for _, t := range ts {
			r := x.NewRule("genrule", t.Name)
			if t.Src != "" {
				r.List("srcs", []string{t.Src})
			}
			r.List("outs", []string{t.Name + ".env"})
			r.Str("cmd", x.Probe(vlog, t.id())+"; env | sort > \"$OUT\"")
			if t.HasPass {
				r.List("pass_env", t.PassEnv)
			}
			if t.Env != nil {
				r.Add("env", x.PyDict(t.Env))
			}
			r.List("visibility", []string{"PUBLIC"})
			sb.WriteString(r.Render())
		}
		files[filepath.Join(pkg, "BUILD")] = sb.String()
	}
	return files
}

func has(ss []string, n string) bool {
	for _, s := range ss {
		if s == n {
			return true
		}
	}
	return false
}

// hashed / visible variable names for a target, per the documentation of pass_env, PassEnv, PassUnsafeEnv.
func (s *spec) hashed(t *tgt, n string) bool  { return has(t.PassEnv, n) || has(s.CfgPass, n) }
func (s *spec) visible(t *tgt, n string) bool { return s.hashed(t, n) || has(s.CfgUnsafe, n) }
func (s *spec) level(t *tgt, n string) string {
	switch {
	case has(t.PassEnv, n):
		return "target-pass_env"
	case has(s.CfgPass, n):
		return "config-passenv"
	case has(s.CfgUnsafe, n):
		return "config-passunsafeenv"
	}
	return "not-passed"
}

// classOf names the class of a caller variable for witness keys.
func (s *spec) classOf(n string, derived map[string]bool) string {
	switch {
	case has(s.Roles, n):
		return "passed-elsewhere-only"
	case derived[n]:
		return "lookalike-of-passed-name"
	case has(lookalikes, n):
		return n
	case strings.HasPrefix(n, "ZQ_"):
		return "random-caller-var"
	}
	return n
}

type callerEnv map[string]string

func (e callerEnv) clone() callerEnv {
	c := callerEnv{}
	for k, v := range e {
		c[k] = v
	}
	return c
}

func (e callerEnv) list() []string {
	out := make([]string, 0, len(e))
	for _, k := range x.SortedKeys(e) {
		out = append(out, k+"="+e[k])
	}
	return out
}

// history of one repository's caller environments
type hist struct {
	s       *spec
	rng     *rand.Rand
	work    string
	derived map[string]bool
	tokens  map[string][]string // name -> every random token ever put into that variable
	noise   []string            // names usable for non-passed changes
}

func newHist(s *spec, rng *rand.Rand, work string) *hist {
	h := &hist{s: s, rng: rng, work: work, derived: map[string]bool{}, tokens: map[string][]string{}}
	for _, n := range s.Roles {
		for _, d := range []string{n + "_", n + "X", "X" + n, "_" + n, n[:len(n)-1], strings.ToLower(n), n + "_EXTRA", n + "2"} {
			if d != "" && !has(s.Roles, d) && !has(lookalikes, d) && !fixedNames[d] {
				h.derived[d] = true
			}
		}
	}
	h.noise = append(h.noise, lookalikes...)
	h.noise = append(h.noise, x.SortedKeys(h.derived)...)
	for _, n := range s.Refs {
		if !has(s.Roles, n) && !has(h.noise, n) {
			h.noise = append(h.noise, n)
		}
	}
	for i := 0; i < 6; i++ {
		h.noise = append(h.noise, "ZQ_"+strings.ToUpper(x.Token(rng, 5)))
	}
	return h
}

// value makes a fresh value for the named variable; every value carries a unique random token.
func (h *hist) value(n string) string {
	tok := x.Token(h.rng, 20)
	h.tokens[n] = append(h.tokens[n], tok)
	switch n {
	case "HOME", "TMPDIR", "TMP_DIR", "GOPATH", "GOROOT":
		d := filepath.Join(h.work, "alt-"+tok)
		os.MkdirAll(d, 0o755)
		return d
	case "PATH":
		return "/usr/local/bin:/usr/bin:/bin:" + filepath.Join(h.work, "bin-"+tok)
	case "BASH_ENV", "ENV":
		return filepath.Join(h.work, "rc-"+tok)
	}
	switch h.rng.Intn(5) {
	case 0:
		return "v " + tok + " w"
	case 1:
		return "k=" + tok
	case 2:
		return "$HOME/" + tok
	}
	return "v" + tok
}

func (h *hist) initial() callerEnv {
	e := callerEnv{}
	for _, n := range h.s.Roles {
		switch c := h.rng.Intn(8); {
		case c < 5:
			e[n] = h.value(n)
		case c == 5:
			e[n] = "" // exported, empty
		}
	}
	for _, n := range h.noise {
		if h.rng.Intn(5) == 0 {
			e[n] = h.value(n)
		}
	}
	for _, n := range h.s.Refs {
		if _, set := e[n]; !set && h.rng.Intn(3) != 0 {
			e[n] = h.value(n)
		}
	}
	return e
}

func presence(e callerEnv, n string) string {
	v, set := e[n]
	switch {
	case !set:
		return "unset"
	case v == "":
		return "empty"
	}
	return "value"
}

func (h *hist) noiseChange(e callerEnv, k int) {
	for i := 0; i < k; i++ {
		n := h.noise[h.rng.Intn(len(h.noise))]
		if n == "PATH" || n == "HOME" { // never unset or empty: plz itself needs them
			e[n] = h.value(n)
			continue
		}
		_, set := e[n]
		switch c := h.rng.Intn(6); {
		case !set || c < 3:
			e[n] = h.value(n)
		case c == 3:
			delete(e, n)
		case c == 4:
			e[n] = ""
		default:
			e[n] = h.value(n)
		}
	}
}

func (h *hist) step(prev callerEnv, past []callerEnv) (callerEnv, string) {
	s := h.s
	e := prev.clone()
	var tpass, hashedNames []string
	for _, n := range s.Roles {
		inT := false
		for _, t := range s.Targets {
			if has(t.PassEnv, n) {
				inT = true
			}
		}
		if inT && !has(s.CfgPass, n) {
			tpass = append(tpass, n)
		}
		if inT || has(s.CfgPass, n) {
			hashedNames = append(hashedNames, n)
		}
	}
	// A passed variable that is unset or exported empty: flip between the two. The action can tell
	// them apart (`env`, ${V+x}, set -u), so whatever plz hands to the action must be what it hashed.
	var hollow []string
	for _, n := range hashedNames {
		if presence(e, n) != "value" {
			hollow = append(hollow, n)
		}
	}
	if len(hollow) > 0 && h.rng.Intn(5) == 0 {
		n := x.Choose(h.rng, hollow)
		if presence(e, n) == "unset" {
			e[n] = ""
			return e, "passed-unset-to-empty"
		}
		delete(e, n)
		return e, "passed-empty-to-unset"
	}
	// A caller variable that some env = {...} value names (never passed to that target).
	if len(s.Refs) > 0 && h.rng.Intn(4) == 0 {
		n := x.Choose(h.rng, s.Refs)
		switch c := h.rng.Intn(6); {
		case presence(e, n) == "unset" || c < 4:
			e[n] = h.value(n)
		case c == 4:
			delete(e, n)
		default:
			e[n] = ""
		}
		return e, "env-referenced-change"
	}
	kind := h.rng.Intn(10)
	switch {
	case kind <= 1 && len(tpass) > 0:
		n := x.Choose(h.rng, tpass)
		e[n] = h.value(n)
		if h.rng.Intn(2) == 0 {
			h.noiseChange(e, 1+h.rng.Intn(2))
		}
		return e, "passed-target-change"
	case kind == 2 && len(s.CfgPass) > 0:
		n := x.Choose(h.rng, s.CfgPass)
		e[n] = h.value(n)
		return e, "passed-config-change"
	case kind == 3 && len(s.CfgUnsafe) > 0:
		n := x.Choose(h.rng, s.CfgUnsafe)
		if _, set := e[n]; set && h.rng.Intn(4) == 0 {
			delete(e, n)
		} else {
			e[n] = h.value(n)
		}
		if h.rng.Intn(2) == 0 {
			h.noiseChange(e, 1)
		}
		return e, "unsafe-change"
	case kind == 4 && len(hashedNames) > 0:
		n := x.Choose(h.rng, hashedNames)
		if v, set := e[n]; set && v != "" {
			delete(e, n)
			return e, "passed-unset"
		}
		e[n] = h.value(n)
		return e, "passed-set"
	case kind == 5 && len(hashedNames) > 0:
		n := x.Choose(h.rng, hashedNames)
		if v, set := e[n]; !set {
			e[n] = ""
		} else if v == "" {
			delete(e, n)
		} else {
			e[n] = ""
		}
		return e, "passed-empty-or-unset"
	case kind == 6 && len(past) >= 2:
		return past[h.rng.Intn(len(past)-1)].clone(), "revert"
	case kind == 7:
		return e, "identical"
	}
	h.noiseChange(e, 1+h.rng.Intn(4))
	return e, "nonpassed-change"
}

func parseDump(b string) (map[string]string, []string) {
	m := map[string]string{}
	var order []string
	last := ""
	for _, l := range strings.Split(strings.TrimRight(b, "\n"), "\n") {
		k, v, ok := strings.Cut(l, "=")
		if !ok || k == "" || strings.ContainsAny(k, " \t") {
			if last != "" {
				m[last] += "\n" + l
			}
			continue
		}
		m[k] = v
		order = append(order, k)
		last = k
	}
	return m, order
}

type stepRec struct {
	Step    int      `json:"step"`
	Kind    string   `json:"kind"`
	Env     []string `json:"caller_env"`
	Started []string `json:"started"`
	Fresh   bool     `json:"followed_by_fresh_build,omitempty"`
}

// stepsSince counts the invocations since the action with this id last started (0 = in the latest one).
func stepsSince(trail []stepRec, id string) int {
	for j := len(trail) - 1; j >= 0; j-- {
		if x.Ran(trail[j].Started, id) {
			return len(trail) - 1 - j
		}
	}
	return len(trail)
}

func TestC10(t *testing.T) {
	r := lib.Start("C10")
	defer lib.End(t, r)
	r.Rule = "case = one (target, invocation) pair: a genrule dumping `env`, built by plz under the next caller environment of a generated history (changes of target-level pass_env / config passenv / passunsafeenv variables, of look-alike and random non-passed variables, of variables named by `$NAME` inside env = {...} values, set/unset/empty and unset<->exported-empty flips of passed variables, reverts; a fresh build of the same tree under the same caller environment after every unset<->empty flip and at the end of the history); distinct by (repository, previous and current caller environment, target); non-trivial = the caller environment differs from the previous invocation's"
	r.Assumes = []string{"plz is started through lib.PlzCmd with a fixed minimal base environment plus the generated caller variables", "whether an action ran is observed by a mkdir marker baked into the command", "values of caller variables carry 80-bit random tokens, so finding one in a dump is a leak and not a coincidence", "a build of the same tree at the same path with plz-out removed and the directory cache disabled is the reference for what the action should see"}
	bin := lib.PlzBin(false)
	binDir := filepath.Dir(bin)
	if p, err := filepath.EvalSymlinks(bin); err == nil {
		binDir = filepath.Dir(p)
	}
	n := r.Pick(27, 520)
	envsPer := 5 // invocations after the first, per history (a count, not scaled by VERIF_SCALE so that scaled runs are prefixes of full runs)
	if !r.Quick() {
		envsPer = 8
	}
	r.ForEach("history", n, 8, func(i int, rng *rand.Rand) {
		sb := e2e.NewSandbox(filepath.Join(r.Scratch(), fmt.Sprintf("h%d", i)))
		defer lib.RemoveAll(sb.Work)
		s := generate(rng)
		if err := lib.WriteTree(sb.Repo, s.files(sb.VLog)); err != nil {
			panic(err)
		}
		h := newHist(s, rng, sb.Work)
		var past []callerEnv
		var trail []stepRec
		prevOut := map[string]string{}
		lastRunEnv := map[string]callerEnv{} // label -> caller environment of the invocation in which its action last ran
		var prev callerEnv
		for step := 0; step <= envsPer; step++ {
			var cur callerEnv
			kind := "initial"
			if step == 0 {
				cur = h.initial()
			} else {
				cur, kind = h.step(prev, past)
			}
			sb.ResetProbe()
			res := sb.Plz(bin, cur.list(), 120*time.Second, "build", "//...")
			probe := sb.ReadProbe()
			trail = append(trail, stepRec{Step: step, Kind: kind, Env: cur.list(), Started: probe.Started})
			wit := map[string]any{"spec": s, "trail": trail, "build_files": s.files(sb.VLog)}
			if res.TimedOut {
				r.Inconclusive(fmt.Sprintf("history %d step %d: plz timed out", i, step))
				return
			}
			r.Obs("invocations", 1)
			r.ObsDistinct("step_kinds", kind)
			if res.Exit != 0 {
				wit["stderr"] = lib.Tail(res.Stderr, 1500)
				r.Violation("build-fails/"+kind, fmt.Sprintf("plz build exits %d under caller environment step %q", res.Exit, kind), wit, i)
				return
			}
			envChanged := step > 0 && lib.JSON(prev.list()) != lib.JSON(cur.list())
			// per target expectations
			required := map[int]string{} // index -> level of the changed variable
			allowed := map[int]bool{}
			unsafeCh := map[int]bool{}
			for ti, tg := range s.Targets {
				if step == 0 {
					allowed[ti] = true
					required[ti] = "first-build"
					continue
				}
				for _, nme := range s.Roles {
					pv, pset := prev[nme]
					cv, cset := cur[nme]
					if pv == cv && pset == cset {
						continue
					}
					if s.hashed(tg, nme) {
						allowed[ti] = true
						if pv != cv { // a definite change of value (unset counts as empty here; unset<->empty alone demands nothing)
							required[ti] = s.level(tg, nme)
						}
					} else if s.visible(tg, nme) {
						unsafeCh[ti] = true
					}
				}
				if tg.srcIdx >= 0 && allowed[tg.srcIdx] {
					allowed[ti] = true
				}
			}
			for ti, tg := range s.Targets {
				ran := x.Ran(probe.Started, tg.id())
				outPath := x.Gen(sb.Repo, tg.Pkg, tg.Name+".env")
				out, ok := x.ReadFile(outPath)
				if !ok {
					r.Violation("output-missing/"+kind, "build succeeded but the target's output is missing: "+tg.label(), wit, i)
					return
				}
				r.Case(lib.Hash(lib.JSON(s), lib.JSON(prev.list()), lib.JSON(cur.list()), tg.label()), envChanged)
				r.Obs("target_checks", 1)
				if ran {
					r.Obs("actions_executed", 1)
				}
				cause := "identical-env"
				if unsafeCh[ti] {
					cause = "unsafe-env-change"
				} else if envChanged {
					cause = "nonpassed-env-change"
				}
				if lvl, req := required[ti]; req && !ran {
					r.Violation("missed-rebuild/"+lvl, fmt.Sprintf("%s: a %s variable changed value between invocations but the action did not re-run (step %q)", tg.label(), lvl, kind), wit, i)
					return
				} else if req && step > 0 {
					r.Obs("required_reruns_observed", 1)
				}
				if ran && !allowed[ti] {
					wit["target"] = tg.label()
					r.Violation("spurious-rebuild/"+cause, fmt.Sprintf("%s re-ran although no hashed pass variable of it changed (%s, step %q)", tg.label(), cause, kind), wit, i)
					return
				}
				if !ran && step > 0 {
					r.Obs("forbidden_or_unneeded_reruns_absent", 1)
					if out != prevOut[tg.label()] {
						r.Violation("output-changed-without-rerun/"+cause, tg.label()+": output bytes changed although the action did not run", wit, i)
						return
					}
				}
				dump, order := parseDump(out)
				// (1) reference environment
				for _, k := range order {
					explained := fixedNames[k] || s.visible(tg, k)
					for _, p := range fixedPrefixes {
						explained = explained || strings.HasPrefix(k, p)
					}
					if _, ok := tg.Env[k]; ok {
						explained = true
					}
					for bk := range s.BuildEnv {
						if strings.ReplaceAll(strings.ToUpper(bk), "-", "_") == k {
							explained = true
						}
					}
					if !explained {
						wit["target"], wit["dump"] = tg.label(), out
						r.Violation("unexplained-var/"+s.classOf(k, h.derived), fmt.Sprintf("%s: variable %s is in the build environment but is neither documented, nor env, nor passed", tg.label(), k), wit, i)
						return
					}
				}
				r.Obs("dump_variables_checked", int64(len(order)))
				for _, nme := range x.SortedKeys(h.tokens) {
					if s.visible(tg, nme) {
						continue
					}
					for _, tok := range h.tokens[nme] {
						if strings.Contains(out, tok) {
							wit["target"], wit["dump"] = tg.label(), out
							r.Violation("leak/value-of-"+s.classOf(nme, h.derived), fmt.Sprintf("%s: the value of caller variable %s (not passed to this target) appears in its build environment", tg.label(), nme), wit, i)
							return
						}
					}
				}
				r.Obs("nonpassed_tokens_searched", int64(len(h.tokens)))
				for _, k := range x.SortedKeys(tg.EnvRefs) {
					if presence(cur, tg.EnvRefs[k]) == "value" {
						r.Obs("env_dict_references_checked", 1)
						r.ObsDistinct("env_dict_reference_classes", s.classOf(tg.EnvRefs[k], h.derived))
					}
				}
				// documented values that a caller look-alike must not disturb
				want := map[string]string{"HOME": dump["TMP_DIR"], "TMPDIR": dump["TMP_DIR"], "PWD": dump["TMP_DIR"], "PKG": tg.Pkg, "NAME": tg.Name,
					"PLZ_ENV": "1", "PYTHONHASHSEED": "42", "PATH": binDir + ":/usr/local/bin:/usr/bin:/bin", "LANG": "en_GB.UTF-8",
					"TMP_DIR": filepath.Join(sb.Repo, "plz-out/tmp", tg.Pkg, tg.Name+"._build")}
				if s.Lang != "" {
					want["LANG"] = s.Lang
				}
				for bk, bv := range s.BuildEnv {
					want[strings.ReplaceAll(strings.ToUpper(bk), "-", "_")] = bv
				}
				for k, v := range tg.Env {
					if _, isRef := tg.EnvRefs[k]; isRef {
						continue // what an unresolvable reference turns into is not specified; only that the caller cannot influence it (token search, (2), (3))
					}
					want[k] = strings.ReplaceAll(v, "$PKG", tg.Pkg)
				}
				for _, k := range x.SortedKeys(want) {
					if dump[k] != want[k] {
						wit["target"], wit["dump"] = tg.label(), out
						r.Violation("wrong-builtin-value/"+k, fmt.Sprintf("%s: %s is %q in the build environment, expected %q", tg.label(), k, dump[k], want[k]), wit, i)
						return
					}
				}
				// passed variables: visible with the caller's value (hashed ones always current; unsafe ones current if the action ran)
				for _, nme := range s.Roles {
					if !s.visible(tg, nme) {
						continue
					}
					if !s.hashed(tg, nme) && !ran {
						continue
					}
					cv := cur[nme] // unset and empty are not distinguished by the statement
					if dump[nme] != cv {
						lvl := s.level(tg, nme)
						wit["target"], wit["dump"] = tg.label(), out
						key := "passed-value-not-reflected/" + lvl
						if !ran {
							key = "stale-passed-value/" + lvl
						}
						r.Violation(key, fmt.Sprintf("%s: %s variable %s is %q in the build environment, the caller has %q", tg.label(), lvl, nme, dump[nme], cv), wit, i)
						return
					}
					r.Obs("passed_values_checked", 1)
					r.ObsDistinct("pass_levels", s.level(tg, nme))
				}
				// (2) nothing but the visible variables (and the rule hash they feed) may differ from the previous output
				if step > 0 {
					pd, _ := parseDump(prevOut[tg.label()])
					keys := map[string]bool{}
					for k := range pd {
						keys[k] = true
					}
					for k := range dump {
						keys[k] = true
					}
					for k := range keys {
						if k == "RULE_HASH" || s.visible(tg, k) {
							continue
						}
						if pd[k] != dump[k] {
							wit["target"], wit["dump"], wit["previous_dump"] = tg.label(), out, prevOut[tg.label()]
							r.Violation("output-changed/"+k, fmt.Sprintf("%s: %s changed from %q to %q between two invocations that differ only in the caller environment", tg.label(), k, pd[k], dump[k]), wit, i)
							return
						}
					}
				}
				prevOut[tg.label()] = out
				if ran {
					lastRunEnv[tg.label()] = cur
				}
			}
			// (3) incremental == fresh, where the caller environment is what separates them
			hollowMove := ""
			if step > 0 {
				for _, nme := range s.Roles {
					pp, cp := presence(prev, nme), presence(cur, nme)
					if pp != cp && pp != "value" && cp != "value" {
						for _, tg := range s.Targets {
							if s.hashed(tg, nme) {
								hollowMove = pp + "-to-" + cp
							}
						}
					}
				}
			}
			if hollowMove != "" || step == envsPer {
				trail[len(trail)-1].Fresh = true
				lib.RemoveAll(filepath.Join(sb.Repo, "plz-out"))
				sb.ResetProbe()
				fres := sb.Plz(bin, cur.list(), 120*time.Second, "build", "//...")
				if fres.TimedOut {
					r.Inconclusive(fmt.Sprintf("history %d step %d: fresh build timed out", i, step))
					return
				}
				if fres.Exit != 0 { // plz very occasionally dies under heavy machine load; only a failure that repeats is reported
					lib.RemoveAll(filepath.Join(sb.Repo, "plz-out"))
					sb.ResetProbe()
					fres = sb.Plz(bin, cur.list(), 120*time.Second, "build", "//...")
					r.Obs("fresh_build_retries", 1)
				}
				r.Obs("fresh_builds", 1)
				if hollowMove != "" {
					r.Obs("fresh_builds_after_unset_empty_transition", 1)
					r.ObsDistinct("unset_empty_transitions", hollowMove)
				}
				if fres.Exit != 0 {
					wit["stderr"] = lib.Tail(fres.Stderr, 1500)
					r.Violation("fresh-build-fails/"+kind, fmt.Sprintf("plz build of the same tree with an empty plz-out exits %d (the incremental build succeeded)", fres.Exit), wit, i)
					return
				}
				for _, tg := range s.Targets {
					fout, ok := x.ReadFile(x.Gen(sb.Repo, tg.Pkg, tg.Name+".env"))
					if !ok {
						r.Violation("output-missing/fresh-build", "fresh build succeeded but the target's output is missing: "+tg.label(), wit, i)
						return
					}
					inc := prevOut[tg.label()]
					id, _ := parseDump(inc)
					fd, _ := parseDump(fout)
					keys := map[string]bool{}
					for k := range id {
						keys[k] = true
					}
					for k := range fd {
						keys[k] = true
					}
					for _, k := range x.SortedKeys(keys) {
						if s.visible(tg, k) && !s.hashed(tg, k) {
							continue // passunsafeenv: visible, by design not a reason to rebuild
						}
						if k == "RULE_HASH" {
							continue // covers the content of upstream outputs, which legitimately differ fresh vs incremental in passunsafeenv variables
						}
						iv, ihas := id[k]
						fv, fhas := fd[k]
						if iv == fv && ihas == fhas {
							continue
						}
						class := k
						if s.hashed(tg, k) {
							class = s.level(tg, k) + "/" + presence(lastRunEnv[tg.label()], k) + "-to-" + presence(cur, k)
						} else if _, isRef := tg.EnvRefs[k]; isRef {
							class = "env-dict-value-naming-" + s.classOf(tg.EnvRefs[k], h.derived)
						}
						show := func(v string, has bool) string {
							if !has {
								return "(absent)"
							}
							return k + "=" + v
						}
						wit["target"], wit["incremental_dump"], wit["fresh_dump"] = tg.label(), inc, fout
						wit["caller_env_when_the_action_last_ran"] = lastRunEnv[tg.label()].list()
						r.Violation("incremental-differs-from-fresh/"+class, fmt.Sprintf("%s: the up-to-date output (action last ran %d invocation(s) ago) shows %s, a fresh build under the current caller environment shows %s", tg.label(), stepsSince(trail, tg.id()), show(iv, ihas), show(fv, fhas)), wit, i)
						return
					}
					r.Obs("fresh_comparisons_equal", 1)
					prevOut[tg.label()] = fout
					lastRunEnv[tg.label()] = cur
				}
			}
			past = append(past, cur)
			prev = cur
		}
		if r.WantSample() {
			r.Sample(map[string]any{"spec": s, "trail": trail})
		}
	})
	r.RequireObserved("invocations", "actions_executed", "required_reruns_observed", "forbidden_or_unneeded_reruns_absent", "passed_values_checked", "nonpassed_tokens_searched",
		"fresh_builds", "fresh_builds_after_unset_empty_transition", "fresh_comparisons_equal", "env_dict_references_checked")
}

// C35 — declared output hashes are enforced exactly.
// Monitor: generated repositories of targets that declare `hashes` (single file, several files, a
// directory output, text_file, filegroup) under varied [build] hashfunction / hashcheckers, built by
// the real plz binary through histories: first build, content edits (A -> B -> A), repeated builds,
// plz-out wipes, and with a directory cache: restores, poisoned cache entries (in place, keeping the
// xattrs, or replaced), a transient action failure right after a rejected restore, `plz hash`.
// Reference hashes come from `plz hash` on a twin repository whose targets declare a dummy hash (the
// documented way to obtain the value), per algorithm via -o build.hashfunction; for single-file
// outputs sha1/sha256 are additionally computed independently. Oracle: a target builds successfully
// iff a declared value (prefix stripped) equals a reference hash under a configured algorithm; a
// successful target's outputs equal the outputs its command produces (so nothing unverified, stale
// or poisoned is trusted); both hold at every invocation of the history.
package c35

import (
	"crypto/sha1"
	"crypto/sha256"
	"encoding/hex"
	"fmt"
	"math/rand"
	"os"
	"path/filepath"
	"regexp"
	"sort"
	"strings"
	"testing"
	"time"

	"verifharness/e2e"
	x "verifharness/e2ealib"
	"verifharness/lib"
)

const pkg = "p"

var allAlgos = []string{"sha1", "sha256", "blake3", "xxhash", "crc32", "crc64"}
var defaultCheckers = []string{"sha1", "sha256", "blake3"}

type tgt struct {
	Name     string   `json:"name"`
	Shape    string   `json:"shape"` // file | multi | dir | text | filegroup
	Declared []string `json:"hashes"`
	Classes  []string `json:"classes"` // how each declared value was derived
	Ver      string   `json:"content_version"`
}

func (t *tgt) label() string { return "//" + pkg + ":" + t.Name }
func (t *tgt) hasCmd() bool  { return t.Shape == "file" || t.Shape == "multi" || t.Shape == "dir" }

type spec struct {
	HashFunction string            `json:"hashfunction"` // "" = default (sha256)
	Checkers     []string          `json:"hashcheckers"` // nil = default (sha1, sha256, blake3)
	Cache        bool              `json:"dir_cache"`
	Targets      []*tgt            `json:"targets"`
	Tok          map[string]string `json:"content_tokens"` // version -> token
}

func (s *spec) hashFn() string {
	if s.HashFunction == "" {
		return "sha256"
	}
	return s.HashFunction
}

func (s *spec) checkers() []string {
	if s.Checkers == nil {
		return defaultCheckers
	}
	return s.Checkers
}

func (s *spec) configured() map[string]bool {
	m := map[string]bool{s.hashFn(): true}
	for _, c := range s.checkers() {
		m[c] = true
	}
	return m
}

func (s *spec) content(t *tgt, ver string) string {
	return fmt.Sprintf("%s %s %s\n", ver, t.Name, s.Tok[ver])
}

// outputs is what the target's action produces for a content version, relative to plz-out/gen/<pkg>.
func (s *spec) outputs(t *tgt, ver string) map[string]string {
	c := s.content(t, ver)
	switch t.Shape {
	case "file":
		return map[string]string{t.Name + ".out": c}
	case "multi":
		return map[string]string{t.Name + "_a.out": c, t.Name + "_b.out": "fixed-" + t.Name + "\n"}
	case "dir":
		return map[string]string{t.Name + "_d/a": c, t.Name + "_d/b": "x\n"}
	case "text":
		return map[string]string{t.Name + ".txt": c}
	case "filegroup":
		return map[string]string{t.Name + ".src": c}
	}
	panic("shape")
}

func (s *spec) outRoots(t *tgt) []string {
	switch t.Shape {
	case "file":
		return []string{t.Name + ".out"}
	case "multi":
		return []string{t.Name + "_a.out", t.Name + "_b.out"}
	case "dir":
		return []string{t.Name + "_d"}
	case "text":
		return []string{t.Name + ".txt"}
	}
	return []string{t.Name + ".src"}
}

// files renders the repository. The twin declares a dummy hash everywhere, has no probe and no cache.
func (s *spec) files(twin bool, vers map[string]string, vlog, flag, cacheDir string) map[string]string {
	extra := ""
	if !twin {
		extra = "\n[build]\n"
		if s.HashFunction != "" {
			extra += "hashfunction = " + s.HashFunction + "\n"
		}
		for _, c := range s.Checkers {
			extra += "hashcheckers = " + c + "\n"
		}
	}
	cd := ""
	if s.Cache && !twin {
		cd = cacheDir
	}
	files := map[string]string{".plzconfig": x.BaseConfig(cd, extra)}
	var sb strings.Builder
	for _, t := range s.Targets {
		hashes := t.Declared
		pre := ""
		if twin {
			hashes = []string{"twin"}
		} else {
			pre = x.Probe(vlog, t.Name) + `; if [ -e "` + flag + `" ]; then exit 1; fi; `
		}
		ver := vers[t.Name]
		n := t.Name
		var r *x.Rule
		switch t.Shape {
		case "file":
			files[pkg+"/"+n+".src"] = s.content(t, ver)
			r = x.NewRule("genrule", n).List("srcs", []string{n + ".src"}).List("outs", []string{n + ".out"}).Str("cmd", pre+`cat $SRCS > "$OUT"`)
		case "multi":
			files[pkg+"/"+n+".src"] = s.content(t, ver)
			r = x.NewRule("genrule", n).List("srcs", []string{n + ".src"}).List("outs", []string{n + "_a.out", n + "_b.out"}).
				Str("cmd", pre+"cat $SRCS > "+n+"_a.out; echo fixed-"+n+" > "+n+"_b.out")
		case "dir":
			files[pkg+"/"+n+".src"] = s.content(t, ver)
			r = x.NewRule("genrule", n).List("srcs", []string{n + ".src"}).List("outs", []string{n + "_d"}).
				Str("cmd", pre+"mkdir "+n+"_d; cat $SRCS > "+n+"_d/a; echo x > "+n+"_d/b")
		case "text":
			r = x.NewRule("text_file", n).Str("out", n+".txt").Str("content", s.content(t, ver))
		case "filegroup":
			files[pkg+"/"+n+".src"] = s.content(t, ver)
			r = x.NewRule("filegroup", n).List("srcs", []string{n + ".src"})
		}
		r.List("hashes", hashes)
		sb.WriteString(r.Render())
	}
	files[pkg+"/BUILD"] = sb.String()
	return files
}

var hashLine = regexp.MustCompile(`(?m)^\s+(//[^\s:]+:[A-Za-z0-9_]+): ([0-9a-f]+)\s*$`)
var failedLine = regexp.MustCompile(`(//[^\s:]+:[A-Za-z0-9_]+) failed`)

// refs[version][algo][target name] = hex hash as printed by `plz hash` on the twin.
type refs map[string]map[string]map[string]string

func independent(algo, content string) string {
	switch algo {
	case "sha1":
		h := sha1.Sum([]byte(content))
		return hex.EncodeToString(h[:])
	case "sha256":
		h := sha256.Sum256([]byte(content))
		return hex.EncodeToString(h[:])
	}
	return ""
}

func strip(v string) string {
	if i := strings.LastIndexByte(v, ':'); i >= 0 {
		return strings.TrimSpace(v[i+1:])
	}
	return v
}

// oracle state for one history
type oracle struct {
	s    *spec
	refs refs
}

// acceptable returns the reference hashes under configured algorithms (algo by value) and the values
// whose acceptance the statement leaves open.
func (o *oracle) acceptable(t *tgt, ver string) (acc map[string]string, open map[string]bool) {
	acc, open = map[string]string{}, map[string]bool{}
	conf := o.s.configured()
	for algo, m := range o.refs[ver] {
		v, ok := m[t.Name]
		if !ok || !conf[algo] {
			continue
		}
		// For a directory output the twin's `plz hash` under another hash function is not documented to be
		// what a checker of that algorithm computes; only the value under the repository's own hash function is.
		if t.Shape == "dir" && algo != o.s.hashFn() {
			open[v] = true
			continue
		}
		acc[v] = algo
	}
	return acc, open
}

// expect returns pass | fail | open and, for pass, the class/algorithm of the matching value.
func (o *oracle) expect(t *tgt, ver string) (string, string) {
	acc, open := o.acceptable(t, ver)
	declared := 0
	for _, v := range t.Declared {
		if v != "" {
			declared++
		}
	}
	if declared == 0 { // empty strings are dropped by the BUILD language: nothing is declared
		return "open", ""
	}
	for i, v := range t.Declared {
		if a, ok := acc[strip(v)]; ok {
			rel := "checker-only"
			if a == o.s.hashFn() {
				rel = "hashfunction"
			}
			return "pass", t.Classes[i] + "/" + a + "/" + rel
		}
	}
	for _, v := range t.Declared {
		sv := strip(v)
		lv := strings.ToLower(sv)
		if _, ok := acc[lv]; ok || open[sv] || open[lv] {
			return "open", ""
		}
	}
	return "fail", ""
}

func flipNibble(h string, pos int) string {
	const hexd = "0123456789abcdef"
	b := []byte(h)
	i := strings.IndexByte(hexd, b[pos])
	b[pos] = hexd[(i+1+pos%14)%16]
	if b[pos] == h[pos] {
		b[pos] = hexd[(i+1)%16]
	}
	return string(b)
}

// declare draws the declared hash list of a target.
func declare(rng *rand.Rand, s *spec, t *tgt, rf refs, nonconf string) {
	conf := s.configured()
	var confAlgos []string
	for _, a := range allAlgos {
		if conf[a] && rf["A"][a][t.Name] != "" && (t.Shape != "dir" || a == s.hashFn()) {
			confAlgos = append(confAlgos, a)
		}
	}
	pickAlgo := func() string { return confAlgos[rng.Intn(len(confAlgos))] }
	ref := func(a string) string { return rf["A"][a][t.Name] }
	add := func(v, class string) {
		t.Declared = append(t.Declared, v)
		t.Classes = append(t.Classes, class)
	}
	wrong := func() {
		a := pickAlgo()
		h := ref(a)
		switch c := rng.Intn(100); {
		case c < 22:
			pos := []int{0, len(h) - 1, rng.Intn(len(h))}[rng.Intn(3)]
			add(flipNibble(h, pos), "near-miss")
		case c < 42:
			ks := []int{0, 1, 8, len(h) / 2, len(h) - 1}
			for _, b := range confAlgos { // the digest length of another configured algorithm
				if l := len(ref(b)); l < len(h) {
					ks = append(ks, l, l)
				}
			}
			k := ks[rng.Intn(len(ks))]
			if k > len(h)-1 {
				k = len(h) - 1
			}
			v := h[:k]
			if rng.Intn(3) == 0 || k == 0 {
				// (a bare "" is never declared: the BUILD language drops empty strings from string lists, so it
				// declares nothing; "algo: " with an empty value is a declared, non-matching value)
				v = a + ": " + v
			}
			add(v, "truncated")
		case c < 54:
			add(h+[]string{"0", "00", h[:8], h}[rng.Intn(4)], "extended")
		case c < 66 && nonconf != "" && rf["A"][nonconf][t.Name] != "":
			add(rf["A"][nonconf][t.Name], "nonconfigured-algo")
		case c < 74:
			add(strings.ToUpper(h), "uppercase")
		case c < 84:
			add(a+": "+flipNibble(h, rng.Intn(len(h))), "near-miss-prefixed")
		case c < 92 && rf["B"][a][t.Name] != "":
			add(rf["B"][a][t.Name], "correct-for-other-content")
		default:
			add([]string{"deadbeef", "not-a-hash", "0000000000000000000000000000000000000000"}[rng.Intn(3)], "garbage")
		}
	}
	k := 1 + rng.Intn(3)
	pass := rng.Intn(100) < 58
	other := rng.Intn(100) < 18
	for len(t.Declared) < k {
		switch {
		case pass:
			pass = false
			a := pickAlgo()
			if rng.Intn(2) == 0 {
				add(ref(a), "correct")
			} else {
				pa := []string{a, a, "sha256", "sha1", strings.ToUpper(a)}[rng.Intn(5)]
				sep := []string{": ", ":", ":  "}[rng.Intn(3)]
				tail := []string{"", "", " "}[rng.Intn(3)]
				add(pa+sep+ref(a)+tail, "correct-prefixed")
			}
		case other:
			other = false
			a := pickAlgo()
			if v := rf["B"][a][t.Name]; v != "" {
				add(v, "correct-for-other-content")
			} else {
				wrong()
			}
		default:
			wrong()
		}
	}
	// permute so that the correct value is not always first
	rng.Shuffle(len(t.Declared), func(i, j int) {
		t.Declared[i], t.Declared[j] = t.Declared[j], t.Declared[i]
		t.Classes[i], t.Classes[j] = t.Classes[j], t.Classes[i]
	})
}

func generate(rng *rand.Rand) *spec {
	s := &spec{Tok: map[string]string{"A": x.Token(rng, 12), "B": x.Token(rng, 12)}, Cache: rng.Intn(5) < 3}
	switch c := rng.Intn(100); {
	case c < 40:
	case c < 55:
		s.HashFunction = "sha1"
	case c < 65:
		s.HashFunction = "sha256"
	case c < 80:
		s.HashFunction = "blake3"
	case c < 90:
		s.HashFunction = "xxhash"
	default:
		s.HashFunction = "crc64"
	}
	switch c := rng.Intn(100); {
	case c < 35:
	case c < 50:
		s.Checkers = []string{"sha256"}
	case c < 60:
		s.Checkers = []string{"sha1"}
	case c < 70:
		s.Checkers = []string{"blake3", "sha1"}
	case c < 80:
		s.Checkers = []string{"sha256", "crc32"}
	case c < 90:
		s.Checkers = []string{"xxhash", "crc64", "sha256"}
	default:
		s.Checkers = []string{"sha1", "sha256", "blake3", "xxhash", "crc32", "crc64"}
	}
	shapes := []string{"file", "multi", "dir", "text", "filegroup", "file", "multi", "dir"}
	rng.Shuffle(len(shapes), func(i, j int) { shapes[i], shapes[j] = shapes[j], shapes[i] })
	for i := 0; i < 3; i++ {
		s.Targets = append(s.Targets, &tgt{Name: fmt.Sprintf("h%d", i), Shape: shapes[i], Ver: "A"})
	}
	return s
}

func versions(s *spec, all string) map[string]string {
	m := map[string]string{}
	for _, t := range s.Targets {
		if all != "" {
			m[t.Name] = all
		} else {
			m[t.Name] = t.Ver
		}
	}
	return m
}

// readOutputs lists the files under the target's output roots.
func readOutputs(repo string, s *spec, t *tgt) map[string]string {
	out := map[string]string{}
	base := x.Gen(repo, pkg)
	for _, root := range s.outRoots(t) {
		filepath.Walk(filepath.Join(base, root), func(p string, info os.FileInfo, err error) error {
			if err != nil || info.IsDir() {
				return nil
			}
			rel, _ := filepath.Rel(base, p)
			b, _ := os.ReadFile(p)
			out[rel] = string(b)
			return nil
		})
	}
	return out
}

// poison changes the content of one cached output file of the target. In place keeps the inode and
// with it the xattrs Please recorded (rule hash, memoised content hash); replace makes a new file.
func poison(rng *rand.Rand, cacheDir string, t *tgt, inplace bool) []string {
	var cands []string
	filepath.Walk(filepath.Join(cacheDir, pkg, t.Name), func(p string, info os.FileInfo, err error) error {
		if err == nil && info.Mode().IsRegular() && !strings.HasPrefix(filepath.Base(p), ".target_build_metadata") {
			cands = append(cands, p)
		}
		return nil
	})
	sort.Strings(cands)
	if len(cands) == 0 {
		return nil
	}
	// one file per cache entry (an entry is the directory below <cache>/<pkg>/<name>/)
	byEntry := map[string][]string{}
	for _, p := range cands {
		rel, _ := filepath.Rel(filepath.Join(cacheDir, pkg, t.Name), p)
		e := strings.SplitN(rel, string(filepath.Separator), 2)[0]
		byEntry[e] = append(byEntry[e], p)
	}
	var done []string
	for _, e := range x.SortedKeys(byEntry) {
		ps := byEntry[e]
		p := ps[rng.Intn(len(ps))]
		content := []byte("POISONED " + x.Token(rng, 8) + "\n")
		fi, err := os.Stat(p)
		if err != nil {
			continue
		}
		os.Chmod(filepath.Dir(p), 0o755)
		if inplace {
			os.Chmod(p, 0o644)
			if f, err := os.OpenFile(p, os.O_WRONLY|os.O_TRUNC, 0); err == nil {
				f.Write(content)
				f.Close()
				os.Chmod(p, fi.Mode().Perm())
				done = append(done, p)
			}
		} else {
			tmp := p + ".new"
			if os.WriteFile(tmp, content, fi.Mode().Perm()) == nil && os.Rename(tmp, p) == nil {
				done = append(done, p)
			}
		}
	}
	return done
}

type stepRec struct {
	Step     int               `json:"step"`
	Phase    string            `json:"phase"`
	Versions map[string]string `json:"content_versions"`
	Exit     int               `json:"exit"`
	Failed   []string          `json:"failed_targets"`
	Started  []string          `json:"actions_executed"`
	Note     string            `json:"note,omitempty"`
}

func classKey(t *tgt) string {
	c := append([]string(nil), t.Classes...)
	sort.Strings(c)
	var u []string
	for i, v := range c {
		if i == 0 || v != c[i-1] {
			u = append(u, v)
		}
	}
	return strings.Join(u, "+")
}

func nearValid(t *tgt) bool {
	for _, c := range t.Classes {
		if c != "garbage" {
			return true
		}
	}
	return false
}

func TestC35(t *testing.T) {
	r := lib.Start("C35")
	defer lib.End(t, r)
	r.Rule = "case = one (target with declared hashes, plz build invocation) verdict in a generated history; distinct by (hash configuration, shape, declared list, content version, phase of the history); non-trivial = the declared list contains at least one value derived from a real hash of the outputs (correct, prefixed, for the other content version, near-miss, truncated, extended, other algorithm, upper-case), i.e. not garbage only"
	r.Assumes = []string{"`plz hash` on a twin target that declares a dummy hash prints the documented hash of its outputs under the active build.hashfunction", "sha1/sha256 of a single output file are computed independently and cross-checked against the twin", "generated commands are deterministic functions of their source file", "whether an action executed is observed by a mkdir marker baked into the command"}
	bin := lib.PlzBin(false)
	n := r.Pick(18, 200)
	steps := 5
	r.ForEach("history", n, 8, func(i int, rng *rand.Rand) {
		sb := e2e.NewSandbox(filepath.Join(r.Scratch(), fmt.Sprintf("h%d", i)))
		defer lib.RemoveAll(sb.Work)
		flag := filepath.Join(sb.Work, "failflag")
		s := generate(rng)
		conf := s.configured()
		// --- reference hashes from the twin
		twin := e2e.NewSandbox(filepath.Join(sb.Work, "twin"))
		var nonconfs []string
		for _, a := range allAlgos {
			if !conf[a] {
				nonconfs = append(nonconfs, a)
			}
		}
		nonconf := ""
		if len(nonconfs) > 0 {
			nonconf = nonconfs[rng.Intn(len(nonconfs))]
		}
		rf := refs{"A": {}, "B": {}}
		need := map[string][]string{}
		// reference values are computed for the hash function, up to two other configured algorithms and one
		// algorithm that is not configured; declared values are only ever derived from these
		var others []string
		for _, a := range allAlgos {
			if conf[a] && a != s.hashFn() {
				others = append(others, a)
			}
		}
		rng.Shuffle(len(others), func(a, b int) { others[a], others[b] = others[b], others[a] })
		if len(others) > 2 {
			others = others[:2]
		}
		need["A"] = append([]string{s.hashFn()}, others...)
		if nonconf != "" {
			need["A"] = append(need["A"], nonconf)
		}
		need["B"] = []string{s.hashFn()}
		for _, ver := range []string{"A", "B"} {
			must(x.SyncTree(twin.Repo, s.files(true, versions(s, ver), "", "", ""), nil))
			for _, a := range need[ver] {
				res := twin.Plz(bin, nil, 180*time.Second, "-o", "build.hashfunction:"+a, "hash", "//"+pkg+":all")
				r.Obs("twin_hash_invocations", 1)
				if res.TimedOut {
					r.Inconclusive(fmt.Sprintf("history %d: twin plz hash timed out", i))
					return
				}
				rf[ver][a] = map[string]string{}
				for _, m := range hashLine.FindAllStringSubmatch(res.Stdout+"\n"+res.Stderr, -1) {
					rf[ver][a][strings.TrimPrefix(m[1], "//"+pkg+":")] = m[2]
				}
				for _, tg := range s.Targets {
					h := rf[ver][a][tg.Name]
					if h == "" {
						r.FatalInconclusive(fmt.Sprintf("history %d: plz hash (%s) printed no hash for twin of %s (exit %d): %s", i, a, tg.label(), res.Exit, lib.Tail(res.Stderr, 500)))
						return
					}
					if ind := independent(a, s.content(tg, ver)); ind != "" && (tg.Shape == "file" || tg.Shape == "text" || tg.Shape == "filegroup") {
						r.Obs("single_file_hashes_cross_checked", 1)
						if ind != h {
							r.Violation("plz-hash-is-not-the-content-digest/"+a+"/"+tg.Shape, fmt.Sprintf("plz hash prints %s for the single output of %s, its %s digest is %s", h, tg.label(), a, ind),
								map[string]any{"spec": s, "twin_files": s.files(true, versions(s, ver), "", "", "")}, i)
							return
						}
					}
				}
			}
		}
		for _, tg := range s.Targets {
			declare(rng, s, tg, rf, nonconf)
		}
		orc := &oracle{s: s, refs: rf}
		// --- the history
		var trail []stepRec
		stored := map[string]bool{} // target name -> a cache entry may exist
		prevFailed := map[string]bool{}
		everPassed, everFailed := map[string]bool{}, map[string]bool{} // "<name>/<version>" -> observed verdicts so far
		tainted := map[string]bool{}                                    // target name -> a poisoned cache entry of it has not been overwritten by a successful build yet
		build := func(step int, phase string, check bool, note string) bool {
			sb.ResetProbe()
			var labels []string
			for _, tg := range s.Targets {
				labels = append(labels, tg.label())
			}
			res := sb.Plz(bin, nil, 180*time.Second, append([]string{"build", "--keep_going"}, labels...)...)
			probe := sb.ReadProbe()
			r.Obs("build_invocations", 1)
			r.ObsDistinct("phases", phase)
			failed := map[string]bool{}
			for _, m := range failedLine.FindAllStringSubmatch(res.Stderr+"\n"+res.Stdout, -1) {
				failed[m[1]] = true
			}
			if check && res.Exit != 0 && !res.TimedOut {
				// A failing target is always named with "<label> failed", but Please can drop the last results of an
				// invocation from its report (the result forwarder races with closing the channel), so with a non-zero
				// exit status a target that is not named is re-built alone and its exit status decides.
				for _, tg := range s.Targets {
					if !failed[tg.label()] {
						r2 := sb.Plz(bin, nil, 180*time.Second, "build", tg.label())
						r.Obs("single_target_confirmations", 1)
						if r2.Exit != 0 {
							if r2.TimedOut || !strings.Contains(r2.Stderr+r2.Stdout, "Bad output hash for rule "+tg.label()) {
								r.Inconclusive(fmt.Sprintf("history %d step %d (%s): building %s alone exits %d for a reason other than hash verification: %s", i, step, phase, tg.label(), r2.Exit, lib.Tail(r2.Stderr, 400)))
								return false
							}
							failed[tg.label()] = true
							r.Obs("failed_targets_missing_from_keep_going_report", 1)
							note += " [" + tg.label() + " was not named in the --keep_going report; built alone it fails: " + lib.Tail(r2.Stderr, 700) + "]"
						}
					}
				}
			}
			trail = append(trail, stepRec{step, phase, versions(s, ""), res.Exit, x.SortedKeys(failed), probe.Started, note})
			wit := map[string]any{"spec": s, "reference_hashes": rf, "history": trail, "files": s.files(false, versions(s, ""), sb.VLog, flag, sb.Cache)}
			if res.TimedOut {
				r.Inconclusive(fmt.Sprintf("history %d step %d: plz build timed out", i, step))
				return false
			}
			if !check {
				return true
			}
			if (res.Exit == 0) != (len(failed) == 0) {
				wit["stderr"] = lib.Tail(res.Stderr, 2000)
				if res.Exit == 0 {
					r.Violation("exit-zero-with-failed-targets/"+phase, "plz build --keep_going exits 0 although it reports failed targets", wit, i)
				} else {
					r.Inconclusive(fmt.Sprintf("history %d step %d (%s): plz build exits %d without naming a failed target: %s", i, step, phase, res.Exit, lib.Tail(res.Stderr, 300)))
				}
				return false
			}
			for _, tg := range s.Targets {
				exp, how := orc.expect(tg, tg.Ver)
				ok := !failed[tg.label()]
				vk := tg.Name + "/" + tg.Ver
				pc := phase
				if tainted[tg.Name] {
					pc = "poisoned-cache-entry-present"
				}
				ran := x.Ran(probe.Started, tg.Name)
				r.Case(lib.Hash(s.HashFunction, strings.Join(s.Checkers, ","), tg.Shape, lib.JSON(tg.Declared), tg.Ver, phase), nearValid(tg))
				r.Obs("verdicts_checked", 1)
				r.ObsDistinct("shapes", tg.Shape)
				for _, c := range tg.Classes {
					r.ObsDistinct("declared_value_classes", c)
				}
				w := func() map[string]any {
					m := map[string]any{"target": tg.label(), "shape": tg.Shape, "declared": tg.Declared, "classes": tg.Classes, "content_version": tg.Ver,
						"expected": exp, "hashfunction": s.hashFn(), "hashcheckers": s.checkers(), "stderr": lib.Tail(res.Stderr, 1500)}
					for k, v := range wit {
						m[k] = v
					}
					return m
				}
				switch {
				case exp == "open":
					r.Obs("verdicts_left_open", 1)
					if ok {
						r.ObsDistinct("open_values_accepted", classKey(tg))
					}
				case exp == "pass" && !ok:
					// witness class: if the same declaration was accepted for the same content earlier in this history the
					// situation (phase) is the cause, otherwise the declared value is
					key := "rejected-correct-hash/never-accepted/" + tg.Shape + "/" + how
					if everPassed[vk] {
						// how the matching value can be reached by Please's two comparisons: the hash under the repository's
						// hash function (always tried first), and the per-checker recomputation (never for a directory output's
						// documented value, and only for algorithms listed in hashcheckers)
						via := "match-also-reachable-via-hashcheckers"
						if a := strings.Split(how, "/"); tg.Shape == "dir" || !has(s.checkers(), a[len(a)-2]) {
							via = "match-only-via-hashfunction-comparison"
						}
						key = "rejected-correct-hash/accepted-earlier-in-history/" + pc + "/" + via
					}
					r.Violation(key, fmt.Sprintf("%s (%s) fails (%s) although a declared value is the hash of its outputs under a configured algorithm (%s)", tg.label(), tg.Shape, pc, how), w(), i)
				case exp == "fail" && ok:
					key := "accepted-wrong-hash/never-rejected/" + tg.Shape + "/" + classKey(tg)
					if everFailed[vk] {
						key = "accepted-wrong-hash/rejected-earlier-in-history/" + pc + "/" + tg.Shape
					}
					r.Violation(key, fmt.Sprintf("%s (%s) builds successfully although none of its declared hashes %q matches its outputs under hashfunction=%s hashcheckers=%v", tg.label(), tg.Shape, tg.Declared, s.hashFn(), s.checkers()), w(), i)
				case exp == "pass":
					r.Obs("expected_pass_confirmed", 1)
					r.ObsDistinct("accepted_via", how)
				default:
					r.Obs("expected_fail_confirmed", 1)
					if prevFailed[tg.Name] {
						r.Obs("failure_persisted_across_invocations", 1)
					}
				}
				if ok && exp != "open" {
					got, want := readOutputs(sb.Repo, s, tg), s.outputs(tg, tg.Ver)
					if lib.JSON(got) != lib.JSON(want) {
						m := w()
						m["outputs_found"], m["outputs_the_action_produces"] = got, want
						r.Violation("verified-output-differs/"+pc+"/"+tg.Shape, fmt.Sprintf("%s is reported built (hash verified) but its outputs in plz-out are not what its action produces", tg.label()), m, i)
					} else {
						r.Obs("verified_outputs_compared", 1)
					}
					if strings.HasPrefix(phase, "wipe") && s.Cache && stored[tg.Name] && !ran && tg.hasCmd() {
						r.Obs("restored_from_cache_and_verified", 1)
					}
					if strings.HasPrefix(phase, "poisoned") && ran {
						r.Obs("poisoned_restore_rejected_and_rebuilt", 1)
					}
					if phase == "after-transient-failure" && ran {
						r.Obs("rebuilt_after_transient_failure", 1)
					}
					if s.Cache && tg.Shape != "filegroup" {
						stored[tg.Name] = true
					}
				}
				prevFailed[tg.Name] = !ok
				if exp != "open" {
					if ok {
						everPassed[vk] = true
						tainted[tg.Name] = false // a successful build stores the entry again
					} else {
						everFailed[vk] = true
					}
				}
			}
			return true
		}
		must(x.SyncTree(sb.Repo, s.files(false, versions(s, ""), sb.VLog, flag, sb.Cache), nil))
		if !build(0, "first-build", true, "") {
			return
		}
		for step := 1; step <= steps; step++ {
			c := rng.Intn(100)
			switch {
			case c < 30:
				flipped := 0
				for _, tg := range s.Targets {
					if rng.Intn(2) == 0 {
						tg.Ver = map[string]string{"A": "B", "B": "A"}[tg.Ver]
						flipped++
					}
				}
				if flipped == 0 {
					tg := s.Targets[rng.Intn(len(s.Targets))]
					tg.Ver = map[string]string{"A": "B", "B": "A"}[tg.Ver]
				}
				must(x.SyncTree(sb.Repo, s.files(false, versions(s, ""), sb.VLog, flag, sb.Cache), nil))
				if !build(step, "content-edit", true, "") {
					return
				}
			case c < 48:
				if !build(step, "repeat", true, "") {
					return
				}
			case c < 60:
				var labels []string
				for _, tg := range s.Targets {
					labels = append(labels, tg.label())
				}
				res := sb.Plz(bin, nil, 180*time.Second, append([]string{"hash"}, labels...)...)
				r.Obs("plz_hash_on_declared_targets", 1)
				if !build(step, "after-plz-hash", true, fmt.Sprintf("plz hash exit %d", res.Exit)) {
					return
				}
			case c < 72 || !s.Cache:
				lib.RemoveAll(filepath.Join(sb.Repo, "plz-out"))
				ph := "wipe-rebuild"
				if s.Cache {
					ph = "wipe-restore"
				}
				if !build(step, ph, true, "") {
					return
				}
			default:
				inplace := rng.Intn(3) != 0
				var note []string
				for _, tg := range s.Targets {
					if stored[tg.Name] {
						ps := poison(rng, sb.Cache, tg, inplace)
						r.Obs("cache_files_poisoned", int64(len(ps)))
						if len(ps) > 0 {
							tainted[tg.Name] = true
						}
						for _, p := range ps {
							rel, _ := filepath.Rel(sb.Cache, p)
							note = append(note, rel)
						}
					}
				}
				lib.RemoveAll(filepath.Join(sb.Repo, "plz-out"))
				ph := "poisoned-restore-replaced-file"
				if inplace {
					ph = "poisoned-restore-in-place"
				}
				if c >= 86 {
					// the action fails once right after the poisoned restore was rejected
					must(os.WriteFile(flag, []byte("x"), 0o644))
					ok := build(step, ph+"+action-fails", false, strings.Join(note, " "))
					os.Remove(flag)
					r.Obs("transient_failure_injections", 1)
					if !ok {
						return
					}
					ph = "after-transient-failure"
				}
				if !build(step, ph, true, strings.Join(note, " ")) {
					return
				}
			}
		}
		if r.WantSample() {
			r.Sample(map[string]any{"spec": s, "reference_hashes": rf, "history": trail})
		}
	})
	r.RequireObserved("build_invocations", "twin_hash_invocations", "expected_pass_confirmed", "expected_fail_confirmed", "failure_persisted_across_invocations",
		"verified_outputs_compared", "restored_from_cache_and_verified", "cache_files_poisoned", "poisoned_restore_rejected_and_rebuilt")
}

func has(ss []string, v string) bool {
	for _, x := range ss {
		if x == v {
			return true
		}
	}
	return false
}

func must(err error) {
	if err != nil {
		panic(fmt.Sprintf("harness filesystem error: %v", err))
	}
}

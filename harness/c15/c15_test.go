// C15 — the concurrent awaitable map (src/cmap) is linearizable and never loses wake-ups.
//
// Monitor: call/return histories are recorded at the client boundary of the real cmap.Map /
// cmap.ErrMap (one atomic tick counter per history, a unique value per write), then checked with
// porcupine against a per-key sequential model. Waiting is two operations: GetOrWait (returns a
// value or a channel) and Await (a waiter goroutine whose return event is the observed channel
// close). After every history a quiescence step inspects every handed-out channel directly: it
// must be closed iff the key was added (no clock involved: all client calls have returned).
// Streams: seq (single goroutine, exact model comparison, shrinker -> minimal witnesses), conc
// (porcupine), errmap (porcupine + exactly-once of GetOrSet's compute function), stress
// (no recording at all, so that no harness synchronisation hides a data race from -race).
// Delays are injected inside shard.Get between RUnlock and Lock through VERIF_HOOK_DELAY.
package c15

import (
	"errors"
	"fmt"
	"math/rand"
	"os"
	"path/filepath"
	"runtime"
	"sort"
	"strconv"
	"strings"
	"sync"
	"sync/atomic"
	"testing"
	"time"

	"github.com/anishathalye/porcupine"
	"github.com/thought-machine/please/src/cmap"

	"verifharness/lib"
)

// The hook reads its environment once per process, at its first Point() call: configure it
// before anything can touch a cmap. seed:prob:maxµs:nameglob.
func init() {
	if os.Getenv("VERIF_HOOK_DELAY") == "" {
		seed := os.Getenv("VERIF_SEED")
		if seed == "" {
			seed = "0"
		}
		os.Setenv("VERIF_HOOK_DELAY", seed+":0.5:40:cmap.get.upgrade")
	}
}

// ---------------------------------------------------------------------------------------------
// Operations, outputs and the sequential model.

type kind uint8

const (
	kAdd kind = iota
	kAddOrGet
	kSet
	kGet
	kGetOrWait
	kContains
	kAwait  // pseudo-operation: a waiter observed its channel closed
	kValues // not part of the per-key model
	kRange  // not part of the per-key model
	// ErrMap only
	kGetOrSet
	kSetError
)

var kindName = map[kind]string{kAdd: "Add", kAddOrGet: "AddOrGet", kSet: "Set", kGet: "Get", kGetOrWait: "GetOrWait",
	kContains: "Contains", kAwait: "Await", kValues: "Values", kRange: "Range", kGetOrSet: "GetOrSet", kSetError: "SetError"}

// An op is one step of a client program.
type op struct {
	Kind  kind `json:"k"`
	Key   int  `json:"key"`
	Val   int  `json:"val,omitempty"`   // unique per write in a history; never 0
	Err   int  `json:"err,omitempty"`   // GetOrSet/SetError: non-zero = the unique error id produced
	Yield int  `json:"yield,omitempty"` // Gosched calls after the op (and inside AddOrGet/GetOrSet's function)
}

func (o op) String() string {
	s := fmt.Sprintf("%s(k%d", kindName[o.Kind], o.Key)
	if o.Val != 0 {
		s += fmt.Sprintf(",%d", o.Val)
	}
	if o.Err != 0 {
		s += fmt.Sprintf(",err%d", o.Err)
	}
	return s + ")"
}

// An out is what the client saw.
type out struct {
	Val    int   // returned value
	Err    int   // returned error id (ErrMap)
	Ok     bool  // Add: inserted; AddOrGet: inserted; Contains: result; GetOrSet: the function ran
	Ch     bool  // GetOrWait returned a channel
	First  bool  // GetOrWait's third result
	FCalls int   // how often the passed function ran
	Vals   []int // Values / Range values
	Keys   []int // Range keys
}

func (o out) String() string {
	return fmt.Sprintf("{val:%d err:%d ok:%v ch:%v first:%v fcalls:%d}", o.Val, o.Err, o.Ok, o.Ch, o.First, o.FCalls)
}

type rec struct {
	Client int
	Op     op
	Out    out
	Call   int64
	Ret    int64
}

func (r rec) String() string {
	o := ""
	switch r.Op.Kind {
	case kAdd:
		o = fmt.Sprint(r.Out.Ok)
	case kAddOrGet:
		o = fmt.Sprintf("(%d,%v)", r.Out.Val, r.Out.Ok)
	case kSet, kSetError:
		o = "()"
	case kGet:
		o = fmt.Sprint(r.Out.Val)
		if r.Out.Err != 0 {
			o += fmt.Sprintf(",err%d", r.Out.Err)
		}
	case kGetOrWait:
		o = fmt.Sprintf("(%d,ch=%v,first=%v)", r.Out.Val, r.Out.Ch, r.Out.First)
	case kContains:
		o = fmt.Sprint(r.Out.Ok)
	case kAwait:
		o = "woken"
	case kValues:
		o = fmt.Sprint(r.Out.Vals)
	case kRange:
		o = fmt.Sprint(r.Out.Keys, r.Out.Vals)
	case kGetOrSet:
		o = fmt.Sprintf("(%d,err%d,ran=%v)", r.Out.Val, r.Out.Err, r.Out.Ok)
	}
	return fmt.Sprintf("c%d [%d,%d] %s -> %s", r.Client, r.Call, r.Ret, r.Op, o)
}

// Per-key model state. The map has no delete, so a key moves absent -> (maybe ->) awaited -> present.
const (
	phAbsent  uint8 = iota
	phMaybe         // a plain Get of the absent key happened: the documentation does not say whether that counts as "awaiting"
	phAwaited       // some GetOrWait was handed a channel
	phPresent
)

var phaseName = []string{"absent", "absent-after-Get", "awaited", "present"}

type state struct {
	Phase uint8
	Val   int
	Err   int
}

// step is the sequential specification. strictContains: Contains <=> the key has been added
// (DESIGN §6 item 10); otherwise "added or awaited" is tolerated (used only to classify failures).
func step(s state, o op, res out, strictContains bool) (bool, state) {
	present := s.Phase == phPresent
	switch o.Kind {
	case kAdd:
		if present {
			return !res.Ok, s
		}
		return res.Ok, state{phPresent, o.Val, 0}
	case kAddOrGet:
		if present {
			return !res.Ok && res.Val == s.Val && res.Err == s.Err, s
		}
		return res.Ok && res.Val == o.Val, state{phPresent, o.Val, 0}
	case kSet:
		return true, state{phPresent, o.Val, 0}
	case kSetError:
		return true, state{phPresent, 0, o.Err}
	case kGet:
		if present {
			return res.Val == s.Val && res.Err == s.Err, s
		}
		if res.Val != 0 || res.Err != 0 {
			return false, s
		}
		if s.Phase == phAbsent {
			return true, state{Phase: phMaybe}
		}
		return true, s
	case kGetOrWait:
		if present {
			return res.Val == s.Val && !res.Ch && !res.First, s
		}
		if res.Val != 0 || !res.Ch {
			return false, s
		}
		switch s.Phase {
		case phAbsent:
			return res.First, state{Phase: phAwaited}
		case phMaybe:
			return true, state{Phase: phAwaited}
		default:
			return !res.First, s
		}
	case kContains:
		if present {
			return res.Ok, s
		}
		if strictContains || s.Phase == phAbsent {
			return !res.Ok, s
		}
		return true, s
	case kAwait:
		return present, s
	case kGetOrSet:
		// ErrMap: returns the stored (value, error); computes and stores only when nothing was stored.
		if present {
			return !res.Ok && res.Val == s.Val && res.Err == s.Err, s
		}
		return res.Ok && res.Val == o.Val && res.Err == o.Err, state{phPresent, o.Val, o.Err}
	}
	return false, s
}

func model(strictContains bool) porcupine.Model {
	return porcupine.Model{
		Init: func() interface{} { return state{} },
		Step: func(st, in, o interface{}) (bool, interface{}) {
			ok, ns := step(st.(state), in.(op), o.(out), strictContains)
			return ok, ns
		},
		Equal: func(a, b interface{}) bool { return a.(state) == b.(state) },
		DescribeOperation: func(in, o interface{}) string {
			return fmt.Sprintf("%s -> %s", in.(op), o.(out))
		},
	}
}

func toOps(h []rec) []porcupine.Operation {
	ops := make([]porcupine.Operation, len(h))
	for i, r := range h {
		o := r.Out
		o.Vals, o.Keys = nil, nil
		ops[i] = porcupine.Operation{ClientId: r.Client, Input: r.Op, Output: o, Call: r.Call, Return: r.Ret}
	}
	return ops
}

const checkTimeout = 20 * time.Second

func check(h []rec, strict bool) porcupine.CheckResult {
	return porcupine.CheckOperationsTimeout(model(strict), toOps(h), checkTimeout)
}

// core shrinks a non-linearizable per-key history to a small set of operations that still cannot be
// ordered; it only names the failure class (the full history is the witness). Pure reads can be
// dropped soundly (a linearization of the rest would extend to them or not, but never the other way
// round); state-changing operations are dropped only while every remaining read still has the
// write it depends on, so that the core does not become illegal merely for lack of its writer.
func core(h []rec, strict bool) []rec {
	supported := func(c []rec) bool {
		vals, anyWrite := map[int]bool{}, false
		for _, x := range c {
			if wroteSomething(x) {
				anyWrite = true
				vals[x.Op.Val] = true
			}
		}
		for _, x := range c {
			switch outClass(x) {
			case "Get=value", "GetOrWait=value", "AddOrGet=existing", "GetOrSet=stored":
				if x.Out.Val != 0 && !vals[x.Out.Val] {
					return false
				}
				if !anyWrite {
					return false
				}
			case "Add=false", "Await", "Contains=true":
				if !anyWrite {
					return false
				}
			}
		}
		return true
	}
	cur := append([]rec{}, h...)
	for changed := true; changed; {
		changed = false
		for i := 0; i < len(cur); i++ {
			cand := append(append([]rec{}, cur[:i]...), cur[i+1:]...)
			if len(cand) > 0 && supported(cand) && check(cand, strict) == porcupine.Illegal {
				cur = cand
				changed = true
				i--
			}
		}
	}
	return cur
}

// outClass abstracts an operation and its result to a class name for witness keys.
func outClass(r rec) string {
	n := kindName[r.Op.Kind]
	switch r.Op.Kind {
	case kAdd:
		return n + "=" + strconv.FormatBool(r.Out.Ok)
	case kAddOrGet:
		if r.Out.Ok {
			return n + "=inserted"
		}
		return n + "=existing"
	case kGet:
		if r.Out.Val == 0 && r.Out.Err == 0 {
			return n + "=zero"
		}
		return n + "=value"
	case kGetOrWait:
		if r.Out.Ch {
			if r.Out.First {
				return n + "=wait,first"
			}
			return n + "=wait"
		}
		return n + "=value"
	case kContains:
		return n + "=" + strconv.FormatBool(r.Out.Ok)
	case kGetOrSet:
		if r.Out.Ok {
			return n + "=computed"
		}
		return n + "=stored"
	}
	return n
}

func classOf(h []rec) string {
	var cs []string
	for _, r := range h {
		cs = append(cs, outClass(r))
	}
	sort.Strings(cs)
	return strings.Join(cs, "+")
}

func lines(h []rec) []string {
	s := make([]string, len(h))
	for i, r := range h {
		s[i] = r.String()
	}
	return s
}

const containsKey = "contains-true/awaited-key-never-added"

var (
	containsSeen  atomic.Bool  // the minimised core is computed for the first witness only
	coresComputed atomic.Int64 // cap on the (quadratic) classification work
	errmapHung    atomic.Bool  // a GetOrSet deadlock was seen: later ErrMap cases are skipped (each costs a watchdog)
)

// ---------------------------------------------------------------------------------------------
// Map construction.

type mapCfg struct {
	Shards uint64 `json:"shards"`
	Hash   string `json:"hash"` // "const" (all keys collide in one shard) | "ident"
}

func (c mapCfg) hasher() func(int) uint64 {
	if c.Hash == "const" {
		return func(int) uint64 { return 7 }
	}
	return func(k int) uint64 { return uint64(k) }
}

func genCfg(rng *rand.Rand) mapCfg {
	switch rng.Intn(3) {
	case 0:
		return mapCfg{1, "ident"}
	case 1:
		return mapCfg{4, "const"}
	}
	return mapCfg{4, "ident"}
}

// ---------------------------------------------------------------------------------------------
// Program generation.

type program struct {
	Cfg     mapCfg `json:"map"`
	Keys    int    `json:"keys"`
	Profile string `json:"profile"`
	Clients [][]op `json:"clients"`
}

func (p program) hash() string { return lib.Hash(lib.JSON(p)) }

var profiles = map[string][]int{
	//            Add AddOrGet Set Get GetOrWait Contains Values Range
	"uniform":  {3, 3, 3, 3, 3, 2, 1, 1},
	"waiters":  {2, 2, 1, 1, 8, 1, 0, 0},
	"writers":  {4, 4, 4, 2, 2, 1, 1, 1},
	"contains": {2, 1, 1, 3, 3, 6, 0, 0},
	"readers":  {1, 1, 2, 5, 3, 1, 2, 2},
}
var profileNames = []string{"uniform", "waiters", "writers", "contains", "readers"}
var profileKinds = []kind{kAdd, kAddOrGet, kSet, kGet, kGetOrWait, kContains, kValues, kRange}

func pickKind(rng *rand.Rand, w []int) kind {
	t := 0
	for _, x := range w {
		t += x
	}
	n := rng.Intn(t)
	for i, x := range w {
		if n < x {
			return profileKinds[i]
		}
		n -= x
	}
	return kGet
}

func genProgram(rng *rand.Rand, minClients, maxClients int) program {
	p := program{Cfg: genCfg(rng), Keys: 1 + rng.Intn(3), Profile: profileNames[rng.Intn(len(profileNames))]}
	w := profiles[p.Profile]
	nc := minClients + rng.Intn(maxClients-minClients+1)
	yieldy := rng.Intn(3) // 0: never yield between ops, 1: sometimes, 2: often
	for c := 0; c < nc; c++ {
		n := 4 + rng.Intn(7)
		var ops []op
		// In the waiters profile half of the clients start by waiting and write late.
		for j := 0; j < n; j++ {
			o := op{Kind: pickKind(rng, w), Key: rng.Intn(p.Keys)}
			if p.Profile == "waiters" && j == 0 && c%2 == 0 {
				o.Kind = kGetOrWait
			}
			switch o.Kind {
			case kAdd, kAddOrGet, kSet:
				o.Val = (c+1)*1000 + j + 1
			case kValues, kRange:
				o.Key = 0
			}
			if yieldy > 0 && rng.Intn(4-yieldy) == 0 {
				o.Yield = 1 + rng.Intn(3)
			}
			ops = append(ops, o)
		}
		p.Clients = append(p.Clients, ops)
	}
	return p
}

// ---------------------------------------------------------------------------------------------
// Executing a program against the real map and recording the history.

type waiter struct {
	key    int
	client int
	ch     <-chan struct{}
	call   int64
	ret    int64 // set by the waiter goroutine when it saw the close
	done   chan struct{}
}

type history struct {
	recs    []rec // per-key operations incl. Await, plus Values/Range
	waiters []*waiter
}

func yieldN(n int) {
	for ; n > 0; n-- {
		runtime.Gosched()
	}
}

// runMapOp performs one operation on the real map and returns what the client saw.
func runMapOp(m *cmap.Map[int, int], o op) (res out, ch <-chan struct{}) {
	switch o.Kind {
	case kAdd:
		res.Ok = m.Add(o.Key, o.Val)
	case kAddOrGet:
		res.Val, res.Ok = m.AddOrGet(o.Key, func() int {
			res.FCalls++
			yieldN(o.Yield)
			return o.Val
		})
	case kSet:
		m.Set(o.Key, o.Val)
	case kGet:
		res.Val = m.Get(o.Key)
	case kGetOrWait:
		res.Val, ch, res.First = m.GetOrWait(o.Key)
		res.Ch = ch != nil
	case kContains:
		res.Ok = m.Contains(o.Key)
	case kValues:
		res.Vals = m.Values()
	case kRange:
		m.Range(func(k, v int) {
			res.Keys = append(res.Keys, k)
			res.Vals = append(res.Vals, v)
		})
	}
	return
}

// runConcurrent runs the clients of p concurrently on a fresh map.
func runConcurrent(p program) history {
	m := cmap.New[int, int](p.Cfg.Shards, p.Cfg.hasher())
	var clock atomic.Int64
	tick := func() int64 { return clock.Add(1) }
	start := make(chan struct{})
	cancel := make(chan struct{})
	var wg, wwg sync.WaitGroup
	perClient := make([][]rec, len(p.Clients))
	perWaiters := make([][]*waiter, len(p.Clients))
	for c := range p.Clients {
		wg.Add(1)
		go func(c int) {
			defer wg.Done()
			<-start
			for _, o := range p.Clients[c] {
				call := tick()
				res, ch := runMapOp(m, o)
				ret := tick()
				perClient[c] = append(perClient[c], rec{Client: c, Op: o, Out: res, Call: call, Ret: ret})
				if ch != nil {
					w := &waiter{key: o.Key, client: c, ch: ch, call: tick(), done: make(chan struct{})}
					perWaiters[c] = append(perWaiters[c], w)
					wwg.Add(1)
					go func() {
						defer wwg.Done()
						select {
						case <-w.ch:
							w.ret = tick()
							close(w.done)
						case <-cancel:
						}
					}()
				}
				yieldN(o.Yield)
			}
		}(c)
	}
	close(start)
	wg.Wait()
	// Quiescence: every client call has returned. A channel that is going to be closed by one of
	// those calls is closed by now (close happens inside the call), so inspect the channels themselves.
	var h history
	for c := range perClient {
		h.recs = append(h.recs, perClient[c]...)
		h.waiters = append(h.waiters, perWaiters[c]...)
	}
	for _, w := range h.waiters {
		select {
		case <-w.ch:
			<-w.done // the waiter goroutine is runnable and records its own wake-up time
		default:
		}
	}
	close(cancel)
	wwg.Wait()
	for i, w := range h.waiters {
		if w.ret != 0 {
			h.recs = append(h.recs, rec{Client: len(p.Clients) + i, Op: op{Kind: kAwait, Key: w.key}, Call: w.call, Ret: w.ret})
		}
	}
	return h
}

// lazyWitness renders the history only when a violation is actually recorded.
type lazyWitness struct {
	p    any
	call rec
	recs []rec
}

func (w lazyWitness) MarshalJSON() ([]byte, error) {
	return []byte(lib.JSON(map[string]any{"program": w.p, "call": w.call.String(), "history": lines(w.recs)})), nil
}

// signature is a cheap hash of the observed history (order of returns and results).
func signature(h []rec) string {
	var sb strings.Builder
	for _, x := range h {
		fmt.Fprintf(&sb, "%d,%d,%d,%d,%d,%t,%t,%t;", x.Client, x.Call, x.Ret, x.Op.Kind, x.Out.Val, x.Out.Ok, x.Out.Ch, x.Out.First)
	}
	return lib.Hash(sb.String())
}

func isWrite(k kind) bool { return k == kAdd || k == kAddOrGet || k == kSet || k == kSetError || k == kGetOrSet }

func wroteSomething(r rec) bool {
	switch r.Op.Kind {
	case kSet, kSetError:
		return true
	case kAdd, kAddOrGet, kGetOrSet:
		return r.Out.Ok
	}
	return false
}

// checkHistory applies every oracle to one recorded concurrent history.
func checkHistory(r *lib.Run, idx int, p any, h history, stream string) {
	byKey := map[int][]rec{}
	var multi []rec
	writes := map[int]rec{} // unique value -> the write that carried it
	for _, x := range h.recs {
		switch x.Op.Kind {
		case kValues, kRange:
			multi = append(multi, x)
		default:
			byKey[x.Op.Key] = append(byKey[x.Op.Key], x)
			if isWrite(x.Op.Kind) && x.Op.Val != 0 {
				writes[x.Op.Val] = x
			}
		}
		// The constructor function runs iff an item is inserted, and then exactly once.
		if x.Op.Kind == kAddOrGet || x.Op.Kind == kGetOrSet {
			want := 0
			if x.Out.Ok {
				want = 1
			}
			if x.Op.Kind == kAddOrGet && x.Out.FCalls != want {
				r.Violation(fmt.Sprintf("addorget-constructor-calls/inserted=%v,calls=%d", x.Out.Ok, min(x.Out.FCalls, 2)),
					"AddOrGet ran its constructor function a wrong number of times: "+x.String(), map[string]any{"program": p, "history": lines(h.recs)}, idx)
			}
		}
	}
	r.Obs("operations_recorded", int64(len(h.recs)))
	// Real concurrency on one key observed?
	overlap := false
	for _, ks := range byKey {
		for i := range ks {
			for j := i + 1; j < len(ks) && !overlap; j++ {
				if ks[i].Client != ks[j].Client && ks[i].Call < ks[j].Ret && ks[j].Call < ks[i].Ret && (isWrite(ks[i].Op.Kind) || isWrite(ks[j].Op.Kind)) {
					overlap = true
				}
			}
		}
	}
	if overlap {
		r.Obs("histories_with_overlapping_write_on_a_key", 1)
	}

	// 1. Quiescence: wake-ups. A key is present at the end iff some write succeeded (no deletion exists).
	for k, ks := range byKey {
		written, firsts := "", 0
		for _, x := range ks {
			if wroteSomething(x) && written == "" {
				written = kindName[x.Op.Kind]
			}
			if x.Op.Kind == kGetOrWait && x.Out.First {
				firsts++
			}
		}
		for _, w := range h.waiters {
			if w.key != k {
				continue
			}
			r.Obs("waiters", 1)
			closed := w.ret != 0
			switch {
			case written != "" && !closed:
				cls := "lost-wakeup/key-added-waiter-still-blocked"
				if firsts > 1 {
					cls = "lost-wakeup/two-first-waiters"
				}
				r.Violation(cls, fmt.Sprintf("key k%d was added but a channel handed out by GetOrWait is still open after all calls returned", k),
					map[string]any{"program": p, "key_history": lines(ks)}, idx)
			case written == "" && closed:
				r.Violation("woken-without-add", fmt.Sprintf("a waiter on k%d was released although k%d was never added", k, k),
					map[string]any{"program": p, "history": lines(h.recs)}, idx)
			case closed:
				r.Obs("waiters_released_after_add", 1)
			default:
				r.Obs("waiters_still_blocked_on_never_added_key", 1)
			}
		}
	}

	// 2. Linearizability per key.
	for k, ks := range byKey {
		res := check(ks, true)
		r.Obs("partitions_checked", 1)
		r.ObsDistinct("partition_sizes", strconv.Itoa(len(ks)))
		switch res {
		case porcupine.Unknown:
			r.Inconclusive(fmt.Sprintf("porcupine timeout on %s case %d key k%d (%d ops)", stream, idx, k, len(ks)))
		case porcupine.Illegal:
			if check(ks, false) == porcupine.Ok {
				r.Obs("histories_contains_true_for_unadded_key", 1)
				if containsSeen.Swap(true) {
					r.Violation(containsKey, "", nil, idx) // counted; the first witness is kept
					continue
				}
				c := core(ks, true)
				r.Violation(containsKey, "Contains reports a key that was looked up (Get/GetOrWait) but never added; in any sequential map a never-added key is not contained. Core: "+strings.Join(lines(c), " ; "),
					map[string]any{"program": p, "core": lines(c), "key_history": lines(ks)}, idx)
				continue
			}
			if coresComputed.Add(1) > 25 {
				r.Violation("nonlinearizable/(more-than-25-failing-histories,not-classified)", fmt.Sprintf("history of key k%d is not linearizable", k), map[string]any{"program": p, "key_history": lines(ks)}, idx)
				continue
			}
			c := core(ks, false)
			r.Violation("nonlinearizable/"+classOf(c), fmt.Sprintf("history of key k%d is not linearizable; unorderable core: %s", k, strings.Join(lines(c), " ; ")),
				map[string]any{"program": p, "core": lines(c), "key_history": lines(ks)}, idx)
		default:
			r.Obs("partitions_linearizable", 1)
		}
	}

	// 3. Values/Range: each returned value was current at some instant inside the call.
	for _, v := range multi {
		r.Obs("values_range_calls", 1)
		seenKey := map[int]int{}
		for i, x := range v.Out.Vals {
			w, ok := writes[x]
			name := strings.ToLower(kindName[v.Op.Kind])
			wit := lazyWitness{p, v, h.recs}
			if !ok {
				r.Violation(name+"/unknown-value", fmt.Sprintf("%s returned %d which nobody wrote", v.String(), x), wit, idx)
				continue
			}
			if v.Op.Kind == kRange && v.Out.Keys[i] != w.Op.Key {
				r.Violation(name+"/wrong-key", fmt.Sprintf("%s paired value %d with key k%d, it was written to k%d", v.String(), x, v.Out.Keys[i], w.Op.Key), wit, idx)
			}
			seenKey[w.Op.Key]++
			if !wroteSomething(w) {
				r.Violation(name+"/value-of-failed-add", fmt.Sprintf("%s returned %d, but %s did not insert", v.String(), x, w.String()), wit, idx)
				continue
			}
			if w.Call > v.Ret {
				r.Violation(name+"/value-from-the-future", fmt.Sprintf("%s returned %d, written by a call that started later: %s", v.String(), x, w.String()), wit, idx)
				continue
			}
			for _, w2 := range byKey[w.Op.Key] {
				if wroteSomething(w2) && w2.Call > w.Ret && w2.Ret < v.Call {
					r.Violation(name+"/stale-value", fmt.Sprintf("%s returned %d (%s) which had been overwritten by %s before the call began", v.String(), x, w.String(), w2.String()), wit, idx)
					break
				}
			}
		}
		for _, n := range seenKey {
			if n > 1 {
				r.Obs("values_two_values_for_one_key(observation_only)", 1)
			}
		}
		// A key whose write completed before the call began and that is never... is not asserted missing:
		// "no particular consistency guarantees".
	}
}

// ---------------------------------------------------------------------------------------------
// Sequential stream: one goroutine, exact comparison with the model after every step, channel
// states inspected after every step, shrinker.

type seqFailure struct {
	Key  string
	What string
}

// runSeq executes ops on a fresh map and returns the first disagreement with the model.
func runSeq(cfg mapCfg, ops []op, strict bool) (*seqFailure, []string) {
	m := cmap.New[int, int](cfg.Shards, cfg.hasher())
	st := map[int]state{}
	type handed struct {
		key int
		ch  <-chan struct{}
	}
	var chans []handed
	var trace []string
	for i, o := range ops {
		res, ch := runMapOp(m, o)
		x := rec{Op: o, Out: res, Call: int64(2 * i), Ret: int64(2*i + 1)}
		trace = append(trace, x.String())
		if ch != nil {
			chans = append(chans, handed{o.Key, ch})
		}
		switch o.Kind {
		case kValues, kRange:
			var want []int
			for _, s := range st {
				if s.Phase == phPresent {
					want = append(want, s.Val)
				}
			}
			got := append([]int{}, res.Vals...)
			sort.Ints(want)
			sort.Ints(got)
			if fmt.Sprint(want) != fmt.Sprint(got) {
				return &seqFailure{"seq/" + strings.ToLower(kindName[o.Kind]) + "-differs-from-added-values", fmt.Sprintf("%s returned %v, the added values are %v", kindName[o.Kind], got, want)}, trace
			}
			for j := range res.Keys {
				if st[res.Keys[j]].Val != res.Vals[j] {
					return &seqFailure{"seq/range-wrong-pair", fmt.Sprintf("Range paired k%d with %d", res.Keys[j], res.Vals[j])}, trace
				}
			}
		default:
			before := st[o.Key]
			ok, ns := step(before, o, res, strict)
			if o.Kind == kAddOrGet {
				want := 0
				if res.Ok {
					want = 1
				}
				if res.FCalls != want {
					return &seqFailure{fmt.Sprintf("addorget-constructor-calls/inserted=%v,calls=%d", res.Ok, min(res.FCalls, 2)), "AddOrGet ran its constructor a wrong number of times: " + x.String()}, trace
				}
			}
			if !ok {
				if o.Kind == kContains && res.Ok && before.Phase != phPresent && before.Phase != phAbsent {
					return &seqFailure{containsKey, fmt.Sprintf("Contains(k%d) is true in state %q: the key was looked up but never added", o.Key, phaseName[before.Phase])}, trace
				}
				return &seqFailure{"seq-model-mismatch/" + outClass(x) + "@" + phaseName[before.Phase], fmt.Sprintf("%s is impossible for a sequential map in state %q", x.String(), phaseName[before.Phase])}, trace
			}
			st[o.Key] = ns
		}
		// Wake-ups: a handed-out channel is closed iff its key is present now.
		for _, hc := range chans {
			closed := false
			select {
			case <-hc.ch:
				closed = true
			default:
			}
			present := st[hc.key].Phase == phPresent
			if closed && !present {
				return &seqFailure{"woken-without-add", fmt.Sprintf("after %s a channel for k%d is closed although k%d was never added", o, hc.key, hc.key)}, trace
			}
			if !closed && present {
				return &seqFailure{"lost-wakeup/key-added-waiter-still-blocked", fmt.Sprintf("after %s a channel for k%d is still open although k%d was added", o, hc.key, hc.key)}, trace
			}
		}
	}
	return nil, trace
}

func shrinkSeq(cfg mapCfg, ops []op, key string) []op {
	cur := append([]op{}, ops...)
	for changed := true; changed; {
		changed = false
		for i := 0; i < len(cur); i++ {
			cand := append(append([]op{}, cur[:i]...), cur[i+1:]...)
			if f, _ := runSeq(cfg, cand, true); f != nil && f.Key == key {
				cur = cand
				changed = true
				i--
			}
		}
	}
	return cur
}

// ---------------------------------------------------------------------------------------------
// ErrMap.

type limiter struct{ acq, rel atomic.Int64 }

func (l *limiter) Acquire() { l.acq.Add(1) }
func (l *limiter) Release() { l.rel.Add(1) }

var errTable sync.Map // error id -> error value (identity comparison on return)

func errFor(id int) error {
	if id == 0 {
		return nil
	}
	if e, ok := errTable.Load(id); ok {
		return e.(error)
	}
	e, _ := errTable.LoadOrStore(id, fmt.Errorf("e%d", id))
	return e.(error)
}

func errID(e error) int {
	if e == nil {
		return 0
	}
	n, err := strconv.Atoi(strings.TrimPrefix(e.Error(), "e"))
	if err != nil {
		return -1
	}
	if !errors.Is(e, errFor(n)) {
		return -1
	}
	return n
}

func genErrProgram(rng *rand.Rand) program {
	p := program{Cfg: genCfg(rng), Keys: 1 + rng.Intn(2), Profile: "errmap"}
	nc := 3 + rng.Intn(4)
	for c := 0; c < nc; c++ {
		n := 3 + rng.Intn(5)
		var ops []op
		own := map[int]bool{} // keys this client has completed a GetOrSet on (so they are stored)
		for j := 0; j < n; j++ {
			o := op{Key: rng.Intn(p.Keys), Yield: rng.Intn(3)}
			v := (c+1)*1000 + j + 1
			switch x := rng.Intn(10); {
			case !own[o.Key] || x < 5:
				o.Kind = kGetOrSet
				if rng.Intn(4) == 0 {
					o.Err = v // the function fails; value stays zero
				} else {
					o.Val = v
				}
				own[o.Key] = true
			case x < 7:
				o.Kind = kGet
			case x < 8:
				o.Kind = kSet
				o.Val = v
			case x < 9:
				o.Kind = kSetError
				o.Err = v
			default:
				o.Kind = kAddOrGet
				o.Val = v
			}
			ops = append(ops, o)
		}
		p.Clients = append(p.Clients, ops)
	}
	return p
}

// A hang is the classified outcome of a fired watchdog: every unfinished client sits between the
// limiter's Release and Acquire inside ErrMap.GetOrSet (i.e. in `<-wait`), twice, one second apart,
// and no other goroutine has access to the map, so nobody is left who could close the channel.
type hang struct {
	Unfinished int64  `json:"unfinished_clients"`
	Waiting    int64  `json:"clients_between_release_and_acquire"`
	Blocked    bool   `json:"classified_blocked"`
	Dump       string `json:"goroutines_in_GetOrSet"`
}

const hangWatchdog = 15 * time.Second

// awaitClients waits for the clients; when the (generous) watchdog fires it classifies the situation.
func awaitClients(wg *sync.WaitGroup, finished *atomic.Int64, nClients int, lim *limiter) *hang {
	done := make(chan struct{})
	go func() { wg.Wait(); close(done) }()
	tm := time.NewTimer(hangWatchdog)
	defer tm.Stop()
	select {
	case <-done:
		return nil
	case <-tm.C:
	}
	sample := func() (int64, int64) {
		// read Acquire first: waiting is then never over-estimated
		a := lim.acq.Load()
		return int64(nClients) - finished.Load(), lim.rel.Load() - a
	}
	u1, w1 := sample()
	time.Sleep(time.Second)
	u2, w2 := sample()
	select {
	case <-done:
		return nil // merely slow
	default:
	}
	hg := &hang{Unfinished: u2, Waiting: w2}
	hg.Blocked = u1 == u2 && w1 == w2 && u2 > 0 && w2 == u2
	buf := make([]byte, 1<<22)
	buf = buf[:runtime.Stack(buf, true)]
	var keep []string
	for _, g := range strings.Split(string(buf), "\n\n") {
		if strings.Contains(g, "cmap.(*ErrMap") && strings.Contains(g, "GetOrSet") {
			if len(g) > 700 {
				g = g[:700]
			}
			keep = append(keep, g)
		}
		if len(keep) >= 8 {
			break
		}
	}
	hg.Dump = strings.Join(keep, "\n\n")
	return hg
}

func runErrMap(p program) (history, int64, int64, map[int]int, *hang) {
	lim := &limiter{}
	m := cmap.NewErrMap[int, int](p.Cfg.Shards, p.Cfg.hasher(), lim)
	var clock, finished atomic.Int64
	tick := func() int64 { return clock.Add(1) }
	start := make(chan struct{})
	var wg sync.WaitGroup
	perClient := make([][]rec, len(p.Clients))
	var mu sync.Mutex
	computes := map[int]int{}
	for c := range p.Clients {
		wg.Add(1)
		go func(c int) {
			defer wg.Done()
			defer finished.Add(1)
			<-start
			for _, o := range p.Clients[c] {
				var res out
				call := tick()
				switch o.Kind {
				case kGetOrSet:
					v, err := m.GetOrSet(o.Key, func() (int, error) {
						res.FCalls++
						res.Ok = true
						mu.Lock()
						computes[o.Key]++
						mu.Unlock()
						yieldN(o.Yield)
						return o.Val, errFor(o.Err)
					})
					res.Val, res.Err = v, errID(err)
				case kGet:
					v, err := m.Get(o.Key)
					res.Val, res.Err = v, errID(err)
				case kSet:
					m.Set(o.Key, o.Val)
				case kSetError:
					m.SetError(o.Key, errFor(o.Err))
				case kAddOrGet:
					v, ins, err := m.AddOrGet(o.Key, func() int { res.FCalls++; return o.Val })
					res.Val, res.Ok, res.Err = v, ins, errID(err)
				}
				ret := tick()
				perClient[c] = append(perClient[c], rec{Client: c, Op: o, Out: res, Call: call, Ret: ret})
				yieldN(o.Yield)
			}
		}(c)
	}
	close(start)
	if hg := awaitClients(&wg, &finished, len(p.Clients), lim); hg != nil {
		return history{}, 0, 0, nil, hg // the clients are leaked; their records are not read
	}
	var h history
	for c := range perClient {
		h.recs = append(h.recs, perClient[c]...)
	}
	return h, lim.acq.Load(), lim.rel.Load(), computes, nil
}

// reportHang turns a classified watchdog outcome into a violation (blocked) or an inconclusive note.
func reportHang(r *lib.Run, stream string, i int, p program, hg *hang) {
	if hg.Blocked {
		r.Violation("errmap/getorset-waiter-never-released", fmt.Sprintf("%d client(s) are blocked for good in ErrMap.GetOrSet's wait: every unfinished client is waiting, nobody is left to add the key (lost wake-up)", hg.Unfinished),
			map[string]any{"program": p, "classification": hg}, i)
	} else {
		r.Inconclusive(fmt.Sprintf("%s case %d: watchdog fired but the clients are not all blocked in GetOrSet (unfinished=%d waiting=%d)", stream, i, hg.Unfinished, hg.Waiting))
	}
}

// ---------------------------------------------------------------------------------------------

func TestC15(t *testing.T) {
	if lib.IsChild() {
		return
	}
	r := lib.Start("C15")
	defer lib.End(t, r)
	r.Rule = "seeded client programs (3-6 goroutines x 4-10 ops of Add/AddOrGet/Set/Get/GetOrWait/Contains/Values/Range over 1-3 keys; maps with 1 shard, 4 shards with colliding keys, 4 shards spread; five operation-mix profiles) run concurrently on the real cmap.Map with delays injected at cmap.get.upgrade; plus sequential programs compared step by step, ErrMap programs around GetOrSet, and unrecorded stress runs for -race. Distinct by program; non-trivial = the recorded history has two operations of different clients overlapping in time on one key, at least one a write (seq stream: the program makes a waiter and later adds its key)"
	r.Assumes = []string{
		"timestamps come from one atomic counter read before the call and after the return, so recorded intervals contain the real ones",
		"porcupine v1.3.0 decides linearizability of each per-key partition; a checker timeout is inconclusive",
		"Contains is specified as 'the key has been added' (DESIGN §6 item 10); `first` after a plain Get of an absent key is left open",
	}
	workers := 8

	// Dry run in a child with hit counting: is the hook point reached at all?
	if !r.Replaying() {
		cf := filepath.Join(r.Scratch(), "hookcount")
		res := lib.Child("TestC15Child", []string{"VERIF_HOOK_COUNT=" + cf}, 120*time.Second)
		if b, err := os.ReadFile(cf); err == nil {
			for _, l := range strings.Split(string(b), "\n") {
				f := strings.Fields(l)
				if len(f) == 2 && f[0] == "cmap.get.upgrade" {
					n, _ := strconv.ParseInt(f[1], 10, 64)
					r.Obs("hook_cmap.get.upgrade_hits_in_dry_run", n)
				}
			}
		} else {
			r.Inconclusive(fmt.Sprintf("hook dry run wrote no count file (exit %d): %s", res.Exit, tail(res.Stderr)))
		}
		r.Extra("hook_delay", os.Getenv("VERIF_HOOK_DELAY"))
	}

	// Sequential programs.
	r.ForEach("seq", r.Pick(5000, 60000), workers, func(i int, rng *rand.Rand) {
		p := genProgram(rng, 1, 1)
		n := 4 + rng.Intn(12)
		ops := p.Clients[0]
		for len(ops) < n {
			ops = append(ops, genProgram(rng, 1, 1).Clients[0]...)
		}
		ops = ops[:n]
		for j := range ops { // unique values again
			if ops[j].Val != 0 {
				ops[j].Val = 1000 + j + 1
			}
			if ops[j].Key >= p.Keys {
				ops[j].Key = ops[j].Key % p.Keys
			}
		}
		// non-trivial: a GetOrWait of a key that is added later
		nontriv := false
		waited := map[int]bool{}
		for _, o := range ops {
			if o.Kind == kGetOrWait {
				waited[o.Key] = true
			}
			if (o.Kind == kAdd || o.Kind == kSet || o.Kind == kAddOrGet) && waited[o.Key] {
				nontriv = true
			}
		}
		r.Case("seq/"+lib.JSON(p.Cfg)+lib.JSON(ops), nontriv)
		r.Obs("sequential_programs", 1)
		f, trace := runSeq(p.Cfg, ops, true)
		if f == nil {
			return
		}
		small := shrinkSeq(p.Cfg, ops, f.Key)
		f2, trace2 := runSeq(p.Cfg, small, true)
		if f2 == nil || f2.Key != f.Key {
			f2, trace2 = f, trace
		}
		r.Violation(f2.Key, f2.What+" — minimal sequence: "+strings.Join(trace2, " ; "), map[string]any{"map": p.Cfg, "minimal": trace2, "original": trace}, i)
	})

	// Concurrent histories.
	reps := 1
	if r.Replaying() {
		reps = 400
	}
	r.ForEach("conc", r.Pick(8000, 120000), workers, func(i int, rng *rand.Rand) {
		p := genProgram(rng, 3, 6)
		for k := 0; k < reps; k++ {
			h := runConcurrent(p)
			overlap := false
			// cheap overlap test for the non-triviality rule (same as in checkHistory)
			byKey := map[int][]rec{}
			for _, x := range h.recs {
				if x.Op.Kind != kValues && x.Op.Kind != kRange && x.Op.Kind != kAwait {
					byKey[x.Op.Key] = append(byKey[x.Op.Key], x)
				}
			}
			for _, ks := range byKey {
				for a := range ks {
					for b := a + 1; b < len(ks) && !overlap; b++ {
						if ks[a].Client != ks[b].Client && ks[a].Call < ks[b].Ret && ks[b].Call < ks[a].Ret && (isWrite(ks[a].Op.Kind) || isWrite(ks[b].Op.Kind)) {
							overlap = true
						}
					}
				}
			}
			r.Case("conc/"+p.hash(), overlap)
			r.Obs("concurrent_histories", 1)
			r.ObsDistinct("history_signatures", signature(h.recs))
			if r.WantSample() && overlap {
				r.Sample(map[string]any{"program": p, "history": lines(h.recs)})
			}
			checkHistory(r, i, p, h, "conc")
		}
	})

	// ErrMap.
	r.ForEach("errmap", r.Pick(3000, 40000), workers, func(i int, rng *rand.Rand) {
		p := genErrProgram(rng)
		for k := 0; k < reps; k++ {
			if errmapHung.Load() {
				r.Obs("cases_skipped_after_a_hang", 1)
				return
			}
			h, acq, rel, computes, hg := runErrMap(p)
			r.Case("errmap/"+p.hash(), len(p.Clients) > 1)
			if hg != nil {
				errmapHung.Store(true)
				reportHang(r, "errmap", i, p, hg)
				return
			}
			r.Obs("errmap_histories", 1)
			if acq != rel {
				r.Violation("errmap/limiter-unbalanced", fmt.Sprintf("limiter Release called %d times, Acquire %d times", rel, acq), map[string]any{"program": p}, i)
			}
			r.Obs("errmap_waits(limiter_released)", rel)
			for k, n := range computes {
				r.Obs("errmap_computations", int64(n))
				if n > 1 {
					r.Violation("errmap/getorset-computed-more-than-once", fmt.Sprintf("GetOrSet ran its function %d times for key k%d", n, k), map[string]any{"program": p, "history": lines(h.recs)}, i)
				}
			}
			checkHistory(r, i, p, h, "errmap")
		}
	})

	// Unrecorded stress: no harness synchronisation between the goroutines after the start barrier,
	// so the race detector sees the map's own synchronisation only.
	r.ForEach("stress", r.Pick(200, 3000), workers, func(i int, rng *rand.Rand) {
		p := genProgram(rng, 4, 8)
		if errmapHung.Load() {
			r.Obs("cases_skipped_after_a_hang", 1)
			return
		}
		r.Case("stress/"+p.hash(), true)
		if hg := stress(p); hg != nil {
			errmapHung.Store(true)
			reportHang(r, "stress", i, p, hg)
			return
		}
		r.Obs("stress_runs", 1)
	})

	r.CollectRaces(lib.OwnRaceLogPrefix(), []string{"please/src/cmap."})
	if lib.OwnRaceLogPrefix() != "" {
		r.Obs("race_log_scanned", 1)
	}
	r.RequireObserved("concurrent_histories", "partitions_checked", "waiters_released_after_add", "histories_with_overlapping_write_on_a_key", "hook_cmap.get.upgrade_hits_in_dry_run", "errmap_waits(limiter_released)")
}

func stress(p program) *hang {
	m := cmap.New[int, int](p.Cfg.Shards, p.Cfg.hasher())
	lim := &limiter{} // touched only on GetOrSet's wait path
	em := cmap.NewErrMap[int, int](p.Cfg.Shards, p.Cfg.hasher(), lim)
	start := make(chan struct{})
	var wg sync.WaitGroup
	var finished atomic.Int64
	for c := range p.Clients {
		wg.Add(1)
		go func(c int) {
			defer wg.Done()
			defer finished.Add(1)
			<-start
			for round := 0; round < 3; round++ {
				for _, o := range p.Clients[c] {
					o.Key += round * 3
					runMapOp(m, o)
					if o.Kind == kGetOrWait || o.Kind == kGet {
						em.GetOrSet(o.Key, func() (int, error) { return c + 1, nil })
					}
					yieldN(o.Yield)
				}
			}
		}(c)
	}
	close(start)
	return awaitClients(&wg, &finished, len(p.Clients), lim)
}

// TestC15Child is the hook dry run: a few concurrent programs with VERIF_HOOK_COUNT set.
func TestC15Child(t *testing.T) {
	if !lib.IsChild() {
		return
	}
	rng := rand.New(rand.NewSource(1))
	for i := 0; i < 20; i++ {
		runConcurrent(genProgram(rng, 3, 4))
	}
}

func tail(s string) string {
	if len(s) > 400 {
		return s[len(s)-400:]
	}
	return s
}

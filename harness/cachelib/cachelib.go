// Package cachelib holds what the cache monitors (C12, C13, C14) share: generated output sets
// (files, directories, relative symlinks), their materialisation under a target's out directory,
// scratch repo roots and cache configurations.
package cachelib

import (
	"encoding/hex"
	"fmt"
	"math/rand"
	"os"
	"path/filepath"
	"sort"
	"strings"
	"sync"

	"github.com/thought-machine/please/src/core"

	"verifharness/iplib"
	"verifharness/lib"
)

// An OutSet is one target's outputs: Outs are the declared output names (relative to the target's
// out directory), Files is every node below them in lib.WriteTree notation (a path ending in "/" is
// an empty directory, content "->x" is a symlink to x, content starting "#!" is executable).
type OutSet struct {
	Outs  []string          `json:"outs"`
	Files map[string]string `json:"files"`
}

// Describe renders an output set compactly (long contents are abbreviated) for witnesses and hashing.
func (o OutSet) Describe() string {
	paths := make([]string, 0, len(o.Files))
	for p := range o.Files {
		paths = append(paths, p)
	}
	sort.Strings(paths)
	var sb strings.Builder
	fmt.Fprintf(&sb, "outs=%q;", o.Outs)
	for _, p := range paths {
		c := o.Files[p]
		if len(c) > 24 {
			c = fmt.Sprintf("%s…(%d bytes,%s)", c[:12], len(c), lib.Hash(c)[:8])
		}
		fmt.Fprintf(&sb, " %q=%q", p, c)
	}
	return sb.String()
}

// Witness is a JSON-friendly abbreviated form.
func (o OutSet) Witness() map[string]any {
	files := map[string]string{}
	for p, c := range o.Files {
		if len(c) > 64 {
			c = fmt.Sprintf("%s…(%d bytes)", c[:32], len(c))
		}
		files[p] = c
	}
	return map[string]any{"outs": o.Outs, "files": files}
}

// Features names the structural features of the set (for evidence and for keys).
func (o OutSet) Features() []string {
	f := map[string]bool{}
	isOut := map[string]bool{}
	for _, out := range o.Outs {
		isOut[out] = true
	}
	for p, c := range o.Files {
		top := strings.TrimSuffix(p, "/")
		nested := !isOut[top]
		switch {
		case strings.HasSuffix(p, "/"):
			f["emptydir"] = true
		case strings.HasPrefix(c, "->"):
			f["symlink"] = true
			if nested {
				f["symlink-in-dir"] = true
			}
		case strings.HasPrefix(c, "#!"):
			f["exec"] = true
		case c == "":
			f["emptyfile"] = true
		default:
			f["file"] = true
		}
		if nested {
			f["dir-out"] = true
		}
		if strings.ContainsAny(p, " ") {
			f["space-in-name"] = true
		}
		if len(p) > 100 {
			f["long-name"] = true
		}
		if len(c) > 32*1024 {
			f["large-file"] = true
		}
	}
	for _, out := range o.Outs {
		if strings.Contains(out, "/") {
			f["out-in-subdir"] = true
		}
	}
	out := make([]string, 0, len(f))
	for k := range f {
		out = append(out, k)
	}
	sort.Strings(out)
	return out
}

// An outKind is one shape of a single declared output in the catalogue of small shapes.
type outKind struct {
	Name  string
	Build func(name string) map[string]string
}

// Catalogue is the finite list of single-output shapes used for the exhaustive small scope.
var Catalogue = []outKind{
	{"file", func(n string) map[string]string { return map[string]string{n: "content of " + n + "\n"} }},
	{"emptyfile", func(n string) map[string]string { return map[string]string{n: ""} }},
	{"execfile", func(n string) map[string]string { return map[string]string{n: "#!/bin/sh\necho " + n + "\n"} }},
	{"file-in-subdir", func(n string) map[string]string { return map[string]string{"sub_" + n + "/" + n: "nested " + n} }},
	{"symlink-dangling", func(n string) map[string]string { return map[string]string{n: "->nowhere_" + n} }},
	{"symlink-up", func(n string) map[string]string { return map[string]string{n: "->../x/" + n} }},
	{"emptydir", func(n string) map[string]string { return map[string]string{n + "/": ""} }},
	{"dir-1file", func(n string) map[string]string { return map[string]string{n + "/f": "f in " + n} }},
	{"dir-nested", func(n string) map[string]string {
		return map[string]string{n + "/a": "a", n + "/ab": "ab", n + "/s/b": "b!", n + "/s/t/c": "#!c", n + "/e/": ""}
	}},
	{"dir-symlinks", func(n string) map[string]string {
		return map[string]string{n + "/f": "target file", n + "/lf": "->f", n + "/d/g": "g", n + "/ld": "->d", n + "/d/up": "->../f", n + "/dang": "->zz"}
	}},
	{"dir-spaces", func(n string) map[string]string {
		return map[string]string{n + "/a b": "space", n + "/a b c/d e": "spaces", n + "/ü-✓": "unicode"}
	}},
	{"dir-nested-empty", func(n string) map[string]string { return map[string]string{n + "/x/y/": "", n + "/x/z/": ""} }},
}

// outName returns the declared output name of a catalogue shape built with base name n.
func outName(kind outKind, n string) string {
	for p := range kind.Build(n) {
		if kind.Name == "file-in-subdir" {
			return p
		}
		if i := strings.IndexByte(p, '/'); i >= 0 {
			return p[:i]
		}
		return p
	}
	return n
}

// CatalogueSets enumerates every single shape and every ordered pair of shapes.
func CatalogueSets() []OutSet {
	var out []OutSet
	for _, k := range Catalogue {
		out = append(out, OutSet{Outs: []string{outName(k, "o1")}, Files: k.Build("o1")})
	}
	for _, k1 := range Catalogue {
		for _, k2 := range Catalogue {
			files := k1.Build("o1")
			for p, c := range k2.Build("o2") {
				files[p] = c
			}
			// a symlink to a sibling output (file or directory)
			out = append(out, OutSet{Outs: []string{outName(k1, "o1"), outName(k2, "o2")}, Files: files})
		}
	}
	// symlink outputs pointing at sibling outputs
	out = append(out,
		OutSet{Outs: []string{"f", "l"}, Files: map[string]string{"f": "data", "l": "->f"}},
		OutSet{Outs: []string{"l", "f"}, Files: map[string]string{"f": "data", "l": "->f"}},
		OutSet{Outs: []string{"d", "l"}, Files: map[string]string{"d/x": "x", "d/y": "y", "l": "->d"}},
		OutSet{Outs: []string{"l", "d"}, Files: map[string]string{"d/x": "x", "d/y": "y", "l": "->d"}},
	)
	return out
}

var nameAlphabet = []string{"a", "b", "ab", "a.b", "a b", "a_b", "ba", "A", "lib.so", "x-1", "=", "a=", "ü", "..a", "-n"}

func genName(rng *rand.Rand, used map[string]bool) string {
	for {
		var n string
		switch rng.Intn(12) {
		case 0:
			n = nameAlphabet[rng.Intn(len(nameAlphabet))] + nameAlphabet[rng.Intn(len(nameAlphabet))]
		case 1:
			n = strings.Repeat(nameAlphabet[rng.Intn(4)], 40+rng.Intn(30)) // long component (PAX headers in tar)
		default:
			n = nameAlphabet[rng.Intn(len(nameAlphabet))]
		}
		if rng.Intn(4) == 0 {
			n += fmt.Sprint(rng.Intn(10))
		}
		if !used[n] && n != "." && n != ".." {
			used[n] = true
			return n
		}
	}
}

func genContent(rng *rand.Rand, big bool) string {
	switch k := rng.Intn(10); {
	case k == 0:
		return ""
	case k == 1:
		return "#!/bin/sh\nexit " + fmt.Sprint(rng.Intn(5)) + "\n"
	case k == 2 && big:
		// large, incompressible
		b := make([]byte, 20000+rng.Intn(180000))
		rng.Read(b)
		b[0] = 'L'
		return string(b)
	case k == 3:
		// block-boundary sizes for tar
		n := []int{511, 512, 513, 1023, 1024, 1025, 4095, 4096, 4097}[rng.Intn(9)]
		return strings.Repeat("z", n)
	case k == 4:
		return strings.Repeat("near-duplicate content\n", 3) + fmt.Sprint(rng.Intn(2))
	default:
		b := make([]byte, 1+rng.Intn(200))
		for i := range b {
			b[i] = byte(' ' + rng.Intn(95))
		}
		if b[0] == '#' || b[0] == '-' {
			b[0] = 'x'
		}
		return string(b)
	}
}

// genDir fills files with the content of a directory at prefix (ending in "/").
func genDir(rng *rand.Rand, files map[string]string, prefix string, depth int, big bool) {
	n := rng.Intn(5)
	if depth == 0 && n == 0 && rng.Intn(3) != 0 {
		n = 2
	}
	if n == 0 {
		files[prefix] = ""
		return
	}
	used := map[string]bool{}
	var made []string
	for i := 0; i < n; i++ {
		name := genName(rng, used)
		switch k := rng.Intn(10); {
		case k < 5:
			files[prefix+name] = genContent(rng, big)
			made = append(made, name)
		case k < 7 && depth < 3:
			genDir(rng, files, prefix+name+"/", depth+1, big)
			made = append(made, name)
		case k < 9:
			// relative symlink: to a sibling made earlier, upwards, or dangling
			tgt := "dangling"
			if len(made) > 0 && rng.Intn(3) != 0 {
				tgt = made[rng.Intn(len(made))]
			} else if rng.Intn(2) == 0 {
				tgt = "../" + name
			}
			files[prefix+name] = "->" + tgt
		default:
			files[prefix+name+"/"] = ""
		}
	}
}

// GenOutSet generates a random output set. With rich set, at least one directory output with
// several entries is present (needed where partial copies must be observable).
func GenOutSet(rng *rand.Rand, rich, big bool) OutSet {
	for {
		o := OutSet{Files: map[string]string{}}
		used := map[string]bool{}
		n := 1 + rng.Intn(4)
		for i := 0; i < n; i++ {
			name := genName(rng, used)
			switch k := rng.Intn(10); {
			case k < 3:
				o.Files[name] = genContent(rng, big)
				o.Outs = append(o.Outs, name)
			case k < 4:
				sub := genName(rng, used)
				o.Files[sub+"/"+name] = genContent(rng, big)
				o.Outs = append(o.Outs, sub+"/"+name)
			case k < 5:
				tgt := "dangling"
				if len(o.Outs) > 0 && rng.Intn(2) == 0 {
					tgt = o.Outs[rng.Intn(len(o.Outs))]
				}
				o.Files[name] = "->" + tgt
				o.Outs = append(o.Outs, name)
			default:
				genDir(rng, o.Files, name+"/", 0, big)
				o.Outs = append(o.Outs, name)
			}
		}
		if rich {
			ok := false
			for _, out := range o.Outs {
				c := 0
				for p := range o.Files {
					if strings.HasPrefix(p, out+"/") && !strings.HasSuffix(p, "/") {
						c++
					}
				}
				if c >= 3 {
					ok = true
				}
			}
			if !ok {
				continue
			}
		}
		return o
	}
}

// Materialize creates outDir freshly (removing whatever was there) and writes the set into it.
func Materialize(outDir string, o OutSet) error {
	lib.RemoveAll(outDir)
	if err := os.MkdirAll(outDir, 0o755); err != nil {
		return err
	}
	return lib.WriteTree(outDir, o.Files)
}

// Wipe empties a target's out directory but keeps the directory itself (as Please does).
func Wipe(outDir string) {
	lib.RemoveAll(outDir)
	os.MkdirAll(outDir, 0o755)
}

// Snapshot lists the out directory; the root entry itself is left out.
func Snapshot(outDir string) (lib.Snapshot, error) {
	s, err := lib.SnapshotTree(outDir, lib.SnapOpts{})
	delete(s, ".")
	return s, err
}

// Target makes a build target for the given label.
func Target(label string) *core.BuildTarget {
	return core.NewBuildTarget(core.ParseBuildLabel(label, ""))
}

var enterOnce sync.Once
var entered string

// Enter makes root the repo root of this process (cwd + core.RepoRoot). It can only be done once
// per process; a second call with a different root panics.
func Enter(root string) {
	enterOnce.Do(func() {
		if err := os.MkdirAll(root, 0o755); err != nil {
			panic(err)
		}
		if err := os.Chdir(root); err != nil {
			panic(err)
		}
		core.RepoRoot = root
		entered = root
	})
	if entered != root {
		panic("cachelib.Enter: already in " + entered + ", asked for " + root)
	}
}

// DirConfig returns a configuration for a directory cache at dir without the background cleaner.
func DirConfig(dir string, compress bool) *core.Configuration {
	c := core.DefaultConfiguration()
	c.Cache.Dir = dir
	c.Cache.DirCompress = compress
	c.Cache.DirClean = false
	c.Cache.Workers = 0
	return c
}

// Key derives a cache key of the given length (20 = sha1, 32 = sha256) from a seed string.
func Key(seed string, n int) []byte {
	var out []byte
	for i := 0; len(out) < n; i++ {
		b, _ := hex.DecodeString(lib.Hash(seed, fmt.Sprint(i)))
		out = append(out, b...)
	}
	return out[:n]
}

// OutDir is the absolute out directory of a target under root.
func OutDir(root string, t *core.BuildTarget) string {
	return filepath.Join(root, t.OutDir())
}

// Reenter switches the repo root again. Only for sequential child processes that handle several
// scratch roots one after another; never call it while other goroutines use the caches.
func Reenter(root string) {
	if err := os.MkdirAll(root, 0o755); err != nil {
		panic(err)
	}
	if err := os.Chdir(root); err != nil {
		panic(err)
	}
	core.RepoRoot = root
	entered = root
	enterOnce.Do(func() {})
}

// Quiet silences Please's logging completely: iplib.Quiet lowers it to errors, and the cache code logs
// expected conditions (a failed rename during cleaning, a failed upload) at error/warning level, which
// would otherwise end up in the check's output. Set VERIF_PLZ_VERBOSITY to see the log.
func Quiet() {
	if os.Getenv("VERIF_PLZ_VERBOSITY") == "" {
		if devnull, err := os.OpenFile(os.DevNull, os.O_WRONLY, 0); err == nil {
			os.Stderr = devnull // the logging backend is created from os.Stderr; panics and race reports use fd 2 directly
		}
	}
	iplib.Quiet()
}

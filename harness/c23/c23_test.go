// C23 — dependency queries (somepath, deps --level, revdeps --level) agree with graph reachability.
//
// Monitor: seeded dependency graphs (rules with hidden `_x#tag` children, require/provide
// re-routing, chains with shortcuts so that nodes are reachable by paths of different lengths)
// are built through core's API; query.SomePath / query.Deps / query.ReverseDeps run on them inside
// lib.Child processes (stdout captured by swapping os.Stdout to a pipe) and are compared
// with an independent reference: Bellman-Ford relaxation with 0/1 edge weights on the model's own
// resolved edges. A thin end-to-end sample renders the same model as BUILD files and asks the real
// `plz query ...`.
package c23

import (
	"bytes"
	"encoding/json"
	"fmt"
	"math/rand"
	"os"
	"path/filepath"
	"regexp"
	"sort"
	"strconv"
	"strings"
	"sync"
	"testing"
	"time"

	"github.com/thought-machine/please/src/core"
	"github.com/thought-machine/please/src/query"

	"verifharness/iplib"
	"verifharness/lib"
)

// ---------------------------------------------------------------------------------------------
// Model

// A tgt is one build target of the model.
type tgt struct {
	Label    string           `json:"label"`
	Rule     int              `json:"rule"` // index of the visible target of the rule this target belongs to
	Hidden   bool             `json:"hidden,omitempty"`
	Requires []string         `json:"requires,omitempty"`
	Provides map[string][]int `json:"provides,omitempty"`
	Decl     []int            `json:"deps,omitempty"` // declared dependencies (indices), insertion order
}

// A gcase is one generated dependency graph.
type gcase struct {
	Shape string `json:"shape"`
	T     []tgt  `json:"targets"`
}

// String renders the graph the way a BUILD file would read.
func (g gcase) String() string {
	var sb strings.Builder
	fmt.Fprintf(&sb, "[%s]", g.Shape)
	for _, t := range g.T {
		fmt.Fprintf(&sb, " %s", t.Label)
		if len(t.Decl) > 0 {
			sb.WriteString(" -> ")
			for k, d := range t.Decl {
				if k > 0 {
					sb.WriteByte(',')
				}
				sb.WriteString(g.T[d].Label)
			}
		}
		if len(t.Requires) > 0 {
			fmt.Fprintf(&sb, " requires=%v", t.Requires)
		}
		if len(t.Provides) > 0 {
			langs := make([]string, 0, len(t.Provides))
			for l := range t.Provides {
				langs = append(langs, l)
			}
			sort.Strings(langs)
			for _, l := range langs {
				fmt.Fprintf(&sb, " provides[%s]=%v", l, g.labels(t.Provides[l]))
			}
		}
		sb.WriteByte(';')
	}
	return sb.String()
}

func (g gcase) labels(idx []int) []string {
	out := make([]string, len(idx))
	for i, x := range idx {
		out[i] = g.T[x].Label
	}
	sort.Strings(out)
	return out
}

func (g gcase) index(label string) int {
	for i, t := range g.T {
		if t.Label == label {
			return i
		}
	}
	return -1
}

// resolved returns the model's resolved dependency edges: a declared dependency on a target that
// provides something the depending target requires is replaced by the provided targets (this is
// what the documentation of require/provide describes); everything else is a direct edge.
func (g gcase) resolved() [][]int {
	adj := make([][]int, len(g.T))
	for u, t := range g.T {
		seen := map[int]bool{}
		for _, d := range t.Decl {
			var to []int
			found := false
			if len(g.T[d].Provides) > 0 {
				for _, req := range t.Requires {
					if p, ok := g.T[d].Provides[req]; ok {
						to = append(to, p...)
						found = true
					}
				}
			}
			if !found {
				to = []int{d}
			}
			for _, v := range to {
				if !seen[v] {
					seen[v] = true
					adj[u] = append(adj[u], v)
				}
			}
		}
		sort.Ints(adj[u])
	}
	return adj
}

var (
	rulePool = []string{"a", "b", "c", "d", "e", "f", "g", "h", "k", "A", "B", "C", "D", "m0", "m1", "z", "Z", "q_r"}
	tagPool  = []string{"t0", "t1", "lib", "x", "a", "zip"}
)

// genGraph generates one graph. Rules are laid out in a hidden topological order (rule i may only
// depend on rules j > i) while their labels are a random permutation, so that Please's
// label-sorted iteration order is unrelated to the topology.
func genGraph(rng *rand.Rand) gcase {
	shapes := []string{"dag", "dag", "chain", "chain", "ladder", "fanin"}
	shape := shapes[rng.Intn(len(shapes))]
	nr := 2 + rng.Intn(7)
	if shape == "chain" || shape == "ladder" {
		nr = 4 + rng.Intn(6)
	}
	names := append([]string(nil), rulePool...)
	rng.Shuffle(len(names), func(i, j int) { names[i], names[j] = names[j], names[i] })
	npk := 1
	if rng.Intn(10) >= 4 {
		npk = 2 + rng.Intn(2)
	}
	hiddenProb := []float64{0, 0.35, 0.6}[rng.Intn(3)]
	g := gcase{Shape: shape}
	vis := make([]int, nr)
	kids := make([][]int, nr)
	for i := 0; i < nr; i++ {
		pkg := fmt.Sprintf("p%d", rng.Intn(npk))
		vis[i] = len(g.T)
		g.T = append(g.T, tgt{Label: "//" + pkg + ":" + names[i], Rule: vis[i]})
		if rng.Float64() < hiddenProb {
			nk := 1 + rng.Intn(3)
			tags := append([]string(nil), tagPool...)
			rng.Shuffle(len(tags), func(a, b int) { tags[a], tags[b] = tags[b], tags[a] })
			for k := 0; k < nk; k++ {
				kids[i] = append(kids[i], len(g.T))
				g.T = append(g.T, tgt{Label: "//" + pkg + ":_" + names[i] + "#" + tags[k], Rule: vis[i], Hidden: true})
			}
		}
	}
	has := map[[2]int]bool{}
	add := func(u, v int) {
		if u != v && !has[[2]int{u, v}] {
			has[[2]int{u, v}] = true
			g.T[u].Decl = append(g.T[u].Decl, v)
		}
	}
	// Inside a rule: the visible target reaches every hidden child through intra-rule edges only.
	for i := 0; i < nr; i++ {
		for k, c := range kids[i] {
			if k == 0 || rng.Intn(2) == 0 {
				add(vis[i], c)
			} else {
				add(kids[i][rng.Intn(k)], c)
			}
			for k2 := 0; k2 < k; k2++ {
				if rng.Intn(5) < 2 {
					add(kids[i][k2], c)
				}
			}
		}
	}
	src := func(i int) int {
		if len(kids[i]) > 0 && rng.Intn(100) >= 50 {
			return kids[i][rng.Intn(len(kids[i]))]
		}
		return vis[i]
	}
	dst := func(j int) int {
		if len(kids[j]) > 0 && rng.Intn(100) >= 80 {
			return kids[j][rng.Intn(len(kids[j]))]
		}
		return vis[j]
	}
	dens := 0.1 + rng.Float64()*0.45
	for i := 0; i < nr; i++ {
		for j := i + 1; j < nr; j++ {
			p := dens
			switch shape {
			case "chain":
				if j == i+1 {
					p = 0.95
				} else if j <= i+3 {
					p = 0.4
				} else {
					p = 0.08
				}
			case "ladder":
				if j == i+2 {
					p = 0.9
				} else if j == i+1 || j == i+3 {
					p = 0.35
				} else {
					p = 0.05
				}
			case "fanin":
				if j == nr-1 || i == 0 {
					p = 0.8
				}
			}
			if rng.Float64() < p {
				add(src(i), dst(j))
				if rng.Intn(5) == 0 {
					add(src(i), dst(j))
				}
			}
		}
	}
	// require / provide
	if rng.Intn(100) < 45 {
		langs := []string{"py", "go"}
		for j := 0; j < nr; j++ {
			if len(kids[j]) > 0 && rng.Intn(10) < 6 {
				p := []int{kids[j][rng.Intn(len(kids[j]))]}
				if len(kids[j]) > 1 && rng.Intn(5) == 0 {
					p = append(p, kids[j][rng.Intn(len(kids[j]))])
					if p[0] == p[1] {
						p = p[:1]
					}
				}
				g.T[vis[j]].Provides = map[string][]int{langs[0]: p}
			}
			if j+1 < nr && rng.Intn(100) < 15 {
				if g.T[vis[j]].Provides == nil {
					g.T[vis[j]].Provides = map[string][]int{}
				}
				g.T[vis[j]].Provides[langs[1]] = []int{vis[j+1+rng.Intn(nr-j-1)]}
			}
		}
		for u := range g.T {
			if rng.Intn(10) < 4 {
				switch rng.Intn(4) {
				case 0:
					g.T[u].Requires = []string{"go", "py"}
				case 1:
					g.T[u].Requires = []string{"go"}
				default:
					g.T[u].Requires = []string{"py"}
				}
			}
		}
	}
	for u := range g.T {
		d := g.T[u].Decl
		rng.Shuffle(len(d), func(a, b int) { d[a], d[b] = d[b], d[a] })
	}
	return g
}

// ---------------------------------------------------------------------------------------------
// Reference

const inf = 1 << 30

// relax computes minimum distances from the start set by plain Bellman-Ford relaxation (the graphs
// are tiny; this is deliberately the most obvious algorithm). w gives the weight of edge u->v.
func relax(adj [][]int, starts []int, w func(u, v int) int) []int {
	dist := make([]int, len(adj))
	for i := range dist {
		dist[i] = inf
	}
	for _, s := range starts {
		dist[s] = 0
	}
	for changed := true; changed; {
		changed = false
		for u := range adj {
			if dist[u] == inf {
				continue
			}
			for _, v := range adj[u] {
				if d := dist[u] + w(u, v); d < dist[v] {
					dist[v] = d
					changed = true
				}
			}
		}
	}
	return dist
}

func reverse(adj [][]int) [][]int {
	r := make([][]int, len(adj))
	for u, vs := range adj {
		for _, v := range vs {
			r[v] = append(r[v], u)
		}
	}
	return r
}

// refDeps: targets within `level` dependency steps of any of the queried labels (-1 = unlimited).
// With hidden off, an edge from a target to a hidden target of its own rule costs nothing and only
// visible targets are listed; with hidden on every edge costs one step and everything is listed.
func refDeps(g gcase, adj [][]int, labels []int, hidden bool, level int) (map[string]bool, []int) {
	out := map[string]bool{}
	best := make([]int, len(g.T))
	for i := range best {
		best[i] = inf
	}
	for _, q := range labels {
		dist := relax(adj, []int{q}, func(u, v int) int {
			if !hidden && g.T[v].Hidden && g.T[v].Rule == g.T[u].Rule {
				return 0
			}
			return 1
		})
		for v, d := range dist {
			if v == q || d == inf {
				continue
			}
			if d < best[v] {
				best[v] = d
			}
			if (level == -1 || d <= level) && (hidden || !g.T[v].Hidden) {
				out[g.T[v].Label] = true
			}
		}
	}
	return out, best
}

// refRevdeps: targets that reach one of the queried labels within `level` steps. With hidden off,
// the search starts from the rule's hidden children as well, steps inside one rule are free, and a
// hidden target stands for its rule.
func refRevdeps(g gcase, radj [][]int, labels []int, hidden bool, level int) (map[string]bool, []int) {
	out := map[string]bool{}
	best := make([]int, len(g.T))
	for i := range best {
		best[i] = inf
	}
	for _, q := range labels {
		starts := []int{q}
		if !hidden && !g.T[q].Hidden {
			for c, t := range g.T {
				if t.Hidden && t.Rule == q {
					starts = append(starts, c)
				}
			}
		}
		dist := relax(radj, starts, func(u, v int) int {
			if !hidden && g.T[u].Rule == g.T[v].Rule {
				return 0
			}
			return 1
		})
		for v, d := range dist {
			if d == inf || d == 0 {
				continue
			}
			if d < best[v] {
				best[v] = d
			}
			if level != -1 && d > level {
				continue
			}
			if hidden || !g.T[v].Hidden {
				out[g.T[v].Label] = true
			} else {
				out[g.T[g.T[v].Rule].Label] = true
			}
		}
	}
	return out, best
}

func reach(adj [][]int, from int) []bool {
	seen := make([]bool, len(adj))
	stack := []int{from}
	seen[from] = true
	for len(stack) > 0 {
		u := stack[len(stack)-1]
		stack = stack[:len(stack)-1]
		for _, v := range adj[u] {
			if !seen[v] {
				seen[v] = true
				stack = append(stack, v)
			}
		}
	}
	return seen
}

// multiLength reports whether some target is reachable from some other by paths of two lengths.
func multiLength(adj [][]int) bool {
	n := len(adj)
	for s := 0; s < n; s++ {
		short := relax(adj, []int{s}, func(u, v int) int { return 1 })
		long := relax(adj, []int{s}, func(u, v int) int { return -1 }) // DAG: longest path = -shortest with weight -1
		for v := 0; v < n; v++ {
			if short[v] != inf && short[v] != -long[v] {
				return true
			}
		}
	}
	return false
}

// ---------------------------------------------------------------------------------------------
// Engines: the code under test, in-process or through the plz binary.

type engine interface {
	// SomePath returns the printed path (labels) and whether one was reported.
	SomePath(from, to []string, hidden bool) (path []string, found bool, raw string, err error)
	Deps(labels []string, hidden bool, level int) (printed []string, raw string, err error)
	Revdeps(labels []string, hidden bool, level int) (printed []string, raw string, err error)
	Name() string
}

// capture redirects os.Stdout to a long-lived pipe while a query function runs; one reader
// goroutine splits the stream at a sentinel written after each query.
type capture struct {
	pw  *os.File
	out chan string
}

const sentinel = "\x00C23-END-OF-QUERY\x00"

func newCapture(dir string) *capture {
	pr, pw, err := os.Pipe()
	if err != nil {
		panic(err)
	}
	c := &capture{pw: pw, out: make(chan string, 1)}
	go func() {
		var acc []byte
		buf := make([]byte, 1<<16)
		for {
			n, err := pr.Read(buf)
			acc = append(acc, buf[:n]...)
			for {
				k := bytes.Index(acc, []byte(sentinel))
				if k < 0 {
					break
				}
				c.out <- string(acc[:k])
				acc = append([]byte(nil), acc[k+len(sentinel):]...)
			}
			if err != nil {
				return
			}
		}
	}()
	return c
}

func (c *capture) run(fn func()) (out string) {
	saved := os.Stdout
	os.Stdout = c.pw
	defer func() {
		// also on panic: restore, terminate the record and consume it so that the next query starts clean
		os.Stdout = saved
		c.pw.WriteString(sentinel)
		out = <-c.out
	}()
	fn()
	return
}

type ipEngine struct {
	state *core.BuildState
	cap   *capture
}

func (e *ipEngine) Name() string { return "in-process" }

func parseLabels(ls []string) []core.BuildLabel {
	out := make([]core.BuildLabel, len(ls))
	for i, l := range ls {
		out[i] = core.ParseBuildLabel(l, "")
	}
	return out
}

func lines(s string) []string {
	var out []string
	for _, l := range strings.Split(s, "\n") {
		if l = strings.TrimSpace(l); l != "" {
			out = append(out, l)
		}
	}
	return out
}

func parseSomePath(raw string) ([]string, bool) {
	ls := lines(raw)
	if len(ls) == 0 || ls[0] != "Found path:" {
		return nil, false
	}
	return ls[1:], true
}

func (e *ipEngine) SomePath(from, to []string, hidden bool) ([]string, bool, string, error) {
	var err error
	raw := e.cap.run(func() { err = query.SomePath(e.state.Graph, parseLabels(from), parseLabels(to), nil, hidden) })
	path, found := parseSomePath(raw)
	if found != (err == nil) {
		return path, found, raw, fmt.Errorf("SomePath returned error %v but printed %q", err, raw)
	}
	return path, found, raw, nil
}

func (e *ipEngine) Deps(labels []string, hidden bool, level int) ([]string, string, error) {
	var buf bytes.Buffer
	query.Deps(&buf, e.state, parseLabels(labels), hidden, level, false)
	return lines(buf.String()), buf.String(), nil
}

func (e *ipEngine) Revdeps(labels []string, hidden bool, level int) ([]string, string, error) {
	raw := e.cap.run(func() { query.ReverseDeps(e.state, parseLabels(labels), level, hidden) })
	return lines(raw), raw, nil
}

// load builds the model through core's API into a fresh graph of the engine's state.
func (e *ipEngine) load(g gcase, rng *rand.Rand) error {
	graph := core.NewGraph()
	e.state.Graph = graph
	bts := make([]*core.BuildTarget, len(g.T))
	pkgs := map[string]*core.Package{}
	for i, t := range g.T {
		l := core.ParseBuildLabel(t.Label, "")
		bt := core.NewBuildTarget(l)
		for _, r := range t.Requires {
			bt.AddRequire(r)
		}
		for lang, p := range t.Provides {
			ls := make([]core.BuildLabel, len(p))
			for k, x := range p {
				ls[k] = core.ParseBuildLabel(g.T[x].Label, "")
			}
			bt.AddProvide(lang, ls)
		}
		for _, d := range t.Decl {
			bt.AddDependency(core.ParseBuildLabel(g.T[d].Label, ""))
		}
		bts[i] = bt
		if pkgs[l.PackageName] == nil {
			pkgs[l.PackageName] = core.NewPackage(l.PackageName)
		}
	}
	for _, i := range rng.Perm(len(bts)) {
		graph.AddTarget(bts[i])
		pkgs[bts[i].Label.PackageName].AddTarget(bts[i])
	}
	for _, p := range pkgs {
		graph.AddPackage(p)
	}
	for _, bt := range bts {
		if err := bt.ResolveDependencies(graph); err != nil {
			return err
		}
	}
	// The model's resolved edges must be core's resolved edges (harness sanity, not the property).
	adj := g.resolved()
	for i, bt := range bts {
		var got []string
		for _, d := range bt.Dependencies() {
			got = append(got, d.Label.String())
		}
		sort.Strings(got)
		got = compact(got)
		if want := g.labels(adj[i]); strings.Join(want, " ") != strings.Join(got, " ") {
			return fmt.Errorf("model/core disagree on resolved deps of %s: model %v core %v", g.T[i].Label, want, got)
		}
	}
	return nil
}

func compact(s []string) []string {
	out := s[:0]
	for i, x := range s {
		if i == 0 || x != s[i-1] {
			out = append(out, x)
		}
	}
	return out
}

type e2eEngine struct {
	bin, dir string
}

func (e *e2eEngine) Name() string { return "plz" }

func (e *e2eEngine) plz(args ...string) lib.PlzResult {
	return lib.PlzCmd{Bin: e.bin, Dir: e.dir, Args: args, Timeout: 5 * time.Minute, Env: []string{"GOMAXPROCS=4"}}.Run()
}

func (e *e2eEngine) SomePath(from, to []string, hidden bool) ([]string, bool, string, error) {
	if len(from) != 1 || len(to) != 1 {
		return nil, false, "", fmt.Errorf("e2e somepath takes single labels")
	}
	args := []string{"query", "somepath"}
	if hidden {
		args = append(args, "--hidden")
	}
	res := e.plz(append(args, from[0], to[0])...)
	path, found := parseSomePath(res.Stdout)
	switch {
	case res.TimedOut:
		return nil, false, res.Stdout, fmt.Errorf("timed out")
	case res.Exit == 0 && found:
		return path, true, res.Stdout, nil
	case res.Exit == 1 && strings.Contains(res.Stdout, "Couldn't find any dependency path"):
		return nil, false, res.Stdout, nil
	}
	return nil, false, res.Stdout, fmt.Errorf("plz query somepath exit %d: %s %s", res.Exit, lib.Tail(res.Stdout, 400), lib.Tail(res.Stderr, 800))
}

func (e *e2eEngine) levelQuery(cmd string, labels []string, hidden bool, level int) ([]string, string, error) {
	args := []string{"query", cmd, "--level", strconv.Itoa(level)}
	if hidden {
		args = append(args, "--hidden")
	}
	res := e.plz(append(args, labels...)...)
	if res.TimedOut || res.Exit != 0 {
		return nil, res.Stdout, fmt.Errorf("plz query %s exit %d timeout=%v: %s", cmd, res.Exit, res.TimedOut, lib.Tail(res.Stderr, 800))
	}
	return lines(res.Stdout), res.Stdout, nil
}

func (e *e2eEngine) Deps(labels []string, hidden bool, level int) ([]string, string, error) {
	return e.levelQuery("deps", labels, hidden, level)
}

func (e *e2eEngine) Revdeps(labels []string, hidden bool, level int) ([]string, string, error) {
	return e.levelQuery("revdeps", labels, hidden, level)
}

// render writes the model as a repository of genrules.
func render(g gcase) map[string]string {
	files := map[string]string{".plzconfig": lib.DefaultPlzConfig}
	byPkg := map[string]*strings.Builder{}
	clean := regexp.MustCompile(`[^A-Za-z0-9]`)
	for _, t := range g.T {
		l := core.ParseBuildLabel(t.Label, "")
		sb := byPkg[l.PackageName]
		if sb == nil {
			sb = &strings.Builder{}
			byPkg[l.PackageName] = sb
		}
		fmt.Fprintf(sb, "genrule(\n    name = %q,\n    cmd = \"touch $OUTS\",\n    outs = [%q],\n", l.Name, "o_"+clean.ReplaceAllString(l.Name, "-")+".out")
		if len(t.Decl) > 0 {
			sb.WriteString("    deps = [")
			for _, d := range t.Decl {
				fmt.Fprintf(sb, "%q, ", g.T[d].Label)
			}
			sb.WriteString("],\n")
		}
		if len(t.Requires) > 0 {
			sb.WriteString("    requires = [")
			for _, r := range t.Requires {
				fmt.Fprintf(sb, "%q, ", r)
			}
			sb.WriteString("],\n")
		}
		if len(t.Provides) > 0 {
			sb.WriteString("    provides = {")
			langs := make([]string, 0, len(t.Provides))
			for lang := range t.Provides {
				langs = append(langs, lang)
			}
			sort.Strings(langs)
			for _, lang := range langs {
				fmt.Fprintf(sb, "%q: [", lang)
				for _, p := range t.Provides[lang] {
					fmt.Fprintf(sb, "%q, ", g.T[p].Label)
				}
				sb.WriteString("], ")
			}
			sb.WriteString("},\n")
		}
		sb.WriteString("    visibility = [\"PUBLIC\"],\n)\n\n")
	}
	for pkg, sb := range byPkg {
		files[pkg+"/BUILD"] = sb.String()
	}
	return files
}

// ---------------------------------------------------------------------------------------------
// Checks (shared by both engines)

// A sink receives what one graph's checks observed.
type sink interface {
	Obs(name string, n int64)
	ObsDistinct(name, member string)
	Violation(key, what string, witness any)
	Inconclusive(reason string)
}

type budget struct {
	pairs     int   // somepath ordered pairs (0 = all)
	levels    []int // level limits
	perTarget int   // how many of the levels each queried target gets (0 = all)
	tgts      int   // deps/revdeps query targets (0 = all)
	multi     int   // multi-label queries per query kind
}

func setOf(ls []string) map[string]bool {
	m := map[string]bool{}
	for _, l := range ls {
		m[l] = true
	}
	return m
}

func diff(want, got map[string]bool) (missing, extra []string) {
	for l := range want {
		if !got[l] {
			missing = append(missing, l)
		}
	}
	for l := range got {
		if !want[l] {
			extra = append(extra, l)
		}
	}
	sort.Strings(missing)
	sort.Strings(extra)
	return
}

func sorted(m map[string]bool) []string {
	out := make([]string, 0, len(m))
	for l := range m {
		out = append(out, l)
	}
	sort.Strings(out)
	return out
}

func idxs(g gcase, ls []string) []int {
	out := make([]int, len(ls))
	for i, l := range ls {
		out[i] = g.index(l)
	}
	return out
}

// A queryCase is one query against one graph (labels, so that it survives shrinking of the graph).
type queryCase struct {
	Kind   string   `json:"query"` // somepath | deps | revdeps
	From   []string `json:"targets"`
	To     []string `json:"to,omitempty"` // somepath only
	Hidden bool     `json:"hidden"`
	Level  int      `json:"level"`
}

func (q queryCase) String() string {
	if q.Kind == "somepath" {
		return fmt.Sprintf("somepath %v %v (hidden=%v)", q.From, q.To, q.Hidden)
	}
	return fmt.Sprintf("%s --level %d (hidden=%v) %v", q.Kind, q.Level, q.Hidden, q.From)
}

// evalQuery runs one query through the engine, compares it with the reference and reports to s.
func evalQuery(s sink, g gcase, eng engine, q queryCase) {
	adj := g.resolved()
	wit := map[string]any{"graph": g.String(), "model": g, "engine": eng.Name(), "query": q}
	if q.Kind == "somepath" {
		evalSomePath(s, g, adj, eng, q, wit)
		return
	}
	qs := idxs(g, q.From)
	var printed []string
	var raw string
	var err error
	var want, unlimited map[string]bool
	var dist []int
	if q.Kind == "deps" {
		printed, raw, err = eng.Deps(q.From, q.Hidden, q.Level)
		want, dist = refDeps(g, adj, qs, q.Hidden, q.Level)
		unlimited, _ = refDeps(g, adj, qs, q.Hidden, -1)
	} else {
		radj := reverse(adj)
		printed, raw, err = eng.Revdeps(q.From, q.Hidden, q.Level)
		want, dist = refRevdeps(g, radj, qs, q.Hidden, q.Level)
		unlimited, _ = refRevdeps(g, radj, qs, q.Hidden, -1)
	}
	if err != nil {
		s.Inconclusive(fmt.Sprintf("%s: %v", q, err))
		return
	}
	kind := q.Kind
	s.Obs(kind+"_queries", 1)
	got := setOf(printed)
	if len(got) != len(printed) {
		s.Obs(kind+"_outputs_with_repeated_lines", 1)
	}
	if len(want) > 0 {
		s.Obs(kind+"_nonempty_expected", 1)
	}
	if len(want) != len(unlimited) {
		s.Obs(kind+"_queries_where_level_cuts_something", 1)
	}
	s.Obs(kind+"_labels_compared", int64(len(want)))
	missing, extra := diff(want, got)
	if len(missing) == 0 && len(extra) == 0 {
		return
	}
	key, why := classify(g, adj, kind, qs, q.Hidden, q.Level, got, missing, extra, dist)
	wit["expected"], wit["printed"], wit["missing"], wit["extra"], wit["output"], wit["classification"] = sorted(want), printed, missing, extra, raw, why
	s.Violation(key, fmt.Sprintf("%s printed %v, reference (targets within %d steps) %v: missing %v extra %v in %s", q, sorted(got), q.Level, sorted(want), missing, extra, g.String()), wit)
}

func evalSomePath(s sink, g gcase, adj [][]int, eng engine, q queryCase, wit map[string]any) {
	from, to := idxs(g, q.From), idxs(g, q.To)
	hidden := q.Hidden
	isEdge := func(u, v int) bool {
		for _, x := range adj[u] {
			if x == v {
				return true
			}
		}
		return false
	}
	ruleLabel := func(i int) string { return g.T[g.T[i].Rule].Label }
	validate := func(path []string) (string, string) {
		if len(path) == 0 {
			return "somepath/empty-path", "reported a path with no targets"
		}
		if hidden {
			ix := idxs(g, path)
			for k, x := range ix {
				if x < 0 {
					return "somepath/unknown-target-in-path", "printed " + path[k] + " which is not in the graph"
				}
			}
			for k := 0; k+1 < len(ix); k++ {
				if !isEdge(ix[k], ix[k+1]) {
					return "somepath/bogus-edge/hidden=true", fmt.Sprintf("printed path %v but %s does not depend on %s", path, path[k], path[k+1])
				}
			}
			first, last := ix[0], ix[len(ix)-1]
			ends := func(srcs, dsts []int) bool {
				okS, okD := false, false
				for _, x := range srcs {
					okS = okS || x == first
				}
				for _, x := range dsts {
					// reaching a hidden child of the destination counts as reaching it (documented in somepath.go)
					okD = okD || x == last || (g.T[last].Hidden && g.T[last].Rule == x)
				}
				return okS && okD
			}
			if !ends(from, to) && !ends(to, from) {
				return "somepath/wrong-endpoints/hidden=true", fmt.Sprintf("printed path %v does not join the queried targets", path)
			}
			return "", ""
		}
		// hidden off: labels are rules; consecutive rules must be joined by some target-level edge
		ruleOf := map[string][]int{}
		for i := range g.T {
			ruleOf[ruleLabel(i)] = append(ruleOf[ruleLabel(i)], i)
		}
		for k, l := range path {
			if ruleOf[l] == nil {
				return "somepath/unknown-target-in-path", "printed " + path[k] + " which is not a rule of the graph"
			}
		}
		for k := 0; k+1 < len(path); k++ {
			ok := false
			for _, u := range ruleOf[path[k]] {
				for _, v := range ruleOf[path[k+1]] {
					ok = ok || isEdge(u, v)
				}
			}
			if !ok {
				return "somepath/bogus-edge/hidden=false", fmt.Sprintf("printed path %v but nothing in rule %s depends on anything in rule %s", path, path[k], path[k+1])
			}
		}
		ends := func(srcs, dsts []int) bool {
			okS, okD := false, false
			for _, x := range srcs {
				okS = okS || ruleLabel(x) == path[0]
			}
			for _, x := range dsts {
				okD = okD || ruleLabel(x) == path[len(path)-1]
			}
			return okS && okD
		}
		if !ends(from, to) && !ends(to, from) {
			return "somepath/wrong-endpoints/hidden=false", fmt.Sprintf("printed path %v does not join the queried targets", path)
		}
		return "", ""
	}
	path, found, raw, err := eng.SomePath(q.From, q.To, hidden)
	if err != nil {
		s.Inconclusive(fmt.Sprintf("%s: %v", q, err))
		return
	}
	s.Obs("somepath_queries", 1)
	fwd, rev := false, false
	for _, a := range from {
		ra := reach(adj, a)
		for _, c := range to {
			fwd = fwd || ra[c]
			rev = rev || reach(adj, c)[a]
		}
	}
	wit["output"] = raw
	if !found {
		s.Obs("somepath_reported_no_path", 1)
		if fwd || rev {
			dir := "forward"
			if !fwd {
				dir = "reverse-direction-only"
			}
			s.Violation("somepath/missed-path/"+dir, fmt.Sprintf("%s found no path although a dependency chain exists (%s) in %s", q, dir, g.String()), wit)
		} else {
			s.Obs("somepath_correct_no_path", 1)
		}
		return
	}
	s.Obs("somepath_paths_printed", 1)
	s.Obs("somepath_path_edges_validated", int64(len(path)-1))
	s.ObsDistinct("somepath_path_lengths", strconv.Itoa(len(path)))
	if !fwd && rev {
		s.Obs("somepath_paths_in_reverse_direction", 1)
	}
	if !fwd && !rev {
		s.Obs("somepath_paths_only_to_hidden_child_of_destination", 1)
	}
	if key, what := validate(path); key != "" {
		s.Violation(key, fmt.Sprintf("%s: %s in %s", q, what, g.String()), wit)
	}
}

// checkGraph enumerates the queries of one graph.
func checkGraph(s sink, g gcase, eng engine, rng *rand.Rand, b budget) {
	n := len(g.T)
	lab := func(ix ...int) []string {
		out := make([]string, len(ix))
		for i, x := range ix {
			out[i] = g.T[x].Label
		}
		return out
	}
	type pair struct{ a, b int }
	var pairs []pair
	for a := 0; a < n; a++ {
		for c := 0; c < n; c++ {
			pairs = append(pairs, pair{a, c})
		}
	}
	if b.pairs > 0 && len(pairs) > b.pairs {
		rng.Shuffle(len(pairs), func(i, j int) { pairs[i], pairs[j] = pairs[j], pairs[i] })
		pairs = pairs[:b.pairs]
	}
	for _, p := range pairs {
		h := rng.Intn(2) == 0
		evalQuery(s, g, eng, queryCase{Kind: "somepath", From: lab(p.a), To: lab(p.b), Hidden: h})
		if rng.Intn(10) < 3 {
			evalQuery(s, g, eng, queryCase{Kind: "somepath", From: lab(p.a), To: lab(p.b), Hidden: !h})
		}
	}
	for k := 0; k < b.multi && n >= 4; k++ {
		perm := rng.Perm(n)
		na, nb := 1+rng.Intn(3), 1+rng.Intn(3)
		if na+nb > n {
			na, nb = 1, 1
		}
		evalQuery(s, g, eng, queryCase{Kind: "somepath", From: lab(perm[:na]...), To: lab(perm[na : na+nb]...), Hidden: rng.Intn(2) == 0})
		s.Obs("somepath_multi_label_queries", 1)
	}
	qts := rng.Perm(n)
	if b.tgts > 0 && len(qts) > b.tgts {
		qts = qts[:b.tgts]
	}
	for _, q := range qts {
		lvs := append([]int(nil), b.levels...)
		if b.perTarget > 0 && len(lvs) > b.perTarget {
			rng.Shuffle(len(lvs), func(i, j int) { lvs[i], lvs[j] = lvs[j], lvs[i] })
			lvs = lvs[:b.perTarget]
		}
		for _, lv := range lvs {
			for _, h := range []bool{false, true} {
				evalQuery(s, g, eng, queryCase{Kind: "deps", From: lab(q), Hidden: h, Level: lv})
				evalQuery(s, g, eng, queryCase{Kind: "revdeps", From: lab(q), Hidden: h, Level: lv})
			}
		}
	}
	for k := 0; k < b.multi && n >= 3; k++ {
		perm := rng.Perm(n)
		lv := b.levels[rng.Intn(len(b.levels))]
		h := rng.Intn(2) == 0
		evalQuery(s, g, eng, queryCase{Kind: "deps", From: lab(perm[:2]...), Hidden: h, Level: lv})
		evalQuery(s, g, eng, queryCase{Kind: "revdeps", From: lab(perm[:2]...), Hidden: h, Level: lv})
		s.Obs("multi_label_level_queries", 2)
	}
}

// keySink records only the first violation (used by the shrinker).
type keySink struct {
	key, what string
	witness   any
}

func (k *keySink) Obs(string, int64)          {}
func (k *keySink) ObsDistinct(string, string) {}
func (k *keySink) Inconclusive(string)        {}
func (k *keySink) Violation(key, what string, witness any) {
	if k.key == "" {
		k.key, k.what, k.witness = key, what, witness
	}
}

// remove returns the graph without the given targets (and without the hidden children of removed
// visible targets), or false if the query's own labels would go.
func (g gcase) remove(drop map[int]bool, keep map[string]bool) (gcase, bool) {
	for i, t := range g.T {
		if drop[t.Rule] {
			drop[i] = true
		}
	}
	newIdx := make([]int, len(g.T))
	out := gcase{Shape: g.Shape + "/shrunk"}
	if strings.HasSuffix(g.Shape, "/shrunk") {
		out.Shape = g.Shape
	}
	for i, t := range g.T {
		if drop[i] {
			if keep[t.Label] {
				return g, false
			}
			newIdx[i] = -1
			continue
		}
		newIdx[i] = len(out.T)
		out.T = append(out.T, t)
	}
	for i := range out.T {
		t := out.T[i]
		t.Rule = newIdx[t.Rule]
		var decl []int
		for _, d := range t.Decl {
			if newIdx[d] >= 0 {
				decl = append(decl, newIdx[d])
			}
		}
		t.Decl = decl
		if t.Provides != nil {
			pv := map[string][]int{}
			for lang, ps := range t.Provides {
				var np []int
				for _, x := range ps {
					if newIdx[x] >= 0 {
						np = append(np, newIdx[x])
					}
				}
				if len(np) > 0 {
					pv[lang] = np
				}
			}
			t.Provides = pv
			if len(pv) == 0 {
				t.Provides = nil
			}
		}
		out.T[i] = t
	}
	return out, true
}

// wellFormed: every hidden child is reachable from its rule's visible target through edges inside the rule.
func (g gcase) wellFormed() bool {
	for i, t := range g.T {
		if !t.Hidden {
			continue
		}
		seen := map[int]bool{t.Rule: true}
		stack := []int{t.Rule}
		for len(stack) > 0 {
			u := stack[len(stack)-1]
			stack = stack[:len(stack)-1]
			for _, v := range g.T[u].Decl {
				if g.T[v].Rule == t.Rule && !seen[v] {
					seen[v] = true
					stack = append(stack, v)
				}
			}
		}
		if !seen[i] {
			return false
		}
	}
	return true
}

func (g gcase) clone() gcase {
	out := gcase{Shape: g.Shape, T: make([]tgt, len(g.T))}
	for i, t := range g.T {
		t.Decl = append([]int(nil), t.Decl...)
		t.Requires = append([]string(nil), t.Requires...)
		if t.Provides != nil {
			pv := map[string][]int{}
			for k, v := range t.Provides {
				pv[k] = append([]int(nil), v...)
			}
			t.Provides = pv
		}
		out.T[i] = t
	}
	return out
}

// shrink greedily removes targets, edges, requires and provides while the same query still yields
// the same violation key. loader makes the engine see a candidate graph.
func shrink(g gcase, q queryCase, key string, eng engine, loader func(gcase) error) gcase {
	keep := map[string]bool{}
	for _, l := range append(append([]string(nil), q.From...), q.To...) {
		keep[l] = true
	}
	still := func(c gcase) bool {
		if !c.wellFormed() || loader(c) != nil {
			return false
		}
		ks := &keySink{}
		evalQuery(ks, c, eng, q)
		return ks.key == key
	}
	for changed := true; changed; {
		changed = false
		for i := len(g.T) - 1; i >= 0; i-- {
			if i >= len(g.T) {
				continue
			}
			if c, ok := g.clone().remove(map[int]bool{i: true}, keep); ok && still(c) {
				g, changed = c, true
			}
		}
		for u := range g.T {
			for k := len(g.T[u].Decl) - 1; k >= 0; k-- {
				c := g.clone()
				c.T[u].Decl = append(c.T[u].Decl[:k], c.T[u].Decl[k+1:]...)
				if still(c) {
					g, changed = c, true
				}
			}
			if len(g.T[u].Requires) > 0 {
				c := g.clone()
				c.T[u].Requires = nil
				if still(c) {
					g, changed = c, true
				}
			}
			if g.T[u].Provides != nil {
				c := g.clone()
				c.T[u].Provides = nil
				if still(c) {
					g, changed = c, true
				}
			}
		}
	}
	loader(g)
	return g
}

// classify names the witness class of a deps/revdeps mismatch. It only chooses the key; the verdict
// was already reached by the reference. For `deps` the known suspect (one `done` map shared by all
// depths of a depth-first walk) is recognised by replaying that very algorithm on the model: if it
// reproduces the printed set exactly the key says so, anything else gets a structural key.
func classify(g gcase, adj [][]int, kind string, qs []int, hidden bool, level int, got map[string]bool, missing, extra []string, dist []int) (string, string) {
	if kind == "deps" {
		sim := simSharedDoneDeps(g, adj, qs, hidden, level)
		if m, e := diff(sim, got); len(m) == 0 && len(e) == 0 {
			return "deps/level-cut-by-longer-path", "a depth-first walk that marks targets done at first visit (whatever depth that was) prints exactly this set: a target first reached near the level limit through a long path is not expanded again when reached through a shorter one"
		}
	}
	if kind == "revdeps" && !hidden {
		sim := simFifoRevdeps(g, adj, qs, level)
		for _, s := range sim {
			if m, e := diff(s, got); len(m) == 0 && len(e) == 0 {
				return "revdeps/zero-cost-edge-after-unit-edge", "a first-in-first-out search that fixes a target's depth at first push prints exactly this set: a target pushed at depth d+1 before a free (same-rule) edge reaches it at depth d keeps the larger depth"
			}
		}
	}
	part := "both"
	if len(extra) == 0 {
		part = "missing"
	} else if len(missing) == 0 {
		part = "extra"
	}
	where := "inside-limit"
	if level == -1 {
		where = "unlimited"
	} else {
		atBoundary := true
		for _, l := range missing {
			if d := dist[g.index(l)]; d != level {
				atBoundary = false
			}
		}
		for _, l := range extra {
			if i := g.index(l); i < 0 || dist[i] != level+1 {
				atBoundary = false
			}
		}
		if atBoundary {
			where = "at-level-boundary"
		}
	}
	return fmt.Sprintf("%s/%s/%s/hidden=%v", kind, part, where, hidden), "not explained by a known defect model"
}

// simSharedDoneDeps replays "depth-first, label order, one done set for all depths, stop expanding
// at the level limit" on the model. Used for witness keys only.
func simSharedDoneDeps(g gcase, adj [][]int, qs []int, hidden bool, level int) map[string]bool {
	out := map[string]bool{}
	done := map[int]bool{}
	order := func(vs []int) []int {
		ls := make(core.BuildLabels, len(vs))
		for i, v := range vs {
			ls[i] = core.ParseBuildLabel(g.T[v].Label, "")
		}
		sort.Sort(ls)
		res := make([]int, len(ls))
		for i, l := range ls {
			res[i] = g.index(l.String())
		}
		return res
	}
	var walk func(u, cur int)
	walk = func(u, cur int) {
		if cur == level {
			return
		}
		for _, d := range order(g.T[u].Decl) {
			// provide re-routing, in require order
			var to []int
			found := false
			for _, req := range g.T[u].Requires {
				if p, ok := g.T[d].Provides[req]; ok {
					to = append(to, p...)
					found = true
				}
			}
			if !found {
				to = []int{d}
			}
			for _, v := range to {
				if done[v] {
					continue
				}
				done[v] = true
				switch {
				case hidden || !g.T[v].Hidden:
					out[g.T[v].Label] = true
					walk(v, cur+1)
				case g.T[v].Rule == g.T[u].Rule:
					walk(v, cur)
				default:
					walk(v, cur+1)
				}
			}
		}
	}
	for _, q := range qs {
		walk(q, 0)
	}
	return out
}

// simFifoRevdeps replays "first-in-first-out queue, depth fixed at first push" for hidden=false on
// the model, for every order of the initial children (Please iterates a Go map there). Keys only.
func simFifoRevdeps(g gcase, adj [][]int, qs []int, level int) []map[string]bool {
	radj := reverse(adj)
	// all orders in which the hidden children of each queried visible target can be pushed
	kidOrders := make([][][]int, len(qs))
	for i, q := range qs {
		var cs []int
		if !g.T[q].Hidden {
			for c, t := range g.T {
				if t.Hidden && t.Rule == q {
					cs = append(cs, c)
				}
			}
		}
		kidOrders[i] = orders(cs)
	}
	var results []map[string]bool
	choice := make([]int, len(qs))
	for {
		type node struct{ t, depth int }
		var queue []node
		done := map[int]bool{}
		push := func(t, d int) {
			if !done[t] {
				done[t] = true
				queue = append(queue, node{t, d})
			}
		}
		for i, q := range qs {
			push(q, 0)
			for _, c := range kidOrders[i][choice[i]] {
				push(c, 0)
			}
		}
		out := map[string]bool{}
		for len(queue) > 0 {
			nx := queue[0]
			queue = queue[1:]
			// reverse deps in label order of the depending target (graph.AllTargets order)
			ts := append([]int(nil), radj[nx.t]...)
			sort.Slice(ts, func(a, b int) bool {
				return core.ParseBuildLabel(g.T[ts[a]].Label, "").Less(core.ParseBuildLabel(g.T[ts[b]].Label, ""))
			})
			for _, t := range ts {
				d := nx.depth
				if g.T[t].Rule != g.T[nx.t].Rule {
					d++
				}
				if nx.depth < level || level == -1 {
					if d > 0 {
						out[g.T[g.T[t].Rule].Label] = true
					}
					push(t, d)
				}
			}
		}
		results = append(results, out)
		// next combination
		k := 0
		for k < len(qs) {
			choice[k]++
			if choice[k] < len(kidOrders[k]) {
				break
			}
			choice[k] = 0
			k++
		}
		if k == len(qs) || len(results) >= 216 {
			break
		}
	}
	return results
}

// orders returns every permutation of a short list (at least the empty one).
func orders(xs []int) [][]int {
	if len(xs) <= 1 {
		return [][]int{append([]int(nil), xs...)}
	}
	var out [][]int
	for i := range xs {
		rest := append(append([]int(nil), xs[:i]...), xs[i+1:]...)
		for _, o := range orders(rest) {
			out = append(out, append([]int{xs[i]}, o...))
		}
	}
	return out
}

// ---------------------------------------------------------------------------------------------
// Child protocol

type childViol struct {
	Key     string `json:"key"`
	What    string `json:"what"`
	Witness any    `json:"witness"`
	Idx     int    `json:"idx"`
}

type childCase struct {
	Hash string `json:"h"`
	Non  bool   `json:"n"`
}

type childOut struct {
	Cases   []childCase         `json:"cases"`
	Obs     map[string]int64    `json:"obs"`
	Sets    map[string][]string `json:"sets"`
	Viols   []childViol         `json:"viols"`
	Incon   []string            `json:"inconclusive"`
	Samples []any               `json:"samples"`
	Done    bool                `json:"done"`
}

type collector struct {
	eng *ipEngine
	// keys for which an earlier batch already delivered a minimised witness
	noShrink map[string]bool
	out      *childOut
	sets     map[string]map[string]bool
	keys     map[string]bool
	idx      int
}

func (c *collector) Obs(name string, n int64) { c.out.Obs[name] += n }
func (c *collector) ObsDistinct(name, member string) {
	if c.sets[name] == nil {
		c.sets[name] = map[string]bool{}
	}
	c.sets[name][member] = true
}
func (c *collector) Violation(key, what string, witness any) {
	c.out.Obs["violating_queries"]++
	if c.keys[key] {
		return
	}
	c.keys[key] = true
	if m, ok := witness.(map[string]any); ok {
		m["graph_index"] = c.idx
		q, okq := m["query"].(queryCase)
		g, okg := m["model"].(gcase)
		if okq && okg && c.eng != nil && !c.noShrink[key] {
			// minimise: same query, same key, on ever smaller graphs; then put the original graph back
			load := func(x gcase) error { return c.eng.load(x, rand.New(rand.NewSource(1))) }
			small := shrink(g, q, key, c.eng, load)
			ks := &keySink{}
			evalQuery(ks, small, c.eng, q)
			if err := load(g); err != nil {
				panic(err)
			}
			if ks.key == key && len(small.T) < len(g.T) {
				if mw, ok := ks.witness.(map[string]any); ok {
					delete(mw, "engine")
					m["minimal"] = mw
					delete(m, "model")
					what = ks.what + fmt.Sprintf("   [minimised from graph %d: %d -> %d targets]", c.idx, len(g.T), len(small.T))
					c.out.Obs["witnesses_minimised"]++
				}
			}
		}
	}
	c.out.Viols = append(c.out.Viols, childViol{Key: key, What: what, Witness: witness, Idx: c.idx})
}
func (c *collector) Inconclusive(reason string) {
	if len(c.out.Incon) < 10 {
		c.out.Incon = append(c.out.Incon, reason)
	}
}

const stream = "graphs"

func quickBudget(n int) budget {
	b := budget{levels: []int{0, 1, 2, 3, -1}, perTarget: 3, multi: 3}
	if n*n > 100 {
		b.pairs = 100
	}
	if n > 10 {
		b.tgts = 10
	}
	return b
}

// TestC23Child runs one batch of graphs in its own process.
func TestC23Child(t *testing.T) {
	if !lib.IsChild() {
		t.Skip("child of TestC23 only")
	}
	iplib.Quiet()
	atoi := func(k string) int { n, _ := strconv.Atoi(os.Getenv(k)); return n }
	lo, hi, only := atoi("C23_LO"), atoi("C23_HI"), -1
	if s := os.Getenv("C23_ONLY"); s != "" {
		only, _ = strconv.Atoi(s)
	}
	outFile, tmp := os.Getenv("C23_OUT"), os.Getenv("C23_TMP")
	r := lib.Start("C23") // for the per-case PRNG only; never finished
	eng := &ipEngine{state: iplib.NewState(), cap: newCapture(tmp)}
	out := &childOut{Obs: map[string]int64{}, Sets: map[string][]string{}}
	col := &collector{eng: eng, noShrink: setOf(strings.Split(os.Getenv("C23_NOSHRINK"), "\n")), out: out, sets: map[string]map[string]bool{}, keys: map[string]bool{}}
	progress, _ := os.OpenFile(outFile+".progress", os.O_CREATE|os.O_WRONLY|os.O_APPEND, 0o644)
	for i := lo; i < hi; i++ {
		if only >= 0 && i != only {
			continue
		}
		fmt.Fprintf(progress, "%d\n", i)
		col.idx = i
		func() {
			defer func() {
				if p := recover(); p != nil {
					col.Violation("panic-in-query", fmt.Sprintf("panic while querying graph %d: %v", i, p), map[string]any{"panic": fmt.Sprint(p)})
				}
			}()
			rng := r.Rand(stream, i)
			g := genGraph(rng)
			if err := eng.load(g, rng); err != nil {
				col.Inconclusive(fmt.Sprintf("graph %d: %v", i, err))
				out.Obs["graphs_not_loaded"]++
				return
			}
			adj := g.resolved()
			ml := multiLength(adj)
			nh := 0
			for _, t := range g.T {
				if t.Hidden {
					nh++
				}
			}
			out.Cases = append(out.Cases, childCase{Hash: lib.Hash(g.String()), Non: ml})
			out.Obs["graphs"]++
			out.Obs["targets"] += int64(len(g.T))
			out.Obs["hidden_targets"] += int64(nh)
			if ml {
				out.Obs["graphs_with_targets_reachable_by_paths_of_different_lengths"]++
			}
			if nh > 0 {
				out.Obs["graphs_with_hidden_children"]++
			}
			rerouted := false
			for u, t := range g.T {
				if strings.Join(g.labels(t.Decl), " ") != strings.Join(g.labels(adj[u]), " ") {
					rerouted = true
				}
			}
			if rerouted {
				out.Obs["graphs_with_provide_rerouted_edges"]++
			}
			col.ObsDistinct("shapes", g.Shape)
			if len(out.Samples) < 2 && ml && nh > 0 {
				out.Samples = append(out.Samples, map[string]any{"graph_index": i, "graph": g.String()})
			}
			checkGraph(col, g, eng, rng, quickBudget(len(g.T)))
		}()
	}
	for name, m := range col.sets {
		out.Sets[name] = sorted(m)
	}
	out.Done = true
	b, _ := json.Marshal(out)
	if err := os.WriteFile(outFile, b, 0o644); err != nil {
		t.Fatal(err)
	}
}

// ---------------------------------------------------------------------------------------------
// Parent

type runSink struct {
	r   *lib.Run
	idx int
}

func (s runSink) Obs(name string, n int64)        { s.r.Obs(name, n) }
func (s runSink) ObsDistinct(name, member string) { s.r.ObsDistinct(name, member) }
func (s runSink) Inconclusive(reason string)      { s.r.Inconclusive(reason) }
func (s runSink) Violation(key, what string, witness any) {
	s.r.Violation(key, what, witness, s.idx)
}

// A candidate is one batch's witness for a key.
type candidate struct {
	v     childViol
	batch int
	score score
}

// score orders witnesses: minimised first, then fewest queried labels, fewest targets, lowest graph index.
type score [4]int

func (a score) less(b score) bool {
	for i := range a {
		if a[i] != b[i] {
			return a[i] < b[i]
		}
	}
	return false
}

func witnessScore(v childViol) score {
	sc := score{1, 99, 999, v.Idx}
	m, _ := v.Witness.(map[string]any)
	if m == nil {
		return sc
	}
	w := m
	if mm, ok := m["minimal"].(map[string]any); ok {
		sc[0] = 0
		w = mm
	}
	if q, ok := w["query"].(map[string]any); ok {
		n := 0
		if ls, ok := q["targets"].([]any); ok {
			n += len(ls)
		}
		if ls, ok := q["to"].([]any); ok {
			n += len(ls)
		}
		sc[1] = n
	}
	if mod, ok := w["model"].(map[string]any); ok {
		if ts, ok := mod["targets"].([]any); ok {
			sc[2] = len(ts)
		}
	}
	return sc
}

var fatalRe = regexp.MustCompile(`(?m)^(panic:|fatal error:).*$`)

const batchSize = 25

func TestC23(t *testing.T) {
	iplib.Quiet()
	r := lib.Start("C23")
	defer lib.End(t, r)
	r.Rule = "dependency graphs of 2-9 rules (each a visible target plus 0-3 hidden `_x#tag` children reachable from it by intra-rule edges), rule labels a random permutation of a mixed-case pool over 1-3 packages (so label order is unrelated to topology), shapes dag/chain-with-shortcuts/ladder/fan-in, optional require/provide re-routing to hidden children or later rules; per graph: somepath on all ordered pairs (100 sampled above that) with hidden on/off plus multi-label queries, deps and revdeps for every target (10 sampled above that) x 3 of the levels {0,1,2,3,-1} x hidden on/off plus two-label queries; a thin end-to-end sample renders further graphs as BUILD files of genrules and asks the plz binary (3 somepath pairs, deps and revdeps --level 2 of one target, hidden on/off). Distinct by rendered graph; non-trivial = some target is reachable from another by paths of two different lengths"
	r.Assumes = []string{
		"graphs are built through core.NewBuildTarget/AddDependency/AddRequire/AddProvide/Package.AddTarget/ResolveDependencies; the model's resolved edges are cross-checked against BuildTarget.Dependencies() for every graph",
		"hidden on: every edge costs one step and all targets are listed (as the repository's own unit tests fix it); hidden off: edges inside one rule are free, hidden targets are not listed by deps and stand for their rule in revdeps",
		"somepath: a printed path must be a real chain joining the queried targets (ending at a hidden child of the destination is accepted, as somepath.go documents); a path must be printed whenever a chain exists in either direction; when only a hidden child of the destination is reachable either answer is accepted",
		"every hidden target's parent exists and the graphs are acyclic at rule level, so no ambiguous cases (orphans, rule-level cycles) are asserted",
	}

	only := -1
	if r.Replaying() {
		if b, err := os.ReadFile(os.Getenv("VERIF_REPLAY")); err == nil {
			var rp struct {
				Witness struct {
					GraphIndex *int `json:"graph_index"`
				} `json:"witness"`
			}
			if json.Unmarshal(b, &rp) == nil && rp.Witness.GraphIndex != nil {
				only = *rp.Witness.GraphIndex
			}
		}
	}
	t0 := time.Now() // reported in the evidence only
	nGraphs := r.Pick(1500, 40000)
	nBatches := (nGraphs + batchSize - 1) / batchSize
	scratch := r.Scratch()
	var minMu sync.Mutex
	minimised := map[string]bool{}
	best := map[string]candidate{}
	nViol := map[string]int{}
	r.ForEach(stream, nBatches, 8, func(bi int, _ *rand.Rand) {
		lo, hi := bi*batchSize, (bi+1)*batchSize
		if hi > nGraphs {
			hi = nGraphs
		}
		outFile := filepath.Join(scratch, fmt.Sprintf("batch.%d.json", bi))
		env := []string{
			fmt.Sprint("C23_LO=", lo), fmt.Sprint("C23_HI=", hi), "C23_OUT=" + outFile, "C23_TMP=" + scratch,
			"VERIF_REPLAY=", fmt.Sprint("VERIF_SEED=", r.Seed), "VERIF_TIER=" + r.Tier,
			"GOMAXPROCS=2", // the child is single-threaded; fewer runtime threads on a shared machine
		}
		if only >= 0 {
			env = append(env, fmt.Sprint("C23_ONLY=", only))
		}
		minMu.Lock()
		env = append(env, "C23_NOSHRINK="+strings.Join(sorted(minimised), "\n"))
		minMu.Unlock()
		res := lib.Child("TestC23Child", env, 20*time.Minute)
		r.Obs("child_processes", 1)
		r.Obs("child_wall_ms_total", res.Dur.Milliseconds())
		var co childOut
		b, err := os.ReadFile(outFile)
		prog, _ := os.ReadFile(outFile + ".progress")
		os.Remove(outFile)
		os.Remove(outFile + ".progress")
		if err != nil || json.Unmarshal(b, &co) != nil || !co.Done {
			ls := lines(string(prog))
			last := "none"
			if len(ls) > 0 {
				last = ls[len(ls)-1]
			}
			tail := lib.Tail(res.Stderr, 6000)
			switch {
			case res.TimedOut:
				r.Inconclusive(fmt.Sprintf("batch %d did not finish within the watchdog (last graph %s)", bi, last))
			case fatalRe.MatchString(res.Stderr) && strings.Contains(res.Stderr, "please/src/query"):
				li, _ := strconv.Atoi(last)
				g := genGraph(r.Rand(stream, li))
				r.Violation("process-crash-in-query", fmt.Sprintf("query code killed the process on graph %s: %s", last, fatalRe.FindString(res.Stderr)),
					map[string]any{"graph_index": li, "graph": g.String(), "stderr_tail": tail}, bi)
			default:
				r.FatalInconclusive(fmt.Sprintf("batch %d child died without a verdict (exit %d, last graph %s): %s", bi, res.Exit, last, lib.Tail(res.Stderr+res.Stdout, 1500)))
			}
			return
		}
		for _, c := range co.Cases {
			r.Case(c.Hash, c.Non)
		}
		for k, v := range co.Obs {
			r.Obs(k, v)
		}
		for k, ms := range co.Sets {
			for _, m := range ms {
				r.ObsDistinct(k, m)
			}
		}
		for _, s := range co.Samples {
			r.Sample(s)
		}
		for _, s := range co.Incon {
			r.FatalInconclusive(s)
		}
		for _, v := range co.Viols {
			if m, ok := v.Witness.(map[string]any); ok && m["minimal"] != nil {
				minMu.Lock()
				minimised[v.Key] = true
				minMu.Unlock()
			}
		}
		// collect; the best witness per key (minimised, fewest labels, fewest targets, lowest index) is reported after the stream
		minMu.Lock()
		for _, v := range co.Viols {
			cand := candidate{v: v, batch: bi, score: witnessScore(v)}
			if old, ok := best[v.Key]; !ok || cand.score.less(old.score) {
				best[v.Key] = cand
			}
			nViol[v.Key]++
		}
		minMu.Unlock()
	})
	{
		keys := make([]string, 0, len(best))
		for k := range best {
			keys = append(keys, k)
		}
		sort.Strings(keys)
		for _, k := range keys {
			c := best[k]
			r.Violation(c.v.Key, c.v.What, c.v.Witness, c.batch)
			r.Obs("violating_cases", int64(nViol[k]-1))
		}
	}

	r.Extra("wall_s_in_process_part", time.Since(t0).Seconds())
	// Thin end-to-end sample: the same models as BUILD files, the real binary.
	bin := lib.PlzBin(false)
	r.ForEach("e2e", r.Pick(12, 150), 8, func(i int, rng *rand.Rand) {
		g := genGraph(rng)
		dir := filepath.Join(scratch, fmt.Sprintf("e2e.%d", i), "repo")
		if err := lib.WriteTree(dir, render(g)); err != nil {
			r.FatalInconclusive("cannot write e2e repository: " + err.Error())
			return
		}
		defer lib.RemoveAll(filepath.Dir(dir))
		eng := &e2eEngine{bin: bin, dir: dir}
		// The binary's graph must be the model's graph: ask it for the declared picture once.
		if res := eng.plz("query", "alltargets", "--hidden"); res.Exit != 0 || len(lines(res.Stdout)) != len(g.T) {
			r.FatalInconclusive(fmt.Sprintf("e2e repository %d not understood by plz (exit %d, %d targets listed, %d expected): %s", i, res.Exit, len(lines(res.Stdout)), len(g.T), lib.Tail(res.Stderr, 600)))
			return
		}
		r.Case("e2e:"+lib.Hash(g.String()), multiLength(g.resolved()))
		r.Obs("e2e_repositories", 1)
		s := &e2eSink{runSink: runSink{r, i}, gi: i}
		checkGraph(s, g, eng, rng, budget{pairs: 3, levels: []int{2}, tgts: 1, multi: 0})
	})
	r.RequireObserved("graphs", "somepath_queries", "somepath_paths_printed", "somepath_correct_no_path", "somepath_paths_in_reverse_direction",
		"deps_queries", "deps_queries_where_level_cuts_something", "revdeps_queries", "revdeps_queries_where_level_cuts_something",
		"graphs_with_targets_reachable_by_paths_of_different_lengths", "graphs_with_hidden_children", "graphs_with_provide_rerouted_edges", "e2e_repositories", "e2e_queries")
}

// e2eSink prefixes the observation names of the end-to-end sample and keys its violations like the
// in-process ones (the defect is the same wherever it is observed).
type e2eSink struct {
	runSink
	gi int
}

func (s *e2eSink) Obs(name string, n int64) {
	s.r.Obs("e2e_"+name, n)
	if strings.HasSuffix(name, "_queries") {
		s.r.Obs("e2e_queries", n)
	}
}
func (s *e2eSink) ObsDistinct(name, member string) { s.r.ObsDistinct("e2e_"+name, member) }
func (s *e2eSink) Violation(key, what string, witness any) {
	if m, ok := witness.(map[string]any); ok {
		m["e2e_index"] = s.gi
	}
	s.r.Violation(key, "[plz binary] "+what, witness, s.gi)
}

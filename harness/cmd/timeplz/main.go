package main

import (
	"fmt"
	"math/rand"
	"os"

	"verifharness/e2e"
)

func main() {
	sb := e2e.NewSandbox(os.Args[1])
	rng := rand.New(rand.NewSource(1))
	st := e2e.Generate(rng, e2e.GenOpts{Tools: true, DirOuts: true})
	st.VLog = sb.VLog
	st.Materialize(sb.Repo)
	fmt.Println(len(st.Targets))
}

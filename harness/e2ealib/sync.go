package e2ealib

import (
	"os"
	"path/filepath"
	"strings"

	"verifharness/lib"
)

// SyncTree makes the source tree under dir equal to files (same conventions as lib.WriteTree):
// every entry that is neither listed in files, nor a parent directory of a listed path, nor kept by
// keep (called with the path relative to dir) is removed; listed files whose content already matches
// are left untouched. plz-out is always kept.
func SyncTree(dir string, files map[string]string, keep func(rel string) bool) error {
	wanted := map[string]bool{}
	for p := range files {
		p = strings.TrimSuffix(p, "/")
		for q := p; q != "." && q != "/" && q != ""; q = filepath.Dir(q) {
			wanted[q] = true
		}
	}
	var remove []string
	filepath.Walk(dir, func(p string, info os.FileInfo, err error) error {
		if err != nil || p == dir {
			return nil
		}
		rel, _ := filepath.Rel(dir, p)
		if rel == "plz-out" || (keep != nil && keep(rel)) {
			if info.IsDir() {
				return filepath.SkipDir
			}
			return nil
		}
		if !wanted[rel] {
			remove = append(remove, p)
			if info.IsDir() {
				return filepath.SkipDir
			}
		}
		return nil
	})
	for _, p := range remove {
		lib.RemoveAll(p)
	}
	todo := map[string]string{}
	for p, c := range files {
		if !strings.HasSuffix(p, "/") && !strings.HasPrefix(c, "->") {
			if b, err := os.ReadFile(filepath.Join(dir, p)); err == nil && string(b) == c {
				if fi, err := os.Lstat(filepath.Join(dir, p)); err == nil && fi.Mode().IsRegular() &&
					(fi.Mode()&0o100 != 0) == strings.HasPrefix(c, "#!") {
					continue
				}
			}
		}
		todo[p] = c
	}
	return lib.WriteTree(dir, todo)
}

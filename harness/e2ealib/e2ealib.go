// Package e2ealib holds the small helpers shared by the end-to-end monitors C10, C11, C35 and C37:
// BUILD-language literals, the base configuration, the action probe prologue and a few rng helpers.
// No Please imports.
package e2ealib

import (
	"fmt"
	"math/rand"
	"os"
	"path/filepath"
	"sort"
	"strings"
)

// PyStr renders s as a BUILD-language (Python-like) double-quoted string literal.
func PyStr(s string) string {
	var sb strings.Builder
	sb.WriteByte('"')
	for _, c := range s {
		switch c {
		case '\\':
			sb.WriteString(`\\`)
		case '"':
			sb.WriteString(`\"`)
		case '\n':
			sb.WriteString(`\n`)
		case '\t':
			sb.WriteString(`\t`)
		default:
			sb.WriteRune(c)
		}
	}
	sb.WriteByte('"')
	return sb.String()
}

// PyList renders a list of string literals.
func PyList(ss []string) string {
	parts := make([]string, len(ss))
	for i, s := range ss {
		parts[i] = PyStr(s)
	}
	return "[" + strings.Join(parts, ", ") + "]"
}

// PyDict renders a dict of string to string with sorted keys.
func PyDict(m map[string]string) string {
	keys := make([]string, 0, len(m))
	for k := range m {
		keys = append(keys, k)
	}
	sort.Strings(keys)
	parts := make([]string, len(keys))
	for i, k := range keys {
		parts[i] = PyStr(k) + ": " + PyStr(m[k])
	}
	return "{" + strings.Join(parts, ", ") + "}"
}

// PyDictList renders a dict of string to list of strings with sorted keys.
func PyDictList(m map[string][]string) string {
	keys := make([]string, 0, len(m))
	for k := range m {
		keys = append(keys, k)
	}
	sort.Strings(keys)
	parts := make([]string, len(keys))
	for i, k := range keys {
		parts[i] = PyStr(k) + ": " + PyList(m[k])
	}
	return "{" + strings.Join(parts, ", ") + "}"
}

// A Rule is one call of a build rule in a BUILD file: ordered (argument, rendered value) pairs.
type Rule struct {
	Func string
	Args [][2]string
}

// Add appends an argument whose value is already rendered.
func (r *Rule) Add(name, rendered string) *Rule {
	r.Args = append(r.Args, [2]string{name, rendered})
	return r
}

// Str appends a string argument.
func (r *Rule) Str(name, v string) *Rule { return r.Add(name, PyStr(v)) }

// List appends a list-of-strings argument.
func (r *Rule) List(name string, v []string) *Rule { return r.Add(name, PyList(v)) }

// Render renders the call.
func (r *Rule) Render() string {
	var sb strings.Builder
	sb.WriteString(r.Func + "(\n")
	for _, a := range r.Args {
		fmt.Fprintf(&sb, "    %s = %s,\n", a[0], a[1])
	}
	sb.WriteString(")\n\n")
	return sb.String()
}

// NewRule starts a rule call with its name argument.
func NewRule(fn, name string) *Rule {
	return (&Rule{Func: fn}).Str("name", name)
}

// BaseConfig is the .plzconfig every generated repository starts from. cacheDir "" disables the
// directory cache (plz's default would otherwise be $HOME/.cache/please).
func BaseConfig(cacheDir string, extra string) string {
	return "[please]\nselfupdate = false\nautoclean = false\n\n[build]\npath = /usr/local/bin:/usr/bin:/bin\n" +
		"\n[cache]\ndir = " + cacheDir + "\n" + extra
}

// Probe returns the action-probe prologue for a command: it records that the command with this id
// started during the current invocation (the probe directory is emptied between invocations).
func Probe(vlog, id string) string {
	return fmt.Sprintf(`mkdir "%s/%s.started" 2>/dev/null || echo "DUP %s" >> "%s/violations"`, vlog, id, id, vlog)
}

// Ran reports whether id is among the started action ids.
func Ran(started []string, id string) bool {
	for _, s := range started {
		if s == id {
			return true
		}
	}
	return false
}

// Token returns n random lower-case hex digits.
func Token(rng *rand.Rand, n int) string {
	const hexd = "0123456789abcdef"
	b := make([]byte, n)
	for i := range b {
		b[i] = hexd[rng.Intn(16)]
	}
	return string(b)
}

// Choose returns one element.
func Choose(rng *rand.Rand, ss []string) string { return ss[rng.Intn(len(ss))] }

// Subset returns each element with probability p, in order.
func Subset(rng *rand.Rand, ss []string, p float64) []string {
	var out []string
	for _, s := range ss {
		if rng.Float64() < p {
			out = append(out, s)
		}
	}
	return out
}

// ReadFile returns the file's content or "" and false.
func ReadFile(path string) (string, bool) {
	b, err := os.ReadFile(path)
	if err != nil {
		return "", false
	}
	return string(b), true
}

// SortedKeys returns the sorted keys of a string-keyed map.
func SortedKeys[V any](m map[string]V) []string {
	keys := make([]string, 0, len(m))
	for k := range m {
		keys = append(keys, k)
	}
	sort.Strings(keys)
	return keys
}

// Gen returns the path of a file under plz-out/gen.
func Gen(repo string, parts ...string) string {
	return filepath.Join(append([]string{repo, "plz-out", "gen"}, parts...)...)
}

// Bin returns the path of a file under plz-out/bin.
func Bin(repo string, parts ...string) string {
	return filepath.Join(append([]string{repo, "plz-out", "bin"}, parts...)...)
}

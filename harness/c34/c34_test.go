// C34 — output trees are copied and linked faithfully.
// Monitor: generated small trees (hashtreelib) are materialised under scratch and handed to the real
// fs.RecursiveCopy / fs.RecursiveLink / fs.RecursiveCopyOrLinkFile. The destination's canonical
// listing (lib.SnapshotTree) is compared with a listing computed from the in-memory model (kinds,
// file contents, directories incl. empty ones, symlink targets verbatim); permission bits are
// compared only where the call fixes them (copy with a non-zero mode; link / link-fallback = the
// source's mode); the source is listed (with full permission bits) before and after every call and
// after the destination has been overwritten the way Please overwrites outputs.
package c34

import (
	"bytes"
	"crypto/sha256"
	"encoding/hex"
	"fmt"
	"math/rand"
	"os"
	"path/filepath"
	"sort"
	"strings"
	"syscall"
	"testing"

	"github.com/thought-machine/please/src/fs"

	ht "verifharness/hashtreelib"
	"verifharness/iplib"
	"verifharness/lib"
)

// An op is one way of calling the code under test.
type op struct {
	Name     string      `json:"name"` // key component (copy | link | link-nofallback)
	Obs      string      `json:"-"`    // evidence counter name
	API      string      `json:"api"`  // RecursiveCopy | RecursiveLink | RecursiveCopyOrLinkFile
	Mode     os.FileMode `json:"mode"`
	Link     bool        `json:"link"`
	Fallback bool        `json:"fallback"`
}

func (o op) String() string {
	switch o.API {
	case "RecursiveCopy":
		return fmt.Sprintf("RecursiveCopy(mode=%#o)", uint32(o.Mode))
	case "RecursiveLink":
		return "RecursiveLink"
	}
	return fmt.Sprintf("RecursiveCopyOrLinkFile(mode=%#o,link=%v,fallback=%v)", uint32(o.Mode), o.Link, o.Fallback)
}

func (o op) run(from, to string) error {
	switch o.API {
	case "RecursiveCopy":
		return fs.RecursiveCopy(from, to, o.Mode)
	case "RecursiveLink":
		return fs.RecursiveLink(from, to)
	}
	return fs.RecursiveCopyOrLinkFile(from, to, o.Mode, o.Link, o.Fallback)
}

// copyModes are the modes Please's callers pass (OutMode 0444/0555, export's |0200) and a few others.
var copyModes = []os.FileMode{0o444, 0o555, 0o644, 0o755, 0o600, 0o664}

func opsFor(rng *rand.Rand) []op {
	m := copyModes[rng.Intn(len(copyModes))]
	m2 := copyModes[rng.Intn(len(copyModes))]
	return []op{
		{Name: "copy", Obs: "RecursiveCopy(mode=0)", API: "RecursiveCopy", Mode: 0},
		{Name: "copy", Obs: "RecursiveCopy(mode=m)", API: "RecursiveCopy", Mode: m},
		{Name: "link", Obs: "RecursiveLink", API: "RecursiveLink", Link: true, Fallback: true},
		{Name: "link-nofallback", Obs: "RecursiveCopyOrLinkFile(link,nofallback)", API: "RecursiveCopyOrLinkFile", Mode: m2, Link: true, Fallback: false},
	}
}

// A scenario is everything that determines one case besides the tree.
type scenario struct {
	Tree     ht.Tree `json:"tree"`
	RootName string  `json:"root_name"`
	DestName string  `json:"dest_name"`
	Relative bool    `json:"relative_paths"`
}

type witness struct {
	Scenario scenario `json:"scenario"`
	Op       string   `json:"op"`
	Pre      string   `json:"preexisting,omitempty"`
	Diff     []string `json:"diff,omitempty"`
	Err      string   `json:"error,omitempty"`
	Shown    string   `json:"tree_shown"`
}

type mon struct {
	r    *lib.Run
	base string // absolute scratch root == process cwd
}

func sum(b []byte) string {
	h := sha256.Sum256(b)
	return hex.EncodeToString(h[:12])
}

// model computes the expected canonical listing of a tree from the in-memory model alone.
func model(t ht.Tree) lib.Snapshot {
	s := lib.Snapshot{}
	for p, e := range t {
		switch e.K {
		case ht.Dir:
			s[p] = lib.Entry{Type: "dir"}
		case ht.Link:
			s[p] = lib.Entry{Type: "symlink", Link: e.D}
		case ht.File:
			c := e.Content()
			s[p] = lib.Entry{Type: "file", Sum: sum(c), Size: int64(len(c))}
		}
	}
	return s
}

// perms lists permission bits of every regular file and directory below (and including) root.
func perms(root string) (map[string]os.FileMode, map[string]uint64, error) {
	pm := map[string]os.FileMode{}
	ino := map[string]uint64{}
	err := filepath.Walk(root, func(p string, info os.FileInfo, err error) error {
		if err != nil {
			return err
		}
		rel, _ := filepath.Rel(root, p)
		if info.Mode()&os.ModeSymlink == 0 {
			pm[rel] = info.Mode().Perm()
		}
		if st, ok := info.Sys().(*syscall.Stat_t); ok && info.Mode().IsRegular() {
			ino[rel] = st.Ino
		}
		return nil
	})
	return pm, ino, err
}

// entryClass names the kind of the model entry at p for witness keys.
func entryClass(t ht.Tree, p string) string {
	e, ok := t[p]
	if !ok {
		return "none"
	}
	switch e.K {
	case ht.Dir:
		for q := range t {
			if q != p && ht.Under(q, p) {
				return "dir"
			}
		}
		return "empty-dir"
	case ht.Link:
		return "symlink-to-" + t.LinkClass(p)
	}
	switch {
	case e.HL != "":
		return "hardlinked-file"
	case e.Len() == 0:
		return "empty-file"
	case e.Big != nil:
		return "big-file"
	case e.RO:
		return "readonly-file"
	case e.X:
		return "exec-file"
	}
	return "file"
}

func rootClass(t ht.Tree) string {
	switch t["."].K {
	case ht.Dir:
		return "dir-root"
	case ht.Link:
		return "symlink-root"
	}
	return "file-root"
}

// classify turns the first difference between want and got into a key fragment.
func classify(t ht.Tree, want, got lib.Snapshot) string {
	keys := map[string]struct{}{}
	for k := range want {
		keys[k] = struct{}{}
	}
	for k := range got {
		keys[k] = struct{}{}
	}
	ks := make([]string, 0, len(keys))
	for k := range keys {
		ks = append(ks, k)
	}
	sort.Strings(ks)
	for _, k := range ks {
		w, wok := want[k]
		g, gok := got[k]
		where := "nested"
		if k == "." {
			where = "root"
		} else if !strings.Contains(k, "/") {
			where = "top"
		}
		switch {
		case !wok:
			// Entries below something that should not be a directory are a consequence; name the parent.
			return "extra-" + g.Type + "/" + where
		case !gok:
			return "missing/" + entryClass(t, k) + "/" + where
		case w.Type != g.Type:
			return "kind-" + w.Type + "-became-" + g.Type + "/" + entryClass(t, k) + "/" + where
		case w.Link != g.Link:
			return "symlink-target/" + entryClass(t, k) + "/" + where
		case w.Sum != g.Sum || w.Size != g.Size:
			return "content/" + entryClass(t, k) + "/" + where
		}
	}
	return ""
}

func errClass(err error) string {
	var en syscall.Errno
	for e := err; e != nil; {
		if x, ok := e.(syscall.Errno); ok {
			en = x
			break
		}
		u, ok := e.(interface{ Unwrap() error })
		if !ok {
			break
		}
		e = u.Unwrap()
	}
	switch en {
	case syscall.EEXIST:
		return "EEXIST"
	case syscall.ENOENT:
		return "ENOENT"
	case syscall.EISDIR:
		return "EISDIR"
	case syscall.ENOTDIR:
		return "ENOTDIR"
	case syscall.ENAMETOOLONG:
		return "ENAMETOOLONG"
	case syscall.EACCES, syscall.EPERM:
		return "EPERM"
	case syscall.ELOOP:
		return "ELOOP"
	case 0:
		return "other"
	}
	return fmt.Sprintf("errno%d", int(en))
}

func (m *mon) path(abs string, relative bool) string {
	if !relative {
		return abs
	}
	rel, err := filepath.Rel(m.base, abs)
	if err != nil {
		return abs
	}
	return rel
}

// srcState is what "the source tree" means for the never-modified clause.
type srcState struct {
	snap  lib.Snapshot
	perms map[string]os.FileMode
}

func takeSrc(src string) (srcState, error) {
	s, err := lib.SnapshotTree(src, lib.SnapOpts{NoExec: true})
	if err != nil {
		return srcState{}, err
	}
	pm, _, err := perms(src)
	return srcState{s, pm}, err
}

func (a srcState) diff(b srcState) []string {
	d := lib.Diff(a.snap, b.snap)
	var ks []string
	for k := range a.perms {
		ks = append(ks, k)
	}
	sort.Strings(ks)
	for _, k := range ks {
		if bm, ok := b.perms[k]; ok && bm != a.perms[k] {
			d = append(d, fmt.Sprintf("mode of %s: was %#o now %#o", k, uint32(a.perms[k]), uint32(bm)))
		}
	}
	return d
}

// prepare builds a pre-existing destination of the given kind. Only directories and regular files are
// pre-created (Please removes outputs before re-creating them; symlink positions stay absent).
func prepare(kind string, sc scenario, src, dest string) error {
	t := sc.Tree
	for _, p := range t.Paths() {
		e := t[p]
		full := dest
		if p != "." {
			full = filepath.Join(dest, filepath.FromSlash(p))
		}
		switch e.K {
		case ht.Dir:
			if err := os.MkdirAll(full, 0o755); err != nil {
				return err
			}
		case ht.File:
			switch kind {
			case "stale-files":
				if err := os.WriteFile(full, []byte("stale:"+p), 0o600); err != nil {
					return err
				}
			case "linked-to-source":
				from := src
				if p != "." {
					from = filepath.Join(src, filepath.FromSlash(p))
				}
				if err := os.Link(from, full); err != nil {
					return err
				}
			case "empty-skeleton":
			}
		}
	}
	if kind == "unrelated-entries" && t["."].K == ht.Dir {
		if err := os.MkdirAll(filepath.Join(dest, "zz-unrelated-dir"), 0o755); err != nil {
			return err
		}
		return os.WriteFile(filepath.Join(dest, "zz-unrelated-file"), []byte("keep"), 0o644)
	}
	return nil
}

// checkDest compares the destination with the model; returns a key fragment ("" if faithful) and the diff.
func (m *mon) checkDest(sc scenario, o op, pre string, src, dest string, srcPerms map[string]os.FileMode, srcIno map[string]uint64) (string, []string) {
	t := sc.Tree
	want := model(t)
	got, err := lib.SnapshotTree(dest, lib.SnapOpts{NoExec: true})
	if err != nil {
		return "dest-unreadable/" + errClass(err), []string{err.Error()}
	}
	if pre == "unrelated-entries" {
		for k := range got {
			if strings.HasPrefix(k, "zz-unrelated") {
				delete(got, k)
			}
		}
	}
	if d := lib.Diff(want, got); len(d) > 0 {
		return classify(t, want, got), d
	}
	// Permission bits, only where the call determines them.
	dp, dino, err := perms(dest)
	if err != nil {
		return "dest-unreadable/" + errClass(err), []string{err.Error()}
	}
	var md []string
	key := ""
	for _, p := range t.Paths() {
		if t[p].K != ht.File {
			continue
		}
		var wantMode os.FileMode
		switch {
		case o.Link:
			wantMode = srcPerms[p] // a link has the source's mode; the fallback copy promises the same
		case o.Mode != 0:
			wantMode = o.Mode
		default:
			continue // mode 0: the call does not specify one
		}
		if dp[p] != wantMode {
			md = append(md, fmt.Sprintf("mode of %s: want %#o got %#o", p, uint32(wantMode), uint32(dp[p])))
			if key == "" {
				key = "mode/" + entryClass(t, p)
			}
		}
		if o.Link {
			if dino[p] == srcIno[p] {
				m.r.Obs("files_hardlinked", 1)
			} else {
				m.r.Obs("files_copied_by_fallback", 1)
			}
		} else {
			if dino[p] == srcIno[p] {
				m.r.Obs("copy_shares_inode_with_source", 1)
			}
			m.r.Obs("files_copied", 1)
		}
	}
	return key, md
}

// overwrite rewrites every regular file of dest the way Please rewrites outputs: remove+create, or
// fs.WriteFile (temp file + rename).
func overwrite(t ht.Tree, dest, how string) error {
	for _, p := range t.Paths() {
		if t[p].K != ht.File {
			continue
		}
		full := dest
		if p != "." {
			full = filepath.Join(dest, filepath.FromSlash(p))
		}
		switch how {
		case "remove+create":
			if err := os.Remove(full); err != nil {
				return err
			}
			if err := os.WriteFile(full, []byte("overwritten:"+p), 0o644); err != nil {
				return err
			}
		case "fs.WriteFile":
			if err := fs.WriteFile(bytes.NewReader([]byte("overwritten:"+p)), full, 0o644); err != nil {
				return err
			}
		case "fs.CopyFile":
			tmp := full + ".c34new"
			if err := os.WriteFile(tmp, []byte("overwritten:"+p), 0o644); err != nil {
				return err
			}
			if err := fs.CopyFile(tmp, full, 0o644); err != nil {
				return err
			}
			os.Remove(tmp)
		}
	}
	return nil
}

// runCase runs every op (fresh destination), one pre-existing-destination variant and the
// overwrite-after-link step on one scenario.
func (m *mon) runCase(stream string, idx int, sc scenario, rng *rand.Rand) {
	r := m.r
	t := sc.Tree
	caseDir := filepath.Join(m.base, stream, fmt.Sprint(idx))
	if err := os.MkdirAll(filepath.Join(caseDir, "s"), 0o755); err != nil {
		r.Inconclusive("mkdir: " + err.Error())
		return
	}
	defer lib.RemoveAll(caseDir)
	src := filepath.Join(caseDir, "s", sc.RootName)
	// Context for root symlinks: a file "a", a directory "b" next to the source root.
	if t["."].K == ht.Link {
		os.WriteFile(filepath.Join(caseDir, "s", "a"), []byte("ctx-a"), 0o644)
		os.MkdirAll(filepath.Join(caseDir, "s", "b"), 0o755)
	}
	if err := ht.Write(src, t); err != nil {
		r.Inconclusive("cannot materialise tree: " + err.Error())
		return
	}
	before, err := takeSrc(src)
	if err != nil {
		r.Inconclusive("cannot list source: " + err.Error())
		return
	}
	if d := lib.Diff(model(t), before.snap); len(d) > 0 {
		r.Inconclusive("materialised tree differs from model: " + strings.Join(d, "; "))
		return
	}
	_, srcIno, _ := perms(src)
	nontrivial := len(t) > 1 || t["."].K != ht.File
	r.Case(lib.Hash(t.Canon(), sc.RootName, sc.DestName, fmt.Sprint(sc.Relative)), nontrivial)
	r.ObsDistinct("root_kinds", rootClass(t))
	for p := range t {
		if p != "." {
			r.ObsDistinct("entry_classes", entryClass(t, p))
		}
	}
	if r.WantSample() && len(t) > 3 {
		r.Sample(map[string]any{"tree": t.String(), "root_name": sc.RootName, "dest_name": sc.DestName, "relative_paths": sc.Relative})
	}

	wit := func(o op, pre string, diff []string, err error) witness {
		w := witness{Scenario: sc, Op: o.String(), Pre: pre, Diff: diff, Shown: t.String()}
		if len(w.Diff) > 12 {
			w.Diff = w.Diff[:12]
		}
		if err != nil {
			w.Err = err.Error()
		}
		return w
	}
	checkSource := func(o op, pre, phase string) bool {
		after, err := takeSrc(src)
		if err != nil {
			r.Violation(fmt.Sprintf("source-modified/%s/%s/unreadable", o.Name, rootClass(t)), "source tree unreadable after "+o.String()+": "+err.Error(), wit(o, pre, nil, err), idx)
			return false
		}
		if d := before.diff(after); len(d) > 0 {
			frag := classify(t, before.snap, after.snap)
			if frag == "" {
				frag = "mode"
			}
			r.Violation(fmt.Sprintf("source-modified/%s/%s/%s/%s", phase, o.Name, rootClass(t), frag),
				fmt.Sprintf("source tree changed by %s (%s) on %s: %s", o.String(), phase, t.String(), strings.Join(d, "; ")), wit(o, pre, d, nil), idx)
			return false
		}
		r.Obs("source_unchanged_checks", 1)
		return true
	}

	ops := opsFor(rng)
	var linkDest string
	var linkOp op
	for k, o := range ops {
		destParent := filepath.Join(caseDir, fmt.Sprintf("d%d", k))
		os.MkdirAll(destParent, 0o755)
		dest := filepath.Join(destParent, sc.DestName)
		err := o.run(m.path(src, sc.Relative), m.path(dest, sc.Relative))
		r.Obs("calls/"+o.Obs, 1)
		if followed := rootSymlinkFollowed(t, o, dest, err); followed != "" {
			// One defect, three faces (regular file / EISDIR / ENOENT): one key.
			r.Obs("root_symlink_followed/"+rootKey(t), 1)
			r.Violation("copy/symlink-root/followed-instead-of-reproduced",
				fmt.Sprintf("%s of a root symlink %s (context: sibling file a, sibling dir b) follows the link: %s", o.String(), t.String(), followed), wit(o, "", nil, err), idx)
			checkSource(o, "", "call")
			continue
		}
		if longNameTemp(t, err) {
			r.Obs("long_name_tempfile_failures", 1)
			r.Violation("copy/file-name-over-245-bytes/tempfile-ENAMETOOLONG",
				fmt.Sprintf("%s of a tree with a %d-byte file name failed: fs.WriteFile appends a random suffix to the full name for its temp file: %v", o.String(), maxName(t), err), wit(o, "", nil, err), idx)
			checkSource(o, "", "call")
			continue
		}
		if err != nil {
			r.Violation(fmt.Sprintf("error/%s/%s/%s", o.Name, rootKey(t), errClass(err)),
				fmt.Sprintf("%s of %s to an absent destination failed: %v", o.String(), t.String(), err), wit(o, "", nil, err), idx)
			checkSource(o, "", "call")
			continue
		}
		if frag, d := m.checkDest(sc, o, "", src, dest, before.perms, srcIno); frag != "" {
			r.Violation(fmt.Sprintf("unfaithful/%s/%s/%s", o.Name, rootClass(t), frag),
				fmt.Sprintf("%s of %s: destination differs: %s", o.String(), t.String(), strings.Join(d, "; ")), wit(o, "", d, nil), idx)
		} else {
			r.Obs("faithful_destinations", 1)
		}
		checkSource(o, "", "call")
		if o.API == "RecursiveLink" {
			linkDest, linkOp = dest, o
		}
	}

	// Overwrite the linked destination the way Please overwrites outputs; the source must not move.
	if linkDest != "" && t["."].K != ht.Link {
		how := []string{"remove+create", "fs.WriteFile", "fs.CopyFile"}[rng.Intn(3)]
		for p := range t {
			if len(ht.Base(p)) > 240 {
				how = "remove+create" // fs.WriteFile's temp name would not fit (reported by the copy ops already)
			}
		}
		if err := overwrite(t, linkDest, how); err != nil {
			r.Inconclusive("overwrite step failed: " + err.Error())
		} else {
			r.Obs("overwrite_after_link/"+how, 1)
			checkSource(linkOp, "", "overwrite-after-link:"+how)
		}
	}

	// One pre-existing destination variant (directories and regular files only; see prepare).
	if t["."].K != ht.Link {
		pre := []string{"stale-files", "linked-to-source", "empty-skeleton", "unrelated-entries"}[rng.Intn(4)]
		o := ops[rng.Intn(3)] // copy-mode0, copy, link(+fallback)
		destParent := filepath.Join(caseDir, "dp")
		os.MkdirAll(destParent, 0o755)
		dest := filepath.Join(destParent, sc.DestName)
		if err := prepare(pre, sc, src, dest); err != nil {
			r.Inconclusive("cannot prepare destination: " + err.Error())
			return
		}
		// Preparing "linked-to-source" changes nothing the source listing records.
		err := o.run(m.path(src, sc.Relative), m.path(dest, sc.Relative))
		r.Obs("calls_preexisting/"+pre+"/"+o.Obs, 1)
		if longNameTemp(t, err) {
			r.Obs("long_name_tempfile_failures", 1)
			r.Violation("copy/file-name-over-245-bytes/tempfile-ENAMETOOLONG",
				fmt.Sprintf("%s of a tree with a %d-byte file name failed: %v", o.String(), maxName(t), err), wit(o, pre, nil, err), idx)
		} else if err != nil {
			r.Violation(fmt.Sprintf("error-preexisting/%s/%s/%s/%s", pre, o.Name, rootKey(t), errClass(err)),
				fmt.Sprintf("%s of %s onto a pre-existing destination (%s) failed: %v", o.String(), t.String(), pre, err), wit(o, pre, nil, err), idx)
		} else if frag, d := m.checkDest(sc, o, pre, src, dest, before.perms, srcIno); frag != "" {
			r.Violation(fmt.Sprintf("unfaithful-preexisting/%s/%s/%s/%s", pre, o.Name, rootClass(t), frag),
				fmt.Sprintf("%s of %s onto a pre-existing destination (%s): destination differs: %s", o.String(), t.String(), pre, strings.Join(d, "; ")), wit(o, pre, d, nil), idx)
		} else {
			r.Obs("faithful_destinations", 1)
		}
		checkSource(o, pre, "preexisting:"+pre)
	}
}

// rootSymlinkFollowed recognises the outcomes of copying (not linking) a tree whose root is a symlink
// by following it: a regular file with the referent's content, EISDIR for a directory referent, ENOENT
// for a dangling link. Anything else is left to the generic checks.
func rootSymlinkFollowed(t ht.Tree, o op, dest string, err error) string {
	if t["."].K != ht.Link || o.Link {
		return ""
	}
	switch rootKey(t) {
	case "symlink-root-to-file":
		if err == nil {
			if b, e := os.ReadFile(dest); e == nil && string(b) == "ctx-a" {
				if fi, e := os.Lstat(dest); e == nil && fi.Mode().IsRegular() {
					return "destination is a regular file holding the referent's content"
				}
			}
		}
	case "symlink-root-to-dir":
		if err != nil && errClass(err) == "EISDIR" {
			return "fails with EISDIR (referent is a directory): " + err.Error()
		}
	case "symlink-root-dangling":
		if err != nil && errClass(err) == "ENOENT" {
			if _, e := os.Lstat(dest); e != nil {
				return "fails with ENOENT (referent does not exist): " + err.Error()
			}
		}
	}
	return ""
}

// maxName is the longest regular-file name (bytes) in t.
func maxName(t ht.Tree) int {
	n := 0
	for p, e := range t {
		if e.K == ht.File && p != "." && len(ht.Base(p)) > n {
			n = len(ht.Base(p))
		}
	}
	return n
}

// longNameTemp recognises ENAMETOOLONG caused by fs.WriteFile's temp name (file name + up to 10 digits).
func longNameTemp(t ht.Tree, err error) bool {
	return err != nil && errClass(err) == "ENAMETOOLONG" && maxName(t) > 245
}

// rootKey refines the root class for error keys: what a root symlink points at decides which error occurs.
func rootKey(t ht.Tree) string {
	if t["."].K != ht.Link {
		return rootClass(t)
	}
	switch t["."].D {
	case "a":
		return "symlink-root-to-file"
	case "b":
		return "symlink-root-to-dir"
	}
	return "symlink-root-dangling"
}

var rootNames = []string{"out", "o", "out.d", "a b", "out*", "x"}

func (m *mon) scenarioFor(rng *rand.Rand, t ht.Tree) scenario {
	sc := scenario{Tree: t, RootName: rootNames[rng.Intn(len(rootNames))], Relative: rng.Intn(2) == 0}
	sc.DestName = sc.RootName
	if rng.Intn(3) == 0 {
		sc.DestName = rootNames[rng.Intn(len(rootNames))]
	}
	if t["."].K == ht.Link {
		sc.RootName, sc.DestName = "out", "out" // keep clear of the context entries "a" and "b"
	}
	return sc
}

func TestC34(t *testing.T) {
	iplib.Quiet()
	r := lib.Start("C34")
	defer lib.End(t, r)
	r.Rule = "trees over {file, dir, relative symlink, empty dir}: exhaustive over a small scope (names a/ab, contents \"\"/x, targets a/../a/nx, depth<=2), then seeded random trees of up to 14 entries with executable, read-only, big and hard-linked files, symlinks to files/dirs/links/nothing/outside and hostile names. Each tree is passed to RecursiveCopy(mode 0), RecursiveCopy(mode m), RecursiveLink, RecursiveCopyOrLinkFile(link,nofallback) and (copy) with an absent destination, plus one pre-existing-destination variant and an overwrite-after-link step. Distinct by tree listing+root/dest names+path style; non-trivial = anything but a lone root file"
	r.Assumes = []string{
		"scratch lives on one filesystem that supports hard links and symlinks; the process runs with a umask that does not matter (modes are set by chmod)",
		"lib.SnapshotTree (filepath.Walk + Lstat + sha256) is the trusted lister; the expected listing is computed from the in-memory model, not from the source on disk",
		"pre-existing destinations contain only directories and regular files at the tree's own positions (Please removes an output before re-creating it)",
	}
	m := &mon{r: r, base: r.Scratch()}
	if err := os.Chdir(m.base); err != nil {
		r.FatalInconclusive("chdir scratch: " + err.Error())
		return
	}

	// Exhaustive small scope.
	scope := ht.Scope{Names: []string{"a", "ab"}, Contents: []string{"", "x"}, Targets: []string{"a", "../a", "nx"},
		MaxDepth: 2, MaxEnts: r.Pick(3, 4), PerDir: 2}
	trees := scope.Enumerate()
	// Root symlinks with context: to a file ("a"), to a directory ("b"), dangling.
	trees = append(trees, ht.Tree{".": {K: ht.Link, D: "b"}})
	r.ForEach("exhaustive", len(trees), 8, func(i int, rng *rand.Rand) {
		m.runCase("exhaustive", i, m.scenarioFor(rng, trees[i]), rng)
	})
	if !r.Replaying() {
		r.Exhaustive = true
		r.Extra("exhaustive_scope", fmt.Sprintf("%d trees: every tree over names{a,ab} contents{\"\",x} targets{a,../a,nx} depth<=2, <=%d entries, plus root files and root symlinks", len(trees), scope.MaxEnts))
	}

	// Hand-picked edges: long names (temp-file suffix), deep nesting, many entries.
	edges := edgeTrees()
	r.ForEach("edges", len(edges), 4, func(i int, rng *rand.Rand) {
		m.runCase("edges", i, m.scenarioFor(rng, edges[i]), rng)
	})

	// Seeded random larger trees.
	r.ForEach("random", r.Pick(1600, 40000), 8, func(i int, rng *rand.Rand) {
		var tr ht.Tree
		switch x := rng.Intn(20); {
		case x == 0:
			tr = ht.Tree{".": ht.RandContent(rng, 0.3)}
			e := tr["."]
			e.X, e.RO = rng.Intn(2) == 0, rng.Intn(3) == 0
			tr["."] = e
		case x == 1:
			tr = ht.Tree{".": {K: ht.Link, D: []string{"a", "b", "nx", "../nx"}[rng.Intn(4)]}}
		case x < 6:
			tr = ht.RandDirTree(rng, 1+rng.Intn(10), 3, 0.05)
		default:
			tr = ht.RandCopyTree(rng, 1+rng.Intn(14), 1+rng.Intn(3), 0.05)
		}
		m.runCase("random", i, m.scenarioFor(rng, tr), rng)
	})
	r.RequireObserved("faithful_destinations", "source_unchanged_checks", "files_hardlinked", "files_copied", "files_copied_by_fallback")
}

func edgeTrees() []ht.Tree {
	long := func(n int) string { return strings.Repeat("L", n) }
	deep := ht.Tree{".": {K: ht.Dir}}
	p := ""
	for i := 0; i < 12; i++ {
		if p == "" {
			p = "d"
		} else {
			p += "/d"
		}
		deep[p] = ht.Ent{K: ht.Dir}
	}
	deep[p+"/f"] = ht.Ent{K: ht.File, D: "deep"}
	deep[p+"/l"] = ht.Ent{K: ht.Link, D: "../../d/d/f"}
	deep[p+"/e"] = ht.Ent{K: ht.Dir}
	wide := ht.Tree{".": {K: ht.Dir}}
	for i := 0; i < 300; i++ {
		switch i % 3 {
		case 0:
			wide[fmt.Sprintf("f%03d", i)] = ht.Ent{K: ht.File, D: fmt.Sprint(i)}
		case 1:
			wide[fmt.Sprintf("e%03d", i)] = ht.Ent{K: ht.Dir}
		default:
			wide[fmt.Sprintf("l%03d", i)] = ht.Ent{K: ht.Link, D: fmt.Sprintf("f%03d", i-2)}
		}
	}
	return []ht.Tree{
		{".": {K: ht.Dir}, long(200): {K: ht.File, D: "x"}, long(201): {K: ht.Dir}, long(202): {K: ht.Link, D: long(200)}},
		{".": {K: ht.Dir}, long(255): {K: ht.Dir}, long(254): {K: ht.Link, D: "x"}},
		{".": {K: ht.Dir}, long(250): {K: ht.File, D: "long-name"}},
		deep,
		wide,
		{".": {K: ht.Dir}},
		{".": {K: ht.Dir}, "e": {K: ht.Dir}, "e/e": {K: ht.Dir}, "e/e/e": {K: ht.Dir}},
		{".": {K: ht.Dir}, "l": {K: ht.Link, D: "."}, "m": {K: ht.Link, D: "l/l"}, "d": {K: ht.Dir}, "d/up": {K: ht.Link, D: ".."}},
	}
}

// C20 — build labels round-trip and target patterns select exactly their targets.
//
// Monitors (all against the real code of /repo):
//
//  1. round trip: every string over a small alphabet up to a bounded length (exhaustive), plus
//     token-spliced longer strings, goes through core.TryParseBuildLabel; for every accepted string
//     the printed form of the label must be accepted again and give the same label. The command-line
//     entry point (BuildLabel.UnmarshalFlag, i.e. parseMaybeRelativeBuildLabel with relative labels) is
//     driven the same way.
//  2. documented forms (//pkg:name, :name, //pkg:all, //pkg/..., //...) parse to the documented parts.
//  3. pattern selection: all (pattern, label) pairs over an adversarial package pool (siblings sharing a
//     string prefix) at every in-process site that the statement names — BuildLabel.Includes (visibility
//     and --exclude), BuildLabel.Matches (sandbox opt-out whitelist), BuildState.ShouldInclude with
//     build-pattern excludes, BuildLabel.CanSee with visibility patterns and with experimental
//     directories, and the :all / ... expansion of BuildState.ExpandLabels — against a reference that
//     decides by whole path components (labellib.Selects).
//  4. end to end with the real plz binary: `plz query alltargets //d/...` and `//d:all`, `--exclude
//     //d/...`, visibility = ["//d/..."], `[sandbox] excludeabletargets = //d/...` with sandbox = False
//     targets (accepted <=> exit 0), `[parse] experimentaldir = d`, each over a directory d, a
//     subpackage d/sub, a sibling package that merely shares d's spelling as a prefix, and an unrelated one.
package c20

import (
	"fmt"
	"math/rand"
	"os"
	"path/filepath"
	"sort"
	"strings"
	"sync"
	"testing"
	"time"

	"github.com/thought-machine/please/src/core"

	"verifharness/iplib"
	"verifharness/labellib"
	"verifharness/lib"
)

// ---------------------------------------------------------------------------------------------
// 1. Round trip.

const alphabet = "/:.@ab_#|"

type parseCtx struct{ Cur, Subrepo string }

var contexts = []parseCtx{{"", ""}, {"cur", ""}, {"p/q", "s"}}

// Classification helpers, used for witness keys only (never for verdicts).
func refValidName(n string) bool {
	return n != "" && !strings.ContainsAny(n, "|$*?[]{}:()&/\\") && (n[0] != '.' || n == "...") &&
		!strings.HasSuffix(n, "._build") && !strings.HasSuffix(n, "._test")
}

func refValidPkg(p string) bool {
	return p == "" || (p[0] != '/' && p[len(p)-1] != '/' && !strings.ContainsAny(p, "|$*?[]{}:()&\\") && !strings.Contains(p, "//"))
}

// form names the syntactic form of a label string (which documented spelling it uses). A subrepo
// prefix delegates to the form of the remainder, because `@sub//rest` is documented as `//rest` in sub.
func form(s string) string {
	switch {
	case strings.HasPrefix(s, ":"):
		return "local"
	case strings.HasPrefix(s, "@"):
		return subForm(s[1:])
	case strings.HasPrefix(s, "///"):
		return subForm(s[3:])
	case strings.HasPrefix(s, "//"):
		if strings.Contains(s, ":") {
			return "abs-colon"
		}
		if strings.HasSuffix(s, "/...") {
			return "abs-dots"
		}
		return "abs-abbrev"
	}
	return "relative"
}

func subForm(rest string) string {
	if i := strings.Index(rest, "//"); i >= 0 {
		return form(rest[i:])
	}
	if strings.Contains(rest, ":") {
		return "subrepo-local"
	}
	return "subrepo-bare"
}

type rtWitness struct {
	Entry    string `json:"entry_point"`
	Input    string `json:"input"`
	Cur      string `json:"current_package"`
	Subrepo  string `json:"current_subrepo"`
	Parsed   string `json:"parsed"`
	Printed  string `json:"printed"`
	Reparsed string `json:"reparsed,omitempty"`
	Err      string `json:"reparse_error,omitempty"`
}

func show(l core.BuildLabel) string {
	return fmt.Sprintf("{subrepo:%q pkg:%q name:%q}", l.Subrepo, l.PackageName, l.Name)
}

// judge decides one accepted string: printed form must parse back to the same label.
func judge(r *lib.Run, idx int, entry, input, formOf string, ctx parseCtx, l core.BuildLabel, reparse func(string) (core.BuildLabel, error)) {
	printed := l.String()
	l2, err := reparse(printed)
	if err == nil && l2 == l {
		return
	}
	w := rtWitness{Entry: entry, Input: input, Cur: ctx.Cur, Subrepo: ctx.Subrepo, Parsed: show(l), Printed: printed}
	reason := ""
	if err != nil {
		w.Err = err.Error()
		switch {
		case !refValidName(l.Name):
			reason = "invalid-name"
		case !refValidPkg(l.PackageName):
			reason = "invalid-package"
		default:
			reason = "print-rejected"
		}
	} else {
		w.Reparsed = show(l2)
		switch {
		case l2.Subrepo != l.Subrepo:
			reason = "subrepo-changed"
		case l2.PackageName != l.PackageName:
			reason = "package-changed"
		default:
			reason = "name-changed"
		}
	}
	what := fmt.Sprintf("%s accepts %q (current package %q) as %s, whose printed form %q ", entry, input, ctx.Cur, show(l), printed)
	if err != nil {
		what += "is rejected: " + err.Error()
	} else {
		what += "parses to a different label " + show(l2)
	}
	r.Obs("roundtrip_failures", 1)
	rtMin.offer("roundtrip/"+formOf+"/"+reason, what, w, idx, len(input), input+"|"+ctx.Cur)
}

// A minimiser keeps, per witness key, the smallest witness seen in a stream (shortest input, then
// lexicographic), so that the reported witness does not depend on worker scheduling.
type pending struct {
	what string
	w    any
	idx  int
	size int
	tie  string
}

type minimiser struct {
	mu   sync.Mutex
	best map[string]pending
}

var sampledForms sync.Map // one evidence sample per accepted syntactic form

func sampled(f string) bool {
	_, seen := sampledForms.LoadOrStore(f, true)
	return seen
}

var rtMin = &minimiser{best: map[string]pending{}}

func (m *minimiser) offer(key, what string, w any, idx, size int, tie string) {
	m.mu.Lock()
	defer m.mu.Unlock()
	if b, ok := m.best[key]; ok && (b.size < size || (b.size == size && b.tie <= tie)) {
		return
	}
	m.best[key] = pending{what, w, idx, size, tie}
}

// flush reports what was collected; call it right after the ForEach of the stream.
func (m *minimiser) flush(r *lib.Run) {
	m.mu.Lock()
	defer m.mu.Unlock()
	keys := make([]string, 0, len(m.best))
	for k := range m.best {
		keys = append(keys, k)
	}
	sort.Strings(keys)
	for _, k := range keys {
		b := m.best[k]
		r.Violation(k, b.what, b.w, b.idx)
	}
	m.best = map[string]pending{}
}

func checkString(r *lib.Run, idx int, s string, counts *[2]int64) {
	for _, ctx := range contexts {
		l, err := core.TryParseBuildLabel(s, ctx.Cur, ctx.Subrepo)
		if err != nil {
			counts[1]++
			continue
		}
		counts[0]++
		r.Case("rt|"+s+"|"+ctx.Cur+"|"+ctx.Subrepo, true)
		f := form(s)
		if len(s) >= 4 && !sampled(f) {
			r.Sample(map[string]string{"form": f, "input": s, "current_package": ctx.Cur, "parsed": show(l), "printed": l.String()})
		}
		r.ObsDistinct("accepted_forms", f)
		judge(r, idx, "TryParseBuildLabel", s, form(s), ctx, l, func(p string) (core.BuildLabel, error) {
			// the printed form is absolute and carries its own subrepo: re-read it outside any subrepo
			return core.TryParseBuildLabel(p, ctx.Cur, "")
		})
	}
}

func roundTripExhaustive(r *lib.Run) {
	maxLen := r.Pick(6, 7)
	n := len(alphabet) * len(alphabet)
	r.Extra("exhaustive_alphabet", alphabet)
	r.Extra("exhaustive_max_len", maxLen)
	r.ForEach("rt-exhaustive", n+1, 8, func(i int, _ *rand.Rand) {
		var counts [2]int64
		if i == n { // lengths 0 and 1
			checkString(r, i, "", &counts)
			for k := 0; k < len(alphabet); k++ {
				checkString(r, i, alphabet[k:k+1], &counts)
			}
		} else {
			buf := make([]byte, 2, maxLen)
			buf[0], buf[1] = alphabet[i/len(alphabet)], alphabet[i%len(alphabet)]
			var rec func(b []byte)
			rec = func(b []byte) {
				checkString(r, i, string(b), &counts)
				if len(b) == maxLen {
					return
				}
				for k := 0; k < len(alphabet); k++ {
					rec(append(b, alphabet[k]))
				}
			}
			rec(buf)
		}
		r.Obs("strings_accepted", counts[0])
		r.Obs("strings_rejected", counts[1])
	})
	rtMin.flush(r)
}

var fuzzTokens = []string{"//", ":", "@", "///", "/", "...", "all", "a", "b", "p", "q", ".", "..", "_", "#", "|", "._build", "._test",
	"foo", "_x#tag", "-", "~", "+", "=", ",", " ", "$", "*", "\\", "é", "[", "(", "&", "?", "{", "x.y", "_", "1", "@arch", "pkg", "\t"}
var fuzzStarts = []string{"//", "//", "//", ":", ":", "@", "@", "///", "", "/"}

func fuzzString(rng *rand.Rand) string {
	var sb strings.Builder
	sb.WriteString(fuzzStarts[rng.Intn(len(fuzzStarts))])
	for k, n := 0, 1+rng.Intn(7); k < n; k++ {
		sb.WriteString(fuzzTokens[rng.Intn(len(fuzzTokens))])
	}
	return sb.String()
}

func roundTripFuzz(r *lib.Run) {
	batches := r.Pick(100, 500)
	const per = 2000
	r.ForEach("rt-fuzz", batches, 8, func(i int, rng *rand.Rand) {
		var counts [2]int64
		for k := 0; k < per; k++ {
			checkString(r, i, fuzzString(rng), &counts)
		}
		r.Obs("strings_accepted", counts[0])
		r.Obs("strings_rejected", counts[1])
		r.Obs("fuzz_strings", per)
	})
	rtMin.flush(r)
}

// roundTripCLI drives the command-line entry point (relative labels allowed). Not parallel: it uses
// the process-wide core.RepoRoot / core.InitialPackagePath and PLZ_COMPLETE (which turns the
// log.Fatalf of a bad label into a plain rejection).
func roundTripCLI(r *lib.Run) {
	os.Setenv("PLZ_COMPLETE", "//")
	defer os.Unsetenv("PLZ_COMPLETE")
	oldRoot, oldInit := core.RepoRoot, core.InitialPackagePath
	defer func() { core.RepoRoot, core.InitialPackagePath = oldRoot, oldInit }()
	core.RepoRoot = r.Scratch()
	sentinel := core.BuildLabel{PackageName: "\x00", Name: "\x00sentinel"}
	unmarshal := func(s string) (core.BuildLabel, error) {
		l := sentinel
		if err := (&l).UnmarshalFlag(s); err != nil {
			return l, err
		}
		if l == sentinel {
			return l, fmt.Errorf("rejected")
		}
		return l, nil
	}
	maxLen := r.Pick(4, 5)
	fuzz := r.Pick(20000, 200000)
	for si, sub := range []string{"", "sub", "p/q"} {
		core.InitialPackagePath = sub
		ctx := parseCtx{Cur: sub}
		check := func(idx int, s string) {
			l, err := unmarshal(s)
			if err != nil {
				r.Obs("cli_rejected", 1)
				return
			}
			r.Obs("cli_accepted", 1)
			r.Case("cli|"+s+"|"+sub, true)
			// Classify by the absolute label the spelling stands for: anything that is not a label by
			// itself and does not start with // or : is read relative to the initial package.
			abs := s
			if s != "-" && !strings.HasPrefix(s, ":") {
				t := s
				if !strings.HasPrefix(t, "//") && strings.HasPrefix(t, "/") {
					t = "/" + t
				}
				abs = t
				if _, err := core.TryParseBuildLabel(t, "", ""); err != nil && !strings.HasPrefix(t, "//") {
					abs = "//" + filepath.Join(sub, t)
					r.Obs("cli_relative_accepted", 1)
				}
			}
			judge(r, idx, "BuildLabel.UnmarshalFlag", s, form(abs), ctx, l, unmarshal)
		}
		r.ForEach(fmt.Sprintf("rt-cli-%d", si), 1, 1, func(i int, rng *rand.Rand) {
			var rec func(b []byte)
			rec = func(b []byte) {
				check(i, string(b))
				if len(b) == maxLen {
					return
				}
				for k := 0; k < len(alphabet); k++ {
					rec(append(b, alphabet[k]))
				}
			}
			rec(make([]byte, 0, maxLen))
			for k := 0; k < fuzz; k++ {
				s := fuzzString(rng)
				if rng.Intn(2) == 0 { // relative spelling
					s = strings.TrimLeft(s, "/:@")
				}
				check(i, s)
			}
		})
		rtMin.flush(r)
	}
}

// ---------------------------------------------------------------------------------------------
// 2. Documented forms.

var namePool = []string{"x", "y", "all_x", "_x#tag", "x.y", "x-y", "pfoo", "p"}

func docForms(r *lib.Run) {
	r.ForEach("doc-forms", 1, 1, func(i int, _ *rand.Rand) {
		bad := func(key, what string, w any) { r.Violation("documented-form/"+key, what, w, i) }
		for _, pkg := range labellib.PackagePool {
			for _, name := range namePool {
				s := "//" + pkg + ":" + name
				r.Case("doc|"+s, true)
				l, err := core.TryParseBuildLabel(s, "elsewhere", "")
				if err != nil || l != labellib.L(pkg, name) {
					bad("abs-colon", fmt.Sprintf("%q parses to %s, %v; documented: package %q, target %q", s, show(l), err, pkg, name), s)
				} else if l.String() != s {
					bad("abs-colon-print", fmt.Sprintf("%s prints as %q, not %q", show(l), l.String(), s), s)
				}
				l, err = core.TryParseBuildLabel(":"+name, pkg, "")
				if err != nil || l != labellib.L(pkg, name) {
					bad("local", fmt.Sprintf("%q in package %q parses to %s, %v", ":"+name, pkg, show(l), err), s)
				}
			}
			all := "//" + pkg + ":all"
			l, err := core.TryParseBuildLabel(all, "", "")
			if err != nil || l != labellib.L(pkg, "all") || !l.IsAllTargets() || l.IsAllSubpackages() {
				bad("all", fmt.Sprintf("%q parses to %s, %v", all, show(l), err), all)
			}
			dots := labellib.Pat(pkg, "...")
			l, err = core.TryParseBuildLabel(dots, "", "")
			if err != nil || l != labellib.L(pkg, "...") || !l.IsAllSubpackages() || l.IsAllTargets() {
				bad("dots", fmt.Sprintf("%q parses to %s, %v", dots, show(l), err), dots)
			} else if l.String() != dots {
				bad("dots-print", fmt.Sprintf("%s prints as %q, not %q", show(l), l.String(), dots), dots)
			}
			// subrepo spelling of the same label
			sr := "///sub//" + pkg + ":x"
			l, err = core.TryParseBuildLabel(sr, "", "")
			want := core.BuildLabel{Subrepo: "sub", PackageName: pkg, Name: "x"}
			if err != nil || l != want {
				bad("subrepo", fmt.Sprintf("%q parses to %s, %v", sr, show(l), err), sr)
			} else if l.String() != sr {
				bad("subrepo-print", fmt.Sprintf("%s prints as %q, not %q", show(l), l.String(), sr), sr)
			}
			r.Obs("documented_forms_checked", int64(2*len(namePool)+3))
		}
	})
}

// ---------------------------------------------------------------------------------------------
// 3. Pattern selection at the in-process sites.

// refParent is the documented relation between a hidden child `_name#tag` and its rule `name`.
func refParent(l core.BuildLabel) core.BuildLabel {
	if strings.HasPrefix(l.Name, "_") {
		if i := strings.IndexByte(l.Name, '#'); i > 0 {
			l.Name = strings.TrimLeft(l.Name[:i], "_")
		}
	}
	return l
}

type pairWitness struct {
	Site    string `json:"site"`
	Pattern string `json:"pattern"`
	Label   string `json:"label"`
	Want    bool   `json:"reference_selects"`
	Got     bool   `json:"please_selects"`
	Note    string `json:"note,omitempty"`
}

var newStateMu sync.Mutex
var expStates = map[string]*core.BuildState{}
var freeStates []*core.BuildState // plain states are reused with a fresh graph (each one owns a goroutine)

var labelNames = []string{"x", "y", "_x#tag"}

// checkPattern runs every site for one pattern against every label over pkgs.
func checkPattern(r *lib.Run, idx int, pat core.BuildLabel, pkgs []string) {
	kind := "exact"
	if pat.Name == "..." {
		kind = "dots"
	} else if pat.Name == "all" {
		kind = "all"
	}
	patStr := labellib.Pat(pat.PackageName, pat.Name)
	report := func(site string, l core.BuildLabel, want, got bool, note string) {
		r.Obs("site_"+site, 1)
		r.Case(site+"|"+patStr+"|"+l.String(), labellib.PairClass(pat.PackageName, l.PackageName) != "unrelated")
		if want == got {
			return
		}
		class := labellib.PairClass(pat.PackageName, l.PackageName)
		dir := "selected"
		if !got {
			dir = "not selected"
		}
		r.Violation(site+"/"+kind+"/"+class, fmt.Sprintf("%s: pattern %s vs %s: %s by Please, reference says %v %s", site, patStr, l, dir, want, note),
			pairWitness{site, patStr, l.String(), want, got, note}, idx)
	}

	// NewBuildState registers process-wide exit handlers: not safe to call concurrently
	newStateMu.Lock()
	var state *core.BuildState
	if k := len(freeStates); k > 0 {
		state, freeStates = freeStates[k-1], freeStates[:k-1]
	} else {
		state = iplib.NewState()
	}
	// always a graph of our own: the state's idle cycle detector (fires after 5 s) walks the graph the
	// state was created with, concurrently with whoever fills it
	state.Graph = core.NewGraph()
	defer func() {
		newStateMu.Lock()
		freeStates = append(freeStates, state)
		newStateMu.Unlock()
	}()
	var expState *core.BuildState
	if kind == "dots" && pat.PackageName != "" {
		// only CanSee is asked of these states (no graph), so one per directory can be shared
		if expState = expStates[pat.PackageName]; expState == nil {
			config := core.DefaultConfiguration()
			config.Parse.ExperimentalDir = []string{pat.PackageName}
			expState = core.NewBuildState(config)
			expStates[pat.PackageName] = expState
		}
	}
	newStateMu.Unlock()
	// the dependency used by the visibility sites lives in a package outside the pool
	vdep := core.NewBuildTarget(labellib.L("zz/dep", "v"))
	vdep.Visibility = []core.BuildLabel{pat}
	priv := core.NewBuildTarget(labellib.L("zz/dep", "priv"))
	pub := core.NewBuildTarget(labellib.L("zz/dep", "pub"))
	pub.Visibility = core.WholeGraph

	graph := state.Graph
	for _, p := range pkgs {
		pkg := core.NewPackage(p)
		for _, n := range labelNames {
			t := core.NewBuildTarget(labellib.L(p, n))
			pkg.AddTarget(t)
			graph.AddTarget(t)
		}
		graph.AddPackage(pkg)
	}

	for _, p := range pkgs {
		for _, n := range labelNames {
			l := labellib.L(p, n)
			want := labellib.Selects(pat, l)
			target := graph.TargetOrDie(l)

			// Includes: visibility entries and --exclude patterns
			report("includes", l, want, pat.Includes(l), "")

			// Matches: the sandbox opt-out whitelist. For exact patterns the statement is silent about
			// hidden children, so only visible names are compared there.
			if kind != "exact" || !strings.HasPrefix(n, "_") {
				report("sandbox-whitelist-matches", l, want, pat.Matches(l), "(BuildLabel.Matches)")
			}

			// --exclude with a build pattern
			state.ExcludeTargets = nil
			state.SetIncludeAndExclude(nil, []string{patStr})
			report("exclude", l, want, !state.ShouldInclude(target), "(BuildState.ShouldInclude after SetIncludeAndExclude)")
			state.ExcludeTargets = nil
			state.SetIncludeAndExclude(nil, nil)

			// visibility: a dependent l on //zz/dep:v whose visibility is [pattern]; hidden dependents
			// are judged as their parent rule.
			wantVis := labellib.Selects(pat, refParent(l))
			report("visibility", l, wantVis, l.CanSee(state, vdep), "(BuildLabel.CanSee, hidden dependents judged as their parent)")

			if expState != nil {
				// experimental directory = pattern's package: dependents inside it may see a private
				// target elsewhere; nobody outside may see even a public target inside it.
				inside := labellib.Under(p, pat.PackageName)
				report("experimental-dir-exempt", l, inside, l.CanSee(expState, priv), "(dependent of a private target; experimentaldir="+pat.PackageName+")")
				inner := core.NewBuildTarget(l)
				inner.Visibility = core.WholeGraph
				outsider := labellib.L("zz/dep", "user")
				report("experimental-dir-protect", l, inside, !outsider.CanSee(expState, inner), "(public target depended on from outside; experimentaldir="+pat.PackageName+")")
				_ = pub
			}
		}
	}

	// expansion of :all and ... over the graph's packages
	if kind != "exact" {
		got := map[string]bool{}
		for _, l := range state.ExpandLabels([]core.BuildLabel{pat}) {
			got[l.String()] = true
		}
		for _, p := range pkgs {
			for _, n := range labelNames {
				l := labellib.L(p, n)
				report("expand", l, labellib.Selects(pat, l), got[l.String()], "(BuildState.ExpandLabels)")
				delete(got, l.String())
			}
		}
		for extra := range got {
			r.Violation("expand/"+kind+"/unknown-label", "expansion of "+patStr+" returned "+extra+" which is not in the graph", extra, idx)
		}
	}
}

func patternsFor(pkgs []string) []core.BuildLabel {
	var pats []core.BuildLabel
	for _, p := range pkgs {
		pats = append(pats, labellib.L(p, "..."), labellib.L(p, "all"), labellib.L(p, "x"))
	}
	return pats
}

func patternPairs(r *lib.Run) {
	pats := patternsFor(labellib.PackagePool)
	r.ForEach("pattern-pairs", len(pats), 8, func(i int, _ *rand.Rand) {
		checkPattern(r, i, pats[i], labellib.PackagePool)
		if r.WantSample() && pats[i].PackageName == "p" {
			r.Sample(map[string]any{"pattern": labellib.Pat(pats[i].PackageName, pats[i].Name), "against_packages": labellib.PackagePool, "names": labelNames})
		}
	})
	// random package trees built from components that share prefixes
	comps := []string{"p", "pf", "pfoo", "q", "p.q", "p-q", "p_q", "pq", "a", "ab", "abc", "lib", "lib2", "third_party", "third_party2"}
	n := r.Pick(60, 3000)
	r.ForEach("pattern-pairs-random", n, 8, func(i int, rng *rand.Rand) {
		seen := map[string]bool{}
		var pkgs []string
		for len(pkgs) < 8 {
			d := 1 + rng.Intn(3)
			parts := make([]string, d)
			for k := range parts {
				parts[k] = comps[rng.Intn(len(comps))]
			}
			p := strings.Join(parts, "/")
			// bias towards siblings and children of what is there
			if len(pkgs) > 0 && rng.Intn(2) == 0 {
				base := pkgs[rng.Intn(len(pkgs))]
				switch rng.Intn(3) {
				case 0:
					p = base + comps[rng.Intn(len(comps))]
				case 1:
					p = base + "/" + comps[rng.Intn(len(comps))]
				default:
					if k := strings.LastIndexByte(base, '/'); k > 0 {
						p = base[:k]
					}
				}
			}
			if !seen[p] {
				seen[p] = true
				pkgs = append(pkgs, p)
			}
		}
		sort.Strings(pkgs)
		base := pkgs[rng.Intn(len(pkgs))]
		name := []string{"...", "all", "x"}[rng.Intn(3)]
		checkPattern(r, i, labellib.L(base, name), pkgs)
	})
}

// ---------------------------------------------------------------------------------------------
// 4. End to end.

type e2eWitness struct {
	Site   string   `json:"site"`
	Dir    string   `json:"directory"`
	Sib    string   `json:"sibling"`
	Config string   `json:"extra_config"`
	Args   []string `json:"args"`
	Exit   int      `json:"exit"`
	Stdout string   `json:"stdout"`
	Stderr string   `json:"stderr"`
	Want   string   `json:"expected"`
}

// e2eGroups is the number of independent probe groups per (directory, sibling) case; each group is one
// ForEach unit with its own repositories, so that a quick run spreads over the workers.
const e2eGroups = 4

func e2eCase(r *lib.Run, idx int, dir, sib string, group int) {
	sub := dir + "/sub"
	other := "other"
	root := filepath.Join(r.Scratch(), fmt.Sprintf("e2e-%d", idx))
	pkgs := []string{dir, sub, sib, other}
	r.Case(fmt.Sprintf("e2e|%s|%s|%d", dir, sib, group), true)
	r.ObsDistinct("e2e_sibling_pairs", dir+"~"+sib)

	fail := func(site, class string, res lib.PlzResult, cfg string, args []string, want string) {
		r.Violation("e2e-"+site+"/"+class, fmt.Sprintf("plz %s (directory %q, sibling %q%s): %s; exit %d, stdout %q, stderr tail %q", strings.Join(args, " "), dir, sib, cfgNote(cfg), want, res.Exit, lib.Tail(res.Stdout, 300), lib.Tail(res.Stderr, 300)),
			e2eWitness{site, dir, sib, cfg, args, res.Exit, lib.Tail(res.Stdout, 2000), lib.Tail(res.Stderr, 2000), want}, idx)
	}
	harness := func(what string, res lib.PlzResult) {
		r.Inconclusive(fmt.Sprintf("e2e case %d (%s,%s): %s: exit %d stderr %s", idx, dir, sib, what, res.Exit, lib.Tail(res.Stderr, 300)))
	}

	// ---- repo A: command line, --exclude, visibility ----
	var ts []labellib.Target
	for _, p := range pkgs {
		ts = append(ts, labellib.Target{Pkg: p, Name: "t"})
		ts = append(ts, labellib.Target{Pkg: p, Name: "dv", Deps: []string{"//vis:fordots"}})
		ts = append(ts, labellib.Target{Pkg: p, Name: "av", Deps: []string{"//vis:forall"}})
	}
	ts = append(ts, labellib.Target{Pkg: "vis", Name: "fordots", Visibility: []string{labellib.Pat(dir, "...")}})
	ts = append(ts, labellib.Target{Pkg: "vis", Name: "forall", Visibility: []string{labellib.Pat(dir, "all")}})
	repo, err := labellib.WriteRepo(filepath.Join(root, "a"), "", ts)
	if err != nil {
		r.Inconclusive("cannot write repo: " + err.Error())
		return
	}
	expectLabels := func(in func(pkg string) bool) []string {
		var out []string
		for _, t := range ts {
			if in(t.Pkg) {
				out = append(out, t.Label())
			}
		}
		sort.Strings(out)
		return out
	}
	query := func(site string, args []string, in func(pkg string) bool) {
		res := repo.Plz(args...)
		r.Obs("e2e_invocations", 1)
		r.Obs("e2e_site_"+site, 1)
		if res.Exit != 0 {
			harness("query failed: "+strings.Join(args, " "), res)
			return
		}
		got := labellib.OutLabels(res.Stdout)
		want := expectLabels(in)
		extra, missing := labellib.SetDiff(got, want)
		for _, x := range extra {
			fail(site, "selected/"+labellib.PairClass(dir, labellib.PkgOf(x)), res, "", args, "must not select "+x)
		}
		for _, x := range missing {
			fail(site, "missed/"+labellib.PairClass(dir, labellib.PkgOf(x)), res, "", args, "must select "+x)
		}
	}
	if group == 0 {
		query("commandline-dots", []string{"query", "alltargets", labellib.Pat(dir, "...")}, func(p string) bool { return labellib.Under(p, dir) })
		query("commandline-all", []string{"query", "alltargets", labellib.Pat(dir, "all")}, func(p string) bool { return p == dir })
		query("exclude-dots", []string{"query", "alltargets", "--exclude", labellib.Pat(dir, "..."), "//..."}, func(p string) bool { return !labellib.Under(p, dir) })
		query("exclude-all", []string{"query", "alltargets", "--exclude", labellib.Pat(dir, "all"), "//..."}, func(p string) bool { return p != dir })
	}

	build := func(rp *labellib.Repo, site, cfg, label string, wantOK bool, errText string, pkg string) {
		args := []string{"build", label}
		outcome, res, tries := rp.BuildOutcome(label)
		r.Obs("e2e_invocations", int64(tries))
		r.Obs("e2e_site_"+site, 1)
		if tries > 1 {
			r.Obs("e2e_silent_failures_retried", int64(tries-1))
		}
		class := labellib.PairClass(dir, pkg)
		switch {
		case wantOK && outcome == labellib.BuildVisibility:
			fail(site, "refused/"+class, res, cfg, args, "must build")
		case !wantOK && outcome == labellib.BuildOK:
			fail(site, "allowed/"+class, res, cfg, args, "must fail ("+errText+")")
		case outcome == labellib.BuildOther || outcome == labellib.BuildTestOnly:
			harness("build of "+label+" ended as "+outcome, res)
		}
	}
	for _, p := range pkgs {
		if group == 0 {
			build(repo, "visibility-dots", "", "//"+p+":dv", labellib.Under(p, dir), "isn't visible to", p)
		}
		if group == 1 {
			build(repo, "visibility-all", "", "//"+p+":av", p == dir, "isn't visible to", p)
		}
	}

	// ---- repo B: sandbox opt-out whitelist ----
	var bs []labellib.Target
	for _, p := range pkgs {
		bs = append(bs, labellib.Target{Pkg: p, Name: "ns", NoSandbox: true})
	}
	sandboxProbe := func(site, cfg string, accepted func(pkg string) (want, care bool)) {
		rb, err := labellib.WriteRepo(filepath.Join(root, "b-"+site), cfg, bs)
		if err != nil {
			r.Inconclusive("cannot write repo: " + err.Error())
			return
		}
		results := map[string]bool{}
		raw := map[string]lib.PlzResult{}
		for _, p := range pkgs {
			if _, care := accepted(p); !care {
				continue
			}
			args := []string{"query", "alltargets", "//" + p + ":all"}
			res := rb.Plz(args...)
			r.Obs("e2e_invocations", 1)
			r.Obs("e2e_site_"+site, 1)
			ok := res.Exit == 0 && strings.Contains(res.Stdout, "//"+p+":ns")
			if !ok && !strings.Contains(res.Stderr, "not whitelisted to opt out of the sandbox") {
				harness("unexpected failure of "+strings.Join(args, " "), res)
				return
			}
			results[p], raw[p] = ok, res
		}
		if results[other] {
			r.Inconclusive(fmt.Sprintf("e2e %s: the unrelated package was allowed to opt out of the sandbox, control failed", site))
			return
		}
		for _, p := range pkgs {
			want, care := accepted(p)
			if !care || want == results[p] {
				continue
			}
			args := []string{"query", "alltargets", "//" + p + ":all"}
			if results[p] {
				fail(site, "accepted/"+labellib.PairClass(dir, p), raw[p], cfg, args, "sandbox = False in //"+p+" must be refused exactly like in //"+other)
			} else {
				fail(site, "refused/"+labellib.PairClass(dir, p), raw[p], cfg, args, "sandbox = False in //"+p+" must be accepted")
			}
		}
	}
	if group == 2 {
		sandboxProbe("sandbox-whitelist-dots", "\n[sandbox]\nexcludeabletargets = "+labellib.Pat(dir, "...")+"\n",
			func(p string) (bool, bool) { return labellib.Under(p, dir), true })
	}
	if group == 1 {
		sandboxProbe("sandbox-whitelist-all", "\n[sandbox]\nexcludeabletargets = "+labellib.Pat(dir, "all")+"\n",
			func(p string) (bool, bool) { return p == dir, true })
	}
	// The experimental-directory exemption of validateSandbox is not documented, so packages inside the
	// directory are "don't care"; a sibling that only shares the prefix must be treated like any
	// unrelated package (refused).
	if group == 2 {
		sandboxProbe("sandbox-experimental", "\n[sandbox]\nexcludeabletargets = //nowhere/...\n\n[parse]\nexperimentaldir = "+dir+"\n",
			func(p string) (bool, bool) { return false, !labellib.Under(p, dir) })
	}
	if group != 3 {
		if os.Getenv("VERIF_KEEP_SCRATCH") == "" {
			lib.RemoveAll(root)
		}
		return
	}

	// ---- repo C: experimental directory and visibility ----
	cfgC := "\n[parse]\nexperimentaldir = " + dir + "\n"
	var cs []labellib.Target
	cs = append(cs, labellib.Target{Pkg: "vis", Name: "priv"})
	cs = append(cs, labellib.Target{Pkg: dir, Name: "pub", Visibility: []string{"PUBLIC"}})
	for _, p := range pkgs {
		cs = append(cs, labellib.Target{Pkg: p, Name: "up", Deps: []string{"//vis:priv"}})
		if p != dir {
			cs = append(cs, labellib.Target{Pkg: p, Name: "ue", Deps: []string{"//" + dir + ":pub"}})
		}
	}
	rc, err := labellib.WriteRepo(filepath.Join(root, "c"), cfgC, cs)
	if err != nil {
		r.Inconclusive("cannot write repo: " + err.Error())
		return
	}
	for _, p := range pkgs {
		build(rc, "experimental-exempt", cfgC, "//"+p+":up", labellib.Under(p, dir), "isn't visible to", p)
		if p != dir {
			build(rc, "experimental-protect", cfgC, "//"+p+":ue", labellib.Under(p, dir), "isn't visible to", p)
		}
	}
	if os.Getenv("VERIF_KEEP_SCRATCH") == "" {
		lib.RemoveAll(root)
	}
}

func cfgNote(cfg string) string {
	if cfg == "" {
		return ""
	}
	return ", config " + strings.Join(strings.Fields(cfg), " ")
}

func endToEnd(r *lib.Run) {
	n := r.Pick(2, 30)
	r.ForEach("e2e", n*e2eGroups, 8, func(u int, _ *rand.Rand) {
		i, group := u/e2eGroups, u%e2eGroups
		rng := r.Rand("e2e-case", i)
		// the first cases walk the pair list in a seed-rotated order so that every quick run covers
		// several distinct sibling shapes
		k := (i + int(r.Seed)) % len(labellib.SiblingPairs)
		pair := labellib.SiblingPairs[k]
		if i >= len(labellib.SiblingPairs) {
			pair = labellib.SiblingPairs[rng.Intn(len(labellib.SiblingPairs))]
			if rng.Intn(2) == 0 { // nest the pair
				pre := []string{"top", "a/b", "third_party"}[rng.Intn(3)]
				pair = [2]string{pre + "/" + pair[0], pre + "/" + pair[1]}
			}
		}
		e2eCase(r, u, pair[0], pair[1], group)
	})
}

// ---------------------------------------------------------------------------------------------

func TestC20(t *testing.T) {
	labellib.Silence()
	r := lib.Start("C20")
	defer lib.End(t, r)
	r.Rule = "round trip: every string over the alphabet " + alphabet + " up to the tier's length (exhaustive) and token-spliced longer strings, in 3 (current package, subrepo) contexts; a case is one string ACCEPTED by the parser (distinct by string+context; rejected strings are only counted). " +
		"pattern selection: every (pattern, label) pair over the sibling-prefix package pool and over random prefix-sharing package trees at each site; non-trivial when the two packages are related (same, sub-, ancestor or sibling-prefix). e2e: one case per (directory, sibling) pair."
	r.Assumes = []string{
		"reference pattern semantics by whole path components (docs/basics.html: //pkg:all = all targets in pkg, //pkg/... = pkg and anywhere beneath it)",
		"hidden children _name#tag are judged as their parent rule for visibility",
		"witness-key classification (form/reason) uses the harness's own copy of the naming rules; verdicts do not",
		"the undocumented experimental-directory exemption of the sandbox whitelist is only compared differentially (sibling must be treated like an unrelated package)",
	}
	r.Exhaustive = true

	walls := map[string]float64{}
	timed := func(name string, f func(*lib.Run)) {
		t0 := time.Now()
		f(r)
		walls[name] = time.Since(t0).Seconds()
	}
	timed("roundtrip_exhaustive", roundTripExhaustive)
	timed("roundtrip_fuzz", roundTripFuzz)
	timed("roundtrip_cli", roundTripCLI)
	timed("documented_forms", docForms)
	timed("pattern_pairs", patternPairs)
	timed("end_to_end", endToEnd)
	r.Extra("stream_wall_s", walls) // informational only

	r.RequireObserved("strings_accepted", "cli_relative_accepted", "documented_forms_checked",
		"site_includes", "site_sandbox-whitelist-matches", "site_exclude", "site_visibility", "site_experimental-dir-exempt", "site_experimental-dir-protect", "site_expand",
		"e2e_site_commandline-dots", "e2e_site_exclude-dots", "e2e_site_visibility-dots", "e2e_site_sandbox-whitelist-dots", "e2e_site_sandbox-experimental", "e2e_site_experimental-exempt", "e2e_site_experimental-protect")
}

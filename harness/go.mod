module verifharness

go 1.26.1

require (
	github.com/anishathalye/porcupine v1.3.0
	github.com/thought-machine/please v0.0.0
)

require (
	github.com/beorn7/perks v1.0.1 // indirect
	github.com/cespare/xxhash/v2 v2.3.0 // indirect
	github.com/chzyer/readline v1.5.1 // indirect
	github.com/coreos/go-semver v0.3.1 // indirect
	github.com/dustin/go-humanize v1.0.1 // indirect
	github.com/google/shlex v0.0.0-20191202100458-e7afc7fbc510 // indirect
	github.com/karrick/godirwalk v1.17.0 // indirect
	github.com/klauspost/cpuid/v2 v2.4.0 // indirect
	github.com/manifoldco/promptui v0.9.0 // indirect
	github.com/munnerz/goautoneg v0.0.0-20191010083416-a7dc8b61c822 // indirect
	github.com/peterebden/go-cli-init/v5 v5.2.1 // indirect
	github.com/peterebden/go-deferred-regex v1.1.0 // indirect
	github.com/pkg/xattr v0.4.12 // indirect
	github.com/please-build/gcfg v1.7.0 // indirect
	github.com/prometheus/client_golang v1.23.2 // indirect
	github.com/prometheus/client_model v0.6.2 // indirect
	github.com/prometheus/common v0.70.0 // indirect
	github.com/prometheus/procfs v0.21.1 // indirect
	github.com/shirou/gopsutil/v3 v3.24.5 // indirect
	github.com/sourcegraph/go-diff v0.8.0 // indirect
	github.com/texttheater/golang-levenshtein v1.0.1 // indirect
	github.com/thought-machine/go-flags v1.7.0 // indirect
	github.com/tklauser/go-sysconf v0.4.0 // indirect
	github.com/tklauser/numcpus v0.12.0 // indirect
	github.com/zeebo/blake3 v0.2.4 // indirect
	golang.org/x/sync v0.22.0 // indirect
	golang.org/x/sys v0.47.0 // indirect
	golang.org/x/term v0.45.0 // indirect
	google.golang.org/protobuf v1.36.11 // indirect
	gopkg.in/op/go-logging.v1 v1.0.0-20160211212156-b2cb9fa56473 // indirect
	gopkg.in/warnings.v0 v0.1.2 // indirect
)

replace github.com/thought-machine/please => /repo

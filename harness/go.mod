module verifharness

go 1.26.1

require (
	github.com/anishathalye/porcupine v1.3.0
	github.com/bazelbuild/remote-apis v0.0.0-20260331222004-becdd8f9ff81
	github.com/bazelbuild/remote-apis-sdks v0.0.0-20260610142741-7ffd493e6686
	github.com/thought-machine/please v0.0.0
	google.golang.org/protobuf v1.36.11
	gopkg.in/op/go-logging.v1 v1.0.0-20160211212156-b2cb9fa56473
)

require (
	cloud.google.com/go/compute/metadata v0.9.0 // indirect
	cloud.google.com/go/longrunning v1.2.0 // indirect
	github.com/Masterminds/semver/v3 v3.5.0 // indirect
	github.com/alessio/shellescape v1.4.2 // indirect
	github.com/beorn7/perks v1.0.1 // indirect
	github.com/cespare/xxhash/v2 v2.3.0 // indirect
	github.com/chzyer/readline v1.5.1 // indirect
	github.com/coreos/go-semver v0.3.1 // indirect
	github.com/djherbis/atime v1.1.0 // indirect
	github.com/dustin/go-humanize v1.0.1 // indirect
	github.com/golang/glog v1.2.5 // indirect
	github.com/google/shlex v0.0.0-20191202100458-e7afc7fbc510 // indirect
	github.com/google/uuid v1.6.0 // indirect
	github.com/grpc-ecosystem/go-grpc-middleware v1.4.0 // indirect
	github.com/grpc-ecosystem/go-grpc-prometheus v1.2.0 // indirect
	github.com/hashicorp/errwrap v1.1.0 // indirect
	github.com/hashicorp/go-cleanhttp v0.5.2 // indirect
	github.com/hashicorp/go-multierror v1.1.1 // indirect
	github.com/hashicorp/go-retryablehttp v0.7.8 // indirect
	github.com/jstemmer/go-junit-report/v2 v2.1.0 // indirect
	github.com/karrick/godirwalk v1.17.0 // indirect
	github.com/klauspost/compress v1.19.0 // indirect
	github.com/klauspost/cpuid/v2 v2.4.0 // indirect
	github.com/manifoldco/promptui v0.9.0 // indirect
	github.com/munnerz/goautoneg v0.0.0-20191010083416-a7dc8b61c822 // indirect
	github.com/peterebden/go-cli-init/v5 v5.2.1 // indirect
	github.com/peterebden/go-deferred-regex v1.1.0 // indirect
	github.com/peterebden/tools v0.0.0-20190805132753-b2a0db951d2a // indirect
	github.com/pkg/xattr v0.4.12 // indirect
	github.com/please-build/buildtools v0.0.0-20240111140234-77ffe55926d9 // indirect
	github.com/please-build/gcfg v1.7.0 // indirect
	github.com/prometheus/client_golang v1.23.2 // indirect
	github.com/prometheus/client_model v0.6.2 // indirect
	github.com/prometheus/common v0.70.0 // indirect
	github.com/prometheus/procfs v0.21.1 // indirect
	github.com/shirou/gopsutil/v3 v3.24.5 // indirect
	github.com/sourcegraph/go-diff v0.8.0 // indirect
	github.com/texttheater/golang-levenshtein v1.0.1 // indirect
	github.com/thought-machine/go-flags v1.7.0 // indirect
	github.com/tklauser/go-sysconf v0.4.0 // indirect
	github.com/tklauser/numcpus v0.12.0 // indirect
	github.com/zeebo/blake3 v0.2.4 // indirect
	golang.org/x/exp v0.0.0-20260709172345-9ea1abe57597 // indirect
	golang.org/x/net v0.57.0 // indirect
	golang.org/x/oauth2 v0.36.0 // indirect
	golang.org/x/sync v0.22.0 // indirect
	golang.org/x/sys v0.47.0 // indirect
	golang.org/x/term v0.45.0 // indirect
	golang.org/x/text v0.40.0 // indirect
	google.golang.org/genproto v0.0.0-20260706201446-f0a921348800 // indirect
	google.golang.org/genproto/googleapis/api v0.0.0-20260706201446-f0a921348800 // indirect
	google.golang.org/genproto/googleapis/bytestream v0.0.0-20260706201446-f0a921348800 // indirect
	google.golang.org/genproto/googleapis/rpc v0.0.0-20260706201446-f0a921348800 // indirect
	google.golang.org/grpc v1.82.0 // indirect
	gopkg.in/warnings.v0 v0.1.2 // indirect
)

replace github.com/thought-machine/please => /repo

// C24 — change detection (`plz query changes`) never misses an affected target.
// Monitor: generated repositories (nested packages, directory sources, shared files, test data, hidden
// children of a subincluded macro, provides/requires, manual targets, config consumers) committed as A
// in a scratch git repository, one to three generated edits committed as B, then the real plz binary:
//   - graph-diff mode   `plz query changes --since HEAD~1 --level {0,-1}`
//   - file-list mode    `plz query changes --level {0,-1} <changed files>` (source-file edits only)
//
// Ground truth: (1) the clean-build oracle on A and on B (targets whose declared outputs differ, plus
// targets new in B), (2) from the model: targets that directly consume a changed file or whose
// definition changed, and their transitive dependents over dependency edges that are certain in
// Please's own terms (provide/require substitutions resolved). Expected ⊆ reported; over-reporting is
// never a violation; manual targets (documented exclusion) are removed from the expectation.
package c24

import (
	"fmt"
	"math/rand"
	"os"
	"path/filepath"
	"sort"
	"strings"
	"sync"
	"testing"
	"time"

	"verifharness/e2e"
	b "verifharness/e2eblib"
	"verifharness/lib"
)

// gitEnv is added to plz's minimal fixed environment (which has /usr/bin on PATH for git). GOMAXPROCS only
// keeps the footprint of the many short plz processes small on a shared machine; no verdict depends on it.
var gitEnv = []string{"GIT_CONFIG_NOSYSTEM=1", "GIT_TERMINAL_PROMPT=0", "GIT_CONFIG_GLOBAL=/dev/null", "GOMAXPROCS=4"}

// ---- reference graph knowledge ----

type edge struct{ To, Kind string }

// sureEdges lists the dependencies of a real label that hold in Please's own terms: declared inputs,
// with a provide/require substitution applied exactly as BuildTarget.ProvideFor does (never for data
// or tools), a Lib's public filegroup on its hidden child, and the child on the macro's deps.
func sureEdges(r *b.Repo, label string) []edge {
	t := r.Owner(label)
	if t == nil {
		return nil
	}
	var out []edge
	if t.Kind == b.Lib {
		if label == t.Label() {
			out = append(out, edge{t.ChildLabel(), "hidden-child"})
		}
		for _, d := range t.Deps {
			out = append(out, edge{d, "dep"})
		}
		return out
	}
	dataOrTool := map[string]bool{}
	for _, l := range t.DataLabels() {
		dataOrTool[l] = true
	}
	for _, l := range t.Tools {
		dataOrTool[l] = true
	}
	for _, k := range b.SortedKeys(t.NamedTools) {
		for _, l := range t.NamedTools[k] {
			dataOrTool[l] = true
		}
	}
	add := func(ls []string, kind string) {
		for _, l := range ls {
			if !b.IsLabel(l) {
				continue
			}
			d := r.Owner(l)
			if d == nil {
				continue
			}
			if len(t.Requires) == 0 || dataOrTool[l] {
				out = append(out, edge{l, kind})
				continue
			}
			provided := false
			for _, req := range t.Requires {
				if d.Kind == b.Lib && req == "lx" {
					out = append(out, edge{d.ChildLabel(), kind + "-via-provide"})
					provided = true
				} else if p, ok := d.Provides[req]; ok && d.Kind != b.Lib {
					out = append(out, edge{p, kind + "-via-provide"})
					provided = true
				}
			}
			if !provided {
				out = append(out, edge{l, kind})
			}
		}
	}
	add(t.SrcLabels, "src")
	for _, k := range b.SortedKeys(t.NamedSrcs) {
		add(t.NamedSrcs[k], "named-src")
	}
	add(t.Deps, "dep")
	add(t.Exported, "exported-dep")
	add(t.Tools, "tool")
	for _, k := range b.SortedKeys(t.NamedTools) {
		add(t.NamedTools[k], "named-tool")
	}
	add(t.Data, "data")
	for _, k := range b.SortedKeys(t.NamedData) {
		add(t.NamedData[k], "named-data")
	}
	return out
}

// defFingerprint is the definition of one real target as written in the BUILD file.
func defFingerprint(r *b.Repo, label string) string {
	t := r.Owner(label)
	if t == nil {
		return ""
	}
	if t.Kind == b.Lib {
		if label == t.ChildLabel() {
			return lib.JSON([]any{"child", t.Srcs, t.Salt, t.Deps, t.TestOnly})
		}
		return lib.JSON([]any{"public", t.Labels, t.Deps, t.TestOnly})
	}
	return r.Render(t, b.RenderOpts{})
}

// An expectation says why a real label has to be reported. Class is the stable witness class
// (what kind of input is mishandled), Reason the readable detail.
type expectation struct {
	Class  string `json:"class"`
	Reason string `json:"reason"`
	Seed   bool   `json:"seed"` // directly affected (level 0); otherwise a transitive dependent
}

var moveKinds = map[string]bool{"move-file-between-dir-srcs": true, "move-file-out-of-dir-src": true}

// consumeClass names the input class of "target consumes changed file": how it is consumed
// (named groups folded into their plain form) and what happened to the file. A file that left a
// directory source / data directory with unchanged content is its own class.
func consumeClass(how, change, editKind string) string {
	how = strings.TrimPrefix(how, "named-")
	if change == "removed" && moveKinds[editKind] {
		return "dir-entry-moved-away"
	}
	return "consumes-" + how + "-" + change
}

type truth struct {
	changedFiles []string                // source paths that differ between A and B
	fileChange   map[string]string       // path -> modified | added | removed
	seedsFile    map[string]expectation  // real label -> consumes a changed file
	seedsDef     map[string]expectation  // real label -> new / definition changed
	outDiff      map[string]bool         // real label -> clean-build outputs differ (or new)
	manual       map[string]bool         // real labels excluded by documentation
	editOfFile   map[string]string       // path -> edit kind
	editOfLabel  map[string]string       // real label -> edit kind
	firstKind    string
}

func computeTruth(a, bb *b.Repo, edits []Edit, snapA, snapB map[string]string) *truth {
	tr := &truth{fileChange: map[string]string{}, seedsFile: map[string]expectation{}, seedsDef: map[string]expectation{},
		outDiff: map[string]bool{}, manual: map[string]bool{}, editOfFile: map[string]string{}, editOfLabel: map[string]string{}}
	for _, e := range edits {
		if tr.firstKind == "" {
			tr.firstKind = e.Kind
		}
		for _, f := range e.Files {
			if _, ok := tr.editOfFile[f]; !ok {
				tr.editOfFile[f] = e.Kind
			}
		}
		for _, l := range e.Labels {
			if _, ok := tr.editOfLabel[l]; !ok {
				tr.editOfLabel[l] = e.Kind
			}
		}
	}
	for p, c := range bb.Files {
		if oc, ok := a.Files[p]; !ok {
			tr.fileChange[p] = "added"
		} else if oc != c {
			tr.fileChange[p] = "modified"
		}
	}
	for p := range a.Files {
		if _, ok := bb.Files[p]; !ok {
			tr.fileChange[p] = "removed"
		}
	}
	tr.changedFiles = b.SortedKeys(tr.fileChange)
	for _, t := range bb.Targets {
		if t.HasLabel("manual") {
			for _, l := range realLabels(t) {
				tr.manual[l] = true
			}
		}
		for _, p := range tr.changedFiles {
			if h := consumption(t, p); h != "" {
				l := consumerLabel(t)
				if _, ok := tr.seedsFile[l]; !ok {
					kind := tr.editOfFile[p]
					if kind == "" {
						kind = "?"
					}
					tr.seedsFile[l] = expectation{Class: consumeClass(h, tr.fileChange[p], kind),
						Reason: fmt.Sprintf("%s consumes %s (%s, %s by edit %s)", l, p, h, tr.fileChange[p], kind), Seed: true}
				}
			}
		}
	}
	for _, re := range bb.Reals() {
		l := re.Label
		if a.Owner(l) == nil || (a.Owner(l).Kind == b.Lib) != (re.Model.Kind == b.Lib) {
			tr.seedsDef[l] = expectation{Class: "new-target", Reason: l + " is new in B", Seed: true}
			tr.outDiff[l] = true
			continue
		}
		if defFingerprint(a, l) != defFingerprint(bb, l) {
			kind := tr.editOfLabel[l]
			if kind == "" {
				kind = "?"
			}
			tr.seedsDef[l] = expectation{Class: "definition-changed-" + kind, Reason: "the definition of " + l + " changed (edit " + kind + ")", Seed: true}
		}
		if snapA[l] != snapB[l] {
			tr.outDiff[l] = true
		}
	}
	return tr
}

// seeds returns the directly affected targets (manual ones included).
func (tr *truth) seeds(withDefs bool) map[string]expectation {
	exp := map[string]expectation{}
	for l, e := range tr.seedsFile {
		exp[l] = e
	}
	if withDefs {
		for l, e := range tr.seedsDef {
			if _, ok := exp[l]; !ok {
				exp[l] = e
			}
		}
	}
	return exp
}

// expected computes the expectation for one query: level 0 = the seeds; level -1 = seeds, their
// transitive dependents over sure edges, and every target whose clean-build outputs differ.
func (tr *truth) expected(bb *b.Repo, withDefs bool, level int) map[string]expectation {
	exp := tr.seeds(withDefs)
	if level != 0 {
		reals := bb.Reals()
		for changed := true; changed; {
			changed = false
			for _, re := range reals {
				if _, ok := exp[re.Label]; ok {
					continue
				}
				for _, e := range sureEdges(bb, re.Label) {
					if _, ok := exp[e.To]; ok {
						exp[re.Label] = expectation{Class: "revdep-" + e.Kind, Reason: re.Label + " depends on " + e.To + " (" + e.Kind + ")"}
						changed = true
						break
					}
				}
			}
		}
		for l := range tr.outDiff {
			if _, ok := exp[l]; !ok {
				exp[l] = expectation{Class: "output-differs-" + tr.firstKind, Reason: "the clean-build outputs of " + l + " differ between A and B"}
			}
		}
	}
	for l := range tr.manual {
		delete(exp, l)
	}
	return exp
}

type queryRecord struct {
	Mode     string   `json:"mode"`
	Level    int      `json:"level"`
	Args     []string `json:"args"`
	Exit     int      `json:"exit"`
	Reported []string `json:"reported"`
	Expected []string `json:"expected"`
	Missed   []string `json:"missed,omitempty"`
}

func TestC24(t *testing.T) {
	r := lib.Start("C24")
	defer lib.End(t, r)
	r.Rule = "case = one (A,B) pair: a generated repository (2-5 packages incl. nested and root, 5-12 targets: genrule, tool, macro lib with hidden child, filegroup, text_file, gentest with data; directory sources, shared files, named srcs/data, provides/requires, manual labels, [buildenv]/[buildconfig] consumers) committed as A and 1-3 generated edits (class src: source/data file edits, adds, removals, moves; build: BUILD edits; config: .plzconfig / build_defs edits) committed as B; each pair is queried in graph-diff mode (levels 0 and -1) and, for class src, in file-list mode; distinct by (files of A, files of B); non-trivial = the level -1 expectation is non-empty"
	r.Assumes = []string{
		"the clean-build oracle is the same plz binary building A and B from an empty plz-out with no cache; generated commands are deterministic functions of their declared inputs",
		"git (offline, scratch HOME, fixed identity) behaves as documented; plz reaches it through PATH",
		"the model's dependency edges are those Please itself resolves (declared inputs with provide/require substitution as in BuildTarget.ProvideFor)",
	}
	bin := lib.PlzBin(false)
	n := r.Pick(24, 1500)
	dev := os.Getenv("VERIF_DEV") != ""
	// builtA, when not nil, is the clean build of exactly this A made once in another sandbox (the
	// directed stream shares one A; generated commands only print relative paths and checksums)
	pair := func(stream string, i int, rng *rand.Rand, a, bb *b.Repo, edits []Edit, class string, builtA *b.Built) {
		sb := e2e.NewSandbox(filepath.Join(r.Scratch(), fmt.Sprintf("%s%d", stream, i)))
		defer lib.RemoveAll(sb.Work)
		srcOnly := true
		for _, e := range edits {
			r.ObsDistinct("edit_kinds", e.Kind)
			if e.Class != "src" {
				srcOnly = false
			}
		}
		// ---- materialise A, commit, clean build; B likewise
		filesA, filesB := a.AllFiles(b.RenderOpts{}), bb.AllFiles(b.RenderOpts{})
		if err := b.WriteFiles(sb.Repo, filesA); err != nil {
			panic(err)
		}
		b.Git(sb.Repo, sb.Home, "init", "-q", "-b", "main")
		b.Git(sb.Repo, sb.Home, "add", "-A")
		b.Git(sb.Repo, sb.Home, "commit", "-q", "-m", "A")
		t0 := time.Now()
		var cleanA b.Built
		if builtA != nil {
			cleanA = *builtA
		} else {
			cleanA = b.CleanBuildInPlace(sb, bin, a, gitEnv, "-n", "4")
		}
		if _, _, _, err := b.SyncFiles(sb.Repo, filesA, filesB); err != nil {
			panic(err)
		}
		b.Git(sb.Repo, sb.Home, "add", "-A")
		b.Git(sb.Repo, sb.Home, "commit", "-q", "-m", "B")
		cleanB := b.CleanBuildInPlace(sb, bin, bb, gitEnv, "-n", "4")
		r.Obs("info_ms_clean_builds_and_commits", time.Since(t0).Milliseconds())
		defer func(t1 time.Time) { r.Obs("info_ms_queries", time.Since(t1).Milliseconds()) }(time.Now())
		if cleanA.Result.TimedOut || cleanB.Result.TimedOut {
			r.Inconclusive(fmt.Sprintf("%s %d: clean build timed out", stream, i))
			return
		}
		if cleanA.Result.Exit != 0 || cleanB.Result.Exit != 0 {
			r.Obs("generator_invalid_states", 1)
			which, res := "A", cleanA.Result
			if cleanA.Result.Exit == 0 {
				which, res = "B", cleanB.Result
			}
			r.Inconclusive(fmt.Sprintf("%s %d: clean build of %s fails (edits %s): %s", stream, i, which, lib.JSON(edits), lib.Tail(res.Stderr, 400)))
			return
		}
		tr := computeTruth(a, bb, edits, cleanA.PerTarget, cleanB.PerTarget)
		expAll := tr.expected(bb, true, -1)
		r.Case(lib.JSON(filesA)+lib.JSON(filesB), len(expAll) > 0)
		r.Obs("pairs", 1)
		r.Obs("pairs_class_"+class, 1)
		r.Obs("changed_source_files", int64(len(tr.changedFiles)))
		r.Obs("targets_output_differs", int64(len(tr.outDiff)))
		for _, e := range expAll {
			r.ObsDistinct("expectation_classes", e.Class)
		}

		var trail []queryRecord
		wit := func() map[string]any {
			return map[string]any{"edits": edits, "class": class, "changed_files": tr.changedFiles, "queries": trail,
				"files_A": filesA, "files_B": filesB, "outputs_differ": sortedSet(tr.outDiff)}
		}
		// run one query and compare
		run := func(mode string, level int, withDefs bool, args ...string) bool {
			full := append([]string{"query", "changes", "--level", fmt.Sprint(level)}, args...)
			res := sb.Plz(bin, gitEnv, 180*time.Second, full...)
			if res.TimedOut {
				r.Inconclusive(fmt.Sprintf("%s %d: %v timed out", stream, i, full))
				return false
			}
			// the repository must be back at B on main (diff mode checks out HEAD~1 and back)
			head, dirty := "main", ""
			if mode == "diff" {
				head = strings.TrimSpace(b.Git(sb.Repo, sb.Home, "rev-parse", "--abbrev-ref", "HEAD"))
				dirty = strings.TrimSpace(b.Git(sb.Repo, sb.Home, "status", "--porcelain"))
			}
			if head != "main" || dirty != "" {
				r.Inconclusive(fmt.Sprintf("%s %d: after %v the work tree is at %q, status %q", stream, i, full, head, dirty))
				return false
			}
			rec := queryRecord{Mode: mode, Level: level, Args: full, Exit: res.Exit}
			if res.Exit != 0 {
				rec.Reported = []string{lib.Tail(res.Stderr, 600)}
				trail = append(trail, rec)
				r.Obs("query_failed_"+mode, 1)
				r.Inconclusive(fmt.Sprintf("%s %d: %v exits %d where both clean builds succeed: %s", stream, i, full, res.Exit, lib.Tail(res.Stderr, 300)))
				return false
			}
			reported := map[string]bool{}
			for _, l := range b.Lines(res.Stdout) {
				reported[l] = true
			}
			exp := tr.expected(bb, withDefs, level)
			rec.Reported, rec.Expected = sortedSet(reported), b.SortedKeys(exp)
			// classify every miss: a directly affected target; a dependent of a directly affected
			// target that plz did not detect either (same input class, also when that target itself
			// is excluded as manual); a dependent of detected targets (failed propagation); the rest
			seeds := tr.seeds(withDefs)
			type miss struct {
				label, class, why string
				rank            int
			}
			var misses []miss
			for _, l := range rec.Expected {
				if reported[l] {
					continue
				}
				rec.Missed = append(rec.Missed, l)
				e := exp[l]
				if e.Seed {
					misses = append(misses, miss{l, e.Class, e.Reason, 0})
					continue
				}
				var via string
				seen := map[string]bool{}
				var walk func(x string)
				walk = func(x string) {
					if seen[x] || via != "" {
						return
					}
					seen[x] = true
					if se, ok := seeds[x]; ok && !reported[x] {
						via = x
						_ = se
						return
					}
					for _, ed := range sureEdges(bb, x) {
						walk(ed.To)
					}
				}
				walk(l)
				switch {
				case via != "":
					misses = append(misses, miss{l, seeds[via].Class, e.Reason + "; " + l + " depends on undetected " + via + ": " + seeds[via].Reason, 0})
				case strings.HasPrefix(e.Class, "revdep-"):
					misses = append(misses, miss{l, "unlimited-level/" + e.Class, e.Reason + " and every directly affected target below it was reported", 1})
				default:
					misses = append(misses, miss{l, e.Class, e.Reason, 2})
				}
			}
			trail = append(trail, rec)
			r.Obs("queries_"+mode, 1)
			r.Obs("reported_labels", int64(len(reported)))
			r.Obs("expected_labels", int64(len(exp)))
			over := 0
			for l := range reported {
				if _, ok := exp[l]; !ok {
					over++
				}
			}
			r.Obs("reported_beyond_expectation", int64(over))
			for l := range reported {
				if o := bb.Owner(l); o != nil && o.Kind == b.Lib && l == o.ChildLabel() {
					r.Obs("hidden_children_reported", 1)
					break
				}
			}
			if len(rec.Missed) == 0 {
				return true
			}
			// report the most direct class of misses only (the others follow from it), seeds first
			sort.SliceStable(misses, func(x, y int) bool { return exp[misses[x].label].Seed && !exp[misses[y].label].Seed })
			best := 3
			for _, m := range misses {
				if m.rank < best {
					best = m.rank
				}
			}
			seenKey := map[string]bool{}
			for _, m := range misses {
				key := mode + "/" + m.class
				if m.rank != best || seenKey[key] {
					continue
				}
				seenKey[key] = true
				w := wit()
				w["missed"] = m.label
				w["why_expected"] = m.why
				w["edges_of_missed"] = sureEdges(bb, m.label)
				r.Violation(key, fmt.Sprintf("`plz %s` does not report %s: %s; edits: %s; reported: %v", strings.Join(full, " "), m.label, m.why, describe(edits), rec.Reported), w, i)
			}
			if dev {
				fmt.Printf("%s %d: MISS %s L%d %v  edits=%s reported=%v\n", stream, i, mode, level, rec.Missed, describe(edits), rec.Reported)
			}
			return true
		}
		ok := run("diff", -1, true, "--since", "HEAD~1") && run("diff", 0, true, "--since", "HEAD~1")
		if ok && srcOnly && len(tr.changedFiles) > 0 {
			files := append([]string{}, tr.changedFiles...)
			rng.Shuffle(len(files), func(x, y int) { files[x], files[y] = files[y], files[x] })
			_ = run("files", -1, false, files...) && run("files", 0, false, files...)
		}
		if r.WantSample() {
			r.Sample(map[string]any{"class": class, "edits": edits, "targets_B": len(bb.Reals()), "queries": trail})
		}
	}
	// directed pairs: one hand-built repository with every layout the property names, one edit each
	// (seed-independent; they also give the smallest witnesses), then the generated pairs
	dcases := directedCases()
	var onceA sync.Once
	var directedA b.Built
	r.ForEach("directed", len(dcases), 8, func(i int, rng *rand.Rand) {
		a := directedRepo()
		if err := a.Check(); err != nil {
			panic("harness: directed repository invalid: " + err.Error())
		}
		bb := a.Clone()
		e := dcases[i](bb)
		if err := bb.Check(); err != nil {
			panic("harness: directed edit " + e.Kind + " invalid: " + err.Error())
		}
		r.Obs("directed_pairs", 1)
		onceA.Do(func() {
			sb := e2e.NewSandbox(filepath.Join(r.Scratch(), "directedA"))
			defer lib.RemoveAll(sb.Work)
			if err := b.WriteFiles(sb.Repo, a.AllFiles(b.RenderOpts{})); err != nil {
				panic(err)
			}
			directedA = b.CleanBuildInPlace(sb, bin, a, gitEnv, "-n", "4")
		})
		pair("directed", i, rng, a, bb, []Edit{e}, e.Class, &directedA)
	})
	r.ForEach("pair", n, 8, func(i int, rng *rand.Rand) {
		class := []string{"src", "src", "src", "src", "build", "build", "build", "build", "config", "config"}[rng.Intn(10)]
		a := b.Generate(rng, b.GenOpts{MinTargets: 5, MaxTargets: 12, Tests: true, Manual: true, Config: true, Root: true, Maps: rng.Intn(3) == 0, DepOneIn: 3})
		fixModel(a)
		if class == "config" {
			ensureConfigConsumers(rng, a)
		}
		if err := a.Check(); err != nil {
			r.Obs("generator_invalid_states", 1)
			return
		}
		nEdits := []int{1, 1, 1, 2, 2, 3}[rng.Intn(6)]
		bb, edits := applyEdits(rng, a, class, nEdits)
		if bb == nil {
			r.Obs("no_applicable_edit", 1)
			return
		}
		pair("pair", i, rng, a, bb, edits, class, nil)
	})
	r.RequireObserved("pairs", "queries_diff", "queries_files", "expected_labels", "reported_labels", "hidden_children_reported", "edit_kinds", "expectation_classes")
}

func describe(edits []Edit) string {
	parts := make([]string, len(edits))
	for i, e := range edits {
		parts[i] = e.Kind + "[" + e.Detail + "]"
	}
	return strings.Join(parts, ", ")
}

// ensureConfigConsumers makes sure a config-class pair has something that observes [buildenv] and
// [buildconfig] (the generator only adds consumers with probability 1/6 per target).
func ensureConfigConsumers(rng *rand.Rand, a *b.Repo) {
	var cmds []*b.Target
	hasEnv, hasCfg := false, false
	for _, t := range a.Targets {
		if hasCmd(t) && !t.IsTool {
			cmds = append(cmds, t)
			hasEnv = hasEnv || t.BuildEnv != ""
			hasCfg = hasCfg || t.ConfigKey != ""
		}
	}
	if len(cmds) == 0 {
		return
	}
	// half of the config pairs also get a target whose command is rewritten by a pre-build function
	// defined in the subincluded build_defs file
	if a.UsesDefs() && rng.Intn(2) == 0 {
		if t := cmds[rng.Intn(len(cmds))]; t.Kind == b.Genrule && !t.PostBuild {
			t.PreBuild = true
			a.PreSalt = "p1"
		}
	}
	if !hasEnv {
		cmds[rng.Intn(len(cmds))].BuildEnv = "verif-x"
	}
	if !hasCfg {
		cmds[rng.Intn(len(cmds))].ConfigKey = "cfga"
	}
}

// fixModel repairs a generated shape whose command cannot work: op "srcs" runs `find $SRCS`, which
// with no sources at all walks the build directory including the output being written.
func fixModel(a *b.Repo) {
	for _, t := range a.Targets {
		if t.Op == "srcs" && !hasAnySrc(t) {
			t.Op = "all"
		}
	}
}

func hasAnySrc(t *b.Target) bool {
	return len(t.Srcs)+len(t.SrcLabels)+len(t.NamedSrcs) > 0
}


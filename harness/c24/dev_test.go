package c24

import (
	"fmt"
	"math/rand"
	"os"
	"testing"

	b "verifharness/e2eblib"
)

// TestDevMaterialise is a development aid: VERIF_DEV_DIR=<dir> writes a generated state there.
func TestDevMaterialise(t *testing.T) {
	dir := os.Getenv("VERIF_DEV_DIR")
	if dir == "" {
		t.Skip("development aid")
	}
	rng := rand.New(rand.NewSource(1))
	a := b.Generate(rng, b.GenOpts{MinTargets: 5, MaxTargets: 12, Tests: true, Manual: true, Config: true, Root: true, DepOneIn: 3})
	fixModel(a)
	if err := b.WriteFiles(dir, a.AllFiles(b.RenderOpts{})); err != nil {
		t.Fatal(err)
	}
	fmt.Println(len(a.Targets), "targets")
}

package c24

import (
	"fmt"
	"math/rand"
	"path/filepath"
	"sort"
	"strings"

	b "verifharness/e2eblib"
)

// An Edit is one step from repository state A towards state B.
type Edit struct {
	Kind   string   `json:"kind"`
	Class  string   `json:"class"` // src | build | config
	Detail string   `json:"detail"`
	Files  []string `json:"files,omitempty"`  // repo-relative source paths whose content or existence changed
	Labels []string `json:"labels,omitempty"` // real labels whose definition changed or that are new
}

// ---- how a model target consumes a repo-relative path ----

// consumption reports how t consumes the file: "" (not at all), src, named-src, dir-src,
// dir-src-nested, named-dir-src, data, data-dir (first match in that order of declaration).
func consumption(t *b.Target, path string) string {
	match := func(entries []string, exact, dir string) string {
		for _, s := range entries {
			if b.IsLabel(s) {
				continue
			}
			full := filepath.Join(t.Pkg, strings.TrimSuffix(s, "/"))
			if full == path {
				return exact
			}
			if strings.HasPrefix(path, full+"/") {
				if strings.Contains(path[len(full)+1:], "/") && dir == "dir-src" {
					return "dir-src-nested"
				}
				return dir
			}
		}
		return ""
	}
	flat := func(m map[string][]string) []string {
		var out []string
		for _, k := range b.SortedKeys(m) {
			out = append(out, m[k]...)
		}
		return out
	}
	if h := match(t.Srcs, "src", "dir-src"); h != "" {
		return h
	}
	if h := match(flat(t.NamedSrcs), "named-src", "named-dir-src"); h != "" {
		return h
	}
	if h := match(t.Data, "data", "data-dir"); h != "" {
		return h
	}
	if h := match(flat(t.NamedData), "named-data", "named-data-dir"); h != "" {
		return h
	}
	return ""
}

// consumerLabel is the real target that holds the model target's local files: the hidden child of
// a Lib, the target itself otherwise.
func consumerLabel(t *b.Target) string {
	if t.Kind == b.Lib {
		return t.ChildLabel()
	}
	return t.Label()
}

type fileUse struct {
	Path string
	T    *b.Target
	How  string
}

func fileUses(r *b.Repo) []fileUse {
	var out []fileUse
	for _, p := range b.SortedKeys(r.Files) {
		for _, t := range r.Targets {
			if h := consumption(t, p); h != "" {
				out = append(out, fileUse{p, t, h})
			}
		}
	}
	return out
}

type dirUse struct {
	Dir  string // repo-relative directory
	T    *b.Target
	Data bool
}

func dirUses(r *b.Repo) []dirUse {
	var out []dirUse
	for _, t := range r.Targets {
		for _, s := range t.LocalSrcFiles() {
			if strings.HasSuffix(s, "/") {
				out = append(out, dirUse{filepath.Join(t.Pkg, strings.TrimSuffix(s, "/")), t, false})
			}
		}
		for _, s := range t.LocalFiles() {
			if strings.HasSuffix(s, "/") && !contains(t.LocalSrcFiles(), s) {
				out = append(out, dirUse{filepath.Join(t.Pkg, strings.TrimSuffix(s, "/")), t, true})
			}
		}
	}
	return out
}

func filesUnder(r *b.Repo, dir string) []string {
	var out []string
	for _, p := range b.SortedKeys(r.Files) {
		if strings.HasPrefix(p, dir+"/") {
			out = append(out, p)
		}
	}
	return out
}

func contains(ss []string, s string) bool {
	for _, x := range ss {
		if x == s {
			return true
		}
	}
	return false
}

func pickUse(rng *rand.Rand, uses []fileUse, hows ...string) (fileUse, bool) {
	var c []fileUse
	for _, u := range uses {
		if contains(hows, u.How) {
			c = append(c, u)
		}
	}
	if len(c) == 0 {
		return fileUse{}, false
	}
	return c[rng.Intn(len(c))], true
}

func changeContent(old string) string {
	if strings.HasSuffix(old, "+") {
		return old + "-"
	}
	return old + "+"
}

// ---- the edit kinds ----

type editFn func(rng *rand.Rand, r *b.Repo) *Edit

func editFile(kind string, hows ...string) editFn {
	return func(rng *rand.Rand, r *b.Repo) *Edit {
		u, ok := pickUse(rng, fileUses(r), hows...)
		if !ok {
			return nil
		}
		r.Files[u.Path] = changeContent(r.Files[u.Path])
		return &Edit{Kind: kind, Class: "src", Detail: u.Path + " (" + u.How + " of " + u.T.Label() + ")", Files: []string{u.Path}}
	}
}

func addInDir(rng *rand.Rand, r *b.Repo) *Edit {
	ds := dirUses(r)
	if len(ds) == 0 {
		return nil
	}
	d := ds[rng.Intn(len(ds))]
	name := filepath.Join(d.Dir, "added.txt")
	if rng.Intn(3) == 0 {
		name = filepath.Join(d.Dir, "m", "added.txt")
	}
	if _, ok := r.Files[name]; ok {
		return nil
	}
	r.Files[name] = "added"
	kind := "add-file-in-dir-src"
	if d.Data {
		kind = "add-file-in-data-dir"
	}
	return &Edit{Kind: kind, Class: "src", Detail: name + " (dir of " + d.T.Label() + ")", Files: []string{name}}
}

func rmInDir(rng *rand.Rand, r *b.Repo) *Edit {
	ds := dirUses(r)
	rng.Shuffle(len(ds), func(i, j int) { ds[i], ds[j] = ds[j], ds[i] })
	for _, d := range ds {
		fs := filesUnder(r, d.Dir)
		if len(fs) < 2 {
			continue
		}
		p := fs[rng.Intn(len(fs))]
		// another target may name this very file explicitly: then removing it breaks the build
		explicit := false
		for _, u := range fileUses(r) {
			if u.Path == p && !strings.Contains(u.How, "dir") {
				explicit = true
			}
		}
		if explicit {
			continue
		}
		delete(r.Files, p)
		kind := "rm-file-in-dir-src"
		if d.Data {
			kind = "rm-file-in-data-dir"
		}
		return &Edit{Kind: kind, Class: "src", Detail: p + " (dir of " + d.T.Label() + ")", Files: []string{p}}
	}
	return nil
}

// moveBetweenDirs moves a file, content unchanged, out of one directory source into another
// directory (a directory source of another target, or a fresh unconsumed directory).
func moveBetweenDirs(rng *rand.Rand, r *b.Repo) *Edit {
	ds := dirUses(r)
	rng.Shuffle(len(ds), func(i, j int) { ds[i], ds[j] = ds[j], ds[i] })
	for _, from := range ds {
		fs := filesUnder(r, from.Dir)
		if len(fs) < 2 {
			continue
		}
		p := fs[rng.Intn(len(fs))]
		explicit := false
		for _, u := range fileUses(r) {
			if u.Path == p && !strings.Contains(u.How, "dir") {
				explicit = true
			}
		}
		if explicit {
			continue
		}
		toDir := filepath.Join(from.T.Pkg, "attic")
		kind := "move-file-out-of-dir-src"
		for _, to := range ds {
			if to.Dir != from.Dir && !strings.HasPrefix(to.Dir+"/", from.Dir+"/") && !strings.HasPrefix(from.Dir+"/", to.Dir+"/") && rng.Intn(2) == 0 {
				toDir = to.Dir
				kind = "move-file-between-dir-srcs"
				break
			}
		}
		np := filepath.Join(toDir, "moved_"+filepath.Base(p))
		if _, ok := r.Files[np]; ok {
			continue
		}
		r.Files[np] = r.Files[p]
		delete(r.Files, p)
		return &Edit{Kind: kind, Class: "src", Detail: p + " -> " + np, Files: []string{p, np}}
	}
	return nil
}

func renameInDir(rng *rand.Rand, r *b.Repo) *Edit {
	ds := dirUses(r)
	if len(ds) == 0 {
		return nil
	}
	d := ds[rng.Intn(len(ds))]
	fs := filesUnder(r, d.Dir)
	if len(fs) == 0 {
		return nil
	}
	p := fs[rng.Intn(len(fs))]
	for _, u := range fileUses(r) {
		if u.Path == p && !strings.Contains(u.How, "dir") {
			return nil
		}
	}
	np := filepath.Join(filepath.Dir(p), "r_"+filepath.Base(p))
	if _, ok := r.Files[np]; ok {
		return nil
	}
	r.Files[np] = r.Files[p]
	delete(r.Files, p)
	return &Edit{Kind: "rename-file-in-dir-src", Class: "src", Detail: p + " -> " + np, Files: []string{p, np}}
}

func pickTarget(rng *rand.Rand, r *b.Repo, ok func(i int, t *b.Target) bool) (int, *b.Target) {
	var idx []int
	for i, t := range r.Targets {
		if ok(i, t) {
			idx = append(idx, i)
		}
	}
	if len(idx) == 0 {
		return -1, nil
	}
	i := idx[rng.Intn(len(idx))]
	return i, r.Targets[i]
}

func hasCmd(t *b.Target) bool { return t.Kind == b.Genrule || t.Kind == b.Gentest }

func editSalt(rng *rand.Rand, r *b.Repo) *Edit {
	_, t := pickTarget(rng, r, func(i int, t *b.Target) bool { return hasCmd(t) || t.Kind == b.Lib })
	if t == nil {
		return nil
	}
	t.Salt += "x"
	return &Edit{Kind: "cmd", Class: "build", Detail: t.Label(), Labels: []string{consumerLabel(t)}}
}

func editOp(rng *rand.Rand, r *b.Repo) *Edit {
	_, t := pickTarget(rng, r, func(i int, t *b.Target) bool { return t.Kind == b.Genrule && !t.IsTool })
	if t == nil {
		return nil
	}
	ops := []string{"all", "names", "srcs", "const"}
	for {
		o := ops[rng.Intn(len(ops))]
		if o != t.Op && (o != "srcs" || hasAnySrc(t)) {
			t.Op = o
			break
		}
	}
	return &Edit{Kind: "cmd-op", Class: "build", Detail: t.Label() + " -> " + t.Op, Labels: []string{t.Label()}}
}

func editEnv(rng *rand.Rand, r *b.Repo) *Edit {
	_, t := pickTarget(rng, r, func(i int, t *b.Target) bool { return hasCmd(t) && !t.IsTool })
	if t == nil {
		return nil
	}
	if t.Env == nil {
		t.Env = map[string]string{}
	}
	k := []string{"VAR_A", "VAR_B", "ZED"}[rng.Intn(3)]
	t.Env[k] = t.Env[k] + "e"
	return &Edit{Kind: "env", Class: "build", Detail: t.Label() + " " + k, Labels: []string{t.Label()}}
}

func realLabels(t *b.Target) []string {
	if t.Kind == b.Lib {
		return []string{t.ChildLabel(), t.Label()}
	}
	return []string{t.Label()}
}

func addDep(rng *rand.Rand, r *b.Repo) *Edit {
	i, t := pickTarget(rng, r, func(i int, t *b.Target) bool {
		return i > 0 && (hasCmd(t) || t.Kind == b.Lib) && !t.IsTool
	})
	if t == nil {
		return nil
	}
	testish := t.Kind == b.Gentest || t.TestOnly
	var cands []*b.Target
	for _, p := range r.Targets[:i] {
		if p.IsTool || p.Kind == b.Gentest || (p.TestOnly && !testish) || contains(t.InputLabels(), p.Label()) {
			continue
		}
		cands = append(cands, p)
	}
	if len(cands) == 0 {
		return nil
	}
	p := cands[rng.Intn(len(cands))]
	t.Deps = append(t.Deps, p.Label())
	return &Edit{Kind: "add-dep", Class: "build", Detail: t.Label() + " += " + p.Label(), Labels: realLabels(t)}
}

func rmDep(rng *rand.Rand, r *b.Repo) *Edit {
	_, t := pickTarget(rng, r, func(i int, t *b.Target) bool { return len(t.Deps) > 0 })
	if t == nil {
		return nil
	}
	k := rng.Intn(len(t.Deps))
	d := t.Deps[k]
	t.Deps = append(append([]string{}, t.Deps[:k]...), t.Deps[k+1:]...)
	return &Edit{Kind: "rm-dep", Class: "build", Detail: t.Label() + " -= " + d, Labels: realLabels(t)}
}

func editLabel(rng *rand.Rand, r *b.Repo) *Edit {
	_, t := pickTarget(rng, r, func(i int, t *b.Target) bool { return !t.HasLabel("l3") })
	if t == nil {
		return nil
	}
	t.Labels = append(t.Labels, "l3")
	return &Edit{Kind: "add-label", Class: "build", Detail: t.Label(), Labels: []string{t.Label()}}
}

func addTarget(rng *rand.Rand, r *b.Repo) *Edit {
	pkgs := r.Pkgs()
	pkg := pkgs[rng.Intn(len(pkgs))]
	n := len(r.Targets)
	for r.Target(fmt.Sprintf("//%s:t%d", pkg, n)) != nil {
		n++
	}
	t := &b.Target{Pkg: pkg, Name: fmt.Sprintf("t%d", n), Kind: b.Genrule, Salt: "new", Op: "all", Outs: []string{fmt.Sprintf("o%d.out", n)}}
	src := fmt.Sprintf("s%d_new.txt", n)
	r.Files[filepath.Join(pkg, src)] = "new"
	t.Srcs = []string{src}
	for _, p := range r.Targets {
		if !p.IsTool && p.Kind != b.Gentest && !p.TestOnly && rng.Intn(3) == 0 && len(t.SrcLabels) < 2 {
			t.SrcLabels = append(t.SrcLabels, p.Label())
		}
	}
	r.Targets = append(r.Targets, t)
	return &Edit{Kind: "add-target", Class: "build", Detail: t.Label(), Labels: []string{t.Label()}}
}

func rmTarget(rng *rand.Rand, r *b.Repo) *Edit {
	used := map[string]bool{}
	for _, t := range r.Targets {
		for _, l := range t.InputLabels() {
			used[l] = true
		}
		for _, l := range t.Provides {
			used[l] = true
		}
		for _, l := range t.Labels {
			if strings.HasPrefix(l, "gc_sibling:") {
				used["//"+t.Pkg+":"+strings.TrimPrefix(l, "gc_sibling:")] = true
			}
		}
	}
	i, t := pickTarget(rng, r, func(i int, t *b.Target) bool { return !used[t.Label()] })
	if t == nil || len(r.Targets) < 3 {
		return nil
	}
	// keep the package alive (a vanished package is a different shape; its files would change owner)
	n := 0
	for _, o := range r.Targets {
		if o.Pkg == t.Pkg {
			n++
		}
	}
	if n < 2 {
		return nil
	}
	r.Targets = append(append([]*b.Target{}, r.Targets[:i]...), r.Targets[i+1:]...)
	return &Edit{Kind: "rm-target", Class: "build", Detail: t.Label()}
}

func editText(rng *rand.Rand, r *b.Repo) *Edit {
	_, t := pickTarget(rng, r, func(i int, t *b.Target) bool { return t.Kind == b.TextFile })
	if t == nil {
		return nil
	}
	t.Content += "!"
	return &Edit{Kind: "text-file-content", Class: "build", Detail: t.Label(), Labels: []string{t.Label()}}
}

func addDataFile(rng *rand.Rand, r *b.Repo) *Edit {
	_, t := pickTarget(rng, r, func(i int, t *b.Target) bool { return t.Kind == b.Gentest })
	if t == nil {
		return nil
	}
	name := "data_new_" + t.Name + ".txt"
	if _, ok := r.Files[filepath.Join(t.Pkg, name)]; ok {
		return nil
	}
	r.Files[filepath.Join(t.Pkg, name)] = "nd"
	if t.NamedData != nil {
		k := b.SortedKeys(t.NamedData)[0]
		t.NamedData[k] = append(t.NamedData[k], name)
	} else {
		t.Data = append(t.Data, name)
	}
	return &Edit{Kind: "add-data-file", Class: "build", Detail: t.Label() + " += " + name, Labels: []string{t.Label()}, Files: []string{filepath.Join(t.Pkg, name)}}
}

// rmDataEntry drops one local file / directory from a test's data; the file itself stays in the
// repository, so only the test's runtime definition changes.
func rmDataEntry(rng *rand.Rand, r *b.Repo) *Edit {
	_, t := pickTarget(rng, r, func(i int, t *b.Target) bool {
		if t.Kind != b.Gentest || t.NamedData != nil {
			return false
		}
		for _, d := range t.Data {
			if !b.IsLabel(d) {
				return true
			}
		}
		return false
	})
	if t == nil {
		return nil
	}
	var idx []int
	for i, d := range t.Data {
		if !b.IsLabel(d) {
			idx = append(idx, i)
		}
	}
	k := idx[rng.Intn(len(idx))]
	d := t.Data[k]
	t.Data = append(append([]string{}, t.Data[:k]...), t.Data[k+1:]...)
	return &Edit{Kind: "rm-data-entry", Class: "build", Detail: t.Label() + " -= " + d, Labels: []string{t.Label()}}
}

func addSrcFile(rng *rand.Rand, r *b.Repo) *Edit {
	_, t := pickTarget(rng, r, func(i int, t *b.Target) bool { return t.Kind != b.TextFile })
	if t == nil {
		return nil
	}
	name := "src_new_" + t.Name + ".txt"
	if _, ok := r.Files[filepath.Join(t.Pkg, name)]; ok {
		return nil
	}
	r.Files[filepath.Join(t.Pkg, name)] = "ns"
	if t.NamedSrcs != nil {
		k := b.SortedKeys(t.NamedSrcs)[0]
		t.NamedSrcs[k] = append(t.NamedSrcs[k], name)
	} else {
		t.Srcs = append(t.Srcs, name)
	}
	return &Edit{Kind: "add-src-file", Class: "build", Detail: t.Label() + " += " + name, Labels: []string{consumerLabel(t)}, Files: []string{filepath.Join(t.Pkg, name)}}
}

func renameOut(rng *rand.Rand, r *b.Repo) *Edit {
	_, t := pickTarget(rng, r, func(i int, t *b.Target) bool {
		return t.Kind == b.Genrule && !t.IsTool && len(t.Outs) > 0 && !strings.HasPrefix(t.Outs[0], "r_")
	})
	if t == nil {
		return nil
	}
	old := t.Outs[0]
	t.Outs[0] = "r_" + old
	for k, v := range t.EntryPoints {
		if v == old {
			t.EntryPoints[k] = t.Outs[0]
		}
	}
	return &Edit{Kind: "rename-out", Class: "build", Detail: t.Label() + " " + old + " -> " + t.Outs[0], Labels: []string{t.Label()}}
}

func editBuildEnv(rng *rand.Rand, r *b.Repo) *Edit {
	if len(r.BuildEnv) == 0 {
		return nil
	}
	k := b.SortedKeys(r.BuildEnv)[0]
	r.BuildEnv[k] += "c"
	return &Edit{Kind: "config-buildenv", Class: "config", Detail: k + " = " + r.BuildEnv[k]}
}

func editPathOrder(rng *rand.Rand, r *b.Repo) *Edit {
	r.PathOrder++
	return &Edit{Kind: "config-build-path", Class: "config", Detail: fmt.Sprint(r.PathOrder)}
}

func editBuildConfig(rng *rand.Rand, r *b.Repo) *Edit {
	if _, ok := r.BuildConfig["cfga"]; !ok {
		return nil
	}
	r.BuildConfig["cfga"] += "c"
	return &Edit{Kind: "config-buildconfig", Class: "config", Detail: "cfga = " + r.BuildConfig["cfga"]}
}

func editDefsSalt(rng *rand.Rand, r *b.Repo) *Edit {
	if !r.UsesDefs() {
		return nil
	}
	r.DefsSalt += "z"
	return &Edit{Kind: "build-defs-macro-body", Class: "config", Detail: "lib() macro command -> " + r.DefsSalt, Files: []string{r.DefsFile()}}
}

// editPreSalt changes only the body of the pre-build function in the subincluded build_defs file:
// the BUILD files and the parse-time graph stay the same, the command that is run does not.
func editPreSalt(rng *rand.Rand, r *b.Repo) *Edit {
	used := false
	for _, t := range r.Targets {
		used = used || t.PreBuild
	}
	if !used || !r.UsesDefs() {
		return nil
	}
	r.PreSalt += "q"
	return &Edit{Kind: "build-defs-prebuild-body", Class: "config", Detail: "_pre() in the build_defs file -> pre-" + r.PreSalt, Files: []string{r.DefsFile()}}
}

var srcEdits = []editFn{
	editFile("edit-src", "src", "named-src"),
	editFile("edit-src", "src", "named-src"),
	editFile("edit-file-in-dir-src", "dir-src", "named-dir-src"),
	editFile("edit-file-in-dir-src", "dir-src", "named-dir-src"),
	editFile("edit-file-in-nested-dir-src", "dir-src-nested"),
	editFile("edit-data", "data", "named-data"),
	editFile("edit-file-in-data-dir", "data-dir", "named-data-dir"),
	addInDir, rmInDir, moveBetweenDirs, moveBetweenDirs, renameInDir,
}

var buildEdits = []editFn{editSalt, editOp, editEnv, addDep, addDep, rmDep, editLabel, addTarget, rmTarget, editText, addDataFile, rmDataEntry, addSrcFile, renameOut}

var configEdits = []editFn{editBuildEnv, editBuildConfig, editDefsSalt, editPreSalt}

// applyEdits derives state B from state A: class decides which edit kinds may be used
// ("src": source files only; "build": BUILD edits, possibly mixed with source edits; "config":
// .plzconfig / build_defs edits). It returns nil when no valid B was found.
func applyEdits(rng *rand.Rand, a *b.Repo, class string, n int) (*b.Repo, []Edit) {
	for attempt := 0; attempt < 20; attempt++ {
		r := a.Clone()
		var edits []Edit
		for len(edits) < n {
			pool := srcEdits
			switch class {
			case "build":
				pool = buildEdits
				if len(edits) > 0 && rng.Intn(3) == 0 {
					pool = srcEdits
				}
			case "config":
				pool = configEdits
				if len(edits) > 0 {
					pool = append(append([]editFn{}, srcEdits...), buildEdits...)
				}
			}
			var e *Edit
			for try := 0; try < 30 && e == nil; try++ {
				e = pool[rng.Intn(len(pool))](rng, r)
			}
			if e == nil {
				break
			}
			edits = append(edits, *e)
		}
		if len(edits) == 0 || r.Check() != nil {
			continue
		}
		return r, edits
	}
	return nil, nil
}

func sortedSet(m map[string]bool) []string {
	out := make([]string, 0, len(m))
	for k := range m {
		out = append(out, k)
	}
	sort.Strings(out)
	return out
}

package c24

import (
	"path/filepath"

	b "verifharness/e2eblib"
)

// directedRepo is one small repository that contains every layout the property names: an exact
// source, a directory source with a nested directory, a nested package (closest-package ownership),
// a macro library with a hidden child consumed through provide/require, a test with data files and a
// data directory, a source shared by two targets, a manual target with a dependent, a root-package
// target, [buildenv]/[buildconfig] consumers and a dependent whose command ignores its inputs.
func directedRepo() *b.Repo {
	r := &b.Repo{Files: map[string]string{}, DefsSalt: "d1",
		BuildEnv: map[string]string{"verif-x": "1"}, BuildConfig: map[string]string{"cfga": "A1", "cfgb": "B"}}
	f := func(p, c string) { r.Files[p] = c }
	f("p1/s0.txt", "alpha0")
	f("p1/d0/x.txt", "x-content")
	f("p1/d0/y.txt", "y-content")
	f("p1/d0/n/z.txt", "z-content")
	f("p1/sub/s1.txt", "beta1")
	f("p1/l2.txt", "lib2")
	f("p0/t4.txt", "t4src")
	f("p0/data4.txt", "data4")
	f("p0/dd4/u.txt", "u-content")
	f("p0/dd4/v.txt", "v-content")
	f("p0/m6.txt", "m6")
	f("r8.txt", "root8")
	f("p1/sub/deep/s11.txt", "deep11")
	g := func(pkg, name string) *b.Target {
		return &b.Target{Pkg: pkg, Name: name, Kind: b.Genrule, Op: "all", Salt: "s" + name, Outs: []string{name + ".out"}}
	}
	g0 := g("p1", "g0")
	g0.Srcs = []string{"s0.txt", "d0/"}
	g1 := g("p1/sub", "g1")
	g1.Srcs = []string{"s1.txt"}
	g1.SrcLabels = []string{"//p1:g0"}
	lib2 := &b.Target{Pkg: "p1", Name: "lib2", Kind: b.Lib, Salt: "slib2", Srcs: []string{"l2.txt"}}
	g3 := g("p1/sub", "g3")
	g3.SrcLabels = []string{"//p1:lib2"}
	g3.Requires = []string{"lx"}
	t4 := &b.Target{Pkg: "p0", Name: "t4", Kind: b.Gentest, Op: "all", Salt: "st4", Outs: []string{"t4_test.out"},
		Srcs: []string{"t4.txt"}, Data: []string{"data4.txt", "dd4/", "//p1:g0"}}
	g5 := g("p0", "g5")
	g5.Srcs = []string{"t4.txt"}
	m6 := g("p0", "m6")
	m6.Srcs = []string{"m6.txt"}
	m6.Labels = []string{"manual"}
	g7 := g("p0", "g7")
	g7.SrcLabels = []string{"//p0:m6"}
	r8 := g("", "r8")
	r8.Srcs = []string{"r8.txt"}
	c9 := g("p0", "c9")
	c9.BuildEnv = "verif-x"
	c9.ConfigKey = "cfga"
	k10 := g("p0", "k10")
	k10.Op = "const"
	k10.Deps = []string{"//p0:g5"}
	g11 := g("p1/sub/deep", "g11")
	g11.Srcs = []string{"s11.txt"}
	pg13 := g("p0", "pg13")
	pg13.PreBuild = true
	r.PreSalt = "p1"
	r.Targets = []*b.Target{g0, g1, lib2, g3, t4, g5, m6, g7, r8, c9, k10, g11, pg13}
	return r
}

// directedCases are single edits of directedRepo (applied to a clone).
func directedCases() []func(r *b.Repo) Edit {
	edit := func(kind, path string) func(r *b.Repo) Edit {
		return func(r *b.Repo) Edit {
			r.Files[path] = changeContent(r.Files[path])
			return Edit{Kind: kind, Class: "src", Detail: path, Files: []string{path}}
		}
	}
	move := func(kind, from, to string) func(r *b.Repo) Edit {
		return func(r *b.Repo) Edit {
			r.Files[to] = r.Files[from]
			delete(r.Files, from)
			return Edit{Kind: kind, Class: "src", Detail: from + " -> " + to, Files: []string{from, to}}
		}
	}
	return []func(r *b.Repo) Edit{
		edit("edit-src", "p1/s0.txt"),
		edit("edit-file-in-dir-src", "p1/d0/x.txt"),
		edit("edit-file-in-nested-dir-src", "p1/d0/n/z.txt"),
		func(r *b.Repo) Edit {
			r.Files["p1/d0/added.txt"] = "added"
			return Edit{Kind: "add-file-in-dir-src", Class: "src", Detail: "p1/d0/added.txt", Files: []string{"p1/d0/added.txt"}}
		},
		func(r *b.Repo) Edit {
			delete(r.Files, "p1/d0/y.txt")
			return Edit{Kind: "rm-file-in-dir-src", Class: "src", Detail: "p1/d0/y.txt", Files: []string{"p1/d0/y.txt"}}
		},
		move("move-file-out-of-dir-src", "p1/d0/y.txt", "p1/attic/y.txt"),
		move("move-file-between-dir-srcs", "p0/dd4/v.txt", "p1/d0/moved_v.txt"),
		move("rename-file-in-dir-src", "p1/d0/y.txt", "p1/d0/r_y.txt"),
		edit("edit-src", "p1/sub/s1.txt"),      // nested package: owner is p1/sub, not p1
		edit("edit-src", "p1/sub/deep/s11.txt"), // two levels of nesting
		edit("edit-src", "p1/l2.txt"),           // consumed by a hidden child; dependent through provide
		edit("edit-data", "p0/data4.txt"),
		edit("edit-file-in-data-dir", "p0/dd4/u.txt"),
		edit("edit-src", "p0/t4.txt"), // shared by a test and a genrule; k10 ignores its inputs
		edit("edit-src", "p0/m6.txt"), // manual consumer, non-manual dependent
		edit("edit-src", "r8.txt"),    // root package
		func(r *b.Repo) Edit {
			r.BuildEnv["verif-x"] = "2"
			return Edit{Kind: "config-buildenv", Class: "config", Detail: "verif-x = 2"}
		},
		func(r *b.Repo) Edit {
			r.BuildConfig["cfga"] = "A2"
			return Edit{Kind: "config-buildconfig", Class: "config", Detail: "cfga = A2"}
		},
		func(r *b.Repo) Edit {
			r.DefsSalt = "d2"
			return Edit{Kind: "build-defs-macro-body", Class: "config", Detail: "lib() macro command", Files: []string{r.DefsFile()}}
		},
		func(r *b.Repo) Edit { // only the body of a pre-build function changes
			r.PreSalt = "p2"
			return Edit{Kind: "build-defs-prebuild-body", Class: "config", Detail: "_pre() in the build_defs file", Files: []string{r.DefsFile()}}
		},
		func(r *b.Repo) Edit {
			r.Target("//p1:g0").Salt += "x"
			return Edit{Kind: "cmd", Class: "build", Detail: "//p1:g0", Labels: []string{"//p1:g0"}}
		},
		func(r *b.Repo) Edit {
			t := r.Target("//p1:lib2")
			t.Salt += "x"
			return Edit{Kind: "cmd", Class: "build", Detail: "//p1:lib2 (hidden child)", Labels: []string{t.ChildLabel()}}
		},
		func(r *b.Repo) Edit {
			t := r.Target("//p0:t4")
			r.Files["p0/data_new.txt"] = "nd"
			t.Data = append(t.Data, "data_new.txt")
			return Edit{Kind: "add-data-file", Class: "build", Detail: "//p0:t4 += data_new.txt", Labels: []string{t.Label()}, Files: []string{"p0/data_new.txt"}}
		},
		func(r *b.Repo) Edit {
			t := r.Target("//p0:t4")
			t.Data = append(t.Data, "//p1:lib2")
			return Edit{Kind: "add-data-label", Class: "build", Detail: "//p0:t4 += //p1:lib2", Labels: []string{t.Label()}}
		},
		func(r *b.Repo) Edit { // the file stays, only the test's runtime data list changes
			t := r.Target("//p0:t4")
			t.Data = []string{"dd4/", "//p1:g0"}
			return Edit{Kind: "rm-data-entry", Class: "build", Detail: "//p0:t4 -= data4.txt", Labels: []string{t.Label()}}
		},
		func(r *b.Repo) Edit {
			t := r.Target("//p1:lib2")
			t.Labels = append(t.Labels, "l3")
			return Edit{Kind: "add-label", Class: "build", Detail: "//p1:lib2", Labels: []string{t.Label()}}
		},
		func(r *b.Repo) Edit {
			t := r.Target("//p0:g7")
			t.Env = map[string]string{"VAR_A": "1"}
			return Edit{Kind: "env", Class: "build", Detail: "//p0:g7 VAR_A", Labels: []string{t.Label()}}
		},
		func(r *b.Repo) Edit {
			t := r.Target("//p0:k10")
			t.Deps = append(t.Deps, "//p0:c9")
			return Edit{Kind: "add-dep", Class: "build", Detail: "//p0:k10 += //p0:c9", Labels: []string{t.Label()}}
		},
		func(r *b.Repo) Edit {
			t := &b.Target{Pkg: "p1/sub", Name: "g12", Kind: b.Genrule, Op: "all", Salt: "new", Outs: []string{"g12.out"}, SrcLabels: []string{"//p1:g0"}}
			r.Targets = append(r.Targets, t)
			return Edit{Kind: "add-target", Class: "build", Detail: t.Label(), Labels: []string{t.Label()}}
		},
	}
}

var _ = filepath.Join
